// extract: regenerates the Lean "Gen" modules from /repo's CURRENT working tree.
//
//	extract -repo /repo -spec props/C08/extract.json -out lean/SwV/Gen/C08.lean [-tags verif,5BytesOffset]
//
// A spec names constants, functions to translate (restricted Go subset, see
// translate.go) and functions to pin (normalised source text). The output is a
// Lean module `SwV.Gen.<Prop>` over which models are parameterised and bridge
// theorems are stated, so that a source edit re-checks (and may break) a proof
// obligation. The translator fails loudly: an untranslatable function yields
// `-- UNTRANSLATABLE <name>: <reason>` and NO definition, so the bridge theorem
// that mentions it stops compiling.
package main

import (
	"bytes"
	"crypto/sha256"
	"encoding/json"
	"flag"
	"fmt"
	"go/ast"
	"go/constant"
	"go/printer"
	"go/token"
	"go/types"
	"os"
	"sort"
	"strings"

	"golang.org/x/tools/go/packages"
)

type ConstSpec struct {
	Pkg  string `json:"pkg"`  // path relative to repo root, e.g. weed/storage/types
	Name string `json:"name"` // Go identifier
	Lean string `json:"lean"` // Lean identifier (default: Name)
}

type FuncSpec struct {
	Pkg  string `json:"pkg"`
	Recv string `json:"recv"` // receiver type name, "" for plain functions
	Name string `json:"name"`
	Lean string `json:"lean"`
}

// ExprSpec extracts a syntactic fact: the text of the first expression/statement
// inside a function that matches a locator.
type ExprSpec struct {
	Pkg      string `json:"pkg"`
	Recv     string `json:"recv"`
	Func     string `json:"func"`
	Kind     string `json:"kind"`     // "forcond" | "ifcond" | "callarg" | "binop"
	Contains string `json:"contains"` // substring the printed node must contain
	Index    int    `json:"index"`    // n-th match (0-based)
	Arg      int    `json:"arg"`      // for callarg: which argument
	Lean     string `json:"lean"`
}

type Spec struct {
	Property  string      `json:"property"`
	Tags      []string    `json:"tags"`
	Consts    []ConstSpec `json:"consts"`
	Translate []FuncSpec  `json:"translate"`
	Pins      []FuncSpec  `json:"pins"`
	Exprs     []ExprSpec  `json:"exprs"`
	Namespace string      `json:"namespace"` // default SwV.Gen.<Property>
}

type loaded struct {
	pkgs map[string]*packages.Package // by relative dir
	fset *token.FileSet
}

func load(repo string, tags []string, dirs []string) (*loaded, error) {
	fset := token.NewFileSet()
	cfg := &packages.Config{
		Mode: packages.NeedName | packages.NeedSyntax | packages.NeedTypes | packages.NeedTypesInfo | packages.NeedFiles | packages.NeedImports,
		Dir:  repo,
		Fset: fset,
	}
	if len(tags) > 0 {
		cfg.BuildFlags = []string{"-tags=" + strings.Join(tags, ",")}
	}
	var pats []string
	for _, d := range dirs {
		pats = append(pats, "./"+d)
	}
	pkgs, err := packages.Load(cfg, pats...)
	if err != nil {
		return nil, err
	}
	l := &loaded{pkgs: map[string]*packages.Package{}, fset: fset}
	for _, p := range pkgs {
		if len(p.Errors) > 0 {
			return nil, fmt.Errorf("package %s does not type-check: %v", p.PkgPath, p.Errors[0])
		}
		rel := strings.TrimPrefix(p.PkgPath, "github.com/chrislusf/seaweedfs/")
		l.pkgs[rel] = p
	}
	return l, nil
}

func findFunc(p *packages.Package, recv, name string) *ast.FuncDecl {
	for _, f := range p.Syntax {
		for _, d := range f.Decls {
			fd, ok := d.(*ast.FuncDecl)
			if !ok || fd.Name.Name != name {
				continue
			}
			r := ""
			if fd.Recv != nil && len(fd.Recv.List) == 1 {
				t := fd.Recv.List[0].Type
				if st, ok := t.(*ast.StarExpr); ok {
					t = st.X
				}
				if id, ok := t.(*ast.Ident); ok {
					r = id.Name
				}
			}
			if r == recv {
				return fd
			}
		}
	}
	return nil
}

func nodeText(fset *token.FileSet, n ast.Node) string {
	var b bytes.Buffer
	cfg := printer.Config{Mode: printer.RawFormat}
	cfg.Fprint(&b, fset, n)
	// normalise whitespace so that re-indentation is harmless
	return strings.Join(strings.Fields(b.String()), " ")
}

func leanString(s string) string {
	var b strings.Builder
	b.WriteByte('"')
	for _, r := range s {
		switch r {
		case '"':
			b.WriteString("\\\"")
		case '\\':
			b.WriteString("\\\\")
		case '\n':
			b.WriteString("\\n")
		case '\t':
			b.WriteString("\\t")
		default:
			b.WriteRune(r)
		}
	}
	b.WriteByte('"')
	return b.String()
}

func main() {
	repo := flag.String("repo", "/repo", "repository root")
	specPath := flag.String("spec", "", "spec json")
	out := flag.String("out", "", "output lean file")
	tagsFlag := flag.String("tags", "", "extra build tags (comma separated), overrides spec tags")
	suffix := flag.String("suffix", "", "namespace suffix (e.g. T5 for a second build-tag variant)")
	flag.Parse()

	raw, err := os.ReadFile(*specPath)
	if err != nil {
		fatal(err)
	}
	var spec Spec
	if err := json.Unmarshal(raw, &spec); err != nil {
		fatal(err)
	}
	tags := spec.Tags
	if *tagsFlag != "" {
		tags = strings.Split(*tagsFlag, ",")
	}
	dirset := map[string]bool{}
	for _, c := range spec.Consts {
		dirset[c.Pkg] = true
	}
	for _, f := range spec.Translate {
		dirset[f.Pkg] = true
	}
	for _, f := range spec.Pins {
		dirset[f.Pkg] = true
	}
	for _, e := range spec.Exprs {
		dirset[e.Pkg] = true
	}
	var dirs []string
	for d := range dirset {
		dirs = append(dirs, d)
	}
	sort.Strings(dirs)

	ns := spec.Namespace
	if ns == "" {
		ns = "SwV.Gen." + spec.Property
	}
	ns += *suffix

	var b strings.Builder
	fmt.Fprintf(&b, "-- GENERATED by /verif/extract from %s (tags=%v). Do not edit; regenerated on every check run.\n", *repo, tags)
	fmt.Fprintf(&b, "import SwV.Common.GoInt\nset_option linter.unusedVariables false\nnamespace %s\nopen SwV.Go\n\n", ns)

	problems := 0
	l, err := load(*repo, tags, dirs)
	if err != nil {
		fmt.Fprintf(&b, "-- LOADERROR %s\n", strings.ReplaceAll(err.Error(), "\n", " "))
		fmt.Fprintf(&b, "end %s\n", ns)
		os.WriteFile(*out, []byte(b.String()), 0644)
		fmt.Fprintf(os.Stderr, "extract: %v\n", err)
		os.Exit(3)
	}

	// constants
	for _, c := range spec.Consts {
		p := l.pkgs[c.Pkg]
		name := c.Lean
		if name == "" {
			name = c.Name
		}
		if p == nil {
			fmt.Fprintf(&b, "-- MISSING package %s\n", c.Pkg)
			problems++
			continue
		}
		obj := p.Types.Scope().Lookup(c.Name)
		co, ok := obj.(*types.Const)
		if !ok {
			fmt.Fprintf(&b, "-- MISSING const %s.%s\n", c.Pkg, c.Name)
			problems++
			continue
		}
		v := co.Val()
		switch v.Kind() {
		case constant.Int:
			fmt.Fprintf(&b, "/-- Go: %s.%s -/\ndef %s : Int := %s\n", c.Pkg, c.Name, name, leanInt(v.ExactString()))
		case constant.String:
			fmt.Fprintf(&b, "/-- Go: %s.%s -/\ndef %s : String := %s\n", c.Pkg, c.Name, name, leanString(constant.StringVal(v)))
		case constant.Bool:
			fmt.Fprintf(&b, "/-- Go: %s.%s -/\ndef %s : Bool := %v\n", c.Pkg, c.Name, name, constant.BoolVal(v))
		default:
			fmt.Fprintf(&b, "-- UNSUPPORTED const kind %s.%s\n", c.Pkg, c.Name)
			problems++
		}
	}
	b.WriteString("\n")

	// syntactic facts
	for _, e := range spec.Exprs {
		p := l.pkgs[e.Pkg]
		if p == nil {
			fmt.Fprintf(&b, "-- MISSING package %s\n", e.Pkg)
			problems++
			continue
		}
		fd := findFunc(p, e.Recv, e.Func)
		if fd == nil {
			fmt.Fprintf(&b, "-- MISSING func %s.%s for expr %s\n", e.Pkg, e.Func, e.Lean)
			problems++
			continue
		}
		txt, ok := findExpr(l.fset, fd, e)
		if !ok {
			fmt.Fprintf(&b, "-- MISSING expr %s in %s.%s\n", e.Lean, e.Pkg, e.Func)
			problems++
			continue
		}
		fmt.Fprintf(&b, "/-- Go: %s %s.%s (%s containing %q #%d) -/\ndef %s : String := %s\n", e.Kind, e.Pkg, e.Func, e.Kind, e.Contains, e.Index, e.Lean, leanString(txt))
	}
	b.WriteString("\n")

	// translated functions
	tr := newTranslator(l, ns)
	for _, f := range spec.Translate {
		tr.request(f)
	}
	b.WriteString(tr.emit())
	problems += tr.problems

	// pins
	for _, f := range spec.Pins {
		p := l.pkgs[f.Pkg]
		name := f.Lean
		if name == "" {
			name = "src_" + f.Name
		}
		if p == nil {
			fmt.Fprintf(&b, "-- MISSING package %s\n", f.Pkg)
			problems++
			continue
		}
		fd := findFunc(p, f.Recv, f.Name)
		if fd == nil {
			fmt.Fprintf(&b, "-- MISSING func %s.%s\n", f.Pkg, f.Name)
			problems++
			continue
		}
		txt := nodeText(l.fset, fd)
		sum := sha256.Sum256([]byte(txt))
		fmt.Fprintf(&b, "/-- sha256 of the whitespace-normalised source of %s.%s%s -/\ndef %s : String := \"%x\"\n", f.Pkg, recvDot(f.Recv), f.Name, name, sum[:8])
	}

	fmt.Fprintf(&b, "\nend %s\n", ns)
	if err := os.WriteFile(*out, []byte(b.String()), 0644); err != nil {
		fatal(err)
	}
	if problems > 0 {
		fmt.Fprintf(os.Stderr, "extract: %d problems (see comments in %s)\n", problems, *out)
		os.Exit(2)
	}
}

func recvDot(r string) string {
	if r == "" {
		return ""
	}
	return r + "."
}

func leanInt(s string) string {
	if strings.HasPrefix(s, "-") {
		return "(" + s + ")"
	}
	return s
}

func fatal(err error) {
	fmt.Fprintln(os.Stderr, "extract:", err)
	os.Exit(1)
}

func findExpr(fset *token.FileSet, fd *ast.FuncDecl, e ExprSpec) (string, bool) {
	idx := 0
	var found string
	ok := false
	ast.Inspect(fd.Body, func(n ast.Node) bool {
		if ok || n == nil {
			return false
		}
		var cand ast.Node
		switch x := n.(type) {
		case *ast.ForStmt:
			if e.Kind == "forcond" && x.Cond != nil {
				cand = x.Cond
			}
		case *ast.IfStmt:
			if e.Kind == "ifcond" {
				cand = x.Cond
			}
		case *ast.CallExpr:
			if e.Kind == "callarg" && strings.Contains(nodeText(fset, x.Fun), e.Contains) && e.Arg < len(x.Args) {
				if idx == e.Index {
					found = nodeText(fset, x.Args[e.Arg])
					ok = true
					return false
				}
				idx++
				return true
			}
		case *ast.BinaryExpr:
			if e.Kind == "binop" {
				cand = x
			}
		case *ast.AssignStmt:
			if e.Kind == "assign" {
				cand = x
			}
		}
		if cand != nil {
			t := nodeText(fset, cand)
			if strings.Contains(t, e.Contains) {
				if idx == e.Index {
					found = t
					ok = true
					return false
				}
				idx++
			}
		}
		return true
	})
	return found, ok
}
