package main

// Mini translator: a restricted, loop-free subset of Go to Lean 4 definitions over
// `Int`/`Bool`/`String`, faithful to Go's fixed-width arithmetic (see
// lean/SwV/Common/GoInt.lean).
//
// Supported: parameters/results of integer, bool, string, error and flat struct
// types (structs are flattened to one Lean parameter per field; pointers to
// structs are assumed non-nil, `p == nil` translates to `false`); `:=`, `=`,
// `op=`, `++/--`, `var`; `if/else` (with init), `switch` (tagged or not, no
// fallthrough), early `return`, named results; integer/boolean/string operators,
// conversions between integer types, calls to other translatable functions of the
// loaded packages, `fmt.Sprintf` with `%d`/`%0Nd`, `strconv.Itoa`, `errors.New`,
// `fmt.Errorf` (error text is abstracted to "err").
// Unsupported constructs make the function UNTRANSLATABLE (no definition is
// emitted, so bridge theorems naming it fail and the check reports that).

import (
	"fmt"
	"go/ast"
	"go/constant"
	"go/token"
	"go/types"
	"strings"

	"golang.org/x/tools/go/packages"
)

type translator struct {
	l        *loaded
	ns       string
	defs     []string          // emitted in dependency order
	names    map[string]string // go key -> lean name
	inflight map[string]bool
	problems int
	notes    []string
}

func newTranslator(l *loaded, ns string) *translator {
	return &translator{l: l, ns: ns, names: map[string]string{}, inflight: map[string]bool{}}
}

func (t *translator) emit() string {
	var b strings.Builder
	for _, n := range t.notes {
		b.WriteString(n + "\n")
	}
	for _, d := range t.defs {
		b.WriteString(d + "\n")
	}
	return b.String()
}

func fkey(pkg, recv, name string) string { return pkg + ":" + recv + "." + name }

func (t *translator) request(f FuncSpec) {
	_, err := t.ensure(f.Pkg, f.Recv, f.Name, f.Lean)
	if err != nil {
		t.notes = append(t.notes, fmt.Sprintf("-- UNTRANSLATABLE %s.%s%s: %v", f.Pkg, recvDot(f.Recv), f.Name, err))
		t.problems++
	}
}

func (t *translator) pkgOf(rel string) *packages.Package { return t.l.pkgs[rel] }

func (t *translator) ensure(pkg, recv, name, lean string) (string, error) {
	k := fkey(pkg, recv, name)
	if n, ok := t.names[k]; ok {
		return n, nil
	}
	if t.inflight[k] {
		return "", fmt.Errorf("recursion through %s", k)
	}
	p := t.pkgOf(pkg)
	if p == nil {
		return "", fmt.Errorf("package %s not loaded (add it to the spec)", pkg)
	}
	fd := findFunc(p, recv, name)
	if fd == nil || fd.Body == nil {
		return "", fmt.Errorf("function not found")
	}
	if lean == "" {
		lean = name
		if recv != "" {
			lean = recv + "_" + name
		}
	}
	t.inflight[k] = true
	defer delete(t.inflight, k)
	ft := &fnTr{t: t, p: p, pkg: pkg, vars: map[types.Object]string{}, used: map[string]int{}}
	def, err := ft.translate(fd, lean)
	if err != nil {
		return "", err
	}
	t.names[k] = lean
	t.defs = append(t.defs, fmt.Sprintf("/-- Go: %s %s%s -/\n%s", pkg, recvDot(recv), name, def))
	return lean, nil
}

type fnTr struct {
	t       *translator
	p       *packages.Package
	pkg     string
	vars    map[types.Object]string // scalar vars; struct vars use name prefix + "_" + field
	used    map[string]int
	results []types.Object // named results
	resTys  []types.Type
	swn     int
}

func (f *fnTr) fresh(obj types.Object) string {
	if n, ok := f.vars[obj]; ok {
		return n
	}
	base := "v_" + obj.Name()
	c := f.used[base]
	f.used[base] = c + 1
	n := base
	if c > 0 {
		n = fmt.Sprintf("%s_%d", base, c)
	}
	f.vars[obj] = n
	return n
}

func structOf(ty types.Type) *types.Struct {
	if p, ok := ty.Underlying().(*types.Pointer); ok {
		ty = p.Elem()
	}
	s, _ := ty.Underlying().(*types.Struct)
	return s
}

func isError(ty types.Type) bool {
	return ty.String() == "error"
}

func intInfo(ty types.Type) (bits int, signed bool, ok bool) {
	b, isb := ty.Underlying().(*types.Basic)
	if !isb {
		return 0, false, false
	}
	switch b.Kind() {
	case types.Int8:
		return 8, true, true
	case types.Int16:
		return 16, true, true
	case types.Int32:
		return 32, true, true
	case types.Int64, types.Int:
		return 64, true, true
	case types.Uint8:
		return 8, false, true
	case types.Uint16:
		return 16, false, true
	case types.Uint32:
		return 32, false, true
	case types.Uint64, types.Uint, types.Uintptr:
		return 64, false, true
	case types.UntypedInt, types.UntypedRune:
		return 64, true, true
	}
	return 0, false, false
}

func wrap(ty types.Type, s string) string {
	bits, signed, ok := intInfo(ty)
	if !ok {
		return s
	}
	if signed {
		return fmt.Sprintf("(wrapS %d %s)", bits, s)
	}
	return fmt.Sprintf("(wrapU %d %s)", bits, s)
}

// flat field list of a struct type: only scalar (int/bool/string) fields are supported
func (f *fnTr) fields(st *types.Struct) ([]*types.Var, error) {
	var out []*types.Var
	for i := 0; i < st.NumFields(); i++ {
		fl := st.Field(i)
		if _, err := f.leanScalarType(fl.Type()); err != nil {
			return nil, fmt.Errorf("struct field %s: %v", fl.Name(), err)
		}
		out = append(out, fl)
	}
	return out, nil
}

func (f *fnTr) leanScalarType(ty types.Type) (string, error) {
	if isError(ty) {
		return "(Option String)", nil
	}
	if b, ok := ty.Underlying().(*types.Basic); ok {
		switch {
		case b.Info()&types.IsInteger != 0:
			return "Int", nil
		case b.Info()&types.IsBoolean != 0:
			return "Bool", nil
		case b.Info()&types.IsString != 0:
			return "String", nil
		}
	}
	return "", fmt.Errorf("unsupported type %s", ty.String())
}

func (f *fnTr) leanType(ty types.Type) (string, error) {
	if st := structOf(ty); st != nil {
		fs, err := f.fields(st)
		if err != nil {
			return "", err
		}
		var parts []string
		for _, fl := range fs {
			s, _ := f.leanScalarType(fl.Type())
			parts = append(parts, s)
		}
		if len(parts) == 0 {
			return "Unit", nil
		}
		return "(" + strings.Join(parts, " × ") + ")", nil
	}
	return f.leanScalarType(ty)
}

func (f *fnTr) zero(ty types.Type) (string, error) {
	if st := structOf(ty); st != nil {
		fs, err := f.fields(st)
		if err != nil {
			return "", err
		}
		var parts []string
		for _, fl := range fs {
			z, _ := f.zero(fl.Type())
			parts = append(parts, z)
		}
		return "(" + strings.Join(parts, ", ") + ")", nil
	}
	s, err := f.leanScalarType(ty)
	if err != nil {
		return "", err
	}
	switch s {
	case "Int":
		return "(0 : Int)", nil
	case "Bool":
		return "false", nil
	case "String":
		return "\"\"", nil
	}
	return "none", nil
}

func (f *fnTr) bindParam(obj *types.Var) (string, error) {
	ty := obj.Type()
	if st := structOf(ty); st != nil {
		fs, err := f.fields(st)
		if err != nil {
			return "", err
		}
		base := f.fresh(obj)
		var parts []string
		for _, fl := range fs {
			s, _ := f.leanScalarType(fl.Type())
			parts = append(parts, fmt.Sprintf("(%s_%s : %s)", base, fl.Name(), s))
		}
		return strings.Join(parts, " "), nil
	}
	s, err := f.leanScalarType(ty)
	if err != nil {
		return "", err
	}
	return fmt.Sprintf("(%s : %s)", f.fresh(obj), s), nil
}

func (f *fnTr) translate(fd *ast.FuncDecl, lean string) (string, error) {
	info := f.p.TypesInfo
	var params []string
	if fd.Recv != nil {
		for _, fl := range fd.Recv.List {
			for _, nm := range fl.Names {
				obj := info.Defs[nm].(*types.Var)
				s, err := f.bindParam(obj)
				if err != nil {
					return "", err
				}
				params = append(params, s)
			}
		}
	}
	for _, fl := range fd.Type.Params.List {
		if len(fl.Names) == 0 {
			return "", fmt.Errorf("unnamed parameter")
		}
		for _, nm := range fl.Names {
			obj := info.Defs[nm].(*types.Var)
			s, err := f.bindParam(obj)
			if err != nil {
				return "", err
			}
			params = append(params, s)
		}
	}
	var resTypes []string
	var prelude []string
	if fd.Type.Results != nil {
		for _, fl := range fd.Type.Results.List {
			ty := info.TypeOf(fl.Type)
			lt, err := f.leanType(ty)
			if err != nil {
				return "", err
			}
			n := len(fl.Names)
			if n == 0 {
				n = 1
			}
			for i := 0; i < n; i++ {
				resTypes = append(resTypes, lt)
				f.resTys = append(f.resTys, ty)
			}
			for _, nm := range fl.Names {
				obj := info.Defs[nm].(*types.Var)
				if structOf(ty) != nil {
					return "", fmt.Errorf("named struct result unsupported")
				}
				z, _ := f.zero(ty)
				prelude = append(prelude, fmt.Sprintf("let %s := %s", f.fresh(obj), z))
				f.results = append(f.results, obj)
			}
		}
	}
	if len(resTypes) == 0 {
		return "", fmt.Errorf("no results")
	}
	body, err := f.stmts(fd.Body.List, 1)
	if err != nil {
		return "", err
	}
	var b strings.Builder
	fmt.Fprintf(&b, "def %s %s : %s :=\n", lean, strings.Join(params, " "), strings.Join(resTypes, " × "))
	for _, p := range prelude {
		fmt.Fprintf(&b, "  %s\n", p)
	}
	b.WriteString(body)
	b.WriteString("\n")
	return b.String(), nil
}

func ind(d int) string { return strings.Repeat("  ", d) }

func (f *fnTr) fallOff(d int) (string, error) {
	if len(f.results) == 0 {
		return "", fmt.Errorf("control reaches end of function without return")
	}
	var parts []string
	for _, r := range f.results {
		parts = append(parts, f.vars[r])
	}
	return ind(d) + tuple(parts), nil
}

func tuple(parts []string) string {
	if len(parts) == 1 {
		return parts[0]
	}
	return "(" + strings.Join(parts, ", ") + ")"
}

// stmts translates a statement list (the tail of the function from here on).
func (f *fnTr) stmts(list []ast.Stmt, d int) (string, error) {
	if len(list) == 0 {
		return f.fallOff(d)
	}
	info := f.p.TypesInfo
	s, rest := list[0], list[1:]
	switch x := s.(type) {
	case *ast.ReturnStmt:
		if len(x.Results) == 0 {
			return f.fallOff(d)
		}
		var parts []string
		for i, r := range x.Results {
			e, err := f.expr(r)
			if err != nil {
				return "", err
			}
			// implicit conversion of untyped constants needs nothing; typed values are already in range
			_ = i
			parts = append(parts, e)
		}
		return ind(d) + tuple(parts), nil
	case *ast.BlockStmt:
		return f.stmts(append(append([]ast.Stmt{}, x.List...), rest...), d)
	case *ast.EmptyStmt:
		return f.stmts(rest, d)
	case *ast.DeclStmt:
		gd, ok := x.Decl.(*ast.GenDecl)
		if !ok || gd.Tok != token.VAR {
			return "", fmt.Errorf("unsupported declaration")
		}
		var lines []string
		for _, sp := range gd.Specs {
			vs := sp.(*ast.ValueSpec)
			for i, nm := range vs.Names {
				obj := info.Defs[nm]
				if obj == nil {
					continue
				}
				if structOf(obj.Type()) != nil {
					return "", fmt.Errorf("local struct var unsupported")
				}
				var e string
				var err error
				if i < len(vs.Values) {
					e, err = f.exprAs(vs.Values[i], obj.Type())
				} else {
					e, err = f.zero(obj.Type())
				}
				if err != nil {
					return "", err
				}
				lines = append(lines, fmt.Sprintf("%slet %s := %s", ind(d), f.fresh(obj), e))
			}
		}
		tail, err := f.stmts(rest, d)
		if err != nil {
			return "", err
		}
		return strings.Join(append(lines, tail), "\n"), nil
	case *ast.AssignStmt:
		line, err := f.assign(x, d)
		if err != nil {
			return "", err
		}
		tail, err := f.stmts(rest, d)
		if err != nil {
			return "", err
		}
		return line + "\n" + tail, nil
	case *ast.IncDecStmt:
		id, ok := x.X.(*ast.Ident)
		if !ok {
			return "", fmt.Errorf("unsupported ++/-- target")
		}
		obj := info.Uses[id]
		op := "+"
		if x.Tok == token.DEC {
			op = "-"
		}
		name := f.fresh(obj)
		line := fmt.Sprintf("%slet %s := %s", ind(d), name, wrap(obj.Type(), fmt.Sprintf("(%s %s 1)", name, op)))
		tail, err := f.stmts(rest, d)
		if err != nil {
			return "", err
		}
		return line + "\n" + tail, nil
	case *ast.IfStmt:
		var pre string
		if x.Init != nil {
			as, ok := x.Init.(*ast.AssignStmt)
			if !ok {
				return "", fmt.Errorf("unsupported if-init")
			}
			l, err := f.assign(as, d)
			if err != nil {
				return "", err
			}
			pre = l + "\n"
		}
		c, err := f.expr(x.Cond)
		if err != nil {
			return "", err
		}
		thenS, err := f.stmts(append(append([]ast.Stmt{}, x.Body.List...), rest...), d+1)
		if err != nil {
			return "", err
		}
		var elseList []ast.Stmt
		if x.Else != nil {
			elseList = append(elseList, x.Else)
		}
		elseS, err := f.stmts(append(elseList, rest...), d+1)
		if err != nil {
			return "", err
		}
		return fmt.Sprintf("%s%sif %s then\n%s\n%selse\n%s", pre, ind(d), c, thenS, ind(d), elseS), nil
	case *ast.SwitchStmt:
		var pre string
		if x.Init != nil {
			return "", fmt.Errorf("unsupported switch-init")
		}
		tag := ""
		var tagTy types.Type
		if x.Tag != nil {
			e, err := f.expr(x.Tag)
			if err != nil {
				return "", err
			}
			tagTy = info.TypeOf(x.Tag)
			f.swn++
			tag = fmt.Sprintf("sw_%d", f.swn)
			pre = fmt.Sprintf("%slet %s := %s\n", ind(d), tag, e)
		}
		var deflt []ast.Stmt
		hasDefault := false
		type arm struct {
			cond string
			body []ast.Stmt
		}
		var arms []arm
		for _, cc := range x.Body.List {
			c := cc.(*ast.CaseClause)
			for _, st := range c.Body {
				if br, ok := st.(*ast.BranchStmt); ok {
					return "", fmt.Errorf("unsupported %s in switch", br.Tok)
				}
			}
			if c.List == nil {
				hasDefault = true
				deflt = c.Body
				continue
			}
			var conds []string
			for _, ce := range c.List {
				e, err := f.expr(ce)
				if err != nil {
					return "", err
				}
				if tag != "" {
					_ = tagTy
					conds = append(conds, fmt.Sprintf("decide (%s = %s)", tag, e))
				} else {
					conds = append(conds, e)
				}
			}
			arms = append(arms, arm{"(" + strings.Join(conds, " || ") + ")", c.Body})
		}
		_ = hasDefault
		out := pre
		depth := d
		for _, a := range arms {
			body, err := f.stmts(append(append([]ast.Stmt{}, a.body...), rest...), depth+1)
			if err != nil {
				return "", err
			}
			out += fmt.Sprintf("%sif %s then\n%s\n%selse\n", ind(depth), a.cond, body, ind(depth))
			depth++
		}
		body, err := f.stmts(append(append([]ast.Stmt{}, deflt...), rest...), depth)
		if err != nil {
			return "", err
		}
		return out + body, nil
	case *ast.ExprStmt:
		return "", fmt.Errorf("unsupported expression statement (side effects)")
	case *ast.ForStmt, *ast.RangeStmt:
		return "", fmt.Errorf("loops are outside the translatable subset")
	}
	return "", fmt.Errorf("unsupported statement %T", s)
}

func (f *fnTr) assign(x *ast.AssignStmt, d int) (string, error) {
	info := f.p.TypesInfo
	if len(x.Lhs) != len(x.Rhs) {
		// tuple-returning call: a, b := g()
		if len(x.Rhs) == 1 {
			e, err := f.expr(x.Rhs[0])
			if err != nil {
				return "", err
			}
			var names []string
			for _, l := range x.Lhs {
				id, ok := l.(*ast.Ident)
				if !ok {
					return "", fmt.Errorf("unsupported assignment target")
				}
				if id.Name == "_" {
					names = append(names, "_")
					continue
				}
				obj := info.ObjectOf(id)
				if structOf(obj.Type()) != nil {
					return "", fmt.Errorf("struct in tuple assignment unsupported")
				}
				names = append(names, f.fresh(obj))
			}
			return fmt.Sprintf("%slet (%s) := %s", ind(d), strings.Join(names, ", "), e), nil
		}
		return "", fmt.Errorf("unsupported assignment shape")
	}
	var lines []string
	if len(x.Lhs) > 1 {
		return "", fmt.Errorf("parallel assignment unsupported")
	}
	l, r := x.Lhs[0], x.Rhs[0]
	var obj types.Object
	var target string
	switch lt := l.(type) {
	case *ast.Ident:
		if lt.Name == "_" {
			return ind(d) + "let _ := ()", nil
		}
		obj = info.ObjectOf(lt)
		if structOf(obj.Type()) != nil {
			// struct-valued local: bind each field
			st := structOf(obj.Type())
			fs, err := f.fields(st)
			if err != nil {
				return "", err
			}
			e, err := f.expr(r)
			if err != nil {
				return "", err
			}
			base := f.fresh(obj)
			var names []string
			for _, fl := range fs {
				names = append(names, base+"_"+fl.Name())
			}
			return fmt.Sprintf("%slet (%s) := %s", ind(d), strings.Join(names, ", "), e), nil
		}
		target = f.fresh(obj)
	case *ast.SelectorExpr:
		// assignment to a field of a struct-valued variable
		id, ok := lt.X.(*ast.Ident)
		if !ok {
			return "", fmt.Errorf("unsupported assignment target")
		}
		base := info.ObjectOf(id)
		if structOf(base.Type()) == nil {
			return "", fmt.Errorf("unsupported assignment target")
		}
		target = f.fresh(base) + "_" + lt.Sel.Name
		obj = info.ObjectOf(lt.Sel)
	default:
		return "", fmt.Errorf("unsupported assignment target %T", l)
	}
	ty := obj.Type()
	var e string
	var err error
	switch x.Tok {
	case token.DEFINE, token.ASSIGN:
		e, err = f.exprAs(r, ty)
	default:
		// op=
		opTok := map[token.Token]token.Token{
			token.ADD_ASSIGN: token.ADD, token.SUB_ASSIGN: token.SUB, token.MUL_ASSIGN: token.MUL,
			token.QUO_ASSIGN: token.QUO, token.REM_ASSIGN: token.REM, token.AND_ASSIGN: token.AND,
			token.OR_ASSIGN: token.OR, token.XOR_ASSIGN: token.XOR, token.SHL_ASSIGN: token.SHL,
			token.SHR_ASSIGN: token.SHR, token.AND_NOT_ASSIGN: token.AND_NOT}[x.Tok]
		var re string
		re, err = f.exprAs(r, ty)
		if err == nil {
			e, err = f.binop(opTok, target, re, ty, ty)
		}
	}
	if err != nil {
		return "", err
	}
	lines = append(lines, fmt.Sprintf("%slet %s := %s", ind(d), target, e))
	return strings.Join(lines, "\n"), nil
}

// exprAs translates e in a context expecting type ty (only matters for constants)
func (f *fnTr) exprAs(e ast.Expr, ty types.Type) (string, error) {
	return f.expr(e)
}

func (f *fnTr) constant(tv types.TypeAndValue) (string, bool) {
	if tv.Value == nil {
		return "", false
	}
	switch tv.Value.Kind() {
	case constant.Int:
		return "(" + tv.Value.ExactString() + " : Int)", true
	case constant.Bool:
		if constant.BoolVal(tv.Value) {
			return "true", true
		}
		return "false", true
	case constant.String:
		return leanString(constant.StringVal(tv.Value)), true
	}
	return "", false
}

func (f *fnTr) expr(e ast.Expr) (string, error) {
	info := f.p.TypesInfo
	if tv, ok := info.Types[e]; ok {
		if s, ok := f.constant(tv); ok {
			return s, nil
		}
		if tv.IsNil() {
			return "none", nil
		}
	}
	switch x := e.(type) {
	case *ast.ParenExpr:
		return f.expr(x.X)
	case *ast.Ident:
		obj := info.ObjectOf(x)
		if v, ok := obj.(*types.Var); ok {
			if st := structOf(v.Type()); st != nil {
				fs, err := f.fields(st)
				if err != nil {
					return "", err
				}
				base := f.fresh(v)
				var parts []string
				for _, fl := range fs {
					parts = append(parts, base+"_"+fl.Name())
				}
				return tuple(parts), nil
			}
			if n, ok := f.vars[obj]; ok {
				return n, nil
			}
			return "", fmt.Errorf("reference to non-local variable %s", x.Name)
		}
		return "", fmt.Errorf("unsupported identifier %s", x.Name)
	case *ast.SelectorExpr:
		if id, ok := x.X.(*ast.Ident); ok {
			if v, ok := info.ObjectOf(id).(*types.Var); ok && structOf(v.Type()) != nil {
				if _, ok := f.vars[v]; !ok {
					return "", fmt.Errorf("reference to non-local variable %s", id.Name)
				}
				return f.fresh(v) + "_" + x.Sel.Name, nil
			}
		}
		return "", fmt.Errorf("unsupported selector %s", nodeText(f.t.l.fset, x))
	case *ast.UnaryExpr:
		if x.Op == token.AND {
			if cl, ok := x.X.(*ast.CompositeLit); ok {
				return f.expr(cl)
			}
		}
		a, err := f.expr(x.X)
		if err != nil {
			return "", err
		}
		ty := info.TypeOf(x)
		switch x.Op {
		case token.NOT:
			return "(!" + a + ")", nil
		case token.SUB:
			return wrap(ty, "(-"+a+")"), nil
		case token.ADD:
			return a, nil
		case token.XOR:
			bits, signed, _ := intInfo(ty)
			if signed {
				return wrap(ty, "(-"+a+" - 1)"), nil
			}
			return fmt.Sprintf("((2 ^ %d : Int) - 1 - %s)", bits, a), nil
		}
		return "", fmt.Errorf("unsupported unary %s", x.Op)
	case *ast.BinaryExpr:
		a, err := f.expr(x.X)
		if err != nil {
			return "", err
		}
		b, err := f.expr(x.Y)
		if err != nil {
			return "", err
		}
		return f.binop(x.Op, a, b, info.TypeOf(x.X), info.TypeOf(x))
	case *ast.CompositeLit:
		st := structOf(info.TypeOf(x))
		if st == nil {
			return "", fmt.Errorf("unsupported composite literal")
		}
		fs, err := f.fields(st)
		if err != nil {
			return "", err
		}
		vals := map[string]string{}
		for i, el := range x.Elts {
			if kv, ok := el.(*ast.KeyValueExpr); ok {
				v, err := f.expr(kv.Value)
				if err != nil {
					return "", err
				}
				vals[kv.Key.(*ast.Ident).Name] = v
			} else {
				v, err := f.expr(el)
				if err != nil {
					return "", err
				}
				vals[fs[i].Name()] = v
			}
		}
		var parts []string
		for _, fl := range fs {
			if v, ok := vals[fl.Name()]; ok {
				parts = append(parts, v)
			} else {
				z, _ := f.zero(fl.Type())
				parts = append(parts, z)
			}
		}
		return tuple(parts), nil
	case *ast.CallExpr:
		return f.call(x)
	}
	return "", fmt.Errorf("unsupported expression %T (%s)", e, nodeText(f.t.l.fset, e))
}

func (f *fnTr) binop(op token.Token, a, b string, operandTy, resTy types.Type) (string, error) {
	isStr := false
	isBool := false
	if bt, ok := operandTy.Underlying().(*types.Basic); ok {
		isStr = bt.Info()&types.IsString != 0
		isBool = bt.Info()&types.IsBoolean != 0
	}
	switch op {
	case token.LAND:
		return fmt.Sprintf("(%s && %s)", a, b), nil
	case token.LOR:
		return fmt.Sprintf("(%s || %s)", a, b), nil
	case token.EQL:
		if isBool {
			return fmt.Sprintf("(%s == %s)", a, b), nil
		}
		if a == "none" || b == "none" {
			// pointer/error comparison with nil
			if isError(operandTy) {
				other := a
				if a == "none" {
					other = b
				}
				return fmt.Sprintf("(%s).isNone", other), nil
			}
			return "false", nil // pointers are assumed non-nil
		}
		return fmt.Sprintf("decide (%s = %s)", a, b), nil
	case token.NEQ:
		if isBool {
			return fmt.Sprintf("(%s != %s)", a, b), nil
		}
		if a == "none" || b == "none" {
			if isError(operandTy) {
				other := a
				if a == "none" {
					other = b
				}
				return fmt.Sprintf("(%s).isSome", other), nil
			}
			return "true", nil
		}
		return fmt.Sprintf("decide (%s ≠ %s)", a, b), nil
	case token.LSS:
		return fmt.Sprintf("decide (%s < %s)", a, b), nil
	case token.LEQ:
		return fmt.Sprintf("decide (%s ≤ %s)", a, b), nil
	case token.GTR:
		return fmt.Sprintf("decide (%s > %s)", a, b), nil
	case token.GEQ:
		return fmt.Sprintf("decide (%s ≥ %s)", a, b), nil
	}
	if isStr {
		if op == token.ADD {
			return fmt.Sprintf("(%s ++ %s)", a, b), nil
		}
		return "", fmt.Errorf("unsupported string operator %s", op)
	}
	bits, signed, ok := intInfo(resTy)
	if !ok {
		return "", fmt.Errorf("operator %s on unsupported type %s", op, resTy)
	}
	switch op {
	case token.ADD:
		return wrap(resTy, fmt.Sprintf("(%s + %s)", a, b)), nil
	case token.SUB:
		return wrap(resTy, fmt.Sprintf("(%s - %s)", a, b)), nil
	case token.MUL:
		return wrap(resTy, fmt.Sprintf("(%s * %s)", a, b)), nil
	case token.QUO:
		return wrap(resTy, fmt.Sprintf("(tdiv %s %s)", a, b)), nil
	case token.REM:
		return wrap(resTy, fmt.Sprintf("(tmod %s %s)", a, b)), nil
	case token.SHL:
		return wrap(resTy, fmt.Sprintf("(shl %s %s)", a, b)), nil
	case token.SHR:
		return fmt.Sprintf("(shr %s %s)", a, b), nil
	case token.AND, token.OR, token.XOR, token.AND_NOT:
		fn := map[token.Token]string{token.AND: "band", token.OR: "bor", token.XOR: "bxor", token.AND_NOT: "bandnot"}[op]
		r := fmt.Sprintf("(%s %d %s %s)", fn, bits, a, b)
		if signed {
			r = wrap(resTy, r)
		}
		return r, nil
	}
	return "", fmt.Errorf("unsupported operator %s", op)
}

func (f *fnTr) call(x *ast.CallExpr) (string, error) {
	info := f.p.TypesInfo
	// conversion?
	if tv, ok := info.Types[x.Fun]; ok && tv.IsType() {
		if len(x.Args) != 1 {
			return "", fmt.Errorf("bad conversion")
		}
		a, err := f.expr(x.Args[0])
		if err != nil {
			return "", err
		}
		src := info.TypeOf(x.Args[0])
		_, _, okSrc := intInfo(src)
		_, _, okDst := intInfo(tv.Type)
		if okSrc && okDst {
			return wrap(tv.Type, a), nil
		}
		return "", fmt.Errorf("unsupported conversion %s -> %s", src, tv.Type)
	}
	// resolve callee
	var callee *types.Func
	var recvExpr ast.Expr
	switch fn := x.Fun.(type) {
	case *ast.Ident:
		callee, _ = info.ObjectOf(fn).(*types.Func)
	case *ast.SelectorExpr:
		callee, _ = info.ObjectOf(fn.Sel).(*types.Func)
		if sel, ok := info.Selections[fn]; ok && sel.Kind() == types.MethodVal {
			recvExpr = fn.X
		}
	}
	if callee == nil {
		return "", fmt.Errorf("unsupported call %s", nodeText(f.t.l.fset, x.Fun))
	}
	full := callee.FullName()
	switch full {
	case "fmt.Sprintf":
		return f.sprintf(x)
	case "strconv.Itoa":
		a, err := f.expr(x.Args[0])
		if err != nil {
			return "", err
		}
		return "(fmtD " + a + ")", nil
	case "errors.New", "fmt.Errorf":
		return "(some \"err\")", nil
	}
	if callee.Pkg() == nil || !strings.HasPrefix(callee.Pkg().Path(), "github.com/chrislusf/seaweedfs/") {
		return "", fmt.Errorf("call to %s is outside the translatable subset", full)
	}
	rel := strings.TrimPrefix(callee.Pkg().Path(), "github.com/chrislusf/seaweedfs/")
	recv := ""
	if sig := callee.Type().(*types.Signature); sig.Recv() != nil {
		rt := sig.Recv().Type()
		if p, ok := rt.(*types.Pointer); ok {
			rt = p.Elem()
		}
		if n, ok := rt.(*types.Named); ok {
			recv = n.Obj().Name()
		}
	}
	name, err := f.t.ensure(rel, recv, callee.Name(), "")
	if err != nil {
		return "", fmt.Errorf("callee %s: %v", full, err)
	}
	var args []string
	if recvExpr != nil {
		a, err := f.expr(recvExpr)
		if err != nil {
			return "", err
		}
		args = append(args, untuple(a)...)
	}
	for _, ae := range x.Args {
		a, err := f.expr(ae)
		if err != nil {
			return "", err
		}
		if structOf(info.TypeOf(ae)) != nil {
			args = append(args, untuple(a)...)
		} else {
			args = append(args, a)
		}
	}
	return "(" + name + " " + strings.Join(args, " ") + ")", nil
}

// untuple splits "(a, b)" produced by this translator for struct values into its components
func untuple(s string) []string {
	if !strings.HasPrefix(s, "(") || !strings.HasSuffix(s, ")") {
		return []string{s}
	}
	inner := s[1 : len(s)-1]
	var parts []string
	depth := 0
	start := 0
	for i, c := range inner {
		switch c {
		case '(':
			depth++
		case ')':
			depth--
		case ',':
			if depth == 0 {
				parts = append(parts, strings.TrimSpace(inner[start:i]))
				start = i + 1
			}
		}
	}
	parts = append(parts, strings.TrimSpace(inner[start:]))
	if len(parts) == 1 {
		return []string{s}
	}
	return parts
}

func (f *fnTr) sprintf(x *ast.CallExpr) (string, error) {
	info := f.p.TypesInfo
	tv := info.Types[x.Args[0]]
	if tv.Value == nil || tv.Value.Kind() != constant.String {
		return "", fmt.Errorf("Sprintf with non-constant format")
	}
	format := constant.StringVal(tv.Value)
	var parts []string
	argi := 1
	lit := ""
	flush := func() {
		if lit != "" {
			parts = append(parts, leanString(lit))
			lit = ""
		}
	}
	for i := 0; i < len(format); i++ {
		c := format[i]
		if c != '%' {
			lit += string(c)
			continue
		}
		i++
		if i >= len(format) {
			return "", fmt.Errorf("bad format")
		}
		if format[i] == '%' {
			lit += "%"
			continue
		}
		pad := 0
		zero := false
		if format[i] == '0' {
			zero = true
			i++
		}
		for i < len(format) && format[i] >= '0' && format[i] <= '9' {
			pad = pad*10 + int(format[i]-'0')
			i++
		}
		if i >= len(format) || format[i] != 'd' || argi >= len(x.Args) || (pad > 0 && !zero) {
			return "", fmt.Errorf("unsupported format verb in %q", format)
		}
		a, err := f.expr(x.Args[argi])
		if err != nil {
			return "", err
		}
		if _, _, ok := intInfo(info.TypeOf(x.Args[argi])); !ok {
			return "", fmt.Errorf("%%d with non-integer argument")
		}
		argi++
		flush()
		if pad > 0 {
			parts = append(parts, fmt.Sprintf("(fmtPad %d %s)", pad, a))
		} else {
			parts = append(parts, "(fmtD "+a+")")
		}
	}
	flush()
	if len(parts) == 0 {
		return "\"\"", nil
	}
	return "(" + strings.Join(parts, " ++ ") + ")", nil
}
