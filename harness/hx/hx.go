// Package hx: shared plumbing for the correspondence harnesses (one main package
// per engine under ../cmd). A harness runs the REAL seaweedfs code in-process and
// writes one trace line per operation:  <op> <args...> => <outs...>
// Tokens never contain spaces (byte strings travel as hex; empty = "-").
package hx

import (
	"bufio"
	"encoding/hex"
	"flag"
	"fmt"
	"os"
	"strings"
)

// Rng is splitmix64; every random choice of a run derives from one state.
type Rng struct{ s uint64 }

// NewRng scrambles the seed first: with a plain affine start, consecutive seeds would
// yield the same splitmix stream shifted by one position.
func NewRng(seed uint64) *Rng {
	z := seed + 0xD1B54A32D192ED03
	z = (z ^ (z >> 30)) * 0xBF58476D1CE4E5B9
	z = (z ^ (z >> 27)) * 0x94D049BB133111EB
	z = z ^ (z >> 31)
	return &Rng{s: z*0x9E3779B97F4A7C15 + 0x1234567}
}
func (r *Rng) U64() uint64 {
	r.s += 0x9E3779B97F4A7C15
	z := r.s
	z = (z ^ (z >> 30)) * 0xBF58476D1CE4E5B9
	z = (z ^ (z >> 27)) * 0x94D049BB133111EB
	return z ^ (z >> 31)
}
func (r *Rng) Intn(n int) int {
	if n <= 0 {
		return 0
	}
	return int(r.U64() % uint64(n))
}
func (r *Rng) Bool() bool          { return r.U64()&1 == 1 }
func (r *Rng) Chance(p, q int) bool { return r.Intn(q) < p }
func (r *Rng) Pick(xs []string) string {
	return xs[r.Intn(len(xs))]
}
func (r *Rng) Bytes(n int) []byte {
	b := make([]byte, n)
	for i := range b {
		b[i] = byte(r.U64())
	}
	return b
}

// Args are the standard harness flags.
type Args struct {
	Seed   uint64
	Tier   string
	Out    string
	Ops    string // replay: file with op lines (anything after " => " is ignored)
	Budget int    // scale factor chosen by ./check (1 = quick default)
}

func ParseArgs() *Args {
	a := &Args{}
	flag.Uint64Var(&a.Seed, "seed", 1, "PRNG seed")
	flag.StringVar(&a.Tier, "tier", "quick", "quick|thorough")
	flag.StringVar(&a.Out, "out", "", "trace output file (default stdout)")
	flag.StringVar(&a.Ops, "ops", "", "replay these op lines instead of generating")
	flag.IntVar(&a.Budget, "budget", 1, "budget multiplier")
	flag.Parse()
	return a
}

func (a *Args) Thorough() bool { return a.Tier == "thorough" }

// N scales a quick-tier count: thorough = 10x, then times budget.
func (a *Args) N(quick int) int {
	n := quick
	if a.Thorough() {
		n *= 10
	}
	if a.Budget > 1 {
		n *= a.Budget
	}
	return n
}

// Trace writes trace lines.
type Trace struct {
	w     *bufio.Writer
	f     *os.File
	Lines int
}

func NewTrace(path string) *Trace {
	if path == "" {
		return &Trace{w: bufio.NewWriterSize(os.Stdout, 1<<20)}
	}
	f, err := os.Create(path)
	if err != nil {
		fmt.Fprintln(os.Stderr, "harness:", err)
		os.Exit(2)
	}
	return &Trace{w: bufio.NewWriterSize(f, 1<<20), f: f}
}

// Op writes "<op> <args> => <outs>".
func (t *Trace) Op(op string, args []string, outs []string) {
	t.w.WriteString(op)
	for _, a := range args {
		t.w.WriteByte(' ')
		t.w.WriteString(a)
	}
	t.w.WriteString(" =>")
	for _, o := range outs {
		t.w.WriteByte(' ')
		t.w.WriteString(o)
	}
	t.w.WriteByte('\n')
	t.Lines++
}

func (t *Trace) Comment(s string) { t.w.WriteString("# " + s + "\n") }

func (t *Trace) Close() {
	t.w.Flush()
	if t.f != nil {
		t.f.Close()
	}
}

// Hex encodes bytes as a token ("-" for empty).
func Hex(b []byte) string {
	if len(b) == 0 {
		return "-"
	}
	return hex.EncodeToString(b)
}
func HexS(s string) string { return Hex([]byte(s)) }
func UnHex(s string) []byte {
	if s == "-" {
		return nil
	}
	b, err := hex.DecodeString(s)
	if err != nil {
		panic("bad hex token " + s)
	}
	return b
}
func UnHexS(s string) string { return string(UnHex(s)) }

func I(x int64) string  { return fmt.Sprintf("%d", x) }
func U(x uint64) string { return fmt.Sprintf("%d", x) }
func B(b bool) string {
	if b {
		return "1"
	}
	return "0"
}
func Err(e error) string {
	if e != nil {
		return "err"
	}
	return "ok"
}

// ReadOps reads a replay file: returns (op, args) per line, dropping outputs.
func ReadOps(path string) [][]string {
	data, err := os.ReadFile(path)
	if err != nil {
		fmt.Fprintln(os.Stderr, "harness:", err)
		os.Exit(2)
	}
	var out [][]string
	for _, ln := range strings.Split(string(data), "\n") {
		ln = strings.TrimSpace(ln)
		if ln == "" || strings.HasPrefix(ln, "#") {
			continue
		}
		if i := strings.Index(ln, " =>"); i >= 0 {
			ln = ln[:i]
		}
		out = append(out, strings.Fields(ln))
	}
	return out
}

// Guard runs f and converts a panic into ("panic"), so one crashing op does not kill the run.
func Guard(f func() []string) (outs []string) {
	defer func() {
		if r := recover(); r != nil {
			outs = []string{"panic"}
		}
	}()
	return f()
}
