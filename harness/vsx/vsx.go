// Package vsx: in-process volume servers for the volume-server HTTP engines (C32, C33, C34,
// C40). A Node = a real storage.Store in a temp dir + the real VolumeServer private handler
// (hook weed/server/verif_export_c32.go) behind a loopback listener. Master = an HTTP stub
// answering /dir/lookup (the only master call on the replicated write path of this version).
package vsx

import (
	"encoding/json"
	"io"
	"log"
	"net"
	"net/http"
	"net/http/httptest"
	"os"
	"strconv"
	"sync"
	"sync/atomic"

	"github.com/chrislusf/seaweedfs/weed/operation"
	"github.com/chrislusf/seaweedfs/weed/security"
	weed_server "github.com/chrislusf/seaweedfs/weed/server"
	"github.com/chrislusf/seaweedfs/weed/storage"
	"github.com/chrislusf/seaweedfs/weed/storage/needle"
	"github.com/chrislusf/seaweedfs/weed/storage/types"
	"github.com/chrislusf/seaweedfs/weed/util"
	"github.com/chrislusf/seaweedfs/weed/util/fla9"
)

// Quiet sends glog to files under dir (TMPDIR of the check) instead of stderr.
func Quiet(dir string) {
	// the glog fork of seaweedfs registers its flags with util/fla9, not with package flag
	fla9.Set("alsologtostderr", "false")
	fla9.Set("stderrthreshold", "FATAL")
	fla9.Set("logdir", dir)
}

type Node struct {
	Dir   string
	Store *storage.Store
	VS    *weed_server.VolumeServer
	Srv   *httptest.Server
	Addr  string // 127.0.0.1:port == Store.Ip:Store.Port
	// fault injection: 1 = drop the connection before the handler runs, 2 = run the handler, then drop the connection
	Fault int32
	stop  chan struct{}
}

// NewNode starts a volume server. guard == nil means no keys, no white list.
func NewNode(guard *security.Guard, master string) *Node {
	dir, err := os.MkdirTemp("", "vsx-")
	if err != nil {
		panic(err)
	}
	ln, err := net.Listen("tcp", "127.0.0.1:0")
	if err != nil {
		panic(err)
	}
	port := ln.Addr().(*net.TCPAddr).Port
	n := &Node{Dir: dir, Addr: "127.0.0.1:" + strconv.Itoa(port), stop: make(chan struct{})}
	n.Store = storage.NewStore(nil, port, "127.0.0.1", n.Addr, []string{dir}, []int{1000},
		[]util.MinFreeSpace{{}}, "", storage.NeedleMapInMemory, []types.DiskType{types.HardDriveType})
	// the heartbeat normally drains these; AddVolume blocks once they are full
	go func() {
		for {
			select {
			case <-n.Store.NewVolumesChan:
			case <-n.Store.DeletedVolumesChan:
			case <-n.Store.NewEcShardsChan:
			case <-n.Store.DeletedEcShardsChan:
			case <-n.stop:
				return
			}
		}
	}()
	if guard == nil {
		guard = security.NewGuard(nil, "", 0, "", 0)
	}
	n.VS = weed_server.NewVolumeServerVerifC32(n.Store, guard, master, "local", 64*1024*1024)
	n.Srv = httptest.NewUnstartedServer(http.HandlerFunc(func(w http.ResponseWriter, r *http.Request) {
		f := atomic.LoadInt32(&n.Fault)
		if f == 1 {
			drop(w)
			return
		}
		if f == 2 {
			n.VS.PrivateStoreHandlerVerif(httptest.NewRecorder(), r)
			drop(w)
			return
		}
		n.VS.PrivateStoreHandlerVerif(w, r)
	}))
	n.Srv.Listener.Close()
	n.Srv.Listener = ln
	n.Srv.Config.ErrorLog = log.New(io.Discard, "", 0)
	n.Srv.Start()
	return n
}

func drop(w http.ResponseWriter) {
	if hj, ok := w.(http.Hijacker); ok {
		if c, _, err := hj.Hijack(); err == nil {
			c.Close()
			return
		}
	}
	panic(http.ErrAbortHandler)
}

func (n *Node) SetGuard(guard *security.Guard, master string) {
	n.VS = weed_server.NewVolumeServerVerifC32(n.Store, guard, master, "local", 64*1024*1024)
}

func (n *Node) AddVolume(vid uint32, replication, ttl string) error {
	return n.Store.AddVolume(needle.VolumeId(vid), "", storage.NeedleMapInMemory, replication, ttl, 0, 0, types.HardDriveType)
}

// ReadNeedle reads straight from the Store (no HTTP). err != nil: absent or deleted.
func (n *Node) ReadNeedle(vid uint32, key uint64, cookie uint32) (*needle.Needle, error) {
	nd := new(needle.Needle)
	nd.Id = types.NeedleId(key)
	nd.Cookie = types.Cookie(cookie)
	_, err := n.Store.ReadVolumeNeedle(needle.VolumeId(vid), nd, nil)
	if err != nil {
		return nil, err
	}
	return nd, nil
}

func (n *Node) Close() {
	close(n.stop)
	n.Srv.CloseClientConnections()
	n.Srv.Close()
	n.Store.Close()
	os.RemoveAll(n.Dir)
}

func Fid(vid uint32, key uint64, cookie uint32) string {
	return needle.NewFileId(needle.VolumeId(vid), key, cookie).String()
}

// Master is the lookup stub: POST/GET /dir/lookup?volumeId=N answers the registered locations.
type Master struct {
	Srv  *httptest.Server
	Addr string
	mu   sync.Mutex
	locs map[string][]string
	Hits int64
}

func NewMaster() *Master {
	m := &Master{locs: map[string][]string{}}
	m.Srv = httptest.NewServer(http.HandlerFunc(func(w http.ResponseWriter, r *http.Request) {
		if r.URL.Path != "/dir/lookup" {
			w.WriteHeader(404)
			return
		}
		atomic.AddInt64(&m.Hits, 1)
		vid := r.FormValue("volumeId")
		m.mu.Lock()
		urls, ok := m.locs[vid]
		m.mu.Unlock()
		w.Header().Set("Content-Type", "application/json")
		res := operation.LookupResult{VolumeId: vid}
		if !ok {
			res.Error = "volume id " + vid + " not found"
			w.WriteHeader(404)
		}
		for _, u := range urls {
			res.Locations = append(res.Locations, operation.Location{Url: u, PublicUrl: u})
		}
		json.NewEncoder(w).Encode(res)
	}))
	m.Addr = m.Srv.Listener.Addr().String()
	return m
}

func (m *Master) Set(vid uint32, urls []string) {
	m.mu.Lock()
	m.locs[strconv.Itoa(int(vid))] = urls
	m.mu.Unlock()
}

func (m *Master) Close() { m.Srv.Close() }
