// Package standin: in-process loopback stand-ins for the cluster pieces the filer write handlers
// (C25) and the mount write path (C30) talk to.  They only hand out file ids and keep chunk bytes
// in memory; everything under test is the real seaweedfs code calling them.
//
//	Volume  HTTP: POST /<fid> (the multipart body operation.Upload sends, gzip undone) stores the
//	        bytes, GET /<fid> serves them (Range supported), DELETE forgets them.
//	Master  gRPC master_pb.Seaweed: Assign, KeepConnected (announces the one volume), LookupVolume.
//	Filer   gRPC filer_pb.SeaweedFiler: AssignVolume, LookupVolume, CreateEntry (recorded), ...
package standin

import (
	"bytes"
	"compress/gzip"
	"context"
	"fmt"
	"io"
	"net"
	"net/http"
	"strings"
	"sync"
	"sync/atomic"
	"time"

	"google.golang.org/grpc"

	"github.com/chrislusf/seaweedfs/weed/pb/filer_pb"
	"github.com/chrislusf/seaweedfs/weed/pb/master_pb"
	"github.com/chrislusf/seaweedfs/weed/storage/needle"
)

const Vid = 3

// ---------------------------------------------------------------- volume

type Volume struct {
	mu      sync.Mutex
	blobs   map[string][]byte
	Addr    string // host:port
	next    uint64
	Uploads int64
	srv     *http.Server
	// FailUploads > 0: the next n uploads answer 500
	FailUploads int64
}

func NewVolume() *Volume {
	v := &Volume{blobs: map[string][]byte{}}
	ln, err := net.Listen("tcp", "127.0.0.1:0")
	if err != nil {
		panic(err)
	}
	v.Addr = ln.Addr().String()
	v.srv = &http.Server{Handler: http.HandlerFunc(v.serve)}
	go v.srv.Serve(ln)
	return v
}

func (v *Volume) Close() { v.srv.Close() }

// NextFid hands out "3,<key hex><cookie 8 hex>" with keys 1,2,3...
func (v *Volume) NextFid() string {
	k := atomic.AddUint64(&v.next, 1)
	return needle.NewFileId(needle.VolumeId(Vid), k, uint32(0x5eed0000)+uint32(k)).String()
}

// canon: the one spelling of a file id (the filer re-renders ids from their parsed form)
func canon(fid string) string {
	if f, err := needle.ParseFileIdFromString(fid); err == nil {
		return f.String()
	}
	return fid
}

func (v *Volume) Get(fid string) ([]byte, bool) {
	fid = canon(fid)
	v.mu.Lock()
	defer v.mu.Unlock()
	b, ok := v.blobs[fid]
	return b, ok
}

func (v *Volume) Put(fid string, b []byte) {
	fid = canon(fid)
	v.mu.Lock()
	v.blobs[fid] = append([]byte(nil), b...)
	v.mu.Unlock()
}

func (v *Volume) Reset() {
	v.mu.Lock()
	v.blobs = map[string][]byte{}
	v.mu.Unlock()
}

func (v *Volume) Has(fid string) bool { _, ok := v.Get(fid); return ok }

func (v *Volume) serve(w http.ResponseWriter, r *http.Request) {
	fid := canon(strings.TrimPrefix(r.URL.Path, "/"))
	switch r.Method {
	case "POST", "PUT":
		if atomic.LoadInt64(&v.FailUploads) > 0 {
			atomic.AddInt64(&v.FailUploads, -1)
			http.Error(w, `{"error":"standin: refused"}`, 500)
			return
		}
		mr, err := r.MultipartReader()
		if err != nil {
			http.Error(w, `{"error":"standin: not multipart"}`, 400)
			return
		}
		part, err := mr.NextPart()
		if err != nil {
			http.Error(w, `{"error":"standin: no part"}`, 400)
			return
		}
		data, err := io.ReadAll(part)
		if err != nil {
			http.Error(w, `{"error":"standin: read"}`, 400)
			return
		}
		if part.Header.Get("Content-Encoding") == "gzip" {
			zr, err := gzip.NewReader(bytes.NewReader(data))
			if err == nil {
				if clear, err := io.ReadAll(zr); err == nil {
					data = clear
				}
			}
		}
		v.Put(fid, data)
		atomic.AddInt64(&v.Uploads, 1)
		w.Header().Set("Content-Type", "application/json")
		w.WriteHeader(201)
		fmt.Fprintf(w, `{"name":%q,"size":%d}`, part.FileName(), len(data))
	case "GET", "HEAD":
		b, ok := v.Get(fid)
		if !ok {
			http.NotFound(w, r)
			return
		}
		http.ServeContent(w, r, "", time.Time{}, bytes.NewReader(b))
	case "DELETE":
		v.mu.Lock()
		delete(v.blobs, fid)
		v.mu.Unlock()
		w.WriteHeader(202)
		fmt.Fprint(w, `{"size":0}`)
	default:
		http.Error(w, "method", 405)
	}
}

// ---------------------------------------------------------------- master

type Master struct {
	master_pb.UnimplementedSeaweedServer
	vol *Volume
	// Addr is the HTTP-style master address (gRPC port - 10000), what seaweedfs clients are given.
	Addr string
	srv  *grpc.Server
	// FailAssign > 0: the next n assigns report an error
	FailAssign int64
	Assigns    int64
}

func listenHigh() net.Listener {
	for i := 0; i < 50; i++ {
		ln, err := net.Listen("tcp", "127.0.0.1:0")
		if err != nil {
			panic(err)
		}
		if ln.Addr().(*net.TCPAddr).Port > 11000 {
			return ln
		}
		ln.Close()
	}
	panic("standin: no high port")
}

func NewMaster(vol *Volume) *Master {
	m := &Master{vol: vol}
	ln := listenHigh()
	port := ln.Addr().(*net.TCPAddr).Port
	m.Addr = fmt.Sprintf("127.0.0.1:%d", port-10000)
	m.srv = grpc.NewServer()
	master_pb.RegisterSeaweedServer(m.srv, m)
	go m.srv.Serve(ln)
	return m
}

func (m *Master) Close() { m.srv.Stop() }

func (m *Master) Assign(ctx context.Context, req *master_pb.AssignRequest) (*master_pb.AssignResponse, error) {
	atomic.AddInt64(&m.Assigns, 1)
	if atomic.LoadInt64(&m.FailAssign) > 0 {
		atomic.AddInt64(&m.FailAssign, -1)
		return &master_pb.AssignResponse{Error: "standin: no free volume"}, nil
	}
	return &master_pb.AssignResponse{Fid: m.vol.NextFid(), Url: m.vol.Addr, PublicUrl: m.vol.Addr, Count: 1}, nil
}

func (m *Master) KeepConnected(stream master_pb.Seaweed_KeepConnectedServer) error {
	if _, err := stream.Recv(); err != nil {
		return err
	}
	if err := stream.Send(&master_pb.VolumeLocation{Url: m.vol.Addr, PublicUrl: m.vol.Addr, NewVids: []uint32{Vid}}); err != nil {
		return err
	}
	<-stream.Context().Done()
	return nil
}

func (m *Master) LookupVolume(ctx context.Context, req *master_pb.LookupVolumeRequest) (*master_pb.LookupVolumeResponse, error) {
	resp := &master_pb.LookupVolumeResponse{}
	for _, id := range req.VolumeIds {
		resp.VolumeIdLocations = append(resp.VolumeIdLocations, &master_pb.LookupVolumeResponse_VolumeIdLocation{
			VolumeId:  id,
			Locations: []*master_pb.Location{{Url: m.vol.Addr, PublicUrl: m.vol.Addr}},
		})
	}
	return resp, nil
}

func (m *Master) GetMasterConfiguration(ctx context.Context, req *master_pb.GetMasterConfigurationRequest) (*master_pb.GetMasterConfigurationResponse, error) {
	return &master_pb.GetMasterConfigurationResponse{}, nil
}

// ---------------------------------------------------------------- filer (for the mount)

type Filer struct {
	filer_pb.UnimplementedSeaweedFilerServer
	vol *Volume
	// GrpcAddr is the address a mount dials (host:port of the gRPC listener).
	GrpcAddr string
	srv      *grpc.Server
	mu       sync.Mutex
	// Created: entries received by CreateEntry, newest last
	Created []*filer_pb.CreateEntryRequest
}

func NewFiler(vol *Volume) *Filer {
	f := &Filer{vol: vol}
	ln := listenHigh()
	f.GrpcAddr = ln.Addr().String()
	f.srv = grpc.NewServer()
	filer_pb.RegisterSeaweedFilerServer(f.srv, f)
	go f.srv.Serve(ln)
	return f
}

func (f *Filer) Close() { f.srv.Stop() }

func (f *Filer) AssignVolume(ctx context.Context, req *filer_pb.AssignVolumeRequest) (*filer_pb.AssignVolumeResponse, error) {
	return &filer_pb.AssignVolumeResponse{FileId: f.vol.NextFid(), Url: f.vol.Addr, PublicUrl: f.vol.Addr, Count: 1,
		Collection: req.Collection, Replication: req.Replication}, nil
}

func (f *Filer) LookupVolume(ctx context.Context, req *filer_pb.LookupVolumeRequest) (*filer_pb.LookupVolumeResponse, error) {
	resp := &filer_pb.LookupVolumeResponse{LocationsMap: map[string]*filer_pb.Locations{}}
	for _, id := range req.VolumeIds {
		resp.LocationsMap[id] = &filer_pb.Locations{Locations: []*filer_pb.Location{{Url: f.vol.Addr, PublicUrl: f.vol.Addr}}}
	}
	return resp, nil
}

func (f *Filer) CreateEntry(ctx context.Context, req *filer_pb.CreateEntryRequest) (*filer_pb.CreateEntryResponse, error) {
	f.mu.Lock()
	f.Created = append(f.Created, req)
	f.mu.Unlock()
	return &filer_pb.CreateEntryResponse{}, nil
}

func (f *Filer) LastCreated() *filer_pb.CreateEntryRequest {
	f.mu.Lock()
	defer f.mu.Unlock()
	if len(f.Created) == 0 {
		return nil
	}
	return f.Created[len(f.Created)-1]
}

func (f *Filer) ResetCreated() {
	f.mu.Lock()
	f.Created = nil
	f.mu.Unlock()
}

func (f *Filer) LookupDirectoryEntry(ctx context.Context, req *filer_pb.LookupDirectoryEntryRequest) (*filer_pb.LookupDirectoryEntryResponse, error) {
	return nil, fmt.Errorf("%s", filer_pb.ErrNotFound.Error())
}

func (f *Filer) GetFilerConfiguration(ctx context.Context, req *filer_pb.GetFilerConfigurationRequest) (*filer_pb.GetFilerConfigurationResponse, error) {
	return &filer_pb.GetFilerConfigurationResponse{}, nil
}
