package standin

import "sync/atomic"

// Next / SetNext (added for the C20 HTTP family of harness/cmd/c18): the key counter behind NextFid, so that a
// harness can tell which file ids one request was handed (keys Next()+1 .. Next() afterwards) and can move the
// counter out of the range its hand-made chunk numbers use.
func (v *Volume) Next() uint64 { return atomic.LoadUint64(&v.next) }

func (v *Volume) SetNext(k uint64) { atomic.StoreUint64(&v.next, k) }
