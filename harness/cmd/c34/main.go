// c34: correspondence harness for C34 (volume server access control with signed tokens).
// A real VolumeServer private handler with a Guard (write key / read key) behind a loopback
// listener. Every `req` line: the target needle (and the base needle of a `_n` sub-file path) is
// first (re)written directly into the Store with a known content, then ONE HTTP request
// (GET/HEAD/POST/PUT/DELETE) is sent with a generated token; outputs are "401" or "pass" and whether
// the stored needles changed. The token travels as its string plus its ATTRIBUTES (how it was
// made): the Lean model decides from the attributes; the judge states the property over them.
package main

import (
	"bytes"
	"crypto/rand"
	"crypto/rsa"
	"fmt"
	"io"
	"mime/multipart"
	"net/http"
	"net/url"
	"os"
	"strings"
	"time"

	"github.com/golang-jwt/jwt"

	"github.com/chrislusf/seaweedfs/weed/security"
	"github.com/chrislusf/seaweedfs/weed/storage/needle"
	"github.com/chrislusf/seaweedfs/weed/storage/types"

	"verifharness/hx"
	"verifharness/vsx"
)

var tr *hx.Trace
var node *vsx.Node
var client = &http.Client{Transport: &http.Transport{DisableCompression: true, MaxIdleConnsPerHost: 16}}
var rsaKey *rsa.PrivateKey

const vid = 3
const baseKey = 0x1637
const cookie = 0x037d6a5c

var wKey, rKey string
var serial int

func reset(w, r string) {
	wKey, rKey = w, r
	node.SetGuard(security.NewGuard(nil, w, 10, r, 60), "127.0.0.1:1")
	tr.Op("reset", []string{hx.HexS(w), hx.HexS(r)}, []string{"ok"})
}

type tok struct {
	str      string // the token string
	wellForm bool   // three segments, base64, JSON object with our claim types
	alg      string // HS256 HS384 HS512 none RS256 (meaningful when wellForm)
	signKey  string // HMAC key it was signed with ("" otherwise)
	sigOk    bool   // the signature segment is the untampered signature of header.payload
	expOk    bool
	nbfOk    bool
	iatOk    bool
	fid      string // fid claim
}

func mkTok(alg, key, fid string, exp, nbf, iat int64) tok {
	claims := security.SeaweedFileIdClaims{Fid: fid, StandardClaims: jwt.StandardClaims{ExpiresAt: exp, NotBefore: nbf, IssuedAt: iat}}
	now := time.Now().Unix()
	t := tok{wellForm: true, alg: alg, fid: fid, sigOk: true, expOk: exp == 0 || exp > now, nbfOk: nbf == 0 || nbf <= now, iatOk: iat == 0 || iat <= now}
	var err error
	switch alg {
	case "HS256", "HS384", "HS512":
		m := map[string]jwt.SigningMethod{"HS256": jwt.SigningMethodHS256, "HS384": jwt.SigningMethodHS384, "HS512": jwt.SigningMethodHS512}[alg]
		t.str, err = jwt.NewWithClaims(m, claims).SignedString([]byte(key))
		t.signKey = key
	case "none":
		t.str, err = jwt.NewWithClaims(jwt.SigningMethodNone, claims).SignedString(jwt.UnsafeAllowNoneSignatureType)
	case "RS256":
		t.str, err = jwt.NewWithClaims(jwt.SigningMethodRS256, claims).SignedString(rsaKey)
	}
	if err != nil {
		panic(err)
	}
	return t
}

func (t tok) args() []string {
	if t.alg == "" {
		t.alg = "-"
	}
	return []string{hx.HexS(t.str), hx.B(t.wellForm), t.alg, hx.HexS(t.signKey), hx.B(t.sigOk), hx.B(t.expOk), hx.B(t.nbfOk), hx.B(t.iatOk), hx.HexS(t.fid)}
}

func putOrig(key uint64) {
	n := new(needle.Needle)
	n.Id = types.NeedleId(key)
	n.Cookie = types.Cookie(cookie)
	n.Data = []byte("orig")
	n.Ttl = needle.EMPTY_TTL
	n.Checksum = needle.NewCRC(n.Data)
	// make sure the content really is "orig" (an identical rewrite is reported unchanged, which is fine)
	if _, err := node.Store.WriteVolumeNeedle(needle.VolumeId(vid), n, false); err != nil {
		panic(err)
	}
}

func isOrig(key uint64) bool {
	nd, err := node.ReadNeedle(vid, key, cookie)
	return err == nil && string(nd.Data) == "orig"
}

// req: method, URL path, query jwt, Authorization header, the token (string + attributes)
func req(method, path, qjwt, auth string, t tok) {
	args := append([]string{method, hx.HexS(path), hx.HexS(qjwt), hx.HexS(auth)}, t.args()...)
	tr.Op("req", args, hx.Guard(func() []string {
		// targets: the needle the path denotes (with the _n delta applied) and its base needle
		_, fidPart, _, _, _ := parsePath(path)
		tn := new(needle.Needle)
		targets := []uint64{baseKey}
		if err := tn.ParsePath(fidPart); err == nil && uint64(tn.Id) != baseKey {
			targets = append(targets, uint64(tn.Id))
		}
		for _, k := range targets {
			putOrig(k)
		}
		serial++
		u := "http://" + node.Addr + path
		if qjwt != "" {
			u += "?jwt=" + url.QueryEscape(qjwt)
		}
		var body io.Reader
		ct := ""
		if method == "POST" || method == "PUT" {
			buf := new(bytes.Buffer)
			mw := multipart.NewWriter(buf)
			fw, _ := mw.CreateFormFile("file", "f.bin")
			fmt.Fprintf(fw, "new-%d", serial)
			mw.Close()
			body, ct = buf, mw.FormDataContentType()
		}
		rq, err := http.NewRequest(method, u, body)
		if err != nil {
			return []string{"badreq"}
		}
		if ct != "" {
			rq.Header.Set("Content-Type", ct)
		}
		if auth != "" {
			rq.Header.Set("Authorization", auth)
		}
		resp, err := client.Do(rq)
		if err != nil {
			return []string{"neterr"}
		}
		io.Copy(io.Discard, resp.Body)
		resp.Body.Close()
		changed := false
		for _, k := range targets {
			if !isOrig(k) {
				changed = true
			}
		}
		st := "pass"
		if resp.StatusCode == 401 {
			st = "401"
		}
		return []string{st, hx.B(changed)}
	}))
}

// parsePath mirrors only what the harness needs to find the target needle: vid and fid strings of the three path forms.
func parsePath(p string) (v, f, name, ext string, only bool) {
	parts := strings.Split(p, "/")
	switch len(parts) - 1 {
	case 3:
		return parts[1], parts[2], parts[3], "", false
	case 2:
		f = parts[2]
		if i := strings.LastIndex(f, "."); i > 0 {
			f = f[:i]
		}
		return parts[1], f, "", "", false
	}
	rest := p[1:]
	i := strings.LastIndex(rest, ",")
	if i < 0 {
		return rest, "", "", "", true
	}
	f = rest[i+1:]
	if j := strings.LastIndex(f, "."); j > 0 {
		f = f[:j]
	}
	return rest[:i], f, "", "", false
}

var keyHex = fmt.Sprintf("%x%08x", baseKey, cookie) // "1637037d6a5c"

func paths() []string {
	k := keyHex
	return []string{"/3," + k, "/3/" + k, "/3/" + k + "/name.txt", "/3," + k + ".jpg", "/3/" + k + ".png", "/3," + k + "_1", "/3/" + k + "_2", "/3," + k + "_1.txt",
		"/03," + k, "/3,0" + k, "/3," + strings.ToUpper(k), "/3,00" + k + "_1"}
}

func claimsFor(r *hx.Rng) []string {
	k := keyHex
	return []string{"3," + k, "3," + k, "3," + k, "3," + k + "_1", "3,0" + k, "03," + k, "4," + k, "3," + strings.ToUpper(k), "3,1638037d6a5c", "3," + k[:len(k)-1], "", "3", "3," + k + " ", "3/" + k, "3,00" + k}
}

func main() {
	a := hx.ParseArgs()
	tmp, err := os.MkdirTemp("", "c34")
	if err != nil {
		panic(err)
	}
	defer os.RemoveAll(tmp)
	vsx.Quiet(tmp)
	tr = hx.NewTrace(a.Out)
	defer tr.Close()
	node = vsx.NewNode(nil, "127.0.0.1:1")
	defer node.Close()
	if err := node.AddVolume(vid, "000", ""); err != nil {
		panic(err)
	}
	rsaKey, err = rsa.GenerateKey(rand.Reader, 1024)
	if err != nil {
		panic(err)
	}
	tr.Comment(fmt.Sprintf("c34 seed=%d tier=%s", a.Seed, a.Tier))
	if a.Ops != "" {
		replay(hx.ReadOps(a.Ops))
		return
	}
	r := hx.NewRng(hx.NewRng(a.Seed).U64())
	now := time.Now().Unix()
	configs := [][2]string{{"", ""}, {"wsecret", ""}, {"", "rsecret"}, {"wsecret", "rsecret"}, {"same", "same"}}
	methods := []string{"GET", "HEAD", "POST", "PUT", "DELETE"}
	good := "3," + keyHex

	send := func(method, path string, t tok, loc int) {
		switch loc {
		case 0:
			req(method, path, t.str, "", t)
		case 1:
			req(method, path, "", "BEARER "+t.str, t)
		case 2:
			req(method, path, "", "Bearer "+t.str, t)
		case 3:
			req(method, path, "", "bearer="+t.str, t) // the 7th character is not examined
		case 4:
			req(method, path, "", t.str, t) // no scheme: ignored unless it happens to start with "bearer"
		case 5:
			req(method, path, "", "Token  "+t.str, t)
		case 6:
			req(method, path, "", "BEARER  "+t.str, t) // two blanks: the token string starts with a blank
		case 7:
			req(method, path, t.str, "BEARER garbage", t) // the query parameter wins
		default:
			req(method, path, "", "BEARER", t) // too short
		}
	}

	for _, cfg := range configs {
		reset(cfg[0], cfg[1])
		keys := []string{cfg[0], cfg[1], "other", "wsecret", "rsecret"}
		for _, m := range methods {
			// no token at all
			req(m, "/"+good, "", "", tok{})
			for _, p := range paths() {
				// the right token for this method, every path form
				k := cfg[0]
				if m == "GET" || m == "HEAD" {
					k = cfg[1]
				}
				if k == "" {
					k = "unused"
				}
				send(m, p, mkTok("HS256", k, good, 0, 0, 0), r.Intn(3))
			}
			for _, k := range keys {
				if k == "" {
					continue
				}
				for _, alg := range []string{"HS256", "HS384", "HS512"} {
					send(m, "/"+good, mkTok(alg, k, good, now+1000, 0, 0), r.Intn(3))
				}
				// time claims
				send(m, "/"+good, mkTok("HS256", k, good, now-100, 0, 0), 1)
				send(m, "/"+good, mkTok("HS256", k, good, 0, now+1000, 0), 1)
				send(m, "/"+good, mkTok("HS256", k, good, 0, 0, now+1000), 1)
				send(m, "/"+good, mkTok("HS256", k, good, now+1000, now-10, now-10), 0)
				// claims
				for _, c := range claimsFor(r) {
					send(m, r.Pick(paths()[:8]), mkTok("HS256", k, c, 0, 0, 0), r.Intn(3))
				}
				// every way of presenting the token
				for loc := 0; loc <= 8; loc++ {
					send(m, "/"+good, mkTok("HS256", k, good, 0, 0, 0), loc)
				}
				// tampered: payload of another file with the signature of this one
				t1 := mkTok("HS256", k, good, 0, 0, 0)
				t2 := mkTok("HS256", k, "3,9999037d6a5c", 0, 0, 0)
				s1, s2 := strings.Split(t1.str, "."), strings.Split(t2.str, ".")
				tam := tok{str: s2[0] + "." + s1[1] + "." + s2[2], wellForm: true, alg: "HS256", signKey: k, sigOk: false, expOk: true, nbfOk: true, iatOk: true, fid: good}
				send(m, "/"+good, tam, 1)
			}
			// other algorithms
			send(m, "/"+good, mkTok("none", "", good, 0, 0, 0), r.Intn(3))
			send(m, "/"+good, mkTok("RS256", "", good, 0, 0, 0), r.Intn(3))
			// alg header says none, signature segment taken from an HS256 token
			hs := mkTok("HS256", "other", good, 0, 0, 0)
			nn := mkTok("none", "", good, 0, 0, 0)
			send(m, "/"+good, tok{str: strings.TrimSuffix(nn.str, ".") + "." + strings.Split(hs.str, ".")[2], wellForm: true, alg: "none", sigOk: false, expOk: true, nbfOk: true, iatOk: true, fid: good}, 1)
			// malformed strings
			for _, s := range []string{"abc", "a.b", "a.b.c", "..", "e30.e30.", "eyJhbGciOiJIUzI1NiJ9.e30", strings.Repeat("A", 300), "e30.e30.e30", "eyJhbGciOiJIUzI1NiIsInR5cCI6IkpXVCJ9.bm90anNvbg.AAAA"} {
				send(m, "/"+good, tok{str: s}, r.Intn(2))
			}
		}
		// a SEQUENCE with one token string: first the path its key belongs to (succeeds when the keys are configured), then the very
		// same string on the other path, which must be refused whatever was accepted before (no cross-key memory of verified tokens)
		for _, loc := range []int{0, 1} {
			rk, wk := cfg[1], cfg[0]
			if rk == "" {
				rk = "unusedr"
			}
			if wk == "" {
				wk = "unusedw"
			}
			rt := mkTok("HS256", rk, good, 0, 0, now-50-int64(loc)) // iat in the past: a fresh string that never expires
			wt := mkTok("HS384", wk, good, 0, 0, now-50-int64(loc))
			send("GET", "/"+good, rt, loc)
			send("HEAD", "/"+good, rt, loc)
			for _, m := range []string{"POST", "PUT", "DELETE"} {
				send(m, "/"+good, rt, loc)
				send(m, "/"+good+"_1", rt, loc)
			}
			send("POST", "/"+good, wt, loc)
			send("GET", "/"+good, wt, loc)
			send("HEAD", "/"+good+"_1", wt, loc)
			send("DELETE", "/"+good+"_1", wt, loc)
			send("GET", "/"+good, wt, loc)
			send("POST", "/"+good, rt, loc)
		}
		// claims that are strict textual PREFIXES of the target (a shorter needle-id/cookie split of the same hex string, the bare
		// volume id, the empty claim), the target addressed in the sub-file form `fid_n`
		for _, m := range methods {
			k := cfg[0]
			if m == "GET" || m == "HEAD" {
				k = cfg[1]
			}
			if k == "" {
				k = "unused"
			}
			for _, c := range []string{"3," + keyHex[:len(keyHex)-2], "3," + keyHex[:len(keyHex)-1], "3," + keyHex[:4], "3,", "3", "", "3," + keyHex + "_", "3," + keyHex + "_1"} {
				for _, p := range []string{"/3," + keyHex + "_0", "/3," + keyHex + "_1", "/3/" + keyHex + "_2", "/3," + keyHex + "_1.txt"} {
					send(m, p, mkTok("HS256", k, c, 0, 0, 0), r.Intn(3))
				}
			}
		}
		// random mixes
		for i := 0; i < a.N(120); i++ {
			k := r.Pick(keys)
			if k == "" {
				k = "other"
			}
			var exp, nbf, iat int64
			if r.Chance(1, 4) {
				exp = now + int64(r.Intn(2000)) - 1000
				if exp == now {
					exp = now + 500
				}
			}
			if r.Chance(1, 8) {
				nbf = now + int64(r.Intn(2)*2000) - 1000
			}
			if r.Chance(1, 8) {
				iat = now + int64(r.Intn(2)*2000) - 1000
			}
			send(r.Pick(methods), r.Pick(paths()), mkTok(r.Pick([]string{"HS256", "HS256", "HS256", "HS384", "HS512", "none", "RS256"}), k, r.Pick(claimsFor(r)), exp, nbf, iat), r.Intn(9))
		}
	}
}

func replay(ops [][]string) {
	for _, op := range ops {
		switch op[0] {
		case "reset":
			reset(hx.UnHexS(op[1]), hx.UnHexS(op[2]))
		case "req":
			// the token string is replayed verbatim (time claims are absolute: an expired token stays expired,
			// a token valid for 1000 s may have expired since — the attributes in the line are re-derived for exp)
			t := tok{str: hx.UnHexS(op[5]), wellForm: op[6] == "1", alg: op[7], signKey: hx.UnHexS(op[8]), sigOk: op[9] == "1", expOk: op[10] == "1", nbfOk: op[11] == "1", iatOk: op[12] == "1", fid: hx.UnHexS(op[13])}
			req(op[1], hx.UnHexS(op[2]), hx.UnHexS(op[3]), hx.UnHexS(op[4]), t)
		}
	}
}
