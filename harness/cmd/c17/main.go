// c17: correspondence harness for C17 (file content = last-writer-wins overlay of its chunks).
// Runs the REAL filer.MergeIntoVisibles / NonOverlappingVisibleIntervals / ViewFromChunks /
// CompactFileChunks / ChunkReadAt.ReadAt / StreamContent / doMaybeManifestize+ResolveChunkManifest
// on generated chunk trees.  Chunk bytes come from an in-memory store: through a fake
// chunk_cache.ChunkCache, or over loopback HTTP (manifest blobs, cache misses, StreamContent).
//
// Node tokens (prefix notation):  d.<off>.<size>.<mtime>.<vid>.<key>.<cookie>      data chunk
//                                 m.<off>.<size>.<cookie>.<n>  followed by n nodes  manifest chunk
// The cookie identifies the blob (file id string = "<vid>,<key hex><cookie 8 hex>"); byte i of blob c is content(c,i).
package main

import (
	"bytes"
	"fmt"
	"io"
	"math"
	"net/http"
	"net/http/httptest"
	"strconv"
	"strings"
	"sync"
	"sync/atomic"
	"time"

	"github.com/golang/protobuf/proto"

	"github.com/chrislusf/seaweedfs/weed/filer"
	"github.com/chrislusf/seaweedfs/weed/pb/filer_pb"
	"github.com/chrislusf/seaweedfs/weed/storage/needle"
	"github.com/chrislusf/seaweedfs/weed/wdclient"

	"verifharness/hx"
)

var tr *hx.Trace

// ---------------------------------------------------------------- blobs, server, cache

func content(cookie uint32, i int) byte { return byte((int(cookie)*31+i*7)%200 + 1) }

type store struct {
	sync.RWMutex
	blobs map[string][]byte
}

var cur = &store{blobs: map[string][]byte{}}
var curMu sync.RWMutex

func getStore() *store { curMu.RLock(); defer curMu.RUnlock(); return cur }
func resetStore()      { curMu.Lock(); cur = &store{blobs: map[string][]byte{}}; curMu.Unlock() }
func (s *store) get(fid string) []byte {
	s.RLock()
	defer s.RUnlock()
	return s.blobs[fid]
}
func (s *store) put(fid string, b []byte) {
	s.Lock()
	if old, ok := s.blobs[fid]; !ok || len(old) < len(b) {
		s.blobs[fid] = b
	}
	s.Unlock()
}

var srvURL string

// fault injection (miss-mode reads): while faultKind != "" every request for a file id in faultSet fails
// "404" -> 404 ; "500" -> 500 (the client retries for ~13 s) ; "cut.k" -> full Content-Length, a strict prefix of the body, connection dropped
var faultMu sync.RWMutex
var faultSet = map[string]bool{}
var faultKind string
var reqStarted, reqServed, lookups int64

func setFaults(kind string, fids map[string]bool) {
	faultMu.Lock()
	faultKind, faultSet = kind, fids
	faultMu.Unlock()
}

func serve(w http.ResponseWriter, r *http.Request) {
	atomic.AddInt64(&reqStarted, 1)
	defer atomic.AddInt64(&reqServed, 1)
	fid := strings.TrimPrefix(r.URL.Path, "/")
	b := getStore().get(fid)
	if b == nil {
		http.NotFound(w, r)
		return
	}
	faultMu.RLock()
	kind, bad := faultKind, faultSet[fid]
	faultMu.RUnlock()
	if bad && kind != "" {
		switch {
		case kind == "404":
			http.NotFound(w, r)
			return
		case kind == "500":
			http.Error(w, "injected", 500)
			return
		case strings.HasPrefix(kind, "cut."):
			k, _ := strconv.Atoi(kind[4:])
			k = k % len(b) // a strict prefix
			conn, buf, err := w.(http.Hijacker).Hijack()
			if err != nil {
				panic(err)
			}
			buf.WriteString("HTTP/1.1 200 OK\r\nContent-Type: application/octet-stream\r\n")
			buf.WriteString("Content-Length: " + strconv.Itoa(len(b)) + "\r\n\r\n")
			buf.Write(b[:k])
			buf.Flush()
			conn.Close()
			return
		}
	}
	http.ServeContent(w, r, "", time.Time{}, bytes.NewReader(b))
}

// quiesce waits until no chunk fetch (e.g. a prefetch goroutine of the reader) is in flight
func quiesce() {
	stable := 0
	for i := 0; i < 2000 && stable < 3; i++ {
		l, a, b := atomic.LoadInt64(&lookups), atomic.LoadInt64(&reqStarted), atomic.LoadInt64(&reqServed)
		time.Sleep(2 * time.Millisecond)
		if a == b && l <= a && l == atomic.LoadInt64(&lookups) && a == atomic.LoadInt64(&reqStarted) {
			stable++
		} else {
			stable = 0
		}
	}
}

func lookup(fileId string) ([]string, error) {
	atomic.AddInt64(&lookups, 1)
	return []string{srvURL + "/" + fileId}, nil
}

type lookupHolder struct{}

func (lookupHolder) GetLookupFileIdFunction() wdclient.LookupFileIdFunctionType { return lookup }

// fakeCache: mode 0 whole-chunk hits, mode 1 slice hits, mode 2 misses (the reader fetches over HTTP and SetChunk()s),
// mode 3 misses and never retains anything
type fakeCache struct {
	sync.Mutex
	mode int
	s    *store
	set  map[string][]byte
}

func (c *fakeCache) GetChunk(fileId string, minSize uint64) []byte {
	if c.mode == 3 {
		return nil
	}
	if c.mode == 2 {
		c.Lock()
		defer c.Unlock()
		return c.set[fileId]
	}
	return c.s.get(fileId)
}
func (c *fakeCache) GetChunkSlice(fileId string, offset, length uint64) []byte {
	if c.mode != 1 {
		return nil
	}
	b := c.s.get(fileId)
	if uint64(len(b)) < offset+length {
		return nil
	}
	return b[offset : offset+length]
}
func (c *fakeCache) SetChunk(fileId string, data []byte) {
	c.Lock()
	c.set[fileId] = data
	c.Unlock()
}

// ---------------------------------------------------------------- nodes

type node struct {
	manifest bool
	off      int64
	size     uint64
	mtime    int64
	vid      uint32
	key      uint64
	cookie   uint32
	children []*node
}

func (n *node) fid() string {
	if n.manifest {
		return needle.NewFileId(9, uint64(n.cookie), n.cookie).String()
	}
	return needle.NewFileId(needle.VolumeId(n.vid), n.key, n.cookie).String()
}

func (n *node) tokens(out []string) []string {
	if n.manifest {
		out = append(out, fmt.Sprintf("m.%d.%d.%d.%d", n.off, n.size, n.cookie, len(n.children)))
		for _, c := range n.children {
			out = c.tokens(out)
		}
		return out
	}
	return append(out, fmt.Sprintf("d.%d.%d.%d.%d.%d.%d", n.off, n.size, n.mtime, n.vid, n.key, n.cookie))
}

func nodesTokens(ns []*node) []string {
	var out []string
	for _, n := range ns {
		out = n.tokens(out)
	}
	return out
}

func parseNodes(toks []string) []*node {
	pos := 0
	var parse func() *node
	pi := func(s string) int64 { v, _ := strconv.ParseInt(s, 10, 64); return v }
	parse = func() *node {
		f := strings.Split(toks[pos], ".")
		pos++
		if f[0] == "m" {
			n := &node{manifest: true, off: pi(f[1]), size: uint64(pi(f[2])), cookie: uint32(pi(f[3]))}
			k := int(pi(f[4]))
			for i := 0; i < k && pos < len(toks); i++ {
				n.children = append(n.children, parse())
			}
			return n
		}
		return &node{off: pi(f[1]), size: uint64(pi(f[2])), mtime: pi(f[3]), vid: uint32(pi(f[4])), key: uint64(pi(f[5])), cookie: uint32(pi(f[6]))}
	}
	var out []*node
	for pos < len(toks) {
		out = append(out, parse())
	}
	return out
}

// build registers the blobs in the current store and returns the protobuf chunks
func build(ns []*node) []*filer_pb.FileChunk {
	s := getStore()
	var out []*filer_pb.FileChunk
	for _, n := range ns {
		if n.manifest {
			kids := build(n.children)
			if n.cookie%2 == 0 {
				// the form the real writer produces: Fid objects instead of strings
				cp := make([]*filer_pb.FileChunk, len(kids))
				for i, k := range kids {
					c := *k
					cp[i] = &c
				}
				filer_pb.BeforeEntrySerialization(cp)
				kids = cp
			}
			data, err := proto.Marshal(&filer_pb.FileChunkManifest{Chunks: kids})
			if err != nil {
				panic(err)
			}
			if len(data) == 0 {
				data = []byte{}
			}
			s.Lock()
			s.blobs[n.fid()] = data
			s.Unlock()
			out = append(out, &filer_pb.FileChunk{FileId: n.fid(), Offset: n.off, Size: n.size, Mtime: 1, IsChunkManifest: true})
			continue
		}
		sz := int(n.size)
		if sz < 1 {
			sz = 1
		}
		b := make([]byte, sz)
		for i := range b {
			b[i] = content(n.cookie, i)
		}
		s.put(n.fid(), b)
		out = append(out, &filer_pb.FileChunk{FileId: n.fid(), Offset: n.off, Size: n.size, Mtime: n.mtime})
	}
	return out
}

func cookieOf(fileId string) string {
	// "<vid>,<keyhex><cookie8hex>"
	if len(fileId) < 8 {
		return "?"
	}
	v, err := strconv.ParseUint(fileId[len(fileId)-8:], 16, 32)
	if err != nil {
		return "?"
	}
	return strconv.FormatUint(v, 10)
}

func viewsTok(vs []*filer.ChunkView) string {
	if len(vs) == 0 {
		return "-"
	}
	var sb strings.Builder
	for i, v := range vs {
		if i > 0 {
			sb.WriteByte(',')
		}
		fmt.Fprintf(&sb, "%s:%d:%d:%d:%d", cookieOf(v.FileId), v.Offset, v.Size, v.LogicOffset, v.ChunkSize)
	}
	return sb.String()
}

func visTok(vs []filer.VisibleInterval) string {
	if len(vs) == 0 {
		return "-"
	}
	var sb strings.Builder
	for i, v := range vs {
		if i > 0 {
			sb.WriteByte(',')
		}
		start, stop, mt, coff, fid, csize := v.VerifFields()
		fmt.Fprintf(&sb, "%d:%d:%d:%s:%d:%d", start, stop, mt, cookieOf(fid), coff, csize)
	}
	return sb.String()
}

// windows: "all.W" = every (a,l) with 0<=a<=W, 0<=l<=W-a ; or "a+l_a+l_..."
func parseWins(s string) [][2]int64 {
	var out [][2]int64
	if strings.HasPrefix(s, "all.") {
		w, _ := strconv.Atoi(s[4:])
		for a := 0; a <= w; a++ {
			for l := 0; l <= w-a; l++ {
				out = append(out, [2]int64{int64(a), int64(l)})
			}
		}
		return out
	}
	if s == "-" {
		return nil
	}
	for _, p := range strings.Split(s, "_") {
		f := strings.Split(p, "+")
		a, _ := strconv.ParseInt(f[0], 10, 64)
		l, _ := strconv.ParseInt(f[1], 10, 64)
		out = append(out, [2]int64{a, l})
	}
	return out
}

func cpChunks(cs []*filer_pb.FileChunk) []*filer_pb.FileChunk {
	out := make([]*filer_pb.FileChunk, len(cs))
	copy(out, cs)
	return out
}

// ---------------------------------------------------------------- ops

// mg: MergeIntoVisibles folded over the chunks in the given order (no sort, no filter)
func opMg(ns []*node) {
	tr.Op("mg", nodesTokens(ns), hx.Guard(func() []string {
		resetStore()
		var vis []filer.VisibleInterval
		for _, c := range build(ns) {
			vis = filer.MergeIntoVisibles(vis, c)
		}
		return []string{visTok(vis)}
	}))
}

// vi: NonOverlappingVisibleIntervals over the window [lo,hi)  (hi = -1: MaxInt64)
func opVi(lo, hi int64, ns []*node) {
	tr.Op("vi", append([]string{hx.I(lo), hx.I(hi)}, nodesTokens(ns)...), hx.Guard(func() []string {
		resetStore()
		h := hi
		if h < 0 {
			h = math.MaxInt64
		}
		vis, err := filer.NonOverlappingVisibleIntervals(lookup, build(ns), lo, h)
		return []string{hx.Err(err), visTok(vis)}
	}))
}

// vw: ViewFromChunks for every window
func opVw(wins string, ns []*node) {
	tr.Op("vw", append([]string{wins}, nodesTokens(ns)...), hx.Guard(func() []string {
		resetStore()
		cs := build(ns)
		var out []string
		for _, w := range parseWins(wins) {
			out = append(out, viewsTok(filer.ViewFromChunks(lookup, cpChunks(cs), w[0], w[1])))
		}
		return out
	}))
}

// rd: views over the whole file, then ChunkReadAt.ReadAt for every window into a buffer pre-filled with `fill`
func opRd(fs int64, fill int, mode int, wins string, ns []*node) {
	tr.Op("rd", append([]string{hx.I(fs), hx.I(int64(fill)), hx.I(int64(mode)), wins}, nodesTokens(ns)...), hx.Guard(func() []string {
		resetStore()
		cs := build(ns)
		views := filer.ViewFromChunks(lookup, cs, 0, math.MaxInt64)
		cache := &fakeCache{mode: mode, s: getStore(), set: map[string][]byte{}}
		rdr := filer.NewChunkReaderAtFromClient(lookup, views, cache, fs)
		out := []string{viewsTok(views)}
		for _, w := range parseWins(wins) {
			p := make([]byte, w[1])
			for i := range p {
				p[i] = byte(fill)
			}
			n, err := rdr.ReadAt(p, w[0])
			e := "0"
			if err == io.EOF {
				e = "1"
			} else if err != nil {
				e = "2"
			}
			out = append(out, fmt.Sprintf("%d:%s:%s", n, e, hx.Hex(p)))
		}
		rdr.Close()
		return out
	}))
}

func readTok(rdr *filer.ChunkReadAt, w [2]int64, fill int) string {
	p := make([]byte, w[1])
	for i := range p {
		p[i] = byte(fill)
	}
	n, err := rdr.ReadAt(p, w[0])
	e := "0"
	if err == io.EOF {
		e = "1"
	} else if err != nil {
		e = "2"
	}
	return fmt.Sprintf("%d:%s:%s", n, e, hx.Hex(p))
}

// rf: reads with fetch faults.  The reader always misses the cache (mode 2 retains fetched chunks, mode 3 does not).
// Phase 1: every fetch of a chunk whose cookie is in `faulty` fails in the way `kind` says; ReadAt for wins1.
// Phase 2: the server is healthy again; the SAME reader reads wins2.   Output: views, phase-1 results, "|", phase-2 results.
func opRf(fs int64, fill int, mode int, kind string, faulty string, wins1, wins2 string, ns []*node) {
	tr.Op("rf", append([]string{hx.I(fs), hx.I(int64(fill)), hx.I(int64(mode)), kind, faulty, wins1, wins2}, nodesTokens(ns)...), hx.Guard(func() []string {
		resetStore()
		setFaults("", nil)
		defer setFaults("", nil)
		cs := build(ns)
		views := filer.ViewFromChunks(lookup, cs, 0, math.MaxInt64)
		bad := map[string]bool{}
		if faulty != "-" {
			want := map[string]bool{}
			for _, c := range strings.Split(faulty, ",") {
				want[c] = true
			}
			var mark func(ns []*node)
			mark = func(ns []*node) {
				for _, n := range ns {
					if n.manifest {
						mark(n.children)
					} else if want[strconv.FormatUint(uint64(n.cookie), 10)] {
						bad[n.fid()] = true
					}
				}
			}
			mark(ns)
		}
		cache := &fakeCache{mode: mode, s: getStore(), set: map[string][]byte{}}
		rdr := filer.NewChunkReaderAtFromClient(lookup, views, cache, fs)
		out := []string{viewsTok(views)}
		setFaults(kind, bad)
		for _, w := range parseWins(wins1) {
			out = append(out, readTok(rdr, w, fill))
		}
		quiesce()
		setFaults("", nil)
		out = append(out, "|")
		for _, w := range parseWins(wins2) {
			out = append(out, readTok(rdr, w, fill))
		}
		quiesce()
		rdr.Close()
		return out
	}))
}

// tie: like the view part of rd, for lists whose (mtime,key) ties are resolved by sort.Slice in an unspecified order (judge only)
func opTie(ns []*node) {
	tr.Op("tie", nodesTokens(ns), hx.Guard(func() []string {
		resetStore()
		return []string{viewsTok(filer.ViewFromChunks(lookup, build(ns), 0, math.MaxInt64))}
	}))
}

func cookiesTok(cs []*filer_pb.FileChunk) string {
	if len(cs) == 0 {
		return "-"
	}
	var p []string
	for _, c := range cs {
		p = append(p, cookieOf(c.GetFileIdString()))
	}
	return strings.Join(p, ",")
}

// cp: CompactFileChunks
func opCp(ns []*node) {
	tr.Op("cp", nodesTokens(ns), hx.Guard(func() []string {
		resetStore()
		compacted, garbage := filer.CompactFileChunks(lookup, build(ns))
		return []string{cookiesTok(compacted), cookiesTok(garbage)}
	}))
}

// sc: StreamContent for every window (chunk bytes over loopback HTTP)
func opSc(wins string, ns []*node) {
	tr.Op("sc", append([]string{wins}, nodesTokens(ns)...), hx.Guard(func() []string {
		resetStore()
		cs := build(ns)
		var out []string
		for _, w := range parseWins(wins) {
			var buf bytes.Buffer
			err := filer.StreamContent(lookupHolder{}, &buf, cpChunks(cs), w[0], w[1])
			out = append(out, hx.Err(err)+":"+hx.Hex(buf.Bytes()))
		}
		return out
	}))
}

// mz: doMaybeManifestize(batch) with the real mergeIntoManifest; new manifest blobs get cookies base, base+1, ...
// Output: the resulting chunk tree, "|", the views of the result over the whole file (manifests resolved over HTTP).
func opMz(batch int, base uint32, ns []*node) {
	tr.Op("mz", append([]string{hx.I(int64(batch)), hx.U(uint64(base))}, nodesTokens(ns)...), hx.Guard(func() []string {
		resetStore()
		cs := build(ns)
		next := base
		save := func(reader io.Reader, name string, offset int64) (*filer_pb.FileChunk, string, string, error) {
			data, _ := io.ReadAll(reader)
			n := &node{manifest: true, cookie: next}
			next++
			s := getStore()
			s.Lock()
			s.blobs[n.fid()] = data
			s.Unlock()
			return &filer_pb.FileChunk{FileId: n.fid(), Mtime: 1}, "", "", nil
		}
		res, err := filer.VerifDoMaybeManifestize(save, cs, batch)
		if err != nil {
			return []string{"err"}
		}
		var out []string
		for _, c := range res {
			out = observe(c, out)
		}
		out = append(out, "|")
		out = append(out, viewsTok(filer.ViewFromChunks(lookup, res, 0, math.MaxInt64)))
		return out
	}))
}

// mw: doMaybeManifestize(batch) with the real mergeIntoManifest, then READ WINDOWS of the manifestized file.
// Output: the resulting chunk tree, "|", ts=<TotalSize before>:<TotalSize after>, and per window the bytes StreamContent
// writes for it over the manifestized list (manifests resolved over HTTP with the window filter of ResolveChunkManifest).
func opMw(batch int, base uint32, wins string, ns []*node) {
	tr.Op("mw", append([]string{hx.I(int64(batch)), hx.U(uint64(base)), wins}, nodesTokens(ns)...), hx.Guard(func() []string {
		resetStore()
		cs := build(ns)
		next := base
		save := func(reader io.Reader, name string, offset int64) (*filer_pb.FileChunk, string, string, error) {
			data, _ := io.ReadAll(reader)
			n := &node{manifest: true, cookie: next}
			next++
			s := getStore()
			s.Lock()
			s.blobs[n.fid()] = data
			s.Unlock()
			return &filer_pb.FileChunk{FileId: n.fid(), Mtime: 1}, "", "", nil
		}
		before := filer.TotalSize(cs)
		res, err := filer.VerifDoMaybeManifestize(save, cpChunks(cs), batch)
		if err != nil {
			return []string{"err"}
		}
		var out []string
		for _, c := range res {
			out = observe(c, out)
		}
		out = append(out, "|", fmt.Sprintf("ts=%d:%d", before, filer.TotalSize(res)))
		for _, w := range parseWins(wins) {
			var buf bytes.Buffer
			err := filer.StreamContent(lookupHolder{}, &buf, cpChunks(res), w[0], w[1])
			out = append(out, hx.Err(err)+":"+hx.Hex(buf.Bytes()))
		}
		return out
	}))
}

// observe prints a chunk as node tokens from what the real code produced (manifest blobs are decoded)
func observe(c *filer_pb.FileChunk, out []string) []string {
	fid := c.GetFileIdString()
	if !c.IsChunkManifest {
		vid, key := "?", "?"
		if i := strings.Index(fid, ","); i > 0 && len(fid)-i-1 > 8 {
			vid = fid[:i]
			if k, err := strconv.ParseUint(fid[i+1:len(fid)-8], 16, 64); err == nil {
				key = strconv.FormatUint(k, 10)
			}
		}
		return append(out, fmt.Sprintf("d.%d.%d.%d.%s.%s.%s", c.Offset, c.Size, c.Mtime, vid, key, cookieOf(fid)))
	}
	m := &filer_pb.FileChunkManifest{}
	if e := proto.Unmarshal(getStore().get(fid), m); e != nil {
		return append(out, "?unmarshal")
	}
	filer_pb.AfterEntryDeserialization(m.Chunks)
	out = append(out, fmt.Sprintf("m.%d.%d.%s.%d", c.Offset, c.Size, cookieOf(fid), len(m.Chunks)))
	for _, k := range m.Chunks {
		out = observe(k, out)
	}
	return out
}

// ---------------------------------------------------------------- generators

func intervals(p int) [][2]int {
	var out [][2]int
	for a := 0; a < p; a++ {
		for b := a + 1; b <= p; b++ {
			out = append(out, [2]int{a, b})
		}
	}
	return out
}

// exhaustive lists of k intervals over positions 0..p; chunk j is the j-th write (mtime j+1), the list is presented rotated
func exhaustive(k, p int, each func(ns []*node, idx int)) {
	iv := intervals(p)
	idx := make([]int, k)
	count := 0
	for {
		ns := make([]*node, k)
		for j := 0; j < k; j++ {
			ns[j] = &node{off: int64(iv[idx[j]][0]), size: uint64(iv[idx[j]][1] - iv[idx[j]][0]), mtime: int64(j + 1), vid: 3, key: uint64(100 + j), cookie: uint32(j + 1)}
		}
		// rotate so that input order differs from time order
		rot := count % k
		ns = append(ns[rot:], ns[:rot]...)
		each(ns, count)
		count++
		j := k - 1
		for j >= 0 {
			idx[j]++
			if idx[j] < len(iv) {
				break
			}
			idx[j] = 0
			j--
		}
		if j < 0 {
			return
		}
	}
}

type gen struct {
	r      *hx.Rng
	cookie uint32
}

func (g *gen) randData(maxOff, maxSize, mtimes, keys int, zeroOK bool) *node {
	g.cookie++
	sz := 1 + g.r.Intn(maxSize)
	if zeroOK && g.r.Chance(1, 8) {
		sz = 0
	}
	return &node{off: int64(g.r.Intn(maxOff + 1)), size: uint64(sz), mtime: int64(1 + g.r.Intn(mtimes)), vid: uint32(1 + g.r.Intn(3)), key: uint64(1 + g.r.Intn(keys)), cookie: g.cookie}
}

// randList: n data chunks; fullTies allows equal (mtime,key) pairs, otherwise keys are made distinct
func (g *gen) randList(n, maxOff, maxSize int, fullTies bool) []*node {
	mt := 1 + g.r.Intn(n+2)
	if g.r.Chance(1, 4) {
		mt = 1 + g.r.Intn(3)
	}
	var ns []*node
	for i := 0; i < n; i++ {
		var d *node
		switch {
		case len(ns) > 0 && g.r.Chance(1, 10): // exact duplicate of an earlier node
			d = ns[g.r.Intn(len(ns))]
		case len(ns) > 0 && g.r.Chance(1, 12): // the same blob referenced at another place
			o := ns[g.r.Intn(len(ns))]
			d = &node{off: int64(g.r.Intn(maxOff + 1)), size: o.size, mtime: int64(1 + g.r.Intn(mt)), vid: o.vid, key: o.key, cookie: o.cookie}
		default:
			d = g.randData(maxOff, maxSize, mt, 3+g.r.Intn(2*n+1), true)
		}
		ns = append(ns, d)
	}
	if !fullTies {
		// make (mtime,key) distinct among non-identical nodes: a clashing node gets a fresh mtime
		seen := map[*node]bool{}
		pairs := map[[2]int64]bool{}
		fresh := int64(1000)
		for _, d := range ns {
			if seen[d] {
				continue
			}
			seen[d] = true
			if pairs[[2]int64{d.mtime, int64(d.key)}] {
				fresh++
				d.mtime = fresh
			}
			pairs[[2]int64{d.mtime, int64(d.key)}] = true
		}
	}
	return ns
}

// wrap some runs of the list into (possibly nested) manifests whose hull covers their children
func (g *gen) manifestize(ns []*node, depth int) []*node {
	if depth == 0 || len(ns) == 0 {
		return ns
	}
	var out []*node
	i := 0
	for i < len(ns) {
		if g.r.Chance(1, 3) {
			k := 1 + g.r.Intn(4)
			if i+k > len(ns) {
				k = len(ns) - i
			}
			kids := g.manifestize(ns[i:i+k], depth-1)
			out = append(out, g.mkManifest(kids))
			i += k
		} else {
			out = append(out, ns[i])
			i++
		}
	}
	if g.r.Chance(1, 6) {
		out = append(out, g.mkManifest(nil))
	}
	return out
}

func hull(kids []*node) (int64, uint64) {
	lo, hi := int64(math.MaxInt64), int64(math.MinInt64)
	for _, k := range kids {
		if lo > k.off {
			lo = k.off
		}
		if hi < k.off+int64(k.size) {
			hi = k.off + int64(k.size)
		}
	}
	if len(kids) == 0 {
		return 0, 0
	}
	return lo, uint64(hi - lo)
}

func (g *gen) mkManifest(kids []*node) *node {
	g.cookie++
	lo, sz := hull(kids)
	if g.r.Chance(1, 5) && len(kids) > 0 { // a hull larger than needed is still well-formed
		d := int64(g.r.Intn(3))
		if d > lo {
			d = lo
		}
		lo -= d
		sz += uint64(d) + uint64(g.r.Intn(3))
	}
	return &node{manifest: true, off: lo, size: sz, cookie: g.cookie, children: kids}
}

func extent(ns []*node) int64 {
	var e int64
	for _, n := range ns {
		if n.manifest {
			if x := extent(n.children); x > e {
				e = x
			}
			if x := n.off + int64(n.size); x > e {
				e = x
			}
		} else if x := n.off + int64(n.size); x > e {
			e = x
		}
	}
	return e
}

func (g *gen) randWins(n int, ext int64) string {
	var p []string
	for i := 0; i < n; i++ {
		a := int64(g.r.Intn(int(ext) + 4))
		l := int64(g.r.Intn(int(ext) + 6 - int(a)%int(ext+1)))
		if g.r.Chance(1, 6) {
			l = int64(g.r.Intn(3))
		}
		p = append(p, fmt.Sprintf("%d+%d", a, l))
	}
	p = append(p, fmt.Sprintf("0+%d", ext+3), "0+0")
	return strings.Join(p, "_")
}

func countData(ns []*node) int {
	c := 0
	for _, n := range ns {
		if n.manifest {
			c += countData(n.children)
		} else {
			c++
		}
	}
	return c
}

func main() {
	a := hx.ParseArgs()
	tr = hx.NewTrace(a.Out)
	defer tr.Close()
	srv := httptest.NewServer(http.HandlerFunc(serve))
	defer srv.Close()
	srvURL = srv.URL
	tr.Comment(fmt.Sprintf("c17 seed=%d tier=%s", a.Seed, a.Tier))

	if a.Ops != "" {
		replay(hx.ReadOps(a.Ops))
		return
	}
	g := &gen{r: hx.NewRng(a.Seed)}

	// ---- bounded-exhaustive: every list of k intervals over positions 0..p, every window
	type ex struct {
		k, p int
		part bool // thorough tier: the list space is split over three consecutive seeds
	}
	plan := []ex{{1, 8, false}, {2, 8, false}, {3, 5, false}, {4, 3, false}}
	if a.Thorough() {
		plan = []ex{{1, 9, false}, {2, 9, false}, {3, 8, true}, {4, 6, true}}
	}
	for _, e := range plan {
		wins := fmt.Sprintf("all.%d", e.p+1)
		e := e
		exhaustive(e.k, e.p, func(ns []*node, idx int) {
			if e.part && uint64(idx)%3 != a.Seed%3 {
				return
			}
			fill := 0
			if idx%2 == 1 {
				fill = 238
			}
			mode := idx % 3
			if e.part {
				mode = idx % 2 // no HTTP fetches in the large sweeps
			}
			opRd(int64(e.p+1), fill, mode, wins, ns)
			opVw(wins, ns)
			opCp(ns)
			if idx%7 == 0 {
				opMg(ns)
			}
		})
	}
	// zero-size chunks and equal (mtime,key) in small exhaustive form: 3 chunks over 0..4 with sizes 0..
	{
		p := 4
		var iv [][2]int
		for x := 0; x <= p; x++ {
			for y := x; y <= p; y++ {
				iv = append(iv, [2]int{x, y})
			}
		}
		cnt := 0
		for _, i1 := range iv {
			for _, i2 := range iv {
				for _, i3 := range iv {
					cnt++
					zero := i1[0] == i1[1] || i2[0] == i2[1] || i3[0] == i3[1]
					mk := func(i [2]int, j int, mt int64, key uint64) *node {
						return &node{off: int64(i[0]), size: uint64(i[1] - i[0]), mtime: mt, vid: 3, key: key, cookie: uint32(j)}
					}
					if zero {
						ns := []*node{mk(i1, 1, 1, 5), mk(i2, 2, 2, 5), mk(i3, 3, 3, 5)}
						opMg(ns)
						if cnt%3 == 0 {
							opRd(int64(p+1), 238, cnt%3, fmt.Sprintf("all.%d", p+1), ns)
							opCp(ns)
						}
					} else if cnt%2 == 0 {
						// equal mtimes: the file key decides; equal keys too: input order decides (lists of <= 12 chunks)
						keys := [][3]uint64{{7, 7, 7}, {9, 8, 7}, {7, 9, 7}}[cnt%3]
						ns := []*node{mk(i1, 1, 4, keys[0]), mk(i2, 2, 4, keys[1]), mk(i3, 3, 4, keys[2])}
						opRd(int64(p+1), 0, cnt%3, fmt.Sprintf("all.%d", p+1), ns)
						opCp(ns)
					}
				}
			}
		}
	}

	// ---- random lists: <= 40 chunks, equal mtimes, zero sizes, duplicates, nested manifests
	for i := 0; i < a.N(600); i++ {
		n := 1 + g.r.Intn(40)
		if g.r.Chance(1, 3) {
			n = 1 + g.r.Intn(8)
		}
		fullTies := n <= 12 && g.r.Bool()
		ns := g.randList(n, 60, 1+g.r.Intn(25), fullTies)
		flat := ns
		withM := g.r.Chance(1, 2)
		if withM {
			ns = g.manifestize(ns, 1+g.r.Intn(3))
		}
		ext := extent(ns)
		fs := ext + int64(g.r.Intn(6))
		if g.r.Chance(1, 12) && ext > 2 {
			fs = ext - 1 - int64(g.r.Intn(2))
		}
		fill := 0
		if g.r.Bool() {
			fill = 238
		}
		opRd(fs, fill, g.r.Intn(3), g.randWins(10, ext), ns)
		opVw(g.randWins(8, ext), ns)
		if g.r.Chance(1, 3) {
			lo := int64(g.r.Intn(int(ext) + 2))
			opVi(lo, lo+int64(g.r.Intn(int(ext)+3)), ns)
			opVi(0, -1, ns)
		}
		opCp(flat)
		if g.r.Chance(1, 4) {
			opMg(flat)
		}
		if g.r.Chance(1, 6) {
			opSc(g.randWins(3, ext)+fmt.Sprintf("_0+%d", int64(math.MaxInt64)), ns)
		}
		// manifestize with small batch sizes
		batch := []int{2, 3, 2, 3, 1, 4, 5}[g.r.Intn(7)]
		opMz(batch, 900000, ns)
	}
	// ---- lists longer than 12 with full (mtime,key) ties: judged, not recomputed
	for i := 0; i < a.N(60); i++ {
		n := 13 + g.r.Intn(28)
		ns := g.randList(n, 40, 1+g.r.Intn(20), true)
		for _, d := range ns {
			d.key = uint64(1 + g.r.Intn(3))
			d.mtime = int64(1 + g.r.Intn(3))
		}
		// a key change changes the file id: one cookie per distinct (vid,key,cookie)
		seen := map[string]uint32{}
		for _, d := range ns {
			k := fmt.Sprintf("%d.%d.%d", d.vid, d.key, d.cookie)
			if c, ok := seen[k]; ok {
				d.cookie = c
			} else {
				g.cookie++
				seen[k] = g.cookie
				d.cookie = g.cookie
			}
		}
		opTie(ns)
	}
	// ---- fetch faults on cache misses: every list of 2 intervals over 0..5 (thorough: 3 over 0..4), every non-empty set of
	// failing chunks, every window during the fault, the whole file after recovery
	{
		k, p := 2, 5
		if a.Thorough() {
			k, p = 3, 4
		}
		exhaustive(k, p, func(ns []*node, idx int) {
			for sub := 1; sub < 1<<uint(k); sub++ {
				if !a.Thorough() && (idx+sub)%2 == 1 {
					continue
				}
				var f []string
				for j := 0; j < k; j++ {
					if sub&(1<<uint(j)) != 0 {
						f = append(f, strconv.Itoa(j+1))
					}
				}
				kind := []string{"404", "cut.0", "cut.1", "404", "cut.2"}[(idx+sub)%5]
				fill := []int{0, 238}[(idx/3)%2]
				opRf(int64(p+1), fill, 2+(idx+sub)%2, kind, strings.Join(f, ","), fmt.Sprintf("all.%d", p+1), fmt.Sprintf("0+%d_1+%d_0+%d", p+1, p, p+1), ns)
			}
		})
	}
	for i := 0; i < a.N(150); i++ {
		n := 1 + g.r.Intn(10)
		ns := g.randList(n, 40, 1+g.r.Intn(15), g.r.Bool())
		flat := ns
		if g.r.Chance(1, 3) {
			ns = g.manifestize(ns, 1+g.r.Intn(2))
		}
		var f []string
		for _, d := range flat {
			if g.r.Chance(1, 3) {
				f = append(f, strconv.FormatUint(uint64(d.cookie), 10))
			}
		}
		faulty := "-"
		if len(f) > 0 {
			faulty = strings.Join(f, ",")
		}
		ext := extent(ns)
		kind := "404"
		if g.r.Bool() {
			kind = fmt.Sprintf("cut.%d", g.r.Intn(20))
		}
		opRf(ext+int64(g.r.Intn(4)), []int{0, 238}[g.r.Intn(2)], 2+g.r.Intn(2), kind, faulty, g.randWins(8, ext), g.randWins(5, ext), ns)
	}
	if a.Thorough() {
		// a persistent 5xx: the client retries for ~13 s, then the read must fail; single view, so no prefetch is pending at recovery
		opRf(6, 238, 3, "500", "1", "0+6", "0+6_2+3", []*node{{off: 0, size: 6, mtime: 1, vid: 3, key: 7, cookie: 1}})
	}

	// ---- sparse files through StreamContent: random lists with bounded windows and the whole-file call (0, MaxInt64)
	whole := fmt.Sprintf("_0+%d", int64(math.MaxInt64))
	for i := 0; i < a.N(15); i++ {
		ns := g.randList(1+g.r.Intn(5), 30, 8, false)
		opSc(g.randWins(3, extent(ns))+whole, ns)
	}
	// every list of 2 intervals over 0..5 (thorough: 3 over 0..4): every window up to 2 past the last position, and the whole file
	{
		k, p := 2, 5
		if a.Thorough() {
			k, p = 3, 4
		}
		exhaustive(k, p, func(ns []*node, idx int) {
			if !a.Thorough() && uint64(idx)%2 != a.Seed%2 {
				return
			}
			opSc(fmt.Sprintf("all.%d", p+2), ns)
			opSc(whole[1:], ns)
		})
	}

	// ---- read windows of manifestized files (op mw): every list of 2 intervals over 0..5 as one batch of 2 and every list of
	// 3 intervals over 0..3 as batches of 2 and 3 (thorough: 3 over 0..4), in every presentation order the rotation gives,
	// with EVERY window up to 1 past the last position; then random lists and directed batches whose LAST chunk starts
	// before and ends after all earlier chunks of its batch, with windows that start past the earlier chunks
	{
		exhaustive(2, 5, func(ns []*node, idx int) {
			opMw(2, 900000, "all.7", ns)
			if idx%5 == 0 {
				opMw(1, 900000, "all.7", ns)
			}
		})
		p3 := 3
		if a.Thorough() {
			p3 = 4
		}
		exhaustive(3, p3, func(ns []*node, idx int) {
			opMw(2+idx%2, 900000, fmt.Sprintf("all.%d", p3+2), ns)
		})
	}
	for i := 0; i < a.N(120); i++ {
		n := 1 + g.r.Intn(12)
		ns := g.randList(n, 40, 1+g.r.Intn(20), g.r.Bool())
		if g.r.Chance(1, 3) {
			ns = g.manifestize(ns, 1)
		}
		opMw([]int{2, 3, 2, 3, 1, 4, 5}[g.r.Intn(7)], 900000, g.randWins(8, extent(ns)), ns)
	}
	for i := 0; i < a.N(60); i++ {
		// batches of k: k-1 chunks inside [10,40), then one chunk around all of them; windows start behind the inner chunks
		k := 2 + g.r.Intn(3)
		nb := 1 + g.r.Intn(3)
		var ns []*node
		var wins []string
		for b := 0; b < nb; b++ {
			lo, hi := int64(math.MaxInt64), int64(0)
			for j := 0; j < k-1; j++ {
				d := g.randData(30, 10, 50, 90, false)
				d.off += 10
				d.mtime = int64(len(ns) + 1)
				d.key = uint64(100 + len(ns))
				ns = append(ns, d)
				if d.off < lo {
					lo = d.off
				}
				if e := d.off + int64(d.size); e > hi {
					hi = e
				}
			}
			g.cookie++
			wo := lo - 1 - int64(g.r.Intn(int(lo)))
			we := hi + 1 + int64(g.r.Intn(12))
			ns = append(ns, &node{off: wo, size: uint64(we - wo), mtime: int64(len(ns) + 1), vid: 2, key: uint64(100 + len(ns)), cookie: g.cookie})
			wins = append(wins, fmt.Sprintf("%d+%d", hi, we-hi), fmt.Sprintf("%d+1", hi+int64(g.r.Intn(int(we-hi)))), fmt.Sprintf("%d+%d", lo, we+2-lo))
		}
		if g.r.Chance(1, 3) {
			ns = append(ns, g.randData(60, 10, 50, 90, false)) // a remainder that stays a plain chunk
		}
		opMw(k, 900000, strings.Join(wins, "_")+"_"+g.randWins(3, extent(ns)), ns)
	}
}

func replay(ops [][]string) {
	pi := func(s string) int64 { v, _ := strconv.ParseInt(s, 10, 64); return v }
	for _, op := range ops {
		switch op[0] {
		case "mg":
			opMg(parseNodes(op[1:]))
		case "vi":
			opVi(pi(op[1]), pi(op[2]), parseNodes(op[3:]))
		case "vw":
			opVw(op[1], parseNodes(op[2:]))
		case "rd":
			opRd(pi(op[1]), int(pi(op[2])), int(pi(op[3])), op[4], parseNodes(op[5:]))
		case "tie":
			opTie(parseNodes(op[1:]))
		case "rf":
			opRf(pi(op[1]), int(pi(op[2])), int(pi(op[3])), op[4], op[5], op[6], op[7], parseNodes(op[8:]))
		case "cp":
			opCp(parseNodes(op[1:]))
		case "sc":
			opSc(op[1], parseNodes(op[2:]))
		case "mz":
			opMz(int(pi(op[1])), uint32(pi(op[2])), parseNodes(op[3:]))
		case "mw":
			opMw(int(pi(op[1])), uint32(pi(op[2])), op[3], parseNodes(op[4:]))
		}
	}
}
