//go:build c20http
// +build c20http

package main

import (
	"strconv"

	"verifharness/hx"
)

// family (variant "http" of C20): histories in which files are written through the filer's HTTP write handlers
// (PUT, PUT ?op=append; inline and chunked; metadata store up or down), mixed with the namespace operations of
// the default family (files made by other clients, hard links, renames, deletes).

func hop(op, path string, uid, limit, chunk, n int, down bool) []string {
	return []string{op, path, strconv.Itoa(uid), strconv.Itoa(limit), strconv.Itoa(chunk), strconv.Itoa(n), hx.B(down)}
}

func (g *gen) httpSize(chunk int) int {
	switch g.r.Intn(8) {
	case 0:
		return 0
	case 1:
		return 1 + g.r.Intn(chunk)
	case 2:
		return chunk * (1 + g.r.Intn(3)) // ends exactly at a chunk border
	default:
		return chunk*g.r.Intn(4) + 1 + g.r.Intn(chunk)
	}
}

func (g *gen) httpOp(limit int) []string {
	files, _ := g.livePaths()
	p := g.pickPath(files)
	chunk := 4 + g.r.Intn(13)
	op := "hput"
	if g.r.Chance(1, 2) {
		op = "happend"
	}
	return hop(op, p, 1+g.r.Intn(9), limit, chunk, g.httpSize(chunk), g.r.Chance(1, 3))
}

// scripted: the branches every run must see
func (g *gen) httpScripted() {
	// append onto a chunked file while the store is down, then again with the store up
	g.reset()
	exec(hop("hput", "/a/b/c", 3, 0, 8, 20, false))
	exec(hop("happend", "/a/b/c", 3, 0, 8, 12, false))
	exec(hop("happend", "/a/b/c", 3, 0, 8, 9, true))
	exec(hop("happend", "/a/b/c", 3, 0, 8, 9, false))
	exec(hop("hput", "/a/b/c", 4, 0, 8, 17, true))
	exec(hop("hput", "/a/b/c", 4, 0, 8, 17, false))
	exec(hop("hput", "/a/c", 4, 0, 8, 5, true)) // new name, store down
	exec(hop("happend", "/d", 4, 0, 8, 16, true))
	exec(hop("happend", "/d", 4, 0, 8, 16, false))
	// a save that fails with the store up: the parent is a file; the target is a directory
	g.reset()
	exec(hop("hput", "/a", 2, 0, 8, 10, false))
	exec(hop("hput", "/a/b", 2, 0, 8, 10, false))
	exec(hop("happend", "/a/b", 2, 0, 8, 10, false))
	exec([]string{"create", "/d", "d", "1", "-", "0", "0", "0"})
	exec(hop("hput", "/d", 2, 0, 8, 10, false))    // PUT onto a directory: saved as /d/d
	exec(hop("happend", "/d", 2, 0, 8, 10, false)) // append onto a directory
	// files made by other clients, hard links
	g.reset()
	exec([]string{"create", "/d", "f", "7", g.fresh() + "." + g.fresh(), "0", "0", "0"})
	exec(hop("happend", "/d", 5, 0, 8, 9, true))
	exec([]string{"link", "/d", "/b", "1"})
	exec(hop("happend", "/d", 5, 0, 8, 9, true))
	exec(hop("happend", "/b", 5, 0, 8, 9, false))
	exec(hop("happend", "/d", 5, 0, 8, 9, true))
	exec(hop("hput", "/b", 5, 0, 8, 9, true))
	exec(hop("hput", "/b", 5, 0, 8, 9, false))
	exec(hop("happend", "/d", 5, 0, 8, 9, false))
	// inline content
	g.reset()
	exec(hop("hput", "/a/c", 6, 16, 8, 5, false))
	exec(hop("happend", "/a/c", 6, 16, 8, 20, false)) // append to small file is not supported yet
	exec(hop("hput", "/a/c", 6, 16, 32, 20, false))
	exec(hop("hput", "/a/c", 6, 16, 8, 5, true))
	exec(hop("hput", "/a/c", 6, 16, 8, 5, false))
	exec([]string{"rename", "/a/c", "/d"})
	exec(hop("happend", "/d", 6, 16, 8, 20, false))
	exec(hop("happend", "/a/c", 6, 16, 8, 5, false)) // an append that creates the file is never inline
}

func (g *gen) httpCase(steps int) {
	g.reset()
	limit := 0
	inline := g.r.Chance(1, 4)
	if inline {
		limit = 6 + g.r.Intn(12)
	}
	for i := 0; i < steps; i++ {
		var w []string
		if g.r.Chance(3, 5) {
			w = g.httpOp(limit)
		} else {
			w = g.randomOp()
			// the harness's `link` (like weed/filesys Dir.Link) does not carry inline content to the new name; the tag
			// abstraction of this engine cannot express that, so cases with inline content do without links
			// (nor renames: a renamed inline file would hand its tag to the directories made on the way)
			for inline && (w[0] == "link" || w[0] == "rename") {
				w = g.randomOp()
			}
		}
		if r := exec(w); r == "diverge" || r == "panic" {
			exec([]string{"reset"})
		}
	}
}

func family(g *gen, a *hx.Args) {
	g.httpScripted()
	for i := 0; i < a.N(120); i++ {
		g.httpCase(6 + g.r.Intn(10))
	}
}
