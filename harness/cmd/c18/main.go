// c18: correspondence harness for C18 (namespace tree), C20 (chunk GC), C21 (hard links).
//
// Runs a REAL filer.Filer over the leveldb2 store in a temp dir. Namespace operations go
// through Filer.CreateEntry / UpdateEntry / DeleteEntryMetaAndData and, for renames,
// FilerServer.AtomicRenameEntry (hook NewFilerServerVerif). The two chunk-deletion sinks
// are observed through hook H5 (filer.VerifChunkDeleteObserver), which also keeps the real
// network deletes from happening. After every operation the whole store is dumped:
//
//	<op> <args> => <res> q=<ids> d=<ids> T=<raw entries> F=<FindEntry views of linked names> K=<KV hard-link records>
//
// res: ok | err | notfound | diverge (the depth bomb of the store shim went off: unbounded recursion)
// q/d: file ids handed to DeleteChunks (queue) / DirectDeleteChunks, in emission order
// T:   path:kind:tag:chunks:hl:cnt for every stored entry, sorted by path (raw store content, no hard-link overlay)
// F:   path:kind:tag:chunks:hl:cnt as Filer.FindEntry shows it, for entries whose raw hl is set
// L:   the same names as Filer.ListDirectoryEntries of their directory shows them
// K:   hl:kind:tag:chunks:hl:cnt for the KV record of each link identity
package main

import (
	"context"
	"flag"
	"fmt"
	"os"
	"sort"
	"strconv"
	"strings"
	"time"

	"github.com/chrislusf/seaweedfs/weed/filer"
	leveldb2 "github.com/chrislusf/seaweedfs/weed/filer/leveldb2"
	"github.com/chrislusf/seaweedfs/weed/pb/filer_pb"
	weed_server "github.com/chrislusf/seaweedfs/weed/server"
	"github.com/chrislusf/seaweedfs/weed/util"
	"github.com/chrislusf/seaweedfs/weed/util/log_buffer"

	"verifharness/hx"
)

const depthBomb = 40 // no generated case legitimately nests deeper than maxLegitDepth
const maxLegitDepth = 12
const maxIds = 4 // link identities 1..4

// vstore delegates to the real leveldb2 store; it records every path written (so that the dump
// also sees orphans) and panics when a path nests deeper than depthBomb.
type vstore struct {
	filer.FilerStore
	known  map[string]bool
	prefix string // "" for the default store, "/b" for the path-specific store mounted at /b/ (it sees translated paths)
	down   bool   // the store refuses every mutating call (set for one HTTP request of the C20 family, see http.go)
}

type bomb struct{}

func depthOf(p string) int { return strings.Count(p, "/") }

func (s *vstore) note(e *filer.Entry) {
	p := s.prefix + string(e.FullPath)
	if depthOf(p) > depthBomb {
		panic(bomb{})
	}
	s.known[p] = true
}
func (s *vstore) InsertEntry(ctx context.Context, e *filer.Entry) error {
	s.note(e)
	if s.down {
		return errDown
	}
	return s.FilerStore.InsertEntry(ctx, e)
}
func (s *vstore) UpdateEntry(ctx context.Context, e *filer.Entry) error {
	s.note(e)
	if s.down {
		return errDown
	}
	return s.FilerStore.UpdateEntry(ctx, e)
}

// A create by another client that arrives while a rename runs, made deterministic (op renamelate): when the store-level
// DeleteEntry of lateTrig has been carried out, lateEntry is inserted into the store - once - exactly as the second
// client's CreateEntry would do at that moment.
var lateTrig string
var lateEntry *filer.Entry
var lateDone bool // the create was carried out (reported as late=1: the judge asks for the entry only then)

func afterStoreDelete(s *vstore, p util.FullPath) {
	if lateEntry == nil || s.prefix+string(p) != lateTrig {
		return
	}
	e := *lateEntry
	lateEntry = nil
	lateDone = true
	ls, q := storeFor(string(e.FullPath))
	e.FullPath = q
	ls.InsertEntry(ctx, &e)
}

var (
	tr    *hx.Trace
	st    *vstore // default store
	st2   *vstore // second leveldb2 store, configured as the path-specific store of location /b/
	fl    *filer.Filer
	fsrv  *weed_server.FilerServer
	ctx   = context.Background()
	emitQ []string
	emitD []string
)

// ---- encoding of the tiny value universe

// fid: the file id string of chunk n as a client sends it. Even n: the canonical spelling (what the master hands out);
// odd n: a valid non-canonical spelling of the same kind (no leading zero nibble, upper-case cookie) - the store
// normalises both to the binary Fid
func fid(n int) string {
	if n%2 == 1 {
		return fmt.Sprintf("%d,%x%08X", 1+n%3, n+1, 0x5eed0000+n)
	}
	k := fmt.Sprintf("%x", n+1)
	if len(k)%2 == 1 {
		k = "0" + k
	}
	return fmt.Sprintf("%d,%s%08x", 1+n%3, k, 0x5eed0000+n)
}

// the store a path lives in, and the path as that store sees it
func storeFor(p string) (*vstore, util.FullPath) {
	if strings.HasPrefix(p, "/b/") {
		return st2, util.FullPath(p[2:])
	}
	return st, util.FullPath(p)
}

// rawFind: what the store holds under the path (no hard-link overlay)
func rawFind(p string) *filer.Entry {
	s, q := storeFor(p)
	e, err := s.FilerStore.FindEntry(ctx, q)
	if err != nil || e == nil {
		return nil
	}
	e.FullPath = util.FullPath(p)
	return e
}

func allKnown() []string {
	var paths []string
	for p := range st.known {
		paths = append(paths, p)
	}
	for p := range st2.known {
		paths = append(paths, p)
	}
	sort.Strings(paths)
	return paths
}
func unfid(s string) string {
	i := strings.Index(s, ",")
	if i < 0 || len(s) < i+1+8+1 {
		return "x" + s
	}
	k, err := strconv.ParseInt(s[i+1:len(s)-8], 16, 64)
	if err != nil {
		return "x" + s
	}
	if k > httpBase { // a chunk uploaded by an HTTP request of the C20 family: its per-case canonical number
		if n, ok := hnames[uint64(k)]; ok {
			return strconv.Itoa(n)
		}
		return "x" + s
	}
	return strconv.Itoa(int(k - 1))
}
func hlKey(h int) []byte {
	if h == 0 {
		return nil
	}
	b := []byte("verifhardlinkid_") // 16 bytes
	b[15] = byte('0' + h)
	return append(b, 0x01) // HARD_LINK_MARKER
}
func hlTok(k []byte) string {
	if len(k) == 0 {
		return "0"
	}
	if len(k) == 17 && string(k[:15]) == "verifhardlinkid" {
		return string(k[15:16])
	}
	return "x"
}
func chunksTok(cs []*filer_pb.FileChunk) string {
	if len(cs) == 0 {
		return "-"
	}
	var xs []string
	for _, c := range cs {
		xs = append(xs, unfid(c.GetFileIdString()))
	}
	return strings.Join(xs, ".")
}
func parseChunks(tok string) []*filer_pb.FileChunk {
	if tok == "-" || tok == "" {
		return nil
	}
	var cs []*filer_pb.FileChunk
	for i, x := range strings.Split(tok, ".") {
		n, _ := strconv.Atoi(x)
		id := fid(n)
		if real, ok := hfids[n]; ok { // a chunk an HTTP request of this case uploaded: the file id the master handed out
			id = real
		}
		cs = append(cs, &filer_pb.FileChunk{FileId: id, Offset: int64(i) * 10, Size: 10, Mtime: 1})
	}
	return cs
}
func idsTok(ids []string) string {
	if len(ids) == 0 {
		return "-"
	}
	var xs []string
	for _, s := range ids {
		xs = append(xs, unfid(s))
	}
	return strings.Join(xs, ".")
}
func entryTok(label string, e *filer.Entry) string {
	k := "f"
	if e.IsDirectory() {
		k = "d"
	}
	tag := e.Uid
	if len(e.Content) > 0 { // inline content (only the HTTP write handlers of the C20 family make it)
		tag += inlineTag
	}
	return fmt.Sprintf("%s:%s:%d:%s:%s:%d", label, k, tag, chunksTok(e.Chunks), hlTok(e.HardLinkId), e.HardLinkCounter)
}
func mkEntry(path, kind string, tag int, chunks string, hl int, cnt int) *filer.Entry {
	mode := os.FileMode(0644)
	if kind == "d" {
		mode = os.ModeDir | 0755
	}
	return &filer.Entry{
		FullPath:        util.FullPath(path),
		Attr:            filer.Attr{Mtime: time.Unix(1600000000, 0), Crtime: time.Unix(1600000000, 0), Mode: mode, Uid: uint32(tag), Gid: 7},
		Chunks:          parseChunks(chunks),
		HardLinkId:      hlKey(hl),
		HardLinkCounter: int32(cnt),
	}
}

// ---- observation

func dump() []string {
	var T, F, L, K []string
	for _, p := range allKnown() {
		raw := rawFind(p)
		if raw == nil {
			continue
		}
		filer_pb.AfterEntryDeserialization(raw.Chunks)
		T = append(T, entryTok(p, raw))
		if len(raw.HardLinkId) != 0 {
			if v, err := fl.FindEntry(ctx, util.FullPath(p)); err == nil && v != nil {
				F = append(F, entryTok(p, v))
			} else {
				F = append(F, p+":gone")
			}
			// the same name as a directory listing shows it
			pd, name := splitPath(p)
			listed := false
			if es, _, err := fl.ListDirectoryEntries(ctx, util.FullPath(pd), name, true, 1, "", "", ""); err == nil {
				for _, le := range es {
					if le.Name() == name {
						L = append(L, entryTok(p, le))
						listed = true
					}
				}
			}
			if !listed {
				L = append(L, p+":gone")
			}
		}
	}
	for h := 1; h <= maxIds; h++ {
		v, err := st.FilerStore.KvGet(ctx, hlKey(h))
		if err != nil {
			continue
		}
		e := &filer.Entry{}
		if err := e.DecodeAttributesAndChunks(v); err != nil {
			K = append(K, fmt.Sprintf("%d:undecodable", h))
			continue
		}
		filer_pb.AfterEntryDeserialization(e.Chunks)
		K = append(K, entryTok(strconv.Itoa(h), e))
	}
	j := func(xs []string) string {
		if len(xs) == 0 {
			return "-"
		}
		return strings.Join(xs, ";")
	}
	return []string{"T=" + j(T), "F=" + j(F), "L=" + j(L), "K=" + j(K)}
}

func resetStore() {
	for _, p := range allKnown() {
		s, q := storeFor(p)
		s.FilerStore.DeleteEntry(ctx, q)
	}
	for h := 1; h <= maxIds; h++ {
		st.FilerStore.KvDelete(ctx, hlKey(h))
		st2.FilerStore.KvDelete(ctx, hlKey(h))
	}
	st.known = map[string]bool{}
	st2.known = map[string]bool{}
}

func errTok(err error) string {
	if err == nil {
		return "ok"
	}
	if err == filer_pb.ErrNotFound {
		return "notfound"
	}
	return "err"
}

// run executes one op on the real code; panics from the depth bomb become "diverge".
func run(f func() string) (res string) {
	emitQ, emitD = nil, nil
	defer func() {
		if r := recover(); r != nil {
			if _, ok := r.(bomb); ok {
				res = "diverge"
			} else {
				res = "panic"
			}
		}
	}()
	return f()
}

func splitPath(p string) (dir, name string) {
	i := strings.LastIndex(p, "/")
	dir = p[:i]
	if dir == "" {
		dir = "/"
	}
	return dir, p[i+1:]
}

func atoi(s string) int { n, _ := strconv.Atoi(s); return n }

// exec runs one op line (op + args) and writes the trace line; returns the result token.
func exec(w []string) string {
	op, a := w[0], w[1:]
	arg := func(i int) string {
		if i < len(a) {
			return a[i]
		}
		return "0"
	}
	var res string
	switch op {
	case "reset":
		resetStore()
		resetHTTP()
		tr.Op("reset", nil, nil)
		return "ok"
	case "hput", "happend": // path uid inlineLimit chunkSize bodyLen storeDown : the HTTP write handlers (http.go)
		r, u := execHTTP(op, arg)
		outs := []string{r, "q=" + idsTok(emitQ), "d=" + idsTok(emitD), u}
		if r == "diverge" || r == "panic" {
			tr.Op(op, a, outs)
			resetStore()
			return r
		}
		tr.Op(op, a, append(outs, dump()...))
		return r
	case "create": // path kind tag chunks hl cnt oexcl : Filer.CreateEntry with an arbitrary client entry
		res = run(func() string {
			return errTok(fl.CreateEntry(ctx, mkEntry(arg(0), arg(1), atoi(arg(2)), arg(3), atoi(arg(4)), atoi(arg(5))), arg(6) == "1", false, nil))
		})
	case "update": // path kind tag chunks hl cnt : FindEntry + Filer.UpdateEntry (what the gRPC UpdateEntry handler does)
		res = run(func() string {
			old, err := fl.FindEntry(ctx, util.FullPath(arg(0)))
			if err != nil {
				return errTok(err)
			}
			return errTok(fl.UpdateEntry(ctx, old, mkEntry(arg(0), arg(1), atoi(arg(2)), arg(3), atoi(arg(4)), atoi(arg(5)))))
		})
	case "write": // path tag chunks : a client flushing new content through a name, keeping its link identity (filesys file flush)
		res = run(func() string {
			e := mkEntry(arg(0), "f", atoi(arg(1)), arg(2), 0, 0)
			if old, err := fl.FindEntry(ctx, util.FullPath(arg(0))); err == nil && old != nil {
				e.HardLinkId, e.HardLinkCounter = old.HardLinkId, old.HardLinkCounter
			}
			return errTok(fl.CreateEntry(ctx, e, false, false, nil))
		})
	case "link": // src dst hl : the two requests of filesys Dir.Link
		res = run(func() string {
			old, err := fl.FindEntry(ctx, util.FullPath(arg(0)))
			if err != nil {
				return errTok(err)
			}
			if old.IsDirectory() {
				return "err"
			}
			// the checks the kernel's VFS makes before it calls the file system's Link: the new name
			// does not exist (EEXIST) and its directory does
			if e, _ := fl.FindEntry(ctx, util.FullPath(arg(1))); e != nil {
				return "err"
			}
			pd, _ := splitPath(arg(1))
			if d, _ := fl.FindEntry(ctx, util.FullPath(pd)); d == nil || !d.IsDirectory() {
				return "err"
			}
			upd := &filer.Entry{FullPath: old.FullPath, Attr: old.Attr, Chunks: old.Chunks, Extended: old.Extended, HardLinkId: old.HardLinkId, HardLinkCounter: old.HardLinkCounter}
			if len(upd.HardLinkId) == 0 {
				upd.HardLinkId = hlKey(atoi(arg(2)))
				upd.HardLinkCounter = 1
			}
			upd.HardLinkCounter++
			if err := fl.UpdateEntry(ctx, old, upd); err != nil {
				return "err"
			}
			ne := &filer.Entry{FullPath: util.FullPath(arg(1)), Attr: upd.Attr, Chunks: upd.Chunks, Extended: upd.Extended, HardLinkId: upd.HardLinkId, HardLinkCounter: upd.HardLinkCounter}
			return errTok(fl.CreateEntry(ctx, ne, false, false, nil))
		})
	case "delete": // path recursive ignoreRecursiveError shouldDeleteChunks
		res = run(func() string {
			return errTok(fl.DeleteEntryMetaAndData(ctx, util.FullPath(arg(0)), arg(1) == "1", arg(2) == "1", arg(3) == "1", false, nil))
		})
	case "unlink": // path : filesys removeOneFile (data deleted only when the counter is <= 1)
		res = run(func() string {
			old, err := fl.FindEntry(ctx, util.FullPath(arg(0)))
			if err != nil {
				return errTok(err)
			}
			return errTok(fl.DeleteEntryMetaAndData(ctx, util.FullPath(arg(0)), false, false, old.HardLinkCounter <= 1, false, nil))
		})
	case "rename": // src dst
		res = run(func() string {
			od, on := splitPath(arg(0))
			nd, nn := splitPath(arg(1))
			_, err := fsrv.AtomicRenameEntry(ctx, &filer_pb.AtomicRenameEntryRequest{OldDirectory: od, OldName: on, NewDirectory: nd, NewName: nn})
			if err != nil {
				return "err"
			}
			return "ok"
		})
	case "renamelate": // src dst trig late tag chunks : rename src dst; the file `late` is created right after the store delete of `trig`
		res = run(func() string {
			lateTrig, lateEntry, lateDone = arg(2), mkEntry(arg(3), "f", atoi(arg(4)), arg(5), 0, 0), false
			defer func() { lateEntry = nil }()
			od, on := splitPath(arg(0))
			nd, nn := splitPath(arg(1))
			_, err := fsrv.AtomicRenameEntry(ctx, &filer_pb.AtomicRenameEntryRequest{OldDirectory: od, OldName: on, NewDirectory: nd, NewName: nn})
			if err != nil {
				return "err"
			}
			return "ok"
		})
	default:
		fmt.Fprintln(os.Stderr, "c18: unknown op", op)
		os.Exit(2)
	}
	outs := []string{res, "q=" + idsTok(emitQ), "d=" + idsTok(emitD)}
	if op == "renamelate" {
		outs = append(outs, "late="+hx.B(lateDone))
	}
	if res == "diverge" || res == "panic" {
		// the store holds a half-made, arbitrarily deep tree; the case ends here
		tr.Op(op, a, outs)
		resetStore()
		return res
	}
	tr.Op(op, a, append(outs, dump()...))
	return res
}

// ---- generators

var universe = []string{"/a", "/b", "/d", "/a/b", "/a/c", "/b/c", "/a/b/c"}

type gen struct {
	r     *hx.Rng
	chunk int
}

func (g *gen) fresh() string { g.chunk++; return strconv.Itoa(g.chunk) }

func (g *gen) reset() {
	g.chunk = 0
	exec([]string{"reset"})
}

// alphabet of the bounded-exhaustive part; FRESH is replaced by a new chunk id at execution time
var alphabet = [][]string{
	{"create", "/a", "d", "1", "-", "0", "0", "0"},
	{"create", "/a/b", "d", "2", "-", "0", "0", "0"},
	{"create", "/a/b/c", "f", "3", "FRESH", "0", "0", "0"},
	{"create", "/a/c", "f", "4", "FRESH", "0", "0", "0"},
	{"create", "/b", "f", "5", "FRESH", "0", "0", "0"},
	{"create", "/b/c", "f", "6", "FRESH", "0", "0", "0"},
	{"create", "/d", "f", "7", "FRESH", "0", "0", "0"},
	{"create", "/a/b", "f", "8", "FRESH", "0", "0", "0"},
	{"create", "/b", "d", "9", "-", "0", "0", "1"},
	{"create", "/a/b/b/c", "f", "2", "FRESH", "0", "0", "0"}, // a folder inside a folder of the same name (rename /a/b /a moves it onto its own parent)
	{"write", "/a/b/c", "3", "APPEND"},
	{"write", "/d", "4", "FRESH"},
	{"update", "/a/b/c", "f", "5", "FRESH", "HL", "CNT"},
	{"update", "/a", "f", "5", "-", "0", "0"},
	{"link", "/a/b/c", "/d", "NEWID"},
	{"link", "/d", "/b/c", "NEWID"},
	{"link", "/a/c", "/b", "NEWID"},
	{"unlink", "/d"},
	{"unlink", "/a/b/c"},
	{"delete", "/a", "0", "0", "1"},
	{"delete", "/a", "1", "0", "1"},
	{"delete", "/a", "1", "1", "0"},
	{"delete", "/a/b", "1", "0", "1"},
	{"delete", "/a/b/c", "0", "0", "1"},
	{"delete", "/d", "0", "0", "1"},
	{"delete", "/b", "1", "0", "1"},
	{"delete", "/b/c", "0", "0", "0"},
	{"rename", "/a", "/b"},
	{"rename", "/a", "/d"},
	{"rename", "/a/b", "/b/c"},
	{"rename", "/a/b", "/a/c"},
	{"rename", "/a/b/c", "/d"},
	{"rename", "/d", "/a/b/c"},
	{"rename", "/b", "/a/b"},
	{"rename", "/a/b", "/a"},
	{"rename", "/a", "/a/b/c"}, // into its own subtree
	{"rename", "/a", "/a/c"},   // into its own subtree
	{"rename", "/a/b", "/a/b"},
	{"rename", "/a/b/c", "/a/c"},
}

// unusedId picks a link identity that no stored entry and no record uses (real ids are 16 random
// bytes and never collide); 0 when all are taken
func unusedId() int {
	used := map[string]bool{}
	for _, p := range allKnown() {
		if e := rawFind(p); e != nil && len(e.HardLinkId) != 0 {
			used[hlTok(e.HardLinkId)] = true
		}
	}
	for h := 1; h <= maxIds; h++ {
		if _, err := st.FilerStore.KvGet(ctx, hlKey(h)); err == nil {
			used[strconv.Itoa(h)] = true
		}
	}
	for h := 1; h <= maxIds; h++ {
		if !used[strconv.Itoa(h)] {
			return h
		}
	}
	return 0
}

func (g *gen) concrete(w []string) []string {
	out := append([]string{}, w...)
	for i, x := range out {
		switch x {
		case "FRESH":
			out[i] = g.fresh()
		case "HL", "CNT": // a client updates the entry it loaded: the link identity travels with it
			out[i] = "0"
			if e, err := fl.FindEntry(ctx, util.FullPath(w[1])); err == nil && e != nil {
				if x == "HL" {
					out[i] = hlTok(e.HardLinkId)
				} else {
					out[i] = strconv.Itoa(int(e.HardLinkCounter))
				}
			}
		case "NEWID":
			out[i] = strconv.Itoa(unusedId())
		case "APPEND":
			cur := "-"
			if e, err := fl.FindEntry(ctx, util.FullPath(w[1])); err == nil && e != nil {
				cur = chunksTok(e.Chunks)
			}
			if cur == "-" {
				out[i] = g.fresh()
			} else {
				out[i] = cur + "." + g.fresh()
			}
		}
	}
	return out
}

func (g *gen) runSeq(idx []int) {
	g.reset()
	for _, i := range idx {
		if r := exec(g.concrete(alphabet[i])); r == "diverge" || r == "panic" {
			return
		}
	}
}

// exhaustive enumerates all sequences of exactly n alphabet ops; keeps those whose index ≡ part (mod parts)
func (g *gen) exhaustive(n, part, parts int) {
	idx := make([]int, n)
	k := 0
	for {
		if k%parts == part {
			g.runSeq(idx)
		}
		k++
		i := n - 1
		for i >= 0 {
			idx[i]++
			if idx[i] < len(alphabet) {
				break
			}
			idx[i] = 0
			i--
		}
		if i < 0 {
			return
		}
	}
}

// current state as the generator sees it (through the public API), for making arguments
func (g *gen) livePaths() (files, dirs []string) {
	for _, p := range allKnown() {
		e := rawFind(p)
		if e == nil {
			continue
		}
		if e.IsDirectory() {
			dirs = append(dirs, p)
		} else {
			files = append(files, p)
		}
	}
	sort.Strings(files)
	sort.Strings(dirs)
	return
}

func (g *gen) maxDepthUnder(p string) int {
	m := depthOf(p)
	for _, q := range allKnown() {
		if strings.HasPrefix(q, p+"/") {
			if e := rawFind(q); e != nil && depthOf(q) > m {
				m = depthOf(q)
			}
		}
	}
	return m
}

func (g *gen) pickPath(live []string) string {
	if len(live) > 0 && g.r.Chance(3, 4) {
		return live[g.r.Intn(len(live))]
	}
	return g.r.Pick(universe)
}

func (g *gen) someChunks(path string) string {
	// fresh content, or content overlapping the current chunks of the SAME path (append / partial rewrite)
	cur := "-"
	if e, err := fl.FindEntry(ctx, util.FullPath(path)); err == nil && e != nil && !e.IsDirectory() {
		cur = chunksTok(e.Chunks)
	}
	switch {
	case cur != "-" && g.r.Chance(1, 3):
		return cur + "." + g.fresh()
	case cur != "-" && g.r.Chance(1, 4):
		parts := strings.Split(cur, ".")
		return parts[g.r.Intn(len(parts))] + "." + g.fresh()
	case g.r.Chance(1, 8):
		return "-"
	case g.r.Chance(1, 3):
		return g.fresh() + "." + g.fresh()
	}
	return g.fresh()
}

func (g *gen) randomOp() []string {
	files, dirs := g.livePaths()
	all := append(append([]string{}, files...), dirs...)
	sort.Strings(all)
	tag := strconv.Itoa(1 + g.r.Intn(9))
	switch x := g.r.Intn(100); {
	case x < 10:
		return []string{"create", g.r.Pick(universe), "d", tag, "-", "0", "0", hx.B(g.r.Chance(1, 5))}
	case x < 28:
		p := g.r.Pick(universe)
		return []string{"create", p, "f", tag, g.someChunks(p), "0", "0", hx.B(g.r.Chance(1, 6))}
	case x < 40:
		p := g.pickPath(files)
		return []string{"write", p, tag, g.someChunks(p)}
	case x < 45:
		p := g.pickPath(all)
		kind := "f"
		if g.r.Chance(1, 3) {
			kind = "d"
		}
		ch := "-"
		if kind == "f" {
			ch = g.someChunks(p)
		}
		// a client updates the entry it loaded: the link identity travels with it
		hl, cnt := "0", "0"
		if e, err := fl.FindEntry(ctx, util.FullPath(p)); err == nil && e != nil {
			hl, cnt = hlTok(e.HardLinkId), strconv.Itoa(int(e.HardLinkCounter))
		}
		return []string{"update", p, kind, tag, ch, hl, cnt}
	case x < 58:
		if id := unusedId(); id != 0 {
			return []string{"link", g.pickPath(files), g.r.Pick(universe), strconv.Itoa(id)}
		}
		return []string{"unlink", g.pickPath(files)}
	case x < 66:
		return []string{"unlink", g.pickPath(files)}
	case x < 80:
		return []string{"delete", g.pickPath(all), hx.B(g.r.Chance(2, 3)), hx.B(g.r.Chance(1, 4)), hx.B(g.r.Chance(3, 4))}
	default:
		src := g.pickPath(all)
		dst := g.r.Pick(universe)
		if g.r.Chance(1, 6) {
			_, n := splitPath(src)
			dst = g.r.Pick(universe) + "/" + n
		}
		// keep legitimate trees shallow so that only genuinely unbounded recursion reaches the depth bomb
		if depthOf(dst)+g.maxDepthUnder(src)-depthOf(src) > maxLegitDepth {
			dst = "/d"
		}
		return []string{"rename", src, dst}
	}
}

func (g *gen) randomCase(n int) {
	g.reset()
	for i := 0; i < n; i++ {
		if r := exec(g.randomOp()); r == "diverge" || r == "panic" {
			g.chunk += 0
			// the harness reset the store; tell the model
			exec([]string{"reset"})
		}
	}
}

// wideCase: a folder with more children than one small page, one of the late ones a non-empty sub folder, deleted recursively
func (g *gen) wideCase() {
	g.reset()
	n := 258 + g.r.Intn(5)
	late := 256 + g.r.Intn(n-256)
	early := g.r.Intn(20)
	for i := 0; i < n; i++ {
		name := fmt.Sprintf("/w/n%03d", i)
		if i == late || i == early {
			exec([]string{"create", name + "/x", "f", "3", g.fresh(), "0", "0", "0"})
		} else {
			exec([]string{"create", name, "f", "2", "-", "0", "0", "0"})
		}
	}
	exec([]string{"delete", "/w", "1", "0", "1"})
}

// lateCases: a file is created in the folder being renamed after the rename listed it (first child moved / last child
// moved / source in the path-specific store): nothing may be lost whatever the rename answers
func (g *gen) lateCases() {
	for _, c := range [][]string{
		{"/a/b", "/e", "/a/b/c", "/a/b/late"},
		{"/a/b", "/a/e", "/a/b/x", "/a/b/late"},
		{"/b/c", "/a/z", "/b/c/c", "/b/c/late"},
	} {
		g.reset()
		exec([]string{"create", c[0] + "/c", "f", "3", g.fresh(), "0", "0", "0"})
		exec([]string{"create", c[0] + "/x", "f", "4", g.fresh(), "0", "0", "0"})
		exec([]string{"renamelate", c[0], c[1], c[2], c[3], "9", g.fresh()})
	}
}

func main() {
	a := hx.ParseArgs()
	tr = hx.NewTrace(a.Out)
	defer tr.Close()
	tmp, err := os.MkdirTemp("", "c18")
	if err != nil {
		panic(err)
	}
	defer os.RemoveAll(tmp)

	flag.Set("alsologtostderr", "false") // glog: ERROR lines of refused operations are expected by the thousand
	flag.Set("stderrthreshold", "FATAL")
	flag.Set("logdir", tmp)
	fl = filer.NewFiler(nil, nil, "", 0, "", "", "", nil)
	fl.DirBucketsPath = "/buckets" // the production default (filer.options.buckets_folder); with "" every top-level name is a "bucket"
	// the metadata log is not under test: flush to nowhere instead of retrying uploads to a master that is not there
	fl.LocalMetaLogBuffer = log_buffer.NewLogBuffer("verif", time.Minute, func(startTime, stopTime time.Time, buf []byte) {}, nil)
	var inner filer.FilerStore
	for _, s := range filer.Stores {
		if s.GetName() == "leveldb2" {
			inner = s
		}
	}
	v := util.GetViper()
	v.Set("leveldb2.dir", tmp)
	if err := inner.Initialize(v, "leveldb2."); err != nil {
		panic(err)
	}
	st = &vstore{FilerStore: inner, known: map[string]bool{}}
	fl.SetStore(st)
	// a path-specific filer store (filer.toml: [leveldb2.x] location="/b/"): everything below /b lives in a second
	// leveldb2; the namespace must behave as with one store
	inner2 := &leveldb2.LevelDB2Store{}
	v.Set("leveldb2b.dir", tmp+"/second")
	if err := inner2.Initialize(v, "leveldb2b."); err != nil {
		panic(err)
	}
	st2 = &vstore{FilerStore: inner2, known: map[string]bool{}, prefix: "/b"}
	fl.Store.AddPathSpecificStore("/b/", "second", st2)
	fsrv = weed_server.NewFilerServerVerif(fl)
	filer.VerifChunkDeleteObserver = func(kind string, ids []string) bool {
		if kind == "queue" {
			emitQ = append(emitQ, ids...)
		} else {
			emitD = append(emitD, ids...)
		}
		return true
	}
	tr.Comment(fmt.Sprintf("c18 seed=%d tier=%s", a.Seed, a.Tier))

	if a.Ops != "" {
		for _, w := range hx.ReadOps(a.Ops) {
			if r := exec(w); r == "diverge" || r == "panic" {
				exec([]string{"reset"})
			}
		}
		return
	}
	g := &gen{r: hx.NewRng(a.Seed)}
	family(g, a)
}
