//go:build !c20http
// +build !c20http

package main

import "verifharness/hx"

// family: the namespace histories of C18 / C20 / C21 (the default variant)
func family(g *gen, a *hx.Args) {
	part := int(a.Seed % 4)
	// bounded-exhaustive: every sequence of 1 and 2 alphabet ops; length 3 in the thorough tier (a quarter per seed)
	g.exhaustive(1, 0, 1)
	g.exhaustive(2, 0, 1)
	if a.Thorough() {
		g.exhaustive(3, part, 4)
	}
	// sampled sequences of 3 and 4 alphabet ops
	for i := 0; i < a.N(1500); i++ {
		n := 3 + g.r.Intn(2)
		idx := make([]int, n)
		for j := range idx {
			idx[j] = g.r.Intn(len(alphabet))
		}
		g.runSeq(idx)
	}
	g.wideCase()
	// long random histories
	for i := 0; i < a.N(12); i++ {
		g.randomCase(300)
	}
	g.lateCases()
}
