// C20, second scenario family: failed (and successful) save paths of the filer HTTP write handlers.
//
// The Filer of this harness is wrapped in a FilerServer that can run the real write handlers (hook
// NewFilerServerVerifC25; PostHandler/autoChunk through VerifPostHandlerChunkBytes = the same code with the chunk
// size in bytes). operation.Assign (gRPC) and operation.Upload (HTTP) reach the loopback stand-ins of
// harness/standin, which only hand out file ids and keep chunk bytes in memory. The store shims can be told to be
// DOWN for one request: every mutating call (InsertEntry, UpdateEntry, DeleteEntry, DeleteFolderChildren, KvPut,
// KvDelete) then fails, as with an unreachable or full metadata store.
//
//	hput|happend <path> <uid> <inlineLimit> <chunkSize> <bodyLen> <storeDown>
//	    => <ok|err> q=<ids> d=<ids> u=<chunks uploaded> T=.. F=.. L=.. K=..
//
// hput = PUT <path>, happend = PUT <path>?op=append. The chunks a request uploads are numbered httpFirst,
// httpFirst+1, ... per case in the order the entry lists them / the deletion sink received them (the handler uploads
// the chunks of one request concurrently, so the master's numbering is not deterministic; the ORDER by offset is).
// An entry with inline content shows tag = uid + inlineTag.
package main

import (
	"bytes"
	"context"
	"errors"
	"net/http/httptest"
	"os"
	"runtime/debug"
	"sort"
	"strconv"

	"google.golang.org/grpc"

	"github.com/chrislusf/seaweedfs/weed/filer"
	"github.com/chrislusf/seaweedfs/weed/pb/filer_pb"
	weed_server "github.com/chrislusf/seaweedfs/weed/server"
	"github.com/chrislusf/seaweedfs/weed/storage/needle"
	"github.com/chrislusf/seaweedfs/weed/util"
	"github.com/chrislusf/seaweedfs/weed/util/fla9"
	"github.com/chrislusf/seaweedfs/weed/wdclient"

	"verifharness/standin"
)

const (
	httpBase  = 0x100000 // keys of uploaded chunks start above this; hand-made chunk numbers stay far below
	httpFirst = 1000     // canonical number of the first uploaded chunk of a case
	inlineTag = 100
)

var (
	hvol   *standin.Volume
	hmst   *standin.Master
	hopt   *weed_server.FilerOption
	hsrv   *weed_server.FilerServer
	hnames = map[uint64]int{} // key of an uploaded chunk -> canonical number
	hfids  = map[int]string{} // canonical number -> the file id the master handed out
	hnext  = httpFirst
)

var errDown = errors.New("verif: metadata store is down")

func (s *vstore) DeleteEntry(ctx context.Context, p util.FullPath) error {
	if s.down {
		return errDown
	}
	err := s.FilerStore.DeleteEntry(ctx, p)
	if err == nil {
		afterStoreDelete(s, p)
	}
	return err
}
func (s *vstore) DeleteFolderChildren(ctx context.Context, p util.FullPath) error {
	if s.down {
		return errDown
	}
	return s.FilerStore.DeleteFolderChildren(ctx, p)
}
func (s *vstore) KvPut(ctx context.Context, k, v []byte) error {
	if s.down {
		return errDown
	}
	return s.FilerStore.KvPut(ctx, k, v)
}
func (s *vstore) KvDelete(ctx context.Context, k []byte) error {
	if s.down {
		return errDown
	}
	return s.FilerStore.KvDelete(ctx, k)
}

func ensureHTTP() {
	if hsrv != nil {
		return
	}
	// glog registers its flags with weed/util/fla9 (the stdlib flag.Set calls of main do not reach it): keep the
	// INFO line per refused request off stderr
	fla9.Set("logtostderr", "false")
	fla9.Set("alsologtostderr", "false")
	fla9.Set("stderrthreshold", "FATAL")
	fla9.Set("logdir", os.TempDir())
	// the write path allocates a few large short-lived buffers per chunk; with the tiny live heap of this harness the
	// collector would otherwise run every few requests
	debug.SetGCPercent(1600)
	hvol = standin.NewVolume()
	hmst = standin.NewMaster(hvol)
	hvol.SetNext(httpBase)
	dial := grpc.WithInsecure()
	fl.MasterClient = wdclient.NewMasterClient(dial, "filer", "127.0.0.1", 0, "", []string{hmst.Addr})
	go fl.MasterClient.KeepConnectedToMaster()
	fl.MasterClient.WaitUntilConnected()
	hopt = &weed_server.FilerOption{MaxMB: 4}
	hsrv = weed_server.NewFilerServerVerifC25(fl, hopt, dial)
}

func resetHTTP() {
	hnames = map[uint64]int{}
	hfids = map[int]string{}
	hnext = httpFirst
	if hvol != nil {
		hvol.Reset()
		hvol.SetNext(httpBase)
	}
}

func keyOf(fileId string) (uint64, bool) {
	f, err := needle.ParseFileIdFromString(fileId)
	if err != nil {
		return 0, false
	}
	return uint64(f.Key), true
}

// nameUploaded gives the chunks uploaded by the request that just ran (keys in (before, after]) their canonical
// numbers: first in the order the stored entries and link records list them, then in the order the deletion sinks
// received them, then (uploaded, neither referenced nor handed to a sink) by key.
func nameUploaded(before, after uint64) {
	name := func(fileId string) {
		k, ok := keyOf(fileId)
		if !ok || k <= before || k > after {
			return
		}
		if _, seen := hnames[k]; !seen {
			hnames[k] = hnext
			hfids[hnext] = fileId
			hnext++
		}
	}
	chunks := func(cs []*filer_pb.FileChunk) {
		for _, c := range cs {
			name(c.GetFileIdString())
		}
	}
	for _, p := range allKnown() {
		if raw := rawFind(p); raw != nil {
			chunks(raw.Chunks)
		}
	}
	for h := 1; h <= maxIds; h++ {
		if v, err := st.FilerStore.KvGet(ctx, hlKey(h)); err == nil {
			e := &filer.Entry{}
			if e.DecodeAttributesAndChunks(v) == nil {
				chunks(e.Chunks)
			}
		}
	}
	for _, id := range emitQ {
		name(id)
	}
	for _, id := range emitD {
		name(id)
	}
	var rest []uint64
	for k := before + 1; k <= after; k++ {
		if _, seen := hnames[k]; !seen {
			rest = append(rest, k)
		}
	}
	sort.Slice(rest, func(i, j int) bool { return rest[i] < rest[j] })
	for _, k := range rest {
		hnames[k] = hnext
		hfids[hnext] = needle.NewFileId(needle.VolumeId(standin.Vid), k, uint32(0x5eed0000)+uint32(k)).String()
		hnext++
	}
}

func httpBody(n int) []byte {
	b := make([]byte, n)
	x := uint32(n) + 12345
	for i := range b {
		x = x*1664525 + 1013904223
		b[i] = byte(x >> 24)
	}
	return b
}

// execHTTP runs one hput/happend line; returns the result token and the extra output u=
func execHTTP(op string, arg func(int) string) (res string, u string) {
	ensureHTTP()
	path, uid, limit, chunk, n, down := arg(0), atoi(arg(1)), atoi(arg(2)), atoi(arg(3)), atoi(arg(4)), arg(5) == "1"
	if chunk <= 0 {
		chunk = 1
	}
	before := hvol.Next()
	res = run(func() string {
		weed_server.OS_UID = uint32(uid)
		hopt.SaveToFilerLimit = int64(limit)
		url := path
		if op == "happend" {
			url += "?op=append"
		}
		r := httptest.NewRequest("PUT", url, bytes.NewReader(httpBody(n)))
		r.ContentLength = int64(n)
		// an image type: operation.Upload then neither sniffs the content nor tries gzip (a flate writer per chunk
		// costs more than everything else in this harness); what the bytes are does not matter to chunk GC
		r.Header.Set("Content-Type", "image/verif")
		w := httptest.NewRecorder()
		st.down, st2.down = down, down
		defer func() { st.down, st2.down = false, false }()
		hsrv.VerifPostHandlerChunkBytes(w, r, r.ContentLength, int32(chunk))
		if w.Code == 201 {
			return "ok"
		}
		return "err"
	})
	st.down, st2.down = false, false
	after := hvol.Next()
	nameUploaded(before, after)
	return res, "u=" + strconv.Itoa(int(after-before))
}
