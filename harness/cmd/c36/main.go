// c36: correspondence harness for C36 (replication / sync mirror exactly the watched subtree).
// Feeds bounded-exhaustive change events into the REAL event-processing code with a recording sink:
//
//	repl <srcDir> <sinkDir> <sinkName> <incr> <found> <fromOther> <key> <old> <new> <newParent> => <call>…
//	    replication.Replicator.Replicate(key, event)                    (filer.replicate)
//	sync <srcDir> <tgtDir> <incr> <found> <dir> <old> <oldName> <new> <newParent> <newName> => <call>…
//	    command.genProcessFunction(srcDir, tgtDir, sink)(event)         (filer.sync / filer.backup; hook GenProcessFunctionVerif)
//
// <old>/<new> ∈ {-, f, d} (absent, file, directory); <found> = what the sink's UpdateEntry reports;
// <call> = D|<key>|<isDir>|<delChunks>  C|<key>  U|<key>|<newParentPath>.  "-" = empty string.
// Entries carry mtime 31579200 (1971-01-01 12:00 UTC) so that the incremental date key is 1971-01-01
// in every time zone.
package main

import (
	"context"
	"fmt"
	"strings"

	"github.com/chrislusf/seaweedfs/weed/command"
	"github.com/chrislusf/seaweedfs/weed/pb/filer_pb"
	"github.com/chrislusf/seaweedfs/weed/replication"
	"github.com/chrislusf/seaweedfs/weed/replication/sink"
	"github.com/chrislusf/seaweedfs/weed/replication/source"
	"github.com/chrislusf/seaweedfs/weed/util"

	"verifharness/hx"
)

const mtime = 31579200

type recSink struct {
	name  string
	dir   string
	incr  bool
	found bool
	calls []string
}

var _ sink.ReplicationSink = (*recSink)(nil)

func (s *recSink) GetName() string                                                  { return s.name }
func (s *recSink) Initialize(configuration util.Configuration, prefix string) error { return nil }
func (s *recSink) DeleteEntry(key string, isDirectory, deleteIncludeChunks bool, signatures []int32) error {
	s.calls = append(s.calls, "D|"+tok(key)+"|"+hx.B(isDirectory)+"|"+hx.B(deleteIncludeChunks))
	return nil
}
func (s *recSink) CreateEntry(key string, entry *filer_pb.Entry, signatures []int32) error {
	s.calls = append(s.calls, "C|"+tok(key))
	return nil
}
func (s *recSink) UpdateEntry(key string, oldEntry *filer_pb.Entry, newParentPath string, newEntry *filer_pb.Entry, deleteIncludeChunks bool, signatures []int32) (bool, error) {
	s.calls = append(s.calls, "U|"+tok(key)+"|"+tok(newParentPath))
	return s.found, nil
}
func (s *recSink) GetSinkToDirectory() string            { return s.dir }
func (s *recSink) SetSourceFiler(fs *source.FilerSource) {}
func (s *recSink) IsIncremental() bool                   { return s.incr }

type mapConf map[string]string

func (m mapConf) GetString(key string) string              { return m[key] }
func (m mapConf) GetBool(key string) bool                  { return false }
func (m mapConf) GetInt(key string) int                    { return 0 }
func (m mapConf) GetStringSlice(key string) []string       { return nil }
func (m mapConf) SetDefault(key string, value interface{}) {}

func tok(s string) string {
	if s == "" {
		return "-"
	}
	return s
}
func untok(s string) string {
	if s == "-" {
		return ""
	}
	return s
}

func entry(kind, name string) *filer_pb.Entry {
	if kind == "-" {
		return nil
	}
	return &filer_pb.Entry{Name: name, IsDirectory: kind == "d", Attributes: &filer_pb.FuseAttributes{Mtime: mtime}}
}

var tr *hx.Trace

func baseName(p string) string {
	if i := strings.LastIndex(p, "/"); i >= 0 {
		return p[i+1:]
	}
	return p
}

// repl args: srcDir sinkDir sinkName incr found fromOther key old new newParent
func repl(a []string) {
	tr.Op("repl", a, hx.Guard(func() []string {
		s := &recSink{name: a[2], dir: untok(a[1]), incr: a[3] == "1", found: a[4] == "1"}
		r := replication.NewReplicator(mapConf{"source.filer.grpcAddress": "localhost:18888", "source.filer.directory": untok(a[0])}, "source.filer.", s)
		key := untok(a[6])
		ev := &filer_pb.EventNotification{OldEntry: entry(a[7], baseName(key)), NewEntry: entry(a[8], baseName(key)), NewParentPath: untok(a[9]),
			DeleteChunks: true, IsFromOtherCluster: a[5] == "1", Signatures: []int32{7}}
		if err := r.Replicate(context.Background(), key, ev); err != nil {
			return append(s.calls, "err")
		}
		return s.calls
	}))
}

// sync args: srcDir tgtDir incr found dir old oldName new newParent newName
func syncEv(a []string) {
	tr.Op("sync", a, hx.Guard(func() []string {
		s := &recSink{name: "rec", dir: untok(a[1]), incr: a[2] == "1", found: a[3] == "1"}
		fn := command.GenProcessFunctionVerif(untok(a[0]), untok(a[1]), s)
		ev := &filer_pb.EventNotification{OldEntry: entry(a[5], untok(a[6])), NewEntry: entry(a[7], untok(a[9])), NewParentPath: untok(a[8]),
			DeleteChunks: true, Signatures: []int32{7}}
		if err := fn(&filer_pb.SubscribeMetadataResponse{Directory: untok(a[4]), EventNotification: ev}); err != nil {
			return append(s.calls, "err")
		}
		return s.calls
	}))
}

func replay(ops [][]string) {
	for _, o := range ops {
		switch {
		case o[0] == "repl" && len(o) == 11:
			repl(o[1:])
		case o[0] == "sync" && len(o) == 11:
			syncEv(o[1:])
		}
	}
}

func dirOf(p string) string {
	i := strings.LastIndex(p, "/")
	if i <= 0 {
		return "/"
	}
	return p[:i]
}

func main() {
	a := hx.ParseArgs()
	tr = hx.NewTrace(a.Out)
	defer tr.Close()
	tr.Comment(fmt.Sprintf("c36 seed=%d tier=%s", a.Seed, a.Tier))
	if a.Ops != "" {
		replay(hx.ReadOps(a.Ops))
		return
	}
	r := hx.NewRng(a.Seed)
	srcDirs := []string{"/data", "/data/", "/"}
	sinkDirs := []string{"/backup", "/", "/b/k/"}
	paths := []string{"/data", "/data/x", "/data/d/y", "/data2/x", "/dat/x", "/data/d", "/datax", "/x"}
	kinds := []string{"f", "d"}
	if a.Thorough() {
		srcDirs = append(srcDirs, "/data/d", "/dat", "/data2/")
		paths = append(paths, "/data/d/y/z", "/data2", "/data/dd/y", "/d/data/x")
	}
	b01 := []string{"0", "1"}

	// ---- Replicator.Replicate: every (source dir, sink dir, key, event shape)
	for _, sd := range srcDirs {
		for _, kd := range sinkDirs {
			for _, key := range paths {
				for _, k := range kinds {
					for _, incr := range b01 {
						repl([]string{sd, kd, "rec", incr, "1", "0", key, "-", k, dirOf(key)}) // create
						repl([]string{sd, kd, "rec", incr, "1", "0", key, k, "-", "-"})        // delete
						repl([]string{sd, kd, "rec", incr, "1", "0", key, k, k, dirOf(key)})   // update, found
						repl([]string{sd, kd, "rec", incr, "0", "0", key, k, k, dirOf(key)})   // update, not found
					}
					repl([]string{sd, kd, "filer", "0", "1", "1", key, "-", k, dirOf(key)}) // from the other cluster, filer sink
					repl([]string{sd, kd, "rec", "0", "1", "1", key, "-", k, dirOf(key)})   // from the other cluster, other sink
					repl([]string{sd, kd, "filer", "0", "1", "0", key, "-", k, dirOf(key)})
				}
				repl([]string{sd, kd, "rec", "0", "1", "0", key, "-", "-", "-"}) // weird
				// renames: the key is the OLD path, NewParentPath the new parent
				for _, np := range paths {
					if np != key {
						repl([]string{sd, kd, "rec", "0", r.Pick(b01), "0", key, "f", "f", dirOf(np)})
					}
				}
			}
		}
	}

	// ---- filer.sync / filer.backup process function: create / delete / update / rename over the universe
	for _, sd := range srcDirs {
		for _, td := range sinkDirs {
			for _, p := range paths {
				for _, k := range kinds {
					for _, incr := range b01 {
						syncEv([]string{sd, td, incr, "1", dirOf(p), "-", "-", k, dirOf(p), baseName(p)}) // create
						syncEv([]string{sd, td, incr, "1", dirOf(p), k, baseName(p), "-", "-", "-"})      // delete
						for _, q := range paths {                                                         // update (q == p) and renames
							for _, found := range b01 {
								syncEv([]string{sd, td, incr, found, dirOf(p), k, baseName(p), k, dirOf(q), baseName(q)})
							}
						}
					}
				}
				syncEv([]string{sd, td, "0", "1", dirOf(p), "-", "-", "-", "-", "-"})
			}
		}
	}
}
