// c36: correspondence harness for C36 (replication / sync mirror exactly the watched subtree).
// Feeds bounded-exhaustive change events into the REAL event-processing code with a recording sink:
//
//	repl <srcDir> <sinkDir> <sinkName> <incr> <found> <fromOther> <key> <old> <new> <newParent> => <call>…
//	    replication.Replicator.Replicate(key, event)                    (filer.replicate)
//	sync <srcDir> <tgtDir> <incr> <found> <dir> <old> <oldName> <new> <newParent> <newName> => <call>…
//	    command.genProcessFunction(srcDir, tgtDir, sink)(event)         (filer.sync / filer.backup; hook GenProcessFunctionVerif)
//
//	lsync <srcDir> <incr> <ev>;<ev>;… => @ <tree after event 1> @ <tree after event 2> … [!err|panic]
//	    the same process function driving a REAL localsink.LocalSink on a fresh temp directory; <ev> =
//	    <dir>,<old>,<oldName>,<new>,<newParent>,<newName>; a tree = sorted relative paths below the sink
//	    directory (directories with a trailing '/', "-" when empty); the sequence stops at the first error
//	    (as the subscription loop of filer.sync / filer.backup does) or panic.
//
// <old>/<new> ∈ {-, f, d} (absent, file, directory); <found> = what the sink's UpdateEntry reports;
// <call> = D|<key>|<isDir>|<delChunks>  C|<key>  U|<key>|<newParentPath>.  "-" = empty string.
// Entries carry mtime 31579200 (1971-01-01 12:00 UTC) so that the incremental date key is 1971-01-01
// in every time zone.
package main

import (
	"context"
	"fmt"
	"os"
	"path/filepath"
	"sort"
	"strings"

	"github.com/chrislusf/seaweedfs/weed/command"
	"github.com/chrislusf/seaweedfs/weed/pb/filer_pb"
	"github.com/chrislusf/seaweedfs/weed/replication"
	"github.com/chrislusf/seaweedfs/weed/replication/sink"
	"github.com/chrislusf/seaweedfs/weed/replication/sink/localsink"
	"github.com/chrislusf/seaweedfs/weed/replication/source"
	"github.com/chrislusf/seaweedfs/weed/util"

	"verifharness/hx"
)

const mtime = 31579200

type recSink struct {
	name  string
	dir   string
	incr  bool
	found bool
	calls []string
}

var _ sink.ReplicationSink = (*recSink)(nil)

func (s *recSink) GetName() string                                                  { return s.name }
func (s *recSink) Initialize(configuration util.Configuration, prefix string) error { return nil }
func (s *recSink) DeleteEntry(key string, isDirectory, deleteIncludeChunks bool, signatures []int32) error {
	s.calls = append(s.calls, "D|"+tok(key)+"|"+hx.B(isDirectory)+"|"+hx.B(deleteIncludeChunks))
	return nil
}
func (s *recSink) CreateEntry(key string, entry *filer_pb.Entry, signatures []int32) error {
	s.calls = append(s.calls, "C|"+tok(key))
	return nil
}
func (s *recSink) UpdateEntry(key string, oldEntry *filer_pb.Entry, newParentPath string, newEntry *filer_pb.Entry, deleteIncludeChunks bool, signatures []int32) (bool, error) {
	s.calls = append(s.calls, "U|"+tok(key)+"|"+tok(newParentPath))
	return s.found, nil
}
func (s *recSink) GetSinkToDirectory() string            { return s.dir }
func (s *recSink) SetSourceFiler(fs *source.FilerSource) {}
func (s *recSink) IsIncremental() bool                   { return s.incr }

type mapConf map[string]string

func (m mapConf) GetString(key string) string              { return m[key] }
func (m mapConf) GetBool(key string) bool                  { return m[key] == "true" }
func (m mapConf) GetInt(key string) int                    { return 0 }
func (m mapConf) GetStringSlice(key string) []string       { return nil }
func (m mapConf) SetDefault(key string, value interface{}) {}

func tok(s string) string {
	if s == "" {
		return "-"
	}
	return s
}
func untok(s string) string {
	if s == "-" {
		return ""
	}
	return s
}

func entry(kind, name string) *filer_pb.Entry {
	if kind == "-" {
		return nil
	}
	return &filer_pb.Entry{Name: name, IsDirectory: kind == "d", Attributes: &filer_pb.FuseAttributes{Mtime: mtime}}
}

var tr *hx.Trace

func baseName(p string) string {
	if i := strings.LastIndex(p, "/"); i >= 0 {
		return p[i+1:]
	}
	return p
}

// repl args: srcDir sinkDir sinkName incr found fromOther key old new newParent
func repl(a []string) {
	tr.Op("repl", a, hx.Guard(func() []string {
		s := &recSink{name: a[2], dir: untok(a[1]), incr: a[3] == "1", found: a[4] == "1"}
		r := replication.NewReplicator(mapConf{"source.filer.grpcAddress": "localhost:18888", "source.filer.directory": untok(a[0])}, "source.filer.", s)
		key := untok(a[6])
		ev := &filer_pb.EventNotification{OldEntry: entry(a[7], baseName(key)), NewEntry: entry(a[8], baseName(key)), NewParentPath: untok(a[9]),
			DeleteChunks: true, IsFromOtherCluster: a[5] == "1", Signatures: []int32{7}}
		if err := r.Replicate(context.Background(), key, ev); err != nil {
			return append(s.calls, "err")
		}
		return s.calls
	}))
}

// sync args: srcDir tgtDir incr found dir old oldName new newParent newName
func syncEv(a []string) {
	tr.Op("sync", a, hx.Guard(func() []string {
		s := &recSink{name: "rec", dir: untok(a[1]), incr: a[2] == "1", found: a[3] == "1"}
		fn := command.GenProcessFunctionVerif(untok(a[0]), untok(a[1]), s)
		ev := &filer_pb.EventNotification{OldEntry: entry(a[5], untok(a[6])), NewEntry: entry(a[7], untok(a[9])), NewParentPath: untok(a[8]),
			DeleteChunks: true, Signatures: []int32{7}}
		if err := fn(&filer_pb.SubscribeMetadataResponse{Directory: untok(a[4]), EventNotification: ev}); err != nil {
			return append(s.calls, "err")
		}
		return s.calls
	}))
}

// ---- lsync: the process function in front of a real LocalSink

type lev struct {
	dir, old, oldName, new, newParent, newName string
}

func (e lev) tok() string {
	return strings.Join([]string{tok(e.dir), e.old, tok(e.oldName), e.new, tok(e.newParent), tok(e.newName)}, ",")
}

func parseEvs(s string) []lev {
	var out []lev
	for _, t := range strings.Split(s, ";") {
		f := strings.Split(t, ",")
		if len(f) != 6 {
			continue
		}
		out = append(out, lev{untok(f[0]), f[1], untok(f[2]), f[3], untok(f[4]), untok(f[5])})
	}
	return out
}

func fileEntry(kind, name string) *filer_pb.Entry {
	if kind == "-" {
		return nil
	}
	return &filer_pb.Entry{Name: name, IsDirectory: kind == "d", Attributes: &filer_pb.FuseAttributes{Mtime: mtime, FileMode: 0644}}
}

// tree lists what is below root: files as relative paths, directories with a trailing '/'
func tree(tmp string) []string {
	root := filepath.Join(tmp, "t")
	var out []string
	if des, err := os.ReadDir(tmp); err == nil {
		for _, de := range des {
			if de.Name() != "t" {
				out = append(out, "!outside")
			}
		}
	}
	filepath.Walk(root, func(p string, info os.FileInfo, err error) error {
		if err != nil {
			return nil
		}
		rel, _ := filepath.Rel(root, p)
		if info.IsDir() {
			if rel != "." {
				out = append(out, filepath.ToSlash(rel)+"/")
			}
		} else {
			out = append(out, filepath.ToSlash(rel))
		}
		return nil
	})
	sort.Strings(out)
	if len(out) == 0 {
		return []string{"-"}
	}
	return out
}

// lsync args: srcDir incr events
func lsync(a []string) {
	var outs []string
	func() {
		tmp, err := os.MkdirTemp("", "c36ls")
		if err != nil {
			outs = []string{"!tmp"}
			return
		}
		defer os.RemoveAll(tmp)
		defer func() {
			if r := recover(); r != nil {
				outs = append(outs, "panic")
			}
		}()
		s := &localsink.LocalSink{}
		s.Initialize(mapConf{"sink.local.directory": tmp + "/t", "sink.local.is_incremental": map[bool]string{true: "true", false: "false"}[a[1] == "1"]}, "sink.local.")
		s.SetSourceFiler(&source.FilerSource{})
		fn := command.GenProcessFunctionVerif(untok(a[0]), tmp+"/t", s)
		for _, e := range parseEvs(a[2]) {
			ev := &filer_pb.EventNotification{OldEntry: fileEntry(e.old, e.oldName), NewEntry: fileEntry(e.new, e.newName), NewParentPath: e.newParent,
				DeleteChunks: true, Signatures: []int32{7}}
			outs = append(outs, "@")
			err := fn(&filer_pb.SubscribeMetadataResponse{Directory: e.dir, EventNotification: ev})
			outs = append(outs, tree(tmp)...)
			if err != nil {
				outs = append(outs, "!err")
				return
			}
		}
	}()
	tr.Op("lsync", a, outs)
}

// ---- generator of event sequences from a simulated source tree

type srcTree struct {
	files, dirs map[string]bool
}

func ancestors(p string) []string {
	var out []string
	for d := dirOf(p); d != "/"; d = dirOf(d) {
		out = append(out, d)
	}
	return out
}

func (t *srcTree) free(p string) bool { // p can be created
	if t.files[p] || t.dirs[p] {
		return false
	}
	for _, d := range ancestors(p) {
		if t.files[d] {
			return false
		}
	}
	return true
}
func (t *srcTree) add(p string, dir bool) {
	if dir {
		t.dirs[p] = true
	} else {
		t.files[p] = true
	}
	for _, d := range ancestors(p) {
		t.dirs[d] = true
	}
}
func under(p, d string) bool { return p == d || strings.HasPrefix(p, d+"/") }
func (t *srcTree) remove(p string) {
	for _, m := range []map[string]bool{t.files, t.dirs} {
		for k := range m {
			if under(k, p) {
				delete(m, k)
			}
		}
	}
}
func (t *srcTree) move(p, q string) {
	for _, m := range []map[string]bool{t.files, t.dirs} {
		var ks []string
		for k := range m {
			if under(k, p) {
				ks = append(ks, k)
			}
		}
		for _, k := range ks {
			delete(m, k)
		}
		for _, k := range ks {
			m[q+k[len(p):]] = true
		}
	}
	for _, d := range ancestors(q) {
		t.dirs[d] = true
	}
}
func (t *srcTree) present() []string {
	var ks []string
	for k := range t.files {
		ks = append(ks, k)
	}
	for k := range t.dirs {
		ks = append(ks, k)
	}
	sort.Strings(ks)
	return ks
}

func kindOf(dir bool) string {
	if dir {
		return "d"
	}
	return "f"
}

// genSeq: mostly events a filer could emit for the simulated tree, sometimes an arbitrary one
func genSeq(r *hx.Rng, universe []string, n int) []lev {
	t := &srcTree{files: map[string]bool{}, dirs: map[string]bool{}}
	var evs []lev
	for len(evs) < n {
		p := r.Pick(universe)
		q := r.Pick(universe)
		if r.Chance(1, 10) { // arbitrary event, the tree is not updated
			k := r.Pick([]string{"f", "d"})
			switch r.Intn(3) {
			case 0:
				evs = append(evs, lev{dirOf(p), "-", "", k, dirOf(p), baseName(p)})
			case 1:
				evs = append(evs, lev{dirOf(p), k, baseName(p), "-", "", ""})
			default:
				evs = append(evs, lev{dirOf(p), k, baseName(p), k, dirOf(q), baseName(q)})
			}
			continue
		}
		pres := t.present()
		switch c := r.Intn(10); {
		case c < 4 || len(pres) == 0: // create
			if !t.free(p) {
				continue
			}
			dir := r.Chance(1, 4)
			t.add(p, dir)
			evs = append(evs, lev{dirOf(p), "-", "", kindOf(dir), dirOf(p), baseName(p)})
		case c < 6: // delete
			p = r.Pick(pres)
			k := kindOf(t.dirs[p])
			t.remove(p)
			evs = append(evs, lev{dirOf(p), k, baseName(p), "-", "", ""})
		case c < 7: // update in place
			p = r.Pick(pres)
			k := kindOf(t.dirs[p])
			evs = append(evs, lev{dirOf(p), k, baseName(p), k, dirOf(p), baseName(p)})
		default: // rename
			p = r.Pick(pres)
			if under(q, p) || !t.free(q) {
				continue
			}
			k := kindOf(t.dirs[p])
			t.move(p, q)
			evs = append(evs, lev{dirOf(p), k, baseName(p), k, dirOf(q), baseName(q)})
		}
	}
	return evs
}

func evsTok(evs []lev) string {
	var ts []string
	for _, e := range evs {
		ts = append(ts, e.tok())
	}
	return strings.Join(ts, ";")
}

func genLsync(a *hx.Args, r *hx.Rng) {
	cr := func(p, k string) lev { return lev{dirOf(p), "-", "", k, dirOf(p), baseName(p)} }
	rm := func(p, k string) lev { return lev{dirOf(p), k, baseName(p), "-", "", ""} }
	mv := func(p, q, k string) lev { return lev{dirOf(p), k, baseName(p), k, dirOf(q), baseName(q)} }
	// fixed scenarios first (coverage independent of the seed)
	for _, sc := range [][]lev{
		{cr("/data/x", "f"), mv("/data/x", "/data/d/y", "f")},
		{cr("/data/d/y", "f"), rm("/data/d", "d")},
		{cr("/data/d/y", "f"), rm("/data/d/y", "f"), rm("/data/d", "d")},
		{cr("/data/d", "d"), cr("/data/d/y", "f"), mv("/data/d/y", "/data/d/y", "f"), mv("/data/d/y", "/x", "f")},
		{cr("/dat/x", "f"), mv("/dat/x", "/data/x", "f")},
		{cr("/data2/x", "f")},
		{cr("/data/d/y", "f"), mv("/data/d", "/data/e", "d")},
		{cr("/data/.uploads/a.part", "f"), cr("/data/x", "f"), rm("/data/.uploads/a.part", "f")},
		{cr("/data/x", "f"), cr("/data/x/z", "f")},
	} {
		for _, incr := range []string{"0", "1"} {
			lsync([]string{"/data", incr, evsTok(sc)})
		}
	}
	in := []string{"/data/x", "/data/d/y", "/data/d", "/data/d/z", "/data/e", "/data/x/z"}
	if a.Thorough() {
		in = append(in, "/data/d/y/w", "/data/e/y", "/data/dd")
	}
	// paths inside /data three times as likely as the adversarial neighbours
	universe := []string{"/data2/x", "/dat/x", "/datax", "/x", "/data/.uploads/a.part"}
	if a.Thorough() {
		universe = append(universe, "/data2", "/d/data/x")
	}
	for i := 0; i < 3; i++ {
		universe = append(universe, in...)
	}
	for i := 0; i < a.N(150); i++ {
		src := "/data"
		switch r.Intn(8) {
		case 0:
			src = "/data/"
		case 1:
			src = "/"
		}
		incr := "0"
		if r.Chance(1, 6) {
			incr = "1"
		}
		lsync([]string{src, incr, evsTok(genSeq(r, universe, 1+r.Intn(5)))})
	}
}

func replay(ops [][]string) {
	for _, o := range ops {
		switch {
		case o[0] == "repl" && len(o) == 11:
			repl(o[1:])
		case o[0] == "sync" && len(o) == 11:
			syncEv(o[1:])
		case o[0] == "lsync" && len(o) == 4:
			lsync(o[1:])
		}
	}
}

func dirOf(p string) string {
	i := strings.LastIndex(p, "/")
	if i <= 0 {
		return "/"
	}
	return p[:i]
}

func main() {
	a := hx.ParseArgs()
	tr = hx.NewTrace(a.Out)
	defer tr.Close()
	tr.Comment(fmt.Sprintf("c36 seed=%d tier=%s", a.Seed, a.Tier))
	if a.Ops != "" {
		replay(hx.ReadOps(a.Ops))
		return
	}
	r := hx.NewRng(a.Seed)
	srcDirs := []string{"/data", "/data/", "/"}
	sinkDirs := []string{"/backup", "/", "/b/k/"}
	paths := []string{"/data", "/data/x", "/data/d/y", "/data2/x", "/dat/x", "/data/d", "/datax", "/x"}
	kinds := []string{"f", "d"}
	if a.Thorough() {
		srcDirs = append(srcDirs, "/data/d", "/dat", "/data2/")
		paths = append(paths, "/data/d/y/z", "/data2", "/data/dd/y", "/d/data/x")
	}
	b01 := []string{"0", "1"}

	// ---- Replicator.Replicate: every (source dir, sink dir, key, event shape)
	for _, sd := range srcDirs {
		for _, kd := range sinkDirs {
			for _, key := range paths {
				for _, k := range kinds {
					for _, incr := range b01 {
						repl([]string{sd, kd, "rec", incr, "1", "0", key, "-", k, dirOf(key)}) // create
						repl([]string{sd, kd, "rec", incr, "1", "0", key, k, "-", "-"})        // delete
						repl([]string{sd, kd, "rec", incr, "1", "0", key, k, k, dirOf(key)})   // update, found
						repl([]string{sd, kd, "rec", incr, "0", "0", key, k, k, dirOf(key)})   // update, not found
					}
					repl([]string{sd, kd, "filer", "0", "1", "1", key, "-", k, dirOf(key)}) // from the other cluster, filer sink
					repl([]string{sd, kd, "rec", "0", "1", "1", key, "-", k, dirOf(key)})   // from the other cluster, other sink
					repl([]string{sd, kd, "filer", "0", "1", "0", key, "-", k, dirOf(key)})
				}
				repl([]string{sd, kd, "rec", "0", "1", "0", key, "-", "-", "-"}) // weird
				// renames: the key is the OLD path, NewParentPath the new parent
				for _, np := range paths {
					if np != key {
						repl([]string{sd, kd, "rec", "0", r.Pick(b01), "0", key, "f", "f", dirOf(np)})
					}
				}
			}
		}
	}

	// ---- filer.sync / filer.backup process function: create / delete / update / rename over the universe
	for _, sd := range srcDirs {
		for _, td := range sinkDirs {
			for _, p := range paths {
				for _, k := range kinds {
					for _, incr := range b01 {
						syncEv([]string{sd, td, incr, "1", dirOf(p), "-", "-", k, dirOf(p), baseName(p)}) // create
						syncEv([]string{sd, td, incr, "1", dirOf(p), k, baseName(p), "-", "-", "-"})      // delete
						for _, q := range paths {                                                         // update (q == p) and renames
							for _, found := range b01 {
								syncEv([]string{sd, td, incr, found, dirOf(p), k, baseName(p), k, dirOf(q), baseName(q)})
							}
						}
					}
				}
				syncEv([]string{sd, td, "0", "1", dirOf(p), "-", "-", "-", "-", "-"})
			}
		}
	}

	// ---- the same process function in front of a real LocalSink: event sequences, tree after every event
	genLsync(a, r)
}
