// Harness for C31 "the mount's chunk cache is transparent".
//
// Runs the REAL chunk_cache.TieredChunkCache (exported API only) in a temp dir:
//
//	reset <unit> <diskUnits> <memEntries> =>
//	store <vid> <key> <cookie> <hexdata> =>
//	lookup <vid> <key> <cookie> <minSize> => <hexdata>
//	slice <vid> <key> <cookie> <offset> <length> => <hexdata>
//	restart nat|force [<ord0> <ord1> <ord2> <fresh0> <fresh1> <fresh2>] => <ord0> <ord1> <ord2> <fresh0> <fresh1> <fresh2>
//
// restart = Shutdown + NewTieredChunkCache on the same directory. What a reopened cache sees is decided
// by file timestamps (volume order: mtime of <vol>.dat, newest first; whether a volume's leveldb index
// is rebuilt from <vol>.idx: mtime of <vol>.ldb/LOG vs <vol>.idx), i.e. by the environment. The harness
// stats exactly these files between Shutdown and the reopen and reports the resulting volume order per
// layer (file indices, newest first, computed with the same sort call) and the per-volume "fresh" flags;
// the model takes them as the restart oracle. `force` sets the timestamps first (os.Chtimes in the
// harness's own temp dir) so that every order / flag combination is exercised and replays are deterministic.
package main

import (
	"fmt"
	"os"
	"path/filepath"
	"sort"
	"strconv"
	"strings"
	"sync"
	"time"

	"github.com/chrislusf/seaweedfs/weed/storage/needle"
	"github.com/chrislusf/seaweedfs/weed/util/chunk_cache"
	"github.com/chrislusf/seaweedfs/weed/util/fla9"

	"verifharness/hx"
)

type layerDef struct {
	prefix string
	n      int
}

var layers = []layerDef{{"c0_2", 2}, {"c1_3", 3}, {"c2_2", 2}}

type env struct {
	dir               string
	c                 *chunk_cache.TieredChunkCache
	unit, disk, memEn int64
	lines             []string
}

func (e *env) emit(op string, args []string, outs []string) {
	s := op
	for _, a := range args {
		s += " " + a
	}
	s += " =>"
	for _, o := range outs {
		s += " " + o
	}
	e.lines = append(e.lines, s)
}

func (e *env) close() {
	if e.c != nil {
		e.c.Shutdown()
		e.c = nil
	}
	if e.dir != "" {
		os.RemoveAll(e.dir)
		e.dir = ""
	}
}

func atoi(s string) int64 {
	n, _ := strconv.ParseInt(s, 10, 64)
	return n
}
func atou(s string) uint64 {
	n, _ := strconv.ParseUint(s, 10, 64)
	return n
}

func fidString(args []string) string {
	return needle.NewFileId(needle.VolumeId(atou(args[0])), atou(args[1]), uint32(atou(args[2]))).String()
}

func digits(xs []int) string {
	s := ""
	for _, x := range xs {
		s += strconv.Itoa(x)
	}
	return s
}

// observe computes, from the files as they are now, what NewOnDiskCacheLayer / NewLevelDbNeedleMap will decide.
func (e *env) observe() (orders []string, fresh []string) {
	for _, l := range layers {
		type vol struct {
			idx int
			mod time.Time
		}
		var vs []vol
		fr := ""
		for i := 0; i < l.n; i++ {
			base := filepath.Join(e.dir, fmt.Sprintf("%s_%d", l.prefix, i))
			fi, err := os.Stat(base + ".dat")
			if err != nil {
				panic(err)
			}
			vs = append(vs, vol{i, fi.ModTime()})
			f := false
			if lg, err := os.Stat(filepath.Join(base+".ldb", "LOG")); err == nil {
				if ix, err := os.Stat(base + ".idx"); err == nil {
					f = lg.ModTime().After(ix.ModTime())
				}
			}
			fr += hx.B(f)
		}
		// the same call NewOnDiskCacheLayer makes: keep newest cache to the front
		sort.Slice(vs, func(i, j int) bool { return vs[i].mod.After(vs[j].mod) })
		var ord []int
		for _, v := range vs {
			ord = append(ord, v.idx)
		}
		orders = append(orders, digits(ord))
		fresh = append(fresh, fr)
	}
	return
}

// force sets the timestamps so that the reopened cache sees the given orders and fresh flags.
func (e *env) force(orders []string, fresh []string) {
	base := time.Now().Add(-time.Hour).Truncate(time.Second)
	for li, l := range layers {
		for pos, ch := range orders[li] {
			i := int(ch - '0')
			if i < 0 || i >= l.n {
				continue
			}
			t := base.Add(-time.Duration(pos) * time.Minute)
			os.Chtimes(filepath.Join(e.dir, fmt.Sprintf("%s_%d.dat", l.prefix, i)), t, t)
		}
		for i := 0; i < l.n && i < len(fresh[li]); i++ {
			b := filepath.Join(e.dir, fmt.Sprintf("%s_%d", l.prefix, i))
			os.Chtimes(b+".idx", base, base)
			t := base
			if fresh[li][i] == '1' {
				t = base.Add(time.Second)
			}
			os.Chtimes(filepath.Join(b+".ldb", "LOG"), t, t)
		}
	}
}

func (e *env) exec(op []string) {
	name, args := op[0], op[1:]
	switch name {
	case "reset":
		e.close()
		d, err := os.MkdirTemp("", "c31")
		if err != nil {
			panic(err)
		}
		e.dir = d
		e.unit, e.disk, e.memEn = atoi(args[0]), atoi(args[1]), atoi(args[2])
		e.c = chunk_cache.NewTieredChunkCache(e.memEn, e.dir, e.disk, e.unit)
		e.emit(name, args, nil)
	case "store":
		if e.c == nil {
			return
		}
		outs := hx.Guard(func() []string {
			e.c.SetChunk(fidString(args), hx.UnHex(args[3]))
			return nil
		})
		e.emit(name, args, outs)
	case "lookup":
		if e.c == nil {
			return
		}
		outs := hx.Guard(func() []string {
			return []string{hx.Hex(e.c.GetChunk(fidString(args), atou(args[3])))}
		})
		e.emit(name, args, outs)
	case "slice":
		if e.c == nil {
			return
		}
		outs := hx.Guard(func() []string {
			return []string{hx.Hex(e.c.GetChunkSlice(fidString(args), atou(args[3]), atou(args[4])))}
		})
		e.emit(name, args, outs)
	case "restart":
		if e.c == nil {
			return
		}
		e.c.Shutdown()
		if len(args) >= 7 && args[0] == "force" {
			e.force(args[1:4], args[4:7])
		}
		ord, fr := e.observe()
		e.c = chunk_cache.NewTieredChunkCache(e.memEn, e.dir, e.disk, e.unit)
		e.emit(name, args, append(ord, fr...))
	}
}

// ---------------------------------------------------------------- generation

type gen struct {
	r      *hx.Rng
	unit   int
	own    bool // every needle key belongs to one file id (no aliasing possible)
	stored [][]string // fids stored so far (vid,key,cookie)
	lastSz map[string]int
}

func (g *gen) fid() []string {
	ki := g.r.Intn(3)
	vid := 1 + g.r.Intn(3)
	key := []int{0x11, 0x2222, 0x333333}[ki]
	cookie := []uint32{0x0a0b0c0d, 0xfeedbeef}[g.r.Intn(2)]
	if g.own {
		ki = g.r.Intn(5)
		key = []int{0x11, 0x2222, 0x333333, 0x44, 0x5555}[ki]
		vid = 1 + ki%3
		cookie = []uint32{0x0a0b0c0d, 0xfeedbeef}[ki%2]
	}
	return []string{strconv.Itoa(vid), strconv.Itoa(key), strconv.FormatUint(uint64(cookie), 10)}
}

func (g *gen) size() int {
	u := g.unit
	lims := []int{u, 4 * u, 8 * u}
	switch g.r.Intn(10) {
	case 0:
		if g.r.Chance(1, 4) {
			return 0
		}
		return 1 + g.r.Intn(8)
	case 1, 2:
		return 1 + g.r.Intn(u)
	case 3, 4, 5:
		l := lims[g.r.Intn(3)]
		return l - 1 + g.r.Intn(3)
	case 6:
		return u + 1 + g.r.Intn(3*u)
	case 7:
		return 4*u + 1 + g.r.Intn(4*u)
	case 8:
		return 8*u + 1 + g.r.Intn(2*u)
	default:
		return 1 + g.r.Intn(9*u)
	}
}

func perm(r *hx.Rng, n int) string {
	p := make([]int, n)
	for i := range p {
		p[i] = i
	}
	for i := n - 1; i > 0; i-- {
		j := r.Intn(i + 1)
		p[i], p[j] = p[j], p[i]
	}
	return digits(p)
}

func bits(r *hx.Rng, n int) string {
	s := ""
	for i := 0; i < n; i++ {
		s += hx.B(r.Chance(1, 2))
	}
	return s
}

func (g *gen) pickFid() []string {
	if len(g.stored) > 0 && g.r.Chance(3, 4) {
		return g.stored[g.r.Intn(len(g.stored))]
	}
	return g.fid()
}

func (g *gen) minSize(f []string) int {
	u := g.unit
	ls, ok := g.lastSz[strings.Join(f, ",")]
	switch g.r.Intn(8) {
	case 0:
		return 0
	case 1:
		return 1
	case 2, 3:
		if ok {
			return ls
		}
		return 1 + g.r.Intn(u)
	case 4:
		if ok {
			return ls - 1 + g.r.Intn(3)
		}
		return u
	case 5:
		return []int{u, 4 * u, 8 * u}[g.r.Intn(3)] + g.r.Intn(2)
	case 6:
		if ok && ls > 1 {
			return 1 + g.r.Intn(ls)
		}
		return 2
	default:
		return 1 + g.r.Intn(9*u)
	}
}

func (g *gen) op(restartOK bool) []string {
	k := g.r.Intn(100)
	switch {
	case k < 40:
		f := g.fid()
		if len(g.stored) > 0 && g.r.Chance(1, 3) {
			f = g.pickFid()
		}
		n := g.size()
		g.stored = append(g.stored, f)
		g.lastSz[strings.Join(f, ",")] = n
		return append([]string{"store"}, f[0], f[1], f[2], hx.Hex(g.r.Bytes(n)))
	case k < 75:
		f := g.pickFid()
		m := g.minSize(f)
		if m < 0 {
			m = 0
		}
		return []string{"lookup", f[0], f[1], f[2], strconv.Itoa(m)}
	case k < 97 || !restartOK:
		f := g.pickFid()
		m := g.minSize(f)
		if m < 0 {
			m = 0
		}
		off := 0
		if g.r.Chance(1, 4) {
			off = g.r.Intn(m + 2)
			if off > m {
				// offset beyond the wanted end: length stays small
				return []string{"slice", f[0], f[1], f[2], strconv.Itoa(off), strconv.Itoa(g.r.Intn(4))}
			}
		}
		return []string{"slice", f[0], f[1], f[2], strconv.Itoa(off), strconv.Itoa(m - off)}
	default:
		if g.r.Chance(1, 4) {
			return []string{"restart", "nat"}
		}
		return []string{"restart", "force", perm(g.r, 2), perm(g.r, 3), perm(g.r, 2), bits(g.r, 2), bits(g.r, 3), bits(g.r, 2)}
	}
}

func genCase(seed uint64, idx int) [][]string {
	r := hx.NewRng(seed*1000003 + uint64(idx)*7919 + 17)
	unit := 64
	if r.Chance(1, 5) {
		unit = []int{8, 16, 32}[r.Intn(3)]
	}
	disk := []int{16, 64, 128, 256, 512}[r.Intn(5)]
	mem := []int{0, 2, 2, 1000}[r.Intn(4)]
	g := &gen{r: r, unit: unit, own: r.Chance(2, 5), lastSz: map[string]int{}}
	ops := [][]string{{"reset", strconv.Itoa(unit), strconv.Itoa(disk), strconv.Itoa(mem)}}
	n := 20 + r.Intn(181)
	restarts := 0
	for i := 0; i < n; i++ {
		o := g.op(restarts < 3)
		if o[0] == "restart" {
			restarts++
		}
		ops = append(ops, o)
	}
	return ops
}

func main() {
	a := hx.ParseArgs()
	tmp, err := os.MkdirTemp("", "c31log")
	if err != nil {
		panic(err)
	}
	defer os.RemoveAll(tmp)
	fla9.Set("alsologtostderr", "false") // glog (its flags live in fla9): ERROR lines for out-of-bounds slices are expected
	fla9.Set("stderrthreshold", "FATAL")
	fla9.Set("logdir", tmp)

	tr := hx.NewTrace(a.Out)
	defer tr.Close()
	write := func(lines []string) {
		for _, l := range lines {
			i := strings.Index(l, " =>")
			f := strings.Fields(l[:i])
			tr.Op(f[0], f[1:], strings.Fields(l[i+3:]))
		}
	}

	if a.Ops != "" {
		e := &env{}
		for _, op := range hx.ReadOps(a.Ops) {
			e.exec(op)
		}
		e.close()
		write(e.lines)
		return
	}

	cases := a.N(24)
	workers := 12
	results := make([][]string, cases)
	var wg sync.WaitGroup
	next := make(chan int, cases)
	for i := 0; i < cases; i++ {
		next <- i
	}
	close(next)
	for w := 0; w < workers; w++ {
		wg.Add(1)
		go func() {
			defer wg.Done()
			for i := range next {
				e := &env{}
				for _, op := range genCase(a.Seed, i) {
					e.exec(op)
				}
				e.close()
				results[i] = e.lines
			}
		}()
	}
	wg.Wait()
	for _, ls := range results {
		write(ls)
	}
}
