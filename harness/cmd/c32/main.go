// c32: correspondence harness for C32 (volume server range requests).
// A real VolumeServer private handler over a real Store behind a loopback listener; blobs are
// written straight into the Store (plain, or gzip-compressed at rest with the compressed flag),
// then fetched over HTTP with every Range / Accept-Encoding combination. One trace line per
// request. `parse` lines call parseRange/sumRangesSize directly (no HTTP) on arbitrary strings.
package main

import (
	"fmt"
	"io"
	"mime"
	"mime/multipart"
	"net/http"
	"os"
	"strconv"
	"strings"

	weed_server "github.com/chrislusf/seaweedfs/weed/server"
	"github.com/chrislusf/seaweedfs/weed/storage/needle"
	"github.com/chrislusf/seaweedfs/weed/storage/types"
	"github.com/chrislusf/seaweedfs/weed/util"

	"verifharness/hx"
	"verifharness/vsx"
)

var tr *hx.Trace
var node *vsx.Node
var client = &http.Client{Transport: &http.Transport{DisableCompression: true, MaxIdleConnsPerHost: 16}}

const vid = 7

var nextKey uint64 = 100
var curKey uint64

func parse(h string, size int64) {
	tr.Op("parse", []string{hx.HexS(h), hx.I(size)}, hx.Guard(func() []string {
		st, ln, sum, err := weed_server.ParseRangeVerif(h, size)
		if err != nil {
			return []string{"err"}
		}
		out := []string{"ok", hx.I(sum)}
		for i := range st {
			out = append(out, hx.I(st[i])+":"+hx.I(ln[i]))
		}
		return out
	}))
}

func reset() { tr.Op("reset", nil, []string{"ok"}) }

// put stores a needle directly: data = stored bytes, compressed flag as given.
func put(compressed bool, name, mimeType string, plain, stored []byte) {
	nextKey++
	curKey = nextKey
	tr.Op("put", []string{hx.B(compressed), hx.HexS(name), hx.HexS(mimeType), hx.Hex(plain), hx.Hex(stored)}, hx.Guard(func() []string {
		n := new(needle.Needle)
		n.Id = types.NeedleId(curKey)
		n.Cookie = types.Cookie(0x1234abcd)
		n.Data = stored
		if name != "" {
			n.Name = []byte(name)
			n.SetHasName()
		}
		if mimeType != "" {
			n.Mime = []byte(mimeType)
			n.SetHasMime()
		}
		if compressed {
			n.SetIsCompressed()
		}
		n.Ttl = needle.EMPTY_TTL
		n.Checksum = needle.NewCRC(n.Data)
		_, err := node.Store.WriteVolumeNeedle(needle.VolumeId(vid), n, false)
		return []string{hx.Err(err)}
	}))
}

func get(ae, rng string) {
	if strings.Contains(rng, "--92233720368547758") {
		return // int64 overflow inside parseRange: exercised by the direct `parse` lines only
	}
	tr.Op("get", []string{hx.HexS(ae), hx.HexS(rng)}, hx.Guard(func() []string {
		req, err := http.NewRequest("GET", "http://"+node.Addr+"/"+vsx.Fid(vid, curKey, 0x1234abcd), nil)
		if err != nil {
			return []string{"badreq"}
		}
		if ae != "" {
			req.Header.Set("Accept-Encoding", ae)
		}
		if rng != "" {
			req.Header.Set("Range", rng)
		}
		resp, err := client.Do(req)
		if err != nil {
			return []string{"neterr"}
		}
		defer resp.Body.Close()
		body, rerr := io.ReadAll(resp.Body)
		out := []string{strconv.Itoa(resp.StatusCode)}
		if resp.StatusCode != 200 && resp.StatusCode != 206 {
			return append(out, "e")
		}
		cl := resp.Header.Get("Content-Length")
		ct := resp.Header.Get("Content-Type")
		mt, params, _ := mime.ParseMediaType(ct)
		if mt == "multipart/byteranges" {
			// framing is the stdlib's, but it has to be COMPLETE: the announced length is the delivered length, every part
			// can be read to its end and the body ends with the closing delimiter (NextPart reaches io.EOF, nothing else)
			var parts []string
			clean := rerr == nil
			mr := multipart.NewReader(strings.NewReader(string(body)), params["boundary"])
			for {
				p, err := mr.NextPart()
				if err == io.EOF {
					break
				}
				if err != nil {
					clean = false
					break
				}
				pb, perr := io.ReadAll(p)
				parts = append(parts, hx.HexS(p.Header.Get("Content-Range")), hx.Hex(pb))
				if perr != nil {
					clean = false
					break
				}
			}
			if !strings.HasSuffix(strings.TrimRight(string(body), "\r\n"), "--"+params["boundary"]+"--") {
				clean = false
			}
			switch {
			case rerr != nil:
				cl = "readerr"
			case !clean:
				cl = "mpbad"
			case cl == "" || cl == strconv.Itoa(len(body)):
				cl = "mp" // announced length = delivered length (or chunked)
			default:
				cl = "mpbad"
			}
			out = append(out, cl, hx.HexS(resp.Header.Get("Content-Encoding")), hx.HexS(resp.Header.Get("Content-Range")))
			out = append(out, "m", strconv.Itoa(len(parts)/2))
			return append(out, parts...)
		}
		if cl == "" {
			cl = "-"
		}
		if rerr != nil {
			cl = "readerr"
		}
		out = append(out, cl, hx.HexS(resp.Header.Get("Content-Encoding")), hx.HexS(resp.Header.Get("Content-Range")))
		return append(out, "b", hx.Hex(body))
	}))
}

func blobData(r *hx.Rng, n int) []byte {
	b := make([]byte, n)
	switch r.Intn(3) {
	case 0:
		for i := range b {
			b[i] = byte('a' + i%26)
		}
	case 1:
		copy(b, r.Bytes(n))
	default:
		for i := range b {
			b[i] = byte(r.Intn(3))
		}
	}
	return b
}

var aes = []string{"", "gzip", "gzip, deflate", "deflate", "gzip;q=0", "identity", "*", "x-gzip", "GZIP", "br, gzip;q=0.5", "notgzipped", "deflate, gzip;q=0.0, identity",
	"gzip; Q=0.000", "gzip ;q=1", "deflate;q=0, gzip", "gzip;q=0, x-gzip;q=0.", "gzip;q=0.001", "x-gzip;q=0"}

// randAE builds an Accept-Encoding value from codings, parameters and separators (element-wise reading of the header)
func randAE(r *hx.Rng) string {
	al := []string{"gzip", "gzip", "x-gzip", "GZip", "*", "deflate", "br", "identity", "gzipped", "notgzip", ";", ";", ",", ",", " ", "\t", "q=0", "q=0.0", "q=0.", "Q=0", "q=1", "q=0.5", "q=0.01", "q=", "q=00", "q=0x", "level=1"}
	n := 1 + r.Intn(7)
	s := ""
	for i := 0; i < n; i++ {
		s += r.Pick(al)
	}
	return strings.Trim(s, " \t")
}

func singles(n int) []string {
	var out []string
	for a := 0; a <= n+1; a++ {
		out = append(out, fmt.Sprintf("bytes=%d-", a), fmt.Sprintf("bytes=-%d", a))
		for b := 0; b <= n+1; b++ {
			out = append(out, fmt.Sprintf("bytes=%d-%d", a, b))
		}
	}
	return out
}

// int64 boundary values for first/last-byte-pos and suffix lengths
var bigVals = []string{"9223372036854775807", "9223372036854775806", "9223372036854775808", "4294967296", "4611686018427387904", "18446744073709551615", "18446744073709551616"}

func randSpec(r *hx.Rng, n int) string {
	v := func() string {
		switch r.Intn(8) {
		case 0:
			return strconv.Itoa(n)
		case 1:
			return strconv.Itoa(n + 1 + r.Intn(3))
		case 2:
			return "0"
		case 3:
			if r.Chance(1, 3) {
				return r.Pick(bigVals)
			}
		}
		return strconv.Itoa(r.Intn(n + 1))
	}
	num := func(x string) uint64 { u, _ := strconv.ParseUint(x, 10, 64); return u }
	switch r.Intn(6) {
	case 0:
		return v() + "-"
	case 1:
		return "-" + v()
	default:
		a, b := v(), v()
		if num(a) > num(b) && !r.Chance(1, 8) {
			a, b = b, a
		}
		return a + "-" + b
	}
}

// headers built around the int64 boundary: alone and as members of multi-range headers
func boundaryHeaders(n int) []string {
	var out []string
	for _, big := range []string{"9223372036854775807", "9223372036854775806", "9223372036854775808"} {
		for a := 0; a <= 2 && a <= n+1; a++ {
			out = append(out, fmt.Sprintf("bytes=%d-%s", a, big))
			out = append(out, fmt.Sprintf("bytes=%d-%s,0-0", a, big), fmt.Sprintf("bytes=0-0,%d-%s", a, big), fmt.Sprintf("bytes=%d-%s,%d-%s", a, big, a, big))
			if n > 1 {
				out = append(out, fmt.Sprintf("bytes=%d-%d,%d-%s", n-1, n-1, a, big), fmt.Sprintf("bytes=-1, %d-%s ,1-1", a, big))
			}
		}
		out = append(out, "bytes=-"+big, "bytes=-"+big+",0-0", "bytes="+big+"-", "bytes="+big+"-"+big, "bytes=0-0,"+big+"-")
	}
	return out
}

func randMulti(r *hx.Rng, n int) string {
	k := 2 + r.Intn(3)
	if r.Chance(1, 10) {
		k = 1
	}
	var ps []string
	for i := 0; i < k; i++ {
		s := randSpec(r, n)
		if r.Chance(1, 6) {
			s = " " + s
		}
		if r.Chance(1, 10) {
			s += "\t"
		}
		ps = append(ps, s)
	}
	if r.Chance(1, 12) {
		ps = append(ps, "")
	}
	return "bytes=" + strings.Join(ps, ",")
}

var malformed = []string{"bytes=", "bytes=,", "bytes=,,", "bytes", "byte=0-1", "Bytes=0-1", "BYTES=0-1", "bytes =0-1", "bytes=0", "bytes=-", "bytes=--5", "bytes=--1", "bytes=--100",
	"bytes=-+3", "bytes=+1-3", "bytes=1-+3", "bytes=0-1-2", "bytes=a-b", "bytes=0x1-3", "bytes=1_0-2_0", "bytes=3-2", "bytes=0-1,3-2", "bytes=0-1,--2", "bytes=--2,0-1", "bytes=--2,--3",
	"bytes=9223372036854775807-", "bytes=9223372036854775808-", "bytes=0-9223372036854775807", "bytes=0-9223372036854775808", "bytes=-9223372036854775807", "bytes=-9223372036854775808",
	"bytes=--9223372036854775808", "bytes=--9223372036854775807", "bytes=0-1,99999999999999999999-", "bytes=1 - 3", "bytes= 1-3", "bytes=1-3 ,", "bytes=0-0,0-0", "bytes=0-1;2-3", "items=0-1",
	"bytes=0-,0-", "bytes=0-,-1", "bytes=-0", "bytes=-0,-0", "bytes=0-0,-0", "bytes=00-01", "bytes=-00005", "bytes=0-1,", ",bytes=0-1", "bytes=bytes=0-1", "bytes=1-2=3"}

func randJunk(r *hx.Rng) string {
	al := []string{"0", "1", "2", "5", "9", "-", "-", ",", ",", " ", "+", "=", "b", "\t", "x"}
	n := r.Intn(10)
	s := ""
	for i := 0; i < n; i++ {
		s += r.Pick(al)
	}
	if r.Chance(4, 5) {
		s = "bytes=" + s
	}
	return strings.Trim(s, " \t")
}

func main() {
	a := hx.ParseArgs()
	tmp, err := os.MkdirTemp("", "c32")
	if err != nil {
		panic(err)
	}
	defer os.RemoveAll(tmp)
	vsx.Quiet(tmp)
	tr = hx.NewTrace(a.Out)
	defer tr.Close()
	node = vsx.NewNode(nil, "127.0.0.1:1")
	defer node.Close()
	if err := node.AddVolume(vid, "000", ""); err != nil {
		panic(err)
	}
	tr.Comment(fmt.Sprintf("c32 seed=%d tier=%s", a.Seed, a.Tier))
	if a.Ops != "" {
		replay(hx.ReadOps(a.Ops))
		return
	}
	// hx seeds are consecutive states of one splitmix stream (seed k+1 = seed k advanced one draw): re-seed through
	// one scrambled output so that different seeds give unrelated streams
	r := hx.NewRng(hx.NewRng(a.Seed).U64())

	// ---- parseRange called directly: every single range over small sizes, malformed and random strings
	for n := 0; n <= 6; n++ {
		for _, s := range singles(n) {
			parse(s, int64(n))
		}
		for _, s := range malformed {
			parse(s, int64(n))
		}
		for _, s := range boundaryHeaders(n) {
			parse(s, int64(n))
		}
	}
	for _, s := range []string{"", " ", "bytes= 0-1", "bytes=\v0-1\f", "bytes=\n0-\r", "bytes= - 1", "bytes=\t-\t"} {
		parse(s, 10)
	}
	for _, n := range []int64{0, 1, 10, 1 << 31, 1<<63 - 1, 1 << 62} {
		for _, s := range malformed {
			parse(s, n)
		}
	}
	for i := 0; i < a.N(3000); i++ {
		n := r.Intn(12)
		if r.Bool() {
			parse(randMulti(r, n), int64(n))
		} else {
			parse(randJunk(r), int64(n))
		}
	}

	// ---- HTTP: blobs x ranges x Accept-Encoding
	maxN := 7
	if a.Thorough() {
		maxN = 10
	}
	for n := 0; n <= maxN; n++ {
		plain := blobData(r, n)
		gz, _ := util.GzipData(plain)
		for variant := 0; variant < 3; variant++ {
			reset()
			switch variant {
			case 0:
				put(false, "", "", plain, plain)
			case 1:
				put(true, "f.txt", "", plain, gz)
			case 2:
				put(true, "", "text/plain", plain, gz)
			}
			for _, s := range singles(n) {
				if variant == 0 {
					get("", s)
				} else {
					get(r.Pick([]string{"", "deflate"}), s)
				}
			}
			get("", "")
			for _, ae := range aes {
				get(ae, "")
				get(ae, fmt.Sprintf("bytes=0-%d", n/2))
				get(ae, randMulti(r, n))
			}
			if variant != 0 {
				// ranges over the gzip representation (client accepts gzip): sizes around len(gz)
				m := len(gz)
				for _, s := range []string{"bytes=0-0", "bytes=0-", fmt.Sprintf("bytes=%d-", m-1), fmt.Sprintf("bytes=%d-", m), fmt.Sprintf("bytes=%d-", m+1), fmt.Sprintf("bytes=-%d", m), fmt.Sprintf("bytes=-%d", m+1), "bytes=-1", "bytes=-0",
					fmt.Sprintf("bytes=0-%d", m-1), fmt.Sprintf("bytes=0-%d", m), fmt.Sprintf("bytes=1-%d,0-0", m-2), fmt.Sprintf("bytes=0-%d,0-%d", m-1, m-1), fmt.Sprintf("bytes=%d-%d", m, m), "bytes=--3"} {
					get("gzip", s)
				}
			}
			for _, s := range malformed {
				get(r.Pick([]string{"", "", "gzip"}), strings.Trim(s, " \t"))
			}
			for _, s := range boundaryHeaders(n) {
				get("", s)
			}
		}
	}
	// Accept-Encoding read element by element: random header values against a gzip-at-rest blob (and a plain one)
	{
		plain := blobData(r, 9)
		gz, _ := util.GzipData(plain)
		reset()
		put(true, "f.txt", "", plain, gz)
		for i := 0; i < a.N(250); i++ {
			get(randAE(r), "")
		}
		for i := 0; i < 20; i++ {
			get(randAE(r), "bytes=0-3")
		}
		reset()
		put(false, "", "", plain, plain)
		for i := 0; i < 10; i++ {
			get(randAE(r), "")
		}
	}
	// multi-range answers (2, 3, 4 disjoint / overlapping ranges whose sum stays below the size) for blobs WITHOUT a mime type
	// (no stored mime or application/octet-stream, no or unknown extension), with a typed one for comparison: the multipart body
	// must be complete (Content-Length, closing delimiter) and every part must carry its bytes
	for _, n := range []int{12, 60, 200} {
		plain := blobData(r, n)
		for _, nm := range [][2]string{{"", ""}, {"blob", ""}, {"x.unknownext", "application/octet-stream"}, {"a.txt", ""}, {"", "text/plain"}} {
			reset()
			put(false, nm[0], nm[1], plain, plain)
			q := n / 6
			for _, s := range []string{
				fmt.Sprintf("bytes=0-%d,%d-%d", q-1, 2*q, 3*q-1),
				fmt.Sprintf("bytes=1-3,%d-%d,%d-%d", 2*q, 3*q-1, 4*q, 5*q+q/2),
				fmt.Sprintf("bytes=0-0,1-1,2-2,-%d", q),
				fmt.Sprintf("bytes=%d-,0-%d", n-q, q),
				fmt.Sprintf("bytes=0-%d, 0-%d", q, q),
			} {
				get("", s)
			}
			for j := 0; j < 6; j++ {
				get("", randMulti(r, n/3))
			}
		}
	}
	// random blobs (larger), random multi ranges
	for i := 0; i < a.N(60); i++ {
		n := r.Intn(40)
		if r.Chance(1, 10) {
			n = 200 + r.Intn(3000)
		}
		plain := blobData(r, n)
		reset()
		compressed := r.Bool()
		switch {
		case !compressed:
			put(false, r.Pick([]string{"", "a.bin", "a.txt"}), r.Pick([]string{"", "text/plain", "application/octet-stream"}), plain, plain)
		case r.Chance(1, 8):
			// flagged compressed but the stored bytes are not gzip (served raw)
			put(true, "", "", plain, plain)
		default:
			gz, _ := util.GzipData(plain)
			put(true, r.Pick([]string{"", "a.txt"}), r.Pick([]string{"", "text/plain"}), plain, gz)
		}
		for j := 0; j < 25; j++ {
			ae := ""
			if r.Chance(2, 5) {
				ae = r.Pick(aes)
			}
			m := n
			if compressed && r.Bool() {
				m = n + 23
			}
			switch r.Intn(6) {
			case 0:
				get(ae, randJunk(r))
			case 1:
				get(ae, "bytes="+randSpec(r, m))
			default:
				get(ae, randMulti(r, m))
			}
		}
	}
}

func replay(ops [][]string) {
	for _, op := range ops {
		switch op[0] {
		case "parse":
			n, _ := strconv.ParseInt(op[2], 10, 64)
			parse(hx.UnHexS(op[1]), n)
		case "reset":
			reset()
		case "put":
			put(op[1] == "1", hx.UnHexS(op[2]), hx.UnHexS(op[3]), hx.UnHex(op[4]), hx.UnHex(op[5]))
		case "get":
			get(hx.UnHexS(op[1]), hx.UnHexS(op[2]))
		}
	}
}
