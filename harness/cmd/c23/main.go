// c23: correspondence harness for C23 (path-specific storage rules, weed/filer/filer_conf.go).
// Drives the exported FilerConf API (NewFilerConf / AddLocationConf / DeleteLocationConf /
// MatchStorageRule) with random rule sets over the alphabet {/,a,b} and sweeps all paths
// up to a bounded length; one trace line per call.
//
//	reset =>
//	add <prefix> <coll> <repl> <ttl> <disk> <fsync> <growth> <ro> => ok|err|panic
//	del <prefix> => ok|panic
//	match <path> => <coll> <repl> <ttl> <disk> <fsync> <growth> <ro>
package main

import (
	"fmt"
	"strconv"

	"github.com/chrislusf/seaweedfs/weed/filer"
	"github.com/chrislusf/seaweedfs/weed/pb/filer_pb"

	"verifharness/hx"
)

var tr *hx.Trace
var fc *filer.FilerConf

func reset() {
	fc = filer.NewFilerConf()
	tr.Op("reset", nil, nil)
}

func add(args []string) {
	// args: prefix coll repl ttl disk fsync growth ro   (strings hex, others decimal)
	g, _ := strconv.ParseUint(args[6], 10, 32)
	c := &filer_pb.FilerConf_PathConf{
		LocationPrefix:    hx.UnHexS(args[0]),
		Collection:        hx.UnHexS(args[1]),
		Replication:       hx.UnHexS(args[2]),
		Ttl:               hx.UnHexS(args[3]),
		DiskType:          hx.UnHexS(args[4]),
		Fsync:             args[5] == "1",
		VolumeGrowthCount: uint32(g),
		ReadOnly:          args[7] == "1",
	}
	tr.Op("add", args, hx.Guard(func() []string {
		return []string{hx.Err(fc.AddLocationConf(c))}
	}))
}

func del(prefix string) {
	tr.Op("del", []string{hx.HexS(prefix)}, hx.Guard(func() []string {
		fc.DeleteLocationConf(prefix)
		return []string{"ok"}
	}))
}

func match(path string) {
	tr.Op("match", []string{hx.HexS(path)}, hx.Guard(func() []string {
		c := fc.MatchStorageRule(path)
		return []string{hx.HexS(c.Collection), hx.HexS(c.Replication), hx.HexS(c.Ttl), hx.HexS(c.DiskType),
			hx.B(c.Fsync), hx.U(uint64(c.VolumeGrowthCount)), hx.B(c.ReadOnly)}
	}))
}

func replay(ops [][]string) {
	if len(ops) == 0 || ops[0][0] != "reset" {
		reset()
	}
	for _, o := range ops {
		switch o[0] {
		case "reset":
			reset()
		case "add":
			if len(o) == 9 {
				add(o[1:])
			}
		case "del":
			if len(o) == 2 {
				del(hx.UnHexS(o[1]))
			}
		case "match":
			if len(o) == 2 {
				match(hx.UnHexS(o[1]))
			}
		case "config":
		default:
			fmt.Println("unknown op", o[0])
		}
	}
}

var alpha = []string{"/", "a", "b"}

// allPaths: every string over alpha of length <= n, shortest first
func allPaths(n int) []string {
	out := []string{""}
	level := []string{""}
	for i := 0; i < n; i++ {
		var next []string
		for _, p := range level {
			for _, c := range alpha {
				next = append(next, p+c)
			}
		}
		out = append(out, next...)
		level = next
	}
	return out
}

func randPrefix(r *hx.Rng, maxLen int) string {
	n := 1 + r.Intn(maxLen)
	s := ""
	if r.Chance(3, 4) {
		s = "/"
	}
	for len(s) < n {
		s += r.Pick(alpha)
	}
	return s
}

func randConf(r *hx.Rng, prefix string) []string {
	pick := func(pool []string) string {
		if r.Chance(1, 2) {
			return "-"
		}
		return hx.HexS(r.Pick(pool))
	}
	growth := "0"
	if r.Chance(1, 3) {
		growth = hx.I(int64(1 + r.Intn(3)))
	}
	return []string{hx.HexS(prefix), pick([]string{"c1", "c2", "c3"}), pick([]string{"000", "001", "010"}), pick([]string{"1d", "5m"}),
		pick([]string{"hdd", "ssd"}), hx.B(r.Chance(1, 3)), growth, hx.B(r.Chance(1, 4))}
}

func main() {
	a := hx.ParseArgs()
	tr = hx.NewTrace(a.Out)
	defer tr.Close()
	tr.Comment(fmt.Sprintf("c23 seed=%d tier=%s", a.Seed, a.Tier))
	if a.Ops != "" {
		replay(hx.ReadOps(a.Ops))
		return
	}
	r := hx.NewRng(a.Seed)
	paths6 := allPaths(6)
	paths4 := allPaths(4)

	// ---- fixed cases: the scenario of TestFilerConf, nested chains, siblings sharing a trie edge
	reset()
	for _, p := range []string{"/buckets/abc", "/buckets/abcd", "/buckets/", "/buckets/abc/ab/", "/b"} {
		add([]string{hx.HexS(p), hx.HexS("c" + p), "-", "-", "-", "0", "0", "0"})
	}
	for _, p := range []string{"/buckets/abc/a", "/buckets/abcd/a", "/buckets/a", "/buckets/abc/ab/x", "/", "", "/b", "/bu", "/buckets", "x"} {
		match(p)
	}
	del("/buckets/abc")
	for _, p := range []string{"/buckets/abc/a", "/buckets/abcd/a", "/buckets/abc/ab/x"} {
		match(p)
	}
	reset()
	add([]string{"-", hx.HexS("c1"), "-", "-", "-", "0", "0", "0"}) // empty prefix
	match("/a")

	// ---- random rule sets
	cases := a.N(150)
	for i := 0; i < cases; i++ {
		reset()
		maxLen := 2 + r.Intn(4)
		var prefixes []string
		steps := 3 + r.Intn(10)
		for s := 0; s < steps; s++ {
			switch k := r.Intn(10); {
			case k < 6: // add (new or replacing)
				p := randPrefix(r, maxLen)
				if len(prefixes) > 0 && r.Chance(1, 5) {
					p = r.Pick(prefixes)
				}
				prefixes = append(prefixes, p)
				add(randConf(r, p))
			case k < 9: // delete (mostly present)
				p := randPrefix(r, maxLen)
				if len(prefixes) > 0 && r.Chance(4, 5) {
					p = r.Pick(prefixes)
				}
				del(p)
				for _, q := range paths4 {
					match(q)
				}
			default:
				for j := 0; j < 5; j++ {
					match(r.Pick(paths6))
				}
			}
		}
		if i%3 == 0 || a.Thorough() {
			for _, q := range paths6 {
				match(q)
			}
		} else {
			for _, q := range paths4 {
				match(q)
			}
		}
		// remove every rule again: the configuration must be back to "no settings"
		if r.Chance(1, 3) {
			for _, p := range prefixes {
				del(p)
			}
			for _, q := range paths4 {
				match(q)
			}
		}
	}
}
