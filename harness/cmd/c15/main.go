// c15: correspondence harness for C15 (volume.balance / volumeServer.evacuate /
// volume.fix.replication plans). Builds random master_pb.TopologyInfo snapshots, runs the
// REAL planners of weed/shell in dry-run mode through the verif exports, and writes every
// planned step (parsed from what the planners print) as outputs of one trace line per run.
//
//	reset
//	dn <dc> <rack> <id>                       declare a server (topology order)
//	disk <id> <hdd|ssd> <max>                 declare a disk (VolumeCount = number of vol lines)
//	vol <id> <hdd|ssd> <vid> <size> <rp> <ro> <coll> <mtime>
//	balance <hdd|ssd> <coll|ALL> <dc|-> <limit> => ok|err|panic <vid>:<src>:<dst> ...
//	evac <id>                                  => ok|err|panic <vid>:<dst|-> ...   (sorted by vid)
//	fix                                        => ok|err|panic c:<vid>:<src>:<dst> | f:<vid> | d:<vid>:<node> ... (sorted)
//	good <rp> <src> <dst> <replica>...         => 0|1      (locations as dc/rack/id)
//	sat <rp> <loc> <replica>...                => 0|1
package main

import (
	"bytes"
	"fmt"
	"io"
	"os"
	"sort"
	"strconv"
	"strings"

	"github.com/chrislusf/seaweedfs/weed/pb/master_pb"
	"github.com/chrislusf/seaweedfs/weed/shell"

	"verifharness/hx"
)

var tr *hx.Trace

type vol struct {
	vid   uint32
	size  uint64
	rp    uint32
	ro    bool
	coll  int
	mtime int64
}
type disk struct {
	dt   string
	max  int
	vols []vol
}
type server struct {
	dc, rack, id int
	disks        []*disk
}
type topo struct{ servers []*server }

func (t *topo) server(id int) *server {
	for _, s := range t.servers {
		if s.id == id {
			return s
		}
	}
	return nil
}
func (s *server) disk(dt string) *disk {
	for _, d := range s.disks {
		if d.dt == dt {
			return d
		}
	}
	return nil
}

func dtKey(dt string) string {
	if dt == "hdd" {
		return ""
	}
	return dt
}
func collName(c int) string {
	if c == 0 {
		return ""
	}
	return fmt.Sprintf("c%d", c)
}
func nodeName(id int) string { return fmt.Sprintf("n%d", id) }
func nodeId(name string) string {
	return strings.TrimPrefix(name, "n")
}

func (t *topo) pb() *master_pb.TopologyInfo {
	ti := &master_pb.TopologyInfo{Id: "topo"}
	for _, s := range t.servers {
		dcId := fmt.Sprintf("d%d", s.dc)
		var dc *master_pb.DataCenterInfo
		for _, x := range ti.DataCenterInfos {
			if x.Id == dcId {
				dc = x
			}
		}
		if dc == nil {
			dc = &master_pb.DataCenterInfo{Id: dcId}
			ti.DataCenterInfos = append(ti.DataCenterInfos, dc)
		}
		rackId := fmt.Sprintf("r%d", s.rack)
		var rack *master_pb.RackInfo
		for _, x := range dc.RackInfos {
			if x.Id == rackId {
				rack = x
			}
		}
		if rack == nil {
			rack = &master_pb.RackInfo{Id: rackId}
			dc.RackInfos = append(dc.RackInfos, rack)
		}
		dn := &master_pb.DataNodeInfo{Id: nodeName(s.id), DiskInfos: map[string]*master_pb.DiskInfo{}}
		for _, d := range s.disks {
			di := &master_pb.DiskInfo{Type: dtKey(d.dt), MaxVolumeCount: uint64(d.max), VolumeCount: uint64(len(d.vols))}
			if d.max > len(d.vols) {
				di.FreeVolumeCount = uint64(d.max - len(d.vols))
			}
			for _, v := range d.vols {
				di.VolumeInfos = append(di.VolumeInfos, &master_pb.VolumeInformationMessage{
					Id: v.vid, Size: v.size, Collection: collName(v.coll), ReadOnly: v.ro, ReplicaPlacement: v.rp,
					ModifiedAtSecond: v.mtime, DiskType: dtKey(d.dt), Version: 3,
				})
				if !v.ro {
					di.ActiveVolumeCount++
				}
			}
			dn.DiskInfos[dtKey(d.dt)] = di
		}
		rack.DataNodeInfos = append(rack.DataNodeInfos, dn)
	}
	return ti
}

// capture runs f with os.Stdout redirected and returns what was printed.
func capture(f func()) string {
	old := os.Stdout
	r, w, err := os.Pipe()
	if err != nil {
		panic(err)
	}
	os.Stdout = w
	done := make(chan string)
	go func() {
		var b bytes.Buffer
		io.Copy(&b, r)
		done <- b.String()
	}()
	func() {
		defer func() {
			os.Stdout = old
			w.Close()
		}()
		f()
	}()
	return <-done
}

func vidOf(name string) string {
	if i := strings.LastIndex(name, "_"); i >= 0 {
		return name[i+1:]
	}
	return name
}

// parseMoves extracts "moving <dt> volume <name> <src> => <dst>" lines.
func parseMoves(out string) (steps []string) {
	for _, ln := range strings.Split(out, "\n") {
		f := strings.Fields(ln)
		if len(f) < 6 || f[0] != "moving" {
			continue
		}
		k := 1
		if f[k] != "volume" {
			k++
		}
		if f[k] != "volume" || len(f) < k+5 {
			continue
		}
		steps = append(steps, vidOf(f[k+1])+":"+nodeId(f[k+2])+":"+nodeId(f[k+4]))
	}
	return
}

func runBalance(t *topo, dt, coll, dc string, limit uint64) []string {
	collection := "ALL_COLLECTIONS"
	if coll != "ALL" {
		c, _ := strconv.Atoi(coll)
		collection = collName(c)
	}
	dcId := ""
	if dc != "-" {
		dcId = "d" + dc
	}
	status := "ok"
	out := capture(func() {
		res := hx.Guard(func() []string {
			return []string{hx.Err(shell.BalanceVolumeServersVerif(t.pb(), []string{dt}, dcId, limit, collection))}
		})
		status = res[0]
	})
	return append([]string{status}, parseMoves(out)...)
}

func runEvac(t *topo, id int) []string {
	status := "ok"
	var w bytes.Buffer
	out := capture(func() {
		res := hx.Guard(func() []string {
			return []string{hx.Err(shell.EvacuateNormalVolumesVerif(t.pb(), nodeName(id), true, &w))}
		})
		status = res[0]
	})
	var steps []string
	for _, m := range parseMoves(out) {
		p := strings.Split(m, ":")
		steps = append(steps, p[0]+":"+p[2])
	}
	for _, ln := range strings.Split(w.String(), "\n") {
		f := strings.Fields(ln)
		if len(f) >= 5 && f[0] == "skipping" {
			steps = append(steps, f[4]+":-")
		}
	}
	sortByVid(steps, 0)
	return append([]string{status}, steps...)
}

func sortByVid(steps []string, field int) {
	sort.SliceStable(steps, func(i, j int) bool {
		a, _ := strconv.Atoi(strings.Split(steps[i], ":")[field])
		b, _ := strconv.Atoi(strings.Split(steps[j], ":")[field])
		return a < b
	})
}

func runFix(t *topo) []string {
	status := "ok"
	var w bytes.Buffer
	capture(func() {
		res := hx.Guard(func() []string {
			return []string{hx.Err(shell.FixReplicationVerif(t.pb(), &w))}
		})
		status = res[0]
	})
	var steps []string
	for _, ln := range strings.Split(w.String(), "\n") {
		f := strings.Fields(ln)
		switch {
		case len(f) >= 9 && f[0] == "replicating":
			// replicating volume <vid> <rp> from <src> to dataNode <dst> ...
			steps = append(steps, "c:"+f[2]+":"+nodeId(f[5])+":"+nodeId(f[8]))
		case len(f) >= 5 && f[0] == "failed":
			steps = append(steps, "f:"+f[4])
		case len(f) >= 5 && f[0] == "deleting":
			steps = append(steps, "d:"+f[2]+":"+nodeId(f[4]))
		}
	}
	sortByVid(steps, 1)
	return append([]string{status}, steps...)
}

func parseLoc(s string) shell.LocVerif {
	p := strings.Split(s, "/")
	return shell.LocVerif{Dc: "d" + p[0], Rack: "r" + p[1], Id: "n" + p[2]}
}

func runPred(op string, args []string) []string {
	return hx.Guard(func() []string {
		rp, _ := strconv.Atoi(args[0])
		if op == "good" {
			var reps []shell.LocVerif
			for _, a := range args[3:] {
				reps = append(reps, parseLoc(a))
			}
			return []string{hx.B(shell.IsGoodMoveVerif(byte(rp), reps, parseLoc(args[1]), parseLoc(args[2])))}
		}
		var reps []shell.LocVerif
		for _, a := range args[2:] {
			reps = append(reps, parseLoc(a))
		}
		return []string{hx.B(shell.SatisfyReplicaPlacementVerif(byte(rp), reps, parseLoc(args[1])))}
	})
}

// ---- op execution (shared by generation and replay) ----

var cur *topo

func atoi(s string) int { n, _ := strconv.Atoi(s); return n }

func exec(op string, args []string) {
	switch op {
	case "reset":
		cur = &topo{}
		tr.Op(op, args, nil)
	case "dn":
		if cur == nil {
			cur = &topo{}
		}
		cur.servers = append(cur.servers, &server{dc: atoi(args[0]), rack: atoi(args[1]), id: atoi(args[2])})
		tr.Op(op, args, nil)
	case "disk":
		if s := cur.server(atoi(args[0])); s != nil && s.disk(args[1]) == nil {
			s.disks = append(s.disks, &disk{dt: args[1], max: atoi(args[2])})
		}
		tr.Op(op, args, nil)
	case "vol":
		if s := cur.server(atoi(args[0])); s != nil {
			if d := s.disk(args[1]); d != nil {
				sz, _ := strconv.ParseUint(args[3], 10, 64)
				d.vols = append(d.vols, vol{vid: uint32(atoi(args[2])), size: sz, rp: uint32(atoi(args[4])), ro: args[5] == "1", coll: atoi(args[6]), mtime: int64(atoi(args[7]))})
			}
		}
		tr.Op(op, args, nil)
	case "balance":
		lim, _ := strconv.ParseUint(args[3], 10, 64)
		tr.Op(op, args, runBalance(cur, args[0], args[1], args[2], lim))
	case "evac":
		tr.Op(op, args, runEvac(cur, atoi(args[0])))
	case "fix":
		tr.Op(op, args, runFix(cur))
	case "good", "sat":
		tr.Op(op, args, runPred(op, args))
	}
}

// ---- generation ----

var rpSet []int

func genTopo(r *hx.Rng, mode int) {
	exec("reset", nil)
	t := &topo{}
	nid := 0
	ndc := 1 + r.Intn(3)
	for dc := 1; dc <= ndc; dc++ {
		nr := 1 + r.Intn(3)
		for rk := 1; rk <= nr; rk++ {
			ns := 1 + r.Intn(4)
			if mode == 2 {
				ns = 1 + r.Intn(2)
			}
			for k := 0; k < ns; k++ {
				nid++
				s := &server{dc: dc, rack: rk, id: nid}
				if r.Chance(9, 10) {
					s.disks = append(s.disks, &disk{dt: "hdd", max: r.Intn(9)})
				}
				if r.Chance(3, 10) || len(s.disks) == 0 {
					s.disks = append(s.disks, &disk{dt: "ssd", max: r.Intn(6)})
				}
				t.servers = append(t.servers, s)
			}
		}
	}
	holds := func(s *server, vid uint32) bool {
		for _, d := range s.disks {
			for _, v := range d.vols {
				if v.vid == vid {
					return true
				}
			}
		}
		return false
	}
	nv := 1 + r.Intn(8)
	vid := uint32(0)
	for i := 0; i < nv; i++ {
		vid++
		rp := rpSet[r.Intn(len(rpSet))]
		if r.Chance(1, 3) {
			rp = []int{0, 1, 10, 100, 110, 120, 200, 20, 2}[r.Intn(9)]
		}
		x, y, z := rp/100, rp/10%10, rp%10
		copies := x + y + z + 1
		dt := "hdd"
		if r.Chance(1, 4) {
			dt = "ssd"
		}
		coll := r.Intn(3)
		size := uint64(r.Intn(1500))
		ro := r.Chance(1, 5)
		var cands []*server
		for _, s := range t.servers {
			if s.disk(dt) != nil {
				cands = append(cands, s)
			}
		}
		if len(cands) == 0 {
			continue
		}
		var chosen []*server
		if r.Chance(7, 10) {
			// try a placement of the right shape: main dc/rack first
			main := cands[r.Intn(len(cands))]
			chosen = append(chosen, main)
			pick := func(ok func(s *server) bool, n int) {
				for k := 0; k < n; k++ {
					var opts []*server
					for _, s := range cands {
						good := ok(s)
						for _, c := range chosen {
							if c == s {
								good = false
							}
						}
						if good {
							opts = append(opts, s)
						}
					}
					if len(opts) == 0 {
						return
					}
					chosen = append(chosen, opts[r.Intn(len(opts))])
				}
			}
			pick(func(s *server) bool { return s.dc == main.dc && s.rack == main.rack }, z)
			for k := 0; k < y; k++ {
				pick(func(s *server) bool {
					if s.dc != main.dc {
						return false
					}
					for _, c := range chosen {
						if c.dc == s.dc && c.rack == s.rack {
							return false
						}
					}
					return true
				}, 1)
			}
			for k := 0; k < x; k++ {
				pick(func(s *server) bool {
					for _, c := range chosen {
						if c.dc == s.dc {
							return false
						}
					}
					return true
				}, 1)
			}
			if r.Chance(1, 4) && len(chosen) > 1 {
				chosen = chosen[:len(chosen)-1] // under-replicated
			}
			if mode == 1 && r.Chance(1, 2) && len(chosen) > 1 {
				chosen = chosen[:1+r.Intn(len(chosen)-1)]
			}
		} else {
			n := copies
			if r.Chance(1, 4) {
				n = 1 + r.Intn(copies+1)
			}
			perm := append([]*server{}, cands...)
			for k := len(perm) - 1; k > 0; k-- {
				j := r.Intn(k + 1)
				perm[k], perm[j] = perm[j], perm[k]
			}
			if n > len(perm) {
				n = len(perm)
			}
			chosen = perm[:n]
		}
		for k, s := range chosen {
			v := vol{vid: vid, size: size, rp: uint32(rp), ro: ro, coll: coll, mtime: int64(1000 + int(vid)*10 + k)}
			if r.Chance(1, 10) {
				v.ro = !v.ro
			}
			s.disk(dt).vols = append(s.disk(dt).vols, v)
		}
	}
	// fillers: single-copy volumes that skew the load
	for _, s := range t.servers {
		for _, d := range s.disks {
			n := 0
			switch r.Intn(4) {
			case 0:
				n = d.max - len(d.vols)
			case 1:
				n = r.Intn(d.max + 1)
			}
			for k := 0; k < n && len(d.vols) < 12; k++ {
				vid++
				d.vols = append(d.vols, vol{vid: vid, size: uint64(r.Intn(1500)), rp: 0, ro: r.Chance(1, 4), coll: r.Intn(3), mtime: int64(1000 + int(vid)*10)})
			}
			if d.max < len(d.vols) {
				d.max = len(d.vols)
			}
			_ = holds
		}
	}
	for _, s := range t.servers {
		exec("dn", []string{hx.I(int64(s.dc)), hx.I(int64(s.rack)), hx.I(int64(s.id))})
	}
	for _, s := range t.servers {
		for _, d := range s.disks {
			exec("disk", []string{hx.I(int64(s.id)), d.dt, hx.I(int64(d.max))})
			for _, v := range d.vols {
				exec("vol", []string{hx.I(int64(s.id)), d.dt, hx.U(uint64(v.vid)), hx.U(v.size), hx.U(uint64(v.rp)), hx.B(v.ro), hx.I(int64(v.coll)), hx.I(v.mtime)})
			}
		}
	}
}

// genTwin: a plan that moves BOTH replicas of one volume (the second move must be judged against the
// place the first replica was moved to): k volumes with two replicas on servers A and B (different racks
// resp. data centers), two empty servers C and D that share the rack / data center the replicas must not
// share. The planner may move v: A => C, after which v: B => D has to be refused.
func genTwin(r *hx.Rng) {
	exec("reset", nil)
	byDc := r.Chance(1, 3)
	rp := 10
	locs := [][2]int{{1, 1}, {1, 2}, {1, 3}, {1, 3}}
	if byDc {
		rp = 100
		locs = [][2]int{{1, 1}, {2, 1}, {3, 1}, {3, 1 + r.Intn(2)}}
	}
	max := 6 + r.Intn(5)
	for i, l := range locs {
		exec("dn", []string{hx.I(int64(l[0])), hx.I(int64(l[1])), hx.I(int64(i + 1))})
	}
	for i := range locs {
		exec("disk", []string{hx.I(int64(i + 1)), "hdd", hx.I(int64(max))})
	}
	k := 2 + r.Intn(5)
	if k > max {
		k = max
	}
	ro := r.Chance(1, 4)
	for v := 1; v <= k; v++ {
		size := uint64(10*v + r.Intn(9))
		for _, id := range []int{1, 2} {
			exec("vol", []string{hx.I(int64(id)), "hdd", hx.I(int64(v)), hx.U(size), hx.I(int64(rp)), hx.B(ro), "0", hx.I(int64(1000 + 10*v + id))})
		}
	}
	// sometimes a single-copy filler on C so that C and D are not tied
	if r.Bool() {
		exec("vol", []string{"3", "hdd", hx.I(int64(k + 1)), "500", "0", hx.B(ro), "0", "2000"})
	}
	exec("balance", []string{"hdd", "ALL", "-", "1000"})
}

func genLoc(r *hx.Rng) string {
	dc := 1 + r.Intn(3)
	rk := 1 + r.Intn(3)
	return fmt.Sprintf("%d/%d/%d", dc, rk, dc*100+rk*10+r.Intn(3))
}

func genPreds(r *hx.Rng, n int) {
	for i := 0; i < n; i++ {
		rp := rpSet[r.Intn(len(rpSet))]
		k := r.Intn(6)
		var reps []string
		for j := 0; j < k; j++ {
			reps = append(reps, genLoc(r))
		}
		if r.Bool() {
			src := genLoc(r)
			if len(reps) > 0 && r.Chance(4, 5) {
				src = reps[r.Intn(len(reps))]
			}
			exec("good", append([]string{hx.I(int64(rp)), src, genLoc(r)}, reps...))
		} else {
			exec("sat", append([]string{hx.I(int64(rp)), genLoc(r)}, reps...))
		}
	}
}

func main() {
	a := hx.ParseArgs()
	tr = hx.NewTrace(a.Out)
	defer tr.Close()
	for x := 0; x < 3; x++ {
		for y := 0; y < 3; y++ {
			for z := 0; z < 3; z++ {
				rpSet = append(rpSet, x*100+y*10+z)
			}
		}
	}
	if a.Ops != "" {
		for _, ln := range hx.ReadOps(a.Ops) {
			exec(ln[0], ln[1:])
		}
		return
	}
	r := hx.NewRng(a.Seed)
	genPreds(r, a.N(3000))
	cases := a.N(400)
	for i := 0; i < cases; i++ {
		mode := r.Intn(3)
		genTopo(r, mode)
		for _, dt := range []string{"hdd", "ssd"} {
			coll := "ALL"
			if r.Chance(1, 3) {
				coll = hx.I(int64(r.Intn(3)))
			}
			dc := "-"
			if r.Chance(1, 6) {
				dc = hx.I(int64(1 + r.Intn(3)))
			}
			exec("balance", []string{dt, coll, dc, "1000"})
		}
		for k := 0; k < 2 && len(cur.servers) > 0; k++ {
			exec("evac", []string{hx.I(int64(cur.servers[r.Intn(len(cur.servers))].id))})
		}
		exec("fix", nil)
	}
	// after the random topologies (their random stream is unchanged): plans moving both replicas of a volume
	for i := 0; i < a.N(12); i++ {
		genTwin(r)
	}
}
