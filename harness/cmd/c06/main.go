// c06: correspondence harness for C06 (erasure coding reconstructs and serves the exact
// original volume). Runs the REAL encoder (generateEcFiles through hook H1, scaled-down
// block sizes), the REAL locator (LocateData / ToShardIdAndOffset fed 10*shardSize exactly as
// LocateEcShardNeedle does) reading the REAL shard files through EcVolumeShard.ReadAt, the
// REAL rebuilder (generateMissingEcFiles through H1) and the REAL decoder WriteDatFile (only
// available at the production constants 1GiB/1MiB, observed at byte-position level).
//
// Trace lines:
//   config k m => <hex of the m*k parity matrix recovered from the reedsolomon library>
//   reset L S buf <hexD> => ok <shardLen> <hex shard0> ... <hex shard13>      (new case; the shards stay on disk)
//   rd off size => ok|err <hex bytes> <interval>...    interval = blockIndex:inner:size:isLarge:largeRows:shardId:shardOffset
//   rebuild <lostmask> => ok|err <hex regenerated shard>...                      (lost shards ascending)
//   decseg n => ok|err <seg>...     seg = shard:offset:len  (where WriteDatFile took each output run from)
//   decrt n dseed => ok|err <eq>       real WriteEcFiles + WriteDatFile round trip at the production constants
//   resetbig n => ok <shardLen>      production constants, |D| = n, D[j] = pat(j) (sparse-free synthetic file)
//   rdbig off size => ok|err <eq> <interval>...
//   decbig => ok|err <eq>
//   resetmid L S buf n dseed => ok <shardLen>     |D| = n above 10 MiB, D[j] = pat(j + dseed*7919): shards LARGER than the rebuilder's 1 MiB chunk;
//                                                 the 14 original shards are kept by the harness
//   rebuildmid <lostmask> => ok|err <len>:<eqbits> ...   per lost shard (ascending): length of the regenerated file and, for every
//                                                 rebuild chunk (ErasureCodingSmallBlockSize bytes) of the ORIGINAL shard, 1 = that
//                                                 whole chunk of the regenerated file is byte-identical to the original, 0 = not
package main

import (
	"bytes"
	"flag"
	"fmt"
	"io"
	"os"
	"path/filepath"
	"runtime/debug"
	"runtime/pprof"
	"strconv"
	"strings"
	"sync"
	"syscall"

	"github.com/klauspost/reedsolomon"

	ec "github.com/chrislusf/seaweedfs/weed/storage/erasure_coding"
	"github.com/chrislusf/seaweedfs/weed/storage/needle"
	"github.com/chrislusf/seaweedfs/weed/storage/types"

	"verifharness/hx"
)

type line struct {
	op   string
	args []string
	outs []string
}

// ---------------------------------------------------------------- one scaled-down case on disk

type ecCase struct {
	dir    string
	base   string
	L, S   int64
	buf    int
	D      []byte
	shards [][]byte // as produced by the real encoder
	ok     bool
	open   []*ec.EcVolumeShard
}

func (c *ecCase) close() {
	closeShards(c.open)
	c.open = nil
	if c.dir != "" {
		os.RemoveAll(c.dir)
	}
}

func shardPath(base string, i int) string { return base + ec.ToExt(i) }

func newCase(L, S int64, buf int, D []byte) (*ecCase, []string) {
	dir, err := os.MkdirTemp("", "c06")
	if err != nil {
		panic(err)
	}
	c := &ecCase{dir: dir, base: filepath.Join(dir, "1"), L: L, S: S, buf: buf, D: D}
	if err := os.WriteFile(c.base+".dat", D, 0644); err != nil {
		panic(err)
	}
	outs := hx.Guard(func() []string {
		if err := ec.VerifGenerateEcFiles(c.base, buf, L, S); err != nil {
			return []string{"err"}
		}
		o := []string{"ok", ""}
		for i := 0; i < ec.TotalShardsCount; i++ {
			b, err := os.ReadFile(shardPath(c.base, i))
			if err != nil {
				return []string{"err"}
			}
			c.shards = append(c.shards, b)
			o = append(o, hx.Hex(b))
		}
		o[1] = hx.I(int64(len(c.shards[0])))
		c.ok = true
		return o
	})
	return c, outs
}

func fmtInterval(iv ec.Interval, L, S int64) string {
	sid, soff := iv.ToShardIdAndOffset(L, S)
	return fmt.Sprintf("%d:%d:%d:%s:%d:%d:%d", iv.BlockIndex, iv.InnerBlockOffset, iv.Size, hx.B(iv.IsLargeBlock), iv.LargeBlockRowsCount, sid, soff)
}

// the EC read path: LocateEcShardNeedle's LocateData call (dat size derived from the first shard's
// size) followed by readEcShardIntervals/readOneEcShardInterval over local shards.
func openShards(dir string) (shards []*ec.EcVolumeShard, err error) {
	for i := 0; i < ec.TotalShardsCount; i++ {
		s, e := ec.NewEcVolumeShard(types.HardDriveType, dir, "", needle.VolumeId(1), ec.ShardId(i))
		if e != nil {
			closeShards(shards)
			return nil, e
		}
		shards = append(shards, s)
	}
	return shards, nil
}

func closeShards(shards []*ec.EcVolumeShard) {
	for _, s := range shards {
		s.Close()
	}
}

func readPath(shards []*ec.EcVolumeShard, L, S int64, off int64, size int64) (data []byte, ivs []string, err error) {
	datSize := ec.DataShardsCount * shards[0].Size() // ec_volume.go: DataShardsCount*shard.ecdFileSize (T1 fact locCallDatSize)
	intervals := ec.LocateData(L, S, datSize, off, types.Size(size))
	for _, iv := range intervals {
		ivs = append(ivs, fmtInterval(iv, L, S))
	}
	for i, iv := range intervals {
		sid, soff := iv.ToShardIdAndOffset(L, S)
		d := make([]byte, iv.Size)
		if int(sid) >= len(shards) {
			return nil, ivs, fmt.Errorf("no shard %d", sid)
		}
		if _, e := shards[sid].ReadAt(d, soff); e != nil {
			return nil, ivs, e
		}
		if i == 0 {
			data = d
		} else {
			data = append(data, d...)
		}
	}
	return data, ivs, nil
}

func (c *ecCase) rd(off, size int64) []string {
	return hx.Guard(func() []string {
		if c.open == nil {
			sh, err := openShards(c.dir)
			if err != nil {
				return []string{"err", "-"}
			}
			c.open = sh
		}
		data, ivs, err := readPath(c.open, c.L, c.S, off, size)
		if err != nil {
			return append([]string{"err", "-"}, ivs...)
		}
		return append([]string{"ok", hx.Hex(data)}, ivs...)
	})
}

func (c *ecCase) rebuild(mask uint32) []string {
	closeShards(c.open)
	c.open = nil
	outs := hx.Guard(func() []string {
		for i := 0; i < ec.TotalShardsCount; i++ {
			if mask&(1<<uint(i)) != 0 {
				os.Remove(shardPath(c.base, i))
			}
		}
		_, err := ec.VerifGenerateMissingEcFiles(c.base, c.buf, c.L, c.S)
		if err != nil {
			return []string{"err"}
		}
		o := []string{"ok"}
		for i := 0; i < ec.TotalShardsCount; i++ {
			if mask&(1<<uint(i)) != 0 {
				b, e := os.ReadFile(shardPath(c.base, i))
				if e != nil {
					return []string{"err"}
				}
				o = append(o, hx.Hex(b))
			}
		}
		return o
	})
	// restore the case
	for i := 0; i < ec.TotalShardsCount; i++ {
		os.WriteFile(shardPath(c.base, i), c.shards[i], 0644)
	}
	return outs
}

// ---------------------------------------------------------------- parity matrix of the library

func parityMatrix() []byte {
	enc, err := reedsolomon.New(ec.DataShardsCount, ec.ParityShardsCount)
	if err != nil {
		panic(err)
	}
	m := make([]byte, ec.ParityShardsCount*ec.DataShardsCount)
	for i := 0; i < ec.DataShardsCount; i++ {
		bufs := make([][]byte, ec.TotalShardsCount)
		for j := range bufs {
			bufs[j] = make([]byte, 1)
		}
		bufs[i][0] = 1
		if err := enc.Encode(bufs); err != nil {
			panic(err)
		}
		for j := 0; j < ec.ParityShardsCount; j++ {
			m[j*ec.DataShardsCount+i] = bufs[ec.DataShardsCount+j][0]
		}
	}
	return m
}

// ---------------------------------------------------------------- decoder at the production constants

// decSeg: WriteDatFile has no block-size parameters, so it runs at 1GiB/1MiB. The shard files are
// hand-made: in run d every byte of shard s at offset o holds digit d of the code (o, s); four runs
// reveal for every output byte which shard position it was copied from.
func decSeg(n int64) []string {
	return hx.Guard(func() []string {
		dir, err := os.MkdirTemp("", "c06d")
		if err != nil {
			panic(err)
		}
		defer os.RemoveAll(dir)
		base := filepath.Join(dir, "1")
		small := int64(ec.ErasureCodingSmallBlockSize)
		rows := (n + small*ec.DataShardsCount - 1) / (small * ec.DataShardsCount)
		shardLen := rows*small + small // one spare block so that a wrong cursor is seen as a wrong position, not as EOF
		if shardLen >= 1<<24 {
			return []string{"toobig"}
		}
		buf := make([]byte, shardLen)
		for d := 0; d < 4; d++ {
			for s := 0; s < ec.DataShardsCount; s++ {
				for o := int64(0); o < shardLen; o++ {
					switch d {
					case 0:
						buf[o] = byte(o)
					case 1:
						buf[o] = byte(o >> 8)
					case 2:
						buf[o] = byte(o >> 16)
					case 3:
						buf[o] = byte(s + 1)
					}
				}
				if err := os.WriteFile(shardPath(base, s), buf, 0644); err != nil {
					panic(err)
				}
			}
			if err := ec.WriteDatFile(base, n); err != nil {
				return []string{"err"}
			}
			fi, err := os.Stat(base + ".dat")
			if err != nil {
				return []string{"err"}
			}
			if fi.Size() != n {
				return []string{"len", hx.I(fi.Size())}
			}
			os.Rename(base+".dat", base+".d"+strconv.Itoa(d))
		}
		var fs [4]*os.File
		for d := range fs {
			f, err := os.Open(base + ".d" + strconv.Itoa(d))
			if err != nil {
				return []string{"err"}
			}
			defer f.Close()
			fs[d] = f
		}
		o := []string{"ok"}
		var ch [4][]byte
		for d := range ch {
			ch[d] = make([]byte, 1<<20)
		}
		curS, curO, curLen := int64(-1), int64(0), int64(0)
		flush := func() {
			if curLen > 0 {
				o = append(o, fmt.Sprintf("%d:%d:%d", curS, curO, curLen))
			}
		}
		for pos := int64(0); pos < n; {
			m := int64(1 << 20)
			if n-pos < m {
				m = n - pos
			}
			for d := range fs {
				if _, err := io.ReadFull(fs[d], ch[d][:m]); err != nil {
					return []string{"err"}
				}
			}
			for j := int64(0); j < m; j++ {
				sh := int64(ch[3][j]) - 1
				of := int64(ch[0][j]) | int64(ch[1][j])<<8 | int64(ch[2][j])<<16
				if curLen > 0 && sh == curS && of == curO+curLen {
					curLen++
				} else {
					flush()
					curS, curO, curLen = sh, of, 1
				}
			}
			pos += m
		}
		flush()
		return o
	})
}

// decRT: real WriteEcFiles then real WriteDatFile(.., |D|) at the production constants.
func decRT(n int64, dseed uint64) []string {
	return hx.Guard(func() []string {
		dir, err := os.MkdirTemp("", "c06r")
		if err != nil {
			panic(err)
		}
		defer os.RemoveAll(dir)
		base := filepath.Join(dir, "1")
		D := hx.NewRng(dseed).Bytes(int(n))
		if err := os.WriteFile(base+".dat", D, 0644); err != nil {
			panic(err)
		}
		if err := ec.WriteEcFiles(base); err != nil {
			return []string{"err"}
		}
		os.Remove(base + ".dat")
		if err := ec.WriteDatFile(base, n); err != nil {
			return []string{"err"}
		}
		out, err := os.ReadFile(base + ".dat")
		if err != nil {
			return []string{"err"}
		}
		return []string{"ok", hx.B(bytes.Equal(out, D))}
	})
}

// ---------------------------------------------------------------- one real-size case (production constants)

func pat(j int64) byte {
	x := uint64(j)*0x9E3779B97F4A7C15 + 0x632BE59BD9B4E019
	x ^= x >> 29
	x *= 0xBF58476D1CE4E5B9
	x ^= x >> 32
	return byte(x)
}

type bigCase struct {
	dir, base string
	n         int64
}

func (b *bigCase) close() {
	if b.dir != "" {
		os.RemoveAll(b.dir)
	}
}

func fillPat(p []byte, start int64) {
	for i := range p {
		p[i] = pat(start + int64(i))
	}
}

func newBig(n int64) (*bigCase, []string) {
	dir, err := os.MkdirTemp("", "c06b")
	if err != nil {
		panic(err)
	}
	b := &bigCase{dir: dir, base: filepath.Join(dir, "1"), n: n}
	outs := hx.Guard(func() []string {
		var st syscall.Statfs_t
		if syscall.Statfs(dir, &st) == nil {
			free := int64(st.Bavail) * int64(st.Bsize)
			if free < 4*n+(8<<30) {
				return []string{"skip"}
			}
		}
		f, err := os.Create(b.base + ".dat")
		if err != nil {
			panic(err)
		}
		chunk := make([]byte, 8<<20)
		// parallel fill, sequential write
		for off := int64(0); off < n; off += int64(len(chunk)) {
			m := int64(len(chunk))
			if n-off < m {
				m = n - off
			}
			var wg sync.WaitGroup
			const parts = 16
			for p := int64(0); p < parts; p++ {
				lo, hi := m*p/parts, m*(p+1)/parts
				wg.Add(1)
				go func(lo, hi int64) { defer wg.Done(); fillPat(chunk[lo:hi], off+lo) }(lo, hi)
			}
			wg.Wait()
			if _, err := f.Write(chunk[:m]); err != nil {
				f.Close()
				return []string{"err"}
			}
		}
		f.Close()
		if err := ec.WriteEcFiles(b.base); err != nil {
			return []string{"err"}
		}
		os.Remove(b.base + ".dat")
		fi, err := os.Stat(shardPath(b.base, 0))
		if err != nil {
			return []string{"err"}
		}
		return []string{"ok", hx.I(fi.Size())}
	})
	return b, outs
}

func (b *bigCase) rd(off, size int64) []string {
	return hx.Guard(func() []string {
		L, S := int64(ec.ErasureCodingLargeBlockSize), int64(ec.ErasureCodingSmallBlockSize)
		sh, err := openShards(b.dir)
		if err != nil {
			return []string{"err", "0"}
		}
		defer closeShards(sh)
		data, ivs, err := readPath(sh, L, S, off, size)
		if err != nil {
			return append([]string{"err", "0"}, ivs...)
		}
		want := make([]byte, size)
		fillPat(want, off)
		return append([]string{"ok", hx.B(bytes.Equal(want, data))}, ivs...)
	})
}

func (b *bigCase) dec() []string {
	return hx.Guard(func() []string {
		if err := ec.WriteDatFile(b.base, b.n); err != nil {
			return []string{"err", "0"}
		}
		defer os.Remove(b.base + ".dat")
		f, err := os.Open(b.base + ".dat")
		if err != nil {
			return []string{"err", "0"}
		}
		defer f.Close()
		chunk := make([]byte, 8<<20)
		want := make([]byte, 8<<20)
		eq := true
		var total int64
		for {
			m, err := io.ReadFull(f, chunk)
			if m > 0 {
				var wg sync.WaitGroup
				const parts = 16
				for p := 0; p < parts; p++ {
					lo, hi := m*p/parts, m*(p+1)/parts
					wg.Add(1)
					go func(lo, hi int) { defer wg.Done(); fillPat(want[lo:hi], total+int64(lo)) }(lo, hi)
				}
				wg.Wait()
				if !bytes.Equal(chunk[:m], want[:m]) {
					eq = false
				}
				total += int64(m)
			}
			if err != nil {
				break
			}
		}
		if total != b.n {
			eq = false
		}
		return []string{"ok", hx.B(eq)}
	})
}

// ---------------------------------------------------------------- multi-chunk rebuild (shards above the rebuilder's buffer)

type midCase struct {
	dir, base string
	L, S      int64
	buf       int
	shards    [][]byte // the originals, as written by the real encoder
	ok        bool
}

func (m *midCase) close() {
	if m.dir != "" {
		os.RemoveAll(m.dir)
	}
}

func newMid(L, S int64, buf int, n int64, dseed uint64) (*midCase, []string) {
	dir, err := os.MkdirTemp("", "c06m")
	if err != nil {
		panic(err)
	}
	m := &midCase{dir: dir, base: filepath.Join(dir, "1"), L: L, S: S, buf: buf}
	outs := hx.Guard(func() []string {
		if n > 1<<28 || n < 0 {
			return []string{"toobig"}
		}
		D := make([]byte, n)
		var wg sync.WaitGroup
		const parts = 8
		for p := int64(0); p < parts; p++ {
			lo, hi := n*p/parts, n*(p+1)/parts
			wg.Add(1)
			go func(lo, hi int64) { defer wg.Done(); fillPat(D[lo:hi], lo+int64(dseed%1000003)*7919) }(lo, hi)
		}
		wg.Wait()
		if err := os.WriteFile(m.base+".dat", D, 0644); err != nil {
			panic(err)
		}
		if err := ec.VerifGenerateEcFiles(m.base, buf, L, S); err != nil {
			return []string{"err"}
		}
		os.Remove(m.base + ".dat")
		for i := 0; i < ec.TotalShardsCount; i++ {
			b, err := os.ReadFile(shardPath(m.base, i))
			if err != nil {
				return []string{"err"}
			}
			m.shards = append(m.shards, b)
		}
		m.ok = true
		return []string{"ok", hx.I(int64(len(m.shards[0])))}
	})
	return m, outs
}

// chunkEq: one flag per rebuild chunk of the original: is that whole chunk of `got` identical?
func chunkEq(orig, got []byte) string {
	C := int(ec.ErasureCodingSmallBlockSize)
	var sb strings.Builder
	for lo := 0; lo < len(orig); lo += C {
		hi := lo + C
		if hi > len(orig) {
			hi = len(orig)
		}
		if hi <= len(got) && bytes.Equal(orig[lo:hi], got[lo:hi]) {
			sb.WriteByte('1')
		} else {
			sb.WriteByte('0')
		}
	}
	if sb.Len() == 0 {
		return "-"
	}
	return sb.String()
}

func (m *midCase) rebuild(mask uint32) []string {
	outs := hx.Guard(func() []string {
		for i := 0; i < ec.TotalShardsCount; i++ {
			if mask&(1<<uint(i)) != 0 {
				os.Remove(shardPath(m.base, i))
			}
		}
		if _, err := ec.VerifGenerateMissingEcFiles(m.base, m.buf, m.L, m.S); err != nil {
			return []string{"err"}
		}
		o := []string{"ok"}
		for i := 0; i < ec.TotalShardsCount; i++ {
			if mask&(1<<uint(i)) != 0 {
				b, e := os.ReadFile(shardPath(m.base, i))
				if e != nil {
					return []string{"err"}
				}
				o = append(o, fmt.Sprintf("%d:%s", len(b), chunkEq(m.shards[i], b)))
			}
		}
		return o
	})
	for i := 0; i < ec.TotalShardsCount; i++ { // restore the case
		if mask&(1<<uint(i)) != 0 {
			os.WriteFile(shardPath(m.base, i), m.shards[i], 0644)
		}
	}
	return outs
}

func midLines(L, S int64, buf int, n int64, dseed uint64, masks []uint32) []line {
	m, outs := newMid(L, S, buf, n, dseed)
	defer m.close()
	ls := []line{{"resetmid", []string{hx.I(L), hx.I(S), hx.I(int64(buf)), hx.I(n), hx.U(dseed)}, outs}}
	if !m.ok {
		return ls
	}
	for _, mk := range masks {
		ls = append(ls, line{"rebuildmid", []string{hx.U(uint64(mk))}, m.rebuild(mk)})
	}
	return ls
}

// ---------------------------------------------------------------- generation

type cfg struct {
	L, S int64
	buf  int
}

var cfgs = []cfg{{50, 10, 10}, {100, 10, 5}, {64, 8, 8}}

func popcount(m uint32) int {
	c := 0
	for x := m; x != 0; x &= x - 1 {
		c++
	}
	return c
}

func allMasksUpTo(maxLost int) []uint32 {
	var out []uint32
	for m := uint32(1); m < 1<<ec.TotalShardsCount; m++ {
		c := popcount(m)
		if c <= maxLost {
			out = append(out, m)
		}
	}
	return out
}

func genCase(r *hx.Rng, c cfg, n int64, nReads int, fullReads bool, masks []uint32) []line {
	D := r.Bytes(int(n))
	var lines []line
	cs, outs := newCase(c.L, c.S, c.buf, D)
	defer cs.close()
	lines = append(lines, line{"reset", []string{hx.I(c.L), hx.I(c.S), hx.I(int64(c.buf)), hx.Hex(D)}, outs})
	if !cs.ok {
		return lines
	}
	rd := func(off, size int64) {
		if off < 0 || size < 0 || off+size > n {
			return
		}
		lines = append(lines, line{"rd", []string{hx.I(off), hx.I(size)}, cs.rd(off, size)})
	}
	if fullReads {
		sizes := []int64{8, 16, c.S - 8, c.S, c.S + 8, c.L, c.L + 8, 10 * c.S, 10*c.S + 8, 10*c.L + 8}
		for off := int64(0); off < n; off += 8 {
			for _, sz := range sizes {
				rd(off, sz)
			}
			rd(off, n-off)
		}
	}
	if n > 0 {
		rd(0, min64(n, 8))
		rd(0, n)
		rd((n-1)/8*8, n-(n-1)/8*8)
		for i := 0; i < nReads; i++ {
			off := int64(r.Intn(int(n)))
			if r.Chance(3, 4) {
				off = off / 8 * 8
			}
			max := n - off
			var size int64
			switch r.Intn(4) {
			case 0:
				size = 1 + int64(r.Intn(int(min64(max, 2*c.S))))
			case 1:
				size = 1 + int64(r.Intn(int(min64(max, 2*c.L))))
			default:
				size = 1 + int64(r.Intn(int(max)))
			}
			rd(off, size)
		}
	} else {
		rd(0, 0)
	}
	for _, m := range masks {
		lines = append(lines, line{"rebuild", []string{hx.U(uint64(m))}, cs.rebuild(m)})
	}
	return lines
}

func min64(a, b int64) int64 {
	if a < b {
		return a
	}
	return b
}

// interesting sizes: around every multiple of 10*S and 10*L (the row boundaries)
func nearBoundary(c cfg, n int64) bool {
	for _, unit := range []int64{10 * c.S, 10 * c.L} {
		m := n % unit
		if m <= 2 || unit-m <= 2 {
			return true
		}
	}
	m := n % (10 * c.L)
	lo := 10*c.L - 20*c.S
	return m >= lo-1 && m <= lo+1 || m >= 10*c.L-10*c.S-1 && m <= 10*c.L-10*c.S+1
}

func main() {
	a := hx.ParseArgs()
	debug.SetGCPercent(50) // the rebuilder allocates 14 x 1MiB per call; a small heap re-uses resident pages
	flag.Set("alsologtostderr", "false") // glog: the encoder logs every call; keep it in the (scratch) log file
	tr := hx.NewTrace(a.Out)
	defer tr.Close()
	emit := func(ls []line) {
		for _, l := range ls {
			tr.Op(l.op, l.args, l.outs)
		}
	}
	tr.Op("config", []string{hx.I(ec.DataShardsCount), hx.I(ec.ParityShardsCount)}, []string{hx.Hex(parityMatrix())})

	if pf := os.Getenv("C06_PROF"); pf != "" {
		f, _ := os.Create(pf)
		pprof.StartCPUProfile(f)
		defer pprof.StopCPUProfile()
	}
	if a.Ops != "" {
		replay(hx.ReadOps(a.Ops), emit)
		return
	}

	r := hx.NewRng(a.Seed)
	type job struct {
		seed   uint64
		c      cfg
		n      int64
		nReads int
		full   bool
		masks  []uint32
		out    []line
	}
	var jobs []*job
	all4 := allMasksUpTo(4)
	for ci, c := range cfgs {
		maxN := 25 * c.L
		// sizes carrying subsets of lost shards: thorough = every subset of <=4 for one size of one
		// configuration per seed (three seeds cover the three configurations) and every subset of <=2
		// at two more sizes; quick = every single shard and a seed-dependent 1/32 of the others
		mine := int(a.Seed%3) == ci
		maskAt := map[int64]int{} // size -> max subset size enumerated fully
		if mine {
			maskAt[10*c.L+1+int64(r.Intn(int(10*c.L)))] = 4
		}
		if a.Thorough() {
			maskAt[10*c.L] = 2
			maskAt[int64(r.Intn(int(maxN)+1))] = 2
		}
		fullAt := map[int64]bool{}
		nFull := 0
		if a.Thorough() {
			nFull = 6
		} else if mine {
			nFull = 2
		}
		for i := 0; i < nFull; i++ {
			switch i {
			case 0:
				fullAt[10*c.L+1+int64(r.Intn(int(10*c.L-20*c.S)))] = true // large rows, row count determined
			case 1:
				fullAt[20*c.L-int64(r.Intn(int(20*c.S)))] = true // inside the ambiguous region
			case 2:
				fullAt[10*c.L] = true
			case 3:
				fullAt[10*c.L+1] = true
			default:
				fullAt[int64(r.Intn(int(maxN)+1))] = true
			}
		}
		stride := int64(5)
		if a.Thorough() {
			stride = 1
		}
		for n := int64(0); n <= maxN; n++ {
			_, hasMask := maskAt[n]
			if !(n%stride == int64(a.Seed)%stride || nearBoundary(c, n) || hasMask || fullAt[n]) {
				continue
			}
			j := &job{seed: r.U64(), c: c, n: n, nReads: 4, full: fullAt[n]}
			if a.Thorough() {
				j.nReads = 10
			}
			if hasMask {
				var ms []uint32
				for _, m := range all4 {
					pc := popcount(m)
					if pc <= maskAt[n] && (a.Thorough() || pc <= 1 || (uint64(m)*2654435761+a.Seed)%32 == 0) {
						ms = append(ms, m)
					}
				}
				ms = append(ms, 0x1f, 0x3e00, 0x3fff, 0x0555) // 5, 5, 14 and 7 lost: too few shards
				// the same case repeated with a slice of the subsets each (cases run in parallel)
				for lo := 0; lo < len(ms); lo += 16 {
					hi := lo + 16
					if hi > len(ms) {
						hi = len(ms)
					}
					jobs = append(jobs, &job{seed: j.seed, c: c, n: n, nReads: 1, masks: ms[lo:hi]})
				}
			} else if r.Chance(1, 40) {
				// a random subset of <=4 lost shards
				var m uint32
				for k := 1 + r.Intn(4); k > 0; k-- {
					m |= 1 << uint(r.Intn(ec.TotalShardsCount))
				}
				j.masks = []uint32{m}
			}
			jobs = append(jobs, j)
		}
	}
	// run the cases in parallel (each has its own directory), emit in order
	var wg sync.WaitGroup
	sem := make(chan struct{}, 14)
	for _, j := range jobs {
		wg.Add(1)
		sem <- struct{}{}
		go func(j *job) {
			defer wg.Done()
			defer func() { <-sem }()
			j.out = genCase(hx.NewRng(j.seed), j.c, j.n, j.nReads, j.full, j.masks)
		}(j)
	}
	wg.Wait()
	for _, j := range jobs {
		emit(j.out)
	}

	// decoder at the production constants (small-row regime)
	S := int64(ec.ErasureCodingSmallBlockSize)
	decSizes := []int64{0, 1, S + 1, 10 * S, 10*S + 1, 21*S + 3}
	if a.Thorough() {
		decSizes = append(decSizes, 7, S - 1, S, 5*S, 9*S+S/2, 10*S-1, 11*S-1, 12*S+5, 19*S+7, 20*S, 20*S+1, 25*S+3, 30*S)
	}
	decSizes = append(decSizes, int64(r.Intn(int(22*S))))
	var djobs [][]line
	djobs = make([][]line, 2*len(decSizes))
	for i, n := range decSizes {
		wg.Add(2)
		i, n := i, n
		ds := r.U64() % 1000000
		sem <- struct{}{}
		go func() {
			defer wg.Done()
			defer func() { <-sem }()
			djobs[2*i] = []line{{"decseg", []string{hx.I(n)}, decSeg(n)}}
		}()
		sem <- struct{}{}
		go func() {
			defer wg.Done()
			defer func() { <-sem }()
			djobs[2*i+1] = []line{{"decrt", []string{hx.I(n), hx.U(ds)}, decRT(n, ds)}}
		}()
	}
	wg.Wait()
	for _, l := range djobs {
		emit(l)
	}

	// shards larger than the rebuilder's chunk (ErasureCodingSmallBlockSize): a .dat above 10 MiB, small blocks
	// of the production size so that the shard length stays a multiple of the chunk as in production;
	// once at the production constants (small rows only) and with a scaled-down large block (large + small rows)
	{
		MiB := int64(1 << 20)
		Sp := int64(ec.ErasureCodingSmallBlockSize)
		type mj struct {
			L, S  int64
			buf   int
			n     int64
			ds    uint64
			masks []uint32
			out   []line
		}
		rmask := func(maxLost int) uint32 {
			var m uint32
			for k := 1 + r.Intn(maxLost); k > 0; k-- {
				m |= 1 << uint(r.Intn(ec.TotalShardsCount))
			}
			return m
		}
		mjs := []*mj{
			{L: int64(ec.ErasureCodingLargeBlockSize), S: Sp, buf: 256 * 1024, n: 10*MiB + 1 + int64(r.Intn(int(9*MiB))), ds: r.U64() % 1000000,
				masks: []uint32{1 << uint(r.Intn(ec.DataShardsCount)), 1 << uint(ec.DataShardsCount+r.Intn(ec.ParityShardsCount)), rmask(4)}},
		}
		if a.Thorough() || a.Budget > 1 {
			mjs = append(mjs,
				&mj{L: 2 * Sp, S: Sp, buf: 256 * 1024, n: 20*MiB + 1 + int64(r.Intn(int(15*MiB))), ds: r.U64() % 1000000,
					masks: []uint32{rmask(1), rmask(2), rmask(3), rmask(4), 0xf, 0x3c00, 0x1f}},
				&mj{L: int64(ec.ErasureCodingLargeBlockSize), S: Sp, buf: 1 << 20, n: 30*MiB + int64(r.Intn(3)) - 1, ds: r.U64() % 1000000,
					masks: []uint32{rmask(2), rmask(4), rmask(4)}})
		}
		for _, j := range mjs {
			wg.Add(1)
			sem <- struct{}{}
			go func(j *mj) {
				defer wg.Done()
				defer func() { <-sem }()
				j.out = midLines(j.L, j.S, j.buf, j.n, j.ds, j.masks)
			}(j)
		}
		wg.Wait()
		for _, j := range mjs {
			emit(j.out)
		}
	}

	// one real-size case exactly on a large-row boundary (thorough tier, disk permitting)
	if a.Thorough() && a.Seed%3 == 1 && os.Getenv("C06_NOBIG") == "" {
		emit(bigLines(10*int64(ec.ErasureCodingLargeBlockSize), [][2]int64{{0, 64}, {8, 4096}, {int64(ec.ErasureCodingLargeBlockSize) - 8, 64}, {5 << 30, 1 << 20}, {10*int64(ec.ErasureCodingLargeBlockSize) - 64, 64}}, true))
	}
}

func bigLines(n int64, reads [][2]int64, dec bool) []line {
	var ls []line
	b, outs := newBig(n)
	defer b.close()
	ls = append(ls, line{"resetbig", []string{hx.I(n)}, outs})
	if outs[0] != "ok" {
		return ls
	}
	for _, rd := range reads {
		ls = append(ls, line{"rdbig", []string{hx.I(rd[0]), hx.I(rd[1])}, b.rd(rd[0], rd[1])})
	}
	if dec {
		ls = append(ls, line{"decbig", nil, b.dec()})
	}
	return ls
}

func atoi(s string) int64 {
	v, _ := strconv.ParseInt(s, 10, 64)
	return v
}

func replay(ops [][]string, emit func([]line)) {
	var cur *ecCase
	var big *bigCase
	var mid *midCase
	defer func() {
		if mid != nil {
			mid.close()
		}
		if cur != nil {
			cur.close()
		}
		if big != nil {
			big.close()
		}
	}()
	arg := func(o []string, i int) string {
		if i < len(o) {
			return o[i]
		}
		return "0"
	}
	for _, o := range ops {
		switch o[0] {
		case "config":
		case "reset":
			if cur != nil {
				cur.close()
			}
			var outs []string
			d := arg(o, 4)
			if d == "0" {
				d = "-"
			}
			cur, outs = newCase(atoi(arg(o, 1)), atoi(arg(o, 2)), int(atoi(arg(o, 3))), hx.UnHex(strings.ToLower(d)))
			emit([]line{{"reset", o[1:], outs}})
		case "rd":
			if cur != nil && cur.ok {
				emit([]line{{"rd", o[1:], cur.rd(atoi(arg(o, 1)), atoi(arg(o, 2)))}})
			}
		case "rebuild":
			if cur != nil && cur.ok {
				emit([]line{{"rebuild", o[1:], cur.rebuild(uint32(atoi(arg(o, 1))))}})
			}
		case "decseg":
			emit([]line{{"decseg", o[1:], decSeg(atoi(arg(o, 1)))}})
		case "decrt":
			emit([]line{{"decrt", o[1:], decRT(atoi(arg(o, 1)), uint64(atoi(arg(o, 2))))}})
		case "resetbig":
			if big != nil {
				big.close()
			}
			var outs []string
			big, outs = newBig(atoi(arg(o, 1)))
			emit([]line{{"resetbig", o[1:], outs}})
			if outs[0] != "ok" {
				big.close()
				big = nil
			}
		case "resetmid":
			if mid != nil {
				mid.close()
			}
			var outs []string
			mid, outs = newMid(atoi(arg(o, 1)), atoi(arg(o, 2)), int(atoi(arg(o, 3))), atoi(arg(o, 4)), uint64(atoi(arg(o, 5))))
			emit([]line{{"resetmid", o[1:], outs}})
		case "rebuildmid":
			if mid != nil && mid.ok {
				emit([]line{{"rebuildmid", o[1:], mid.rebuild(uint32(atoi(arg(o, 1))))}})
			}
		case "rdbig":
			if big != nil {
				emit([]line{{"rdbig", o[1:], big.rd(atoi(arg(o, 1)), atoi(arg(o, 2)))}})
			}
		case "decbig":
			if big != nil {
				emit([]line{{"decbig", o[1:], big.dec()}})
			}
		}
	}
}
