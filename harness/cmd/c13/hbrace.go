// hbrace: the REAL MasterServer.SendHeartbeat (hook NewMasterServerVerifC13) on a master that has just become
// leader (fresh Topology, MemorySequencer back at 1), fed ONE full heartbeat of a volume server that already
// holds many volumes (largest needle key in use = MaxFileKey) through a scripted stream, while client
// goroutines retry Topology.PickForWrite the way the Assign gRPC handler does. Real goroutines, no scheduler:
// the registration of the heartbeat's volumes and the raising of the sequencer are two steps of the handler
// and an assign can land between them.
//
//   hbrace <firstVid> <nVols> <maxFileKey> <clients>
//     => <stream end: eof|err> <below> <lowest vid:key | -> <grants> <client panics>
//
// below  = grants on a volume of the heartbeat whose key is ≤ the heartbeat's MaxFileKey
// lowest = the grant with the smallest key (what the judge looks at)
// grants / panics are schedule dependent and only reported.
package main

import (
	"fmt"
	"io"
	"runtime"
	"strconv"
	"sync"
	"sync/atomic"

	"github.com/chrislusf/raft"

	"github.com/chrislusf/seaweedfs/weed/pb/master_pb"
	"github.com/chrislusf/seaweedfs/weed/sequence"
	weed_server "github.com/chrislusf/seaweedfs/weed/server"
	"github.com/chrislusf/seaweedfs/weed/storage/needle"
	"github.com/chrislusf/seaweedfs/weed/storage/super_block"
	"github.com/chrislusf/seaweedfs/weed/storage/types"
	"github.com/chrislusf/seaweedfs/weed/topology"

	"verifharness/hx"
)

// hbScript replays a fixed list of heartbeats as the server side of a SendHeartbeat stream.
type hbScript struct {
	master_pb.Seaweed_SendHeartbeatServer // nil: the handler uses Recv and Send only
	beats                                 []*master_pb.Heartbeat
	next                                  int
	drained                               func() // all beats processed, the stream is about to end
}

func (s *hbScript) Recv() (*master_pb.Heartbeat, error) {
	if s.next >= len(s.beats) {
		s.drained()
		return nil, io.EOF
	}
	b := s.beats[s.next]
	s.next++
	return b, nil
}

func (s *hbScript) Send(*master_pb.HeartbeatResponse) error { return nil }

// electedLeader is a raft server that reports this master as the leader (SendHeartbeat asks Topo.Leader()).
type electedLeader struct{ raft.Server }

func (electedLeader) Leader() string { return "m1:9333" }
func (electedLeader) Name() string   { return "m1:9333" }
func (electedLeader) State() string  { return raft.Leader }

func hbrace(args []string) []string {
	if len(args) < 4 {
		return []string{"invalid"}
	}
	firstVid, _ := strconv.ParseUint(args[0], 10, 32)
	nVols, _ := strconv.Atoi(args[1])
	maxKey, _ := strconv.ParseUint(args[2], 10, 64)
	clients, _ := strconv.Atoi(args[3])
	if nVols < 1 || nVols > 100000 || clients < 1 || clients > 64 || firstVid < 1 {
		return []string{"invalid"}
	}

	rp, _ := super_block.NewReplicaPlacementFromString("000")
	option := &topology.VolumeGrowOption{ReplicaPlacement: rp, Ttl: needle.EMPTY_TTL, DiskType: types.HardDriveType}

	topo := topology.NewTopology("topo", sequence.NewMemorySequencer(), 30*1000*1024*1024, 5, false)
	topo.RaftServer = electedLeader{}
	ms := weed_server.NewMasterServerVerifC13(topo, 30*1000)

	beat := &master_pb.Heartbeat{
		Ip:              "127.0.0.1",
		Port:            8080,
		PublicUrl:       "127.0.0.1:8080",
		MaxVolumeCounts: map[string]uint32{"": uint32(nVols) * 2},
		MaxFileKey:      maxKey,
	}
	for k := 0; k < nVols; k++ {
		beat.Volumes = append(beat.Volumes, &master_pb.VolumeInformationMessage{
			Id:        uint32(firstVid) + uint32(k),
			Size:      1024 * 1024,
			FileCount: 100,
			Version:   uint32(needle.CurrentVersion),
		})
	}

	type low struct {
		vid uint32
		key uint64
		set bool
	}
	var (
		stop    int32
		wg      sync.WaitGroup
		grants  int64
		below   int64
		panics  int64
		lowests = make([]low, clients)
	)
	for c := 0; c < clients; c++ {
		wg.Add(1)
		go func(c int) {
			defer wg.Done()
			defer func() {
				if r := recover(); r != nil {
					atomic.AddInt64(&panics, 1)
				}
			}()
			for atomic.LoadInt32(&stop) == 0 {
				fid, count, _, err := ms.Topo.PickForWrite(1, option)
				if err != nil || count == 0 {
					runtime.Gosched() // nothing writable yet: the client retries
					continue
				}
				f, err := needle.ParseFileIdFromString(fid)
				if err != nil {
					continue
				}
				atomic.AddInt64(&grants, 1)
				vid, key := uint32(f.VolumeId), uint64(f.Key)
				if uint64(vid) < firstVid || uint64(vid) >= firstVid+uint64(nVols) {
					continue // not a volume of this heartbeat
				}
				if key <= maxKey {
					atomic.AddInt64(&below, 1)
				}
				if !lowests[c].set || key < lowests[c].key {
					lowests[c] = low{vid, key, true}
				}
			}
		}(c)
	}

	// the clients stop before the volume server disconnects (PickForWrite against a data node that is being
	// unregistered is a different matter)
	err := ms.SendHeartbeat(&hbScript{beats: []*master_pb.Heartbeat{beat}, drained: func() {
		atomic.StoreInt32(&stop, 1)
		wg.Wait()
	}})
	atomic.StoreInt32(&stop, 1)
	wg.Wait()

	end := "err"
	if err == io.EOF {
		end = "eof"
	}
	lowest := "-"
	var best low
	for _, l := range lowests {
		if l.set && (!best.set || l.key < best.key) {
			best = l
		}
	}
	if best.set {
		lowest = fmt.Sprintf("%d:%d", best.vid, best.key)
	}
	return []string{end, hx.I(below), lowest, hx.I(grants), hx.I(panics)}
}

// one heartbeat/assign race per case; the heartbeat is large so that the handler spends a while between its
// first registered volume and its last statement
func genHbRace(r *hx.Rng) {
	do("reset", nil)
	firstVid := 1 + r.Intn(50)
	nVols := 100 + r.Intn(400)
	if r.Chance(1, 3) {
		nVols = 1200 + r.Intn(600) // the size of the seeded demonstration: a long registration
	}
	maxKey := uint64(100000 + r.Intn(2000000))
	if r.Chance(1, 4) {
		maxKey = 1<<32 + uint64(r.Intn(1000))
	}
	clients := 3 + r.Intn(3)
	do("hbrace", s(firstVid, nVols, maxKey, clients))
}

// rounds of the heartbeat/assign race: quick 3, thorough 12, times the budget factor of ./check
func hbRounds(a *hx.Args) int {
	n := 3
	if a.Thorough() {
		n = 12
	}
	if a.Budget > 1 {
		n *= a.Budget
	}
	return n
}
