// c13: correspondence harness for C13 (file keys and volume ids are never handed out twice).
//
// Runs the REAL sequencers of /repo step by step under a deterministic scheduler:
//   - MemorySequencer: every call is one atomic step (it holds its mutex): mnew/mnext/mset
//   - EtcdSequencer (hook NewEtcdSequencerVerif) over an in-memory fake of etcd's client.KeysAPI:
//     every operation runs in its own goroutine, every KeysAPI call blocks until the scheduler
//     grants it, so a schedule = list of (instance, atomic key/value step); faults are injected
//     per granted call:   estart i next|set|new <arg>   /   kv i <fault>
//   - Topology.NextVolumeId over a fake raft.Server whose Do() blocks until granted:
//     vnew / vstart t / vapply t <fault> / vhb m
//   - SnowflakeSequencer: snew / snext (ids are clock based: judged, not predicted)
//   - race: real goroutines hammering one sequencer, recorded ranges judged for disjointness.
package main

import (
	"context"
	"errors"
	"fmt"
	"os"
	"sort"
	"strconv"
	"strings"
	"sync"

	"github.com/chrislusf/raft"
	"go.etcd.io/etcd/client"

	"github.com/chrislusf/seaweedfs/weed/sequence"
	"github.com/chrislusf/seaweedfs/weed/storage/needle"
	"github.com/chrislusf/seaweedfs/weed/topology"

	"verifharness/hx"
)

var tr *hx.Trace
var tmpDir string
var caseNo int

// ---------------------------------------------------------------- fake etcd

type kvStore struct {
	mu  sync.Mutex
	val *string
}

type event struct {
	kind string // "kv" (blocked at a key/value call) | "done"
	outs []string
}

type einst struct {
	id      int
	es      *sequence.EtcdSequencer
	busy    bool // an operation is in flight (blocked at a kv call)
	evCh    chan event
	grantCh chan bool
	resCh   chan string
	file    string
	direct  bool // race mode: no scheduler, calls go straight to the store
}

type fakeKeys struct {
	st *kvStore
	in *einst
}

var errInjected = errors.New("injected etcd failure")

func (f *fakeKeys) gate() bool {
	if f.in.direct {
		return false
	}
	f.in.evCh <- event{kind: "kv"}
	return <-f.in.grantCh
}
func (f *fakeKeys) report(s string) {
	if !f.in.direct {
		f.in.resCh <- s
	}
}

func (f *fakeKeys) Get(ctx context.Context, key string, opts *client.GetOptions) (*client.Response, error) {
	fault := f.gate()
	f.st.mu.Lock()
	defer f.st.mu.Unlock()
	if fault {
		f.report("get err")
		return nil, errInjected
	}
	if f.st.val == nil {
		f.report("get none")
		return nil, client.Error{Code: client.ErrorCodeKeyNotFound, Message: "Key not found"}
	}
	f.report("get " + *f.st.val)
	return &client.Response{Action: "get", Node: &client.Node{Key: key, Value: *f.st.val}}, nil
}

func (f *fakeKeys) Set(ctx context.Context, key, value string, opts *client.SetOptions) (*client.Response, error) {
	fault := f.gate()
	f.st.mu.Lock()
	defer f.st.mu.Unlock()
	prev := "-"
	if opts != nil && opts.PrevValue != "" {
		prev = opts.PrevValue
	}
	d := "set " + prev + " " + value + " "
	if fault {
		f.report(d + "err")
		return nil, errInjected
	}
	if prev != "-" {
		if f.st.val == nil {
			f.report(d + "casfail")
			return nil, client.Error{Code: client.ErrorCodeKeyNotFound, Message: "Key not found"}
		}
		if *f.st.val != prev {
			f.report(d + "casfail")
			return nil, client.Error{Code: client.ErrorCodeTestFailed, Message: "Compare failed"}
		}
	}
	v := value
	f.st.val = &v
	f.report(d + "ok")
	return &client.Response{Action: "set", Node: &client.Node{Key: key, Value: value}}, nil
}

func (f *fakeKeys) Create(ctx context.Context, key, value string) (*client.Response, error) {
	fault := f.gate()
	f.st.mu.Lock()
	defer f.st.mu.Unlock()
	d := "create " + value + " "
	if fault {
		f.report(d + "err")
		return nil, errInjected
	}
	if f.st.val != nil {
		f.report(d + "exists")
		return nil, client.Error{Code: client.ErrorCodeNodeExist, Message: "Key already exists"}
	}
	v := value
	f.st.val = &v
	f.report(d + "ok")
	return &client.Response{Action: "create", Node: &client.Node{Key: key, Value: value}}, nil
}

func (f *fakeKeys) Delete(ctx context.Context, key string, opts *client.DeleteOptions) (*client.Response, error) {
	panic("fake KeysAPI: Delete not used by the sequencer")
}
func (f *fakeKeys) CreateInOrder(ctx context.Context, dir, value string, opts *client.CreateInOrderOptions) (*client.Response, error) {
	panic("fake KeysAPI: CreateInOrder not used by the sequencer")
}
func (f *fakeKeys) Update(ctx context.Context, key, value string) (*client.Response, error) {
	panic("fake KeysAPI: Update not used by the sequencer")
}
func (f *fakeKeys) Watcher(key string, opts *client.WatcherOptions) client.Watcher {
	panic("fake KeysAPI: Watcher not used by the sequencer")
}

// ---------------------------------------------------------------- fake raft

type vthread struct {
	busy    bool
	evCh    chan event
	grantCh chan bool
}

type fakeRaft struct {
	raft.Server // nil: every method except Do/Context panics (NextVolumeId uses only these)
	topo        *topology.Topology
	cur         *vthread // the thread whose Do is being served (set by the scheduler before start)
}

func (r *fakeRaft) Context() interface{} { return r.topo }
func (r *fakeRaft) Do(cmd raft.Command) (interface{}, error) {
	th := r.cur
	v := "?"
	if c, ok := cmd.(*topology.MaxVolumeIdCommand); ok {
		v = hx.U(uint64(c.MaxVolumeId))
	}
	th.evCh <- event{kind: "kv", outs: []string{v}}
	fault := <-th.grantCh
	if fault {
		return nil, errInjected
	}
	// what raft's log.ApplyFunc does for a committed entry (deprecatedCommandApply arm)
	if c, ok := cmd.(interface {
		Apply(raft.Server) (interface{}, error)
	}); ok {
		return c.Apply(r)
	}
	return nil, errors.New("command does not implement Apply(Server)")
}

// ---------------------------------------------------------------- case state

type world struct {
	store   *kvStore
	einsts  map[int]*einst
	mems    map[int]*sequence.MemorySequencer
	snows   map[int]*sequence.SnowflakeSequencer
	topo    *topology.Topology
	fr      *fakeRaft
	threads map[int]*vthread
	dir     string
}

var w *world

func reset() {
	drainAll()
	caseNo++
	dir := fmt.Sprintf("%s/case%d", tmpDir, caseNo)
	os.MkdirAll(dir, 0755)
	if w != nil {
		for _, in := range w.einsts {
			if in.es != nil {
				in.es.VerifClose()
			}
		}
		os.RemoveAll(w.dir)
	}
	w = &world{store: &kvStore{}, einsts: map[int]*einst{}, mems: map[int]*sequence.MemorySequencer{}, snows: map[int]*sequence.SnowflakeSequencer{},
		threads: map[int]*vthread{}, dir: dir}
	tr.Op("reset", nil, []string{"-"})
}

func readFile(path string) string {
	b, err := os.ReadFile(path)
	if err != nil {
		return "nofile"
	}
	s := strings.Split(string(b), ":")
	return s[0]
}

func (in *einst) status() []string {
	if in.es == nil {
		return []string{"-", "-", readFile(in.file)}
	}
	return []string{hx.U(in.es.Peek()), hx.U(in.es.GetMax()), readFile(in.file)}
}

// wait for the next event of an instance's running operation
func (in *einst) next() []string {
	ev := <-in.evCh
	if ev.kind == "kv" {
		return []string{"cont"}
	}
	in.busy = false
	return append([]string{"done"}, ev.outs...)
}

func estart(args []string) []string {
	if len(args) < 3 {
		return []string{"invalid"}
	}
	i, _ := strconv.Atoi(args[0])
	what := args[1]
	arg, _ := strconv.ParseUint(args[2], 10, 64)
	in := w.einsts[i]
	if in != nil && in.busy {
		return []string{"invalid"}
	}
	switch what {
	case "new":
		if in != nil && in.es != nil {
			in.es.VerifClose()
		}
		in = &einst{id: i, evCh: make(chan event), grantCh: make(chan bool), resCh: make(chan string), file: fmt.Sprintf("%s/seq%d.dat", w.dir, arg)}
		w.einsts[i] = in
		in.busy = true
		fk := &fakeKeys{st: w.store, in: in}
		go func() {
			es, err := sequence.NewEtcdSequencerVerif(fk, in.file)
			if err != nil {
				in.es = nil
				in.evCh <- event{kind: "done", outs: append([]string{"err"}, in.status()...)}
				return
			}
			in.es = es
			in.evCh <- event{kind: "done", outs: append([]string{"ok"}, in.status()...)}
		}()
		return in.next()
	case "next":
		if in == nil || in.es == nil {
			return []string{"invalid"}
		}
		in.busy = true
		go func() {
			r := in.es.NextFileId(arg)
			in.evCh <- event{kind: "done", outs: append([]string{hx.U(r)}, in.status()...)}
		}()
		return in.next()
	case "set":
		if in == nil || in.es == nil {
			return []string{"invalid"}
		}
		in.busy = true
		go func() {
			in.es.SetMax(arg)
			in.evCh <- event{kind: "done", outs: append([]string{"-"}, in.status()...)}
		}()
		return in.next()
	}
	return []string{"invalid"}
}

func kvGrant(args []string) []string {
	if len(args) < 2 {
		return []string{"invalid"}
	}
	i, _ := strconv.Atoi(args[0])
	in := w.einsts[i]
	if in == nil || !in.busy {
		return []string{"invalid"}
	}
	in.grantCh <- args[1] == "1"
	desc := <-in.resCh
	return append(strings.Fields(desc), in.next()...)
}

func drainAll() {
	if w == nil {
		return
	}
	ids := []int{}
	for i, in := range w.einsts {
		if in.busy {
			ids = append(ids, i)
		}
	}
	sort.Ints(ids)
	for _, i := range ids {
		for n := 0; w.einsts[i].busy && n < 1000; n++ {
			a := []string{hx.I(int64(i)), "0"}
			tr.Op("kv", a, kvGrant(a))
		}
	}
	tids := []int{}
	for t, th := range w.threads {
		if th.busy {
			tids = append(tids, t)
		}
	}
	sort.Ints(tids)
	for _, t := range tids {
		a := []string{hx.I(int64(t)), "0"}
		tr.Op("vapply", a, vapply(a))
	}
}

// ---------------------------------------------------------------- volume ids

func vnew() []string {
	for _, th := range w.threads {
		if th.busy {
			return []string{"invalid"}
		}
	}
	w.topo = topology.NewTopology("topo", sequence.NewMemorySequencer(), 1024*1024, 5, false)
	w.fr = &fakeRaft{topo: w.topo}
	w.topo.RaftServer = w.fr
	w.threads = map[int]*vthread{}
	return []string{hx.U(uint64(w.topo.GetMaxVolumeId()))}
}

func vstart(args []string) []string {
	if w.topo == nil || len(args) < 1 {
		return []string{"invalid"}
	}
	t, _ := strconv.Atoi(args[0])
	th := w.threads[t]
	if th == nil {
		th = &vthread{evCh: make(chan event), grantCh: make(chan bool)}
		w.threads[t] = th
	}
	if th.busy {
		return []string{"invalid"}
	}
	th.busy = true
	w.fr.cur = th
	topo := w.topo
	go func() {
		id, err := topo.NextVolumeId()
		th.evCh <- event{kind: "done", outs: []string{hx.Err(err), hx.U(uint64(id))}}
	}()
	ev := <-th.evCh // blocked inside Do: the command carries the proposed id
	return ev.outs
}

func vapply(args []string) []string {
	if w.topo == nil || len(args) < 2 {
		return []string{"invalid"}
	}
	t, _ := strconv.Atoi(args[0])
	th := w.threads[t]
	if th == nil || !th.busy {
		return []string{"invalid"}
	}
	th.grantCh <- args[1] == "1"
	ev := <-th.evCh
	th.busy = false
	return append(ev.outs, hx.U(uint64(w.topo.GetMaxVolumeId())))
}

func vhb(args []string) []string {
	if w.topo == nil || len(args) < 1 {
		return []string{"invalid"}
	}
	m, _ := strconv.ParseUint(args[0], 10, 32)
	w.topo.UpAdjustMaxVolumeId(needle.VolumeId(m))
	return []string{hx.U(uint64(w.topo.GetMaxVolumeId()))}
}

// ---------------------------------------------------------------- race (real goroutines)

func race(args []string) []string {
	if len(args) < 4 {
		return []string{"invalid"}
	}
	kind := args[0]
	nth, _ := strconv.Atoi(args[1])
	nops, _ := strconv.Atoi(args[2])
	seed, _ := strconv.ParseUint(args[3], 10, 64)
	var seqs []sequence.Sequencer
	switch kind {
	case "mem":
		seqs = []sequence.Sequencer{sequence.NewMemorySequencer()}
	case "etcd":
		st := &kvStore{}
		for k := 0; k < 2; k++ { // two live instances over one store (old and new leader both serving)
			in := &einst{direct: true, file: fmt.Sprintf("%s/race%d.dat", w.dir, k)}
			es, err := sequence.NewEtcdSequencerVerif(&fakeKeys{st: st, in: in}, in.file)
			if err != nil {
				return []string{"err"}
			}
			defer es.VerifClose()
			seqs = append(seqs, es)
		}
	default:
		return []string{"invalid"}
	}
	type rg struct{ s, c uint64 }
	res := make([][]rg, nth)
	var wg sync.WaitGroup
	for t := 0; t < nth; t++ {
		wg.Add(1)
		go func(t int) {
			defer wg.Done()
			r := hx.NewRng(seed*1000 + uint64(t))
			sq := seqs[t%len(seqs)]
			for k := 0; k < nops; k++ {
				if kind == "mem" && r.Chance(1, 8) {
					sq.SetMax(uint64(r.Intn(2000)))
					continue
				}
				c := uint64(1 + r.Intn(5))
				if r.Chance(1, 10) {
					c = uint64(400 + r.Intn(300))
				}
				res[t] = append(res[t], rg{sq.NextFileId(c), c})
			}
		}(t)
	}
	wg.Wait()
	var all []rg
	for _, x := range res {
		all = append(all, x...)
	}
	sort.Slice(all, func(i, j int) bool { return all[i].s < all[j].s })
	// report: number of ranges, number of overlapping neighbours, first overlap
	bad := 0
	first := "-"
	for k := 1; k < len(all); k++ {
		if all[k-1].s+all[k-1].c > all[k].s {
			if bad == 0 {
				first = fmt.Sprintf("%d+%d/%d+%d", all[k-1].s, all[k-1].c, all[k].s, all[k].c)
			}
			bad++
		}
	}
	out := []string{hx.I(int64(len(all)))}
	for _, x := range all {
		out = append(out, fmt.Sprintf("%d:%d", x.s, x.c))
	}
	_ = first
	return out
}

// ---------------------------------------------------------------- dispatch

func do(op string, args []string) {
	switch op {
	case "reset":
		reset()
		return
	}
	outs := hx.Guard(func() []string {
		geti := func(k int) int {
			if k < len(args) {
				v, _ := strconv.Atoi(args[k])
				return v
			}
			return 0
		}
		getu := func(k int) uint64 {
			if k < len(args) {
				v, _ := strconv.ParseUint(args[k], 10, 64)
				return v
			}
			return 0
		}
		switch op {
		case "mnew":
			m := sequence.NewMemorySequencer()
			w.mems[geti(0)] = m
			return []string{hx.U(m.Peek())}
		case "mnext":
			m := w.mems[geti(0)]
			if m == nil {
				return []string{"invalid"}
			}
			r := m.NextFileId(getu(1))
			return []string{hx.U(r), hx.U(m.Peek())}
		case "mset":
			m := w.mems[geti(0)]
			if m == nil {
				return []string{"invalid"}
			}
			m.SetMax(getu(1))
			return []string{hx.U(m.Peek())}
		case "estart":
			return estart(args)
		case "kv":
			return kvGrant(args)
		case "vnew":
			return vnew()
		case "vstart":
			return vstart(args)
		case "vapply":
			return vapply(args)
		case "vhb":
			return vhb(args)
		case "snew":
			s, err := sequence.NewSnowflakeSequencer(fmt.Sprintf("node%d", geti(1)))
			if err != nil {
				return []string{"err"}
			}
			w.snows[geti(0)] = s
			return []string{"ok"}
		case "snext":
			s := w.snows[geti(0)]
			if s == nil {
				return []string{"invalid"}
			}
			return []string{hx.U(s.NextFileId(getu(1)))}
		case "race":
			return race(args)
		case "hbrace":
			return hbrace(args)
		}
		return []string{"unknown-op"}
	})
	tr.Op(op, args, outs)
}

// ---------------------------------------------------------------- generators

func s(xs ...interface{}) []string {
	out := make([]string, len(xs))
	for i, x := range xs {
		out[i] = fmt.Sprint(x)
	}
	return out
}

var bigs = []uint64{0, 1, 2, 499, 500, 501, 1000, 1 << 32, 1<<63 - 1, 1 << 63, 1<<64 - 2, 1<<64 - 1}

func genMem(r *hx.Rng, wrap bool, leader bool) {
	do("reset", nil)
	do("mnew", s(0))
	cur := 0
	n := 4 + r.Intn(12)
	for k := 0; k < n; k++ {
		switch {
		case leader && r.Chance(1, 6):
			cur++
			do("mnew", s(cur))
		case r.Chance(1, 3):
			v := uint64(r.Intn(60))
			if r.Chance(1, 4) {
				v = uint64(r.Intn(5000))
			}
			if wrap && r.Chance(1, 3) {
				v = bigs[r.Intn(len(bigs))]
			}
			do("mset", s(cur, v))
		default:
			c := uint64(r.Intn(6))
			if r.Chance(1, 5) {
				c = uint64(r.Intn(1200))
			}
			if wrap && r.Chance(1, 4) {
				c = bigs[r.Intn(len(bigs))]
			}
			do("mnext", s(cur, c))
		}
	}
}

func genEtcd(r *hx.Rng, faults bool, reports bool, wrap bool) {
	do("reset", nil)
	ninst := 1 + r.Intn(3)
	live := map[int]bool{}
	nsteps := 10 + r.Intn(40)
	fault := func() int {
		if faults && r.Chance(1, 7) {
			return 1
		}
		return 0
	}
	for k := 0; k < nsteps; k++ {
		i := r.Intn(ninst)
		in := w.einsts[i]
		if in != nil && in.busy {
			do("kv", s(i, fault()))
			continue
		}
		if !live[i] || in == nil || in.es == nil || r.Chance(1, 12) {
			// (re)start the instance: leader change; file slot: mostly its own (restart), sometimes fresh
			slot := i
			if r.Chance(1, 4) {
				slot = 3 + r.Intn(3)
			}
			do("estart", s(i, "new", slot))
			live[i] = true
			continue
		}
		if reports && r.Chance(1, 4) {
			var v uint64
			switch r.Intn(4) {
			case 0:
				v = uint64(r.Intn(100))
			case 1:
				v = in.es.GetMax() + uint64(r.Intn(3)) // around the reserved max
			case 2:
				v = in.es.Peek() + uint64(r.Intn(20))
			default:
				v = uint64(r.Intn(5000))
			}
			if wrap && r.Chance(1, 3) {
				v = bigs[r.Intn(len(bigs))] // heartbeat MaxFileKey near 2^64: SetMax stores it in etcd, the next batch wraps
			}
			do("estart", s(i, "set", v))
			continue
		}
		c := uint64(r.Intn(5))
		switch r.Intn(8) {
		case 0:
			c = uint64(400 + r.Intn(200))
		case 1:
			c = uint64(r.Intn(1500))
		}
		if wrap && r.Chance(1, 4) {
			c = bigs[r.Intn(len(bigs))] // client supplied count (/dir/assign?count=): uint64 additions wrap
		}
		do("estart", s(i, "next", c))
	}
	drainAll()
}

// one operation of instance i run to completion (no other instance interleaves)
func runOp(i int, what string, arg uint64) {
	do("estart", s(i, what, arg))
	for n := 0; n < 100; n++ {
		in := w.einsts[i]
		if in == nil || !in.busy {
			return
		}
		do("kv", s(i, 0))
	}
}

// two masters on one etcd, leadership A -> B -> A: A reserves a batch and hands out part of it, B takes
// over (constructor + SetMax from a heartbeat + assignments), then A leads again, uses up the rest of
// its old window and has to fetch a new batch behind B's
func genEtcdABA(r *hx.Rng) {
	do("reset", nil)
	runOp(0, "new", 0)
	runOp(1, "new", 1)
	used := uint64(0)
	for k := 0; k < 1+r.Intn(4); k++ {
		c := uint64(1 + r.Intn(20))
		runOp(0, "next", c)
		used += c
	}
	if r.Bool() {
		runOp(1, "set", used) // the heartbeat tells B the largest key written so far
	}
	for k := 0; k < 1+r.Intn(4); k++ {
		runOp(1, "next", uint64(1+r.Intn(60)))
	}
	if r.Bool() {
		runOp(0, "set", w.einsts[1].es.Peek()-1-uint64(r.Intn(3))) // A hears about keys written under B
	}
	for k := 0; k < 3+r.Intn(6); k++ {
		runOp(0, "next", uint64(1+r.Intn(300)))
	}
	for k := 0; k < 2; k++ {
		runOp(1, "next", uint64(1+r.Intn(300)))
	}
}

func genVid(r *hx.Rng, serial bool) {
	do("reset", nil)
	do("vnew", nil)
	if r.Bool() {
		do("vhb", s(r.Intn(20)))
	}
	n := 6 + r.Intn(14)
	for k := 0; k < n; k++ {
		var busy []int
		for t, th := range w.threads {
			if th.busy {
				busy = append(busy, t)
			}
		}
		sort.Ints(busy)
		x := r.Intn(10)
		switch {
		case x < 2:
			do("vhb", s(r.Intn(40)))
		case x == 2 && len(busy) == 0:
			// leader change: a new topology restored to the replicated max
			m := w.topo.GetMaxVolumeId()
			do("vnew", nil)
			do("vhb", s(uint64(m)))
		case len(busy) > 0 && (serial || r.Bool()):
			f := 0
			if r.Chance(1, 8) {
				f = 1
			}
			do("vapply", s(busy[r.Intn(len(busy))], f))
		default:
			t := r.Intn(3)
			if th := w.threads[t]; th != nil && th.busy {
				do("vapply", s(t, 0))
			} else {
				do("vstart", s(t))
			}
		}
	}
	drainAll()
}

func genSnow(r *hx.Rng, multi bool) {
	do("reset", nil)
	do("snew", s(0, r.Intn(1000)))
	do("snew", s(1, 1000+r.Intn(1000)))
	for k := 0; k < 30; k++ {
		c := 1
		if multi {
			c = 1 + r.Intn(4)
		}
		do("snext", s(r.Intn(2), c))
	}
}

func main() {
	a := hx.ParseArgs()
	tr = hx.NewTrace(a.Out)
	defer tr.Close()
	if dn, e := os.OpenFile(os.DevNull, os.O_WRONLY, 0); e == nil && a.Out != "" {
		os.Stderr = dn // glog of the code under test (injected failures are logged as errors)
	}
	var err error
	tmpDir, err = os.MkdirTemp("", "c13-")
	if err != nil {
		fmt.Fprintln(os.Stderr, err)
		os.Exit(2)
	}
	defer os.RemoveAll(tmpDir)

	if a.Ops != "" {
		for _, l := range hx.ReadOps(a.Ops) {
			if w == nil && l[0] != "reset" {
				reset()
			}
			do(l[0], l[1:])
		}
		drainAll()
		return
	}
	r := hx.NewRng(a.Seed)
	n := a.N(50)
	for k := 0; k < n; k++ {
		genMem(r, false, false)
		genMem(r, k%3 == 0, k%4 == 0)
		genEtcd(r, false, false, false)
		genEtcd(r, k%2 == 0, true, false)
		genEtcd(r, true, false, false)
		genEtcdABA(r)
		if k%3 == 1 {
			genEtcd(r, k%2 == 0, true, true)
		}
		genVid(r, true)
		genVid(r, k%2 == 0)
		if k%10 == 0 {
			genSnow(r, k%20 == 0)
		}
		if k%15 == 0 {
			do("reset", nil)
			do("race", s("mem", 8, 200, r.Intn(1000)))
			do("race", s("etcd", 8, 200, r.Intn(1000)))
		}
	}
	for k := 0; k < hbRounds(a); k++ {
		genHbRace(r)
	}
	drainAll()
}
