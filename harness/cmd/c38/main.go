// c38: concurrent histories on a real storage.Store. Several goroutines issue writes
// (immediate path and batched/fsync worker path), deletes, reads and HTTP GET/DELETE on a few
// file ids of one volume; every call is stamped with a logical clock at invocation and at
// response. The Lean driver searches, per file id, for an order of the calls that respects
// the stamps and reproduces every recorded output with the C01 model's step function.
package main

import (
	"flag"
	"fmt"
	"os"
	"sort"
	"strconv"
	"sync"
	"sync/atomic"
	"time"

	"verifharness/cmd/c01/vol"
	"verifharness/hx"
)

type call struct {
	client   int
	inv, ret int64
	f        []string // op + args
	outs     []string
}

type line struct {
	op         string
	args, outs []string
}

func u64(s string) uint64 { v, _ := strconv.ParseUint(s, 10, 64); return v }

func do(env *vol.Env, f []string) []string {
	op, a := f[0], f[1:]
	return hx.Guard(func() []string {
		switch op {
		case "w":
			return env.Write(u64(a[0]), uint32(u64(a[1])), vol.ParseContent(a[2:10]), false)
		case "wf", "wx":
			return env.Write(u64(a[0]), uint32(u64(a[1])), vol.ParseContent(a[2:10]), true)
		case "d":
			return env.Delete(u64(a[0]), uint32(u64(a[1])))
		case "r":
			return env.Read(u64(a[0]), uint32(u64(a[1])))
		case "hr":
			return env.HRead(u64(a[0]), uint32(u64(a[1])))
		case "hd":
			return env.HDelete(u64(a[0]), uint32(u64(a[1])))
		}
		return []string{"unknown-op"}
	})
}

// history = sequential prefix, concurrent scripts (one per client), sequential final reads
type history struct {
	kind    string
	batched bool
	fault   bool // the fixed fsync-failure scenario (see runFault)
	prefix  [][]string
	scripts [][][]string
	ids     []uint64
	ck      uint32
}

// runFault: a batched write whose fsync blocks and then fails (the worker rolls its batch back)
// while an immediate write to ANOTHER id arrives. The immediate write is acknowledged, so it
// must be readable afterwards, and so must the blob uploaded before. The failed batched write
// is recorded as `wx` (expected output: err) and takes no part in the linearization.
func (h *history) runFault() []line {
	env := &vol.Env{}
	defer env.Close()
	if err := env.Reset(h.kind, ""); err != nil {
		return []line{{"reset", []string{h.kind, "-"}, []string{"err"}}}
	}
	out := []line{{"reset", []string{h.kind, "-"}, []string{"ok"}}}
	env.Stopping()
	out = append(out, line{"stop", nil, []string{"ok"}})
	var clock int64
	var mu sync.Mutex
	var calls []call
	one := func(client int, f []string) {
		inv := atomic.AddInt64(&clock, 1)
		outs := do(env, f)
		ret := atomic.AddInt64(&clock, 1)
		mu.Lock()
		calls = append(calls, call{client, inv, ret, f, outs})
		mu.Unlock()
	}
	wr := func(op string, id uint64, data string) []string {
		return append([]string{op, hx.U(id), "7"}, vol.ContentArgs(&vol.Content{Data: []byte(data)})...)
	}
	one(0, wr("w", 1, "before"))
	entered, release := env.InjectSyncFault()
	out = append(out, line{"fault", []string{"first-sync-blocks-then-fails"}, []string{"ok"}})
	var wg sync.WaitGroup
	wg.Add(2)
	go func() { defer wg.Done(); one(1, wr("wx", 2, "batched")) }()
	<-entered
	done3 := make(chan struct{})
	go func() { defer wg.Done(); one(2, wr("w", 3, "immediate")); close(done3) }()
	select { // on the unchanged tree the immediate write waits for the worker's critical section
	case <-done3:
	case <-time.After(200 * time.Millisecond):
	}
	release()
	wg.Wait()
	one(0, []string{"r", "3", "7"})
	one(0, []string{"r", "1", "7"})
	one(0, []string{"hr", "3", "7"})
	sort.Slice(calls, func(i, j int) bool { return calls[i].inv < calls[j].inv })
	for _, c := range calls {
		args := append([]string{strconv.Itoa(c.client), hx.I(c.inv), hx.I(c.ret)}, c.f...)
		out = append(out, line{"c", args, c.outs})
	}
	return append(out, line{"end", nil, []string{"ok"}})
}

func (h *history) run() []line {
	if h.fault {
		return h.runFault()
	}
	env := &vol.Env{}
	defer env.Close()
	var out []line
	if err := env.Reset(h.kind, ""); err != nil {
		return []line{{"reset", []string{h.kind, "-"}, []string{"err"}}}
	}
	out = append(out, line{"reset", []string{h.kind, "-"}, []string{"ok"}})
	if h.batched {
		env.Stopping()
		out = append(out, line{"stop", nil, []string{"ok"}})
	}
	var clock int64
	var calls []call
	one := func(client int, f []string) call {
		inv := atomic.AddInt64(&clock, 1)
		outs := do(env, f)
		ret := atomic.AddInt64(&clock, 1)
		return call{client, inv, ret, f, outs}
	}
	for _, f := range h.prefix {
		calls = append(calls, one(0, f))
	}
	var wg sync.WaitGroup
	var mu sync.Mutex
	start := make(chan struct{})
	for ci, sc := range h.scripts {
		wg.Add(1)
		go func(ci int, sc [][]string) {
			defer wg.Done()
			<-start
			var mine []call
			for _, f := range sc {
				mine = append(mine, one(ci+1, f))
			}
			mu.Lock()
			calls = append(calls, mine...)
			mu.Unlock()
		}(ci, sc)
	}
	close(start)
	wg.Wait()
	for _, id := range h.ids {
		calls = append(calls, one(0, []string{"r", hx.U(id), hx.U(uint64(h.ck))}))
	}
	sort.Slice(calls, func(i, j int) bool { return calls[i].inv < calls[j].inv })
	for _, c := range calls {
		args := append([]string{strconv.Itoa(c.client), hx.I(c.inv), hx.I(c.ret)}, c.f...)
		out = append(out, line{"c", args, c.outs})
	}
	out = append(out, line{"end", nil, []string{"ok"}})
	return out
}

func genHistory(rng *hx.Rng, i int) *history {
	h := &history{kind: "mem", batched: i%2 == 1, ck: uint32(rng.U64())}
	if i%4 >= 2 {
		h.kind = "ldb"
	}
	nid := 1 + rng.Intn(3)
	for k := 0; k < nid; k++ {
		h.ids = append(h.ids, 1+rng.U64()%100000)
	}
	cks := []uint32{h.ck, h.ck, h.ck, h.ck + 1}
	serial := 0
	mkWrite := func(id uint64) []string {
		serial++
		c := &vol.Content{Data: []byte(fmt.Sprintf("v%d", serial))}
		if rng.Chance(1, 6) {
			c.Data = nil
		}
		if rng.Chance(1, 5) {
			c.Data = []byte("same") // equal payloads: exercises isFileUnchanged under concurrency
		}
		if rng.Bool() && len(c.Data) > 0 {
			c.Flags |= 2
			c.Name = []byte(fmt.Sprintf("n%d", serial))
		}
		op := "w"
		if h.batched && rng.Chance(3, 4) {
			op = "wf"
		}
		return append([]string{op, hx.U(id), hx.U(uint64(cks[rng.Intn(len(cks))]))}, vol.ContentArgs(c)...)
	}
	mkOp := func() []string {
		id := h.ids[rng.Intn(nid)]
		ck := hx.U(uint64(cks[rng.Intn(len(cks))]))
		x := rng.Intn(100)
		switch {
		case x < 45:
			return mkWrite(id)
		case x < 65:
			return []string{"r", hx.U(id), ck}
		case x < 75:
			return []string{"hr", hx.U(id), ck}
		case x < 90:
			return []string{"d", hx.U(id), ck}
		default:
			return []string{"hd", hx.U(id), ck}
		}
	}
	for k := rng.Intn(3); k > 0; k-- {
		h.prefix = append(h.prefix, mkWrite(h.ids[rng.Intn(nid)]))
	}
	nclients := 2 + rng.Intn(3)
	for c := 0; c < nclients; c++ {
		var sc [][]string
		for k := 2 + rng.Intn(5); k > 0; k-- {
			sc = append(sc, mkOp())
		}
		h.scripts = append(h.scripts, sc)
	}
	return h
}

// replay: rebuild the history (prefix / scripts / final reads) from recorded `c` lines and run
// it again `times` times — schedules are not reproducible, the op sets are.
func fromOps(ops [][]string) []*history {
	var hs []*history
	var h *history
	byClient := map[int][][]string{}
	flush := func() {
		if h == nil {
			return
		}
		var cl []int
		for c := range byClient {
			if c != 0 {
				cl = append(cl, c)
			}
		}
		sort.Ints(cl)
		for _, c := range cl {
			h.scripts = append(h.scripts, byClient[c])
		}
		h.prefix = byClient[0]
		hs = append(hs, h)
		h = nil
		byClient = map[int][][]string{}
	}
	for _, f := range ops {
		switch f[0] {
		case "reset":
			flush()
			h = &history{kind: f[1]}
		case "stop":
			if h != nil {
				h.batched = true
			}
		case "fault":
			if h != nil {
				h.fault = true
			}
		case "c":
			if h != nil && len(f) > 5 {
				c, _ := strconv.Atoi(f[1])
				if f[4] == "wx" { // only the fsync-failure scenario produces wx
					h.fault = true
				}
				byClient[c] = append(byClient[c], f[4:])
				id, seen := u64(f[5]), false
				for _, x := range h.ids {
					seen = seen || x == id
				}
				if !seen {
					h.ids = append(h.ids, id)
				}
			}
		case "end":
			flush()
		}
	}
	flush()
	return hs
}

func main() {
	a := hx.ParseArgs()
	flag.Set("alsologtostderr", "false") // glog: files under TMPDIR only
	tr := hx.NewTrace(a.Out)
	defer tr.Close()
	var hs []*history
	if a.Ops != "" {
		for _, h := range fromOps(hx.ReadOps(a.Ops)) {
			reps := 50
			if h.fault {
				reps = 5 // each costs the 200 ms wait
			}
			for k := 0; k < reps; k++ {
				hs = append(hs, h)
			}
		}
	} else {
		rng := hx.NewRng(a.Seed)
		for i := 0; i < a.N(500); i++ {
			hs = append(hs, genHistory(rng, i))
			if i%25 == 0 {
				hs = append(hs, &history{kind: []string{"mem", "ldb"}[(i/25)%2], fault: true})
			}
		}
	}
	// histories run in parallel on separate stores; segments are written in order
	results := make([]chan []line, len(hs))
	for i := range results {
		results[i] = make(chan []line, 1)
	}
	next := make(chan int, len(hs))
	for i := range hs {
		next <- i
	}
	close(next)
	for wk := 0; wk < 4; wk++ {
		go func() {
			for i := range next {
				results[i] <- hs[i].run()
			}
		}()
	}
	for i := range hs {
		for _, l := range <-results[i] {
			tr.Op(l.op, l.args, l.outs)
		}
	}
	if tr.Lines == 0 {
		fmt.Fprintln(os.Stderr, "no history ran")
		os.Exit(2)
	}
}
