// c03: correspondence harness for C03 (a volume survives a crash at any point without serving wrong data).
// Writes a REAL volume through storage.Store, snapshots .dat/.idx, and for every crash point (prefix of .dat,
// prefix of .idx respecting the write order) reopens truncated copies with the real loader
// (CheckAndFixVolumeDataIntegrity + index loading), reads every id and attempts a write.
//
//	config <OffsetSize>
//	reset                          =>                       new empty volume 1 in a fresh directory
//	put <id> <cookie> <data>       => <ok|unchanged|err> <dat size> <idx size>
//	del <id> <cookie>              => <freed size|err> <dat size> <idx size>
//	snap                           => <dat hex> <idx hex>   close the volume, keep its files as the pre-crash image
//	crash <p> <q> <ids,..>         => <load ok|failed|panic> <ro 0|1> <dat size> <idx size> <id:res>… w:<res> rb:<res> <dat2 size> <idx2 size>
//	                                  res = data hex ("-" = empty blob) prefixed d, or notfound|deleted|crc|sizemismatch|eof|err|novol|readonly|cookie
package main

import (
	"fmt"
	"io"
	"os"
	"path/filepath"
	"runtime/debug"
	"sort"
	"strconv"
	"strings"
	"sync"

	"github.com/chrislusf/seaweedfs/weed/storage"
	"github.com/chrislusf/seaweedfs/weed/storage/idx"
	"github.com/chrislusf/seaweedfs/weed/storage/needle"
	"github.com/chrislusf/seaweedfs/weed/storage/types"
	"github.com/chrislusf/seaweedfs/weed/util"

	"verifharness/hx"
)

var tr *hx.Trace
var tmpRoot string
var dirNo int
var dirMu sync.Mutex

func newDir() string {
	dirMu.Lock()
	dirNo++
	d := filepath.Join(tmpRoot, fmt.Sprintf("d%d", dirNo))
	dirMu.Unlock()
	if err := os.MkdirAll(d, 0755); err != nil {
		panic(err)
	}
	return d
}

func newStore(dir string) *storage.Store {
	return storage.NewStore(nil, 8080, "127.0.0.1", "127.0.0.1:8080", []string{dir}, []int{8}, []util.MinFreeSpace{{}}, "", storage.NeedleMapInMemory, []types.DiskType{types.HardDriveType})
}

// ---- current volume under construction
var cur struct {
	dir   string
	store *storage.Store
	dat   []byte
	idx   []byte
	snap  bool
}

func sizes() (int64, int64) {
	d, _ := os.Stat(filepath.Join(cur.dir, "1.dat"))
	i, _ := os.Stat(filepath.Join(cur.dir, "1.idx"))
	var ds, is int64
	if d != nil {
		ds = d.Size()
	}
	if i != nil {
		is = i.Size()
	}
	return ds, is
}

func closeCur() {
	if cur.store != nil {
		cur.store.Close()
		cur.store = nil
	}
	if cur.dir != "" {
		os.RemoveAll(cur.dir)
		cur.dir = ""
	}
}

func doReset() {
	closeCur()
	cur.dir = newDir()
	cur.store = newStore(cur.dir)
	cur.snap = false
	if err := cur.store.AddVolume(1, "", storage.NeedleMapInMemory, "000", "", 0, 0, types.HardDriveType); err != nil {
		panic(err)
	}
	tr.Op("reset", nil, nil)
}

func mkNeedle(id uint64, cookie uint32, data []byte) *needle.Needle {
	n := &needle.Needle{Id: types.NeedleId(id), Cookie: types.Cookie(cookie), Data: data}
	n.Checksum = needle.NewCRC(data)
	return n
}

func doPut(id uint64, cookie uint32, data []byte) {
	tr.Op("put", []string{hx.U(id), hx.U(uint64(cookie)), hx.Hex(data)}, hx.Guard(func() []string {
		if cur.store == nil {
			return []string{"nostore"}
		}
		unchanged, err := cur.store.WriteVolumeNeedle(1, mkNeedle(id, cookie, data), false)
		ds, is := sizes()
		st := "ok"
		if err != nil {
			st = "err"
		} else if unchanged {
			st = "unchanged"
		}
		return []string{st, hx.I(ds), hx.I(is)}
	}))
}

func doDel(id uint64, cookie uint32) {
	tr.Op("del", []string{hx.U(id), hx.U(uint64(cookie))}, hx.Guard(func() []string {
		if cur.store == nil {
			return []string{"nostore"}
		}
		sz, err := cur.store.DeleteVolumeNeedle(1, mkNeedle(id, cookie, nil))
		ds, is := sizes()
		st := hx.I(int64(sz))
		if err != nil {
			st = "err"
		}
		return []string{st, hx.I(ds), hx.I(is)}
	}))
}

func doSnap() {
	tr.Op("snap", nil, hx.Guard(func() []string {
		if cur.store == nil {
			return []string{"nostore"}
		}
		cur.store.Close()
		cur.store = nil
		var err error
		if cur.dat, err = os.ReadFile(filepath.Join(cur.dir, "1.dat")); err != nil {
			panic(err)
		}
		if cur.idx, err = os.ReadFile(filepath.Join(cur.dir, "1.idx")); err != nil {
			panic(err)
		}
		cur.snap = true
		return []string{hx.Hex(cur.dat), hx.Hex(cur.idx)}
	}))
}

func readTok(s *storage.Store, id uint64, cookie uint32) (res string) {
	defer func() {
		if r := recover(); r != nil {
			res = "panic"
		}
	}()
	n := &needle.Needle{Id: types.NeedleId(id)}
	cnt, err := s.ReadVolumeNeedle(1, n, nil)
	if err != nil {
		e := err.Error()
		switch {
		case err == storage.ErrorNotFound:
			return "notfound"
		case err == storage.ErrorDeleted:
			return "deleted"
		case strings.HasPrefix(e, "CRC error"):
			return "crc"
		case err == needle.ErrorSizeMismatch || strings.HasPrefix(e, "entry not found"):
			return "sizemismatch"
		case err == io.EOF:
			return "eof"
		case strings.HasSuffix(e, "not found"):
			return "novol"
		}
		return "err"
	}
	_ = cnt
	if n.Cookie != 0 && uint32(n.Cookie) != cookie && len(n.Data) > 0 {
		return "cookie"
	}
	return "d" + hx.Hex(n.Data)
}

const newId = 9000000 // beyond every id a history uses

var newData = []byte("after-crash")

// crashPoint reopens (dat[:p], idx[:q]) twice on separate copies: once directly through storage.NewVolume under
// recover (a panic inside the loader would otherwise kill the process from a Store goroutine), once through a Store.
func crashPoint(dat, idxb []byte, p, q int, ids []uint64, cookies map[uint64]uint32) []string {
	if p > len(dat) {
		p = len(dat)
	}
	if q > len(idxb) {
		q = len(idxb)
	}
	// A direct storage.NewVolume under recover only where the loader is known to be able to panic (index size not a
	// multiple of the entry size); everywhere else the load happens once, inside the Store (a panic there kills the
	// harness, which the check reports as a broken run).
	load := "ok"
	if q%int(types.NeedleMapEntrySize) != 0 {
		load = func() (st string) {
			dir := newDir()
			defer os.RemoveAll(dir)
			os.WriteFile(filepath.Join(dir, "1.dat"), dat[:p], 0644)
			os.WriteFile(filepath.Join(dir, "1.idx"), idxb[:q], 0644)
			defer func() {
				if r := recover(); r != nil {
					if os.Getenv("C03_SHOWPANIC") != "" {
						fmt.Fprintf(os.Stderr, "PANIC %v\n%s\n", r, debug.Stack())
					}
					st = "panic"
				}
			}()
			v, err := storage.NewVolume(dir, dir, "", 1, storage.NeedleMapInMemory, nil, nil, 0, 0)
			if err != nil {
				return "failed"
			}
			v.Close()
			return "ok"
		}()
	}
	out := []string{load}
	if load == "panic" {
		// the same load inside a Store would take the whole process down
		out = append(out, "0", "0", "0")
		for _, id := range ids {
			out = append(out, fmt.Sprintf("%d:novol", id))
		}
		return append(out, "w:novol", "rb:novol", "0", "0")
	}
	dir := newDir()
	defer os.RemoveAll(dir)
	datPath, idxPath := filepath.Join(dir, "1.dat"), filepath.Join(dir, "1.idx")
	os.WriteFile(datPath, dat[:p], 0644)
	os.WriteFile(idxPath, idxb[:q], 0644)
	s := newStore(dir)
	if s.GetVolume(1) == nil {
		out[0] = "failed"
	}
	fsz := func(pth string) string {
		st, err := os.Stat(pth)
		if err != nil {
			return "0"
		}
		return hx.I(st.Size())
	}
	ro := "0"
	if v := s.GetVolume(1); v != nil {
		func() {
			defer func() { recover() }()
			if v.IsReadOnly() {
				ro = "1"
			}
		}()
	}
	out = append(out, ro, fsz(datPath), fsz(idxPath))
	for _, id := range ids {
		out = append(out, fmt.Sprintf("%d:%s", id, readTok(s, id, cookies[id])))
	}
	// the volume must accept and serve a new write
	w := func() (res string) {
		defer func() {
			if r := recover(); r != nil {
				res = "panic"
			}
		}()
		_, err := s.WriteVolumeNeedle(1, mkNeedle(newId, 0x1234, newData), false)
		if err != nil {
			e := err.Error()
			switch {
			case strings.HasSuffix(e, "is read only"):
				return "readonly"
			case strings.Contains(e, "not found on"):
				return "novol"
			}
			return "err"
		}
		return "ok"
	}()
	out = append(out, "w:"+w, "rb:"+readTok(s, newId, 0x1234))
	s.Close()
	out = append(out, fsz(datPath), fsz(idxPath))
	return out
}

type cp struct{ p, q int }

func runCrashes(points []cp, ids []uint64, cookies map[uint64]uint32) {
	res := make([][]string, len(points))
	var wg sync.WaitGroup
	sem := make(chan struct{}, 12)
	for i := range points {
		wg.Add(1)
		sem <- struct{}{}
		go func(i int) {
			defer wg.Done()
			defer func() { <-sem }()
			res[i] = crashPoint(cur.dat, cur.idx, points[i].p, points[i].q, ids, cookies)
		}(i)
	}
	wg.Wait()
	idTok := make([]string, len(ids))
	for i, id := range ids {
		idTok[i] = hx.U(id)
	}
	for i, pt := range points {
		tr.Op("crash", []string{hx.I(int64(pt.p)), hx.I(int64(pt.q)), strings.Join(idTok, ",")}, res[i])
	}
}

func cookieOf(id uint64) uint32 { return uint32(0x11110000 + id) }

func main() {
	a := hx.ParseArgs()
	tr = hx.NewTrace(a.Out)
	defer tr.Close()
	var err error
	tmpRoot, err = os.MkdirTemp("", "c03")
	if err != nil {
		panic(err)
	}
	defer os.RemoveAll(tmpRoot)
	tr.Comment(fmt.Sprintf("c03 seed=%d tier=%s", a.Seed, a.Tier))
	tr.Op("config", []string{hx.I(int64(types.OffsetSize)), hx.I(int64(idx.RowsToRead))}, nil)
	if a.Ops != "" {
		replay(hx.ReadOps(a.Ops))
		closeCur()
		return
	}
	r := hx.NewRng(a.Seed)
	nhist := 4
	if a.Thorough() {
		nhist = 40
	}
	nhist *= a.Budget
	for h := 0; h < nhist; h++ {
		doReset()
		nops := 1 + r.Intn(6)
		if h == 0 {
			nops = 0 // a freshly created volume
		}
		nextId := uint64(1)
		live := map[uint64]bool{}
		type opEnd struct{ dat, idx int64 }
		var ends []opEnd
		for k := 0; k < nops; k++ {
			// ids are first used in ascending order (the in-memory map's out-of-order path belongs to C05)
			var id uint64
			if nextId <= 3 && (nextId == 1 || r.Chance(1, 2)) {
				id = nextId
				nextId++
			} else {
				id = 1 + uint64(r.Intn(int(nextId-1)))
			}
			if live[id] && r.Chance(2, 5) {
				doDel(id, cookieOf(id))
				live[id] = false
			} else {
				var data []byte
				switch r.Intn(6) {
				case 0:
					data = nil
				case 1:
					data = r.Bytes(1)
				default:
					data = r.Bytes(1 + r.Intn(24))
				}
				doPut(id, cookieOf(id), data)
				live[id] = len(data) > 0
			}
			ds, is := sizes()
			ends = append(ends, opEnd{ds, is})
		}
		doSnap()
		ids := []uint64{}
		cookies := map[uint64]uint32{}
		for id := uint64(1); id < nextId; id++ {
			ids = append(ids, id)
			cookies[id] = cookieOf(id)
		}
		if len(ids) == 0 {
			ids = []uint64{1}
			cookies[1] = cookieOf(1)
		}
		// crash points: every byte of .dat past the super block x every idx prefix length (entry-aligned, and torn
		// ones on a sample) such that every index byte present belongs to an entry whose record is complete in .dat
		es := int(types.NeedleMapEntrySize)
		var pts []cp
		for p := 8; p <= len(cur.dat); p++ {
			maxQ := 0
			for _, e := range ends {
				if e.dat <= int64(p) && int(e.idx) > maxQ {
					maxQ = int(e.idx)
				}
			}
			for q := 0; q <= maxQ; q++ {
				if q%es == 0 {
					pts = append(pts, cp{p, q})
				} else if a.Thorough() || (p+q)%7 == 0 {
					if q%es == 1 || q%es == 8 || q%es == es-1 || a.Thorough() && (p%3 == 0) {
						pts = append(pts, cp{p, q})
					}
				}
			}
			// (outside the property's quantifier, for the model correspondence only: index entries AHEAD of the data
			// file exercise the EOF / index-truncation branch of the integrity check)
			if p%11 == 0 || a.Thorough() && p%2 == 0 {
				for _, q := range []int{maxQ + es, maxQ + 2*es, len(cur.idx)} {
					if q > maxQ && q <= len(cur.idx) {
						pts = append(pts, cp{p, q})
					}
				}
			}
		}
		sort.Slice(pts, func(i, j int) bool {
			if pts[i].p != pts[j].p {
				return pts[i].p < pts[j].p
			}
			return pts[i].q < pts[j].q
		})
		runCrashes(pts, ids, cookies)
	}
	longHistory(r, a)
	closeCur()
}

// longHistory: one history per run that is long enough to cross the index reader's batch size
// (idx.RowsToRead entries per ReadAt in WalkIndexFile): tiny needles, crash points at exactly
// k*RowsToRead-1, k*RowsToRead, k*RowsToRead+1 index entries (data file cut at the end of that record and 11 bytes
// into the next one), plus the complete files.
func longHistory(r *hx.Rng, a *hx.Args) {
	rows := int(idx.RowsToRead)
	if rows < 1 || rows > 8192 {
		return
	}
	kmax := 1
	if a.Thorough() {
		kmax = 2
	}
	doReset()
	nops := kmax*rows + 3 + r.Intn(6)
	type opEnd struct{ dat, idx int64 }
	var ends []opEnd
	nextId := uint64(1)
	var opId []uint64 // id written by the k-th operation (0 = a delete)
	for k := 0; k < nops; k++ {
		opId = append(opId, 0)
		if k > 8 && r.Chance(1, 200) {
			did := uint64(1 + r.Intn(int(nextId-1)))
			doDel(did, cookieOf(did))
		} else {
			doPut(nextId, cookieOf(nextId), r.Bytes(1+r.Intn(2)))
			opId[k] = nextId
			nextId++
		}
		ds, is := sizes()
		ends = append(ends, opEnd{ds, is})
	}
	doSnap()
	es := int(types.NeedleMapEntrySize)
	var pts []cp
	var idset = map[uint64]bool{1: true, 2: true, nextId - 1: true}
	for k := 1; k <= kmax; k++ {
		for _, c := range []int{k*rows - 1, k * rows, k*rows + 1} {
			for _, e := range ends {
				if int(e.idx) == c*es {
					pts = append(pts, cp{int(e.dat), c * es}, cp{int(e.dat) + 11, c * es})
					break
				}
			}
			// the blobs written by the operations around the cut
			for k := c - 3; k <= c+1; k++ {
				if k >= 0 && k < len(opId) && opId[k] != 0 {
					idset[opId[k]] = true
				}
			}
		}
	}
	pts = append(pts, cp{len(cur.dat), len(cur.idx)})
	var ids []uint64
	cookies := map[uint64]uint32{}
	for id := range idset {
		ids = append(ids, id)
		cookies[id] = cookieOf(id)
	}
	sort.Slice(ids, func(i, j int) bool { return ids[i] < ids[j] })
	runCrashes(pts, ids, cookies)
}

func replay(ops [][]string) {
	pu := func(s string) uint64 { v, _ := strconv.ParseUint(s, 10, 64); return v }
	for _, op := range ops {
		switch op[0] {
		case "reset":
			doReset()
		case "put":
			doPut(pu(op[1]), uint32(pu(op[2])), hx.UnHex(op[3]))
		case "del":
			doDel(pu(op[1]), uint32(pu(op[2])))
		case "snap":
			doSnap()
		case "crash":
			if !cur.snap {
				tr.Op("crash", op[1:], []string{"nosnap"})
				continue
			}
			var ids []uint64
			cookies := map[uint64]uint32{}
			for _, t := range strings.Split(op[3], ",") {
				ids = append(ids, pu(t))
				cookies[pu(t)] = cookieOf(pu(t))
			}
			runCrashes([]cp{{int(pu(op[1])), int(pu(op[2]))}}, ids, cookies)
		}
	}
}
