// c19: correspondence harness for C19 (directory listings are exact, ordered and paginate completely).
// Drives the REAL Filer.StreamListDirectoryEntries over the real leveldb / leveldb2 / leveldb3 stores
// (temp dirs) and over a harness in-memory store that returns ErrUnsupportedListDirectoryPrefixed,
// which forces FilerStoreWrapper.prefixFilterEntries (the generic path).
//
// ops:  reset <kind>                                     kind ∈ leveldb leveldb2 leveldb3 mem
//
//	md5 <strhex> <md5hex>                            hash oracle for the md5-keyed stores
//	put <dirhex> <namehex> <expired 0|1>             => ok|err
//	list <dir> <start> <incl> <limit> <prefix> <pattern> <exclude> => ok|err <last> <name>...
//	pagebegin / pageend <dir> <prefix> <pattern> <exclude>   brackets a full pagination run
package main

import (
	"context"
	"crypto/md5"
	"errors"
	"fmt"
	"os"
	"sort"
	"strconv"
	"strings"
	"time"

	"github.com/chrislusf/seaweedfs/weed/filer"
	"github.com/chrislusf/seaweedfs/weed/filer/leveldb"
	leveldb2 "github.com/chrislusf/seaweedfs/weed/filer/leveldb2"
	leveldb3 "github.com/chrislusf/seaweedfs/weed/filer/leveldb3"
	"github.com/chrislusf/seaweedfs/weed/pb/filer_pb"
	"github.com/chrislusf/seaweedfs/weed/util"

	"verifharness/hx"
)

// ---------------------------------------------------------------- in-memory reference store
// Sorted keys dir\0name, ListDirectoryEntries = the leveldb loop without a name prefix;
// ListDirectoryPrefixedEntries is unsupported (like redis/cassandra/etcd/mongodb/elastic).
type memStore struct {
	keys  []string
	vals  map[string]*filer.Entry
	calls int // ListDirectoryEntries calls since the last request started (hang guard)
}

const memCallCap = 200

const listTimeout = 10 * time.Second

var errHang = errors.New("hang: store call cap reached")

func (m *memStore) GetName() string                             { return "mem" }
func (m *memStore) Initialize(util.Configuration, string) error { return nil }
func (m *memStore) key(fp util.FullPath) string                 { d, n := fp.DirAndName(); return d + "\x00" + n }
func (m *memStore) InsertEntry(_ context.Context, e *filer.Entry) error {
	k := m.key(e.FullPath)
	if _, ok := m.vals[k]; !ok {
		i := sort.SearchStrings(m.keys, k)
		m.keys = append(m.keys, "")
		copy(m.keys[i+1:], m.keys[i:])
		m.keys[i] = k
	}
	c := *e
	m.vals[k] = &c
	return nil
}
func (m *memStore) UpdateEntry(ctx context.Context, e *filer.Entry) error {
	return m.InsertEntry(ctx, e)
}
func (m *memStore) FindEntry(_ context.Context, fp util.FullPath) (*filer.Entry, error) {
	if e, ok := m.vals[m.key(fp)]; ok {
		c := *e
		return &c, nil
	}
	return nil, filer_pb.ErrNotFound
}
func (m *memStore) DeleteEntry(_ context.Context, fp util.FullPath) error {
	k := m.key(fp)
	if _, ok := m.vals[k]; ok {
		i := sort.SearchStrings(m.keys, k)
		m.keys = append(m.keys[:i], m.keys[i+1:]...)
		delete(m.vals, k)
	}
	return nil
}
func (m *memStore) DeleteFolderChildren(context.Context, util.FullPath) error { return nil }
func (m *memStore) ListDirectoryEntries(_ context.Context, dirPath util.FullPath, startFileName string, includeStartFile bool, limit int64, each filer.ListEachEntryFunc) (lastFileName string, err error) {
	m.calls++
	if m.calls > memCallCap {
		return "", errHang
	}
	dp := string(dirPath) + "\x00"
	// iterate over a snapshot (like a leveldb iterator): the callback may delete entries
	snap := append([]string(nil), m.keys[sort.SearchStrings(m.keys, dp+startFileName):]...)
	for _, k := range snap {
		if !strings.HasPrefix(k, dp) {
			break
		}
		name := k[strings.LastIndexByte(k, 0)+1:]
		if name == "" {
			continue
		}
		if name == startFileName && !includeStartFile {
			continue
		}
		limit--
		if limit < 0 {
			break
		}
		lastFileName = name
		e, ok := m.vals[k]
		if !ok {
			continue
		}
		c := *e
		if !each(&c) {
			break
		}
	}
	return lastFileName, nil
}
func (m *memStore) ListDirectoryPrefixedEntries(context.Context, util.FullPath, string, bool, int64, string, filer.ListEachEntryFunc) (string, error) {
	return "", filer.ErrUnsupportedListDirectoryPrefixed
}
func (m *memStore) BeginTransaction(ctx context.Context) (context.Context, error) { return ctx, nil }
func (m *memStore) CommitTransaction(context.Context) error                       { return nil }
func (m *memStore) RollbackTransaction(context.Context) error                     { return nil }
func (m *memStore) KvPut(context.Context, []byte, []byte) error                   { return nil }
func (m *memStore) KvGet(context.Context, []byte) ([]byte, error)                 { return nil, filer.ErrKvNotFound }
func (m *memStore) KvDelete(context.Context, []byte) error                        { return nil }
func (m *memStore) Shutdown()                                                     {}

// ---------------------------------------------------------------- stores
type conf map[string]string

func (c conf) GetString(k string) string      { return c[k] }
func (c conf) GetBool(string) bool            { return false }
func (c conf) GetInt(string) int              { return 0 }
func (c conf) GetStringSlice(string) []string { return nil }
func (c conf) SetDefault(string, interface{}) {}

type inst struct {
	f        *filer.Filer
	mem      *memStore
	inserted map[string]bool
}

var (
	tr     *hx.Trace
	tmpDir string
	insts  = map[string]*inst{}
	cur    *inst
	curK   string
	ctx    = context.Background()
	md5Out = map[string]bool{}
)

func getInst(kind string) *inst {
	if i, ok := insts[kind]; ok {
		return i
	}
	var st filer.FilerStore
	var mem *memStore
	dir := tmpDir + "/" + kind
	switch kind {
	case "leveldb":
		st = &leveldb.LevelDBStore{}
	case "leveldb2":
		st = &leveldb2.LevelDB2Store{}
	case "leveldb3":
		st = &leveldb3.LevelDB3Store{}
	case "mem":
		mem = &memStore{vals: map[string]*filer.Entry{}}
		st = mem
	default:
		panic("kind " + kind)
	}
	if err := st.Initialize(conf{"x.dir": dir}, "x."); err != nil {
		panic(err)
	}
	f := filer.NewFiler(nil, nil, "", 0, "", "", "", nil)
	f.SetStore(st)
	i := &inst{f: f, mem: mem, inserted: map[string]bool{}}
	insts[kind] = i
	return i
}

func doReset(kind string) {
	cur = getInst(kind)
	curK = kind
	for p := range cur.inserted {
		cur.f.Store.DeleteEntry(ctx, util.FullPath(p))
	}
	cur.inserted = map[string]bool{}
	md5Out = map[string]bool{}
	tr.Op("reset", []string{kind}, nil)
}

func emitMd5(s string) {
	if md5Out[s] {
		return
	}
	md5Out[s] = true
	h := md5.Sum([]byte(s))
	tr.Op("md5", []string{hx.HexS(s), hx.Hex(h[:])}, nil)
}

// md5 oracle lines for every string the stores may hash for this directory
func emitMd5For(dir string) {
	emitMd5(dir)
	if strings.HasPrefix(dir, "/buckets/") {
		rest := dir[len("/buckets/"):]
		if t := strings.Index(rest, "/"); t > 0 {
			emitMd5(rest[t:])
		} else {
			emitMd5("/")
		}
	}
}

var oldTime = time.Unix(946684800, 0) // 2000-01-01: with TtlSec=1 long expired

func doPut(dir, name string, expired bool) {
	emitMd5For(dir)
	e := &filer.Entry{FullPath: util.NewFullPath(dir, name), Attr: filer.Attr{Mode: 0644, Crtime: oldTime, Mtime: oldTime}}
	if expired {
		e.TtlSec = 1
	}
	err := cur.f.Store.InsertEntry(ctx, e)
	cur.inserted[string(e.FullPath)] = true
	tr.Op("put", []string{hx.HexS(dir), hx.HexS(name), hx.B(expired)}, []string{hx.Err(err)})
}

// doList runs one real listing; returns the names passed to the callback and the status
func doList(dir, start string, incl bool, limit int64, prefix, pattern, exclude string) (names []string, ok bool) {
	emitMd5For(dir)
	if cur.mem != nil {
		cur.mem.calls = 0
	}
	var err error
	// watchdog: a listing that does not come back (a refill loop that never advances) is reported as
	// `hang`; the process then stops, because the stuck goroutine cannot be cancelled
	done := make(chan []string, 1)
	go func() {
		done <- hx.Guard(func() []string {
			var got []string
			l, e := cur.f.StreamListDirectoryEntries(ctx, util.FullPath(dir), start, incl, limit, prefix, pattern, exclude, func(e *filer.Entry) bool {
				got = append(got, e.Name())
				return true
			})
			err, names = e, got
			o := []string{hx.Err(e), hx.HexS(l)}
			for _, n := range got {
				o = append(o, hx.HexS(n))
			}
			return o
		})
	}()
	var outs []string
	select {
	case outs = <-done:
	case <-time.After(listTimeout):
		tr.Op("list", []string{hx.HexS(dir), hx.HexS(start), hx.B(incl), hx.I(limit), hx.HexS(prefix), hx.HexS(pattern), hx.HexS(exclude)}, []string{"hang"})
		tr.Close()
		os.RemoveAll(tmpDir)
		os.Exit(0)
	}
	tr.Op("list", []string{hx.HexS(dir), hx.HexS(start), hx.B(incl), hx.I(limit), hx.HexS(prefix), hx.HexS(pattern), hx.HexS(exclude)}, outs)
	return names, err == nil && (len(outs) == 0 || outs[0] == "ok")
}

// full pagination: follow the last returned name until a page comes back empty
func doPaginate(dir string, limit int64, prefix, pattern, exclude string, reput func()) {
	tr.Op("pagebegin", nil, nil)
	start := ""
	for page := 0; page < 40; page++ {
		if reput != nil && page == 0 {
			reput()
		}
		names, ok := doList(dir, start, false, limit, prefix, pattern, exclude)
		if !ok || len(names) == 0 {
			break
		}
		start = names[len(names)-1]
	}
	tr.Op("pageend", []string{hx.HexS(dir), hx.HexS(prefix), hx.HexS(pattern), hx.HexS(exclude)}, nil)
}

// ---------------------------------------------------------------- generation
var baseNames []string

func init() {
	for _, l := range []int{1, 2, 3} {
		var rec func(p string)
		rec = func(p string) {
			if len(p) == l {
				baseNames = append(baseNames, p)
				return
			}
			rec(p + "a")
			rec(p + "b")
		}
		rec("")
	}
}

var specialNames = []string{"\x01", "a\x01", "a\x7f", "ab\x01", "b\x01a", "~", "A", "ab.c", "c", "\xc3\xbf", "a\xc3\xbf"}
var nulNames = []string{"a\x00", "\x00b", "a\x00b"}
var absentStarts = []string{"0", "a0", "aa0", "aa~", "ab0", "ab~", "b0", "bbc", "bz", "a1", "z", "a\x01\x01"}
var prefixes = []string{"", "a", "ab", "b", "c", "aa", "a\x01"}
var patterns = []string{"", "a*", "?b", "*", "", "a*", "?b", "*", "*b", "a?", "ab*", "b*a", "a*b", "??", "?*", "a?*", "ab", "*a*"}
var patternsNoQ = []string{"", "a*", "*", "*b", "ab*", "b*a", "a*b", "ab", "*a*"}
var excludes = []string{"", "", "*b", "", "a*", "?a", "ab"}
var excludesNoQ = []string{"", "", "*b", "", "a*", "ab"}
var limits = []int64{0, 1, 2, 3, 4, 1024, 1, 2, 3}
var dirs = []string{"/d", "/d", "/buckets/bk/d", "/buckets/bk", "/"}

type dcase struct {
	dir     string
	names   []string
	expired map[string]bool
}

func hasHigh(names []string) bool {
	for _, n := range names {
		for i := 0; i < len(n); i++ {
			if n[i] >= 0x80 {
				return true
			}
		}
	}
	return false
}

func runCase(r *hx.Rng, kind string, c dcase, nreq, npag int) {
	doReset(kind)
	for _, n := range c.names {
		doPut(c.dir, n, c.expired[n])
	}
	// foreign keys around the directory: sibling with a longer name, a child directory, the directory's own entry
	if c.dir != "/" {
		pd, pn := util.FullPath(c.dir).DirAndName()
		doPut(pd, pn, false)
		doPut(pd, pn+"2", false)
		for _, n := range []string{"a", "ab", "b"} {
			if r.Chance(1, 2) {
				doPut(c.dir+"2", n, false)
			}
			if r.Chance(1, 2) {
				doPut(c.dir+"/sub", n, false)
			}
		}
	} else {
		doPut("/d", "a", false)
		doPut("/d", "b", false)
	}
	reput := func() {
		for _, n := range c.names {
			if c.expired[n] {
				doPut(c.dir, n, true)
			}
		}
	}
	high := hasHigh(c.names)
	pats, excs := patterns, excludes
	if high {
		pats, excs = patternsNoQ, excludesNoQ
	}
	starts := append([]string{"", "", ""}, c.names...)
	starts = append(starts, absentStarts...)
	for i := 0; i < nreq; i++ {
		if len(c.expired) > 0 {
			reput()
		}
		prefix, pattern, exclude := "", "", ""
		switch r.Intn(8) {
		case 0, 1, 2:
			prefix = r.Pick(prefixes)
		case 3, 4:
			pattern = r.Pick(pats)
		case 5:
			pattern = r.Pick(pats)
			exclude = r.Pick(excs)
		case 6:
			prefix = r.Pick(prefixes)
			exclude = r.Pick(excs)
		case 7:
			prefix = r.Pick(prefixes)
			pattern = r.Pick(pats)
			exclude = r.Pick(excs)
		}
		doList(c.dir, r.Pick(starts), r.Bool(), limits[r.Intn(len(limits))], prefix, pattern, exclude)
	}
	for i := 0; i < npag; i++ {
		prefix, pattern, exclude := "", "", ""
		switch r.Intn(4) {
		case 0:
			prefix = r.Pick(prefixes)
		case 1:
			pattern = r.Pick(pats)
		case 2:
			pattern = r.Pick(pats)
			exclude = r.Pick(excs)
		}
		var rp func()
		if len(c.expired) > 0 {
			rp = reput
		}
		doPaginate(c.dir, int64(1+r.Intn(4)), prefix, pattern, exclude, rp)
	}
}

func subsets(pool []string, maxSize int, f func([]string)) {
	var rec func(i int, cur []string)
	rec = func(i int, cur []string) {
		if i == len(pool) {
			f(append([]string(nil), cur...))
			return
		}
		rec(i+1, cur)
		if len(cur) < maxSize {
			rec(i+1, append(cur, pool[i]))
		}
	}
	rec(0, nil)
}

func main() {
	a := hx.ParseArgs()
	tr = hx.NewTrace(a.Out)
	defer tr.Close()
	var err error
	tmpDir, err = os.MkdirTemp("", "c19")
	if err != nil {
		panic(err)
	}
	defer os.RemoveAll(tmpDir)
	defer func() {
		for _, i := range insts {
			i.f.Store.Shutdown()
		}
	}()
	tr.Comment(fmt.Sprintf("c19 seed=%d tier=%s", a.Seed, a.Tier))
	if a.Ops != "" {
		replay(hx.ReadOps(a.Ops))
		return
	}
	r := hx.NewRng(a.Seed)
	kinds := []string{"leveldb", "leveldb2", "leveldb3", "mem"}

	// (1) bounded-exhaustive: every subset of the 14 names over {a,b} up to size K, rotating over stores/dirs
	maxSize, every := 3, 1
	if a.Thorough() {
		maxSize = len(baseNames) // every subset of the 14 names; over seeds 1..4 each subset meets each store
	}
	n := 0
	subsets(baseNames, maxSize, func(names []string) {
		n++
		if n%every != 0 {
			return
		}
		kind := kinds[(n+int(a.Seed))%len(kinds)]
		c := dcase{dir: dirs[r.Intn(len(dirs))], names: names, expired: map[string]bool{}}
		if r.Chance(1, 3) {
			for _, x := range names {
				if r.Chance(1, 3) {
					c.expired[x] = true
				}
			}
		}
		runCase(r, kind, c, 6, 1)
	})
	// (2) random larger directories with special names, every store on the same directory
	for i := 0; i < a.N(60); i++ {
		var names []string
		for _, x := range baseNames {
			if r.Chance(2, 5) {
				names = append(names, x)
			}
		}
		for _, x := range specialNames {
			if r.Chance(1, 5) {
				names = append(names, x)
			}
		}
		exp := map[string]bool{}
		if r.Chance(1, 2) {
			for _, x := range names {
				if r.Chance(1, 4) {
					exp[x] = true
				}
			}
		}
		dir := dirs[r.Intn(len(dirs))]
		for _, kind := range kinds {
			nm := names
			if kind == "leveldb2" || kind == "leveldb3" {
				for _, x := range nulNames {
					if r.Chance(1, 6) {
						nm = append(append([]string(nil), nm...), x)
					}
				}
			}
			runCase(r, kind, dcase{dir: dir, names: nm, expired: exp}, 14, 3)
		}
	}
}

func replay(ops [][]string) {
	arg := func(o []string, i int) string {
		if i < len(o) {
			return o[i]
		}
		return "-"
	}
	for _, o := range ops {
		switch o[0] {
		case "reset":
			doReset(arg(o, 1))
		case "md5", "pagebegin":
			if o[0] == "pagebegin" {
				tr.Op("pagebegin", nil, nil)
			}
		case "pageend":
			tr.Op("pageend", o[1:], nil)
		case "put":
			if cur == nil {
				doReset("leveldb")
			}
			doPut(hx.UnHexS(arg(o, 1)), hx.UnHexS(arg(o, 2)), arg(o, 3) == "1")
		case "list":
			if cur == nil {
				doReset("leveldb")
			}
			lim, _ := strconv.ParseInt(arg(o, 4), 10, 64)
			doList(hx.UnHexS(arg(o, 1)), hx.UnHexS(arg(o, 2)), arg(o, 3) == "1", lim, hx.UnHexS(arg(o, 5)), hx.UnHexS(arg(o, 6)), hx.UnHexS(arg(o, 7)))
		}
	}
}
