// c37: correspondence harness for C37 (incremental volume backup converges to the source).
//
// Source: a REAL storage.Store with volume 1 in a temp dir (package vol of the C01 harness), served
// by an in-process VolumeServer (hook weed/server/verif_export_c01.go) whose gRPC service is
// registered on a loopback listener: VolumeSyncStatus and VolumeIncrementalCopy are the real RPCs.
// Backup: a second directory on which the harness runs the step sequence of `weed backup`
// (weed/command/backup.go runBackup, pinned by props/C37/extract.json) with the exported API:
//   GetVolumeSyncStatus → NewVolume → [revision < source's ⇒ Compact2 + CommitCompact + set revision]
//   → [datSize > TailOffset ⇒ Destroy + NewVolume] → IncrementalBackup → Close.
// The backup is read by opening a Store on its directory (what serving a backup means).
//
// Line protocol (stateful; every case starts with `reset`):
//   reset                 => ok
//   w <id> <ck> <data>    => <ok|cookie|err> <unchanged>
//   d <id> <ck>           => <ok|err> <size>
//   r <id> <ck>           => ok <count> <cookie> <data> | notfound -1 | deleted -1 | err 0      (source)
//   compact               => ok     (source: Compact2 + CommitCompact, nothing in between)
//   backup                => ok <compacted 0|1> <recreated 0|1> <backup .dat size> <source .dat size> | err <step>
//   br <id> <ck>          => like r, on the backup
package main

import (
	"context"
	"flag"
	"fmt"
	"net"
	"os"
	"strconv"
	"sync"

	"google.golang.org/grpc"

	"github.com/chrislusf/seaweedfs/weed/operation"
	"github.com/chrislusf/seaweedfs/weed/pb/volume_server_pb"
	weed_server "github.com/chrislusf/seaweedfs/weed/server"
	"github.com/chrislusf/seaweedfs/weed/storage"
	"github.com/chrislusf/seaweedfs/weed/storage/needle"
	"github.com/chrislusf/seaweedfs/weed/storage/super_block"
	"github.com/chrislusf/seaweedfs/weed/storage/types"
	"github.com/chrislusf/seaweedfs/weed/util"

	"verifharness/cmd/c01/vol"
	"verifharness/hx"
)

type line struct {
	op         string
	args, outs []string
}

// fwd forwards the two RPCs of the property to the VolumeServer of the current source store
type fwd struct {
	volume_server_pb.UnimplementedVolumeServerServer
	mu sync.Mutex
	vs *weed_server.VolumeServer
}

func (f *fwd) cur() *weed_server.VolumeServer { f.mu.Lock(); defer f.mu.Unlock(); return f.vs }
func (f *fwd) VolumeIncrementalCopy(req *volume_server_pb.VolumeIncrementalCopyRequest, stream volume_server_pb.VolumeServer_VolumeIncrementalCopyServer) error {
	return f.cur().VolumeIncrementalCopy(req, stream)
}
func (f *fwd) VolumeSyncStatus(ctx context.Context, req *volume_server_pb.VolumeSyncStatusRequest) (*volume_server_pb.VolumeSyncStatusResponse, error) {
	return f.cur().VolumeSyncStatus(ctx, req)
}

type runner struct {
	env    *vol.Env
	bdir   string
	lines  []line
	f      *fwd
	gs     *grpc.Server
	server string // "127.0.0.1:<grpc port - 10000>"
}

func newRunner() *runner {
	x := &runner{env: &vol.Env{}, f: &fwd{}}
	for {
		l, err := net.Listen("tcp", "127.0.0.1:0")
		if err != nil {
			panic(err)
		}
		p := l.Addr().(*net.TCPAddr).Port
		if p <= 10000 {
			l.Close()
			continue
		}
		x.gs = grpc.NewServer()
		volume_server_pb.RegisterVolumeServerServer(x.gs, x.f)
		go x.gs.Serve(l)
		x.server = "127.0.0.1:" + strconv.Itoa(p-10000)
		return x
	}
}

func (x *runner) close() {
	x.gs.Stop()
	x.env.Close()
	if x.bdir != "" {
		os.RemoveAll(x.bdir)
	}
}

func u64(s string) uint64 { v, _ := strconv.ParseUint(s, 10, 64); return v }

func readOuts(o []string) []string {
	if len(o) >= 4 && o[0] == "ok" {
		return o[:4]
	}
	return o
}

var dial = grpc.WithInsecure()

// backup mirrors runBackup (weed/command/backup.go) after the master lookup
func (x *runner) backup() []string {
	vid := vol.Vid
	stats, err := operation.GetVolumeSyncStatus(x.server, dial, uint32(vid))
	if err != nil || stats == nil {
		return []string{"err", "status"}
	}
	ttl, err := needle.ReadTTL(stats.Ttl)
	if err != nil {
		return []string{"err", "ttl"}
	}
	replication, err := super_block.NewReplicaPlacementFromString(stats.Replication)
	if err != nil {
		return []string{"err", "replication"}
	}
	v, err := storage.NewVolume(x.bdir, x.bdir, "", vid, storage.NeedleMapInMemory, replication, ttl, 0, 0)
	if err != nil {
		return []string{"err", "open"}
	}
	compacted, recreated := false, false
	if v.SuperBlock.CompactionRevision < uint16(stats.CompactRevision) {
		if err = v.Compact2(0, 0); err != nil {
			v.Close()
			return []string{"err", "compact"}
		}
		if err = v.CommitCompact(); err != nil {
			v.Close()
			return []string{"err", "commit"}
		}
		v.SuperBlock.CompactionRevision = uint16(stats.CompactRevision)
		v.DataBackend.WriteAt(v.SuperBlock.Bytes(), 0)
		compacted = true
	}
	datSize, _, _ := v.FileStat()
	if datSize > stats.TailOffset {
		v.Destroy()
		v, err = storage.NewVolume(x.bdir, x.bdir, "", vid, storage.NeedleMapInMemory, replication, ttl, 0, 0)
		if err != nil {
			return []string{"err", "recreate"}
		}
		recreated = true
	}
	if err := v.IncrementalBackup(x.server, dial); err != nil {
		v.Close()
		return []string{"err", "incremental"}
	}
	datSize, _, _ = v.FileStat()
	v.Close()
	return []string{"ok", hx.B(compacted), hx.B(recreated), hx.U(datSize), hx.U(stats.TailOffset)}
}

func (x *runner) backupRead(id uint64, ck uint32) []string {
	s := storage.NewStore(nil, 8081, "127.0.0.1", "127.0.0.1:8081", []string{x.bdir}, []int{4},
		[]util.MinFreeSpace{{}}, "", storage.NeedleMapInMemory, []types.DiskType{types.HardDriveType})
	defer s.Close()
	if s.GetVolume(vol.Vid) == nil {
		return []string{"notfound", "-1"} // no backup volume yet
	}
	n := vol.NewNeedle(id, ck, nil)
	count, err := s.ReadVolumeNeedle(vol.Vid, n, nil)
	switch {
	case err == nil:
		return []string{"ok", hx.I(int64(count)), hx.U(uint64(n.Cookie)), hx.Hex(n.Data)}
	case err == storage.ErrorNotFound:
		return []string{"notfound", "-1"}
	case err == storage.ErrorDeleted:
		return []string{"deleted", "-1"}
	}
	return []string{"err", "0"}
}

func (x *runner) exec(f []string) {
	op, a := f[0], f[1:]
	outs := hx.Guard(func() []string {
		switch op {
		case "reset":
			if err := x.env.Reset("mem", ""); err != nil {
				return []string{"err"}
			}
			x.f.mu.Lock()
			x.f.vs = x.env.VS
			x.f.mu.Unlock()
			if x.bdir != "" {
				os.RemoveAll(x.bdir)
			}
			d, err := os.MkdirTemp("", "c37b-")
			if err != nil {
				return []string{"err"}
			}
			x.bdir = d
			return []string{"ok"}
		case "w":
			return x.env.Write(u64(a[0]), uint32(u64(a[1])), &vol.Content{Data: hx.UnHex(a[2])}, false)
		case "d":
			return x.env.Delete(u64(a[0]), uint32(u64(a[1])))
		case "r":
			return readOuts(x.env.Read(u64(a[0]), uint32(u64(a[1]))))
		case "compact":
			v := x.env.Store.GetVolume(vol.Vid)
			if v == nil {
				return []string{"novol"}
			}
			if err := v.Compact2(0, 0); err != nil {
				return []string{"err"}
			}
			if err := v.CommitCompact(); err != nil {
				return []string{"err"}
			}
			return []string{"ok"}
		case "backup":
			return x.backup()
		case "br":
			return x.backupRead(u64(a[0]), uint32(u64(a[1])))
		}
		return []string{"unknown-op"}
	})
	x.lines = append(x.lines, line{op, a, outs})
}

// ---- generators -------------------------------------------------------------------

const ck0 = uint32(0x51ab37)

func (x *runner) sweep(ids []uint64) {
	for _, id := range ids {
		x.exec([]string{"r", hx.U(id), hx.U(uint64(ck0))})
		x.exec([]string{"br", hx.U(id), hx.U(uint64(ck0))})
	}
}

func randData(rng *hx.Rng, sizes []int) []byte {
	switch {
	case rng.Chance(1, 8):
		return nil
	case rng.Chance(1, 2):
		// few distinct sizes: a compacted source and a stale backup then often have EQUAL .dat sizes
		return rng.Bytes(sizes[rng.Intn(len(sizes))])
	}
	return rng.Bytes(1 + rng.Intn(60))
}

// history: writes/deletes/[source compactions]/backup runs; every id is read on both sides after each backup
func history(x *runner, rng *hx.Rng, withCompaction bool) {
	x.exec([]string{"reset"})
	nid := 1 + rng.Intn(6)
	ids := make([]uint64, nid)
	for i := range ids {
		if rng.Bool() {
			ids[i] = 1 + uint64(rng.Intn(30))
		} else {
			ids[i] = 1 + rng.U64()%(1<<62)
		}
	}
	sizes := []int{3, 3 + 8*rng.Intn(3)}
	backups := 1 + rng.Intn(3)
	for b := 0; b < backups; b++ {
		n := rng.Intn(10)
		for k := 0; k < n; k++ {
			id := ids[rng.Intn(nid)]
			switch r := rng.Intn(100); {
			case r < 62:
				x.exec([]string{"w", hx.U(id), hx.U(uint64(ck0)), hx.Hex(randData(rng, sizes))})
			case r < 88:
				x.exec([]string{"d", hx.U(id), hx.U(uint64(ck0))})
			default:
				if withCompaction {
					x.exec([]string{"compact"})
				}
			}
		}
		if withCompaction && rng.Chance(1, 3) {
			x.exec([]string{"compact"})
		}
		x.exec([]string{"backup"})
		x.sweep(ids)
		if rng.Chance(1, 4) {
			x.exec([]string{"backup"}) // a second run without source changes
			x.sweep(ids)
		}
	}
}

// afterCompaction: the histories in which the documented local-compaction step of `weed backup`
// matters. Ids ascend and nothing is overwritten, so the index stays AppendAtNs-ordered across the
// source compaction (the recorded binary-search defects stay out of the way and the run is expected
// to converge):
//   writes, backup, [delete, fetched by a backup run or not], source compaction,
//   [a write before the next run], backup (local compaction, then delta copy / recreate / nothing),
//   backup again, one more write, backup; every id read on both sides after every run.
func afterCompaction(x *runner, rng *hx.Rng, variant int) {
	x.exec([]string{"reset"})
	var ids []uint64
	next := uint64(1 + rng.Intn(5))
	write := func(size int) {
		ids = append(ids, next)
		x.exec([]string{"w", hx.U(next), hx.U(uint64(ck0)), hx.Hex(rng.Bytes(size))})
		next += 1 + uint64(rng.Intn(3))
	}
	size := func() int {
		if rng.Chance(1, 3) {
			return 1000 + rng.Intn(3000)
		}
		return 1 + rng.Intn(60)
	}
	write(1000 + rng.Intn(3000))
	for k := rng.Intn(3); k >= 0; k-- {
		write(size())
	}
	x.exec([]string{"backup"})
	x.sweep(ids)
	del := variant&1 != 0 || rng.Chance(1, 3)
	fetched := variant&2 != 0
	writeAfter := variant&4 != 0 || !del
	if del {
		x.exec([]string{"d", hx.U(ids[rng.Intn(len(ids)-1)]), hx.U(uint64(ck0))}) // never the last record
		if fetched {
			x.exec([]string{"backup"})
			x.sweep(ids)
		}
	}
	x.exec([]string{"compact"})
	if writeAfter {
		for k := rng.Intn(2); k >= 0; k-- {
			write(size())
		}
	}
	x.exec([]string{"backup"})
	x.sweep(ids)
	x.exec([]string{"backup"}) // an idle run
	x.sweep(ids)
	write(size())
	x.exec([]string{"backup"})
	x.sweep(ids)
}

type task func(x *runner, rng *hx.Rng)

func main() {
	a := hx.ParseArgs()
	flag.Set("alsologtostderr", "false")
	flag.Set("stderrthreshold", "FATAL")
	tr := hx.NewTrace(a.Out)
	defer tr.Close()
	if a.Ops != "" {
		x := newRunner()
		for _, f := range hx.ReadOps(a.Ops) {
			x.exec(f)
		}
		x.close()
		for _, l := range x.lines {
			tr.Op(l.op, l.args, l.outs)
		}
		return
	}
	var tasks []task
	for i := 0; i < a.N(160); i++ {
		i := i
		tasks = append(tasks, func(x *runner, rng *hx.Rng) { history(x, rng, i%2 == 0) })
	}
	for i := 0; i < a.N(32); i++ {
		i := i
		tasks = append(tasks, func(x *runner, rng *hx.Rng) { afterCompaction(x, rng, i%8) })
	}
	results := make([]chan []line, len(tasks))
	for i := range results {
		results[i] = make(chan []line, 1)
	}
	next := make(chan int, len(tasks))
	for i := range tasks {
		next <- i
	}
	close(next)
	var wg sync.WaitGroup
	for wk := 0; wk < 8; wk++ {
		wg.Add(1)
		go func() {
			defer wg.Done()
			x := newRunner()
			for i := range next {
				x.lines = nil
				tasks[i](x, hx.NewRng(a.Seed*1000003+uint64(i)))
				results[i] <- x.lines
			}
			x.close()
		}()
	}
	for i := range tasks {
		for _, l := range <-results[i] {
			tr.Op(l.op, l.args, l.outs)
		}
	}
	wg.Wait()
	if tr.Lines == 0 {
		fmt.Fprintln(os.Stderr, "no history ran")
		os.Exit(2)
	}
}
