// c02: correspondence harness for C02 (needle on-disk encoding round-trips and is self-checking).
// Runs the REAL Needle.Append / ReadData / ReadBytes / ScanVolumeFileFrom / PaddingLength... / NewCRC
// of /repo on a scratch data file; one trace line per call.
//
//	config <OffsetSize>
//	sizes <size> <ver>                => <padding> <bodyLength> <actualSize>
//	crc <hex>                         => <raw crc32c> <CRC.Value()>
//	reset <ver> <prefix-hex>          =>                      new scratch file starting with the prefix (super block stand-in)
//	app <cookie> <id> <flags> <data> <name> <mime> <lastModified> <ttl nil|c:u> <pairs> <pairsSize> <appendAtNs>
//	                                  => <ok|err> <offset> <returned size> <actualSize> <n.Size> <bytes written>
//	raw <hex>                         => <file size>          append raw bytes at the true end of the file
//	trunc <n>                         => <file size>
//	rd <offset> <size>                => ok <fields…> | sizemismatch | errK | crc | eof | panic    (Needle.ReadData)
//	flips <offset> <size>             => <one status letter per bit of the record>  (Needle.ReadBytes on a copy with that bit flipped)
//	scan <offset> <readBody 0|1>      => <ok|err|panic> <visit>…    (ScanVolumeFileFrom visitor calls)
package main

import (
	"bytes"
	"fmt"
	"io"
	"os"
	"strconv"
	"strings"
	"time"

	"github.com/chrislusf/seaweedfs/weed/storage"
	"github.com/chrislusf/seaweedfs/weed/storage/backend"
	"github.com/chrislusf/seaweedfs/weed/storage/needle"
	"github.com/chrislusf/seaweedfs/weed/storage/super_block"
	"github.com/chrislusf/seaweedfs/weed/storage/types"

	"verifharness/hx"
)

var tr *hx.Trace
var tmpDir string
var curPath string
var curVer needle.Version
var fileNo int

type appended struct {
	off  int64
	size int32
}

var recs []appended

func openDF() (*backend.DiskFile, *os.File) {
	f, err := os.OpenFile(curPath, os.O_RDWR|os.O_CREATE, 0644)
	if err != nil {
		panic(err)
	}
	return backend.NewDiskFile(f), f
}

func fileSize() int64 {
	st, err := os.Stat(curPath)
	if err != nil {
		panic(err)
	}
	return st.Size()
}

func doSizes(size int32, ver int) {
	tr.Op("sizes", []string{hx.I(int64(size)), hx.I(int64(ver))}, hx.Guard(func() []string {
		return []string{hx.I(int64(needle.PaddingLength(types.Size(size), needle.Version(ver)))),
			hx.I(needle.NeedleBodyLength(types.Size(size), needle.Version(ver))),
			hx.I(needle.GetActualSize(types.Size(size), needle.Version(ver)))}
	}))
}

func doCrc(b []byte) {
	tr.Op("crc", []string{hx.Hex(b)}, hx.Guard(func() []string {
		c := needle.NewCRC(b)
		return []string{hx.U(uint64(uint32(c))), hx.U(uint64(c.Value()))}
	}))
}

func doReset(ver int, prefix []byte) {
	fileNo++
	if curPath != "" {
		os.Remove(curPath)
	}
	curPath = fmt.Sprintf("%s/f%d.dat", tmpDir, fileNo)
	curVer = needle.Version(ver)
	recs = nil
	if err := os.WriteFile(curPath, prefix, 0644); err != nil {
		panic(err)
	}
	tr.Op("reset", []string{hx.I(int64(ver)), hx.Hex(prefix)}, nil)
}

type ndl struct {
	cookie    uint32
	id        uint64
	flags     byte
	data      []byte
	name      []byte
	mime      []byte
	lm        uint64
	ttl       string
	pairs     []byte
	pairsSize uint16
	ts        uint64
}

func ttlTok(t *needle.TTL) string {
	if t == nil {
		return "nil"
	}
	return fmt.Sprintf("%d:%d", t.Count, t.Unit)
}

func parseTtl(s string) *needle.TTL {
	if s == "nil" {
		return nil
	}
	p := strings.Split(s, ":")
	c, _ := strconv.Atoi(p[0])
	u, _ := strconv.Atoi(p[1])
	return &needle.TTL{Count: byte(c), Unit: byte(u)}
}

func doApp(x ndl) (off int64, nsize int32, ok bool) {
	if overtime() {
		return
	}
	args := []string{hx.U(uint64(x.cookie)), hx.U(x.id), hx.I(int64(x.flags)), hx.Hex(x.data), hx.Hex(x.name), hx.Hex(x.mime), hx.U(x.lm), x.ttl,
		hx.Hex(x.pairs), hx.I(int64(x.pairsSize)), hx.U(x.ts)}
	tr.Op("app", args, hx.Guard(func() []string {
		n := &needle.Needle{Cookie: types.Cookie(x.cookie), Id: types.NeedleId(x.id), Flags: x.flags, Data: x.data, Name: x.name, Mime: x.mime,
			LastModified: x.lm, Ttl: parseTtl(x.ttl), Pairs: x.pairs, PairsSize: x.pairsSize, AppendAtNs: x.ts}
		n.Checksum = needle.NewCRC(n.Data) // as CreateNeedleFromRequest does
		df, f := openDF()
		defer f.Close()
		offset, size, actual, err := n.Append(df, curVer)
		if err != nil {
			return []string{"err"}
		}
		end := fileSize()
		buf := make([]byte, end-int64(offset))
		if _, err := f.ReadAt(buf, int64(offset)); err != nil {
			panic(err)
		}
		off, nsize, ok = int64(offset), int32(n.Size), true
		recs = append(recs, appended{off, nsize})
		return []string{"ok", hx.U(offset), hx.I(int64(size)), hx.I(actual), hx.I(int64(n.Size)), hx.Hex(buf)}
	}))
	return
}

func doRaw(b []byte) {
	if overtime() {
		return
	}
	tr.Op("raw", []string{hx.Hex(b)}, hx.Guard(func() []string {
		f, err := os.OpenFile(curPath, os.O_RDWR|os.O_APPEND, 0644)
		if err != nil {
			panic(err)
		}
		f.Write(b)
		f.Close()
		return []string{hx.I(fileSize())}
	}))
}

func doTrunc(n int64) {
	if overtime() {
		return
	}
	tr.Op("trunc", []string{hx.I(n)}, hx.Guard(func() []string {
		if n > fileSize() {
			n = fileSize()
		}
		if err := os.Truncate(curPath, n); err != nil {
			panic(err)
		}
		return []string{hx.I(fileSize())}
	}))
}

func errTok(err error) string {
	if err == nil {
		return "ok"
	}
	s := err.Error()
	switch {
	case err == needle.ErrorSizeMismatch || strings.HasPrefix(s, "entry not found"):
		return "sizemismatch"
	case strings.HasPrefix(s, "CRC error"):
		return "crc"
	case strings.HasPrefix(s, "index out of range"):
		return "err" + strings.TrimPrefix(s, "index out of range ")
	case err == io.EOF || err == io.ErrUnexpectedEOF:
		return "eof"
	}
	return "err"
}

func fields(n *needle.Needle) []string {
	return []string{hx.U(uint64(n.Cookie)), hx.U(uint64(n.Id)), hx.I(int64(n.Size)), hx.U(uint64(n.DataSize)), hx.Hex(n.Data), hx.I(int64(n.Flags)),
		hx.I(int64(n.NameSize)), hx.Hex(n.Name), hx.I(int64(n.MimeSize)), hx.Hex(n.Mime), hx.U(n.LastModified), ttlTok(n.Ttl),
		hx.I(int64(n.PairsSize)), hx.Hex(n.Pairs), hx.U(n.AppendAtNs)}
}

func doRd(off int64, size int32) {
	if overtime() {
		return
	}
	tr.Op("rd", []string{hx.I(off), hx.I(int64(size))}, hx.Guard(func() []string {
		df, f := openDF()
		defer f.Close()
		n := new(needle.Needle)
		err := n.ReadData(df, off, types.Size(size), curVer)
		if err != nil {
			return []string{errTok(err)}
		}
		return append([]string{"ok"}, fields(n)...)
	}))
}

// one letter per bit of the record: c = CRC error, s = size mismatch, e = parse error, p = panic,
// o = decoded to the same data, d = decoded WITHOUT error to different data, x = other error
func doFlips(off int64, size int32) {
	if overtime() {
		return
	}
	tr.Op("flips", []string{hx.I(off), hx.I(int64(size))}, hx.Guard(func() []string {
		df, f := openDF()
		defer f.Close()
		blob, err := needle.ReadNeedleBlob(df, off, types.Size(size), curVer)
		if err != nil {
			return []string{errTok(err)}
		}
		orig := new(needle.Needle)
		if err := orig.ReadBytes(append([]byte(nil), blob...), off, types.Size(size), curVer); err != nil {
			return []string{"orig-" + errTok(err)}
		}
		origData := append([]byte(nil), orig.Data...)
		var sb strings.Builder
		for i := 0; i < len(blob)*8; i++ {
			cp := append([]byte(nil), blob...)
			cp[i/8] ^= 1 << uint(i%8)
			st := hx.Guard(func() []string {
				n := new(needle.Needle)
				err := n.ReadBytes(cp, off, types.Size(size), curVer)
				switch errTok(err) {
				case "ok":
					if bytes.Equal(n.Data, origData) {
						return []string{"o"}
					}
					return []string{"d"}
				case "crc":
					return []string{"c"}
				case "sizemismatch":
					return []string{"s"}
				case "err":
					return []string{"x"}
				case "eof":
					return []string{"x"}
				}
				return []string{"e"}
			})[0]
			if st == "panic" {
				st = "p"
			}
			sb.WriteString(st)
		}
		return []string{sb.String()}
	}))
}

func needleScan(df *backend.DiskFile, off int64, vis *visitor) error {
	return storage.ScanVolumeFileFrom(curVer, df, off, vis)
}

type visitor struct {
	readBody bool
	out      []string
}

func (v *visitor) VisitSuperBlock(super_block.SuperBlock) error { return nil }
func (v *visitor) ReadNeedleBody() bool                         { return v.readBody }
func (v *visitor) VisitNeedle(n *needle.Needle, offset int64, hdr, body []byte) error {
	v.out = append(v.out, strings.Join([]string{hx.I(offset), hx.U(uint64(n.Cookie)), hx.U(uint64(n.Id)), hx.I(int64(n.Size)), hx.I(int64(len(body))),
		hx.U(uint64(n.DataSize)), hx.Hex(n.Data), hx.I(int64(n.Flags)), hx.Hex(n.Name), hx.Hex(n.Mime), hx.U(n.LastModified), ttlTok(n.Ttl), hx.Hex(n.Pairs), hx.U(n.AppendAtNs),
		hx.Hex(hdr)}, ","))
	return nil
}

func doScan(off int64, readBody bool) {
	if overtime() {
		return
	}
	tr.Op("scan", []string{hx.I(off), hx.B(readBody)}, hx.Guard(func() (outs []string) {
		df, f := openDF()
		defer f.Close()
		vis := &visitor{readBody: readBody}
		defer func() {
			if r := recover(); r != nil {
				outs = append([]string{"panic"}, vis.out...)
			}
		}()
		err := needleScan(df, off, vis)
		return append([]string{hx.Err(err)}, vis.out...)
	}))
}

// ---------------------------------------------------------------- generation

var lens = []int{0, 1, 7, 8, 9, 254, 255}

func genNeedle(r *hx.Rng, flags byte, wf bool) ndl {
	x := ndl{cookie: uint32(r.U64()), id: r.U64() >> uint(r.Intn(64)), flags: flags}
	switch r.Intn(6) {
	case 0:
		x.data = nil
	case 1:
		x.data = r.Bytes(1 + r.Intn(16))
	case 2:
		x.data = r.Bytes([]int{1, 2, 3, 7, 8, 9, 255, 256, 257}[r.Intn(9)])
	case 3:
		x.data = r.Bytes(r.Intn(3000))
	default:
		x.data = r.Bytes(r.Intn(80))
	}
	x.name = r.Bytes(lens[r.Intn(len(lens))])
	x.mime = r.Bytes(lens[r.Intn(len(lens))])
	if r.Chance(1, 3) {
		x.name = r.Bytes(r.Intn(20))
		x.mime = r.Bytes(r.Intn(20))
	}
	x.lm = r.U64() >> uint(24+r.Intn(40))
	if flags&needle.FlagHasTtl != 0 || r.Chance(1, 4) {
		x.ttl = fmt.Sprintf("%d:%d", r.Intn(256), r.Intn(8))
		if r.Chance(1, 8) {
			x.ttl = "0:0"
		}
	} else {
		x.ttl = "nil"
	}
	switch r.Intn(4) {
	case 0:
		x.pairs = nil
	case 1:
		x.pairs = r.Bytes(1 + r.Intn(30))
	case 2:
		x.pairs = r.Bytes([]int{255, 256, 257, 1000}[r.Intn(4)])
	default:
		x.pairs = r.Bytes(r.Intn(10))
	}
	x.pairsSize = uint16(len(x.pairs))
	x.ts = r.U64() >> uint(r.Intn(64))
	if !wf {
		switch r.Intn(5) {
		case 0:
			x.name = r.Bytes(256 + r.Intn(40)) // truncated to 255 by the writer
			x.flags |= needle.FlagHasName
		case 1:
			x.mime = r.Bytes(256 + r.Intn(40)) // MimeSize wraps, all bytes written
			x.flags |= needle.FlagHasMime
		case 2:
			x.ttl = "nil" // flag without value: Size counts 2 bytes that are not written
			x.flags |= needle.FlagHasTtl
		case 3:
			x.pairsSize = uint16(r.Intn(40)) // inconsistent with len(pairs)
			x.flags |= needle.FlagHasPairs
		case 4:
			x.lm = r.U64() // more than 5 bytes
			x.flags |= needle.FlagHasLastModifiedDate
		}
		if len(x.data) == 0 {
			x.data = r.Bytes(1 + r.Intn(9))
		}
	}
	return x
}

var t0 = time.Now()

var deadline time.Time

// overtime: the generators stop once the run takes far longer than it should (e.g. a broken size formula makes
// the scanner read garbage headers and allocate up to 2 GiB per header); the partial trace is still judged and
// the missing coverage is reported by the check.
func overtime() bool { return !deadline.IsZero() && time.Now().After(deadline) }

func mark(s string) {
	if os.Getenv("C02_TIMES") != "" {
		fmt.Fprintln(os.Stderr, "TIME", s, time.Since(t0))
	}
}

func main() {
	a := hx.ParseArgs()
	tr = hx.NewTrace(a.Out)
	defer tr.Close()
	var err error
	tmpDir, err = os.MkdirTemp("", "c02")
	if err != nil {
		panic(err)
	}
	defer os.RemoveAll(tmpDir)
	tr.Comment(fmt.Sprintf("c02 seed=%d tier=%s", a.Seed, a.Tier))
	tr.Op("config", []string{hx.I(int64(types.OffsetSize))}, nil)
	if a.Ops != "" {
		replay(hx.ReadOps(a.Ops))
		return
	}
	r := hx.NewRng(a.Seed)
	limit := 120 * time.Second
	if a.Thorough() {
		limit = 900 * time.Second
	}
	deadline = time.Now().Add(limit * time.Duration(a.Budget))

	// ---- size arithmetic: every small size, boundaries, random; both versions (and version 1 formula = version 2)
	for ver := 2; ver <= 3; ver++ {
		for s := int32(0); s < 300; s++ {
			doSizes(s, ver)
		}
		for _, s := range []int32{65535, 65536, 1 << 20, 1<<30 - 1, 1 << 30, 1<<31 - 64, 1<<31 - 29, 1<<31 - 28, 1<<31 - 21, 1<<31 - 20, 1<<31 - 1, -1, -2, -7, -8, -20, -21, -28, -29, -1 << 31} {
			doSizes(s, ver)
		}
		for i := 0; i < a.N(300); i++ {
			doSizes(int32(r.U64())>>uint(r.Intn(31)), ver)
		}
	}
	mark("sizes")
	// ---- CRC
	doCrc([]byte("123456789"))
	doCrc(nil)
	for i := 0; i < a.N(300); i++ {
		doCrc(r.Bytes(r.Intn(200)))
	}

	sb := []byte{3, 0, 0, 0, 0, 0, 0, 0}
	// ---- every flag combination x boundary lengths, both versions; append, read back, scan
	perCombo := 3
	if a.Thorough() {
		perCombo = 12
	}
	for ver := 2; ver <= 3; ver++ {
		count := 0
		doReset(ver, sb)
		for rep := 0; rep < perCombo*a.Budget; rep++ {
			for fl := 0; fl < 256; fl++ {
				if fl&0x40 != 0 && rep > 0 {
					continue
				}
				x := genNeedle(r, byte(fl), true)
				off, ns, ok := doApp(x)
				if ok {
					doRd(off, ns)
					if r.Chance(1, 10) {
						doRd(off, ns+int32(r.Intn(3))-1)
					}
				}
				count++
				if count%48 == 0 {
					doScan(int64(len(sb)), true)
					doScan(int64(len(sb)), false)
					if len(recs) > 3 {
						doScan(recs[r.Intn(len(recs))].off, true)
					}
					doReset(ver, sb)
				}
			}
		}
		doScan(int64(len(sb)), true)
	}
	mark("combos")
	// ---- needles outside the documented domain (the model must still reproduce the bytes)
	for ver := 2; ver <= 3; ver++ {
		for i := 0; i < a.N(40); i++ {
			doReset(ver, sb)
			doApp(genNeedle(r, byte(r.U64()), true))
			x := genNeedle(r, byte(r.U64()), false)
			off, ns, ok := doApp(x)
			if ok {
				doRd(off, ns)
			}
			doApp(genNeedle(r, byte(r.U64()), true))
			// headers only: after a mis-sized record the scanner reads garbage headers, and with bodies it
			// would allocate whatever size they claim (up to 2 GiB) before reading
			doScan(int64(len(sb)), false)
		}
	}
	mark("nonwf")
	// ---- torn tails and malformed headers: truncate inside the last record at every position / append garbage; scan
	for ver := 2; ver <= 3; ver++ {
		for i := 0; i < a.N(12); i++ {
			doReset(ver, sb)
			var last int64
			for k := 0; k < 1+r.Intn(3); k++ {
				x := genNeedle(r, byte(r.U64()), true)
				if len(x.data) > 40 {
					x.data = x.data[:40]
				}
				if len(x.pairs) > 20 {
					x.pairs = x.pairs[:20]
					x.pairsSize = uint16(len(x.pairs)) // keep the needle well-formed: a mis-sized record makes the scanner read garbage
				}
				if len(x.name) > 20 {
					x.name = x.name[:9]
				}
				if len(x.mime) > 20 {
					x.mime = x.mime[:8]
				}
				last, _, _ = doApp(x)
			}
			end := fileSize()
			full, _ := os.ReadFile(curPath)
			step := int64(1)
			if !a.Thorough() && end-last > 40 {
				step = 3
			}
			for p := end - 1; p >= last; p -= step {
				doTrunc(p)
				doScan(int64(len(sb)), true)
				if p%5 == 0 {
					doScan(int64(len(sb)), false)
					// a new record appended after a torn tail starts at the next 8-byte boundary
					doApp(genNeedle(r, byte(r.U64()), true))
					doScan(int64(len(sb)), false)
					os.WriteFile(curPath, full[:p], 0644)
				}
			}
		}
		mark("torn")
		for i := 0; i < a.N(30); i++ {
			doReset(ver, sb)
			doApp(genNeedle(r, byte(r.U64()), true))
			// a header whose size field points beyond / inside what follows, then some bytes
			hdr := r.Bytes(16)
			sz := uint32(r.Intn(200))
			if r.Chance(1, 5) {
				sz = uint32(r.U64()) >> 12 >> uint(r.Intn(20)) // at most 1 MiB: the scanner allocates the body before reading it
			}
			hdr[12], hdr[13], hdr[14], hdr[15] = byte(sz>>24), byte(sz>>16), byte(sz>>8), byte(sz)
			doRaw(hdr)
			// at most the claimed body: what follows a complete garbage body would be read as further headers,
			// and the scanner allocates whatever size they claim (up to 2 GiB) before reading
			bl := int(needle.NeedleBodyLength(types.Size(sz), curVer))
			tail := r.Intn(bl + 1)
			if r.Chance(1, 3) {
				tail = bl
			}
			if tail > 400 {
				tail = r.Intn(400)
			}
			doRaw(r.Bytes(tail))
			doScan(int64(len(sb)), true)
			doScan(int64(len(sb)), false)
			off := fileSize()
			_ = off
			doRd(recs[0].off+needle.GetActualSize(types.Size(recs[0].size), curVer), int32(sz))
		}
	}
	mark("malformed")
	// ---- corruption: flip every single bit of sampled records
	nflip := 50
	if a.Thorough() {
		nflip = 500
	}
	for i := 0; i < nflip*a.Budget; i++ {
		ver := 2 + i%2
		doReset(ver, sb)
		x := genNeedle(r, byte(r.U64()), true)
		if len(x.data) == 0 || len(x.data) > 96 {
			x.data = r.Bytes(1 + r.Intn(64))
		}
		if len(x.name) > 20 {
			x.name = x.name[:r.Intn(12)]
		}
		if len(x.mime) > 20 {
			x.mime = x.mime[:r.Intn(12)]
		}
		if len(x.pairs) > 20 {
			x.pairs = x.pairs[:r.Intn(12)]
			x.pairsSize = uint16(len(x.pairs))
		}
		off, ns, ok := doApp(x)
		if ok {
			doFlips(off, ns)
		}
	}
}

func replay(ops [][]string) {
	pi := func(s string) int64 { v, _ := strconv.ParseInt(s, 10, 64); return v }
	pu := func(s string) uint64 { v, _ := strconv.ParseUint(s, 10, 64); return v }
	for _, op := range ops {
		switch op[0] {
		case "sizes":
			doSizes(int32(pi(op[1])), int(pi(op[2])))
		case "crc":
			doCrc(hx.UnHex(op[1]))
		case "reset":
			doReset(int(pi(op[1])), hx.UnHex(op[2]))
		case "app":
			doApp(ndl{cookie: uint32(pu(op[1])), id: pu(op[2]), flags: byte(pi(op[3])), data: hx.UnHex(op[4]), name: hx.UnHex(op[5]), mime: hx.UnHex(op[6]),
				lm: pu(op[7]), ttl: op[8], pairs: hx.UnHex(op[9]), pairsSize: uint16(pi(op[10])), ts: pu(op[11])})
		case "raw":
			doRaw(hx.UnHex(op[1]))
		case "trunc":
			doTrunc(pi(op[1]))
		case "rd":
			doRd(pi(op[1]), int32(pi(op[2])))
		case "flips":
			doFlips(pi(op[1]), int32(pi(op[2])))
		case "scan":
			doScan(pi(op[1]), op[2] == "1")
		}
	}
}
