// c05: correspondence harness for C05 (volume index: in-memory map, on-disk index and counters agree).
// Runs the REAL needle_map.CompactMap and storage.NewCompactNeedleMap / LoadCompactNeedleMap /
// NewLevelDbNeedleMap / NewSortedFileNeedleMap; one trace line per call.
//
//	config <offsetSize> <batch>
//	reset cm                        => ok                    fresh needle_map.CompactMap
//	set <key> <off> <size>          => <oldOff> <oldSize>    off = offset in 8-byte units
//	del <key>                       => <size>
//	get <key>                       => nf | ok <key> <off> <size>
//	visit                           => <count> <checksum> [k:o:s,...]   (list only when count <= 64)
//	nreset mem|ldb                  => ok|err                fresh dir, empty .idx, New*NeedleMap
//	nput <key> <off> <size>         => ok|err
//	ndel <key> <off>                => ok|err
//	nget <key>                      => nf | ok <key> <off> <size>
//	nmet                            => <fileCount> <deletedCount> <contentSize> <deletedSize> <maxKey> <idxEntries>
//	nreload mem|ldb|sorted          => ok|err                close, reopen the same .idx with that kind
package main

import (
	"fmt"
	"os"
	"path/filepath"
	"strconv"
	"strings"

	"github.com/chrislusf/seaweedfs/weed/storage"
	"github.com/chrislusf/seaweedfs/weed/storage/needle_map"
	"github.com/chrislusf/seaweedfs/weed/storage/types"

	"verifharness/hx"
)

const batch = 100000 // needle_map.batch is unexported; the extracted constant is bridged in Lean (bridge_batch)

var tr *hx.Trace
var root string
var caseNo int

var cm *needle_map.CompactMap
var nm storage.NeedleMapper
var nmDir string

func toOff(off uint64) types.Offset { return types.ToOffset(int64(off) * types.NeedlePaddingSize) }
func offU(o types.Offset) string    { return hx.I(o.ToActualOffset() / types.NeedlePaddingSize) }

// keys set since the last reset (harness-side bookkeeping for delSafe)
var setKeys = map[uint64]bool{}
var minSet uint64

func opResetCm() {
	cm = needle_map.NewCompactMap()
	setKeys = map[uint64]bool{}
	minSet = ^uint64(0)
	tr.Op("reset", []string{"cm"}, []string{"ok"})
}

// delSafe deletes, except that a never-set key lying 2^32 or more above some stored key is only
// looked up: CompactSection truncates key-start to 32 bits, so such a Delete can hit ANOTHER key
// (finding CompactMap.Delete/deletes-entry-of-other-key, exercised by aliasCases) and every later
// check of that victim would fail as a consequence.
func delSafe(key uint64) {
	if !setKeys[key] && minSet != ^uint64(0) && key >= minSet && key-minSet >= lim {
		opGet(key)
		return
	}
	opDel(key)
}

func aliasCases() {
	opResetCm()
	opSet(1000, 7, 70)
	opSet(1002, 8, 80)
	opGet(1000 + lim)
	opGet(1002 + 3*lim)
	opDel(1002 + 2*lim)
	opResetCm()
	opSet(50, 9, 90)
	opDel(50 + lim)
}

func opSet(key, off uint64, size int32) {
	setKeys[key] = true
	if key < minSet {
		minSet = key
	}
	tr.Op("set", []string{hx.U(key), hx.U(off), hx.I(int64(size))}, hx.Guard(func() []string {
		oo, os := cm.Set(types.NeedleId(key), toOff(off), types.Size(size))
		return []string{offU(oo), hx.I(int64(os))}
	}))
}

func opDel(key uint64) {
	tr.Op("del", []string{hx.U(key)}, hx.Guard(func() []string {
		return []string{hx.I(int64(cm.Delete(types.NeedleId(key))))}
	}))
}

func nvOut(nv *needle_map.NeedleValue, ok bool) []string {
	if !ok || nv == nil {
		return []string{"nf"}
	}
	return []string{"ok", hx.U(uint64(nv.Key)), offU(nv.Offset), hx.I(int64(nv.Size))}
}

func opGet(key uint64) {
	tr.Op("get", []string{hx.U(key)}, hx.Guard(func() []string {
		return nvOut(cm.Get(types.NeedleId(key)))
	}))
}

func opVisit() {
	tr.Op("visit", nil, hx.Guard(func() []string {
		var n int
		var h uint64
		var items []string
		cm.AscendingVisit(func(nv needle_map.NeedleValue) error {
			n++
			o := uint64(nv.Offset.ToActualOffset() / types.NeedlePaddingSize)
			h = h*31 + uint64(nv.Key) + 7*o + 13*uint64(uint32(nv.Size))
			if n <= 64 {
				items = append(items, fmt.Sprintf("%d:%d:%d", uint64(nv.Key), o, int64(nv.Size)))
			}
			return nil
		})
		out := []string{hx.I(int64(n)), hx.U(h)}
		if n <= 64 && n > 0 {
			out = append(out, strings.Join(items, ","))
		}
		return out
	}))
}

// ---------------------------------------------------------------- needle mapper level

func closeNm() {
	if nm != nil {
		nm.Close()
		nm = nil
	}
}

func openKind(kind string) error {
	base := filepath.Join(nmDir, "1")
	f, err := os.OpenFile(base+".idx", os.O_RDWR|os.O_CREATE, 0644)
	if err != nil {
		return err
	}
	switch kind {
	case "mem":
		m, err := storage.LoadCompactNeedleMap(f)
		if err != nil {
			return err
		}
		nm = m
	case "ldb":
		os.RemoveAll(base + ".ldb") // always regenerate from the .idx
		m, err := storage.NewLevelDbNeedleMap(base+".ldb", f, nil)
		if err != nil {
			return err
		}
		nm = m
	case "sorted":
		os.Remove(base + ".sdx")
		m, err := storage.NewSortedFileNeedleMap(base, f)
		if err != nil {
			return err
		}
		nm = m
	default:
		return fmt.Errorf("kind")
	}
	return nil
}

func opNReset(kind string) {
	closeNm()
	if nmDir != "" {
		os.RemoveAll(nmDir)
	}
	caseNo++
	nmDir = filepath.Join(root, fmt.Sprintf("n%d", caseNo))
	os.MkdirAll(nmDir, 0755)
	tr.Op("nreset", []string{kind}, hx.Guard(func() []string { return []string{hx.Err(openKind(kind))} }))
}

func opNReload(kind string) {
	tr.Op("nreload", []string{kind}, hx.Guard(func() []string {
		closeNm()
		return []string{hx.Err(openKind(kind))}
	}))
}

func opNPut(key, off uint64, size int32) {
	tr.Op("nput", []string{hx.U(key), hx.U(off), hx.I(int64(size))}, hx.Guard(func() []string {
		if nm == nil {
			return []string{"nomap"}
		}
		return []string{hx.Err(nm.Put(types.NeedleId(key), toOff(off), types.Size(size)))}
	}))
}

func opNDel(key, off uint64) {
	tr.Op("ndel", []string{hx.U(key), hx.U(off)}, hx.Guard(func() []string {
		if nm == nil {
			return []string{"nomap"}
		}
		return []string{hx.Err(nm.Delete(types.NeedleId(key), toOff(off)))}
	}))
}

func opNGet(key uint64) {
	tr.Op("nget", []string{hx.U(key)}, hx.Guard(func() []string {
		if nm == nil {
			return []string{"nomap"}
		}
		return nvOut(nm.Get(types.NeedleId(key)))
	}))
}

func opNMet() {
	tr.Op("nmet", nil, hx.Guard(func() []string {
		if nm == nil {
			return []string{"nomap"}
		}
		return []string{hx.I(int64(nm.FileCount())), hx.I(int64(nm.DeletedCount())), hx.U(nm.ContentSize()), hx.U(nm.DeletedSize()),
			hx.U(uint64(nm.MaxFileKey())), hx.U(nm.IndexFileSize() / uint64(types.NeedleMapEntrySize))}
	}))
}

// ---------------------------------------------------------------- generation

func maxOff() uint64 {
	if types.OffsetSize == 5 {
		return 1 << 40
	}
	return 1 << 32
}

type gen struct {
	r   *hx.Rng
	seq uint64
}

// fresh offset/size pair: distinct per call so that "latest value" is observable
func (g *gen) val() (uint64, int32) {
	g.seq++
	off := g.seq
	if g.r.Chance(1, 3) {
		off = 1 + g.r.U64()%(maxOff()-1)
	}
	return off, int32(1 + g.seq%1000 + uint64(g.r.Intn(5))*1000)
}

const lim = uint64(1) << 32

// the six keys of the bounded-exhaustive part: they straddle the 2^32-1 section split of a
// section starting at 1000 and include one key below the first section
var sixKeys = []uint64{1000, 1002, 1001, 1000 + lim - 1, 1000 + lim, 990}

func (g *gen) applyCode(code int) {
	k := sixKeys[code%6]
	switch code / 6 {
	case 0:
		o, s := g.val()
		opSet(k, o, s)
	case 1:
		delSafe(k)
	default:
		opGet(k)
	}
}

func (g *gen) exhaustive(length int, sample int) {
	total := 1
	for i := 0; i < length; i++ {
		total *= 18
	}
	for c := 0; c < total; c++ {
		if sample > 1 && g.r.Intn(sample) != 0 {
			continue
		}
		opResetCm()
		x := c
		for i := 0; i < length; i++ {
			g.applyCode(x % 18)
			x /= 18
		}
		for _, k := range sixKeys {
			opGet(k)
		}
		opGet(1000 + 2*lim + 2) // never set; aliases key 1002 of the first section after uint32 truncation
		opVisit()
	}
}

func (g *gen) randomShort(n int) {
	keys := append([]uint64{}, sixKeys...)
	keys = append(keys, 1003, 1005, 1000+lim+7, 1000+2*lim, 5, 1000+lim-2)
	for i := 0; i < n; i++ {
		opResetCm()
		l := 4 + g.r.Intn(14)
		for j := 0; j < l; j++ {
			k := keys[g.r.Intn(len(keys))]
			switch g.r.Intn(6) {
			case 0, 1, 2:
				o, s := g.val()
				if g.r.Chance(1, 12) {
					s = 0
				}
				opSet(k, o, s)
			case 3, 4:
				delSafe(k)
			default:
				opGet(k)
			}
		}
		for _, k := range keys {
			opGet(k)
		}
		opVisit()
	}
}

func (g *gen) checkAll(keys []uint64, every int) {
	for i, k := range keys {
		if every <= 1 || i%every == 0 {
			opGet(k)
		}
	}
	opVisit()
}

func (g *gen) adversarial() {
	// descending: everything after the first key goes to the overflow list
	opResetCm()
	var ks []uint64
	opSet(10, 1, 1)
	for i := 0; i < 300; i++ {
		k := uint64(5000 - 3*i)
		ks = append(ks, k)
		o, s := g.val()
		opSet(k, o, s)
	}
	for i := 0; i < 60; i++ {
		k := ks[g.r.Intn(len(ks))]
		switch g.r.Intn(3) {
		case 0:
			o, s := g.val()
			opSet(k, o, s)
		case 1:
			opDel(k)
		default:
			opDel(k)
			opDel(k)
		}
	}
	g.checkAll(ks, 1)

	// zig-zag: ascending run, then keys inside and beyond the 128-entry look-back window
	opResetCm()
	ks = nil
	for i := 0; i < 400; i++ {
		k := uint64(100 + 10*i)
		ks = append(ks, k)
		o, s := g.val()
		opSet(k, o, s)
		if i > 0 && i%7 == 0 {
			back := 1 + g.r.Intn(250)
			if back > i {
				back = i
			}
			kk := uint64(100+10*(i-back)) + uint64(1+g.r.Intn(9))
			ks = append(ks, kk)
			o, s := g.val()
			opSet(kk, o, s)
		}
	}
	for i := 0; i < 150; i++ {
		k := ks[g.r.Intn(len(ks))]
		switch g.r.Intn(4) {
		case 0:
			o, s := g.val()
			opSet(k, o, s)
		case 1:
			opDel(k)
		case 2:
			opGet(k + 1)
		default:
			opGet(k)
		}
	}
	g.checkAll(ks, 1)

	// far-apart keys: many sections, then keys in between and below
	opResetCm()
	ks = nil
	for i := 0; i < 12; i++ {
		k := uint64(i+1) * (lim + uint64(g.r.Intn(1000)))
		if g.r.Bool() {
			k = uint64(12-i) * (2*lim + 17)
		}
		for j := 0; j < 4; j++ {
			kk := k + uint64(j*j)*uint64(1+g.r.Intn(3))
			ks = append(ks, kk)
			o, s := g.val()
			opSet(kk, o, s)
		}
	}
	for i := 0; i < 80; i++ {
		k := ks[g.r.Intn(len(ks))]
		switch g.r.Intn(5) {
		case 0:
			kk := k + uint64(g.r.Intn(50))
			ks = append(ks, kk)
			o, s := g.val()
			opSet(kk, o, s)
		case 1:
			opDel(k)
		case 2:
			opGet(k + lim) // possibly aliasing
		case 3:
			delSafe(k + 3*lim)
		default:
			opGet(k)
		}
	}
	g.checkAll(ks, 1)
}

// bandedWindow: ascending keys whose offsets lie in different 32GB bands (different OffsetHigher
// bytes under 5BytesOffset; one band only with 4-byte offsets), then late keys that still fall inside
// the 128-entry look-back window, so that the in-window insertion has to move entries together with
// their parallel high-byte slots; every key is read back afterwards.
func (g *gen) bandedWindow(cases int) {
	bands := maxOff() >> 32
	for c := 0; c < cases; c++ {
		opResetCm()
		var ks []uint64
		cnt := 3 + g.r.Intn(12)
		if c%5 == 4 {
			cnt = 130 + g.r.Intn(80) // look-back index above 0
		}
		k := uint64(100 + g.r.Intn(1000))
		for i := 0; i < cnt; i++ {
			k += uint64(2 + g.r.Intn(5))
			ks = append(ks, k)
			off := (g.r.U64()%bands)<<32 | uint64(8+i)
			opSet(k, off, int32(100+i))
			if i >= 2 && g.r.Chance(1, 3) {
				back := 1 + g.r.Intn(min(i-1, 126))
				kk := ks[len(ks)-1-back] - 1
				if !setKeys[kk] {
					ks = append(ks, kk)
					opSet(kk, (g.r.U64()%bands)<<32|uint64(5000+i), int32(3000+i))
					sortLast(ks)
				}
			}
		}
		for _, kk := range ks {
			opGet(kk)
		}
		opVisit()
	}
}

// sortLast moves the last element of an otherwise ascending slice into place
func sortLast(ks []uint64) {
	for i := len(ks) - 1; i > 0 && ks[i-1] > ks[i]; i-- {
		ks[i-1], ks[i] = ks[i], ks[i-1]
	}
}

func min(a, b int) int {
	if a < b {
		return a
	}
	return b
}

// one run that crosses `batch` entries in a single section
func (g *gen) bigRun() {
	opResetCm()
	var ks []uint64
	start := uint64(1 << 20)
	n := batch + 30000 + g.r.Intn(2000)
	k := start
	for i := 0; i < n; i++ {
		k += uint64(1 + g.r.Intn(3))
		ks = append(ks, k)
		opSet(k, uint64(i+1), int32(1+i%5000))
		if i%977 == 0 && i > 300 {
			// out of order: within the window, beyond it, or an overwrite
			var kk uint64
			switch g.r.Intn(3) {
			case 0:
				kk = ks[i-1-g.r.Intn(100)] + 0 // overwrite
			case 1:
				kk = ks[i-1-g.r.Intn(100)] - 1
			default:
				kk = ks[i-150-g.r.Intn(100)] - 1
			}
			o, s := g.val()
			opSet(kk, o, s)
			ks = append(ks, kk)
		}
	}
	for i := 0; i < 1200; i++ {
		kk := ks[g.r.Intn(len(ks))]
		switch g.r.Intn(5) {
		case 0:
			o, s := g.val()
			opSet(kk, o, s)
		case 1:
			opDel(kk)
		case 2:
			// a new key inside a full section
			o, s := g.val()
			opSet(kk+1, o, s)
			ks = append(ks, kk+1)
		default:
			opGet(kk)
		}
	}
	g.checkAll(ks, 97)
}

func (g *gen) nmCase(kind string, quirks bool) {
	opResetCm() // case boundary for ./check (replays are cut at the last line starting with `reset`)
	opNReset(kind)
	keys := []uint64{3, 4, 5, 9, 1 << 33, 77, 2}
	live := map[uint64]bool{}
	n := 6 + g.r.Intn(20)
	for i := 0; i < n; i++ {
		k := keys[g.r.Intn(len(keys))]
		switch {
		case g.r.Chance(3, 5):
			o, s := g.val()
			if quirks && g.r.Chance(1, 6) {
				s = 0
			}
			opNPut(k, o, s)
			live[k] = s > 0
		case live[k] || (quirks && g.r.Chance(1, 2)):
			o, _ := g.val()
			opNDel(k, o)
			live[k] = false
		default:
			opNGet(k)
		}
	}
	check := func() {
		for _, k := range keys {
			opNGet(k)
		}
		opNMet()
	}
	check()
	re := kind
	if g.r.Chance(1, 4) {
		re = []string{"mem", "ldb", "sorted"}[g.r.Intn(3)]
	}
	opNReload(re)
	check()
	if re != "sorted" {
		// keep going after the reload
		for i := 0; i < 4; i++ {
			k := keys[g.r.Intn(len(keys))]
			if g.r.Bool() || !live[k] {
				o, s := g.val()
				opNPut(k, o, s)
				live[k] = true
			} else {
				o, _ := g.val()
				opNDel(k, o)
				live[k] = false
			}
		}
		check()
		opNReload(re)
		check()
	}
}

func generate(a *hx.Args) {
	g := &gen{r: hx.NewRng(a.Seed)}
	if a.Thorough() {
		g.exhaustive(3, 1)
		g.exhaustive(4, 6)
	} else {
		g.exhaustive(2, 1)
		g.exhaustive(3, 12)
	}
	g.randomShort(a.N(120))
	g.adversarial()
	g.bandedWindow(a.N(24))
	aliasCases()
	for i := 0; i < a.N(40); i++ {
		g.nmCase([]string{"mem", "ldb"}[i%2], i%4 >= 2)
	}
	g.bigRun()
}

func u(s string) uint64 {
	v, _ := strconv.ParseUint(s, 10, 64)
	return v
}
func i32(s string) int32 {
	v, _ := strconv.ParseInt(s, 10, 64)
	return int32(v)
}

func replay(path string) {
	for _, f := range hx.ReadOps(path) {
		arg := func(i int) string {
			if i+1 < len(f) {
				return f[i+1]
			}
			return "-"
		}
		switch f[0] {
		case "config":
			if arg(0) != "-" && arg(0) != strconv.Itoa(types.OffsetSize) {
				return
			}
		case "reset":
			opResetCm()
		case "set":
			opSet(u(arg(0)), u(arg(1)), i32(arg(2)))
		case "del":
			opDel(u(arg(0)))
		case "get":
			opGet(u(arg(0)))
		case "visit":
			opVisit()
		case "nreset":
			opNReset(arg(0))
		case "nreload":
			opNReload(arg(0))
		case "nput":
			opNPut(u(arg(0)), u(arg(1)), i32(arg(2)))
		case "ndel":
			opNDel(u(arg(0)), u(arg(1)))
		case "nget":
			opNGet(u(arg(0)))
		case "nmet":
			opNMet()
		default:
			fmt.Fprintln(os.Stderr, "c05: unknown op", f[0])
		}
	}
}

func main() {
	a := hx.ParseArgs()
	tr = hx.NewTrace(a.Out)
	defer tr.Close()
	var err error
	root, err = os.MkdirTemp("", "c05-")
	if err != nil {
		fmt.Fprintln(os.Stderr, err)
		os.Exit(2)
	}
	defer os.RemoveAll(root)
	tr.Op("config", []string{hx.I(int64(types.OffsetSize)), hx.I(batch)}, nil)
	cm = needle_map.NewCompactMap()
	if a.Ops != "" {
		replay(a.Ops)
	} else {
		generate(a)
	}
	closeNm()
}
