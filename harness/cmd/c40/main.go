// c40: correspondence harness for C40 (replicated writes leave every replica with the same blob).
// Two or three real volume servers (real Store + private handler behind loopback listeners) hold the
// same volume id with replication 001/002; a master stub answers /dir/lookup. Uploads and deletes go
// to the first server over HTTP; topology.ReplicatedWrite/ReplicatedDelete fan out to the others
// through operation.UploadData / util.Delete. Replica failures are injected by dropping connections
// (before or after the replica's handler ran). After every operation the needle is read from every
// replica's Store directly and dumped field by field.
package main

import (
	"bytes"
	"encoding/json"
	"fmt"
	"io"
	"mime"
	"mime/multipart"
	"net/http"
	"net/textproto"
	"net/url"
	"os"
	"path/filepath"
	"sort"
	"strconv"
	"strings"
	"sync/atomic"

	"github.com/chrislusf/seaweedfs/weed/util"

	"verifharness/hx"
	"verifharness/vsx"
)

var tr *hx.Trace
var master *vsx.Master
var nodes []*vsx.Node
var client = &http.Client{Transport: &http.Transport{DisableCompression: true, MaxIdleConnsPerHost: 16}}

var vid uint32 = 100
var nrep int

const cookie = 0x5eed5eed

func reset(n int, rp string) {
	vid++
	nrep = n
	var urls []string
	for i := 0; i < 3; i++ {
		atomic.StoreInt32(&nodes[i].Fault, 0)
	}
	for i := 0; i < n; i++ {
		if err := nodes[i].AddVolume(vid, rp, ""); err != nil {
			panic(err)
		}
		urls = append(urls, nodes[i].Addr)
	}
	master.Set(vid, urls)
	tr.Op("reset", []string{strconv.Itoa(n), rp}, []string{"ok"})
}

func fault(i, mode int) {
	atomic.StoreInt32(&nodes[i].Fault, int32(mode))
	tr.Op("fault", []string{strconv.Itoa(i), strconv.Itoa(mode)}, []string{"ok"})
}

type pair struct{ k, v string }

func pairsTok(ps []pair) string {
	if len(ps) == 0 {
		return "-"
	}
	var s []string
	for _, p := range ps {
		s = append(s, hx.HexS(p.k)+"="+hx.HexS(p.v))
	}
	return strings.Join(s, ",")
}

// dump of one replica's needle: absent | present <decoded data> <compressed> <name> <mime> <pairs> <lm> <ttl> <cm>
func dump(key uint64, ts uint64) []string {
	var out []string
	var primaryLm uint64
	for i := 0; i < nrep; i++ {
		nd, err := nodes[i].ReadNeedle(vid, key, cookie)
		if err != nil {
			out = append(out, "absent")
			continue
		}
		data := nd.Data
		if nd.IsCompressed() {
			data = util.MaybeDecompressData(data)
		}
		var ps []pair
		if nd.HasPairs() {
			m := map[string]string{}
			json.Unmarshal(nd.Pairs, &m)
			for k, v := range m {
				ps = append(ps, pair{k, v})
			}
			sort.Slice(ps, func(a, b int) bool { return ps[a].k < ps[b].k })
		}
		lm := "o"
		if i == 0 {
			primaryLm = nd.LastModified
		}
		if ts != 0 && nd.LastModified == ts%(1<<40) {
			lm = strconv.FormatUint(nd.LastModified, 10)
		} else if nd.LastModified == primaryLm {
			lm = "p"
		}
		out = append(out, "present", hx.Hex(data), hx.B(nd.IsCompressed()), hx.Hex(nd.Name), hx.Hex(nd.Mime), pairsTok(ps), lm, hx.HexS(nd.Ttl.String()), hx.B(nd.IsChunkedManifest()))
	}
	return out
}

// up: POST to the primary. payload = the clear bytes; gz: the client sends gzip(payload) with Content-Encoding: gzip
func up(key uint64, name, ctype string, ts uint64, ttl string, ps []pair, gz, cm bool, payload []byte) {
	body := payload
	if gz {
		body, _ = util.GzipData(payload)
	}
	// oracles for the forwarding step (doUploadData on the primary's needle): stdlib sniffers on the stored bytes
	detected := http.DetectContentType(body)
	extMime := mime.TypeByExtension(strings.ToLower(filepath.Ext(name)))
	gz128 := false
	if len(body) >= 128 {
		c, _ := util.GzipData(body[0:128])
		gz128 = len(c)*10 < 128*9
	}
	args := []string{hx.U(key), hx.HexS(name), hx.HexS(ctype), hx.U(ts), hx.HexS(ttl), pairsTok(ps), hx.B(gz), hx.B(cm), hx.Hex(payload), hx.HexS(detected), hx.HexS(extMime), hx.B(gz128)}
	tr.Op("up", args, hx.Guard(func() []string {
		buf := new(bytes.Buffer)
		mw := multipart.NewWriter(buf)
		h := make(textproto.MIMEHeader)
		h.Set("Content-Disposition", fmt.Sprintf(`form-data; name="file"; filename="%s"`, strings.NewReplacer(`\`, `\\`, `"`, `\"`).Replace(name)))
		if ctype != "" {
			h.Set("Content-Type", ctype)
		}
		if gz {
			h.Set("Content-Encoding", "gzip")
		}
		pw, _ := mw.CreatePart(h)
		pw.Write(body)
		mw.Close()
		q := url.Values{}
		if ts != 0 {
			q.Set("ts", strconv.FormatUint(ts, 10))
		}
		if ttl != "" {
			q.Set("ttl", ttl)
		}
		if cm {
			q.Set("cm", "true")
		}
		u := "http://" + nodes[0].Addr + "/" + vsx.Fid(vid, key, cookie)
		if len(q) > 0 {
			u += "?" + q.Encode()
		}
		rq, _ := http.NewRequest("POST", u, buf)
		rq.Header.Set("Content-Type", mw.FormDataContentType())
		for _, p := range ps {
			rq.Header.Set("Seaweed-"+p.k, p.v)
		}
		resp, err := client.Do(rq)
		st := "err"
		if err == nil {
			io.Copy(io.Discard, resp.Body)
			resp.Body.Close()
			switch resp.StatusCode {
			case 201:
				st = "created"
			case 204:
				st = "unchanged"
			}
		}
		return append([]string{st}, dump(key, ts)...)
	}))
}

func del(key uint64) {
	tr.Op("del", []string{hx.U(key)}, hx.Guard(func() []string {
		rq, _ := http.NewRequest("DELETE", "http://"+nodes[0].Addr+"/"+vsx.Fid(vid, key, cookie), nil)
		resp, err := client.Do(rq)
		st := "err"
		if err == nil {
			io.Copy(io.Discard, resp.Body)
			resp.Body.Close()
			switch resp.StatusCode {
			case 202:
				st = "deleted"
			case 404:
				st = "notfound"
			}
		}
		return append([]string{st}, dump(key, 0)...)
	}))
}

var names = []string{"", "a.txt", "b.html", "c.jpg", "e.bin", "f", "g.JSON", "i.svg", ".svg", "x.xml", "with space.txt", "q\"uote.css", strings.Repeat("n", 252) + ".txt", strings.Repeat("m", 256)}
var ctypes = []string{"", "", "", "text/plain", "text/plain; charset=utf-8", "image/png", "application/octet-stream", "application/json", "application/xml", "video/mp4", "text/html; charset=utf-8"}
var ttls = []string{"", "", "", "5m", "3h", "7d", "2w", "1M", "255y"}

func genPayload(r *hx.Rng) []byte {
	n := 1 + r.Intn(200)
	if r.Chance(1, 25) {
		n = 16*1024 + 1 + r.Intn(300)
	}
	b := make([]byte, n)
	switch r.Intn(5) {
	case 0:
		for i := range b {
			b[i] = "lorem ipsum dolor sit amet "[i%27]
		}
	case 1:
		copy(b, r.Bytes(n))
		b[0] = 0
	case 2:
		copy(b, []byte("<html><body>"+strings.Repeat("y", n)))
	case 3: // zeros
	default:
		copy(b, []byte("{\"k\": ["+strings.Repeat("1,", n)))
	}
	return b
}

func genPairs(r *hx.Rng) []pair {
	var ps []pair
	if r.Chance(2, 3) {
		return nil
	}
	ks := []string{"Abc", "Owner", "X-Y", "Zz9"}
	for _, k := range ks {
		if r.Bool() {
			ps = append(ps, pair{k, r.Pick([]string{"v", "hello world", "1", "a\"b", "ü"})})
		}
	}
	return ps
}

func main() {
	a := hx.ParseArgs()
	tmp, err := os.MkdirTemp("", "c40")
	if err != nil {
		panic(err)
	}
	defer os.RemoveAll(tmp)
	vsx.Quiet(tmp)
	tr = hx.NewTrace(a.Out)
	defer tr.Close()
	master = vsx.NewMaster()
	defer master.Close()
	for i := 0; i < 3; i++ {
		n := vsx.NewNode(nil, master.Addr)
		defer n.Close()
		nodes = append(nodes, n)
	}
	tr.Comment(fmt.Sprintf("c40 seed=%d tier=%s", a.Seed, a.Tier))
	if a.Ops != "" {
		replay(hx.ReadOps(a.Ops))
		return
	}
	r := hx.NewRng(hx.NewRng(a.Seed).U64())
	farTs := uint64(4000000000)

	// ---- every name x content type once, healthy replicas
	for _, rep := range []int{2, 3} {
		reset(rep, []string{"", "", "001", "002"}[rep])
		key := uint64(1)
		for _, nm := range names {
			for _, ct := range ctypes[2:] {
				key++
				up(key, nm, ct, 1000+key, "", nil, false, false, []byte("hello hello hello hello hello hello hello\n"))
			}
		}
	}
	// ---- scripted: a failed write, then the same bytes again with other metadata
	for _, mode := range []int{1, 2} {
		reset(2, "001")
		up(5, "first.bin", "application/octet-stream", 111, "", nil, false, false, []byte("same bytes"))
		fault(1, mode)
		up(6, "a.bin", "application/octet-stream", 222, "", nil, false, false, []byte("other bytes"))
		del(5)
		fault(1, 0)
		up(6, "b.bin", "application/octet-stream", 333, "", []pair{{"Abc", "v"}}, false, false, []byte("other bytes"))
		up(6, "c.bin", "application/octet-stream", 444, "", nil, false, false, []byte("new bytes"))
		del(5)
		del(6)
		del(6)
	}
	// ---- scripted: the write fails on a replica (dropped before / after its handler ran), the replica recovers, the client retries
	// the IDENTICAL upload (same bytes, name, type, ts): the retry must reach the replicas although the primary finds its needle
	// unchanged. A type that travels unchanged (video/mp4), so that nothing but the retry decides the outcome.
	for _, rep := range []int{2, 3} {
		for _, mode := range []int{1, 2} {
			reset(rep, []string{"", "", "001", "002"}[rep])
			payload := []byte("retried payload \x00\x01\x02 retried payload")
			fault(rep-1, mode)
			up(7, "clip.mp4", "video/mp4", 555, "", []pair{{"Owner", "v"}}, false, false, payload)
			fault(rep-1, 0)
			up(7, "clip.mp4", "video/mp4", 555, "", []pair{{"Owner", "v"}}, false, false, payload)
			up(7, "clip.mp4", "video/mp4", 555, "", []pair{{"Owner", "v"}}, false, false, payload)
			del(7)
		}
	}
	// ---- scripted: untyped binary blobs around the 16 KiB threshold whose first 128 bytes compress well (zero-padded header,
	// fixed-width records): the forwarding upload decides by the 128-byte sample and gzips the WHOLE payload
	for _, rep := range []int{2, 3} {
		reset(rep, []string{"", "", "001", "002"}[rep])
		key := uint64(20)
		for _, n := range []int{1024, 16 * 1024, 16*1024 + 1, 16*1024 + 16, 24 * 1024} {
			for _, nm := range [][2]string{{"records.dat", ""}, {"", ""}, {"e.bin", "application/octet-stream"}} {
				b := make([]byte, n)
				for i := 128; i < n; i++ {
					if i%64 < 8 {
						b[i] = byte(i / 64) // record number, the rest of each record stays zero
					} else if i%64 < 24 {
						b[i] = r.Bytes(1)[0]
					}
				}
				b[3] = 1
				key++
				up(key, nm[0], nm[1], 2000+key, "", nil, false, false, b)
			}
		}
	}
	// ---- random histories
	histories := 12
	if a.Thorough() {
		histories = 40 * a.Budget
	}
	for c := 0; c < histories; c++ {
		rep := 2 + r.Intn(2)
		reset(rep, []string{"", "", "001", "002"}[rep])
		written := map[uint64]bool{}
		cmKeys := map[uint64]bool{}
		nowKeys := map[uint64]bool{}
		faults := 0
		faultAge := 0
		for i := 0; i < 40; i++ {
			key := uint64(1 + r.Intn(6))
			faulty := false
			for j := 1; j < rep; j++ {
				if atomic.LoadInt32(&nodes[j].Fault) != 0 {
					faulty = true
				}
			}
			if faulty {
				faultAge++
			}
			switch {
			case faulty && faultAge > 2:
				// heal: every failing upload costs the client's three retries (1.4 s)
				for j := 1; j < rep; j++ {
					if atomic.LoadInt32(&nodes[j].Fault) != 0 {
						fault(j, 0)
					}
				}
				faultAge = 0
			case r.Chance(1, 5) && !cmKeys[key]:
				del(key)
			case !faulty && (r.Chance(1, 14) && faults < 1 && !a.Thorough() || r.Chance(1, 10) && faults < 2 && a.Thorough()):
				faults++
				fault(1+r.Intn(rep-1), 1+r.Intn(2))
			default:
				if nowKeys[key] {
					continue
				}
				ts := uint64(1 + r.Intn(2000000000))
				ttl := r.Pick(ttls)
				if ttl != "" {
					ts = farTs + uint64(r.Intn(1000))
				}
				if r.Chance(1, 10) {
					ts += 1 << 40
				}
				if r.Chance(1, 8) && !written[key] {
					ts = 0
					nowKeys[key] = true
				}
				cm := r.Chance(1, 12) && !written[key]
				if cm {
					cmKeys[key] = true
				} else if cmKeys[key] {
					continue
				}
				payload := genPayload(r)
				if r.Chance(1, 6) && written[key] {
					payload = []byte("repeated payload") // identical rewrites: isFileUnchanged on every replica
				}
				up(key, r.Pick(names), r.Pick(ctypes), ts, ttl, genPairs(r), r.Chance(1, 5), cm, payload)
				written[key] = true
			}
		}
	}
}

func parsePairs(s string) []pair {
	if s == "-" {
		return nil
	}
	var ps []pair
	for _, kv := range strings.Split(s, ",") {
		p := strings.SplitN(kv, "=", 2)
		ps = append(ps, pair{hx.UnHexS(p[0]), hx.UnHexS(p[1])})
	}
	return ps
}

func replay(ops [][]string) {
	pu := func(s string) uint64 { v, _ := strconv.ParseUint(s, 10, 64); return v }
	for _, op := range ops {
		switch op[0] {
		case "reset":
			n, _ := strconv.Atoi(op[1])
			rp := ""
			if len(op) > 2 {
				rp = op[2]
			}
			reset(n, rp)
		case "fault":
			i, _ := strconv.Atoi(op[1])
			m, _ := strconv.Atoi(op[2])
			fault(i, m)
		case "up":
			up(pu(op[1]), hx.UnHexS(op[2]), hx.UnHexS(op[3]), pu(op[4]), hx.UnHexS(op[5]), parsePairs(op[6]), op[7] == "1", op[8] == "1", hx.UnHex(op[9]))
		case "del":
			del(pu(op[1]))
		}
	}
}
