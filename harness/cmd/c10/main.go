// c10: correspondence harness for C10 (placement of new volumes).
// Builds a REAL topology.Topology through the calls the master's heartbeat handler makes
// (GetOrCreateDataCenter/Rack/DataNode, UpdateVolumes, UpdateEcShards), prints every node's
// and every level's real AvailableSpaceFor, then calls the real
// VolumeGrowth.findEmptySlotsForOneVolume (hook FindEmptySlotsVerif) many times with all
// replications, disk types and placement preferences; one trace line per call.
package main

import (
	"flag"
	"fmt"
	"math/rand"
	"os"
	"strconv"
	"strings"

	"github.com/chrislusf/seaweedfs/weed/sequence"
	"github.com/chrislusf/seaweedfs/weed/storage"
	"github.com/chrislusf/seaweedfs/weed/storage/erasure_coding"
	"github.com/chrislusf/seaweedfs/weed/storage/needle"
	"github.com/chrislusf/seaweedfs/weed/storage/super_block"
	"github.com/chrislusf/seaweedfs/weed/storage/types"
	"github.com/chrislusf/seaweedfs/weed/topology"

	"verifharness/hx"
)

var tr *hx.Trace
var topo *topology.Topology
var nextVid uint32

func atoi(s string) int { n, _ := strconv.Atoi(s); return n }
func si(i int) string   { return strconv.Itoa(i) }
func diskName(i int) string {
	if i == 0 {
		return ""
	}
	return "ssd"
}

func avail(n topology.Node, t int) string {
	return hx.I(n.AvailableSpaceFor(&topology.VolumeGrowOption{DiskType: types.DiskType(diskName(t))}))
}

// node <dc> <rack> <node> <maxH> <volH> <remH> <ecH> <maxS> <volS> <remS> <ecS> => node avail (hdd ssd), rack avail, dc avail, topology avail
func opNode(a []string) []string {
	dcI, rI, nI := a[0], a[1], a[2]
	v := make([]int, 8)
	for i := range v {
		v[i] = atoi(a[3+i])
	}
	m := map[string]uint32{"": uint32(v[0])}
	if v[4] > 0 {
		m["ssd"] = uint32(v[4])
	}
	dc := topo.GetOrCreateDataCenter("dc" + dcI)
	rack := dc.GetOrCreateRack("dc" + dcI + "r" + rI)
	dn := rack.GetOrCreateDataNode("dc"+dcI+"r"+rI+"n"+nI, 8080, "", m)
	rp, _ := super_block.NewReplicaPlacementFromString("000")
	var vols []storage.VolumeInfo
	for t := 0; t < 2; t++ {
		for i := 0; i < v[4*t+1]; i++ {
			nextVid++
			vi := storage.VolumeInfo{Id: needle.VolumeId(nextVid), ReplicaPlacement: rp, Ttl: needle.EMPTY_TTL, DiskType: diskName(t), Version: needle.CurrentVersion}
			if i < v[4*t+2] {
				vi.RemoteStorageName = "s3"
			}
			vols = append(vols, vi)
		}
	}
	dn.UpdateVolumes(vols)
	// one EC volume per disk type, registered by separate calls
	for t := 0; t < 2; t++ {
		if n := v[4*t+3]; n > 0 {
			left := n
			var infos []*erasure_coding.EcVolumeInfo
			for _, e := range dn.GetEcShards() {
				infos = append(infos, e)
			}
			for left > 0 {
				k := left
				if k > 14 {
					k = 14
				}
				nextVid++
				infos = append(infos, erasure_coding.NewEcVolumeInfo(diskName(t), "", needle.VolumeId(nextVid), erasure_coding.ShardBits((1<<uint(k))-1)))
				left -= k
			}
			dn.UpdateEcShards(infos)
		}
	}
	return []string{avail(dn, 0), avail(dn, 1), avail(rack, 0), avail(rack, 1), avail(dc, 0), avail(dc, 1), avail(topo, 0), avail(topo, 1)}
}

func path(dn *topology.DataNode) string { // "dc1r2n3:8080" -> 1.2.3
	id := strings.TrimSuffix(string(dn.Id()), ":8080")
	id = strings.TrimPrefix(id, "dc")
	id = strings.Replace(id, "r", ".", 1)
	id = strings.Replace(id, "n", ".", 1)
	return id
}

// grow <xyz> <disk> <prefDc|-> <prefRack|-> <prefNode|-> <seed>
func opGrow(a []string) []string {
	rp, err := super_block.NewReplicaPlacementFromString(a[0])
	if err != nil {
		return []string{"badrp"}
	}
	opt := &topology.VolumeGrowOption{ReplicaPlacement: rp, DiskType: types.DiskType(diskName(atoi(a[1])))}
	if a[2] != "-" {
		opt.DataCenter = "dc" + a[2]
	}
	if a[3] != "-" {
		opt.Rack = "dc" + strings.Replace(a[3], ".", "r", 1)
	}
	if a[4] != "-" {
		p := strings.Split(a[4], ".")
		opt.DataNode = "dc" + p[0] + "r" + p[1] + "n" + p[2] + ":8080"
	}
	rand.Seed(int64(atoi(a[5])))
	servers, e := topology.FindEmptySlotsVerif(topo, opt)
	var out []string
	if e != nil {
		stage := "other"
		switch {
		case strings.HasPrefix(e.Error(), "No enough data node found"):
			stage = "few"
		case strings.HasPrefix(e.Error(), "No matching data node found"):
			stage = "nomatch"
		case strings.HasPrefix(e.Error(), "No free volume slot found"):
			stage = "reserve"
		}
		out = []string{"err", stage}
	} else {
		out = []string{"ok"}
	}
	for _, s := range servers {
		out = append(out, path(s))
	}
	return out
}

func apply(op []string) {
	args := op[1:]
	outs := hx.Guard(func() []string {
		switch op[0] {
		case "reset":
			topo = topology.NewTopology("t", sequence.NewMemorySequencer(), 32*1024, 5, false)
			return nil
		case "node":
			return opNode(args)
		case "grow":
			return opGrow(args)
		}
		return []string{"unknown-op"}
	})
	tr.Op(op[0], args, outs)
}

func oneCase(r *hx.Rng, grows int) {
	apply([]string{"reset"})
	nd := 1 + r.Intn(3)
	roomy := r.Chance(1, 2)
	type nodeT struct{ d, k, n int }
	var nodes []nodeT
	for d := 1; d <= nd; d++ {
		nr := 1 + r.Intn(3)
		for k := 1; k <= nr; k++ {
			nn := 1 + r.Intn(4)
			for n := 1; n <= nn; n++ {
				nodes = append(nodes, nodeT{d, k, n})
				maxH := r.Intn(8)
				if roomy {
					maxH = 3 + r.Intn(8)
				}
				volH := r.Intn(maxH + 2)
				if roomy {
					volH = r.Intn(3)
				}
				remH := 0
				if volH > 0 && r.Chance(1, 5) {
					remH = 1 + r.Intn(volH)
				}
				ecH := 0
				if r.Chance(1, 4) { // EC shards, sometimes so many that the node's free space is <= 0 while the rack's is > 0
					ecH = []int{1, 9, 10, 14, 25, 40}[r.Intn(6)]
				}
				maxS := []int{0, 0, 2, 5}[r.Intn(4)]
				volS, ecS := 0, 0
				if maxS > 0 {
					volS = r.Intn(maxS + 1)
					if r.Chance(1, 5) {
						ecS = []int{3, 12}[r.Intn(2)]
					}
				}
				apply([]string{"node", si(d), si(k), si(n), si(maxH), si(volH), si(remH), si(ecH), si(maxS), si(volS), "0", si(ecS)})
			}
		}
	}
	for g := 0; g < grows; g++ {
		rp := fmt.Sprintf("%d%d%d", r.Intn(3), r.Intn(3), r.Intn(3))
		if r.Chance(1, 3) {
			rp = []string{"000", "001", "010", "100", "011", "110", "002", "020", "200"}[r.Intn(9)]
		}
		disk := 0
		if r.Chance(1, 5) {
			disk = 1
		}
		pd, pr, pn := "-", "-", "-"
		if r.Chance(1, 2) {
			x := nodes[r.Intn(len(nodes))]
			switch r.Intn(5) {
			case 0:
				pd = si(x.d)
			case 1:
				pd, pr = si(x.d), fmt.Sprintf("%d.%d", x.d, x.k)
			case 2:
				pd, pr, pn = si(x.d), fmt.Sprintf("%d.%d", x.d, x.k), fmt.Sprintf("%d.%d.%d", x.d, x.k, x.n)
			case 3:
				pr = fmt.Sprintf("%d.%d", x.d, x.k) // rack without data center
			case 4:
				pd = si(1 + r.Intn(4)) // possibly non-existing
				if r.Bool() {
					pn = fmt.Sprintf("%d.%d.%d", x.d, x.k, x.n)
				}
			}
		}
		apply([]string{"grow", rp, si(disk), pd, pr, pn, si(r.Intn(1 << 30))})
	}
}

func main() {
	a := hx.ParseArgs()
	flag.Set("logtostderr", "true")
	if dn, err := os.OpenFile(os.DevNull, os.O_WRONLY, 0); err == nil {
		os.Stderr = dn
	}
	tr = hx.NewTrace(a.Out)
	defer tr.Close()
	if a.Ops != "" {
		for _, op := range hx.ReadOps(a.Ops) {
			if topo == nil && op[0] != "reset" {
				apply([]string{"reset"})
			}
			apply(op)
		}
		return
	}
	r := hx.NewRng(a.Seed)
	for c := 0; c < a.N(100); c++ {
		oneCase(r, 40)
	}
}
