// c26: correspondence harness for C26 (S3 requests take effect only with a valid,
// permitted signature; IAM policy documents never grant more than they name).
//
// Every case builds the REAL S3 router (s3api.NewS3ApiServer on a gorilla mux, identities
// loaded from a JSON file through the production loader) in front of a FAKE filer (a
// loopback gRPC server + HTTP server that only record what reaches them), sends one
// request made by this harness' own V2/V4/presign/streaming/POST-policy signers, and
// reports which mux route matched and whether anything reached the filer.
//
// Trace lines
//
//	route i handler action method path queries hdrkey hdrre => method pathtpl queries   (AST of registerRouter => mux.Walk of the real router)
//	routes_end n wrapped-with-Auth...                                                  (count)
//	authorder pred:type ...  /  authcase type arm  /  hverify handler flags            (AST facts of s3api_auth.go, auth_credentials.go, handlers)
//	cfg id ident...          (identity = hex("name;act,act;ak=sk,ak=sk"))
//	req cfg method path query sha ctype copysrc style ak sk validity form fak fsk fvalidity => route effect status calls
//	iam n {effect actions resources}... => actions
package main

import (
	"bytes"
	"context"
	"crypto/hmac"
	"crypto/sha1"
	"crypto/sha256"
	"encoding/base64"
	"encoding/hex"
	"encoding/json"
	"fmt"
	"mime/multipart"
	"net"
	"net/http"
	"net/http/httptest"
	"net/url"
	"os"
	"path/filepath"
	"reflect"
	"runtime"
	"sort"
	"strconv"
	"strings"
	"sync"
	"time"

	"github.com/gorilla/mux"
	"google.golang.org/grpc"

	"github.com/chrislusf/seaweedfs/weed/iamapi"
	"github.com/chrislusf/seaweedfs/weed/pb/filer_pb"
	"github.com/chrislusf/seaweedfs/weed/s3api"

	"verifharness/c26ast"
	"verifharness/hx"
)

var tr *hx.Trace
var tmpDir string

// ---------------------------------------------------------------- fake filer

type fakeFiler struct {
	mu       sync.Mutex
	calls    []string
	grpcAddr string
	httpAddr string
}

func (f *fakeFiler) record(s string) {
	f.mu.Lock()
	f.calls = append(f.calls, s)
	f.mu.Unlock()
}

func (f *fakeFiler) take() []string {
	f.mu.Lock()
	c := f.calls
	f.calls = nil
	f.mu.Unlock()
	return c
}

func newFakeFiler() *fakeFiler {
	f := &fakeFiler{}
	gl, err := net.Listen("tcp", "127.0.0.1:0")
	must(err)
	rec := func(full string) {
		name := full[strings.LastIndex(full, "/")+1:]
		if name != "SubscribeMetadata" { // the server's own background subscription, not caused by a request
			f.record("grpc:" + name)
		}
	}
	gs := grpc.NewServer(
		grpc.UnaryInterceptor(func(ctx context.Context, req interface{}, info *grpc.UnaryServerInfo, handler grpc.UnaryHandler) (interface{}, error) {
			rec(info.FullMethod)
			return handler(ctx, req)
		}),
		grpc.StreamInterceptor(func(srv interface{}, ss grpc.ServerStream, info *grpc.StreamServerInfo, handler grpc.StreamHandler) error {
			rec(info.FullMethod)
			return handler(srv, ss)
		}))
	filer_pb.RegisterSeaweedFilerServer(gs, &fakeFilerSvc{})
	go gs.Serve(gl)
	f.grpcAddr = gl.Addr().String()
	hs := httptest.NewServer(http.HandlerFunc(func(w http.ResponseWriter, r *http.Request) {
		f.record("http:" + r.Method)
		buf := make([]byte, 4096)
		for {
			if _, e := r.Body.Read(buf); e != nil {
				break
			}
		}
		w.Header().Set("Content-Type", "application/json")
		w.WriteHeader(200)
		w.Write([]byte("{}"))
	}))
	// one connection per request: the gateway's shared http.Client must never race with an idle connection being closed
	hs.Config.SetKeepAlivesEnabled(false)
	f.httpAddr = strings.TrimPrefix(hs.URL, "http://")
	return f
}

// fakeFilerSvc answers every lookup with an existing directory entry (so handlers that first check
// existence go on) and everything else with Unimplemented.
type fakeFilerSvc struct {
	filer_pb.UnimplementedSeaweedFilerServer
}

func (s *fakeFilerSvc) LookupDirectoryEntry(ctx context.Context, req *filer_pb.LookupDirectoryEntryRequest) (*filer_pb.LookupDirectoryEntryResponse, error) {
	return &filer_pb.LookupDirectoryEntryResponse{Entry: &filer_pb.Entry{Name: req.Name, IsDirectory: true, Attributes: &filer_pb.FuseAttributes{}}}, nil
}

// SubscribeMetadata: the gateways' background subscription is held open (an error here would make every gateway
// redial the shared cached gRPC connection once a second, racing with the requests under test).
func (s *fakeFilerSvc) SubscribeMetadata(req *filer_pb.SubscribeMetadataRequest, stream filer_pb.SeaweedFiler_SubscribeMetadataServer) error {
	<-stream.Context().Done()
	return nil
}

// ---------------------------------------------------------------- configurations

type cred struct{ ak, sk string }
type ident struct {
	name    string
	actions []string
	creds   []cred
}

type server struct {
	id     string
	idents []ident
	router *mux.Router
	routes []*mux.Route // in Walk order, leaf routes only
	filer  *fakeFiler
}

func (i ident) token() string {
	var cs []string
	for _, c := range i.creds {
		cs = append(cs, c.ak+"="+c.sk)
	}
	return hx.HexS(i.name + ";" + strings.Join(i.actions, ",") + ";" + strings.Join(cs, ","))
}

func parseIdent(tok string) ident {
	p := strings.Split(hx.UnHexS(tok), ";")
	for len(p) < 3 {
		p = append(p, "")
	}
	i := ident{name: p[0]}
	if p[1] != "" {
		i.actions = strings.Split(p[1], ",")
	}
	if p[2] != "" {
		for _, c := range strings.Split(p[2], ",") {
			kv := strings.SplitN(c, "=", 2)
			if len(kv) == 2 {
				i.creds = append(i.creds, cred{kv[0], kv[1]})
			}
		}
	}
	return i
}

var theFiler *fakeFiler
var servers = map[string]*server{}

func newServer(id string, idents []ident) *server {
	type jc struct {
		AccessKey string `json:"accessKey"`
		SecretKey string `json:"secretKey"`
	}
	type ji struct {
		Name        string   `json:"name"`
		Credentials []jc     `json:"credentials"`
		Actions     []string `json:"actions"`
	}
	var doc struct {
		Identities []ji `json:"identities"`
	}
	for _, i := range idents {
		j := ji{Name: i.name, Actions: i.actions}
		for _, c := range i.creds {
			j.Credentials = append(j.Credentials, jc{c.ak, c.sk})
		}
		doc.Identities = append(doc.Identities, j)
	}
	raw, _ := json.Marshal(doc)
	cf := filepath.Join(tmpDir, "s3-"+id+".json")
	must(os.WriteFile(cf, raw, 0600))
	router := mux.NewRouter().SkipClean(true) // as weed/command/s3.go does
	_, err := s3api.NewS3ApiServer(router, &s3api.S3ApiServerOption{
		Filer:            theFiler.httpAddr,
		Port:             8333,
		FilerGrpcAddress: theFiler.grpcAddr,
		Config:           cf,
		BucketsPath:      "/buckets",
		GrpcDialOption:   grpc.WithInsecure(),
	})
	must(err)
	s := &server{id: id, idents: idents, router: router, filer: theFiler}
	router.Walk(func(route *mux.Route, r *mux.Router, anc []*mux.Route) error {
		if route.GetHandler() != nil {
			s.routes = append(s.routes, route)
		}
		return nil
	})
	var toks []string
	for _, i := range idents {
		toks = append(toks, i.token())
	}
	tr.Op("cfg", append([]string{id}, toks...), []string{hx.I(int64(len(s.routes)))})
	servers[id] = s
	return s
}

// ---------------------------------------------------------------- request specs

type reqSpec struct {
	cfg      string
	method   string
	path     string
	query    string // base query, without credentials
	sha      string // none | streaming | unsigned | hash
	ctype    string // none | multipart | formdat | xml
	copysrc  string // none | ok | noslash
	style    string // none | v4h | v4p | v2h | v2p | bearer | garbage | empty
	ak, sk   string
	validity string // valid | tamper | expired
	form     string // none | pol4 | pol2
	fak, fsk string
	fvalid   string // valid | tamper
}

func (q reqSpec) args() []string {
	d := func(s string) string {
		if s == "" {
			return "-"
		}
		return s
	}
	return []string{q.cfg, q.method, hx.HexS(q.path), hx.HexS(q.query), q.sha, q.ctype, q.copysrc, q.style, d(q.ak), d(q.sk), q.validity, q.form, d(q.fak), d(q.fsk), q.fvalid}
}

func specFromArgs(a []string) reqSpec {
	for len(a) < 15 {
		a = append(a, "-")
	}
	u := func(s string) string {
		if s == "-" {
			return ""
		}
		return s
	}
	return reqSpec{cfg: a[0], method: a[1], path: hx.UnHexS(a[2]), query: hx.UnHexS(a[3]), sha: a[4], ctype: a[5], copysrc: a[6], style: a[7],
		ak: u(a[8]), sk: u(a[9]), validity: a[10], form: a[11], fak: u(a[12]), fsk: u(a[13]), fvalid: a[14]}
}

const (
	streamingSHA = "STREAMING-AWS4-HMAC-SHA256-PAYLOAD"
	emptySHA     = "e3b0c44298fc1c149afbf4c8996fb92427ae41e4649b934ca495991b7852b855"
	host         = "s3.test"
	region       = "us-east-1"
	boundary     = "verifboundary7d1"
)

func hmac256(key []byte, data string) []byte {
	h := hmac.New(sha256.New, key)
	h.Write([]byte(data))
	return h.Sum(nil)
}

func signingKey(secret, day string) []byte {
	k := hmac256([]byte("AWS4"+secret), day)
	k = hmac256(k, region)
	k = hmac256(k, "s3")
	return hmac256(k, "aws4_request")
}

func sha256hex(s string) string {
	h := sha256.Sum256([]byte(s))
	return hex.EncodeToString(h[:])
}

// canonical request exactly as the server recomputes it (paths used here need no escaping)
func canonicalV4(method, path, encQuery string, hdr map[string]string, payload string) (string, string) {
	var names []string
	for k := range hdr {
		names = append(names, k)
	}
	sort.Strings(names)
	var ch strings.Builder
	for _, k := range names {
		ch.WriteString(k + ":" + strings.Join(strings.Fields(hdr[k]), " ") + "\n")
	}
	sh := strings.Join(names, ";")
	return strings.Join([]string{method, path, strings.Replace(encQuery, "+", "%20", -1), ch.String(), sh, payload}, "\n"), sh
}

func stringToSignV4(canon, ts, day string) string {
	return "AWS4-HMAC-SHA256\n" + ts + "\n" + day + "/" + region + "/s3/aws4_request\n" + sha256hex(canon)
}

func hmacSHA1b64(secret, s string) string {
	h := hmac.New(sha1.New, []byte(secret))
	h.Write([]byte(s))
	return base64.StdEncoding.EncodeToString(h.Sum(nil))
}

var v2Resources = []string{"acl", "delete", "lifecycle", "location", "logging", "notification", "partNumber", "policy", "requestPayment",
	"response-cache-control", "response-content-disposition", "response-content-encoding", "response-content-language", "response-content-type",
	"response-expires", "torrent", "uploadId", "uploads", "versionId", "versioning", "versions", "website"}

func v2StringToSign(method, path, query string, h http.Header, date string) string {
	var amz []string
	for k, v := range h {
		lk := strings.ToLower(k)
		if strings.HasPrefix(lk, "x-amz-") {
			amz = append(amz, lk+":"+strings.Join(v, ","))
		}
	}
	sort.Strings(amz)
	ch := strings.Join(amz, "\n")
	if ch != "" {
		ch += "\n"
	}
	kv := map[string]string{}
	for _, q := range strings.Split(query, "&") {
		p := strings.SplitN(q, "=", 2)
		if len(p) == 2 {
			kv[p[0]] = p[1]
		} else {
			kv[p[0]] = ""
		}
	}
	var cq []string
	for _, r := range v2Resources {
		if v, ok := kv[r]; ok {
			if v == "" {
				cq = append(cq, r)
			} else {
				cq = append(cq, r+"="+v)
			}
		}
	}
	res := path
	if len(cq) > 0 {
		res += "?" + strings.Join(cq, "&")
	}
	return strings.Join([]string{method, h.Get("Content-MD5"), h.Get("Content-Type"), date, ch}, "\n") + res
}

// bodyFor: a well-formed payload for the handler the real mux selects for this request
func bodyFor(handler string) string {
	switch handler {
	case "CompleteMultipartUploadHandler":
		return `<CompleteMultipartUpload><Part><PartNumber>1</PartNumber><ETag>"0123"</ETag></Part></CompleteMultipartUpload>`
	case "DeleteMultipleObjectsHandler":
		return `<Delete><Object><Key>k1</Key></Object></Delete>`
	case "PutObjectTaggingHandler":
		return `<Tagging xmlns="http://s3.amazonaws.com/doc/2006-03-01/"><TagSet><Tag><Key>a</Key><Value>b</Value></Tag></TagSet></Tagging>`
	case "PutObjectHandler", "PutObjectPartHandler":
		return "hello-verif"
	}
	return ""
}

func policyForm(q reqSpec, bucket string, now time.Time) string {
	var b bytes.Buffer
	w := multipart.NewWriter(&b)
	w.SetBoundary(boundary)
	pol := fmt.Sprintf(`{"expiration":"%s","conditions":[["eq","$bucket","%s"],["eq","$key","formkey"]]}`,
		now.Add(time.Hour).UTC().Format("2006-01-02T15:04:05.000Z"), bucket)
	pol64 := base64.StdEncoding.EncodeToString([]byte(pol))
	w.WriteField("key", "formkey")
	switch q.form {
	case "pol4":
		day := now.UTC().Format("20060102")
		sig := hex.EncodeToString(hmac256(signingKey(q.fsk, day), pol64))
		w.WriteField("x-amz-algorithm", "AWS4-HMAC-SHA256")
		w.WriteField("x-amz-credential", q.fak+"/"+day+"/"+region+"/s3/aws4_request")
		w.WriteField("x-amz-date", now.UTC().Format("20060102T150405Z"))
		if q.fvalid != "valid" {
			pol64 = base64.StdEncoding.EncodeToString([]byte(strings.Replace(pol, "formkey", "formkeY", 1)))
		}
		w.WriteField("policy", pol64)
		w.WriteField("x-amz-signature", sig)
	case "pol2":
		sig := hmacSHA1b64(q.fsk, pol64)
		w.WriteField("AWSAccessKeyId", q.fak)
		if q.fvalid != "valid" {
			pol64 = base64.StdEncoding.EncodeToString([]byte(strings.Replace(pol, "formkey", "formkeY", 1)))
		}
		w.WriteField("policy", pol64)
		w.WriteField("signature", sig)
	default:
		// a form without any credential fields
	}
	fw, _ := w.CreateFormFile("file", "upload.txt")
	fw.Write([]byte("form-file-content"))
	w.Close()
	return b.String()
}

func chunkedBody(secret, seedSig, ts, day, data string) string {
	sk := signingKey(secret, day)
	prev := seedSig
	var out strings.Builder
	for _, c := range []string{data, ""} {
		sts := "AWS4-HMAC-SHA256-PAYLOAD\n" + ts + "\n" + day + "/" + region + "/s3/aws4_request\n" + prev + "\n" + emptySHA + "\n" + sha256hex(c)
		sig := hex.EncodeToString(hmac256(sk, sts))
		out.WriteString(fmt.Sprintf("%x;chunk-signature=%s\r\n%s\r\n", len(c), sig, c))
		prev = sig
	}
	return out.String()
}

// build constructs the concrete request from the spec; handler = the handler name the mux selects (for the payload).
func build(q reqSpec, handlerOf func(*http.Request) string) *http.Request {
	now := time.Now().UTC()
	ts := now.Format("20060102T150405Z")
	day := now.Format("20060102")
	h := http.Header{}
	switch q.sha {
	case "streaming":
		h.Set("X-Amz-Content-Sha256", streamingSHA)
	case "unsigned":
		h.Set("X-Amz-Content-Sha256", "UNSIGNED-PAYLOAD")
	case "hash":
		h.Set("X-Amz-Content-Sha256", emptySHA)
	}
	switch q.ctype {
	case "multipart":
		h.Set("Content-Type", "multipart/form-data; boundary="+boundary)
	case "formdat":
		h.Set("Content-Type", "multipart/form-dat")
	case "xml":
		h.Set("Content-Type", "application/xml")
	}
	switch q.copysrc {
	case "ok":
		h.Set("X-Amz-Copy-Source", "/b2/srcobj")
	case "noslash":
		h.Set("X-Amz-Copy-Source", "srcobj")
	}
	query := q.query
	addq := func(s string) {
		if query == "" {
			query = s
		} else {
			query += "&" + s
		}
	}
	// credentials that live in the query string decide the route too, so they come before the probe
	payloadHash := emptySHA
	if v := h.Get("X-Amz-Content-Sha256"); v != "" {
		payloadHash = v
	}
	var presignVals url.Values
	switch q.style {
	case "v4p":
		exp := "600"
		pts := ts
		if q.validity == "expired" {
			pts = now.Add(-2 * time.Hour).Format("20060102T150405Z")
			exp = "60"
		}
		presignVals = url.Values{}
		presignVals.Set("X-Amz-Algorithm", "AWS4-HMAC-SHA256")
		presignVals.Set("X-Amz-Credential", q.ak+"/"+pts[:8]+"/"+region+"/s3/aws4_request")
		presignVals.Set("X-Amz-Date", pts)
		presignVals.Set("X-Amz-Expires", exp)
		presignVals.Set("X-Amz-SignedHeaders", "host")
	case "v2p":
		// added after the base query below
	}
	mk := func(rawQuery string, body string) *http.Request {
		target := q.path
		if rawQuery != "" {
			target += "?" + rawQuery
		}
		r := httptest.NewRequest(q.method, "http://"+host+target, strings.NewReader(body))
		r.RequestURI = target
		r.Host = host
		for k, v := range h {
			r.Header[k] = v
		}
		return r
	}
	// probe which handler the mux selects, to choose a well-formed payload
	probeQuery := query
	if q.style == "v4p" {
		probeQuery = joinq(query, presignVals.Encode())
	} else if q.style == "v2p" {
		probeQuery = joinq(query, "AWSAccessKeyId=x&Expires=1&Signature=x")
	}
	switch q.style {
	case "v4h":
		h.Set("Authorization", "AWS4-HMAC-SHA256 probe")
	case "v2h":
		h.Set("Authorization", "AWS probe")
	case "bearer":
		h.Set("Authorization", "Bearer abc.def")
	case "garbage":
		h.Set("Authorization", "Basic Zm9vOmJhcg==")
	case "empty":
		h["Authorization"] = []string{""}
	}
	handler := handlerOf(mk(probeQuery, ""))
	body := bodyFor(handler)
	if handler == "PostPolicyBucketHandler" || (q.form != "none" && q.ctype == "multipart") {
		bucket := strings.SplitN(strings.TrimPrefix(q.path, "/"), "/", 2)[0]
		body = policyForm(q, bucket, now)
	}

	switch q.style {
	case "v4h":
		h.Set("X-Amz-Date", ts)
		signed := map[string]string{"host": host, "x-amz-date": ts}
		if v := h.Get("X-Amz-Content-Sha256"); v != "" {
			signed["x-amz-content-sha256"] = v
		}
		if v := h.Get("X-Amz-Copy-Source"); v != "" {
			signed["x-amz-copy-source"] = v
		}
		h.Set("X-Amz-Meta-Note", "n1")
		signed["x-amz-meta-note"] = "n1"
		qv, _ := url.ParseQuery(query)
		canon, sh := canonicalV4(q.method, q.path, qv.Encode(), signed, payloadHash)
		sig := hex.EncodeToString(hmac256(signingKey(q.sk, day), stringToSignV4(canon, ts, day)))
		h.Set("Authorization", fmt.Sprintf("AWS4-HMAC-SHA256 Credential=%s/%s/%s/s3/aws4_request, SignedHeaders=%s, Signature=%s", q.ak, day, region, sh, sig))
		if q.validity != "valid" {
			h.Set("X-Amz-Meta-Note", "n2")
		}
		if q.sha == "streaming" && (handler == "PutObjectHandler" || handler == "PutObjectPartHandler") {
			body = chunkedBody(q.sk, sig, ts, day, body)
		}
		return mk(query, body)
	case "v4p":
		all, _ := url.ParseQuery(query)
		for k, v := range presignVals {
			all[k] = v
		}
		canon, _ := canonicalV4(q.method, q.path, all.Encode(), map[string]string{"host": host}, unsignedOr(h))
		pts := presignVals.Get("X-Amz-Date")
		sig := hex.EncodeToString(hmac256(signingKey(q.sk, pts[:8]), stringToSignV4(canon, pts, pts[:8])))
		if q.validity != "valid" && q.validity != "expired" {
			sig = flipHex(sig)
		}
		return mk(joinq(query, presignVals.Encode()+"&X-Amz-Signature="+sig), body)
	case "v2h":
		date := now.Format(http.TimeFormat)
		h.Set("Date", date)
		sts := v2StringToSign(q.method, q.path, query, h, date)
		h.Set("Authorization", "AWS "+q.ak+":"+hmacSHA1b64(q.sk, sts))
		if q.validity != "valid" {
			h.Set("Date", now.Add(time.Minute).Format(http.TimeFormat))
		}
		return mk(query, body)
	case "v2p":
		exp := strconv.FormatInt(now.Add(10*time.Minute).Unix(), 10)
		if q.validity == "expired" {
			exp = strconv.FormatInt(now.Add(-10*time.Minute).Unix(), 10)
		}
		sts := v2StringToSign(q.method, q.path, query, h, exp)
		sig := hmacSHA1b64(q.sk, sts)
		if q.validity != "valid" && q.validity != "expired" {
			sig = hmacSHA1b64(q.sk, sts+"x")
		}
		addq("AWSAccessKeyId=" + url.QueryEscape(q.ak) + "&Expires=" + exp + "&Signature=" + url.QueryEscape(sig))
		return mk(query, body)
	}
	return mk(query, body)
}

func unsignedOr(h http.Header) string {
	if v := h.Get("X-Amz-Content-Sha256"); v != "" {
		return v
	}
	return "UNSIGNED-PAYLOAD"
}

func flipHex(s string) string {
	b := []byte(s)
	if b[0] == '0' {
		b[0] = '1'
	} else {
		b[0] = '0'
	}
	return string(b)
}

func joinq(a, b string) string {
	if a == "" {
		return b
	}
	if b == "" {
		return a
	}
	return a + "&" + b
}

var handlerNames []string // by route index, from the AST of registerRouter

func runReq(q reqSpec) {
	s := servers[q.cfg]
	if s == nil {
		tr.Op("req", q.args(), []string{"nocfg"})
		return
	}
	routeIdx := func(r *http.Request) int {
		var m mux.RouteMatch
		if s.router.Match(r, &m) && m.Route != nil {
			for i, rt := range s.routes {
				if rt == m.Route {
					return i
				}
			}
		}
		return -1
	}
	r := build(q, func(p *http.Request) string {
		i := routeIdx(p)
		if i >= 0 && i < len(handlerNames) {
			return handlerNames[i]
		}
		return ""
	})
	idx := routeIdx(r)
	s.filer.take()
	rec := httptest.NewRecorder()
	outs := hx.Guard(func() []string {
		s.router.ServeHTTP(rec, r)
		return nil
	})
	calls := s.filer.take()
	eff := "0" // 0 nothing reached the filer, 1 only entry lookups, 2 anything more
	for _, c := range calls {
		if c == "grpc:LookupDirectoryEntry" {
			if eff == "0" {
				eff = "1"
			}
		} else {
			eff = "2"
		}
	}
	first := "-"
	if len(calls) > 0 {
		first = calls[0]
	}
	st := strconv.Itoa(rec.Code)
	if len(outs) > 0 {
		st = "panic"
	}
	tr.Op("req", q.args(), []string{hx.I(int64(idx)), eff, st, first})
}

// ---------------------------------------------------------------- IAM policy documents

type stmt struct {
	effect    string
	actions   []string
	resources []string
}

func runIam(stmts []stmt) {
	var args []string
	args = append(args, hx.I(int64(len(stmts))))
	var doc iamapi.PolicyDocument
	doc.Version = "2012-10-17"
	for _, s := range stmts {
		args = append(args, hx.HexS(s.effect), hx.HexS(strings.Join(s.actions, ",")), hx.HexS(strings.Join(s.resources, ",")))
		st := &iamapi.Statement{Effect: s.effect, Action: s.actions, Resource: s.resources}
		doc.Statement = append(doc.Statement, st)
	}
	outs := hx.Guard(func() []string {
		acts := iamapi.GetActions(&doc)
		o := []string{hx.I(int64(len(acts)))}
		for _, a := range acts {
			o = append(o, hx.HexS(a))
		}
		return o
	})
	tr.Op("iam", args, outs)
}

func iamFromArgs(a []string) []stmt {
	n, _ := strconv.Atoi(a[0])
	var out []stmt
	sp := func(s string) []string {
		if s == "" {
			return nil
		}
		return strings.Split(s, ",")
	}
	for i := 0; i < n && 3+3*i < len(a)+0; i++ {
		out = append(out, stmt{hx.UnHexS(a[1+3*i]), sp(hx.UnHexS(a[2+3*i])), sp(hx.UnHexS(a[3+3*i]))})
	}
	return out
}

// ---------------------------------------------------------------- source facts (T1, regenerated at every run)

func srcDir() string {
	pc := reflect.ValueOf(s3api.NewS3ApiServer).Pointer()
	file, _ := runtime.FuncForPC(pc).FileLine(pc)
	return filepath.Dir(file)
}

var facts *c26ast.Facts

func emitFacts(s *server) {
	F, err := c26ast.Load(srcDir())
	must(err)
	facts = F
	d := func(x string) string {
		if x == "" {
			return "-"
		}
		return x
	}
	handlerNames = nil
	for i, r := range F.Routes {
		handlerNames = append(handlerNames, r.Handler)
		var outs []string
		if i < len(s.routes) {
			rt := s.routes[i]
			ms, _ := rt.GetMethods()
			pt, _ := rt.GetPathTemplate()
			qs, _ := rt.GetQueriesTemplates()
			outs = []string{strings.Join(ms, ","), hx.HexS(pt), hx.HexS(strings.Join(qs, "&"))}
		} else {
			outs = []string{"missing"}
		}
		tr.Op("route", []string{hx.I(int64(i)), r.Handler, r.Action, r.Method, hx.HexS(r.Path), hx.HexS(strings.Join(r.Queries, "&")), d(r.HdrKey), hx.HexS(r.HdrRe)}, outs)
	}
	tr.Op("routes_end", []string{hx.I(int64(len(F.Routes)))}, []string{hx.I(int64(len(s.routes)))})
	var pairs []string
	for _, p := range F.Order {
		pairs = append(pairs, hx.HexS(p[0])+":"+p[1])
	}
	tr.Op("authorder", pairs, nil)
	for _, p := range F.Preds {
		tr.Op("authpred", []string{p[0], hx.HexS(p[1])}, nil)
	}
	for _, c := range F.Cases {
		arm := c[1]
		if strings.HasPrefix(arm, "other:") {
			arm = "other:" + hx.HexS(arm[6:])
		}
		tr.Op("authcase", []string{c[0], arm}, nil)
	}
	tr.Op("authtail", []string{hx.HexS(F.Tail)}, nil)
	for _, v := range F.Verifiers {
		tr.Op("hverify", []string{v[0], v[1]}, nil)
	}
}

// ---------------------------------------------------------------- generation

var buckets = []string{"b1", "b2", "b10"}

func stdIdents(k int) []ident {
	switch k {
	case 0: // one identity per plain action
		return []ident{
			{"admin", []string{"Admin"}, []cred{{"AKADMIN", "skadmin"}}},
			{"reader", []string{"Read"}, []cred{{"AKREAD", "skread"}}},
			{"writer", []string{"Write"}, []cred{{"AKWRITE", "skwrite"}}},
			{"lister", []string{"List"}, []cred{{"AKLIST", "sklist"}}},
			{"tagger", []string{"Tagging"}, []cred{{"AKTAG", "sktag"}}},
		}
	case 1: // per-bucket, wildcard, other bucket; anonymous may read
		return []ident{
			{"w1", []string{"Write:b1", "Read:b1"}, []cred{{"AKW1", "skw1"}}},
			{"wstar", []string{"Write:b1*"}, []cred{{"AKWSTAR", "skwstar"}}},
			{"a2", []string{"Admin:b2"}, []cred{{"AKA2", "ska2"}}},
			{"lt", []string{"List", "Tagging:b2"}, []cred{{"AKLT", "sklt"}, {"AKLT2", "sklt2"}}},
			{"anonymous", []string{"Read"}, nil},
		}
	case 2: // anonymous may write one bucket; a user without any action; a duplicate access key
		return []ident{
			{"anonymous", []string{"Write:b2", "List:b2"}, nil},
			{"nobody", nil, []cred{{"AKNOBODY", "sknobody"}}},
			{"rw", []string{"Read", "Write"}, []cred{{"AKRW", "skrw"}}},
			{"dup", []string{"Admin"}, []cred{{"AKRW", "skdup"}}},
			{"allb", []string{"Write:*", "Tagging:b*"}, []cred{{"AKALLB", "skallb"}}},
		}
	case 3: // nothing configured: the S3 gateway is open
		return nil
	}
	return nil
}

// randIdents: 1-3 identities with random (also odd) action strings, sometimes an anonymous one
func randIdents(rng *hx.Rng) []ident {
	pool := []string{"Admin", "Read", "Write", "List", "Tagging", "Read:b1", "Write:b1", "Write:b1*", "Admin:b1*", "Write:b*", "Read:*", "Admin:*", "*",
		"Write:", "Tagging:b2", "List:b10", "Wri*", "Write:b2*", "Admin:b2", "Read:b10", ":b1", "Write:b1:x", "List:*", "Tagging:b1*", "write", "Write*"}
	var out []ident
	n := 1 + rng.Intn(3)
	for i := 0; i < n; i++ {
		var acts []string
		for k := rng.Intn(4); k > 0; k-- {
			acts = append(acts, pool[rng.Intn(len(pool))])
		}
		out = append(out, ident{fmt.Sprintf("u%d", i), acts, []cred{{fmt.Sprintf("AKU%d", i), fmt.Sprintf("sku%d", i)}}})
	}
	if rng.Chance(1, 2) {
		var acts []string
		for k := rng.Intn(3); k > 0; k-- {
			acts = append(acts, pool[rng.Intn(len(pool))])
		}
		out = append(out, ident{"anonymous", acts, nil})
	}
	return out
}

type routeShape struct {
	method, path, query, copysrc, ctype string
}

// one request shape per route of the table (by intent), plus shapes that match nothing
func shapes(b string) []routeShape {
	o := "/" + b + "/dir/obj"
	bk := "/" + b
	return []routeShape{
		{"HEAD", o, "", "none", "none"},
		{"HEAD", bk, "", "none", "none"},
		{"PUT", o, "partNumber=1&uploadId=u1", "ok", "none"},
		{"PUT", o, "partNumber=1&uploadId=u1", "none", "none"},
		{"POST", o, "uploadId=u1", "none", "xml"},
		{"POST", o, "uploads=", "none", "none"},
		{"DELETE", o, "uploadId=u1", "none", "none"},
		{"GET", o, "uploadId=u1", "none", "none"},
		{"GET", bk, "uploads=", "none", "none"},
		{"GET", o, "tagging=", "none", "none"},
		{"PUT", o, "tagging=", "none", "xml"},
		{"DELETE", o, "tagging=", "none", "none"},
		{"PUT", o, "", "ok", "none"},
		{"PUT", o, "", "none", "none"},
		{"PUT", bk, "", "none", "none"},
		{"DELETE", o, "", "none", "none"},
		{"DELETE", bk, "", "none", "none"},
		{"GET", bk, "list-type=2", "none", "none"},
		{"GET", o, "", "none", "none"},
		{"GET", bk, "", "none", "none"},
		{"POST", bk, "", "none", "multipart"},
		{"POST", bk, "delete=", "none", "xml"},
		{"GET", "/", "", "none", "none"},
		// shapes around the table
		{"PUT", o, "partNumber=x&uploadId=u1", "none", "none"},
		{"PUT", o, "", "noslash", "none"},
		{"GET", bk + "/", "list-type=1", "none", "none"},
		{"POST", bk, "", "none", "formdat"},
		{"POST", bk, "", "none", "none"},
		{"POST", o, "", "none", "none"},
		{"PATCH", o, "", "none", "none"},
		{"POST", "/", "", "none", "none"},
		{"PUT", bk + "/", "", "none", "none"},
	}
}

// shapesFromSource: one request shape per route statement of the REGENERATED table (so a route added to
// registerRouter is exercised without touching this harness), merged with the hand-written shapes.
func allShapes(b string) []routeShape {
	out := shapes(b)
	seen := map[routeShape]bool{}
	for _, s := range out {
		seen[s] = true
	}
	if facts == nil {
		return out
	}
	for _, r := range facts.Routes {
		sh := routeShape{method: strings.Split(r.Method, ",")[0], path: "/" + b, copysrc: "none", ctype: "none"}
		switch r.Path {
		case "/":
			sh.path = "/"
		case "":
		default:
			sh.path = "/" + b + "/dir/obj"
		}
		var qs []string
		for _, q := range r.Queries {
			kv := strings.SplitN(q, "=", 2)
			v := kv[1]
			switch {
			case strings.Contains(v, "[0-9]"):
				v = "1"
			case strings.HasPrefix(v, "{"):
				v = "u1"
			}
			qs = append(qs, kv[0]+"="+v)
		}
		sh.query = strings.Join(qs, "&")
		switch r.HdrKey {
		case "X-Amz-Copy-Source":
			sh.copysrc = "ok"
		case "Content-Type":
			sh.ctype = "multipart"
		}
		if !seen[sh] {
			seen[sh] = true
			out = append(out, sh)
		}
	}
	return out
}

type credChoice struct{ ak, sk string }

func generate(a *hx.Args, rng *hx.Rng) {
	styles := []string{"none", "v4h", "v4p", "v2h", "v2p", "bearer", "garbage", "empty"}
	nrand := 2
	if a.Thorough() {
		nrand = 8
	}
	ncfg := 4 + nrand
	for c := 0; c < ncfg; c++ {
		id := fmt.Sprintf("c%d", c)
		ids := stdIdents(c)
		if c >= 4 {
			ids = randIdents(rng)
		}
		newServer(id, ids)
		if c == 0 {
			emitFacts(servers[id])
		}
		// credential choices: every identity's first key, right and wrong secret, an unknown key
		var ccs []credChoice
		for _, i := range ids {
			for _, k := range i.creds {
				ccs = append(ccs, credChoice{k.ak, k.sk})
			}
		}
		ccs = append(ccs, credChoice{"AKUNKNOWN", "skunknown"})
		if len(ids) > 0 && len(ids[0].creds) > 0 {
			ccs = append(ccs, credChoice{ids[0].creds[0].ak, "wrongsecret"})
		}
		emit := func(sh routeShape, style string, cc credChoice, validity, sha, form string, fc credChoice, fvalid string) {
			q := reqSpec{cfg: id, method: sh.method, path: sh.path, query: sh.query, sha: sha, ctype: sh.ctype, copysrc: sh.copysrc,
				style: style, ak: cc.ak, sk: cc.sk, validity: validity, form: form, fak: fc.ak, fsk: fc.sk, fvalid: fvalid}
			if style != "v4h" && style != "v4p" && style != "v2h" && style != "v2p" {
				q.ak, q.sk = "", ""
			}
			if form == "none" {
				q.fak, q.fsk = "", ""
			}
			runReq(q)
		}
		// deterministic positives: every configured key, well signed in every style, on the routes with their own verification
		for _, cc := range ccs {
			o := "/b1/dir/obj"
			none := credChoice{}
			for _, style := range []string{"v4h", "v4p", "v2h", "v2p"} {
				emit(routeShape{"GET", o, "", "none", "none"}, style, cc, "valid", "none", "none", none, "valid")
				emit(routeShape{"PUT", o, "", "none", "none"}, style, cc, "valid", "none", "none", none, "valid")
			}
			emit(routeShape{"PUT", o, "", "none", "none"}, "v4h", cc, "valid", "streaming", "none", none, "valid")
			emit(routeShape{"PUT", o, "partNumber=1&uploadId=u1", "none", "none"}, "v4h", cc, "valid", "streaming", "none", none, "valid")
			emit(routeShape{"POST", "/b1", "", "none", "multipart"}, "none", none, "valid", "none", "pol4", cc, "valid")
			emit(routeShape{"POST", "/b1", "", "none", "multipart"}, "none", none, "valid", "none", "pol2", cc, "valid")
			emit(routeShape{"GET", "/", "", "none", "none"}, "v4h", cc, "valid", "none", "none", none, "valid")
		}
		emit(routeShape{"GET", "/b1/dir/obj", "", "none", "none"}, "none", credChoice{}, "valid", "none", "none", credChoice{}, "valid")
		// systematic part: every shape x style x (a few credentials) with the sha header off / streaming
		for bi, b := range buckets {
			if c >= 4 {
				break // random identity sets: random requests only
			}
			for si, sh := range allShapes(b) {
				for _, style := range styles {
					for _, sha := range []string{"none", "streaming"} {
						signed := style == "v4h" || style == "v4p" || style == "v2h" || style == "v2p"
						n := 1
						if signed {
							n = 2
						}
						for k := 0; k < n; k++ {
							cc := ccs[rng.Intn(len(ccs))]
							validity := "valid"
							if signed && rng.Chance(1, 5) {
								validity = rng.Pick([]string{"tamper", "expired"})
								if validity == "expired" && (style == "v4h" || style == "v2h") {
									validity = "tamper"
								}
							}
							form, fc, fvalid := "none", credChoice{}, "valid"
							if sh.ctype == "multipart" || (sh.method == "POST" && rng.Chance(1, 6)) {
								form = rng.Pick([]string{"none", "pol4", "pol2", "pol4", "pol2"})
								fc = ccs[rng.Intn(len(ccs))]
								if rng.Chance(1, 5) {
									fvalid = "tamper"
								}
							}
							shx := sh
							if sh.method == "POST" && sh.ctype != "multipart" && k == n-1 && sha == "none" {
								shx.ctype = "multipart" // confusion: multipart content type on every POST route
							}
							// thin the grid deterministically in the quick tier
							if !a.Thorough() && a.Budget <= 1 && (bi+si+k)%3 != int(a.Seed%3) && !(sha == "streaming" && sh.method == "PUT") && sh.method != "POST" {
								continue
							}
							emit(shx, style, cc, validity, sha, form, fc, fvalid)
							if shx.ctype != sh.ctype && !signed {
								emit(sh, style, cc, validity, sha, form, fc, fvalid)
							}
						}
					}
				}
			}
		}
		// random part
		for i := 0; i < a.N(300); i++ {
			b := buckets[rng.Intn(len(buckets))]
			shs := allShapes(b)
			sh := shs[rng.Intn(len(shs))]
			if rng.Chance(1, 4) {
				sh.ctype = rng.Pick([]string{"none", "multipart", "formdat", "xml"})
			}
			if rng.Chance(1, 6) {
				sh.copysrc = rng.Pick([]string{"none", "ok", "noslash"})
			}
			style := styles[rng.Intn(len(styles))]
			cc := ccs[rng.Intn(len(ccs))]
			validity := rng.Pick([]string{"valid", "valid", "valid", "tamper", "expired"})
			if c >= 4 {
				// random identity sets exercise canDo: mostly well-signed requests of configured keys
				style = rng.Pick([]string{"v4h", "v4p", "v2h", "v2p", "v4h", "none"})
				if len(ccs) > 2 {
					cc = ccs[rng.Intn(len(ccs)-2)]
				}
				if rng.Chance(9, 10) {
					validity = "valid"
				}
			}
			if validity == "expired" && style != "v4p" && style != "v2p" {
				validity = "valid"
			}
			sha := rng.Pick([]string{"none", "none", "streaming", "streaming", "unsigned", "hash"})
			form, fc, fvalid := "none", credChoice{}, "valid"
			if sh.method == "POST" && rng.Chance(2, 3) {
				form = rng.Pick([]string{"none", "pol4", "pol2"})
				fc = ccs[rng.Intn(len(ccs))]
				fvalid = rng.Pick([]string{"valid", "valid", "tamper"})
			}
			emit(sh, style, cc, validity, sha, form, fc, fvalid)
		}
	}
	genIam(a, rng)
}

func genIam(a *hx.Args, rng *hx.Rng) {
	effects := []string{"Allow", "Allow", "Allow", "Deny", "allow", ""}
	actions := []string{"s3:*", "s3:Put*", "s3:Get*", "s3:List*", "s3:Tagging*", "s3:GetObject", "s3:Put", "Put*", "iam:Get*", "s3:Get*:x", "*", "s3:"}
	resources := []string{"arn:aws:s3:::*", "arn:aws:s3:::b1/*", "arn:aws:s3:::b2/*", "arn:aws:s3:::b1*/*", "arn:aws:s3:::*/*", "arn:aws:s3:::b1", "arn:aws:s3:::b1/x/*",
		"arn:aws:s3:::b1/x", "arn:aws:iam:::b1/*", "arn:aws:s3::b1/*", "arn:aws:s3:::/*", "b1/*", "arn:aws:s3:::b1/*:x", "arn:aws:s3:::", "*", "arn:aws:s3:us::b2/*"}
	for i := 0; i < a.N(400); i++ {
		n := rng.Intn(4)
		var st []stmt
		for k := 0; k < n; k++ {
			s := stmt{effect: effects[rng.Intn(len(effects))]}
			for j := rng.Intn(3); j >= 0; j-- {
				s.actions = append(s.actions, actions[rng.Intn(len(actions))])
			}
			for j := rng.Intn(3); j >= 0; j-- {
				s.resources = append(s.resources, resources[rng.Intn(len(resources))])
			}
			if rng.Chance(1, 10) {
				s.actions = nil
			}
			if rng.Chance(1, 10) {
				s.resources = nil
			}
			st = append(st, s)
		}
		runIam(st)
	}
}

func replay(ops [][]string) {
	factsDone := false
	for _, op := range ops {
		switch op[0] {
		case "cfg":
			var ids []ident
			for _, t := range op[2:] {
				ids = append(ids, parseIdent(t))
			}
			s := newServer(op[1], ids)
			if !factsDone {
				emitFacts(s)
				factsDone = true
			}
		case "req":
			if len(handlerNames) == 0 {
				// a replay without a cfg line cannot run
			}
			runReq(specFromArgs(op[1:]))
		case "iam":
			runIam(iamFromArgs(op[1:]))
		case "route", "routes_end", "authorder", "authpred", "authcase", "authtail", "hverify":
			// facts are regenerated from the source, never replayed
		}
	}
}

func must(err error) {
	if err != nil {
		fmt.Fprintln(os.Stderr, "c26 harness:", err)
		os.Exit(2)
	}
}

func main() {
	a := hx.ParseArgs()
	tr = hx.NewTrace(a.Out)
	defer tr.Close()
	var err error
	tmpDir, err = os.MkdirTemp("", "c26-")
	must(err)
	defer os.RemoveAll(tmpDir)
	theFiler = newFakeFiler()
	if a.Ops != "" {
		replay(hx.ReadOps(a.Ops))
		return
	}
	generate(a, hx.NewRng(a.Seed))
}
