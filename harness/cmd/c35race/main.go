// c35race: supporting evidence for C35 (NOT part of ./check): concurrent readers and writers on the real
// vidMap. Run with the race detector:
//
//	cd /verif/harness && CGO_ENABLED=1 GOFLAGS=-mod=mod GOPROXY=off go run -race -tags verif ./cmd/c35race
//
// Readers call LookupVolumeServerUrl / GetLocations and iterate the result while writers add and delete
// locations; the program counts results that show a url twice and lets the race detector report the
// unsynchronised accesses to the shared backing array.
package main

import (
	"fmt"
	"sync"
	"sync/atomic"

	"github.com/chrislusf/seaweedfs/weed/wdclient"
)

func main() {
	vm := wdclient.NewVidMapVerif("dc1")
	urls := []string{"u1", "u2", "u3", "u4"}
	for _, u := range urls {
		vm.AddLocation(1, wdclient.Location{Url: u, DataCenter: "dc1"})
	}
	var dups, lookups int64
	var wg sync.WaitGroup
	stop := make(chan struct{})
	for r := 0; r < 4; r++ {
		wg.Add(1)
		go func() {
			defer wg.Done()
			for {
				select {
				case <-stop:
					return
				default:
				}
				got, err := vm.LookupVolumeServerUrl("1")
				atomic.AddInt64(&lookups, 1)
				if err != nil {
					continue
				}
				seen := map[string]bool{}
				for _, u := range got {
					if seen[u] {
						atomic.AddInt64(&dups, 1)
						break
					}
					seen[u] = true
				}
			}
		}()
	}
	for i := 0; i < 200000; i++ {
		u := urls[i%3] // u4 is never removed
		vm.DeleteLocation(1, wdclient.Location{Url: u})
		vm.AddLocation(1, wdclient.Location{Url: u, DataCenter: "dc1"})
	}
	close(stop)
	wg.Wait()
	fmt.Printf("lookups=%d results-with-duplicate-url=%d\n", lookups, dups)
}
