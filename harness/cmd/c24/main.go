// c24: correspondence harness for C24 (filer metadata stores return what was stored).
// Real leveldb / leveldb2 / leveldb3 stores behind the real FilerStoreWrapper (Filer.Store):
// insert / update random entries, read them back via FindEntry, via the wrapper's
// ListDirectoryEntries and via Filer.ListDirectoryEntries (prefixed path), dump canonically.
//
// entry tokens: 15 attribute tokens, nchunks, 5 tokens per chunk (fileId fid srcFileId srcFid payload),
//
//	extended hardLinkId hardLinkCounter content remote
//
// ops:  reset <kind>
//
//	put ins|upd <path> <entry>   => ok|err <first byte of the marshalled entry> <gz 0|1: stored value would be gzipped>
//	find <path>                  => ok <entry> | notfound | err
//	ls w|f <path>                => ok <entry> | notfound | err     (listing of the parent, start=name inclusive, limit 1)
package main

import (
	"context"
	"fmt"
	"os"
	"sort"
	"strconv"
	"strings"
	"sync"
	"time"

	"github.com/chrislusf/seaweedfs/weed/filer"
	"github.com/chrislusf/seaweedfs/weed/filer/leveldb"
	leveldb2 "github.com/chrislusf/seaweedfs/weed/filer/leveldb2"
	leveldb3 "github.com/chrislusf/seaweedfs/weed/filer/leveldb3"
	"github.com/chrislusf/seaweedfs/weed/pb/filer_pb"
	"github.com/chrislusf/seaweedfs/weed/util"

	"verifharness/hx"
)

type conf map[string]string

func (c conf) GetString(k string) string      { return c[k] }
func (c conf) GetBool(string) bool            { return false }
func (c conf) GetInt(string) int              { return 0 }
func (c conf) GetStringSlice(string) []string { return nil }
func (c conf) SetDefault(string, interface{}) {}

var (
	tr     *hx.Trace
	tmpDir string
	insts  = map[string]*filer.Filer{}
	cur    *filer.Filer
	ctx    = context.Background()
)

func getInst(kind string) *filer.Filer {
	if f, ok := insts[kind]; ok {
		return f
	}
	var st filer.FilerStore
	switch kind {
	case "leveldb":
		st = &leveldb.LevelDBStore{}
	case "leveldb2":
		st = &leveldb2.LevelDB2Store{}
	case "leveldb3":
		st = &leveldb3.LevelDB3Store{}
	default:
		panic("kind " + kind)
	}
	if err := st.Initialize(conf{"x.dir": tmpDir + "/" + kind}, "x."); err != nil {
		panic(err)
	}
	f := filer.NewFiler(nil, nil, "", 0, "", "", "", nil)
	f.SetStore(st)
	insts[kind] = f
	return f
}

func doReset(kind string) {
	cur = getInst(kind)
	tr.Op("reset", []string{kind}, nil)
}

// ---------------------------------------------------------------- canonical dump
func fidTok(f *filer_pb.FileId) string {
	if f == nil {
		return "-"
	}
	return fmt.Sprintf("%d:%d:%d", f.VolumeId, f.FileKey, f.Cookie)
}

func parseFidTok(s string) *filer_pb.FileId {
	if s == "-" {
		return nil
	}
	p := strings.Split(s, ":")
	v, _ := strconv.ParseUint(p[0], 10, 32)
	k, _ := strconv.ParseUint(p[1], 10, 64)
	c, _ := strconv.ParseUint(p[2], 10, 32)
	return &filer_pb.FileId{VolumeId: uint32(v), FileKey: k, Cookie: uint32(c)}
}

func chunkPayload(c *filer_pb.FileChunk) string {
	return hx.HexS(fmt.Sprintf("%d,%d,%d,%s,%x,%v,%v", c.Offset, c.Size, c.Mtime, c.ETag, c.CipherKey, c.IsCompressed, c.IsChunkManifest))
}

func parsePayload(tok string, c *filer_pb.FileChunk) {
	p := strings.Split(hx.UnHexS(tok), ",")
	if len(p) < 7 {
		return
	}
	c.Offset, _ = strconv.ParseInt(p[0], 10, 64)
	c.Size, _ = strconv.ParseUint(p[1], 10, 64)
	c.Mtime, _ = strconv.ParseInt(p[2], 10, 64)
	c.ETag = p[3]
	c.CipherKey = hx.UnHex(orDash(p[4]))
	c.IsCompressed = p[5] == "true"
	c.IsChunkManifest = p[6] == "true"
}

func orDash(s string) string {
	if s == "" {
		return "-"
	}
	return s
}

func dump(e *filer.Entry) []string {
	a := e.Attr
	o := []string{hx.I(a.Mtime.Unix()), hx.I(a.Crtime.Unix()), hx.U(uint64(a.Mode)), hx.U(uint64(a.Uid)), hx.U(uint64(a.Gid)),
		hx.HexS(a.Mime), hx.HexS(a.Replication), hx.HexS(a.Collection), hx.I(int64(a.TtlSec)), hx.HexS(a.DiskType), hx.HexS(a.UserName),
		hx.HexS(strings.Join(a.GroupNames, ",")), hx.HexS(a.SymlinkTarget), hx.Hex(a.Md5), hx.U(a.FileSize)}
	o = append(o, hx.I(int64(len(e.Chunks))))
	for _, c := range e.Chunks {
		o = append(o, hx.HexS(c.FileId), fidTok(c.Fid), hx.HexS(c.SourceFileId), fidTok(c.SourceFid), chunkPayload(c))
	}
	var ks []string
	for k := range e.Extended {
		ks = append(ks, k)
	}
	sort.Strings(ks)
	ext := ""
	for _, k := range ks {
		ext += fmt.Sprintf("%x=%x;", k, e.Extended[k])
	}
	rem := "-"
	if e.Remote != nil {
		rem = hx.HexS(fmt.Sprintf("%d,%d,%s", e.Remote.LastModifiedAt, e.Remote.Size, e.Remote.ETag))
	}
	o = append(o, hx.HexS(ext), hx.Hex(e.HardLinkId), hx.I(int64(e.HardLinkCounter)), hx.Hex(e.Content), rem)
	return o
}

// undump rebuilds an entry from its tokens (replay)
func undump(path string, t []string) *filer.Entry {
	g := func(i int) string {
		if i < len(t) {
			return t[i]
		}
		return "-"
	}
	n := func(i int) int64 { v, _ := strconv.ParseInt(g(i), 10, 64); return v }
	u := func(i int) uint64 { v, _ := strconv.ParseUint(g(i), 10, 64); return v }
	e := &filer.Entry{FullPath: util.FullPath(path)}
	e.Mtime, e.Crtime = time.Unix(n(0), 0), time.Unix(n(1), 0)
	e.Mode, e.Uid, e.Gid = os.FileMode(u(2)), uint32(u(3)), uint32(u(4))
	e.Mime, e.Replication, e.Collection = hx.UnHexS(g(5)), hx.UnHexS(g(6)), hx.UnHexS(g(7))
	e.TtlSec, e.DiskType, e.UserName = int32(n(8)), hx.UnHexS(g(9)), hx.UnHexS(g(10))
	if g(11) != "-" {
		e.GroupNames = strings.Split(hx.UnHexS(g(11)), ",")
	}
	e.SymlinkTarget, e.Md5, e.FileSize = hx.UnHexS(g(12)), hx.UnHex(g(13)), u(14)
	nc := int(n(15))
	p := 16
	for i := 0; i < nc; i++ {
		c := &filer_pb.FileChunk{FileId: hx.UnHexS(g(p)), Fid: parseFidTok(g(p + 1)), SourceFileId: hx.UnHexS(g(p + 2)), SourceFid: parseFidTok(g(p + 3))}
		parsePayload(g(p+4), c)
		e.Chunks = append(e.Chunks, c)
		p += 5
	}
	if ext := hx.UnHexS(g(p)); ext != "" {
		e.Extended = map[string][]byte{}
		for _, kv := range strings.Split(strings.TrimSuffix(ext, ";"), ";") {
			x := strings.SplitN(kv, "=", 2)
			if len(x) == 2 {
				e.Extended[string(hx.UnHex(orDash(x[0])))] = hx.UnHex(orDash(x[1]))
			}
		}
	}
	e.HardLinkId = hx.UnHex(g(p + 1))
	e.HardLinkCounter = int32(n(p + 2))
	e.Content = hx.UnHex(g(p + 3))
	if g(p+4) != "-" {
		x := strings.SplitN(hx.UnHexS(g(p+4)), ",", 3)
		if len(x) == 3 {
			lm, _ := strconv.ParseInt(x[0], 10, 64)
			sz, _ := strconv.ParseInt(x[1], 10, 64)
			e.Remote = &filer_pb.Entry_Remote{LastModifiedAt: lm, Size: sz, ETag: x[2]}
		}
	}
	return e
}

// ---------------------------------------------------------------- ops
func doPut(kind string, e *filer.Entry) {
	args := append([]string{kind, hx.HexS(string(e.FullPath))}, dump(e)...)
	outs := hx.Guard(func() []string {
		// what the store will marshal (BeforeEntrySerialization does not change the first tag byte)
		blob, encErr := e.EncodeAttributesAndChunks()
		first := "-"
		if encErr == nil && len(blob) > 0 {
			first = hx.I(int64(blob[0]))
		}
		looks := encErr == nil && util.IsGzippedContent(blob)
		var err error
		if kind == "upd" {
			err = cur.Store.UpdateEntry(ctx, e)
		} else {
			err = cur.Store.InsertEntry(ctx, e)
		}
		return []string{hx.Err(err), first, hx.B(looks)}
	})
	tr.Op("put", args, outs)
}

func doFind(path string) {
	tr.Op("find", []string{hx.HexS(path)}, hx.Guard(func() []string {
		e, err := cur.Store.FindEntry(ctx, util.FullPath(path))
		if err == filer_pb.ErrNotFound {
			return []string{"notfound"}
		}
		if err != nil {
			return []string{"err"}
		}
		return append([]string{"ok"}, dump(e)...)
	}))
}

func doLs(via, path string) {
	tr.Op("ls", []string{via, hx.HexS(path)}, hx.Guard(func() []string {
		dir, name := util.FullPath(path).DirAndName()
		var got *filer.Entry
		var err error
		if via == "w" {
			_, err = cur.Store.ListDirectoryEntries(ctx, util.FullPath(dir), name, true, 1, func(e *filer.Entry) bool { got = e; return true })
		} else {
			var es []*filer.Entry
			es, _, err = cur.ListDirectoryEntries(ctx, util.FullPath(dir), name, true, 1, "", "", "")
			if len(es) > 0 {
				got = es[0]
			}
		}
		if err != nil {
			return []string{"err"}
		}
		if got == nil || got.Name() != name {
			return []string{"notfound"}
		}
		return append([]string{"ok"}, dump(got)...)
	}))
}

// doConcRound inserts the entries of every writer concurrently (barrier start), then writes the round to the trace.
func doConcRound(writers [][]*filer.Entry) {
	type res struct{ outs []string }
	args := make([][][]string, len(writers))
	results := make([][]res, len(writers))
	pre := make([][][2]string, len(writers))
	for w, es := range writers {
		args[w] = make([][]string, len(es))
		results[w] = make([]res, len(es))
		pre[w] = make([][2]string, len(es))
		for i, e := range es {
			args[w][i] = append([]string{hx.I(int64(w)), "ins", hx.HexS(string(e.FullPath))}, dump(e)...)
			blob, encErr := e.EncodeAttributesAndChunks()
			first := "-"
			if encErr == nil && len(blob) > 0 {
				first = hx.I(int64(blob[0]))
			}
			pre[w][i] = [2]string{first, hx.B(encErr == nil && util.IsGzippedContent(blob))}
		}
	}
	var ready, done sync.WaitGroup
	start := make(chan struct{})
	for w := range writers {
		ready.Add(1)
		done.Add(1)
		go func(w int) {
			defer done.Done()
			ready.Done()
			<-start
			for i, e := range writers[w] {
				e := e
				o := hx.Guard(func() []string { return []string{hx.Err(cur.Store.InsertEntry(ctx, e))} })
				results[w][i] = res{append(o, pre[w][i][0], pre[w][i][1])}
			}
		}(w)
	}
	ready.Wait()
	close(start)
	done.Wait()
	tr.Op("concbegin", []string{hx.I(int64(len(writers)))}, nil)
	for w := range writers {
		for i := range writers[w] {
			tr.Op("cput", args[w][i], results[w][i].outs)
		}
	}
	tr.Op("concend", nil, nil)
}

// genConcRound: k writers x m entries, each writer in its own directory; big = more than 50 chunks (gzip path)
func genConcRound(r *hx.Rng, round, k, m int, big bool) {
	writers := make([][]*filer.Entry, k)
	var paths []string
	for w := 0; w < k; w++ {
		for i := 0; i < m; i++ {
			path := fmt.Sprintf("/conc%d/w%d/e%d", round, w, i)
			nc := 51 + r.Intn(40)
			if !big {
				nc = r.Intn(51)
			}
			writers[w] = append(writers[w], genEntry(r, path, nc))
			paths = append(paths, path)
		}
	}
	doConcRound(writers)
	for _, p := range paths {
		doFind(p)
		doLs("f", p)
	}
}

// ---------------------------------------------------------------- generation
func rstr(r *hx.Rng, pool []string) string {
	if r.Chance(1, 3) {
		return ""
	}
	return r.Pick(pool)
}

func fidStr(r *hx.Rng) string {
	switch r.Intn(12) {
	case 0:
		return "garbage"
	case 1:
		return "3,0001637037d6" // leading zero byte in the key: not canonical
	case 2:
		return "7,01637037D6" // upper-case hex: not canonical
	case 3:
		return "4294967297,01637037d6" // volume id beyond 32 bits
	case 4:
		return "3,01637037d6_1" // delta suffix
	case 5:
		return "3,00000000000000001234abcd" // key 0
	case 6:
		return "03,01637037d6"
	}
	key := r.U64()
	switch r.Intn(4) {
	case 0:
		key &= 0xff
	case 1:
		key &= 0xffffff
	case 2:
		key &= 0xffffffffff
	}
	if key == 0 {
		key = 1
	}
	return fmt.Sprintf("%d,%x%08x", r.Intn(5000), key, uint32(r.U64()))
}

func fidObj(r *hx.Rng) *filer_pb.FileId {
	key := r.U64() >> uint(r.Intn(60))
	if r.Chance(1, 40) {
		key = 0
	}
	return &filer_pb.FileId{VolumeId: uint32(r.U64() >> uint(r.Intn(32))), FileKey: key, Cookie: uint32(r.U64())}
}

func genEntry(r *hx.Rng, path string, nchunks int) *filer.Entry {
	e := &filer.Entry{FullPath: util.FullPath(path)}
	full := r.Chance(1, 2)
	if full || r.Bool() {
		e.Mtime = time.Unix(int64(r.Intn(2000000000)), int64(r.Intn(2))*int64(r.Intn(999999999)))
	}
	if full || r.Bool() {
		e.Crtime = time.Unix(int64(r.Intn(2000000000))-1000, 0)
	}
	if full || r.Bool() {
		e.Mode = os.FileMode(uint32(r.U64()))
		if r.Chance(2, 3) {
			e.Mode &^= os.ModeDir
		}
	}
	if full || r.Bool() {
		e.Uid, e.Gid = uint32(r.U64()), uint32(r.U64())
	}
	e.Mime = rstr(r, []string{"text/plain", "application/octet-stream", "image/png", "x/é"})
	e.Replication = rstr(r, []string{"000", "010", "200"})
	e.Collection = rstr(r, []string{"c1", "pics"})
	if r.Bool() {
		e.TtlSec = int32(r.U64())
		if r.Bool() {
			e.TtlSec = int32(r.Intn(100000))
		}
		if e.TtlSec > 0 {
			// Filer.ListDirectoryEntries drops (and deletes) expired entries: keep the entry alive (created in 2100)
			e.Crtime = time.Unix(4102444800, 0)
		}
	}
	e.DiskType = rstr(r, []string{"ssd", "hdd"})
	e.UserName = rstr(r, []string{"root", "chris"})
	if r.Bool() {
		for i := 0; i < 1+r.Intn(3); i++ {
			e.GroupNames = append(e.GroupNames, r.Pick([]string{"wheel", "staff", "g"}))
		}
	}
	e.SymlinkTarget = rstr(r, []string{"/a/b", "../x"})
	if r.Bool() {
		e.Md5 = r.Bytes(16)
	}
	if full || r.Bool() {
		e.FileSize = r.U64() >> uint(r.Intn(64))
	}
	for i := 0; i < nchunks; i++ {
		c := &filer_pb.FileChunk{Offset: int64(i) * 1024, Size: uint64(1 + r.Intn(4096)), Mtime: int64(r.U64() >> 2)}
		if r.Chance(1, 2) {
			c.FileId = fidStr(r)
		} else {
			c.Fid = fidObj(r)
		}
		switch r.Intn(4) {
		case 0:
			c.SourceFileId = fidStr(r)
		case 1:
			c.SourceFid = fidObj(r)
		}
		if r.Chance(1, 3) {
			c.ETag = r.Pick([]string{"abc", "d41d8cd98f00b204e9800998ecf8427e"})
		}
		if r.Chance(1, 4) {
			c.CipherKey = r.Bytes(32)
		}
		c.IsCompressed = r.Chance(1, 4)
		c.IsChunkManifest = r.Chance(1, 10)
		e.Chunks = append(e.Chunks, c)
	}
	if r.Chance(1, 3) {
		e.Extended = map[string][]byte{}
		for i := 0; i < r.Intn(4); i++ {
			e.Extended[r.Pick([]string{"user.a", "x-amz-meta-k", "Seaweed-b", ""})] = r.Bytes(r.Intn(6))
		}
	}
	if r.Chance(1, 4) {
		e.HardLinkId = append([]byte{1}, r.Bytes(16)...)
		e.HardLinkCounter = int32(1 + r.Intn(3))
	}
	switch r.Intn(6) {
	case 0:
		e.Content = append([]byte{0x1f, 0x8b}, r.Bytes(r.Intn(40))...)
	case 1:
		e.Content = r.Bytes(1 + r.Intn(300))
	case 2:
		e.Content = []byte{0x1f, 0x8b}
	}
	if r.Chance(1, 4) {
		e.Remote = &filer_pb.Entry_Remote{LastModifiedAt: int64(r.Intn(1 << 30)), Size: int64(r.Intn(1 << 20)), ETag: r.Pick([]string{"", "etag"})}
		if r.Chance(1, 4) {
			e.Remote = &filer_pb.Entry_Remote{}
		}
	}
	return e
}

var dirsByKind = map[string][]string{
	"leveldb":  {"/", "/d", "/a/very/deep/directory/path/for/the/entry"},
	"leveldb2": {"/", "/d", "/a/very/deep/directory/path/for/the/entry"},
	"leveldb3": {"/", "/d", "/a/very/deep/directory/path/for/the/entry", "/buckets/bk1", "/buckets/bk1/x/y", "/buckets"},
}

func main() {
	a := hx.ParseArgs()
	tr = hx.NewTrace(a.Out)
	defer tr.Close()
	var err error
	tmpDir, err = os.MkdirTemp("", "c24")
	if err != nil {
		panic(err)
	}
	defer os.RemoveAll(tmpDir)
	defer func() {
		for _, f := range insts {
			f.Store.Shutdown()
		}
	}()
	tr.Comment(fmt.Sprintf("c24 seed=%d tier=%s", a.Seed, a.Tier))
	if a.Ops != "" {
		replay(hx.ReadOps(a.Ops))
		return
	}
	r := hx.NewRng(a.Seed)
	chunkCounts := []int{0, 0, 1, 2, 3, 5, 10, 49, 50, 51, 52, 60, 80, 120}
	for ki, kind := range []string{"leveldb", "leveldb2", "leveldb3"} {
		doReset(kind)
		// concurrent writers: entries above the gzip threshold, and a control round below it
		concK, concM, rounds := 32, 4, 1
		if a.Thorough() {
			concM, rounds = 10, 3
		}
		for rd := 0; rd < rounds*a.Budget; rd++ {
			genConcRound(r, ki*1000+rd, concK, concM, true)
		}
		genConcRound(r, ki*1000+999, 8, 3, false)
		doReset(kind) // a failing read of a concurrent round replays from the reset above, the rest from here
		ds := dirsByKind[kind]
		for i := 0; i < a.N(100); i++ {
			path := string(util.NewFullPath(r.Pick(ds), fmt.Sprintf("f%d-%s", i, r.Pick([]string{"x", "y.txt", "ü"}))))
			nc := chunkCounts[r.Intn(len(chunkCounts))]
			if r.Chance(1, 6) {
				nc = r.Intn(121)
			}
			doPut("ins", genEntry(r, path, nc))
			doFind(path)
			doLs("w", path)
			doLs("f", path)
			if r.Chance(1, 2) {
				nc2 := chunkCounts[r.Intn(len(chunkCounts))]
				doPut("upd", genEntry(r, path, nc2))
				doFind(path)
				doLs(r.Pick([]string{"w", "f"}), path)
			}
			if r.Chance(1, 10) {
				doFind(path + "-absent")
			}
			if r.Chance(1, 12) {
				// two links of one file: the second insert carries the shared (updated) content
				pa := string(util.NewFullPath(r.Pick(ds), fmt.Sprintf("hlA%d", i)))
				pb := string(util.NewFullPath(r.Pick(ds), fmt.Sprintf("hlB%d", i)))
				id := append([]byte{1}, r.Bytes(16)...)
				ea := genEntry(r, pa, r.Intn(4))
				ea.HardLinkId, ea.HardLinkCounter = id, 1
				eb := genEntry(r, pb, r.Intn(4))
				eb.HardLinkId, eb.HardLinkCounter = id, 2
				doPut("ins", ea)
				doPut("ins", eb)
				for _, p := range []string{pa, pb} {
					doFind(p)
					doLs("w", p)
					doLs("f", p)
				}
			}
		}
	}
}

func replay(ops [][]string) {
	var conc [][]*filer.Entry
	inConc := false
	for _, o := range ops {
		switch o[0] {
		case "concbegin":
			if cur == nil {
				doReset("leveldb")
			}
			n, _ := strconv.Atoi(o[1])
			conc, inConc = make([][]*filer.Entry, n), true
		case "cput":
			w, _ := strconv.Atoi(o[1])
			if inConc && w < len(conc) {
				conc[w] = append(conc[w], undump(hx.UnHexS(o[3]), o[4:]))
			}
		case "concend":
			if inConc {
				doConcRound(conc)
			}
			inConc = false
		case "reset":
			doReset(o[1])
		case "put":
			if cur == nil {
				doReset("leveldb")
			}
			doPut(o[1], undump(hx.UnHexS(o[2]), o[3:]))
		case "find":
			if cur == nil {
				doReset("leveldb")
			}
			doFind(hx.UnHexS(o[1]))
		case "ls":
			if cur == nil {
				doReset("leveldb")
			}
			doLs(o[1], hx.UnHexS(o[2]))
		}
	}
}
