// c16: correspondence harness for C16 (ec.balance). Builds random EC layouts as
// master_pb.TopologyInfo, runs the REAL planner phases of weed/shell/command_ec_balance.go
// in dry-run mode on the in-memory EcNode bookkeeping (verif exports), and records every
// printed planner event plus the bookkeeping after the phase.
//
//	reset
//	ecnode <id> <rack> <hdd 0|1> <max> <active> <vid>=<bits> ...     declare a server
//	build   => N:<id>:<free> ... K:<rack>:<free> ...                  collectEcNodes order + collectRacks
//	dedup <vid>  => events
//	across <vid> => events | state
//	within       => events | state
//	rackbal      => events | state
//	events: D:<vid>:<shard>:<copies>:<keep>  N:<vid>:<shard>:<node>  M:<src>:<vid>:<shard>:<dst>
//	        O:<node>:<over>:<vid>:<shard>    R:<src>:<vid>:<shard>:<dst>
//	state : S:<id>:<free>:<hdd>:<vid>=<bits>,...   K:<rack>:<free>
package main

import (
	"bytes"
	"fmt"
	"io"
	"os"
	"sort"
	"strconv"
	"strings"

	"github.com/chrislusf/seaweedfs/weed/pb/master_pb"
	"github.com/chrislusf/seaweedfs/weed/shell"

	"verifharness/hx"
)

var tr *hx.Trace

type ecnode struct {
	id, rack    int
	hdd         bool
	max, active int
	vids        []uint32
	bits        []uint32
}

var decl []*ecnode
var cl *shell.EcClusterVerif

func nodeName(id int) string   { return fmt.Sprintf("n%d", id) }
func unName(s string) string   { return strings.TrimLeft(s, "nr") }
func rackName(id int) string   { return fmt.Sprintf("r%d", id) }

func buildTopo() *master_pb.TopologyInfo {
	dc := &master_pb.DataCenterInfo{Id: "d1"}
	for _, n := range decl {
		var rack *master_pb.RackInfo
		for _, r := range dc.RackInfos {
			if r.Id == rackName(n.rack) {
				rack = r
			}
		}
		if rack == nil {
			rack = &master_pb.RackInfo{Id: rackName(n.rack)}
			dc.RackInfos = append(dc.RackInfos, rack)
		}
		dn := &master_pb.DataNodeInfo{Id: nodeName(n.id), DiskInfos: map[string]*master_pb.DiskInfo{}}
		if n.hdd {
			di := &master_pb.DiskInfo{Type: "", MaxVolumeCount: uint64(n.max), ActiveVolumeCount: uint64(n.active), VolumeCount: uint64(n.active)}
			for i := range n.vids {
				di.EcShardInfos = append(di.EcShardInfos, &master_pb.VolumeEcShardInformationMessage{Id: n.vids[i], Collection: "c", EcIndexBits: n.bits[i]})
			}
			dn.DiskInfos[""] = di
		}
		rack.DataNodeInfos = append(rack.DataNodeInfos, dn)
	}
	return &master_pb.TopologyInfo{Id: "topo", DataCenterInfos: []*master_pb.DataCenterInfo{dc}}
}

func capture(f func()) string {
	old := os.Stdout
	r, w, err := os.Pipe()
	if err != nil {
		panic(err)
	}
	os.Stdout = w
	done := make(chan string)
	go func() {
		var b bytes.Buffer
		io.Copy(&b, r)
		done <- b.String()
	}()
	func() {
		defer func() {
			os.Stdout = old
			w.Close()
		}()
		f()
	}()
	return <-done
}

func vs(s string) (string, string) { // "12.3" -> "12","3"
	p := strings.SplitN(s, ".", 2)
	if len(p) < 2 {
		return s, "?"
	}
	return p[0], p[1]
}

func parseEvents(out string) (ev []string) {
	for _, ln := range strings.Split(out, "\n") {
		f := strings.Fields(ln)
		switch {
		case len(f) >= 8 && f[0] == "ec" && f[1] == "shard" && f[3] == "has":
			v, s := vs(f[2])
			ev = append(ev, "D:"+v+":"+s+":"+f[4]+":"+unName(f[7]))
		case len(f) >= 6 && f[0] == "ec" && f[1] == "shard" && f[3] == "at":
			v, s := vs(f[2])
			ev = append(ev, "N:"+v+":"+s+":"+unName(f[4]))
		case len(f) == 7 && f[1] == "moves" && f[2] == "ec" && f[3] == "shard":
			v, s := vs(f[4])
			ev = append(ev, "M:"+unName(f[0])+":"+v+":"+s+":"+unName(f[6]))
		case len(f) == 7 && f[1] == "moves" && f[2] == "ec" && f[3] == "shards":
			v, s := vs(f[4])
			ev = append(ev, "R:"+unName(f[0])+":"+v+":"+s+":"+unName(f[6]))
		case len(f) >= 8 && f[1] == "has" && f[3] == "overlimit,":
			v, s := vs(f[7])
			ev = append(ev, "O:"+unName(f[0])+":"+f[2]+":"+v+":"+s)
		}
	}
	return
}

func state() (out []string) {
	for _, s := range cl.State() {
		var sh []string
		for i := range s.Vids {
			sh = append(sh, fmt.Sprintf("%d=%d", s.Vids[i], s.Bits[i]))
		}
		x := "-"
		if len(sh) > 0 {
			x = strings.Join(sh, ",")
		}
		out = append(out, fmt.Sprintf("S:%s:%d:%s:%s", unName(s.Id), s.FreeEcSlot, hx.B(s.HasHdd), x))
	}
	rf := cl.RackFree()
	var ks []string
	for k := range rf {
		ks = append(ks, k)
	}
	sort.Slice(ks, func(i, j int) bool { a, _ := strconv.Atoi(unName(ks[i])); b, _ := strconv.Atoi(unName(ks[j])); return a < b })
	for _, k := range ks {
		out = append(out, fmt.Sprintf("K:%s:%d", unName(k), rf[k]))
	}
	return
}

func phase(withState bool, f func() error) []string {
	var res []string
	out := capture(func() {
		res = hx.Guard(func() []string { return []string{hx.Err(f())} })
	})
	if res[0] != "ok" {
		return res
	}
	ev := parseEvents(out)
	if withState {
		ev = append(append(ev, "|"), state()...)
	}
	return append([]string{"ok"}, ev...)
}

func atoi(s string) int { n, _ := strconv.Atoi(s); return n }

func exec(op string, args []string) {
	switch op {
	case "reset":
		decl, cl = nil, nil
		tr.Op(op, args, nil)
	case "ecnode":
		n := &ecnode{id: atoi(args[0]), rack: atoi(args[1]), hdd: args[2] == "1", max: atoi(args[3]), active: atoi(args[4])}
		for _, a := range args[5:] {
			p := strings.Split(a, "=")
			if len(p) == 2 {
				n.vids = append(n.vids, uint32(atoi(p[0])))
				n.bits = append(n.bits, uint32(atoi(p[1])))
			}
		}
		decl = append(decl, n)
		tr.Op(op, args, nil)
	case "build":
		cl = shell.NewEcClusterVerif(buildTopo(), "")
		var out []string
		for _, s := range cl.State() {
			out = append(out, fmt.Sprintf("N:%s:%d", unName(s.Id), s.FreeEcSlot))
		}
		for _, s := range state() {
			if strings.HasPrefix(s, "K:") {
				out = append(out, s)
			}
		}
		tr.Op(op, args, out)
	case "dedup":
		if cl != nil {
			tr.Op(op, args, phase(false, func() error { return cl.Dedup("c", uint32(atoi(args[0]))) }))
		}
	case "across":
		if cl != nil {
			tr.Op(op, args, phase(true, func() error { return cl.AcrossRacks("c", uint32(atoi(args[0]))) }))
		}
	case "within":
		if cl != nil {
			tr.Op(op, args, phase(true, func() error { return cl.WithinRacks("c") }))
		}
	case "rackbal":
		if cl != nil {
			tr.Op(op, args, phase(true, func() error { return cl.BalanceRacks() }))
		}
	}
}

// ---- generation ----

// genLayout: forceRacks > 0 fixes the number of racks (7 and 14 divide the 14 shards exactly: the
// even-spread target ceil(14/#racks) is then 2 resp. 1 and a rack at the target must not grow).
func genLayout(r *hx.Rng, forceRacks int) {
	exec("reset", nil)
	nr := 1 + r.Intn(5)
	if forceRacks > 0 {
		nr = forceRacks
	}
	id := 0
	var nodes []*ecnode
	for rk := 1; rk <= nr; rk++ {
		ns := 1 + r.Intn(4)
		if forceRacks > 0 {
			ns = 1 + r.Intn(2)
		}
		for k := 0; k < ns; k++ {
			id++
			nodes = append(nodes, &ecnode{id: id, rack: rk, hdd: r.Chance(9, 10)})
		}
	}
	var hdds []*ecnode
	for _, n := range nodes {
		if n.hdd {
			hdds = append(hdds, n)
		}
	}
	nv := 1 + r.Intn(4)
	if len(hdds) > 0 {
		for v := 1; v <= nv; v++ {
			mode := r.Intn(4)
			home := hdds[r.Intn(len(hdds))]
			for s := 0; s < 14; s++ {
				if r.Chance(1, 15) {
					continue // missing shard
				}
				var n *ecnode
				switch mode {
				case 0:
					n = home // everything on one server
				case 1: // one rack
					var same []*ecnode
					for _, x := range hdds {
						if x.rack == home.rack {
							same = append(same, x)
						}
					}
					n = same[r.Intn(len(same))]
				default:
					n = hdds[r.Intn(len(hdds))]
				}
				put := func(n *ecnode) {
					for i := range n.vids {
						if n.vids[i] == uint32(v) {
							n.bits[i] |= 1 << uint(s)
							return
						}
					}
					n.vids = append(n.vids, uint32(v))
					n.bits = append(n.bits, 1<<uint(s))
				}
				put(n)
				if r.Chance(1, 12) { // duplicated shard
					put(hdds[r.Intn(len(hdds))])
				}
			}
		}
	}
	for _, n := range nodes {
		cnt := 0
		for _, b := range n.bits {
			for x := b; x > 0; x &= x - 1 {
				cnt++
			}
		}
		need := (cnt + 9) / 10
		switch r.Intn(5) {
		case 0: // exactly full or overfull
			n.max, n.active = need, 0
			if r.Bool() && need > 0 {
				n.max = need - 1 + r.Intn(2)
			}
		case 1:
			n.active = r.Intn(3)
			n.max = n.active + need
		default:
			n.active = r.Intn(4)
			n.max = n.active + need + r.Intn(4)
		}
		args := []string{hx.I(int64(n.id)), hx.I(int64(n.rack)), hx.B(n.hdd), hx.I(int64(n.max)), hx.I(int64(n.active))}
		for i := range n.vids {
			args = append(args, fmt.Sprintf("%d=%d", n.vids[i], n.bits[i]))
		}
		exec("ecnode", args)
	}
	exec("build", nil)
	vids := cl.Vids()
	for _, v := range vids {
		exec("dedup", []string{hx.U(uint64(v))})
	}
	for _, v := range vids {
		exec("across", []string{hx.U(uint64(v))})
	}
	exec("within", nil)
	exec("rackbal", nil)
}

func main() {
	a := hx.ParseArgs()
	tr = hx.NewTrace(a.Out)
	defer tr.Close()
	if a.Ops != "" {
		for _, ln := range hx.ReadOps(a.Ops) {
			exec(ln[0], ln[1:])
		}
		return
	}
	r := hx.NewRng(a.Seed)
	for i := 0; i < a.N(1500); i++ {
		genLayout(r, 0)
	}
	// after the random layouts (their random stream is unchanged): exact divisions of the 14 shards
	for i := 0; i < a.N(60); i++ {
		if i%3 == 2 {
			genLayout(r, 14)
		} else {
			genLayout(r, 7)
		}
	}
}
