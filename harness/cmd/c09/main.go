// c09: correspondence harness for C09 (TTL data lives exactly as long as promised).
//
// Pure part: needle.SecondsToTTL -> ReadTTL -> Minutes on every interesting number of seconds.
// Storage part: a REAL storage.Store with one volume in a temp dir. Needles are written through
// Store.WriteVolumeNeedle, then aged WITHOUT any clock mocking: the store is closed, the
// AppendAtNs field of each needle is rewritten inside the .dat file, the .dat mtime (which the
// volume loader turns into lastModifiedTsSeconds) is set with os.Chtimes, and a new Store is
// opened on the directory. Reads go through Store.ReadVolumeNeedle, compaction through
// Volume.Compact/Compact2 + CommitCompact, expiry through Store.CollectHeartbeat.
// All times travel as AGES in seconds relative to "now"; the generator keeps every decision at
// least 120 s away from its edge, so the wall-clock time spent by the harness never matters.
//
// Line protocol (stateful; every case starts with `reset`):
//   sec2ttl <s>                       => <ttlhex> <count> <unit> <minutes>
//   reset <volTtlHex>                 => ok <nowDay>            nowDay = floor(now/86400), an observed input
//   put <key> <ttlHex> <hasLM> <lmAge>=> ok <hasTtl> <count> <unit>   (flags/TTL as written, after inheritance)
//   age <key> <appendAge>             => ok                     (applied at the next reopen)
//   reopen <volAge>                   => ok                     close, rewrite AppendAtNs, chtimes(.dat), reopen
//   read <key>                        => ok|notfound|deleted|novol|err
//   compact <1|2>                     => ok|novol|err
//   hb                                => listed|expired|deleted|novol
// Filer part (a REAL filer.Filer over the leveldb store in a temp dir; Crtime/Mtime are set explicitly in the past):
//   resetf                            => ok
//   fput <key> <ttlSec> <crAge> <mAge>=> ok|err      CreateEntry of /c9/e<key>; an existing visible entry is
//                                                   appended to the way the filer's append handler does (old chunks kept + one new chunk)
//   ffind <key>                       => visible <ttlSec> <nchunks> | notfound | err
//   flist                             => <visible keys, sorted, comma separated | ->
package main

import (
	"context"
	"encoding/binary"
	"sort"
	"strings"
	"fmt"
	"os"
	"path/filepath"
	"strconv"
	"time"

	"github.com/chrislusf/seaweedfs/weed/filer"
	"github.com/chrislusf/seaweedfs/weed/filer/leveldb"
	"github.com/chrislusf/seaweedfs/weed/pb/filer_pb"
	"github.com/chrislusf/seaweedfs/weed/storage"
	"github.com/chrislusf/seaweedfs/weed/storage/needle"
	"github.com/chrislusf/seaweedfs/weed/storage/super_block"
	"github.com/chrislusf/seaweedfs/weed/storage/types"
	"github.com/chrislusf/seaweedfs/weed/util"

	"verifharness/hx"
)

const vid = needle.VolumeId(1)
const cookie = types.Cookie(0x5eed)

var tr *hx.Trace
var tmpRoot string

type caseState struct {
	dir     string
	store   *storage.Store
	pending map[uint64]int64 // key -> appendAge to apply at reopen
	n       int
}

var cs *caseState

func newStore(dir string) *storage.Store {
	s := storage.NewStore(nil, 8080, "127.0.0.1", "127.0.0.1:8080", []string{dir}, []int{4}, []util.MinFreeSpace{{}}, "",
		storage.NeedleMapInMemory, []types.DiskType{types.HardDriveType})
	s.SetVolumeSizeLimit(1 << 30)
	return s
}

func closeCase() {
	if cs != nil {
		if cs.store != nil {
			cs.store.Close()
		}
		os.RemoveAll(cs.dir)
		cs = nil
	}
}

type collectScanner struct {
	off map[uint64][2]int64 // key -> (offset, size); the last record of a key wins
}

func (c *collectScanner) VisitSuperBlock(super_block.SuperBlock) error { return nil }
func (c *collectScanner) ReadNeedleBody() bool                        { return false }
func (c *collectScanner) VisitNeedle(n *needle.Needle, offset int64, h, b []byte) error {
	c.off[uint64(n.Id)] = [2]int64{offset, int64(n.Size)}
	return nil
}

type conf map[string]string

func (c conf) GetString(k string) string      { return c[k] }
func (c conf) GetBool(string) bool            { return false }
func (c conf) GetInt(string) int              { return 0 }
func (c conf) GetStringSlice(string) []string { return nil }
func (c conf) SetDefault(string, interface{}) {}

var (
	theFiler *filer.Filer
	fKeys    = map[int64]bool{}
	fctx     = context.Background()
	chunkSeq uint64
)

func fpath(key int64) util.FullPath { return util.FullPath(fmt.Sprintf("/c9/e%06d", key)) }

func getFiler() *filer.Filer {
	if theFiler == nil {
		st := &leveldb.LevelDBStore{}
		if err := st.Initialize(conf{"x.dir": filepath.Join(tmpRoot, "filerldb")}, "x."); err != nil {
			panic(err)
		}
		theFiler = filer.NewFiler(nil, nil, "", 0, "", "", "", nil)
		theFiler.SetStore(st)
	}
	return theFiler
}

func sec2ttl(s int32) {
	tr.Op("sec2ttl", []string{hx.I(int64(s))}, hx.Guard(func() []string {
		str := needle.SecondsToTTL(s)
		t, err := needle.ReadTTL(str)
		if err != nil {
			return []string{hx.HexS(str), "err"}
		}
		return []string{hx.HexS(str), hx.I(int64(t.Count)), hx.I(int64(t.Unit)), hx.U(uint64(t.Minutes()))}
	}))
}

func exec(op []string) {
	pi := func(i int) int64 {
		if i >= len(op) {
			return 0
		}
		v, _ := strconv.ParseInt(op[i], 10, 64)
		return v
	}
	args := op[1:]
	switch op[0] {
	case "sec2ttl":
		sec2ttl(int32(pi(1)))
	case "resetf":
		tr.Op("resetf", args, hx.Guard(func() []string {
			f := getFiler()
			for k := range fKeys {
				f.Store.DeleteEntry(fctx, fpath(k))
			}
			fKeys = map[int64]bool{}
			return []string{"ok"}
		}))
	case "fput":
		tr.Op("fput", args, hx.Guard(func() []string {
			f := getFiler()
			key, ttlSec, crAge, mAge := pi(1), pi(2), pi(3), pi(4)
			now := time.Now()
			chunkSeq++
			chunk := &filer_pb.FileChunk{FileId: fmt.Sprintf("3,%x00000001", chunkSeq+16), Offset: 0, Size: 10, Mtime: now.UnixNano()}
			e := &filer.Entry{FullPath: fpath(key), Attr: filer.Attr{
				Mtime: now.Add(-time.Duration(mAge) * time.Second), Crtime: now.Add(-time.Duration(crAge) * time.Second),
				Mode: 0644, TtlSec: int32(ttlSec), FileSize: 10}}
			if old, err := f.FindEntry(fctx, fpath(key)); err == nil && old != nil {
				e.Chunks = append(e.Chunks, old.Chunks...)
				chunk.Offset = int64(10 * len(old.Chunks))
				e.FileSize = uint64(10 * (len(old.Chunks) + 1))
			}
			e.Chunks = append(e.Chunks, chunk)
			fKeys[key] = true
			if err := f.CreateEntry(fctx, e, false, false, nil); err != nil {
				return []string{"err"}
			}
			return []string{"ok"}
		}))
	case "ffind":
		tr.Op("ffind", args, hx.Guard(func() []string {
			e, err := getFiler().FindEntry(fctx, fpath(pi(1)))
			if err == filer_pb.ErrNotFound || (err == nil && e == nil) {
				return []string{"notfound"}
			}
			if err != nil {
				return []string{"err"}
			}
			return []string{"visible", hx.I(int64(e.TtlSec)), hx.I(int64(len(e.Chunks)))}
		}))
	case "flist":
		tr.Op("flist", args, hx.Guard(func() []string {
			es, _, err := getFiler().ListDirectoryEntries(fctx, util.FullPath("/c9"), "", false, 100000, "", "", "")
			if err != nil {
				return []string{"err"}
			}
			var ks []int
			for _, e := range es {
				k, _ := strconv.Atoi(strings.TrimLeft(strings.TrimPrefix(e.Name(), "e"), "0"))
				ks = append(ks, k)
			}
			sort.Ints(ks)
			var names []string
			for _, k := range ks {
				names = append(names, strconv.Itoa(k))
			}
			if len(names) == 0 {
				return []string{"-"}
			}
			return []string{strings.Join(names, ",")}
		}))
	case "reset":
		closeCase()
		tr.Op("reset", args, hx.Guard(func() []string {
			dir, err := os.MkdirTemp(tmpRoot, "case")
			if err != nil {
				panic(err)
			}
			cs = &caseState{dir: dir, pending: map[uint64]int64{}}
			cs.store = newStore(dir)
			if err := cs.store.AddVolume(vid, "", storage.NeedleMapInMemory, "000", hx.UnHexS(op[1]), 0, 0, types.HardDriveType); err != nil {
				return []string{"err"}
			}
			return []string{"ok", hx.I(time.Now().Unix() / 86400)}
		}))
	case "put":
		tr.Op("put", args, hx.Guard(func() []string {
			key := uint64(pi(1))
			n := new(needle.Needle)
			n.Id = types.NeedleId(key)
			n.Cookie = cookie
			n.Data = []byte(fmt.Sprintf("payload-of-needle-%d", key))
			n.Checksum = needle.NewCRC(n.Data)
			// as needle.CreateNeedleFromRequest does: the TTL comes from ReadTTL, the flag is set iff it is not the EMPTY_TTL value
			t, err := needle.ReadTTL(hx.UnHexS(op[2]))
			if err != nil {
				return []string{"badttl"}
			}
			n.Ttl = t
			if n.Ttl != needle.EMPTY_TTL {
				n.SetHasTtl()
			}
			if pi(3) == 1 {
				n.LastModified = uint64(time.Now().Unix() - pi(4))
				n.SetHasLastModifiedDate()
			}
			if _, err := cs.store.WriteVolumeNeedle(vid, n, false); err != nil {
				return []string{"err"}
			}
			c, u := byte(0), byte(0)
			if n.Ttl != nil {
				c, u = n.Ttl.Count, byte(n.Ttl.Unit)
			}
			return []string{"ok", hx.B(n.HasTtl()), hx.I(int64(c)), hx.I(int64(u))}
		}))
	case "age":
		cs.pending[uint64(pi(1))] = pi(2)
		tr.Op("age", args, []string{"ok"})
	case "reopen":
		tr.Op("reopen", args, hx.Guard(func() []string {
			cs.store.Close()
			cs.store = nil
			dat := filepath.Join(cs.dir, "1.dat")
			sc := &collectScanner{off: map[uint64][2]int64{}}
			if err := storage.ScanVolumeFile(cs.dir, "", vid, storage.NeedleMapInMemory, sc); err != nil {
				return []string{"err-scan"}
			}
			f, err := os.OpenFile(dat, os.O_RDWR, 0644)
			if err != nil {
				return []string{"err-open"}
			}
			now := time.Now()
			for key, age := range cs.pending {
				rec, ok := sc.off[key]
				if !ok {
					continue
				}
				var b [8]byte
				binary.BigEndian.PutUint64(b[:], uint64(now.UnixNano()-age*1e9))
				// needle record: header(16) body(size) checksum(4) appendAtNs(8) padding
				if _, err := f.WriteAt(b[:], rec[0]+int64(types.NeedleHeaderSize)+rec[1]+int64(needle.NeedleChecksumSize)); err != nil {
					return []string{"err-write"}
				}
			}
			f.Close()
			cs.pending = map[uint64]int64{}
			mt := now.Add(-time.Duration(pi(1)) * time.Second)
			if err := os.Chtimes(dat, mt, mt); err != nil {
				return []string{"err-chtimes"}
			}
			cs.store = newStore(cs.dir)
			if !cs.store.HasVolume(vid) {
				return []string{"err-load"}
			}
			return []string{"ok"}
		}))
	case "read":
		tr.Op("read", args, hx.Guard(func() []string {
			if !cs.store.HasVolume(vid) {
				return []string{"novol"}
			}
			n := &needle.Needle{Id: types.NeedleId(uint64(pi(1))), Cookie: cookie}
			_, err := cs.store.ReadVolumeNeedle(vid, n, nil)
			switch err {
			case nil:
				if string(n.Data) != fmt.Sprintf("payload-of-needle-%d", pi(1)) {
					return []string{"wrongdata"}
				}
				return []string{"ok"}
			case storage.ErrorNotFound:
				return []string{"notfound"}
			case storage.ErrorDeleted:
				return []string{"deleted"}
			}
			return []string{"err"}
		}))
	case "compact":
		tr.Op("compact", args, hx.Guard(func() []string {
			v := cs.store.GetVolume(vid)
			if v == nil {
				return []string{"novol"}
			}
			var err error
			if pi(1) == 1 {
				err = v.Compact(0, 0)
			} else {
				err = v.Compact2(0, 0)
			}
			if err != nil {
				return []string{"err"}
			}
			if err = v.CommitCompact(); err != nil {
				return []string{"err-commit"}
			}
			return []string{"ok"}
		}))
	case "hb":
		tr.Op("hb", args, hx.Guard(func() []string {
			if !cs.store.HasVolume(vid) {
				return []string{"novol"}
			}
			hb := cs.store.CollectHeartbeat()
			listed := false
			for _, m := range hb.Volumes {
				if m.Id == uint32(vid) {
					listed = true
				}
			}
			switch {
			case listed && cs.store.HasVolume(vid):
				return []string{"listed"}
			case listed:
				return []string{"listed-but-deleted"}
			case cs.store.HasVolume(vid):
				return []string{"expired"}
			}
			return []string{"deleted"}
		}))
	}
}

// ---------------------------------------------------------------- generation

type gen struct {
	r   *hx.Rng
	key uint64
}

func ttlMinutes(s string) int64 {
	t, _ := needle.ReadTTL(s)
	return int64(t.Minutes())
}

// farFrom reports whether age is at least 120 s away from every edge
func farFrom(age int64, edges ...int64) bool {
	for _, e := range edges {
		d := age - e
		if d < 0 {
			d = -d
		}
		if d < 120 {
			return false
		}
	}
	return true
}

// ages never reach back to the epoch (absolute timestamps stay far above zero)
var maxAge = time.Now().Unix() - 400*86400

var volTtls = []string{"", "", "3m", "5m", "9m", "10m", "40m", "255m", "1h", "2h", "30h", "1d", "3d", "1w", "1M", "1y", "3y", "40y", "100y", "137y", "200y", "255y", "7M", "255d"}
var needleTtls = []string{"", "", "", "3m", "5m", "10m", "45m", "1h", "2h", "1d", "1w", "1M", "1y", "137y", "0m"}

// pickAge picks an age (seconds) ≥ lo that is ≥ 120 s away from every edge and (softly) below maxAge,
// so that absolute timestamps stay positive.
func (g *gen) pickAge(edges []int64, lo int64) int64 {
	for tries := 0; tries < 60; tries++ {
		var a int64
		e := edges[g.r.Intn(len(edges))]
		switch g.r.Intn(8) {
		case 0:
			a = 0
		case 1:
			a = e / 2
		case 2:
			a = e - 121 - int64(g.r.Intn(200))
		case 3, 4:
			a = e + 121 + int64(g.r.Intn(200))
		case 5:
			a = e * 2
		case 6:
			a = int64(g.r.Intn(100000))
		case 7:
			a = -int64(g.r.Intn(1000)) - 200
		}
		if a >= lo && a <= maxAge && farFrom(a, edges...) {
			return a
		}
	}
	for a := lo; ; a += 97 {
		if farFrom(a, edges...) {
			return a
		}
	}
}

func (g *gen) oneCase() {
	r := g.r
	vt := volTtls[r.Intn(len(volTtls))]
	if r.Chance(1, 6) {
		c := 1 + r.Intn(255)
		u := []string{"m", "h", "d", "w", "M", "y"}[r.Intn(6)]
		if !(u == "y" && c >= 45 && c <= 70) { // now ≈ 56.7 years after the epoch: keep absolute-zero timestamps far from that edge
			vt = strconv.Itoa(c) + u
		}
	}
	exec([]string{"reset", hx.HexS(vt)})
	vmin := ttlMinutes(vt)
	vsec32 := (vmin * 60) % (1 << 32) // the vacuum filter multiplies in uint32
	delay := vmin / 10
	if delay > 10 {
		delay = 10
	}
	volEdges := []int64{(vmin + 1) * 60, (vmin + delay) * 60}
	nk := r.Intn(4)
	if r.Chance(1, 10) {
		nk = 0
	}
	type nd struct {
		key  uint64
		edge []int64
	}
	var keys []uint64
	minAppendAge := int64(1) << 62
	put := func(fresh bool) {
		g.key++
		key := g.key
		nt := needleTtls[r.Intn(len(needleTtls))]
		switch r.Intn(5) {
		case 0:
			nt = vt // explicit, equal to the volume's
		case 1:
			nt = "" // inherit
		}
		nmin := ttlMinutes(nt)
		if nt == "" {
			nmin = vmin
		}
		edges := []int64{nmin * 60, vsec32, vmin * 60}
		var appendAge int64
		if !fresh {
			appendAge = g.pickAge(edges, -100000)
		}
		hasLM := "1"
		var lmAge int64
		switch r.Intn(10) {
		case 0:
			hasLM = "0"
		case 1, 2: // client-supplied, older than the append
			lmAge = g.pickAge(edges, appendAge+121)
			if lmAge > maxAge+86400 {
				lmAge = appendAge
			}
		case 3: // client-supplied, in the future of the append
			lmAge = appendAge - 121 - int64(r.Intn(100000))
			if !farFrom(lmAge, edges...) {
				lmAge = appendAge
			}
		default:
			lmAge = appendAge
		}
		if fresh {
			// a write into the open volume: lmAge also moves the volume's lastModified; keep the expiry decisions off their edges
			if !farFrom(lmAge, volEdges...) {
				lmAge = 0
			}
		}
		exec([]string{"put", hx.U(key), hx.HexS(nt), hasLM, hx.I(lmAge)})
		if !fresh {
			exec([]string{"age", hx.U(key), hx.I(appendAge)})
			if appendAge < minAppendAge {
				minAppendAge = appendAge
			}
		}
		keys = append(keys, key)
	}
	for i := 0; i < nk; i++ {
		put(false)
	}
	reads := func() {
		for _, k := range keys {
			exec([]string{"read", hx.U(k)})
		}
	}
	if r.Chance(9, 10) {
		volAge := g.pickAge(volEdges, 0)
		// half of the time keep the .dat mtime coherent with the youngest record (as in real operation)
		if nk > 0 && r.Bool() && minAppendAge >= 0 && farFrom(minAppendAge, volEdges...) {
			volAge = minAppendAge
		}
		exec([]string{"reopen", hx.I(volAge)})
	}
	reads()
	if r.Chance(1, 3) {
		put(true)
		reads()
	}
	steps := 1 + r.Intn(3)
	for i := 0; i < steps; i++ {
		switch r.Intn(3) {
		case 0:
			exec([]string{"hb"})
		case 1:
			exec([]string{"compact", "1"})
		case 2:
			exec([]string{"compact", "2"})
		}
		reads()
	}
	exec([]string{"hb"})
	reads()
}

func main() {
	a := hx.ParseArgs()
	if dn, err := os.OpenFile(os.DevNull, os.O_WRONLY, 0); err == nil {
		os.Stderr = dn // glog chatter of the storage package
	}
	tr = hx.NewTrace(a.Out)
	defer tr.Close()
	var err error
	tmpRoot, err = os.MkdirTemp("", "c09")
	if err != nil {
		panic(err)
	}
	defer os.RemoveAll(tmpRoot)
	defer closeCase()
	tr.Comment(fmt.Sprintf("c09 seed=%d tier=%s", a.Seed, a.Tier))
	if a.Ops != "" {
		for _, op := range hx.ReadOps(a.Ops) {
			if op[0] != "sec2ttl" && op[0] != "reset" && op[0] != "resetf" && op[0][0] != 'f' && cs == nil {
				continue
			}
			exec(op)
		}
		return
	}
	r := hx.NewRng(a.Seed)

	// ---- pure part: SecondsToTTL on every small value, unit multiples ±1, boundaries, random
	lim := 20000
	if a.Thorough() {
		lim = 100000
	}
	for s := 0; s <= lim; s++ {
		sec2ttl(int32(s))
	}
	for _, u := range []int64{60, 3600, 86400, 604800, 2592000, 31536000} {
		for _, c := range []int64{1, 2, 3, 10, 59, 60, 100, 254, 255, 256, 257, 300, 1000} {
			for d := int64(-1); d <= 1; d++ {
				if v := u*c + d; v > 0 && v < 1<<31 {
					sec2ttl(int32(v))
				}
			}
		}
	}
	for _, s := range []int64{1<<31 - 1, 1<<31 - 2, 1 << 30, 255 * 31536000, 255*31536000 + 1, 68 * 31536000, -1, -60, -90, -3600, -1 << 31} {
		sec2ttl(int32(s))
	}
	for i := 0; i < a.N(2000); i++ {
		sec2ttl(int32(r.U64() >> uint(33+r.Intn(31))))
	}

	// ---- filer part: entries with explicit Crtime/Mtime in the past; create, update-after-create, find, list
	fttls := []int64{0, 0, 60, 90, 300, 600, 3600, 7200, 86400, 100000, 2592000}
	fage := func(ttl int64) int64 {
		for {
			var a int64
			switch r.Intn(6) {
			case 0:
				a = 0
			case 1:
				a = ttl / 2
			case 2:
				a = ttl - 121 - int64(r.Intn(300))
			case 3, 4:
				a = ttl + 121 + int64(r.Intn(300))
			case 5:
				a = int64(r.Intn(200000))
			}
			if a >= 0 && (ttl == 0 || farFrom(a, ttl)) {
				return a
			}
		}
	}
	fkey := int64(0)
	for i := 0; i < a.N(120); i++ {
		exec([]string{"resetf"})
		var keys []int64
		crOf := map[int64]int64{}
		n := 1 + r.Intn(4)
		for j := 0; j < n; j++ {
			fkey++
			keys = append(keys, fkey)
			ttl := fttls[r.Intn(len(fttls))]
			cr := fage(ttl)
			m := cr
			if r.Bool() { // modified later than created (or a client-supplied older mtime)
				m = fage(ttl)
			}
			crOf[fkey] = cr
			exec([]string{"fput", hx.I(fkey), hx.I(ttl), hx.I(cr), hx.I(m)})
		}
		if r.Bool() {
			exec([]string{"flist"})
		}
		// updates after create: append / touch with a fresh Mtime, possibly another TtlSec
		for _, k := range keys {
			if r.Chance(2, 3) {
				// crAge of an update is ignored when the entry is still visible (UpdateEntry keeps the old Crtime):
				// the new TtlSec must be off the edge for the old AND the new Crtime
				ttl := fttls[r.Intn(len(fttls))]
				for ttl != 0 && !farFrom(crOf[k], ttl) {
					ttl = fttls[r.Intn(len(fttls))]
				}
				mAge := int64(0)
				if r.Chance(1, 4) {
					mAge = fage(ttl)
				}
				ncr := fage(ttl)
				exec([]string{"fput", hx.I(k), hx.I(ttl), hx.I(ncr), hx.I(mAge)})
				if ncr < crOf[k] {
					crOf[k] = ncr // conservative: whichever incarnation is in effect, later TTLs avoid both edges
				}
			}
			if r.Bool() {
				exec([]string{"ffind", hx.I(k)})
			}
		}
		exec([]string{"flist"})
		for _, k := range keys {
			exec([]string{"ffind", hx.I(k)})
		}
	}

	// ---- storage part
	g := &gen{r: r}
	for i := 0; i < a.N(150); i++ {
		g.oneCase()
	}
}
