// c25: correspondence harness for C25 (filer HTTP writes store exactly the request body).
//
// A REAL filer.Filer over leveldb2 inside a FilerServer (hook NewFilerServerVerifC25); PUT/POST
// requests go through the real write handlers (PostHandler/autoChunk via
// VerifPostHandlerChunkBytes = the same code with the chunk size in bytes) and from there through
// the real operation.Assign (gRPC) and operation.Upload (HTTP) to loopback stand-ins
// (harness/standin) that only hand out file ids and keep chunk bytes in memory.
//
//	reset <inlineLimit>                                            => ok
//	grpc <dir> <name> <inline|chunks|nofs|bigfs> <chunk> <body>    => <entry>      (FilerServer.CreateEntry, the gRPC handler)
//	put|post|postd|postraw|putnet <dir> <name> <append> <chunk> <failAt> <body> => <status> gc=<data,..> <entry>
//	   (gc = the chunks the request uploaded itself AND handed to a chunk-deletion sink, as their sorted data; - if none:
//	   file ids assigned during the request are told by the stand-in's key counter, deletions by hook H5)
//	   (putnet = put over a real loopback connection; a failing body is a connection the client closes early)
//	putuf|postuf <dir> <name> <append> <chunk> <k> <body>          => <status> uf=<refused assigns> gc=<data,..> <entry>
//	   (an error-free body; the stand-in master refuses every attempt — dataToChunk makes three — to get a file id for
//	   the chunk read k-th (0-based), all other chunks are stored; the rest of the body is delivered only after the
//	   refused chunk has given up, so that other chunks of the request complete AFTER the failure.  uf = assigns refused)
//	pub <bytes> <failAt>                                           => same | differ:..   (public PostHandler ?maxMB=1 vs hook path at 1<<20)
//
// <dir> is `d` (plain directory) or `etc` (below /etc, the filer.DirectoryEtcRoot special case).
// <failAt> = -1, or k: the request body delivers k bytes of content and then a read error.
// <entry> = none | fs=<FileSize attr> c=<inline content> k=<off:size:gen:data,...> rd=<bytes the real
// filer chunk reader resolves for [0, Size(entry))>; gen = number of the operation (since reset) that
// uploaded the chunk; chunks sorted by (offset, gen).
package main

import (
	"bytes"
	"context"
	"crypto/sha1"
	"errors"
	"flag"
	"fmt"
	"io"
	"math"
	"mime/multipart"
	"net"
	"net/http"
	"net/http/httptest"
	"os"
	"sort"
	"strconv"
	"strings"
	"sync"
	"sync/atomic"
	"time"

	"google.golang.org/grpc"

	"github.com/chrislusf/seaweedfs/weed/filer"
	_ "github.com/chrislusf/seaweedfs/weed/filer/leveldb2"
	"github.com/chrislusf/seaweedfs/weed/pb/filer_pb"
	weed_server "github.com/chrislusf/seaweedfs/weed/server"
	"github.com/chrislusf/seaweedfs/weed/storage/needle"
	"github.com/chrislusf/seaweedfs/weed/util"
	"github.com/chrislusf/seaweedfs/weed/util/log_buffer"

	"verifharness/hx"
	"verifharness/standin"
)

var (
	tr    *hx.Trace
	vol   *standin.Volume
	mst   *standin.Master
	fl    *filer.Filer
	opt   *weed_server.FilerOption
	fsrv  *weed_server.FilerServer
	ctx   = context.Background()
	round int            // number of resets: every case works in its own directories
	opNo  int            // operations since reset
	gens  map[string]int // fid -> op number that uploaded it
)

// file ids handed to a chunk-deletion sink (hook H5) since the last delTake
var (
	delMu  sync.Mutex
	delIds []string
)

func delObserver(kind string, ids []string) bool {
	delMu.Lock()
	delIds = append(delIds, ids...)
	delMu.Unlock()
	return true // chunk garbage collection itself is not under test (C20): keep the deletion queue off the network
}

func delTake() []string {
	delMu.Lock()
	defer delMu.Unlock()
	ids := delIds
	delIds = nil
	return ids
}

// gcToken: of the file ids handed to deletion since the last delTake, those the stand-in assigned after key
// `before` (= uploaded by the request that just ran), as their sorted chunk data
func gcToken(before uint64) string {
	var xs []string
	for _, id := range delTake() {
		f, err := needle.ParseFileIdFromString(id)
		if err != nil || uint64(f.Key) <= before {
			continue
		}
		b, ok := vol.Get(id)
		if !ok {
			xs = append(xs, "missing:"+id)
			continue
		}
		xs = append(xs, hx.Hex(b))
	}
	if len(xs) == 0 {
		return "gc=-"
	}
	sort.Strings(xs)
	return "gc=" + strings.Join(xs, ",")
}

func lookup(fileId string) ([]string, error) {
	return []string{"http://" + vol.Addr + "/" + fileId}, nil
}

type noCache struct{}

func (noCache) GetChunk(fileId string, minSize uint64) []byte             { return nil }
func (noCache) GetChunkSlice(fileId string, offset, length uint64) []byte { return nil }
func (noCache) SetChunk(fileId string, data []byte)                       {}

func realPath(dir, name string) string {
	if dir == "etc" {
		return fmt.Sprintf("/etc/v%d/%s", round, name)
	}
	return fmt.Sprintf("/d%d/%s", round, name)
}

// failingBody delivers data, then (on a later Read) err.
type failingBody struct {
	data []byte
	pos  int
	err  error
}

func (b *failingBody) Read(p []byte) (int, error) {
	if b.pos >= len(b.data) {
		if b.err != nil {
			return 0, b.err
		}
		return 0, io.EOF
	}
	n := copy(p, b.data[b.pos:])
	b.pos += n
	return n, nil
}
func (b *failingBody) Close() error { return nil }

func noteGens(e *filer.Entry) {
	if e == nil {
		return
	}
	for _, c := range e.Chunks {
		if _, ok := gens[c.GetFileIdString()]; !ok {
			gens[c.GetFileIdString()] = opNo
		}
	}
}

// resolve: what the filer's read path delivers for the whole file (real chunk logic, glue as in GetOrHeadHandler)
func resolve(e *filer.Entry) []byte {
	total := int64(e.Size())
	if total <= int64(len(e.Content)) {
		return e.Content[:total]
	}
	views := filer.ViewFromChunks(lookup, e.Chunks, 0, math.MaxInt64)
	rdr := filer.NewChunkReaderAtFromClient(lookup, views, noCache{}, total)
	defer rdr.Close()
	p := make([]byte, total)
	n, err := rdr.ReadAt(p, 0)
	if err != nil && err != io.EOF {
		return []byte("READERR")
	}
	return p[:n]
}

func dump(path string) []string {
	e, err := fl.FindEntry(ctx, util.FullPath(path))
	if err != nil || e == nil {
		return []string{"none"}
	}
	noteGens(e)
	type ck struct {
		off  int64
		size uint64
		gen  int
		key  uint64
		data []byte
		mt   int64
		man  bool
	}
	var cs []ck
	for _, c := range e.Chunks {
		b, _ := vol.Get(c.GetFileIdString())
		var key uint64
		if c.Fid != nil {
			key = c.Fid.FileKey
		}
		cs = append(cs, ck{c.Offset, c.Size, gens[c.GetFileIdString()], key, b, c.Mtime, c.IsChunkManifest})
	}
	sort.Slice(cs, func(i, j int) bool {
		if cs[i].off != cs[j].off {
			return cs[i].off < cs[j].off
		}
		if cs[i].gen != cs[j].gen {
			return cs[i].gen < cs[j].gen
		}
		return cs[i].key < cs[j].key
	})
	var ks []string
	mtOK := true
	for i, c := range cs {
		t := fmt.Sprintf("%d:%d:%d:%s", c.off, c.size, c.gen, hx.Hex(c.data))
		if c.man {
			t += ":M"
		}
		ks = append(ks, t)
		for j := range cs {
			if i != j && cs[j].gen < c.gen && cs[j].mt >= c.mt {
				mtOK = false
			}
		}
	}
	k := "-"
	if len(ks) > 0 {
		k = strings.Join(ks, ",")
	}
	out := []string{fmt.Sprintf("fs=%d", e.FileSize), "c=" + hx.Hex(e.Content), "k=" + k, "rd=" + hx.Hex(resolve(e))}
	if !mtOK {
		out = append(out, "mtime-order-broken") // chunk mtimes do not follow the request order: never expected
	}
	return out
}

func opReset(limit int64) {
	round++
	opNo = 0
	gens = map[string]int{}
	opt.SaveToFilerLimit = limit
	tr.Op("reset", []string{hx.I(limit)}, []string{"ok"})
}

func split(body []byte, chunk int) [][]byte {
	var out [][]byte
	for len(body) > 0 {
		n := chunk
		if n > len(body) || n <= 0 {
			n = len(body)
		}
		out = append(out, body[:n])
		body = body[n:]
	}
	return out
}

// grpc: an entry created through the gRPC handler, as `weed mount`, filer.copy or the S3 gateway do
func opGrpc(dir, name, kind string, chunk int, body []byte) {
	opNo++
	path := realPath(dir, name)
	tr.Op("grpc", []string{dir, name, kind, strconv.Itoa(chunk), hx.Hex(body)}, hx.Guard(func() []string {
		d, n := util.FullPath(path).DirAndName()
		e := &filer_pb.Entry{Name: n, Attributes: &filer_pb.FuseAttributes{FileMode: 0644, Mtime: time.Now().Unix(), Crtime: time.Now().Unix()}}
		switch kind {
		case "inline":
			e.Content = body
			e.Attributes.FileSize = uint64(len(body))
		default:
			off := int64(0)
			for _, piece := range split(body, chunk) {
				fid := vol.NextFid()
				vol.Put(fid, piece)
				gens[fid] = opNo
				e.Chunks = append(e.Chunks, &filer_pb.FileChunk{FileId: fid, Offset: off, Size: uint64(len(piece)), Mtime: time.Now().UnixNano()})
				off += int64(len(piece))
			}
			switch kind {
			case "chunks":
				e.Attributes.FileSize = uint64(len(body))
			case "bigfs":
				e.Attributes.FileSize = uint64(len(body)) + 3
			case "nofs":
			}
		}
		resp, err := fsrv.CreateEntry(ctx, &filer_pb.CreateEntryRequest{Directory: d, Entry: e})
		if err != nil || resp.Error != "" {
			return []string{"err"}
		}
		return dump(path)
	}))
}

// rawRequest: method, URL, the bytes of the request body as they travel, its content type, and where in them the
// file content starts
func rawRequest(method, dir, name string, isAppend bool, body []byte) (httpMethod, url string, raw []byte, contentType string, contentStart int, path string) {
	path = realPath(dir, name)
	url = path
	httpMethod = "PUT"
	switch method {
	case "put":
		raw = body
	case "postraw":
		httpMethod = "POST"
		raw = body
		contentType = "application/octet-stream"
	case "post", "postd":
		httpMethod = "POST"
		var buf bytes.Buffer
		mw := multipart.NewWriter(&buf)
		fname := "upload.bin"
		if method == "postd" {
			d, n := util.FullPath(path).DirAndName()
			url = d + "/"
			fname = n
		}
		pw, _ := mw.CreateFormFile("file", fname)
		contentStart = buf.Len()
		pw.Write(body)
		mw.Close()
		raw = buf.Bytes()
		contentType = mw.FormDataContentType()
	}
	if isAppend {
		url += "?op=append"
	}
	return
}

func buildRequest(method, dir, name string, isAppend bool, failAt int, body []byte) (*http.Request, string) {
	httpMethod, url, raw, contentType, contentStart, path := rawRequest(method, dir, name, isAppend, body)
	var rdr io.ReadCloser
	if failAt >= 0 {
		rdr = &failingBody{data: raw[:contentStart+failAt], err: errors.New("verif: connection reset")}
	} else {
		rdr = &failingBody{data: raw}
	}
	r := httptest.NewRequest(httpMethod, url, rdr)
	r.ContentLength = int64(len(raw))
	if contentType != "" {
		r.Header.Set("Content-Type", contentType)
	}
	return r, path
}

func opWrite(method, dir, name string, isAppend bool, chunk int, failAt int, body []byte) {
	opNo++
	tr.Op(method, []string{dir, name, hx.B(isAppend), strconv.Itoa(chunk), strconv.Itoa(failAt), hx.Hex(body)}, hx.Guard(func() []string {
		before := vol.Next()
		delTake()
		if method == "putnet" {
			code := putOverNet(realPath(dir, name), isAppend, chunk, failAt, body)
			return append([]string{strconv.Itoa(code), gcToken(before)}, dump(realPath(dir, name))...)
		}
		r, path := buildRequest(method, dir, name, isAppend, failAt, body)
		w := httptest.NewRecorder()
		fsrv.VerifPostHandlerChunkBytes(w, r, r.ContentLength, int32(chunk))
		return append([]string{strconv.Itoa(w.Code), gcToken(before)}, dump(path)...)
	}))
}

// ---- putuf/postuf: a chunk upload that fails for good while the rest of the request goes on

// gatedBody delivers data; a Read never passes a gate position, and the first Read AT a gate position runs the gate's
// function first (a slow client: the bytes behind the gate arrive when the function returns)
type gate struct {
	at int
	fn func()
}

type gatedBody struct {
	data  []byte
	pos   int
	gates []gate // ascending positions
}

func (b *gatedBody) Read(p []byte) (int, error) {
	for len(b.gates) > 0 && b.gates[0].at <= b.pos {
		fn := b.gates[0].fn
		b.gates = b.gates[1:]
		fn()
	}
	if b.pos >= len(b.data) {
		return 0, io.EOF
	}
	end := len(b.data)
	if len(b.gates) > 0 && b.gates[0].at < end {
		end = b.gates[0].at
	}
	n := copy(p, b.data[b.pos:end])
	b.pos += n
	return n, nil
}
func (b *gatedBody) Close() error { return nil }

// dataToChunk sleeps 251+502+753 ms between/after its three attempts; the third sleep runs after the third refusal.
// The bytes behind the refused chunk are held back until the refusals are used up and then this much longer, so that
// the chunks behind it finish after the refused one has returned its error.
const ufSettle = 753*time.Millisecond + 550*time.Millisecond

func waitFor(cond func() bool, d time.Duration) {
	end := time.Now().Add(d)
	for !cond() && time.Now().Before(end) {
		time.Sleep(5 * time.Millisecond)
	}
}

func opWriteUF(method, dir, name string, isAppend bool, chunk int, k int, body []byte) {
	opNo++
	tr.Op(method, []string{dir, name, hx.B(isAppend), strconv.Itoa(chunk), strconv.Itoa(k), hx.Hex(body)}, hx.Guard(func() []string {
		before := vol.Next()
		delTake()
		httpMethod, url, raw, contentType, contentStart, path := rawRequest(strings.TrimSuffix(method, "uf"), dir, name, isAppend, body)
		uploads0 := atomic.LoadInt64(&vol.Uploads)
		rdr := &gatedBody{data: raw}
		armed := false
		if chunk > 0 && k >= 0 && k*chunk < len(body) {
			// chunks 0..k-1 are stored (their assigns are behind us), then the next three assigns are refused: they are
			// the three attempts of chunk k, no other chunk of the request has been read yet
			rdr.gates = append(rdr.gates, gate{contentStart + k*chunk, func() {
				waitFor(func() bool { return atomic.LoadInt64(&vol.Uploads) >= uploads0+int64(k) }, 20*time.Second)
				atomic.StoreInt64(&mst.FailAssign, 3)
				armed = true
			}})
			if (k+1)*chunk < len(body) {
				rdr.gates = append(rdr.gates, gate{contentStart + (k+1)*chunk, func() {
					waitFor(func() bool { return atomic.LoadInt64(&mst.FailAssign) == 0 }, 20*time.Second)
					time.Sleep(ufSettle)
				}})
			}
		}
		r := httptest.NewRequest(httpMethod, url, rdr)
		r.ContentLength = int64(len(raw))
		if contentType != "" {
			r.Header.Set("Content-Type", contentType)
		}
		w := httptest.NewRecorder()
		fsrv.VerifPostHandlerChunkBytes(w, r, r.ContentLength, int32(chunk))
		refused := int64(0)
		if left := atomic.SwapInt64(&mst.FailAssign, 0); armed { // disarm: a request that uploads no k-th chunk leaves the switch set
			refused = 3 - left
		}
		return append([]string{strconv.Itoa(w.Code), fmt.Sprintf("uf=%d", refused), gcToken(before)}, dump(path)...)
	}))
}

// ---- putnet: the same PUT over a real loopback connection; a failing body = the client sends failAt of the
// announced Content-Length bytes and closes the connection (the server's r.Body.Read then fails)

type statusRecorder struct {
	http.ResponseWriter
	code int
}

func (s *statusRecorder) WriteHeader(c int) { s.code = c; s.ResponseWriter.WriteHeader(c) }
func (s *statusRecorder) Write(b []byte) (int, error) {
	if s.code == 0 {
		s.code = 200
	}
	return s.ResponseWriter.Write(b)
}

var (
	netSrv  *httptest.Server
	netDone = make(chan int, 16)
)

func netHandler(w http.ResponseWriter, r *http.Request) {
	chunk, _ := strconv.Atoi(r.Header.Get("X-Verif-Chunk"))
	rec := &statusRecorder{ResponseWriter: w}
	fsrv.VerifPostHandlerChunkBytes(rec, r, r.ContentLength, int32(chunk))
	netDone <- rec.code
}

func putOverNet(path string, isAppend bool, chunk int, failAt int, body []byte) int {
	if netSrv == nil {
		netSrv = httptest.NewServer(http.HandlerFunc(netHandler))
	}
	conn, err := net.Dial("tcp", netSrv.Listener.Addr().String())
	if err != nil {
		return -1
	}
	defer conn.Close()
	url := path
	if isAppend {
		url += "?op=append"
	}
	fmt.Fprintf(conn, "PUT %s HTTP/1.1\r\nHost: verif\r\nContent-Length: %d\r\nX-Verif-Chunk: %d\r\n\r\n", url, len(body), chunk)
	if failAt >= 0 {
		conn.Write(body[:failAt])
		conn.(*net.TCPConn).CloseWrite()
	} else {
		conn.Write(body)
	}
	select {
	case code := <-netDone:
		return code
	case <-time.After(20 * time.Second):
		return -2
	}
}

func pattern(n int, salt byte) []byte {
	b := make([]byte, n)
	x := uint32(salt) + 1
	for i := range b {
		x = x*1664525 + 1013904223
		b[i] = byte(x >> 24)
	}
	return b
}

func summary(path string) string {
	e, err := fl.FindEntry(ctx, util.FullPath(path))
	if err != nil || e == nil {
		return "none"
	}
	var xs []string
	for _, c := range e.Chunks {
		b, _ := vol.Get(c.GetFileIdString())
		xs = append(xs, fmt.Sprintf("%d:%d:%x", c.Offset, c.Size, sha1.Sum(b)))
	}
	sort.Strings(xs)
	return fmt.Sprintf("fs=%d c=%x k=%s", e.FileSize, sha1.Sum(e.Content), strings.Join(xs, ","))
}

// pub: the hook path (chunk size in bytes) against the public PostHandler with ?maxMB=1
func opPub(n int, failAt int) {
	tr.Op("pub", []string{strconv.Itoa(n), strconv.Itoa(failAt)}, hx.Guard(func() []string {
		round++
		body := pattern(n, byte(n))
		r1, p1 := buildRequest("put", "d", "pubhook", false, failAt, body)
		w1 := httptest.NewRecorder()
		before := vol.Next()
		delTake()
		fsrv.VerifPostHandlerChunkBytes(w1, r1, r1.ContentLength, 1<<20)
		g1 := gcToken(before)
		r2, p2 := buildRequest("put", "d", "pubreal", false, failAt, body)
		r2.URL.RawQuery = "maxMB=1"
		r2.RequestURI += "?maxMB=1"
		w2 := httptest.NewRecorder()
		before = vol.Next()
		fsrv.PostHandler(w2, r2, r2.ContentLength)
		g2 := gcToken(before)
		s1, s2 := summary(p1), summary(p2)
		// an error-free body must be stored by both paths; a failing one is treated alike (status, entry, deletions)
		if w1.Code == w2.Code && s1 == s2 && g1 == g2 && (s1 != "none" || failAt >= 0) {
			return []string{"same"}
		}
		return []string{fmt.Sprintf("differ:%d/%d:%s/%s:%x/%x", w1.Code, w2.Code, s1, s2, sha1.Sum([]byte(g1)), sha1.Sum([]byte(g2)))}
	}))
}

func exec(w []string) {
	atoi := func(s string) int { n, _ := strconv.Atoi(s); return n }
	switch w[0] {
	case "reset":
		opReset(int64(atoi(w[1])))
	case "grpc":
		opGrpc(w[1], w[2], w[3], atoi(w[4]), hx.UnHex(w[5]))
	case "put", "post", "postd", "postraw", "putnet":
		opWrite(w[0], w[1], w[2], w[3] == "1", atoi(w[4]), atoi(w[5]), hx.UnHex(w[6]))
	case "putuf", "postuf":
		opWriteUF(w[0], w[1], w[2], w[3] == "1", atoi(w[4]), atoi(w[5]), hx.UnHex(w[6]))
	case "pub":
		opPub(atoi(w[1]), atoi(w[2]))
	}
}

// ---------------------------------------------------------------- generation

type gen struct{ r *hx.Rng }

func (g *gen) body(n int) []byte {
	if g.r.Chance(1, 4) { // compressible text: operation.Upload gzips it on the way to the volume server
		b := make([]byte, n)
		for i := range b {
			b[i] = "abcab cab\n"[g.r.Intn(10)]
		}
		return b
	}
	return g.r.Bytes(n)
}

func (g *gen) size(chunk int) int {
	switch g.r.Intn(8) {
	case 0:
		return 0
	case 1:
		return g.r.Intn(chunk + 1)
	default:
		n := (g.r.Intn(5)+1)*chunk + g.r.Intn(3) - 1
		if n < 0 {
			n = 0
		}
		return n
	}
}

// failAt classes: 0, mid-chunk, chunk edge, last byte
func (g *gen) failAt(n, chunk int) int {
	if n == 0 {
		return 0
	}
	switch g.r.Intn(4) {
	case 0:
		return 0
	case 1:
		k := (n / chunk) * chunk
		if k >= n {
			k -= chunk
		}
		if k < 0 {
			k = 0
		}
		return k // chunk edge
	case 2:
		return n - 1
	default:
		return g.r.Intn(n)
	}
}

var methods = []string{"put", "put", "post", "postd", "putnet", "post"}

func (g *gen) oneCase() {
	limit := []int64{0, 8, 16}[g.r.Intn(3)]
	opReset(limit)
	chunk := 4 + g.r.Intn(61)
	if g.r.Chance(1, 2) {
		chunk = 4 + g.r.Intn(13)
	}
	dir := "d"
	if g.r.Chance(1, 8) {
		dir = "etc"
	}
	names := []string{"f0", "f1", "f2"}
	steps := 2 + g.r.Intn(5)
	for i := 0; i < steps; i++ {
		name := names[g.r.Intn(len(names))]
		switch x := g.r.Intn(20); {
		case x < 3:
			kind := []string{"inline", "chunks", "nofs", "bigfs"}[g.r.Intn(4)]
			n := g.size(chunk)
			if kind != "inline" && n == 0 {
				n = chunk + 1
			}
			opGrpc(dir, name, kind, chunk, g.body(n))
			if g.r.Chance(2, 3) { // appends to files made by other clients
				opWrite(methods[g.r.Intn(len(methods))], dir, name, true, chunk, -1, g.body(g.size(chunk)))
			}
		case x < 4:
			opWrite("postraw", dir, name, false, chunk, -1, g.body(g.size(chunk)))
		default:
			m := methods[g.r.Intn(len(methods))]
			n := g.size(chunk)
			isAppend := g.r.Chance(2, 5)
			failAt := -1
			if g.r.Chance(1, 5) {
				failAt = g.failAt(n, chunk)
			}
			if m == "putnet" && n == 0 {
				failAt = -1 // Content-Length 0: there is nothing a client could cut
			}
			body := g.body(n)
			if failAt >= 0 && m != "put" {
				// mime/multipart holds back a trailing "\r" (possible start of the boundary) when the stream breaks:
				// keep the number of content bytes delivered before the error exactly failAt
				for i := range body {
					if body[i] == '\r' || body[i] == '\n' {
						body[i] = 'x'
					}
				}
			}
			c := chunk
			if g.r.Chance(1, 6) { // requests may use different chunk sizes on the same file
				c = 4 + g.r.Intn(61)
			}
			opWrite(m, dir, name, isAppend, c, failAt, body)
		}
	}
}

// failingCase: a file, then requests whose bodies fail — over every transport, as overwrite and as append, after
// 0 / 1 / several uploaded chunks — each followed by an error-free request on the same name (what is stored must
// be what was there before the failure); variant 2/3 put the failure behind a first read that is taken as the
// inline content (inline limit above the chunk size, or below /etc)
func (g *gen) failingCase(variant int) {
	chunk := 4 + g.r.Intn(9)
	limit := int64(0)
	dir := "d"
	switch variant {
	case 2:
		limit = int64(chunk + 1 + g.r.Intn(8))
	case 3:
		dir = "etc"
	}
	opReset(limit)
	clean := func(n int) []byte {
		b := g.r.Bytes(n)
		for i := range b {
			if b[i] == '\r' || b[i] == '\n' {
				b[i] = 'x'
			}
		}
		return b
	}
	for i, m := range []string{"put", "putnet", "post", "postd"} {
		name := fmt.Sprintf("f%d", i%3)
		k := 3 + g.r.Intn(2)
		n := k*chunk + 1 + g.r.Intn(chunk-1)
		opWrite("put", dir, name, false, chunk, -1, g.body(chunk+1+g.r.Intn(2*chunk)))
		opWrite(m, dir, name, false, chunk, g.r.Intn(chunk), clean(n))               // fails inside the first read
		opWrite(m, dir, name, false, chunk, chunk+g.r.Intn(chunk), clean(n))         // one chunk uploaded
		opWrite(m, dir, name, false, chunk, (k-1)*chunk+g.r.Intn(chunk+1), clean(n)) // several chunks uploaded
		fa := chunk*(1+g.r.Intn(k)) + g.r.Intn(2)
		if fa >= n { // a body that delivers all announced bytes has not failed (over a real connection it cannot)
			fa = n - 1
		}
		opWrite(m, dir, name, true, chunk, fa, clean(n)) // as an append
		opWrite(m, dir, name, true, chunk, -1, g.body(1+g.r.Intn(2*chunk)))
	}
}

// uploadFailCase: requests one of whose chunk uploads is refused for good (all three attempts of dataToChunk) while the
// chunks behind it are stored afterwards — as an overwrite of an existing file, on a new name, as an append, with the
// first / a middle / the last chunk refused, PUT and multipart POST; each followed by an error-free append on the same
// name (what is stored must be what was there before).  Every such request takes ~2.8 s of wall time (the retry
// sleeps of the real code), almost no CPU: the number of these requests does not grow with the budget.
func (g *gen) uploadFailCase() {
	chunk := 4 + g.r.Intn(9)
	opReset(0)
	clean := func(n int) []byte {
		b := g.r.Bytes(n)
		for i := range b {
			if b[i] == '\r' || b[i] == '\n' {
				b[i] = 'x'
			}
		}
		return b
	}
	size := func(k int) int { return k*chunk + 1 + g.r.Intn(chunk) } // k whole chunks and a last one of 1..chunk bytes
	// over an existing file: the first chunk of three is refused
	opWrite("put", "d", "f0", false, chunk, -1, g.body(chunk+1+g.r.Intn(2*chunk)))
	opWriteUF("putuf", "d", "f0", false, chunk, 0, clean(size(2)))
	opWrite("put", "d", "f0", true, chunk, -1, g.body(1+g.r.Intn(2*chunk)))
	// a new name, multipart POST: a middle chunk is refused; then the name is written for good and appended to with
	// the first chunk of the append refused
	k := 1 + g.r.Intn(2)
	opWriteUF("postuf", "d", "f1", false, chunk, k, clean(size(k+1+g.r.Intn(2))))
	opWrite("post", "d", "f1", false, chunk, -1, g.body(size(1)))
	opWriteUF([]string{"putuf", "postuf"}[g.r.Intn(2)], "d", "f1", true, chunk, g.r.Intn(2), clean(size(2)))
	opWrite("post", "d", "f1", true, chunk, -1, g.body(1+g.r.Intn(chunk)))
	// the LAST chunk is refused (nothing completes after the failure), and a request that has no k-th chunk
	opWriteUF("putuf", "d", "f2", false, chunk, 2, clean(size(2)))
	opWriteUF("postuf", "d", "f2", false, chunk, 3, clean(size(1)))
}

func main() {
	a := hx.ParseArgs()
	tr = hx.NewTrace(a.Out)
	defer tr.Close()
	tmp, err := os.MkdirTemp("", "c25")
	if err != nil {
		panic(err)
	}
	defer os.RemoveAll(tmp)
	flag.Set("logtostderr", "false")
	flag.Set("alsologtostderr", "false")
	flag.Set("stderrthreshold", "FATAL")
	flag.Set("logdir", tmp)

	vol = standin.NewVolume()
	mst = standin.NewMaster(vol)
	dial := grpc.WithInsecure()
	fl = filer.NewFiler([]string{mst.Addr}, dial, "127.0.0.1", 0, "", "", "", nil)
	fl.DirBucketsPath = "/buckets"
	fl.LocalMetaLogBuffer = log_buffer.NewLogBuffer("verif", time.Minute, func(startTime, stopTime time.Time, buf []byte) {}, nil)
	var inner filer.FilerStore
	for _, s := range filer.Stores {
		if s.GetName() == "leveldb2" {
			inner = s
		}
	}
	v := util.GetViper()
	v.Set("leveldb2.dir", tmp)
	if err := inner.Initialize(v, "leveldb2."); err != nil {
		panic(err)
	}
	fl.SetStore(inner)
	filer.VerifChunkDeleteObserver = delObserver
	go fl.MasterClient.KeepConnectedToMaster()
	fl.MasterClient.WaitUntilConnected()
	opt = &weed_server.FilerOption{MaxMB: 4}
	fsrv = weed_server.NewFilerServerVerifC25(fl, opt, dial)
	tr.Comment(fmt.Sprintf("c25 seed=%d tier=%s", a.Seed, a.Tier))

	if a.Ops != "" {
		for _, w := range hx.ReadOps(a.Ops) {
			exec(w)
		}
		return
	}
	// the hook path is the public path: same outcome at 1 MiB chunks, around the chunk boundaries and with a failing body
	opReset(0)
	for _, n := range []int{0, 1<<20 - 1, 1 << 20, 1<<20 + 1, 2<<20 + 5} {
		opPub(n, -1)
	}
	opPub(2<<20+5, 1<<20+7)
	g := &gen{r: hx.NewRng(a.Seed)}
	for i := 0; i < a.N(120); i++ {
		g.oneCase()
	}
	// after the random cases (their stream stays what it was): failing bodies in every position a request can be in
	for i := 0; i < 4; i++ {
		g.failingCase(i)
	}
	// … and chunk uploads that the cluster refuses for good: one case (three at the thorough tier), whatever the budget
	nuf := 1
	if a.Thorough() {
		nuf = 3
	}
	for i := 0; i < nuf; i++ {
		g.uploadFailCase()
	}
}
