// c08: correspondence harness for C08 (persistent identifiers and headers).
// Runs the real encoders/decoders of /repo on exhaustive tables, boundary values,
// random values and malformed strings; one trace line per call.
package main

import (
	"fmt"
	"os"
	"strconv"

	"github.com/golang/protobuf/proto"

	"github.com/chrislusf/seaweedfs/weed/pb/master_pb"
	"github.com/chrislusf/seaweedfs/weed/storage/backend"
	"github.com/chrislusf/seaweedfs/weed/storage/idx"
	"github.com/chrislusf/seaweedfs/weed/storage/needle"
	"github.com/chrislusf/seaweedfs/weed/storage/needle_map"
	"github.com/chrislusf/seaweedfs/weed/storage/super_block"
	"github.com/chrislusf/seaweedfs/weed/storage/types"

	"verifharness/hx"
)

var tr *hx.Trace
var tmpDir string

func rpStr(s string) {
	tr.Op("rp_str", []string{hx.HexS(s)}, hx.Guard(func() []string {
		rp, err := super_block.NewReplicaPlacementFromString(s)
		return []string{hx.Err(err), hx.I(int64(rp.DiffDataCenterCount)), hx.I(int64(rp.DiffRackCount)), hx.I(int64(rp.SameRackCount)),
			hx.I(int64(rp.Byte())), hx.HexS(rp.String())}
	}))
}

func rpByte(b int) {
	tr.Op("rp_byte", []string{hx.I(int64(b))}, hx.Guard(func() []string {
		rp, err := super_block.NewReplicaPlacementFromByte(byte(b))
		return []string{hx.Err(err), hx.I(int64(rp.DiffDataCenterCount)), hx.I(int64(rp.DiffRackCount)), hx.I(int64(rp.SameRackCount)), hx.I(int64(rp.Byte()))}
	}))
}

func ttlRead(s string) {
	tr.Op("ttl_read", []string{hx.HexS(s)}, hx.Guard(func() []string {
		t, err := needle.ReadTTL(s)
		return []string{hx.Err(err), hx.I(int64(t.Count)), hx.I(int64(t.Unit)), hx.HexS(t.String()), hx.U(uint64(t.ToUint32())), hx.U(uint64(t.Minutes()))}
	}))
}

func ttlU32(v uint32) {
	tr.Op("ttl_u32", []string{hx.U(uint64(v))}, hx.Guard(func() []string {
		t := needle.LoadTTLFromUint32(v)
		return []string{hx.I(int64(t.Count)), hx.I(int64(t.Unit)), hx.HexS(t.String()), hx.U(uint64(t.ToUint32()))}
	}))
}

func ttlBytes(c, u byte) {
	tr.Op("ttl_bytes", []string{hx.I(int64(c)), hx.I(int64(u))}, hx.Guard(func() []string {
		t := needle.LoadTTLFromBytes([]byte{c, u})
		out := make([]byte, 2)
		t.ToBytes(out)
		return []string{hx.I(int64(t.Count)), hx.I(int64(t.Unit)), hx.I(int64(out[0])), hx.I(int64(out[1]))}
	}))
}

func sec2ttl(s int32) {
	tr.Op("sec2ttl", []string{hx.I(int64(s))}, hx.Guard(func() []string {
		return []string{hx.HexS(needle.SecondsToTTL(s))}
	}))
}

func fidFmt(vid uint32, key uint64, cookie uint32) {
	tr.Op("fid_fmt", []string{hx.U(uint64(vid)), hx.U(key), hx.U(uint64(cookie))}, hx.Guard(func() []string {
		return []string{hx.HexS(needle.NewFileId(needle.VolumeId(vid), key, cookie).String())}
	}))
}

func fidParse(s string) {
	tr.Op("fid_parse", []string{hx.HexS(s)}, hx.Guard(func() []string {
		f, err := needle.ParseFileIdFromString(s)
		if err != nil {
			return []string{"err"}
		}
		return []string{"ok", hx.U(uint64(f.VolumeId)), hx.U(uint64(f.Key)), hx.U(uint64(f.Cookie))}
	}))
}

func idxEntry(key uint64, actual int64, size int32) {
	tr.Op("idx_entry", []string{hx.U(key), hx.I(actual), hx.I(int64(size))}, hx.Guard(func() []string {
		b := needle_map.ToBytes(types.NeedleId(key), types.ToOffset(actual), types.Size(size))
		k, o, s := idx.IdxFileEntry(b)
		return []string{hx.Hex(b), hx.U(uint64(k)), hx.I(o.ToActualOffset()), hx.I(int64(s))}
	}))
}

func superBlock(ver int, rpb int, c, u byte, rev uint16, vids []uint32) {
	var extra *master_pb.SuperBlockExtra
	var extraBytes []byte
	if vids != nil {
		extra = &master_pb.SuperBlockExtra{ErasureCoding: &master_pb.SuperBlockExtra_ErasureCoding{Data: 10, Parity: 4, VolumeIds: vids}}
		extraBytes, _ = proto.Marshal(extra)
	}
	tr.Op("sb", []string{hx.I(int64(ver)), hx.I(int64(rpb)), hx.I(int64(c)), hx.I(int64(u)), hx.I(int64(rev)), hx.Hex(extraBytes)}, hx.Guard(func() []string {
		rp, err := super_block.NewReplicaPlacementFromByte(byte(rpb))
		if err != nil {
			return []string{"badrp"}
		}
		sb := super_block.SuperBlock{Version: needle.Version(ver), ReplicaPlacement: rp, Ttl: needle.LoadTTLFromBytes([]byte{c, u}), CompactionRevision: rev, Extra: extra}
		bytes := sb.Bytes()
		path := tmpDir + "/sb.dat"
		if err := os.WriteFile(path, bytes, 0644); err != nil {
			panic(err)
		}
		f, err := os.Open(path)
		if err != nil {
			panic(err)
		}
		df := backend.NewDiskFile(f)
		defer df.Close()
		got, err := super_block.ReadSuperBlock(df)
		if err != nil {
			return []string{hx.Hex(bytes), "err"}
		}
		var gotExtra []byte
		if got.Extra != nil {
			gotExtra, _ = proto.Marshal(got.Extra)
		}
		tb := make([]byte, 2)
		got.Ttl.ToBytes(tb)
		return []string{hx.Hex(bytes), "ok", hx.I(int64(got.Version)), hx.I(int64(got.ReplicaPlacement.Byte())), hx.I(int64(tb[0])), hx.I(int64(tb[1])),
			hx.I(int64(got.CompactionRevision)), hx.Hex(gotExtra), hx.I(int64(got.BlockSize()))}
	}))
}

func main() {
	a := hx.ParseArgs()
	tr = hx.NewTrace(a.Out)
	defer tr.Close()
	var err error
	tmpDir, err = os.MkdirTemp("", "c08")
	if err != nil {
		panic(err)
	}
	defer os.RemoveAll(tmpDir)
	tr.Comment(fmt.Sprintf("c08 seed=%d tier=%s OffsetSize=%d", a.Seed, a.Tier, types.OffsetSize))
	tr.Op("config", []string{hx.I(int64(types.OffsetSize)), hx.I(int64(types.NeedlePaddingSize))}, []string{})

	if a.Ops != "" {
		replay(hx.ReadOps(a.Ops))
		return
	}
	r := hx.NewRng(a.Seed)

	// ---- replica placement: every byte, every 3-char string over a small alphabet, malformed
	for b := 0; b < 256; b++ {
		rpByte(b)
	}
	alpha := []string{"0", "1", "2", "3", "9", "/", ":", "a", " "}
	for _, x := range alpha {
		for _, y := range alpha {
			for _, z := range alpha {
				rpStr(x + y + z)
			}
		}
	}
	for _, s := range []string{"", "0", "1", "2", "00", "01", "12", "0011", "2222", "00000", "1x", "x", "0001", "010 ", "-10", "+00"} {
		rpStr(s)
	}
	for i := 0; i < a.N(200); i++ {
		n := r.Intn(6)
		s := ""
		for j := 0; j < n; j++ {
			s += r.Pick([]string{"0", "1", "2", "0", "1", "2", "3", "x"})
		}
		rpStr(s)
	}

	// ---- TTL: every (count, unit) byte pair; every canonical string; malformed strings
	for c := 0; c < 256; c++ {
		for u := 0; u < 256; u++ {
			if u > 8 && u < 250 && !a.Thorough() && (c+u)%17 != 0 {
				continue
			}
			ttlBytes(byte(c), byte(u))
		}
	}
	units := []string{"m", "h", "d", "w", "M", "y"}
	for c := 0; c <= 256; c++ {
		for _, u := range units {
			ttlRead(strconv.Itoa(c) + u)
		}
		ttlRead(strconv.Itoa(c))
	}
	for _, s := range []string{"", "m", "x", "5x", "300m", "256m", "255m", "1000h", "65536d", "+5m", "-1m", "-0m", "05m", "005m", "5 m", " 5m", "5m ", "5mm", "5hm", "m5",
		"1.5h", "1e3m", "0x10m", "1_0m", "9223372036854775807m", "9223372036854775808m", "99999999999999999999m", "-9223372036854775808m", "-9223372036854775809m", "5S", "5s", "5Y", "5D", "5H", "5W", "٣m"} {
		ttlRead(s)
	}
	for i := 0; i < a.N(500); i++ {
		n := 1 + r.Intn(5)
		s := ""
		for j := 0; j < n; j++ {
			s += r.Pick([]string{"0", "1", "2", "5", "9", "m", "h", "d", "w", "M", "y", "x", "-", "+"})
		}
		ttlRead(s)
	}
	for c := 0; c < 256; c++ {
		for u := 0; u < 8; u++ {
			ttlU32(uint32(c)<<8 | uint32(u))
		}
	}
	for i := 0; i < a.N(300); i++ {
		ttlU32(uint32(r.U64()))
	}

	// ---- SecondsToTTL
	for s := int32(0); s < int32(a.N(20000)); s++ {
		sec2ttl(s)
	}
	for _, base := range []int32{60, 3600, 86400, 604800, 2592000, 31536000} {
		for k := int32(1); k <= 68 && int64(base)*int64(k) < 1<<31; k++ {
			for _, m := range []int32{1, 2, 255, 256, 257} {
				v := int64(base) * int64(k) * int64(m)
				for _, d := range []int64{-1, 0, 1} {
					if v+d > 0 && v+d < 1<<31 {
						sec2ttl(int32(v + d))
					}
				}
			}
		}
	}
	for _, s := range []int32{-1, -60, -3600, 2147483647, -2147483648} {
		sec2ttl(s)
	}

	// ---- file ids
	bnd64 := []uint64{0, 1, 2, 0xff, 0x100, 0xffff, 0x10000, 0xffffff, 0x1000000, 0xffffffff, 0x100000000, 0xffffffffff, 0x10000000000, 0xffffffffffffff, 0x100000000000000, 0xffffffffffffffff, 0x0100000000000000, 0x00ff00ff00ff00ff}
	bnd32 := []uint32{0, 1, 9, 10, 0xff, 0x100, 0xffff, 0x10000, 0xffffffff, 0x01000000, 0x00ffffff}
	for _, k := range bnd64 {
		for _, c := range bnd32 {
			for _, v := range bnd32 {
				fidFmt(v, k, c)
				fidParse(needle.NewFileId(needle.VolumeId(v), k, c).String())
			}
		}
	}
	for i := 0; i < a.N(2000); i++ {
		k := r.U64() >> uint(r.Intn(64))
		c := uint32(r.U64()) >> uint(r.Intn(32))
		v := uint32(r.U64()) >> uint(r.Intn(32))
		fidFmt(v, k, c)
		fidParse(needle.NewFileId(needle.VolumeId(v), k, c).String())
	}
	for _, s := range []string{"", ",", "3", "3,", ",01637037d6", "3,01637037d6", "3,1637037d6", "3,0001637037d6", "3,01637037D6", "3,0x637037d6", "3,01637037d", "3,637037d6", "3,0637037d6",
		"3,g1637037d6", "3,01637037dg", "03,01637037d6", "+3,01637037d6", "-3,01637037d6", "3 ,01637037d6", "3, 01637037d6", "4294967295,01637037d6", "4294967296,01637037d6", "4294967297,01637037d6",
		"18446744073709551615,01637037d6", "18446744073709551616,01637037d6", "3,ffffffffffffffff637037d6", "3,1ffffffffffffffff637037d6", "3,0ffffffffffffffff637037d", "3,01637037d6,5", "3,,01637037d6", "3,01637037d6_1", "3,01_37037d6", "1_0,01637037d6", "3.0,01637037d6", "3,-1637037d6", "3,+1637037d6", "3,01+37037d6"} {
		fidParse(s)
	}
	hexAlpha := []string{"0", "1", "a", "f", "F", "g", "_", ",", "-", "9"}
	for i := 0; i < a.N(1500); i++ {
		s := ""
		n := r.Intn(4)
		for j := 0; j < n; j++ {
			s += r.Pick([]string{"0", "1", "4", "9", "x"})
		}
		if !r.Chance(1, 10) {
			s += ","
		}
		n = r.Intn(28)
		for j := 0; j < n; j++ {
			if r.Chance(1, 12) {
				s += r.Pick(hexAlpha)
			} else {
				s += r.Pick([]string{"0", "1", "2", "7", "a", "c", "e", "f"})
			}
		}
		fidParse(s)
	}

	// ---- index entries
	maxUnits := int64(1) << (8 * uint(types.OffsetSize))
	offs := []int64{0, 8, 16, 2040, 2048, 1 << 32, (1<<32 - 1) * 8, (1 << 32) * 8, (maxUnits - 1) * 8, 8 * 0x01020304, 8 * 0x0102030405}
	sizes := []int32{0, 1, 255, 256, -1, -2, 2147483647, -2147483648, 0x01020304}
	for _, k := range bnd64 {
		for _, o := range offs {
			if o/8 >= maxUnits {
				continue
			}
			for _, s := range sizes {
				idxEntry(k, o, s)
			}
		}
	}
	for i := 0; i < a.N(2000); i++ {
		o := int64(r.U64()%uint64(maxUnits)) >> uint(r.Intn(30))
		idxEntry(r.U64()>>uint(r.Intn(64)), o*8, int32(r.U64()))
	}

	// ---- super blocks
	for ver := 1; ver <= 3; ver++ {
		for _, rpb := range []int{0, 1, 2, 10, 11, 20, 100, 110, 200, 222, 122} {
			for _, t := range [][2]byte{{0, 0}, {1, 1}, {255, 6}, {3, 2}, {0, 3}} {
				for _, rev := range []uint16{0, 1, 255, 256, 65535} {
					superBlock(ver, rpb, t[0], t[1], rev, nil)
				}
			}
		}
		superBlock(ver, 1, 3, 1, 7, []uint32{})
		superBlock(ver, 1, 3, 1, 7, []uint32{1})
		superBlock(ver, 10, 0, 0, 2, []uint32{1, 2, 3, 300, 70000})
	}
	for i := 0; i < a.N(100); i++ {
		n := r.Intn(40)
		vids := make([]uint32, n)
		for j := range vids {
			vids[j] = uint32(r.U64()) >> uint(r.Intn(32))
		}
		rpb := r.Intn(3)*100 + r.Intn(3)*10 + r.Intn(3)
		superBlock(1+r.Intn(3), rpb, byte(r.Intn(256)), byte(r.Intn(7)), uint16(r.U64()), vids)
	}
}

func replay(ops [][]string) {
	pi := func(s string) int64 { v, _ := strconv.ParseInt(s, 10, 64); return v }
	pu := func(s string) uint64 { v, _ := strconv.ParseUint(s, 10, 64); return v }
	for _, op := range ops {
		switch op[0] {
		case "rp_str":
			rpStr(hx.UnHexS(op[1]))
		case "rp_byte":
			rpByte(int(pi(op[1])))
		case "ttl_read":
			ttlRead(hx.UnHexS(op[1]))
		case "ttl_u32":
			ttlU32(uint32(pu(op[1])))
		case "ttl_bytes":
			ttlBytes(byte(pi(op[1])), byte(pi(op[2])))
		case "sec2ttl":
			sec2ttl(int32(pi(op[1])))
		case "fid_fmt":
			fidFmt(uint32(pu(op[1])), pu(op[2]), uint32(pu(op[3])))
		case "fid_parse":
			fidParse(hx.UnHexS(op[1]))
		case "idx_entry":
			idxEntry(pu(op[1]), pi(op[2]), int32(pi(op[3])))
		case "sb":
			var vids []uint32
			if op[6] != "-" {
				var ex master_pb.SuperBlockExtra
				if err := proto.Unmarshal(hx.UnHex(op[6]), &ex); err == nil && ex.ErasureCoding != nil {
					vids = ex.ErasureCoding.VolumeIds
					if vids == nil {
						vids = []uint32{}
					}
				}
			}
			superBlock(int(pi(op[1])), int(pi(op[2])), byte(pi(op[3])), byte(pi(op[4])), uint16(pi(op[5])), vids)
		}
	}
}
