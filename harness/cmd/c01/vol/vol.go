// Package vol: a real storage.Store with one volume in a temp dir, driven through the
// exported Store API (and, for hr/hd, through the real HTTP handlers of the volume
// server). Shared by the C01 (sequential histories) and C38 (concurrent histories) harnesses.
package vol

import (
	"fmt"
	"io"
	"net/http/httptest"
	"os"
	"path/filepath"
	"strconv"
	"strings"

	weed_server "github.com/chrislusf/seaweedfs/weed/server"
	"github.com/chrislusf/seaweedfs/weed/storage"
	"github.com/chrislusf/seaweedfs/weed/storage/needle"
	"github.com/chrislusf/seaweedfs/weed/storage/types"
	"github.com/chrislusf/seaweedfs/weed/util"

	"verifharness/hx"
)

const Vid = needle.VolumeId(1)

// Content is what a write supplies and a read returns (all byte strings raw).
type Content struct {
	Data, Name, Mime, Pairs []byte
	Flags                   byte
	Lm                      uint64
	TtlC, TtlU              byte
}

type Env struct {
	Dir   string
	Kind  string // mem | ldb | sorted (sorted = reopened read-only)
	Ttl   string
	Store *storage.Store
	VS    *weed_server.VolumeServer
}

func kindOf(k string) storage.NeedleMapKind {
	if k == "ldb" {
		return storage.NeedleMapLevelDb
	}
	return storage.NeedleMapInMemory
}

func (e *Env) open(kind string) {
	e.Store = storage.NewStore(nil, 8080, "127.0.0.1", "127.0.0.1:8080", []string{e.Dir}, []int{4},
		[]util.MinFreeSpace{{}}, "", kindOf(kind), []types.DiskType{types.HardDriveType})
	e.VS = weed_server.NewVolumeServerVerifC01(e.Store)
}

// Reset closes the previous store and starts an empty volume 1 of the given needle-map kind.
func (e *Env) Reset(kind, ttl string) error {
	e.Close()
	dir, err := os.MkdirTemp("", "c01-")
	if err != nil {
		return err
	}
	e.Dir, e.Kind, e.Ttl = dir, kind, ttl
	e.open(kind)
	return e.Store.AddVolume(Vid, "", kindOf(kind), "000", ttl, 0, 0, types.HardDriveType)
}

// ReopenSorted closes the store, makes the .dat file read-only and loads it again: the
// volume then comes up with noWriteOrDelete and the sorted-file needle map.
func (e *Env) ReopenSorted() error {
	e.Store.Close()
	dats, _ := filepath.Glob(filepath.Join(e.Dir, "*.dat"))
	for _, d := range dats {
		os.Chmod(d, 0444)
	}
	e.Kind = "sorted"
	e.open("mem")
	if e.Store.GetVolume(Vid) == nil {
		return fmt.Errorf("volume not loaded")
	}
	return nil
}

// Stopping = Store.SetStopping(): from then on WriteVolumeNeedle(fsync=true) goes through the
// batched worker (asyncRequestsChan) instead of syncWrite.
func (e *Env) Stopping() { e.Store.SetStopping() }

func (e *Env) Close() {
	if e.Store != nil {
		e.Store.Close()
		e.Store = nil
	}
	if e.Dir != "" {
		os.RemoveAll(e.Dir)
		e.Dir = ""
	}
}

// NewNeedle builds the needle the way needle.CreateNeedleFromRequest does (sizes, checksum, ttl pointer).
func NewNeedle(id uint64, cookie uint32, c *Content) *needle.Needle {
	n := new(needle.Needle)
	n.Id = types.NeedleId(id)
	n.Cookie = types.Cookie(cookie)
	if c == nil {
		return n
	}
	n.Data = c.Data
	n.Flags = c.Flags
	n.Name = c.Name
	n.Mime = c.Mime
	n.Pairs = c.Pairs
	n.PairsSize = uint16(len(c.Pairs))
	n.LastModified = c.Lm
	if c.TtlC == 0 && c.TtlU == 0 {
		n.Ttl = needle.EMPTY_TTL
	} else {
		n.Ttl = &needle.TTL{Count: c.TtlC, Unit: c.TtlU}
	}
	n.Checksum = needle.NewCRC(n.Data)
	return n
}

func errClass(err error) string {
	if err == nil {
		return "ok"
	}
	s := err.Error()
	switch {
	case err == storage.ErrorNotFound:
		return "notfound"
	case err == storage.ErrorDeleted:
		return "deleted"
	case strings.Contains(s, "is read only"):
		return "ro"
	case strings.Contains(s, "mismatching cookie"):
		return "cookie"
	}
	return "err"
}

// Write = Store.WriteVolumeNeedle. outs: <ok|ro|cookie|err> <unchanged>
func (e *Env) Write(id uint64, cookie uint32, c *Content, fsync bool) []string {
	n := NewNeedle(id, cookie, c)
	unchanged, err := e.Store.WriteVolumeNeedle(Vid, n, fsync)
	return []string{errClass(err), hx.B(unchanged)}
}

// Delete = Store.DeleteVolumeNeedle (no cookie check at this level). outs: <ok|ro|err> <size>
func (e *Env) Delete(id uint64, cookie uint32) []string {
	n := NewNeedle(id, cookie, nil)
	size, err := e.Store.DeleteVolumeNeedle(Vid, n)
	return []string{errClass(err), hx.I(int64(size))}
}

func ContentOuts(n *needle.Needle) []string {
	tc, tu := byte(0), byte(0)
	if n.Ttl != nil {
		tc, tu = n.Ttl.Count, n.Ttl.Unit
	}
	return []string{hx.U(uint64(n.Cookie)), hx.Hex(n.Data), hx.I(int64(n.Flags)), hx.Hex(n.Name), hx.Hex(n.Mime), hx.Hex(n.Pairs),
		hx.U(n.LastModified), hx.I(int64(tc)), hx.I(int64(tu))}
}

// Read = Store.ReadVolumeNeedle with the request cookie preset in the needle (as the handlers do).
// outs: <ok|notfound|deleted|err> <count> [<cookie> <data> <flags> <name> <mime> <pairs> <lm> <ttlc> <ttlu>]
func (e *Env) Read(id uint64, cookie uint32) []string {
	n := NewNeedle(id, cookie, nil)
	count, err := e.Store.ReadVolumeNeedle(Vid, n, nil)
	outs := []string{errClass(err), hx.I(int64(count))}
	if err == nil {
		outs = append(outs, ContentOuts(n)...)
	}
	return outs
}

func (e *Env) SetRO(on bool) []string {
	var err error
	if on {
		err = e.Store.MarkVolumeReadonly(Vid)
	} else {
		err = e.Store.MarkVolumeWritable(Vid)
	}
	return []string{errClass(err)}
}

func fidPath(id uint64, cookie uint32) string {
	return "/" + strconv.Itoa(int(Vid)) + "," + needle.NewFileId(Vid, id, cookie).String()[len(strconv.Itoa(int(Vid)))+1:]
}

// HRead = the real GetOrHeadHandler on GET /<vid>,<fid>. outs: <status> <body>
func (e *Env) HRead(id uint64, cookie uint32) []string {
	r := httptest.NewRequest("GET", fidPath(id, cookie), nil)
	w := httptest.NewRecorder()
	e.VS.GetOrHeadHandler(w, r)
	res := w.Result()
	body, _ := io.ReadAll(res.Body)
	if res.StatusCode != 200 {
		body = nil
	}
	return []string{strconv.Itoa(res.StatusCode), hx.Hex(body)}
}

// HDelete = the real DeleteHandler on DELETE /<vid>,<fid>?type=replicate (no replica fan-out). outs: <status> <size>
func (e *Env) HDelete(id uint64, cookie uint32) []string {
	r := httptest.NewRequest("DELETE", fidPath(id, cookie)+"?type=replicate", nil)
	w := httptest.NewRecorder()
	e.VS.DeleteHandler(w, r)
	res := w.Result()
	body, _ := io.ReadAll(res.Body)
	size := "-"
	s := string(body)
	if i := strings.Index(s, "\"size\":"); i >= 0 {
		j := i + len("\"size\":")
		k := j
		for k < len(s) && (s[k] == '-' || (s[k] >= '0' && s[k] <= '9')) {
			k++
		}
		size = s[j:k]
	}
	return []string{strconv.Itoa(res.StatusCode), size}
}

// ---- trace encoding of a write's arguments -------------------------------------------

func ContentArgs(c *Content) []string {
	return []string{hx.Hex(c.Data), hx.I(int64(c.Flags)), hx.Hex(c.Name), hx.Hex(c.Mime), hx.Hex(c.Pairs), hx.U(c.Lm), hx.I(int64(c.TtlC)), hx.I(int64(c.TtlU))}
}

func ParseContent(a []string) *Content {
	u := func(s string) uint64 { v, _ := strconv.ParseUint(s, 10, 64); return v }
	return &Content{Data: hx.UnHex(a[0]), Flags: byte(u(a[1])), Name: hx.UnHex(a[2]), Mime: hx.UnHex(a[3]), Pairs: hx.UnHex(a[4]),
		Lm: u(a[5]), TtlC: byte(u(a[6])), TtlU: byte(u(a[7]))}
}
