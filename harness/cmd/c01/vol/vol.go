// Package vol: a real storage.Store with one volume in a temp dir, driven through the
// exported Store API (and, for hr/hd, through the real HTTP handlers of the volume
// server). Shared by the C01 (sequential histories) and C38 (concurrent histories) harnesses.
package vol

import (
	"errors"
	"fmt"
	"io"
	"net/http/httptest"
	"os"
	"path/filepath"
	"strconv"
	"strings"
	"sync"
	"time"

	weed_server "github.com/chrislusf/seaweedfs/weed/server"
	"github.com/chrislusf/seaweedfs/weed/storage"
	"github.com/chrislusf/seaweedfs/weed/storage/backend"
	"github.com/chrislusf/seaweedfs/weed/storage/needle"
	"github.com/chrislusf/seaweedfs/weed/storage/types"
	"github.com/chrislusf/seaweedfs/weed/util"

	"verifharness/hx"
)

const Vid = needle.VolumeId(1)

// Content is what a write supplies and a read returns (all byte strings raw).
type Content struct {
	Data, Name, Mime, Pairs []byte
	Flags                   byte
	Lm                      uint64
	TtlC, TtlU              byte
}

type Env struct {
	Dir   string
	Kind  string // mem | ldb | sorted (sorted = reopened read-only)
	Ttl   string
	Store *storage.Store
	VS    *weed_server.VolumeServer
}

func kindOf(k string) storage.NeedleMapKind {
	if k == "ldb" {
		return storage.NeedleMapLevelDb
	}
	return storage.NeedleMapInMemory
}

func (e *Env) open(kind string) {
	e.Store = storage.NewStore(nil, 8080, "127.0.0.1", "127.0.0.1:8080", []string{e.Dir}, []int{4},
		[]util.MinFreeSpace{{}}, "", kindOf(kind), []types.DiskType{types.HardDriveType})
	e.VS = weed_server.NewVolumeServerVerifC01(e.Store)
}

// Reset closes the previous store and starts an empty volume 1 of the given needle-map kind.
func (e *Env) Reset(kind, ttl string) error {
	e.Close()
	dir, err := os.MkdirTemp("", "c01-")
	if err != nil {
		return err
	}
	e.Dir, e.Kind, e.Ttl = dir, kind, ttl
	e.open(kind)
	return e.Store.AddVolume(Vid, "", kindOf(kind), "000", ttl, 0, 0, types.HardDriveType)
}

// ReopenSorted closes the store, makes the .dat file read-only and loads it again: the
// volume then comes up with noWriteOrDelete and the sorted-file needle map.
func (e *Env) ReopenSorted() error {
	e.Store.Close()
	dats, _ := filepath.Glob(filepath.Join(e.Dir, "*.dat"))
	for _, d := range dats {
		os.Chmod(d, 0444)
	}
	e.Kind = "sorted"
	e.open("mem")
	if e.Store.GetVolume(Vid) == nil {
		return fmt.Errorf("volume not loaded")
	}
	return nil
}

// Reload closes the store and opens the same directory again with the same needle-map kind
// (a volume-server restart): the in-memory map is rebuilt from the .idx log, LevelDB keeps its
// database. For LevelDB the .idx mtime is first moved 2 s into the past: isLevelDbFresh compares
// file mtimes (coarse kernel clock), and a tie would make the restart regenerate the database
// from the .idx on some runs and not on others; with the .idx older the normal (fresh) path is
// taken deterministically. A volume reopened as sorted stays sorted (.dat is still 0444).
func (e *Env) Reload() error {
	e.Store.Close()
	kind := e.Kind
	if kind == "sorted" {
		kind = "mem"
	}
	if kind == "ldb" {
		idxs, _ := filepath.Glob(filepath.Join(e.Dir, "*.idx"))
		past := time.Now().Add(-2 * time.Second)
		for _, f := range idxs {
			os.Chtimes(f, past, past)
		}
	}
	e.open(kind)
	if e.Store.GetVolume(Vid) == nil {
		return fmt.Errorf("volume not loaded")
	}
	return nil
}

// Stopping = Store.SetStopping(): from then on WriteVolumeNeedle(fsync=true) goes through the
// batched worker (asyncRequestsChan) instead of syncWrite.
func (e *Env) Stopping() { e.Store.SetStopping() }

func (e *Env) Close() {
	if e.Store != nil {
		e.Store.Close()
		e.Store = nil
	}
	if e.Dir != "" {
		os.RemoveAll(e.Dir)
		e.Dir = ""
	}
}

// NewNeedle builds the needle the way needle.CreateNeedleFromRequest does (sizes, checksum, ttl pointer).
func NewNeedle(id uint64, cookie uint32, c *Content) *needle.Needle {
	n := new(needle.Needle)
	n.Id = types.NeedleId(id)
	n.Cookie = types.Cookie(cookie)
	if c == nil {
		return n
	}
	n.Data = c.Data
	n.Flags = c.Flags
	n.Name = c.Name
	n.Mime = c.Mime
	n.Pairs = c.Pairs
	n.PairsSize = uint16(len(c.Pairs))
	n.LastModified = c.Lm
	if c.TtlC == 0 && c.TtlU == 0 {
		n.Ttl = needle.EMPTY_TTL
	} else {
		n.Ttl = &needle.TTL{Count: c.TtlC, Unit: c.TtlU}
	}
	n.Checksum = needle.NewCRC(n.Data)
	return n
}

func errClass(err error) string {
	if err == nil {
		return "ok"
	}
	s := err.Error()
	switch {
	case err == storage.ErrorNotFound:
		return "notfound"
	case err == storage.ErrorDeleted:
		return "deleted"
	case strings.Contains(s, "is read only"):
		return "ro"
	case strings.Contains(s, "mismatching cookie"):
		return "cookie"
	}
	return "err"
}

// Write = Store.WriteVolumeNeedle. outs: <ok|ro|cookie|err> <unchanged>
func (e *Env) Write(id uint64, cookie uint32, c *Content, fsync bool) []string {
	n := NewNeedle(id, cookie, c)
	unchanged, err := e.Store.WriteVolumeNeedle(Vid, n, fsync)
	return []string{errClass(err), hx.B(unchanged)}
}

// Delete = Store.DeleteVolumeNeedle (no cookie check at this level). outs: <ok|ro|err> <size>
func (e *Env) Delete(id uint64, cookie uint32) []string {
	n := NewNeedle(id, cookie, nil)
	size, err := e.Store.DeleteVolumeNeedle(Vid, n)
	return []string{errClass(err), hx.I(int64(size))}
}

func ContentOuts(n *needle.Needle) []string {
	tc, tu := byte(0), byte(0)
	if n.Ttl != nil {
		tc, tu = n.Ttl.Count, n.Ttl.Unit
	}
	return []string{hx.U(uint64(n.Cookie)), hx.Hex(n.Data), hx.I(int64(n.Flags)), hx.Hex(n.Name), hx.Hex(n.Mime), hx.Hex(n.Pairs),
		hx.U(n.LastModified), hx.I(int64(tc)), hx.I(int64(tu))}
}

// Read = Store.ReadVolumeNeedle with the request cookie preset in the needle (as the handlers do).
// outs: <ok|notfound|deleted|err> <count> [<cookie> <data> <flags> <name> <mime> <pairs> <lm> <ttlc> <ttlu>]
func (e *Env) Read(id uint64, cookie uint32) []string {
	n := NewNeedle(id, cookie, nil)
	count, err := e.Store.ReadVolumeNeedle(Vid, n, nil)
	outs := []string{errClass(err), hx.I(int64(count))}
	if err == nil {
		outs = append(outs, ContentOuts(n)...)
	}
	return outs
}

func (e *Env) SetRO(on bool) []string {
	var err error
	if on {
		err = e.Store.MarkVolumeReadonly(Vid)
	} else {
		err = e.Store.MarkVolumeWritable(Vid)
	}
	return []string{errClass(err)}
}

func fidPath(id uint64, cookie uint32) string {
	return "/" + strconv.Itoa(int(Vid)) + "," + needle.NewFileId(Vid, id, cookie).String()[len(strconv.Itoa(int(Vid)))+1:]
}

// HRead = the real GetOrHeadHandler on GET /<vid>,<fid>. outs: <status> <body>
func (e *Env) HRead(id uint64, cookie uint32) []string {
	r := httptest.NewRequest("GET", fidPath(id, cookie), nil)
	w := httptest.NewRecorder()
	e.VS.GetOrHeadHandler(w, r)
	res := w.Result()
	body, _ := io.ReadAll(res.Body)
	if res.StatusCode != 200 {
		body = nil
	}
	return []string{strconv.Itoa(res.StatusCode), hx.Hex(body)}
}

// HDelete = the real DeleteHandler on DELETE /<vid>,<fid>?type=replicate (no replica fan-out). outs: <status> <size>
func (e *Env) HDelete(id uint64, cookie uint32) []string {
	r := httptest.NewRequest("DELETE", fidPath(id, cookie)+"?type=replicate", nil)
	w := httptest.NewRecorder()
	e.VS.DeleteHandler(w, r)
	res := w.Result()
	body, _ := io.ReadAll(res.Body)
	size := "-"
	s := string(body)
	if i := strings.Index(s, "\"size\":"); i >= 0 {
		j := i + len("\"size\":")
		k := j
		for k < len(s) && (s[k] == '-' || (s[k] >= '0' && s[k] <= '9')) {
			k++
		}
		size = s[j:k]
	}
	return []string{strconv.Itoa(res.StatusCode), size}
}

// ---- trace encoding of a write's arguments -------------------------------------------

func ContentArgs(c *Content) []string {
	return []string{hx.Hex(c.Data), hx.I(int64(c.Flags)), hx.Hex(c.Name), hx.Hex(c.Mime), hx.Hex(c.Pairs), hx.U(c.Lm), hx.I(int64(c.TtlC)), hx.I(int64(c.TtlU))}
}

func ParseContent(a []string) *Content {
	u := func(s string) uint64 { v, _ := strconv.ParseUint(s, 10, 64); return v }
	return &Content{Data: hx.UnHex(a[0]), Flags: byte(u(a[1])), Name: hx.UnHex(a[2]), Mime: hx.UnHex(a[3]), Pairs: hx.UnHex(a[4]),
		Lm: u(a[5]), TtlC: byte(u(a[6])), TtlU: byte(u(a[7]))}
}

// ---- CRC-32C collision twins ---------------------------------------------------------

func crcOf(b []byte) uint32 { return uint32(needle.NewCRC(b)) }

// Twin returns m' != m with len(m') == len(m) and the same needle checksum (CRC-32C), or nil
// if len(m) < 5. CRC is affine over GF(2): flip bits given by `flip` (never all zero) in the
// first len-4 bytes, then solve the 32x32 linear system for the last 4 bytes that cancels the
// checksum difference. The result is verified with the real needle.NewCRC.
func Twin(m []byte, flip []byte) []byte {
	n := len(m)
	if n < 5 {
		return nil
	}
	p := append([]byte(nil), m...)
	changed := false
	for i := 0; i < n-4; i++ {
		if i < len(flip) {
			p[i] ^= flip[i]
			changed = changed || flip[i] != 0
		}
	}
	if !changed {
		p[0] ^= 1
	}
	base := crcOf(p)
	target := base ^ crcOf(m)
	// effect of toggling bit k of the 4-byte tail
	var rows [32]uint32 // rows[k] = effect vector
	for k := 0; k < 32; k++ {
		q := append([]byte(nil), p...)
		q[n-4+k/8] ^= 1 << uint(k%8)
		rows[k] = crcOf(q) ^ base
	}
	// Gaussian elimination: find x with XOR_{k in x} rows[k] = target
	var basis [32]uint32 // basis[b] has leading bit b
	var combo [32]uint32 // which tail bits produce basis[b]
	for k := 0; k < 32; k++ {
		v, c := rows[k], uint32(1)<<uint(k)
		for b := 31; b >= 0 && v != 0; b-- {
			if v>>uint(b)&1 == 0 {
				continue
			}
			if basis[b] == 0 {
				basis[b], combo[b] = v, c
				v = 0
				break
			}
			v ^= basis[b]
			c ^= combo[b]
		}
	}
	x := uint32(0)
	t := target
	for b := 31; b >= 0; b-- {
		if t>>uint(b)&1 == 1 {
			if basis[b] == 0 {
				return nil
			}
			t ^= basis[b]
			x ^= combo[b]
		}
	}
	for k := 0; k < 32; k++ {
		if x>>uint(k)&1 == 1 {
			p[n-4+k/8] ^= 1 << uint(k%8)
		}
	}
	if crcOf(p) != crcOf(m) || string(p) == string(m) {
		return nil
	}
	return p
}

// ---- fault injection: a DataBackend whose first Sync blocks, then fails ----------------

type syncFaultBackend struct {
	backend.BackendStorageFile
	once    sync.Once
	Entered chan struct{} // closed when the first Sync has been entered
	Release chan struct{} // close it to let that Sync return its error
}

func (b *syncFaultBackend) Sync() error {
	first := false
	b.once.Do(func() { first = true })
	if !first {
		return b.BackendStorageFile.Sync()
	}
	close(b.Entered)
	<-b.Release
	return errors.New("input/output error")
}

// InjectSyncFault wraps the volume's data file (Volume.DataBackend is an exported field): the
// next fsync — the one the batched worker issues after appending a batch — blocks until
// release() is called and then fails, which makes the worker roll the batch back.
func (e *Env) InjectSyncFault() (entered <-chan struct{}, release func()) {
	v := e.Store.GetVolume(Vid)
	fb := &syncFaultBackend{BackendStorageFile: v.DataBackend, Entered: make(chan struct{}), Release: make(chan struct{})}
	v.DataBackend = fb
	return fb.Entered, func() { close(fb.Release) }
}
