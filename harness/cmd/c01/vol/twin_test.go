package vol

import (
	"encoding/hex"
	"testing"
)

func TestTwin(t *testing.T) {
	for _, s := range []string{"hello", "alpha-beta-gamma", "0123456789abcdefghijklmn"} {
		tw := Twin([]byte(s), []byte{0x5a, 0, 3})
		if tw == nil {
			t.Fatalf("no twin for %q", s)
		}
		t.Logf("%s %s crc %08x", hex.EncodeToString([]byte(s)), hex.EncodeToString(tw), crcOf(tw))
	}
}
