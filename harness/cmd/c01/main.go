// c01: correspondence harness for C01 (volume blob store). Runs histories of
// write/delete/read/set-readonly (Store API) and GET/DELETE (real HTTP handlers) on a real
// storage.Store in a temp dir, for the in-memory and the LevelDB needle maps, and after a
// read-only reopen for the sorted-file needle map. One trace line per operation.
package main

import (
	"flag"
	"fmt"
	"os"
	"strconv"

	"verifharness/cmd/c01/vol"
	"verifharness/hx"
)

var tr *hx.Trace

type line struct {
	op         string
	args, outs []string
}

// runner: one real Store + the trace lines it produced (tasks run in parallel, each on
// its own store; their segments are written to the trace in task order).
type runner struct {
	env   *vol.Env
	lines []line
}

func u64(s string) uint64 { v, _ := strconv.ParseUint(s, 10, 64); return v }

// exec runs one op line (op + args) on the real code and writes the trace line.
func (x *runner) exec(f []string) {
	env := x.env
	op, a := f[0], f[1:]
	outs := hx.Guard(func() []string {
		switch op {
		case "reset":
			ttl := a[1]
			if ttl == "-" {
				ttl = ""
			}
			if err := env.Reset(a[0], ttl); err != nil {
				return []string{"err"}
			}
			return []string{"ok"}
		case "w":
			return env.Write(u64(a[0]), uint32(u64(a[1])), vol.ParseContent(a[2:10]), false)
		case "wf":
			return env.Write(u64(a[0]), uint32(u64(a[1])), vol.ParseContent(a[2:10]), true)
		case "stop":
			env.Stopping()
			return []string{"ok"}
		case "d":
			return env.Delete(u64(a[0]), uint32(u64(a[1])))
		case "r":
			return env.Read(u64(a[0]), uint32(u64(a[1])))
		case "ro":
			return env.SetRO(a[0] == "1")
		case "hr":
			return env.HRead(u64(a[0]), uint32(u64(a[1])))
		case "hd":
			return env.HDelete(u64(a[0]), uint32(u64(a[1])))
		case "reload":
			if err := env.Reload(); err != nil {
				return []string{"err"}
			}
			return []string{"ok"}
		case "sorted":
			if err := env.ReopenSorted(); err != nil {
				return []string{"err"}
			}
			return []string{"ok"}
		}
		return []string{"unknown-op"}
	})
	x.lines = append(x.lines, line{op, a, outs})
}

func (x *runner) w(id uint64, ck uint32, c *vol.Content) {
	x.exec(append([]string{"w", hx.U(id), hx.U(uint64(ck))}, vol.ContentArgs(c)...))
}
func (x *runner) op2(op string, id uint64, ck uint32) { x.exec([]string{op, hx.U(id), hx.U(uint64(ck))}) }

// ---- generators -------------------------------------------------------------------

var cookies = []uint32{0x11111111, 0x2222}

func plain(data string) *vol.Content { return &vol.Content{Data: []byte(data)} }

// one symbol of the bounded-exhaustive alphabet, applied to ids base+1 / base+2
type sym struct {
	op     string
	id, ck int
	c      *vol.Content
}

// second payload of the exhaustive alphabet: a CRC-32C collision twin of the first one (same
// length, same needle checksum, other bytes) — so "write alpha; write twin" on one id/cookie,
// the case in which isFileUnchanged must still compare the bytes, is covered exhaustively
var twinOfAlpha = vol.Twin([]byte("alpha"), []byte{3})

func alphabetA() []sym {
	if twinOfAlpha == nil {
		panic("no CRC twin")
	}
	var al []sym
	for id := 1; id <= 2; id++ {
		for ck := 0; ck < 2; ck++ {
			al = append(al, sym{"w", id, ck, plain("alpha")}, sym{"w", id, ck, &vol.Content{Data: twinOfAlpha, Flags: 2, Name: []byte("b.txt")}},
				sym{"w", id, ck, plain("")}, sym{"d", id, ck, nil}, sym{"r", id, ck, nil})
		}
	}
	return append(al, sym{"ro", 1, 0, nil}, sym{"ro", 0, 0, nil})
}

// HTTP family: one id, two cookies, the real handlers
func alphabetB() []sym {
	var al []sym
	for ck := 0; ck < 2; ck++ {
		al = append(al, sym{"w", 1, ck, plain("alpha")}, sym{"w", 1, ck, plain("")}, sym{"hr", 1, ck, nil}, sym{"hd", 1, ck, nil})
	}
	return append(al, sym{"d", 1, 0, nil}, sym{"ro", 1, 0, nil}, sym{"ro", 0, 0, nil})
}

func (x *runner) runSym(base uint64, s sym) {
	switch s.op {
	case "w":
		x.w(base+uint64(s.id), cookies[s.ck], s.c)
	case "ro":
		x.exec([]string{"ro", strconv.Itoa(s.id)})
	default:
		x.op2(s.op, base+uint64(s.id), cookies[s.ck])
	}
}


// histories on fresh ids of one store; a new store every `per` histories
type histState struct {
	x     *runner
	kind  string
	count int
	base  uint64
}

const perStore = 250

func (h *histState) run(al []sym, word []int) {
	x := h.x
	if h.count%perStore == 0 {
		x.exec([]string{"reset", h.kind, "-"})
		h.base = 0
	}
	h.count++
	h.base += 2
	touchedRo := false
	for _, k := range word {
		x.runSym(h.base, al[k])
		if al[k].op == "ro" {
			touchedRo = true
		}
	}
	// final sweep: what the volume now serves
	x.op2("r", h.base+1, cookies[0])
	x.op2("r", h.base+2, cookies[0])
	if touchedRo {
		x.exec([]string{"ro", "0"})
	}
}

// all words of the given length that start with `first`
func exhaustive(x *runner, kind string, al []sym, length, first int) {
	h := &histState{x: x, kind: kind}
	word := make([]int, length)
	word[0] = first
	for {
		h.run(al, word)
		i := length - 1
		for i >= 1 {
			word[i]++
			if word[i] < len(al) {
				break
			}
			word[i] = 0
			i--
		}
		if i < 1 {
			return
		}
	}
}

func sampled(x *runner, rng *hx.Rng, kind string, al []sym, length, n int) {
	h := &histState{x: x, kind: kind}
	word := make([]int, length)
	for i := 0; i < n; i++ {
		for j := range word {
			word[j] = rng.Intn(len(al))
		}
		h.run(al, word)
	}
}

var mimes = []string{"", "text/plain", "application/octet-stream", "image/jpeg"}

func randContent(rng *hx.Rng, prev []*vol.Content, http bool) *vol.Content {
	c := &vol.Content{}
	switch {
	case len(prev) > 0 && rng.Chance(1, 6):
		// same length, same CRC-32C, different bytes than an earlier payload of this id
		old := prev[rng.Intn(len(prev))].Data
		if tw := vol.Twin(old, rng.Bytes(1+rng.Intn(3))); tw != nil {
			c.Data = tw
		} else {
			c.Data = old
		}
	case len(prev) > 0 && rng.Chance(2, 5):
		c.Data = prev[rng.Intn(len(prev))].Data
	case rng.Chance(1, 5):
		c.Data = nil
	case rng.Chance(1, 20):
		c.Data = rng.Bytes(1 + rng.Intn(4096))
	default:
		c.Data = rng.Bytes(1 + rng.Intn(48))
	}
	if len(prev) > 0 && rng.Chance(1, 4) {
		// identical rewrite (data and metadata)
		p := *prev[rng.Intn(len(prev))]
		return &p
	}
	if rng.Chance(1, 3) {
		return c // no metadata at all
	}
	if rng.Bool() {
		c.Flags |= 2
		n := rng.Intn(12)
		if rng.Chance(1, 30) {
			n = 255
		}
		c.Name = rng.Bytes(n)
	}
	if rng.Bool() {
		c.Flags |= 4
		c.Mime = []byte(rng.Pick(mimes))
	}
	if rng.Bool() {
		c.Flags |= 8
		c.Lm = rng.U64() % (1 << 40)
	}
	if rng.Chance(1, 4) {
		c.Flags |= 0x10
		c.TtlC, c.TtlU = byte(1+rng.Intn(255)), byte(2+rng.Intn(5))
	}
	if rng.Chance(1, 3) {
		c.Flags |= 0x20
		c.Pairs = []byte(fmt.Sprintf("{\"K%d\":\"v%d\"}", rng.Intn(5), rng.Intn(100)))
	}
	if !http && rng.Chance(1, 6) {
		c.Flags |= 1 // "compressed" marker on arbitrary bytes (the store does not interpret it)
	}
	return c
}


func randomHistory(x *runner, rng *hx.Rng, kind, ttl string, nops int, http bool) {
	x.exec([]string{"reset", kind, ttl})
	batched := rng.Chance(1, 3)
	if batched {
		x.exec([]string{"stop"}) // fsync writes now take the batched worker path
	}
	nid := 2 + rng.Intn(5)
	ids := make([]uint64, nid)
	for i := range ids {
		switch rng.Intn(3) {
		case 0:
			ids[i] = 1 + uint64(rng.Intn(50))
		case 1:
			ids[i] = 1 + rng.U64()%1000000
		default:
			ids[i] = 1 + rng.U64()%(1<<62)
		}
	}
	cks := []uint32{uint32(rng.U64()), uint32(rng.U64()), 0}
	nck := 1 + rng.Intn(3)
	prev := map[uint64][]*vol.Content{}
	for k := 0; k < nops; k++ {
		id := ids[rng.Intn(nid)]
		ck := cks[rng.Intn(nck)]
		r := rng.Intn(100)
		switch {
		case r < 42:
			c := randContent(rng, prev[id], http)
			prev[id] = append(prev[id], c)
			if batched && rng.Chance(2, 3) {
				x.exec(append([]string{"wf", hx.U(id), hx.U(uint64(ck))}, vol.ContentArgs(c)...))
			} else {
				x.w(id, ck, c)
			}
		case r < 62:
			x.op2("r", id, ck)
		case r < 72:
			if http {
				x.op2("hr", id, ck)
			} else {
				x.op2("r", id, ck)
			}
		case r < 84:
			x.op2("d", id, ck)
		case r < 92:
			if http {
				x.op2("hd", id, ck)
			} else {
				x.op2("d", id, ck)
			}
		case r < 96:
			x.exec([]string{"ro", "1"})
		default:
			x.exec([]string{"ro", "0"})
		}
	}
	x.exec([]string{"ro", "0"})
	for _, id := range ids {
		x.op2("r", id, cks[0])
	}
}

// sortedHistory: writes/deletes on a writable volume, then reopen read-only (sorted-file
// needle map) and read everything; writes and deletes are rejected there.
func sortedHistory(x *runner, rng *hx.Rng, nops int) {
	x.exec([]string{"reset", "mem", "-"})
	nid := 2 + rng.Intn(5)
	ids := make([]uint64, nid)
	for i := range ids {
		ids[i] = 1 + rng.U64()%1000
	}
	ck := uint32(rng.U64())
	for k := 0; k < nops; k++ {
		id := ids[rng.Intn(nid)]
		if rng.Chance(3, 4) {
			x.w(id, ck, randContent(rng, nil, false))
		} else {
			x.op2("d", id, ck)
		}
	}
	x.exec([]string{"sorted"})
	for _, id := range ids {
		x.op2("r", id, ck)
		x.op2("hr", id, ck+1)
	}
	x.w(ids[0], ck, plain("late"))
	x.op2("d", ids[0], ck)
	x.op2("hd", ids[0], ck)
	for _, id := range ids {
		x.op2("r", id, ck)
	}
}

// lateKey: a volume with > 128 keys written in ascending order, then file ids far below the
// largest one arrive late (the in-memory CompactMap keeps a key that is inserted more than 128
// positions below its section's last key in the section's OVERFLOW area, with its own
// set/get/delete code). For each late id: write, read, delete, read (must be gone), write again
// over the deleted entry, read; a few are left deleted. Then a restart (Store close + reopen,
// the index is rebuilt from the .idx log) and everything is read again. Tiny payloads.
func lateKey(x *runner, rng *hx.Rng, kind string, base uint64) {
	x.exec([]string{"reset", kind, "-"})
	ck := uint32(rng.U64())
	n := 300 + rng.Intn(60)
	step := uint64(2 + rng.Intn(3))
	for i := 1; i <= n; i++ {
		x.w(base+uint64(i)*step, ck, plain(string(rune('a'+i%26))))
	}
	max := base + uint64(n)*step
	var late []uint64
	seen := map[uint64]bool{}
	for len(late) < 5 {
		// not a multiple of step => a new key; at least 140 keys above it
		id := base + uint64(1+rng.Intn(n-150))*step + 1 + uint64(rng.Intn(int(step)-1))
		if !seen[id] {
			seen[id] = true
			late = append(late, id)
		}
	}
	for j, id := range late {
		x.w(id, ck, plain(fmt.Sprintf("late-%d", j)))
		x.op2("r", id, ck)
		if j == 3 {
			x.op2("hd", id, ck)
		} else {
			x.op2("d", id, ck)
		}
		x.op2("r", id, ck)
		if j == 3 {
			x.op2("hr", id, ck)
		}
		if j%2 == 0 {
			x.w(id, ck, plain(fmt.Sprintf("again-%d", j)))
			x.op2("r", id, ck)
		}
		if j == 2 {
			x.op2("d", id, ck) // deleted for the second time
			x.op2("r", id, ck)
		}
	}
	// controls: an in-order key and a key that is only slightly out of order
	x.w(max+step, ck, plain("tail"))
	x.w(max-1, ck, plain("near"))
	x.op2("d", max-1, ck)
	x.op2("r", max-1, ck)
	x.exec([]string{"reload"})
	for _, id := range late {
		x.op2("r", id, ck)
		x.op2("hr", id, ck)
	}
	x.op2("r", max-1, ck)
	x.op2("r", max+step, ck)
	x.op2("r", base+step, ck)
	// the restarted volume keeps working on the late ids
	x.op2("d", late[0], ck)
	x.op2("r", late[0], ck)
	x.w(late[1], ck, plain("after-restart"))
	x.op2("r", late[1], ck)
	x.exec([]string{"reload"})
	x.op2("r", late[0], ck)
	x.op2("r", late[1], ck)
}

type task func(x *runner, rng *hx.Rng)

func main() {
	a := hx.ParseArgs()
	flag.Set("alsologtostderr", "false") // glog: files under TMPDIR only
	tr = hx.NewTrace(a.Out)
	defer tr.Close()
	if a.Ops != "" {
		x := &runner{env: &vol.Env{}}
		for _, f := range hx.ReadOps(a.Ops) {
			x.exec(f)
		}
		x.env.Close()
		for _, l := range x.lines {
			tr.Op(l.op, l.args, l.outs)
		}
		return
	}
	var tasks []task
	length := 3
	if a.Thorough() {
		length = 4
	}
	alA, alB := alphabetA(), alphabetB()
	for _, kind := range []string{"mem", "ldb"} {
		kind := kind
		for f := range alA {
			f := f
			tasks = append(tasks, func(x *runner, rng *hx.Rng) { exhaustive(x, kind, alA, length, f) })
		}
		for f := range alB {
			f := f
			tasks = append(tasks, func(x *runner, rng *hx.Rng) { exhaustive(x, kind, alB, length, f) })
		}
		for i := 0; i < 4; i++ {
			tasks = append(tasks, func(x *runner, rng *hx.Rng) {
				sampled(x, rng, kind, alA, 4, a.N(120))
				sampled(x, rng, kind, alA, 6, a.N(60))
				sampled(x, rng, kind, alB, 6, a.N(60))
			})
		}
	}
	for i := 0; i < a.N(40); i++ {
		i := i
		tasks = append(tasks, func(x *runner, rng *hx.Rng) {
			kind := "mem"
			if i%2 == 1 {
				kind = "ldb"
			}
			ttl := "-"
			if i%5 == 4 {
				ttl = "3h"
			}
			randomHistory(x, rng, kind, ttl, 50+rng.Intn(351), i%3 != 0)
		})
	}
	for i := 0; i < a.N(6); i++ {
		i := i
		tasks = append(tasks, func(x *runner, rng *hx.Rng) {
			kind := "mem"
			if i%3 == 2 {
				kind = "ldb" // control: no overflow area there
			}
			lateKey(x, rng, kind, uint64(i%2)*99990) // odd: across a 100000-key section boundary
		})
	}
	for i := 0; i < a.N(10); i++ {
		tasks = append(tasks, func(x *runner, rng *hx.Rng) { sortedHistory(x, rng, 10+rng.Intn(60)) })
	}

	// run tasks on a worker pool; write segments in task order (deterministic per seed)
	results := make([]chan []line, len(tasks))
	for i := range results {
		results[i] = make(chan []line, 1)
	}
	next := make(chan int, len(tasks))
	for i := range tasks {
		next <- i
	}
	close(next)
	workers := 12
	for wk := 0; wk < workers; wk++ {
		go func() {
			for i := range next {
				x := &runner{env: &vol.Env{}}
				tasks[i](x, hx.NewRng(a.Seed*1000003+uint64(i)))
				x.env.Close()
				results[i] <- x.lines
			}
		}()
	}
	for i := range tasks {
		for _, l := range <-results[i] {
			tr.Op(l.op, l.args, l.outs)
		}
	}
	if tr.Lines == 0 {
		fmt.Fprintln(os.Stderr, "no history ran")
		os.Exit(2)
	}
}
