// c01: correspondence harness for C01 (volume blob store). Runs histories of
// write/delete/read/set-readonly (Store API) and GET/DELETE (real HTTP handlers) on a real
// storage.Store in a temp dir, for the in-memory and the LevelDB needle maps, and after a
// read-only reopen for the sorted-file needle map. One trace line per operation.
package main

import (
	"fmt"
	"os"
	"strconv"

	"verifharness/cmd/c01/vol"
	"verifharness/hx"
)

var tr *hx.Trace
var env = &vol.Env{}

func u64(s string) uint64 { v, _ := strconv.ParseUint(s, 10, 64); return v }

// exec runs one op line (op + args) on the real code and writes the trace line.
func exec(f []string) {
	op, a := f[0], f[1:]
	outs := hx.Guard(func() []string {
		switch op {
		case "reset":
			ttl := a[1]
			if ttl == "-" {
				ttl = ""
			}
			if err := env.Reset(a[0], ttl); err != nil {
				return []string{"err"}
			}
			return []string{"ok"}
		case "w":
			return env.Write(u64(a[0]), uint32(u64(a[1])), vol.ParseContent(a[2:10]), false)
		case "d":
			return env.Delete(u64(a[0]), uint32(u64(a[1])))
		case "r":
			return env.Read(u64(a[0]), uint32(u64(a[1])))
		case "ro":
			return env.SetRO(a[0] == "1")
		case "hr":
			return env.HRead(u64(a[0]), uint32(u64(a[1])))
		case "hd":
			return env.HDelete(u64(a[0]), uint32(u64(a[1])))
		case "sorted":
			if err := env.ReopenSorted(); err != nil {
				return []string{"err"}
			}
			return []string{"ok"}
		}
		return []string{"unknown-op"}
	})
	tr.Op(op, a, outs)
}

func w(id uint64, ck uint32, c *vol.Content) {
	exec(append([]string{"w", hx.U(id), hx.U(uint64(ck))}, vol.ContentArgs(c)...))
}
func op2(op string, id uint64, ck uint32) { exec([]string{op, hx.U(id), hx.U(uint64(ck))}) }

// ---- generators -------------------------------------------------------------------

var cookies = []uint32{0x11111111, 0x2222}

func plain(data string) *vol.Content { return &vol.Content{Data: []byte(data)} }

// one symbol of the bounded-exhaustive alphabet, applied to ids base+1 / base+2
type sym struct {
	op     string
	id, ck int
	c      *vol.Content
}

func alphabetA() []sym {
	var al []sym
	for id := 1; id <= 2; id++ {
		for ck := 0; ck < 2; ck++ {
			al = append(al, sym{"w", id, ck, plain("alpha")}, sym{"w", id, ck, &vol.Content{Data: []byte("beta!"), Flags: 2, Name: []byte("b.txt")}},
				sym{"w", id, ck, plain("")}, sym{"d", id, ck, nil}, sym{"r", id, ck, nil})
		}
	}
	return append(al, sym{"ro", 1, 0, nil}, sym{"ro", 0, 0, nil})
}

// HTTP family: one id, two cookies, the real handlers
func alphabetB() []sym {
	var al []sym
	for ck := 0; ck < 2; ck++ {
		al = append(al, sym{"w", 1, ck, plain("alpha")}, sym{"w", 1, ck, plain("")}, sym{"hr", 1, ck, nil}, sym{"hd", 1, ck, nil})
	}
	return append(al, sym{"d", 1, 0, nil}, sym{"ro", 1, 0, nil}, sym{"ro", 0, 0, nil})
}

func runSym(base uint64, s sym) {
	switch s.op {
	case "w":
		w(base+uint64(s.id), cookies[s.ck], s.c)
	case "ro":
		exec([]string{"ro", strconv.Itoa(s.id)})
	default:
		op2(s.op, base+uint64(s.id), cookies[s.ck])
	}
}

type histState struct {
	kind  string
	count int
	base  uint64
}

// runHistory executes one history on fresh ids; a new store every 40 histories.
func (h *histState) run(al []sym, word []int) {
	if h.count%40 == 0 {
		exec([]string{"reset", h.kind, "-"})
		h.base = 0
	}
	h.count++
	h.base += 2
	touchedRo := false
	for _, k := range word {
		runSym(h.base, al[k])
		if al[k].op == "ro" {
			touchedRo = true
		}
	}
	// final sweep: what the volume now serves
	op2("r", h.base+1, cookies[0])
	op2("r", h.base+2, cookies[0])
	if touchedRo {
		exec([]string{"ro", "0"})
	}
}

func exhaustive(kind string, al []sym, length int) {
	h := &histState{kind: kind}
	word := make([]int, length)
	for {
		h.run(al, word)
		i := length - 1
		for i >= 0 {
			word[i]++
			if word[i] < len(al) {
				break
			}
			word[i] = 0
			i--
		}
		if i < 0 {
			return
		}
	}
}

func sampled(rng *hx.Rng, kind string, al []sym, length, n int) {
	h := &histState{kind: kind}
	word := make([]int, length)
	for i := 0; i < n; i++ {
		for j := range word {
			word[j] = rng.Intn(len(al))
		}
		h.run(al, word)
	}
}

var mimes = []string{"", "text/plain", "application/octet-stream", "image/jpeg"}

func randContent(rng *hx.Rng, prev []*vol.Content, http bool) *vol.Content {
	c := &vol.Content{}
	switch {
	case len(prev) > 0 && rng.Chance(2, 5):
		c.Data = prev[rng.Intn(len(prev))].Data
	case rng.Chance(1, 5):
		c.Data = nil
	case rng.Chance(1, 20):
		c.Data = rng.Bytes(1 + rng.Intn(4096))
	default:
		c.Data = rng.Bytes(1 + rng.Intn(48))
	}
	if len(prev) > 0 && rng.Chance(1, 4) {
		// identical rewrite (data and metadata)
		p := *prev[rng.Intn(len(prev))]
		return &p
	}
	if rng.Chance(1, 3) {
		return c // no metadata at all
	}
	if rng.Bool() {
		c.Flags |= 2
		n := rng.Intn(12)
		if rng.Chance(1, 30) {
			n = 255
		}
		c.Name = rng.Bytes(n)
	}
	if rng.Bool() {
		c.Flags |= 4
		c.Mime = []byte(rng.Pick(mimes))
	}
	if rng.Bool() {
		c.Flags |= 8
		c.Lm = rng.U64() % (1 << 40)
	}
	if rng.Chance(1, 4) {
		c.Flags |= 0x10
		c.TtlC, c.TtlU = byte(1+rng.Intn(255)), byte(2+rng.Intn(5))
	}
	if rng.Chance(1, 3) {
		c.Flags |= 0x20
		c.Pairs = []byte(fmt.Sprintf("{\"K%d\":\"v%d\"}", rng.Intn(5), rng.Intn(100)))
	}
	if !http && rng.Chance(1, 6) {
		c.Flags |= 1 // "compressed" marker on arbitrary bytes (the store does not interpret it)
	}
	return c
}

func randomHistory(rng *hx.Rng, kind, ttl string, nops int, http bool) {
	exec([]string{"reset", kind, ttl})
	nid := 2 + rng.Intn(5)
	ids := make([]uint64, nid)
	for i := range ids {
		switch rng.Intn(3) {
		case 0:
			ids[i] = 1 + uint64(rng.Intn(50))
		case 1:
			ids[i] = 1 + rng.U64()%1000000
		default:
			ids[i] = 1 + rng.U64()%(1<<62)
		}
	}
	cks := []uint32{uint32(rng.U64()), uint32(rng.U64()), 0}
	nck := 1 + rng.Intn(3)
	prev := map[uint64][]*vol.Content{}
	for k := 0; k < nops; k++ {
		id := ids[rng.Intn(nid)]
		ck := cks[rng.Intn(nck)]
		x := rng.Intn(100)
		switch {
		case x < 42:
			c := randContent(rng, prev[id], http)
			prev[id] = append(prev[id], c)
			w(id, ck, c)
		case x < 62:
			op2("r", id, ck)
		case x < 72:
			if http {
				op2("hr", id, ck)
			} else {
				op2("r", id, ck)
			}
		case x < 84:
			op2("d", id, ck)
		case x < 92:
			if http {
				op2("hd", id, ck)
			} else {
				op2("d", id, ck)
			}
		case x < 96:
			exec([]string{"ro", "1"})
		default:
			exec([]string{"ro", "0"})
		}
	}
	exec([]string{"ro", "0"})
	for _, id := range ids {
		op2("r", id, cks[0])
	}
}

// sortedHistory: writes/deletes on a writable volume, then reopen read-only (sorted-file
// needle map) and read everything; writes and deletes are rejected there.
func sortedHistory(rng *hx.Rng, nops int) {
	exec([]string{"reset", "mem", "-"})
	nid := 2 + rng.Intn(5)
	ids := make([]uint64, nid)
	for i := range ids {
		ids[i] = 1 + rng.U64()%1000
	}
	ck := uint32(rng.U64())
	for k := 0; k < nops; k++ {
		id := ids[rng.Intn(nid)]
		if rng.Chance(3, 4) {
			w(id, ck, randContent(rng, nil, false))
		} else {
			op2("d", id, ck)
		}
	}
	exec([]string{"sorted"})
	for _, id := range ids {
		op2("r", id, ck)
		op2("hr", id, ck+1)
	}
	w(ids[0], ck, plain("late"))
	op2("d", ids[0], ck)
	op2("hd", ids[0], ck)
	for _, id := range ids {
		op2("r", id, ck)
	}
}

func main() {
	a := hx.ParseArgs()
	tr = hx.NewTrace(a.Out)
	defer func() { env.Close(); tr.Close() }()
	if a.Ops != "" {
		for _, f := range hx.ReadOps(a.Ops) {
			exec(f)
		}
		return
	}
	rng := hx.NewRng(a.Seed)
	length := 3
	if a.Thorough() {
		length = 4
	}
	for _, kind := range []string{"mem", "ldb"} {
		exhaustive(kind, alphabetA(), length)
		exhaustive(kind, alphabetB(), 4)
		if !a.Thorough() {
			sampled(rng, kind, alphabetA(), 4, a.N(1500))
			sampled(rng, kind, alphabetA(), 6, a.N(500))
		} else {
			sampled(rng, kind, alphabetA(), 6, a.N(2000))
			sampled(rng, kind, alphabetB(), 6, a.N(2000))
		}
	}
	nh := a.N(100)
	for i := 0; i < nh; i++ {
		kind := "mem"
		if i%2 == 1 {
			kind = "ldb"
		}
		ttl := "-"
		if i%5 == 4 {
			ttl = "3h"
		}
		randomHistory(rng, kind, ttl, 50+rng.Intn(351), i%3 != 0)
	}
	for i := 0; i < a.N(20); i++ {
		sortedHistory(rng, 10+rng.Intn(60))
	}
	if env.Store == nil {
		fmt.Fprintln(os.Stderr, "no history ran")
	}
}
