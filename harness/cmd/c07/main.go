// c07: correspondence harness for C07 (deleting from an EC volume / sorted index marks exactly
// that needle). Runs the REAL erasure_coding.NewEcVolume / FindNeedleFromEcx /
// DeleteNeedleFromEcx / RebuildEcxFile / WriteIdxFileFromEcIndex and
// storage.NewSortedFileNeedleMap on real files; one trace line per call, file contents as hex.
//
//	config <offsetSize>
//	reset <ecxhex>          => ok|err                      fresh dir, 1.ecx written, NewEcVolume
//	find <key>              => ok <offUnits> <size> | notfound | err
//	del <key>               => ok|err <ecxdiff> <ecjdiff>  DeleteNeedleFromEcx, then both files (as diffTok against the previous contents)
//	reopen                  => ok|err <ecjdiff>            ev.Close(), NewEcVolume on the SAME files (a new session); journal as found
//	idx                     => ok|err <idxhex>             WriteIdxFileFromEcIndex (ecx+ecj as they are)
//	rebuild                 => ok|err <ecxhex> <ecjExists> volume closed, ORIGINAL ecx restored, RebuildEcxFile
//	sreset <idxhex>         => ok|err <sdxhex>             NewSortedFileNeedleMap (generates .sdx)
//	sget <key>              => ok <offUnits> <size> | notfound
//	sdel <key> <offUnits>   => ok|err <sdxdiff> <idxdiff>  SortedFileNeedleMap.Delete, then both files (diffTok)
package main

import (
	"fmt"
	"os"
	"path/filepath"
	"sort"
	"strconv"
	"strings"

	"github.com/chrislusf/seaweedfs/weed/storage"
	"github.com/chrislusf/seaweedfs/weed/storage/erasure_coding"
	"github.com/chrislusf/seaweedfs/weed/storage/needle_map"
	"github.com/chrislusf/seaweedfs/weed/storage/types"

	"verifharness/hx"
)

var tr *hx.Trace
var root string
var caseNo int

type state struct {
	dir  string
	ev   *erasure_coding.EcVolume
	orig []byte
	ecx  []byte // contents as last reported
	ecj  []byte
	sdx  []byte
	idx  []byte
	sm   *storage.SortedFileNeedleMap
	sidx *os.File
}

var st state

func closeAll() {
	if st.ev != nil {
		st.ev.Close()
		st.ev = nil
	}
	if st.sm != nil {
		st.sm.Close()
		st.sm = nil
		st.sidx = nil
	}
	if st.dir != "" {
		os.RemoveAll(st.dir)
		st.dir = ""
	}
}

func newDir() string {
	caseNo++
	d := filepath.Join(root, fmt.Sprintf("c%d", caseNo))
	os.MkdirAll(d, 0755)
	return d
}

func readFile(p string) []byte {
	b, err := os.ReadFile(p)
	if err != nil {
		return nil
	}
	return b
}

// diffTok is the canonical difference of a file against its previous contents:
// "<newlen>@<off>:<hex>,<off>:<hex>..." with one item per maximal run of positions that are new
// or whose byte changed ("<newlen>@-" when there is none).
func diffTok(old, cur []byte) string {
	var sb strings.Builder
	fmt.Fprintf(&sb, "%d@", len(cur))
	n := 0
	i := 0
	for i < len(cur) {
		if i < len(old) && old[i] == cur[i] {
			i++
			continue
		}
		j := i
		for j < len(cur) && (j >= len(old) || old[j] != cur[j]) {
			j++
		}
		if n > 0 {
			sb.WriteByte(',')
		}
		fmt.Fprintf(&sb, "%d:%s", i, hx.Hex(cur[i:j]))
		n++
		i = j
	}
	if n == 0 {
		sb.WriteByte('-')
	}
	return sb.String()
}

func entry(key uint64, offUnits uint64, size int32) []byte {
	return needle_map.ToBytes(types.NeedleId(key), types.ToOffset(int64(offUnits)*types.NeedlePaddingSize), types.Size(size))
}

func opReset(ecx []byte) {
	closeAll()
	st.dir = newDir()
	st.orig = append([]byte(nil), ecx...)
	st.ecx = append([]byte(nil), ecx...)
	st.ecj = nil
	tr.Op("reset", []string{hx.Hex(ecx)}, hx.Guard(func() []string {
		if err := os.WriteFile(filepath.Join(st.dir, "1.ecx"), ecx, 0644); err != nil {
			return []string{"err"}
		}
		ev, err := erasure_coding.NewEcVolume(types.HardDriveType, st.dir, st.dir, "", 1)
		if err != nil {
			return []string{"err"}
		}
		st.ev = ev
		return []string{"ok"}
	}))
}

func findOut(off types.Offset, size types.Size, err error) []string {
	if err == erasure_coding.NotFoundError {
		return []string{"notfound"}
	}
	if err != nil {
		return []string{"err"}
	}
	return []string{"ok", hx.I(off.ToActualOffset() / types.NeedlePaddingSize), hx.I(int64(size))}
}

func opFind(key uint64) {
	tr.Op("find", []string{hx.U(key)}, hx.Guard(func() []string {
		if st.ev == nil {
			return []string{"novolume"}
		}
		return findOut(st.ev.FindNeedleFromEcx(types.NeedleId(key)))
	}))
}

func opDel(key uint64) {
	tr.Op("del", []string{hx.U(key)}, hx.Guard(func() []string {
		if st.ev == nil {
			return []string{"novolume"}
		}
		err := st.ev.DeleteNeedleFromEcx(types.NeedleId(key))
		ecx, ecj := readFile(filepath.Join(st.dir, "1.ecx")), readFile(filepath.Join(st.dir, "1.ecj"))
		out := []string{hx.Err(err), diffTok(st.ecx, ecx), diffTok(st.ecj, ecj)}
		st.ecx, st.ecj = ecx, ecj
		return out
	}))
}

// opReopen ends the session (Close) and starts a new one on the same .ecx/.ecj (NewEcVolume opens
// the existing journal at position 0, without O_APPEND).
func opReopen() {
	tr.Op("reopen", nil, hx.Guard(func() []string {
		if st.dir == "" {
			return []string{"novolume"}
		}
		if st.ev != nil {
			st.ev.Close()
			st.ev = nil
		}
		ev, err := erasure_coding.NewEcVolume(types.HardDriveType, st.dir, st.dir, "", 1)
		if err != nil {
			return []string{"err"}
		}
		st.ev = ev
		ecj := readFile(filepath.Join(st.dir, "1.ecj"))
		out := []string{"ok", diffTok(st.ecj, ecj)}
		st.ecj = ecj
		return out
	}))
}

func opIdx() {
	tr.Op("idx", nil, hx.Guard(func() []string {
		if st.dir == "" {
			return []string{"novolume"}
		}
		err := erasure_coding.WriteIdxFileFromEcIndex(filepath.Join(st.dir, "1"))
		return []string{hx.Err(err), hx.Hex(readFile(filepath.Join(st.dir, "1.idx")))}
	}))
}

func opRebuild() {
	tr.Op("rebuild", nil, hx.Guard(func() []string {
		if st.dir == "" {
			return []string{"novolume"}
		}
		if st.ev != nil {
			st.ev.Close()
			st.ev = nil
		}
		if err := os.WriteFile(filepath.Join(st.dir, "1.ecx"), st.orig, 0644); err != nil {
			return []string{"err"}
		}
		err := erasure_coding.RebuildEcxFile(filepath.Join(st.dir, "1"))
		_, serr := os.Stat(filepath.Join(st.dir, "1.ecj"))
		return []string{hx.Err(err), hx.Hex(readFile(filepath.Join(st.dir, "1.ecx"))), hx.B(serr == nil)}
	}))
}

func opSReset(idx []byte) {
	closeAll()
	st.dir = newDir()
	tr.Op("sreset", []string{hx.Hex(idx)}, hx.Guard(func() []string {
		base := filepath.Join(st.dir, "2")
		if err := os.WriteFile(base+".idx", idx, 0644); err != nil {
			return []string{"err"}
		}
		f, err := os.OpenFile(base+".idx", os.O_RDWR, 0644)
		if err != nil {
			return []string{"err"}
		}
		sm, err := storage.NewSortedFileNeedleMap(base, f)
		if err != nil {
			f.Close()
			return []string{"err"}
		}
		st.sm, st.sidx = sm, f
		st.sdx, st.idx = readFile(base+".sdx"), append([]byte(nil), idx...)
		return []string{"ok", hx.Hex(st.sdx)}
	}))
}

func opSGet(key uint64) {
	tr.Op("sget", []string{hx.U(key)}, hx.Guard(func() []string {
		if st.sm == nil {
			return []string{"novolume"}
		}
		nv, ok := st.sm.Get(types.NeedleId(key))
		if !ok {
			return []string{"notfound"}
		}
		return []string{"ok", hx.I(nv.Offset.ToActualOffset() / types.NeedlePaddingSize), hx.I(int64(nv.Size))}
	}))
}

func opSDel(key uint64, off uint64) {
	tr.Op("sdel", []string{hx.U(key), hx.U(off)}, hx.Guard(func() []string {
		if st.sm == nil {
			return []string{"novolume"}
		}
		err := st.sm.Delete(types.NeedleId(key), types.ToOffset(int64(off)*types.NeedlePaddingSize))
		base := filepath.Join(st.dir, "2")
		sdx, idx := readFile(base+".sdx"), readFile(base+".idx")
		out := []string{hx.Err(err), diffTok(st.sdx, sdx), diffTok(st.idx, idx)}
		st.sdx, st.idx = sdx, idx
		return out
	}))
}

// ---------------------------------------------------------------- generation

type ent struct {
	key  uint64
	off  uint64
	size int32
}

func maxOff() uint64 {
	if types.OffsetSize == 5 {
		return 1 << 40
	}
	return 1 << 32
}

// genIndex: skew 0 = mixed; 1 = mostly small ids plus a few with the top bit set; 2 = mostly ids
// with the top bit set plus a few small ones (pairs more than 2^63 apart, unevenly distributed)
func genIndex(r *hx.Rng, n int, skew int) []ent {
	seen := map[uint64]bool{}
	var es []ent
	few := 1 + r.Intn(3)
	for len(es) < n {
		var k uint64
		mode := r.Intn(4)
		if skew == 1 {
			mode = 4
			if len(es) < few {
				mode = 5
			}
		} else if skew == 2 {
			mode = 5
			if len(es) < few {
				mode = 4
			}
		}
		switch mode {
		case 4:
			k = uint64(r.Intn(1 << 20))
			if r.Chance(1, 4) {
				k = r.U64() >> 2
			}
		case 5:
			k = 1<<63 | r.U64()>>uint(1+r.Intn(40))
			if r.Chance(1, 4) {
				k = ^uint64(0) - uint64(r.Intn(1000))
			}
		case 0:
			k = uint64(r.Intn(3*n + 3))
		case 1:
			k = uint64(r.Intn(1 << 16))
		case 2:
			k = r.U64() >> uint(r.Intn(64))
		default:
			k = uint64(len(es))*3 + uint64(r.Intn(3))
		}
		if seen[k] {
			continue
		}
		seen[k] = true
		off := 1 + r.U64()%(maxOff()-1)
		if r.Chance(1, 3) {
			off = 1 + uint64(r.Intn(1000))
		}
		var size int32
		switch r.Intn(10) {
		case 0:
			size = -1 // already tombstoned
		case 1:
			size = 0
		case 2:
			size = int32(r.U64()>>33) | 1<<30
		default:
			size = int32(1 + r.Intn(1<<20))
		}
		es = append(es, ent{k, off, size})
	}
	sort.Slice(es, func(i, j int) bool { return es[i].key < es[j].key })
	return es
}

func bytesOf(es []ent) []byte {
	var b []byte
	for _, e := range es {
		b = append(b, entry(e.key, e.off, e.size)...)
	}
	return b
}

func ecCase(r *hx.Rng, n int, skew int) {
	es := genIndex(r, n, skew)
	opReset(bytesOf(es))
	// candidates: every present key and its absent neighbours
	var cands []uint64
	present := map[uint64]bool{}
	for _, e := range es {
		present[e.key] = true
	}
	for _, e := range es {
		cands = append(cands, e.key)
		if e.key > 0 && !present[e.key-1] {
			cands = append(cands, e.key-1)
		}
		if !present[e.key+1] && e.key+1 != 0 {
			cands = append(cands, e.key+1)
		}
	}
	if n == 0 {
		cands = append(cands, 0, 1, 77)
	}
	// shuffle
	for i := len(cands) - 1; i > 0; i-- {
		j := r.Intn(i + 1)
		cands[i], cands[j] = cands[j], cands[i]
	}
	for _, k := range cands {
		opFind(k)
	}
	for i, k := range cands {
		// sessions: close + reopen the volume between deletes
		if (len(cands) >= 3 && (i == len(cands)/3 || i == 2*len(cands)/3)) || r.Chance(1, 25) {
			opReopen()
		}
		opDel(k)
		opFind(k)
		if len(cands) > 1 {
			opFind(cands[(i+1)%len(cands)])
		}
		if r.Chance(1, 8) {
			opDel(k) // delete twice
		}
	}
	for _, e := range es {
		opFind(e.key)
	}
	opIdx()
	opRebuild()
}

func sortedCase(r *hx.Rng, n int) {
	es := genIndex(r, n, r.Intn(3))
	// the .idx given to the sorted-file map holds live entries only, already sorted, so the
	// generated .sdx equals it
	var live []ent
	for _, e := range es {
		if e.size > 0 {
			live = append(live, e)
		}
	}
	opSReset(bytesOf(live))
	for _, e := range live {
		opSGet(e.key)
		opSGet(e.key + 1)
	}
	for i, e := range live {
		if i >= 12 {
			break
		}
		k := live[r.Intn(len(live))].key
		if r.Chance(1, 4) {
			k = e.key + 1
		}
		opSDel(k, 1+uint64(r.Intn(100000)))
		opSGet(k)
	}
}

func generate(a *hx.Args) {
	r := hx.NewRng(a.Seed)
	// small exhaustive-ish sizes first, then random sizes up to 200
	for n := 0; n <= 6; n++ {
		ecCase(r, n, 0)
	}
	for n := 2; n <= 9; n++ {
		ecCase(r, n, 1+n%2)
	}
	cases := a.N(10)
	for i := 0; i < cases; i++ {
		ecCase(r, r.Intn(201), i%3)
	}
	ecCase(r, 200, 0)
	for n := 0; n <= 3; n++ {
		sortedCase(r, n)
	}
	for i := 0; i < a.N(4); i++ {
		sortedCase(r, r.Intn(201))
	}
}

func u(s string) uint64 {
	v, _ := strconv.ParseUint(s, 10, 64)
	return v
}

func replay(path string) {
	for _, f := range hx.ReadOps(path) {
		arg := func(i int) string {
			if i+1 < len(f) {
				return f[i+1]
			}
			return "-"
		}
		switch f[0] {
		case "config":
			// a replay file recorded under the other offset width does not apply to this build
			if arg(0) != "-" && arg(0) != strconv.Itoa(types.OffsetSize) {
				return
			}
		case "reset":
			opReset(hx.UnHex(arg(0)))
		case "find":
			opFind(u(arg(0)))
		case "del":
			opDel(u(arg(0)))
		case "reopen":
			opReopen()
		case "idx":
			opIdx()
		case "rebuild":
			opRebuild()
		case "sreset":
			opSReset(hx.UnHex(arg(0)))
		case "sget":
			opSGet(u(arg(0)))
		case "sdel":
			opSDel(u(arg(0)), u(arg(1)))
		default:
			fmt.Fprintln(os.Stderr, "c07: unknown op", f[0])
		}
	}
}

func main() {
	a := hx.ParseArgs()
	tr = hx.NewTrace(a.Out)
	defer tr.Close()
	var err error
	root, err = os.MkdirTemp("", "c07-")
	if err != nil {
		fmt.Fprintln(os.Stderr, err)
		os.Exit(2)
	}
	defer os.RemoveAll(root)
	tr.Op("config", []string{hx.I(int64(types.OffsetSize))}, nil)
	if a.Ops != "" {
		replay(a.Ops)
	} else {
		generate(a)
	}
	closeAll()
}
