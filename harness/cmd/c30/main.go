// c30: correspondence harness for C30 (mount write buffering preserves POSIX byte semantics).
//
// A REAL filesys.WFS (NewSeaweedFileSystem) whose filer and volume servers are loopback stand-ins
// (harness/standin: AssignVolume/LookupVolume/CreateEntry over gRPC, chunk bytes kept in memory), and
// on it an open file built by hook NewFileHandleVerif with either dirty-page buffer.  Every operation
// is the real entry point of the mount: FileHandle.Write / Read / Flush, File.Setattr (truncate),
// DirtyPages.ReadDirtyDataAt.
//
//	reset <mem|tmp> <chunkSizeLimit>   => ok
//	w <off> <data>                     => <state>             FileHandle.Write (+ wait for the asynchronous savers)
//	t <size>                           => <state>             File.Setattr with the size bit
//	f                                  => <ok|err> <state> sent=<chunks in the CreateEntry the filer got> rd=<resolved content>
//	r <off> <len>                      => <maxStop> <bytes> <mask>   ReadDirtyDataAt into a zeroed buffer; mask 01 = byte written by the call
//	R <off> <len>                      => <n> <bytes>         FileHandle.Read
//
// <state> = fs=<FileSize attribute> L=<dirty lists> K=<entry chunks in mtime order>
//   L: lists separated by `;`, nodes by `+`, node = off:size (mem) or off:size:tempOffset (tmp)
//   K: chunks separated by `,`, chunk = off:size:blob  (blob = the bytes uploaded for it)
package main

import (
	"context"
	"flag"
	"fmt"
	"io"
	"math"
	"os"
	"sort"
	"strconv"
	"strings"

	"github.com/seaweedfs/fuse"
	"google.golang.org/grpc"

	"github.com/chrislusf/seaweedfs/weed/filer"
	"github.com/chrislusf/seaweedfs/weed/filesys"
	"github.com/chrislusf/seaweedfs/weed/filesys/meta_cache"
	"github.com/chrislusf/seaweedfs/weed/pb/filer_pb"

	"verifharness/hx"
	"verifharness/standin"
)

var (
	tr    *hx.Trace
	vol   *standin.Volume
	flr   *standin.Filer
	opt   *filesys.Option
	wfs   *filesys.WFS
	cur   *filesys.FileHandleVerif
	kind  string
	inode uint64 = 1000
	ctx          = context.Background()
)

func lookup(fileId string) ([]string, error) {
	return []string{"http://" + vol.Addr + "/" + fileId}, nil
}

type noCache struct{}

func (noCache) GetChunk(fileId string, minSize uint64) []byte             { return nil }
func (noCache) GetChunkSlice(fileId string, offset, length uint64) []byte { return nil }
func (noCache) SetChunk(fileId string, data []byte)                       {}

func chunksTok(cs []*filer_pb.FileChunk) string {
	cp := append([]*filer_pb.FileChunk(nil), cs...)
	sort.SliceStable(cp, func(i, j int) bool {
		if cp[i].Mtime != cp[j].Mtime {
			return cp[i].Mtime < cp[j].Mtime
		}
		return cp[i].Fid.GetFileKey() < cp[j].Fid.GetFileKey()
	})
	var xs []string
	for i, c := range cp {
		b, _ := vol.Get(c.GetFileIdString())
		t := fmt.Sprintf("%d:%d:%s", c.Offset, c.Size, hx.Hex(b))
		if i > 0 && cp[i-1].Mtime == c.Mtime {
			t += ":TIE" // two savers started within the same nanosecond: never expected
		}
		xs = append(xs, t)
	}
	if len(xs) == 0 {
		return "-"
	}
	return strings.Join(xs, ",")
}

func state() []string {
	cur.WaitWriters()
	e := cur.Entry()
	var ls []string
	for _, l := range cur.DirtyLists(4096) {
		var ns []string
		for _, n := range l {
			if n[2] < 0 {
				ns = append(ns, fmt.Sprintf("%d:%d", n[0], n[1]))
			} else {
				ns = append(ns, fmt.Sprintf("%d:%d:%d", n[0], n[1], n[2]))
			}
		}
		ls = append(ls, strings.Join(ns, "+"))
	}
	L := "-"
	if len(ls) > 0 {
		L = strings.Join(ls, ";")
	}
	return []string{fmt.Sprintf("fs=%d", e.Attributes.FileSize), "L=" + L, "K=" + chunksTok(e.Chunks)}
}

// resolve: the bytes a fresh reader gets for the whole file described by (chunks, FileSize attribute)
func resolve(e *filer_pb.Entry) []byte {
	total := int64(filer.FileSize(e))
	if total == 0 {
		return nil
	}
	views := filer.ViewFromChunks(lookup, e.Chunks, 0, math.MaxInt64)
	rdr := filer.NewChunkReaderAtFromClient(lookup, views, noCache{}, total)
	defer rdr.Close()
	p := make([]byte, total)
	n, err := rdr.ReadAt(p, 0)
	if err != nil && err != io.EOF {
		return []byte("READERR")
	}
	return p[:n]
}

func opReset(k string, limit int64) {
	kind = k
	opt.ChunkSizeLimit = limit
	inode++
	cur = filesys.NewFileHandleVerif(wfs, fmt.Sprintf("f%d", inode), inode, k == "tmp", false)
	flr.ResetCreated()
	tr.Op("reset", []string{k, hx.I(limit)}, []string{"ok"})
}

func opWrite(off int64, data []byte) {
	tr.Op("w", []string{hx.I(off), hx.Hex(data)}, hx.Guard(func() []string {
		err := cur.Handle.Write(ctx, &fuse.WriteRequest{Offset: off, Data: append([]byte(nil), data...)}, &fuse.WriteResponse{})
		if err != nil {
			return []string{"err"}
		}
		return state()
	}))
}

func opTruncate(size uint64) {
	tr.Op("t", []string{hx.U(size)}, hx.Guard(func() []string {
		err := cur.File.Setattr(ctx, &fuse.SetattrRequest{Valid: fuse.SetattrSize, Size: size}, &fuse.SetattrResponse{})
		if err != nil {
			return []string{"err"}
		}
		return state()
	}))
}

func opFlush() {
	tr.Op("f", nil, hx.Guard(func() []string {
		flr.ResetCreated()
		err := cur.Handle.Flush(ctx, &fuse.FlushRequest{})
		out := []string{hx.Err(err)}
		out = append(out, state()...)
		sent := "none"
		if req := flr.LastCreated(); req != nil {
			sent = chunksTok(req.Entry.Chunks)
		}
		out = append(out, "sent="+sent, "rd="+hx.Hex(resolve(cur.Entry())))
		return out
	}))
}

func opReadDirty(off int64, n int) {
	tr.Op("r", []string{hx.I(off), strconv.Itoa(n)}, hx.Guard(func() []string {
		a := make([]byte, n)
		b := make([]byte, n)
		for i := range b {
			b[i] = 0xff
		}
		m1 := cur.Pages().ReadDirtyDataAt(a, off)
		m2 := cur.Pages().ReadDirtyDataAt(b, off)
		mask := make([]byte, n)
		for i := range mask {
			if a[i] == b[i] {
				mask[i] = 1
			}
		}
		if m1 != m2 {
			return []string{"unstable"}
		}
		return []string{hx.I(m1), hx.Hex(a), hx.Hex(mask)}
	}))
}

func opRead(off int64, n int) {
	tr.Op("R", []string{hx.I(off), strconv.Itoa(n)}, hx.Guard(func() []string {
		resp := &fuse.ReadResponse{Data: make([]byte, 0, n)}
		err := cur.Handle.Read(ctx, &fuse.ReadRequest{Offset: off, Size: n}, resp)
		if err != nil {
			return []string{"err"}
		}
		return []string{strconv.Itoa(len(resp.Data)), hx.Hex(resp.Data)}
	}))
}

func exec(w []string) {
	atoi := func(s string) int64 { n, _ := strconv.ParseInt(s, 10, 64); return n }
	switch w[0] {
	case "reset":
		opReset(w[1], atoi(w[2]))
	case "w":
		opWrite(atoi(w[1]), hx.UnHex(w[2]))
	case "t":
		opTruncate(uint64(atoi(w[1])))
	case "f":
		opFlush()
	case "r":
		opReadDirty(atoi(w[1]), int(atoi(w[2])))
	case "R":
		opRead(atoi(w[1]), int(atoi(w[2])))
	}
}

// ---------------------------------------------------------------- generation

type gen struct {
	r   *hx.Rng
	wno int
	// hasZero: offsets of standing zero-length lists (a second zero-length write there makes the list cyclic; see prop.json)
	zeroAt map[int64]bool
}

// payload: bytes that identify the write and the position inside it (never 0, so holes are visible)
func (g *gen) payload(n int) []byte {
	g.wno++
	b := make([]byte, n)
	for i := range b {
		b[i] = byte(1 + (g.wno*13+i*3)%250)
	}
	return b
}

func (g *gen) reads(ext int) {
	opReadDirty(0, ext+2)
	opRead(0, ext+2)
	for i := 0; i < 2; i++ {
		o := g.r.Intn(ext + 1)
		n := 1 + g.r.Intn(ext+2-o)
		opReadDirty(int64(o), n)
		opRead(int64(o), n)
	}
}

func (g *gen) kindLimit() (string, int64) {
	k := "tmp"
	if g.r.Bool() {
		k = "mem"
	}
	return k, int64([]int{3, 5, 8, 64}[g.r.Intn(4)])
}

// one bounded case: writes over offsets 0..6 with sizes 1..4, reads, flush, reads
func (g *gen) bounded(k string, limit int64, ws [][2]int) {
	opReset(k, limit)
	for _, w := range ws {
		opWrite(int64(w[0]), g.payload(w[1]))
	}
	g.reads(11)
	opFlush()
	g.reads(11)
}

// one "run into an earlier run" case: a write sequence whose first three writes are S1 (ahead in the file), S2 (lower, not
// adjacent: now the most recently created list) and a write that starts exactly at the end of S2 and runs into S1; then the
// remaining writes.  The dirty read and FileHandle.Read are judged after every write from the third on, then flush and reads.
func (g *gen) runInto(k string, limit int64, ws [][2]int, ext int) {
	opReset(k, limit)
	for i, w := range ws {
		opWrite(int64(w[0]), g.payload(w[1]))
		if i >= 2 {
			opReadDirty(0, ext+2)
			opRead(0, ext+2)
		}
	}
	opFlush()
	opReadDirty(0, ext+2)
	opRead(0, ext+2)
}

func (g *gen) exhaustive(depth int, k string, limit int64) {
	var rec func(ws [][2]int)
	rec = func(ws [][2]int) {
		if len(ws) == depth {
			g.bounded(k, limit, ws)
			return
		}
		for o := 0; o <= 6; o++ {
			for s := 1; s <= 4; s++ {
				rec(append(append([][2]int(nil), ws...), [2]int{o, s}))
			}
		}
	}
	rec(nil)
}

func (g *gen) random(steps int) {
	k, limit := g.kindLimit()
	opReset(k, limit)
	g.zeroAt = map[int64]bool{}
	ext := 0
	size := 0 // current POSIX size
	for i := 0; i < steps; i++ {
		switch x := g.r.Intn(20); {
		case x < 11:
			o := g.r.Intn(24)
			n := 1 + g.r.Intn(6)
			if g.r.Chance(1, 6) {
				n = int(limit) + 1 + g.r.Intn(8) // above the chunk limit
			}
			if g.r.Chance(1, 4) {
				o = ext // sequential append
			}
			if g.r.Chance(1, 12) && !g.zeroAt[int64(o)] && o <= size {
				// zero-length write inside the file (POSIX: no effect; beyond the end FileHandle.Write would extend the
				// FileSize attribute, but the kernel never forwards zero-length writes); a SECOND one at an offset where a zero-length list stands makes that list
				// cyclic (ReadData never returns) - the kernel does not forward zero-length writes, so not generated
				n = 0
				g.zeroAt[int64(o)] = true
			}
			opWrite(int64(o), g.payload(n))
			if o+n > ext {
				ext = o + n
			}
			if n > 0 && o+n > size {
				size = o + n
			}
		case x < 13:
			sz := g.r.Intn(ext + 4)
			opTruncate(uint64(sz))
			size = sz
			if sz > ext {
				ext = sz
			}
		case x < 15:
			opFlush() // (zero-length lists survive a flush of the in-memory buffer: zeroAt is kept)
		default:
			o := g.r.Intn(ext + 2)
			n := 1 + g.r.Intn(ext+3-o)
			opReadDirty(int64(o), n)
			opRead(int64(o), n)
		}
	}
	opRead(0, ext+2)
	opFlush()
	opRead(0, ext+2)
}

func main() {
	a := hx.ParseArgs()
	tr = hx.NewTrace(a.Out)
	defer tr.Close()
	tmp, err := os.MkdirTemp("", "c30")
	if err != nil {
		panic(err)
	}
	defer os.RemoveAll(tmp)
	flag.Set("logtostderr", "false")
	flag.Set("alsologtostderr", "false")
	flag.Set("stderrthreshold", "FATAL")
	flag.Set("logdir", tmp)

	vol = standin.NewVolume()
	flr = standin.NewFiler(vol)
	mapper, _ := meta_cache.NewUidGidMapper("", "")
	opt = &filesys.Option{
		MountDirectory:     "/verif-mnt",
		FilerAddresses:     []string{"127.0.0.1:1"},
		FilerGrpcAddresses: []string{flr.GrpcAddr},
		GrpcDialOption:     grpc.WithInsecure(),
		FilerMountRootPath: "/",
		ChunkSizeLimit:     8,
		CacheDir:           tmp,
		UidGidMapper:       mapper,
	}
	wfs = filesys.NewSeaweedFileSystem(opt)
	tr.Comment(fmt.Sprintf("c30 seed=%d tier=%s", a.Seed, a.Tier))

	if a.Ops != "" {
		for _, w := range hx.ReadOps(a.Ops) {
			exec(w)
		}
		return
	}
	g := &gen{r: hx.NewRng(a.Seed)}
	// bounded-exhaustive: all write sequences of length 1 (both buffers) and 2 (quick: one buffer per seed; thorough: both);
	// length 3 for one buffer in the thorough tier; sampled sequences of length 3 and 4
	for ki, k := range []string{"mem", "tmp"} {
		g.exhaustive(1, k, 5)
		if a.Thorough() || int(a.Seed)%2 == ki {
			g.exhaustive(2, k, 5) // quick: one buffer per seed
		}
		if a.Thorough() && int(a.Seed/4)%2 == ki {
			g.exhaustive(3, k, []int64{3, 5, 8, 64}[int(a.Seed)%4])
		}
	}
	for i := 0; i < a.N(200); i++ {
		k, limit := g.kindLimit()
		n := 3 + g.r.Intn(2)
		ws := make([][2]int, n)
		for j := range ws {
			ws[j] = [2]int{g.r.Intn(7), 1 + g.r.Intn(4)}
		}
		g.bounded(k, limit, ws)
	}
	for i := 0; i < a.N(40); i++ {
		g.random(10 + g.r.Intn(30))
	}
	// sequential run into an earlier run (>= 4 writes): S1 = [a,a+s1) ahead, S2 = [b,b+s2) below it with a gap, a third write from
	// the end of S2 into / over / past S1, then EVERY fourth write over offsets 0..6 x sizes 1..3; temp-file buffer (where the
	// lists keep creation order and nodes are merged by temp offset) in full, the in-memory buffer on a third of the cases
	{
		idx := 0
		for a1 := 2; a1 <= 5; a1++ {
			for s1 := 2; s1 <= 3; s1++ {
				for b := 0; b+1 < a1; b++ {
					for s2 := 1; b+s2 < a1 && s2 <= 2; s2++ {
						for e3 := a1 + 1; e3 <= a1+s1+1; e3++ {
							for o4 := 0; o4 <= 6; o4++ {
								for s4 := 1; s4 <= 3; s4++ {
									idx++
									if !a.Thorough() && uint64(idx)%2 != a.Seed%2 {
										continue
									}
									ws := [][2]int{{a1, s1}, {b, s2}, {b + s2, e3 - b - s2}, {o4, s4}}
									g.runInto("tmp", []int64{64, 5, 8}[idx%3], ws, 10)
									if idx%3 == 0 {
										g.runInto("mem", []int64{64, 5}[idx%2], ws, 10)
									}
								}
							}
						}
					}
				}
			}
		}
	}
	// the same shape at random places with further writes around the run-in range
	for i := 0; i < a.N(80); i++ {
		far := g.r.Chance(1, 3)
		farW := [2]int{19 + g.r.Intn(4), 1 + g.r.Intn(3)} // an unrelated list far right, created between S1 and S2
		a1 := 5 + g.r.Intn(10)
		s1 := 2 + g.r.Intn(5)
		s2 := 1 + g.r.Intn(3)
		b := g.r.Intn(a1 - s2)
		e3 := a1 + 1 + g.r.Intn(s1+1)
		ws := [][2]int{{a1, s1}}
		if far {
			ws = append(ws, farW)
		}
		ws = append(ws, [2]int{b, s2}, [2]int{b + s2, e3 - b - s2})
		for n := 1 + g.r.Intn(3); n > 0; n-- {
			o := a1 - 2 + g.r.Intn(e3-a1+3)
			ws = append(ws, [2]int{o, 1 + g.r.Intn(4)})
		}
		k := "tmp"
		if g.r.Chance(1, 4) {
			k = "mem"
		}
		g.runInto(k, []int64{64, 5, 8, 3}[g.r.Intn(4)], ws, 26)
	}
}
