// c11: correspondence harness for C11 (writable set / lookups) and C12 (capacity accounting).
// Drives a REAL topology.Topology with the same calls weed/server/master_grpc_server.go
// SendHeartbeat makes (GetOrCreateDataCenter/Rack/DataNode, AdjustMaxVolumeCounts,
// IncrementalSyncDataNodeRegistration, SyncDataNodeRegistration, IncrementalSyncDataNodeEcShards,
// SyncDataNodeEcShards, UnRegisterDataNode on disconnect) plus the refresh round
// (CollectDeadNodeAndFullVolumes -> SetVolumeCapacityFull). After every call the complete
// observable state (counters at all five levels, registered volumes/shards, layouts, EC map,
// lookups) is written as the outputs of the trace line.
package main

import (
	"flag"
	"fmt"
	"os"
	"sort"
	"strconv"
	"strings"

	"github.com/chrislusf/seaweedfs/weed/pb/master_pb"
	"github.com/chrislusf/seaweedfs/weed/sequence"
	"github.com/chrislusf/seaweedfs/weed/storage/needle"
	"github.com/chrislusf/seaweedfs/weed/storage/super_block"
	"github.com/chrislusf/seaweedfs/weed/topology"

	"verifharness/hx"
)

var tr *hx.Trace

const maxSrv = 6

type world struct {
	topo  *topology.Topology
	dn    [maxSrv]*topology.DataNode
	limit uint64
	nVid  int
}

var w *world

func collName(i int) string {
	if i == 0 {
		return ""
	}
	return "c" + strconv.Itoa(i)
}
func collIdx(s string) int {
	if s == "" {
		return 0
	}
	n, _ := strconv.Atoi(s[1:])
	return n
}
func diskName(i int) string {
	if i == 0 {
		return ""
	}
	return "ssd"
}
func diskIdx(s string) int {
	if s == "" || s == "hdd" {
		return 0
	}
	return 1
}
func srvIdx(id string) int { // "s<i>:8080"
	id = strings.TrimPrefix(id, "s")
	if k := strings.Index(id, ":"); k >= 0 {
		id = id[:k]
	}
	n, _ := strconv.Atoi(id)
	return n
}
func atoi(s string) int { n, _ := strconv.Atoi(s); return n }

// ---- message tokens
// full volume:  vid:size:coll:rp:ttl:disk:ro:remote
func parseVols(tok string) []*master_pb.VolumeInformationMessage {
	var out []*master_pb.VolumeInformationMessage
	if tok == "-" {
		return out
	}
	for _, e := range strings.Split(tok, ",") {
		f := strings.Split(e, ":")
		m := &master_pb.VolumeInformationMessage{Id: uint32(atoi(f[0])), Size: uint64(atoi(f[1])), Collection: collName(atoi(f[2])),
			ReplicaPlacement: uint32(atoi(f[3])), Ttl: uint32(atoi(f[4])), DiskType: diskName(atoi(f[5])), ReadOnly: f[6] == "1", Version: uint32(needle.CurrentVersion)}
		if f[7] == "1" {
			m.RemoteStorageName = "s3"
			m.RemoteStorageKey = "k"
		}
		out = append(out, m)
	}
	return out
}

// short volume: vid:coll:rp:ttl:disk
func parseShort(tok string) []*master_pb.VolumeShortInformationMessage {
	var out []*master_pb.VolumeShortInformationMessage
	if tok == "-" {
		return out
	}
	for _, e := range strings.Split(tok, ",") {
		f := strings.Split(e, ":")
		out = append(out, &master_pb.VolumeShortInformationMessage{Id: uint32(atoi(f[0])), Collection: collName(atoi(f[1])),
			ReplicaPlacement: uint32(atoi(f[2])), Ttl: uint32(atoi(f[3])), DiskType: diskName(atoi(f[4])), Version: uint32(needle.CurrentVersion)})
	}
	return out
}

// ec: vid:coll:disk:bits
func parseEc(tok string) []*master_pb.VolumeEcShardInformationMessage {
	var out []*master_pb.VolumeEcShardInformationMessage
	if tok == "-" {
		return out
	}
	for _, e := range strings.Split(tok, ",") {
		f := strings.Split(e, ":")
		out = append(out, &master_pb.VolumeEcShardInformationMessage{Id: uint32(atoi(f[0])), Collection: collName(atoi(f[1])), DiskType: diskName(atoi(f[2])), EcIndexBits: uint32(atoi(f[3]))})
	}
	return out
}

// ---- state dump
func counts(us []topology.UsageVerif) string {
	var c [2][4]int64
	for _, u := range us {
		t := 0
		if u.DiskType != "" {
			t = 1
		}
		c[t][0] += u.Volume
		c[t][1] += u.Remote
		c[t][2] += u.EcShard
		c[t][3] += u.Max
	}
	return fmt.Sprintf("%d,%d,%d,%d/%d,%d,%d,%d", c[0][0], c[0][1], c[0][2], c[0][3], c[1][0], c[1][1], c[1][2], c[1][3])
}

const zeroCounts = "0,0,0,0/0,0,0,0"

func joinInts(xs []int, sep string) string {
	if len(xs) == 0 {
		return "-"
	}
	ss := make([]string, len(xs))
	for i, x := range xs {
		ss[i] = strconv.Itoa(x)
	}
	return strings.Join(ss, sep)
}

func dump() []string {
	var out []string
	t := w.topo
	out = append(out, "T="+counts(topology.NodeUsagesVerif(t)))
	var dcs []*topology.DataCenter
	for _, c := range t.Children() {
		dcs = append(dcs, c.(*topology.DataCenter))
	}
	sort.Slice(dcs, func(i, j int) bool { return dcs[i].Id() < dcs[j].Id() })
	for _, dc := range dcs {
		di := atoi(string(dc.Id())[2:])
		if s := counts(topology.NodeUsagesVerif(dc)); s != zeroCounts {
			out = append(out, fmt.Sprintf("D%d=%s", di, s))
		}
		var racks []*topology.Rack
		for _, c := range dc.Children() {
			racks = append(racks, c.(*topology.Rack))
		}
		sort.Slice(racks, func(i, j int) bool { return racks[i].Id() < racks[j].Id() })
		for _, r := range racks {
			if s := counts(topology.NodeUsagesVerif(r)); s != zeroCounts {
				out = append(out, fmt.Sprintf("R%d.%d=%s", di, atoi(string(r.Id())[1:]), s))
			}
		}
	}
	for s := 0; s < maxSrv; s++ {
		dn := w.dn[s]
		if dn == nil {
			continue
		}
		out = append(out, fmt.Sprintf("N%d=%s", s, counts(topology.NodeUsagesVerif(dn))))
		for ti := 0; ti < 2; ti++ {
			var disk *topology.Disk
			for _, c := range dn.Children() {
				if string(c.Id()) == diskName(ti) {
					disk = c.(*topology.Disk)
				}
			}
			if disk == nil {
				continue
			}
			var vs []string
			vols := disk.GetVolumes()
			sort.Slice(vols, func(i, j int) bool { return vols[i].Id < vols[j].Id })
			for _, v := range vols {
				vs = append(vs, fmt.Sprintf("%d:%d:%s:%s", v.Id, v.Size, hx.B(v.ReadOnly), hx.B(v.IsRemote())))
			}
			var es []string
			ecs := disk.GetEcShards()
			sort.Slice(ecs, func(i, j int) bool { return ecs[i].VolumeId < ecs[j].VolumeId })
			for _, e := range ecs {
				if e.ShardBits != 0 {
					es = append(es, fmt.Sprintf("%d:%d", e.VolumeId, uint32(e.ShardBits)))
				}
			}
			cs := counts(topology.NodeUsagesVerif(disk))
			if len(vs) == 0 && len(es) == 0 && cs == zeroCounts {
				continue
			}
			vj, ej := "-", "-"
			if len(vs) > 0 {
				vj = strings.Join(vs, ";")
			}
			if len(es) > 0 {
				ej = strings.Join(es, ";")
			}
			out = append(out, fmt.Sprintf("K%d.%d=%s|%s|%s", s, ti, cs, vj, ej))
		}
	}
	// layouts
	type lrow struct {
		key [4]int
		s   string
	}
	var rows []lrow
	for _, l := range topology.LayoutsVerif(t) {
		rp, _ := super_block.NewReplicaPlacementFromString(l.Replication)
		ttl, _ := needle.ReadTTL(l.Ttl)
		key := [4]int{collIdx(l.Collection), int(rp.Byte()), int(ttl.ToUint32()), diskIdx(l.DiskType)}
		var ws []int
		for _, x := range l.Writables {
			ws = append(ws, int(x))
		}
		sort.Ints(ws) // the slice order depends on Go's map iteration order (deleted volumes of a full heartbeat); the writable SET is what matters
		var vids []int
		for vid := range l.Locations {
			vids = append(vids, int(vid))
		}
		sort.Ints(vids)
		var ls []string
		for _, vid := range vids {
			var ss []int
			for _, id := range l.Locations[uint32(vid)] {
				ss = append(ss, srvIdx(id))
			}
			ls = append(ls, fmt.Sprintf("%d@%s", vid, joinInts(ss, "+")))
		}
		var ov []int
		for _, x := range l.Oversized {
			ov = append(ov, int(x))
		}
		if len(ws) == 0 && len(ls) == 0 && len(ov) == 0 {
			continue
		}
		lj := "-"
		if len(ls) > 0 {
			lj = strings.Join(ls, ";")
		}
		rows = append(rows, lrow{key, fmt.Sprintf("L%d.%d.%d.%d=%s|%s|%s", key[0], key[1], key[2], key[3], joinInts(ws, ","), lj, joinInts(ov, ","))})
	}
	sort.Slice(rows, func(i, j int) bool {
		for k := 0; k < 4; k++ {
			if rows[i].key[k] != rows[j].key[k] {
				return rows[i].key[k] < rows[j].key[k]
			}
		}
		return false
	})
	for _, r := range rows {
		out = append(out, r.s)
	}
	// EC shard map
	em := topology.EcShardMapVerif(t)
	var evs []int
	for vid := range em {
		evs = append(evs, int(vid))
	}
	sort.Ints(evs)
	for _, vid := range evs {
		var ss []string
		for sh, ids := range em[uint32(vid)] {
			if len(ids) == 0 {
				continue
			}
			var xs []int
			for _, id := range ids {
				xs = append(xs, srvIdx(id))
			}
			ss = append(ss, fmt.Sprintf("%d@%s", sh, joinInts(xs, "+")))
		}
		if len(ss) > 0 {
			out = append(out, fmt.Sprintf("E%d=%s", vid, strings.Join(ss, ";")))
		}
	}
	// lookups (collection ""): the set of servers returned for every vid of the universe
	var qs []string
	for vid := 1; vid <= w.nVid; vid++ {
		set := map[int]bool{}
		for _, dn := range t.Lookup("", needle.VolumeId(vid)) {
			set[srvIdx(string(dn.Id()))] = true
		}
		if len(set) == 0 {
			continue
		}
		var xs []int
		for x := range set {
			xs = append(xs, x)
		}
		sort.Ints(xs)
		qs = append(qs, fmt.Sprintf("%d@%s", vid, joinInts(xs, "+")))
	}
	if len(qs) > 0 {
		out = append(out, "Q="+strings.Join(qs, ";"))
	}
	return out
}

// ---- operations on the real code
func apply(op []string) {
	args := op[1:]
	outs := hx.Guard(func() []string {
		switch op[0] {
		case "reset": // reset <limit> <asMin> <nVid>
			w = &world{limit: uint64(atoi(args[0])), nVid: atoi(args[2])}
			w.topo = topology.NewTopology("t", sequence.NewMemorySequencer(), w.limit, 5, args[1] == "1")
		case "conn": // conn s dc rack maxH maxS   (first heartbeat of a stream: locate + GetOrCreateDataNode)
			s := atoi(args[0])
			if w.dn[s] == nil {
				m := map[string]uint32{"": uint32(atoi(args[3]))}
				if atoi(args[4]) > 0 {
					m["ssd"] = uint32(atoi(args[4]))
				}
				dc := w.topo.GetOrCreateDataCenter("dc" + args[1])
				rack := dc.GetOrCreateRack("r" + args[2])
				w.dn[s] = rack.GetOrCreateDataNode("s"+args[0], 8080, "", m)
			}
		case "max": // max s maxH maxS  (every heartbeat)
			if dn := w.dn[atoi(args[0])]; dn != nil {
				dn.AdjustMaxVolumeCounts(map[string]uint32{"": uint32(atoi(args[1])), "ssd": uint32(atoi(args[2]))})
			}
		case "full":
			if dn := w.dn[atoi(args[0])]; dn != nil {
				w.topo.SyncDataNodeRegistration(parseVols(args[1]), dn)
			}
		case "inc":
			if dn := w.dn[atoi(args[0])]; dn != nil {
				w.topo.IncrementalSyncDataNodeRegistration(parseShort(args[1]), parseShort(args[2]), dn)
			}
		case "ecfull":
			if dn := w.dn[atoi(args[0])]; dn != nil {
				w.topo.SyncDataNodeEcShards(parseEc(args[1]), dn)
			}
		case "ecinc":
			if dn := w.dn[atoi(args[0])]; dn != nil {
				w.topo.IncrementalSyncDataNodeEcShards(parseEc(args[1]), parseEc(args[2]), dn)
			}
		case "disc":
			s := atoi(args[0])
			if dn := w.dn[s]; dn != nil {
				w.topo.UnRegisterDataNode(dn)
				w.dn[s] = nil
			}
		case "refresh": // the refresh round: every registered volume at or over the limit is reported full
			for s := 0; s < maxSrv; s++ {
				if dn := w.dn[s]; dn != nil {
					vols := dn.GetVolumes()
					sort.Slice(vols, func(i, j int) bool {
						if vols[i].DiskType != vols[j].DiskType {
							return vols[i].DiskType < vols[j].DiskType
						}
						return vols[i].Id < vols[j].Id
					})
					for _, v := range vols {
						if v.Size >= w.limit {
							w.topo.SetVolumeCapacityFull(v)
						}
					}
				}
			}
		default:
			return []string{"unknown-op"}
		}
		return dump()
	})
	tr.Op(op[0], args, outs)
}

// ---- generator: a simulated cluster whose servers report (sometimes stale, duplicated,
// reordered) state
type tvol struct {
	size       int
	ro, remote bool
}
type tsrv struct {
	up         bool
	dc, rack   int
	maxH, maxS int
	vols       map[int]*tvol
	ecs        map[int]int
	oldFull    string // a stale full-heartbeat snapshot
	oldEc      string
}
type vattr struct{ coll, rp, ttl, disk int }

type gen struct {
	r     *hx.Rng
	n     int
	nVid  int
	limit int
	attr  []vattr
	srv   []*tsrv
}

func (g *gen) short(vid int) string {
	a := g.attr[vid]
	return fmt.Sprintf("%d:%d:%d:%d:%d", vid, a.coll, a.rp, a.ttl, a.disk)
}
func (g *gen) fullTok(s *tsrv) string {
	var vids []int
	for v := range s.vols {
		vids = append(vids, v)
	}
	sort.Ints(vids)
	// message order is the server's; shuffle a little
	if g.r.Chance(1, 3) {
		for i := len(vids) - 1; i > 0; i-- {
			j := g.r.Intn(i + 1)
			vids[i], vids[j] = vids[j], vids[i]
		}
	}
	var es []string
	for _, vid := range vids {
		v := s.vols[vid]
		a := g.attr[vid]
		es = append(es, fmt.Sprintf("%d:%d:%d:%d:%d:%d:%s:%s", vid, v.size, a.coll, a.rp, a.ttl, a.disk, hx.B(v.ro), hx.B(v.remote)))
	}
	if len(es) == 0 {
		return "-"
	}
	return strings.Join(es, ",")
}
func (g *gen) ecTok(s *tsrv) string {
	var vids []int
	for v, b := range s.ecs {
		if b != 0 {
			vids = append(vids, v)
		}
	}
	sort.Ints(vids)
	var es []string
	for _, vid := range vids {
		a := g.attr[vid]
		es = append(es, fmt.Sprintf("%d:%d:%d:%d", vid, a.coll, a.disk, s.ecs[vid]))
	}
	if len(es) == 0 {
		return "-"
	}
	return strings.Join(es, ",")
}
func (g *gen) ecOne(vid, bits int) string {
	a := g.attr[vid]
	return fmt.Sprintf("%d:%d:%d:%d", vid, a.coll, a.disk, bits)
}
func si(i int) string { return strconv.Itoa(i) }

// pickVid: a registered volume of the simulated server, chosen by the run's PRNG (never by map order)
func (g *gen) pickVid(s *tsrv) (int, bool) {
	var vids []int
	for v := range s.vols {
		vids = append(vids, v)
	}
	if len(vids) == 0 {
		return 0, false
	}
	sort.Ints(vids)
	return vids[g.r.Intn(len(vids))], true
}

func (g *gen) heartbeatPrelude(i int) {
	s := g.srv[i]
	apply([]string{"max", si(i), si(s.maxH), si(s.maxS)})
}

func (g *gen) oneCase(steps int) {
	r := g.r
	g.n = 2 + r.Intn(3)
	g.nVid = 12
	g.limit = 1000
	apply([]string{"reset", si(g.limit), hx.B(r.Chance(1, 3)), si(g.nVid)})
	rps := []int{0, 0, 1, 1, 10, 100, 2, 11}
	if r.Chance(1, 2) {
		rps = []int{0, 1, 1, 1, 10}
	}
	g.attr = make([]vattr, g.nVid+1)
	for v := 1; v <= g.nVid; v++ {
		g.attr[v] = vattr{coll: r.Intn(2), rp: rps[r.Intn(len(rps))], ttl: []int{0, 0, 769}[r.Intn(3)], disk: []int{0, 0, 0, 1}[r.Intn(4)]}
	}
	g.srv = nil
	for i := 0; i < g.n; i++ {
		g.srv = append(g.srv, &tsrv{dc: r.Intn(2), rack: r.Intn(2), maxH: 3 + r.Intn(8), maxS: []int{0, 0, 4, 7}[r.Intn(4)], vols: map[int]*tvol{}, ecs: map[int]int{}, oldFull: "-", oldEc: "-"})
	}
	for st := 0; st < steps; st++ {
		i := r.Intn(g.n)
		s := g.srv[i]
		if !s.up {
			if r.Chance(1, 4) {
				continue
			}
			if r.Chance(1, 6) { // the server comes back elsewhere / with other disks
				s.rack = r.Intn(2)
				s.maxS = []int{0, 4, 7}[r.Intn(3)]
			}
			if r.Chance(1, 5) { // it lost its state while away
				s.vols = map[int]*tvol{}
			}
			apply([]string{"conn", si(i), si(s.dc), si(s.rack), si(s.maxH), si(s.maxS)})
			s.up = true
			g.heartbeatPrelude(i)
			apply([]string{"full", si(i), g.fullTok(s)})
			if len(s.ecs) > 0 || r.Chance(1, 2) {
				apply([]string{"ecfull", si(i), g.ecTok(s)})
			}
			continue
		}
		switch k := r.Intn(100); {
		case k < 16: // a volume is created on the server (announced incrementally, or only by the next full heartbeat)
			vid := 1 + r.Intn(g.nVid)
			if _, ok := s.vols[vid]; !ok {
				s.vols[vid] = &tvol{size: r.Intn(g.limit), remote: r.Chance(1, 6)}
				if r.Chance(1, 8) {
					s.vols[vid].size = g.limit + r.Intn(50)
				}
				if r.Chance(3, 4) {
					g.heartbeatPrelude(i)
					apply([]string{"inc", si(i), g.short(vid), "-"})
				}
			}
		case k < 24: // a volume is deleted
			if vid, ok := g.pickVid(s); ok {
				delete(s.vols, vid)
				if r.Chance(3, 4) {
					g.heartbeatPrelude(i)
					apply([]string{"inc", si(i), "-", g.short(vid)})
				}
			}
		case k < 34: // read-only flips / size growth / tiering: visible in the next full heartbeat
			if vid, ok := g.pickVid(s); ok {
				v := s.vols[vid]
				switch r.Intn(4) {
				case 0, 1:
					v.ro = !v.ro
				case 2:
					v.size += r.Intn(g.limit / 2)
				case 3:
					v.remote = !v.remote
				}
			}
			if r.Chance(2, 3) {
				g.heartbeatPrelude(i)
				apply([]string{"full", si(i), g.fullTok(s)})
			}
		case k < 50: // full heartbeat (current, or a stale snapshot, or twice)
			tok := g.fullTok(s)
			if r.Chance(1, 6) {
				tok = s.oldFull
			}
			g.heartbeatPrelude(i)
			apply([]string{"full", si(i), tok})
			if r.Chance(1, 8) {
				apply([]string{"full", si(i), tok})
			}
			if r.Chance(1, 2) {
				s.oldFull = g.fullTok(s)
			}
		case k < 58: // duplicate / stale / unknown incremental messages
			vid := 1 + r.Intn(g.nVid)
			g.heartbeatPrelude(i)
			if r.Bool() {
				apply([]string{"inc", si(i), g.short(vid), "-"})
			} else {
				apply([]string{"inc", si(i), "-", g.short(vid)})
			}
		case k < 64: // several incremental changes in one message
			var ns, ds []string
			seen := map[int]bool{}
			for j := 0; j < 1+r.Intn(3); j++ {
				vid := 1 + r.Intn(g.nVid)
				if seen[vid] { // a message never lists the same volume twice
					continue
				}
				seen[vid] = true
				if _, ok := s.vols[vid]; ok {
					delete(s.vols, vid)
					ds = append(ds, g.short(vid))
				} else {
					s.vols[vid] = &tvol{size: r.Intn(g.limit)}
					ns = append(ns, g.short(vid))
				}
			}
			nj, dj := "-", "-"
			if len(ns) > 0 {
				nj = strings.Join(ns, ",")
			}
			if len(ds) > 0 {
				dj = strings.Join(ds, ",")
			}
			g.heartbeatPrelude(i)
			apply([]string{"inc", si(i), nj, dj})
		case k < 72: // EC shards appear / disappear incrementally
			vid := 1 + r.Intn(g.nVid)
			bits := 1 << uint(r.Intn(14))
			if r.Chance(1, 2) {
				bits |= 1 << uint(r.Intn(14))
			}
			g.heartbeatPrelude(i)
			if r.Chance(2, 3) {
				s.ecs[vid] |= bits
				apply([]string{"ecinc", si(i), g.ecOne(vid, bits), "-"})
			} else {
				s.ecs[vid] &^= bits
				apply([]string{"ecinc", si(i), "-", g.ecOne(vid, bits)})
			}
		case k < 82: // 1..3 EC volumes change, reported by one full EC heartbeat
			for j := 0; j < 1+r.Intn(3); j++ {
				vid := 1 + r.Intn(g.nVid)
				switch r.Intn(3) {
				case 0:
					s.ecs[vid] |= int(r.U64() & 0x3fff)
				case 1:
					s.ecs[vid] &^= int(r.U64() & 0x3fff)
				case 2:
					delete(s.ecs, vid)
				}
			}
			tok := g.ecTok(s)
			if r.Chance(1, 8) {
				tok = s.oldEc
			}
			g.heartbeatPrelude(i)
			apply([]string{"ecfull", si(i), tok})
			if r.Chance(1, 2) {
				s.oldEc = g.ecTok(s)
			}
		case k < 87: // max volume counts change
			s.maxH = r.Intn(12)
			if r.Chance(1, 2) {
				s.maxS = []int{0, 4, 7, 9}[r.Intn(4)]
			}
			g.heartbeatPrelude(i)
		case k < 94:
			apply([]string{"disc", si(i)})
			s.up = false
		default:
			apply([]string{"refresh"})
		}
	}
}

// ---- directed histories (run after the random ones: the random stream of the cases above is unchanged)

// startDirected: a fresh cluster of n servers, every volume id with replication rp; a few bystander volumes
func (g *gen) startDirected(n int, asMin bool) {
	r := g.r
	g.n = n
	g.nVid = 12
	g.limit = 1000
	apply([]string{"reset", si(g.limit), hx.B(asMin), si(g.nVid)})
	g.attr = make([]vattr, g.nVid+1)
	for v := 1; v <= g.nVid; v++ {
		g.attr[v] = vattr{coll: r.Intn(2), rp: []int{0, 1, 10}[r.Intn(3)], ttl: []int{0, 0, 769}[r.Intn(3)], disk: []int{0, 0, 1}[r.Intn(3)]}
	}
	g.srv = nil
	for i := 0; i < n; i++ {
		g.srv = append(g.srv, &tsrv{dc: r.Intn(2), rack: r.Intn(2), maxH: 5 + r.Intn(6), maxS: 4 + r.Intn(4), vols: map[int]*tvol{}, ecs: map[int]int{}, oldFull: "-", oldEc: "-"})
	}
}

func (g *gen) connectDirected(i int) {
	s := g.srv[i]
	apply([]string{"conn", si(i), si(s.dc), si(s.rack), si(s.maxH), si(s.maxS)})
	s.up = true
	g.heartbeatPrelude(i)
}

func (g *gen) sendFull(i int) {
	g.heartbeatPrelude(i)
	apply([]string{"full", si(i), g.fullTok(g.srv[i])})
}

func (g *gen) noise() {
	r := g.r
	switch r.Intn(6) {
	case 0:
		apply([]string{"refresh"})
	case 1:
		g.sendFull(r.Intn(g.n))
	case 2:
		i := r.Intn(g.n)
		g.heartbeatPrelude(i)
		apply([]string{"ecfull", si(i), g.ecTok(g.srv[i])})
	}
}

func copyCount(rp int) int { return rp/100 + (rp%100)/10 + rp%10 + 1 }

// a replica is first reported at / over the size limit while some replica of the volume (itself or a peer
// that registered earlier) is read-only; later a full heartbeat clears the read-only flag (same sizes);
// the replica count matches the replication setting throughout
func (g *gen) directedOversizedWhileReadOnly() {
	r := g.r
	vid := 1 + r.Intn(12)
	g.startDirected(2+r.Intn(2), r.Chance(1, 5))
	cc := copyCount(g.attr[vid].rp)
	for i := 0; i < g.n; i++ { // bystanders
		for j := 0; j < r.Intn(3); j++ {
			if b := 1 + r.Intn(g.nVid); b != vid {
				g.srv[i].vols[b] = &tvol{size: r.Intn(g.limit), ro: r.Chance(1, 5)}
			}
		}
	}
	// registration order of the cc replicas; the read-only one is not later than the oversized one
	order := []int{0, 1}[:cc]
	if cc == 2 && r.Bool() {
		order[0], order[1] = 1, 0
	}
	roAt, ovAt := r.Intn(cc), r.Intn(cc)
	if roAt > ovAt {
		roAt, ovAt = ovAt, roAt
	}
	for k, i := range order {
		g.srv[i].vols[vid] = &tvol{size: r.Intn(g.limit), ro: k == roAt}
		if k == ovAt {
			g.srv[i].vols[vid].size = g.limit + r.Intn(50)
		}
		if !g.srv[i].up {
			g.connectDirected(i)
		}
		g.sendFull(i)
		if r.Chance(1, 3) {
			g.noise()
		}
	}
	for i := 0; i < g.n; i++ {
		if !g.srv[i].up && r.Bool() {
			g.connectDirected(i)
			g.sendFull(i)
		}
	}
	for j := 0; j < r.Intn(3); j++ {
		g.noise()
	}
	// the read-only flag goes away; the next full heartbeat says so
	g.srv[order[roAt]].vols[vid].ro = false
	g.sendFull(order[roAt])
	for j := 0; j < r.Intn(3); j++ {
		g.noise()
	}
}

// a server with registered volumes sends a full heartbeat WITHOUT volumes (HasNoVolumes): it lost / dropped
// everything and no incremental deletion was processed before
func (g *gen) directedEmptyFullHeartbeat() {
	r := g.r
	vid := 1 + r.Intn(12)
	g.startDirected(2+r.Intn(2), r.Chance(1, 5))
	cc := copyCount(g.attr[vid].rp)
	for i := 0; i < g.n; i++ {
		if i < cc {
			g.srv[i].vols[vid] = &tvol{size: r.Intn(g.limit)}
		}
		for j := 0; j < r.Intn(3); j++ {
			if b := 1 + r.Intn(g.nVid); b != vid {
				g.srv[i].vols[b] = &tvol{size: r.Intn(g.limit), ro: r.Chance(1, 6)}
			}
		}
		if r.Chance(1, 4) {
			g.srv[i].ecs[1+r.Intn(g.nVid)] = 1 + r.Intn(1<<14-1)
		}
		g.connectDirected(i)
		g.sendFull(i)
		if len(g.srv[i].ecs) > 0 {
			apply([]string{"ecfull", si(i), g.ecTok(g.srv[i])})
		}
	}
	for j := 0; j < r.Intn(3); j++ {
		g.noise()
	}
	victim := r.Intn(cc)
	g.srv[victim].vols = map[int]*tvol{}
	g.sendFull(victim) // "full <victim> -"
	for j := 0; j < r.Intn(3); j++ {
		g.noise()
	}
	if r.Bool() { // the volume comes back
		g.srv[victim].vols[vid] = &tvol{size: r.Intn(g.limit)}
		if r.Bool() {
			g.heartbeatPrelude(victim)
			apply([]string{"inc", si(victim), g.short(vid), "-"})
		}
		g.sendFull(victim)
	}
}

func main() {
	a := hx.ParseArgs()
	flag.Set("logtostderr", "true") // glog of the code under test: no log files, no chatter
	if dn, err := os.OpenFile(os.DevNull, os.O_WRONLY, 0); err == nil {
		os.Stderr = dn
	}
	tr = hx.NewTrace(a.Out)
	defer tr.Close()
	if a.Ops != "" {
		for _, op := range hx.ReadOps(a.Ops) {
			if w == nil && op[0] != "reset" {
				apply([]string{"reset", "1000", "0", "12"})
			}
			apply(op)
		}
		return
	}
	g := &gen{r: hx.NewRng(a.Seed)}
	for c := 0; c < a.N(250); c++ {
		g.oneCase(10 + g.r.Intn(50))
	}
	for c := 0; c < a.N(30); c++ {
		g.directedOversizedWhileReadOnly()
		g.directedEmptyFullHeartbeat()
	}
}
