// c35: correspondence harness for C35 (client volume-location cache, weed/wdclient/vid_map.go).
// Drives the real vidMap through the verif hook VidMapVerif.
//
//	reset <clientDC> =>
//	add <vid> <url> <dc> =>                      addLocation
//	del <vid> <url> =>                           deleteLocation
//	locs <vid> => found <len> <cap> <url@dc>… | notfound      GetLocations (cap ties the backing-array model)
//	lookup <vid> => ok <url>… | err              LookupVolumeServerUrl
//	hold <vid> => found <len> | notfound         GetLocations, the returned slice is KEPT by the "reader"
//	peek => <url@dc>…                            what the kept slice shows now
//	conc <rounds> <url@dc>… => final <url@dc>… | anomalies <u,u,…>…
//	    concurrent schedule: per round a FRESH volume id, one goroutine per listed location (all released
//	    by one barrier) calls addLocation, two more goroutines keep calling GetLocations /
//	    LookupVolumeServerUrl meanwhile. Up to <rounds> rounds are run; the round reported is the first
//	    one whose final slice or whose observed lookups do not list every announced url exactly once
//	    (else the last round). `final` = the slice after the round (sorted), `anomalies` = observed
//	    lookup results that listed a url twice or a url never announced.
//
// "-" stands for the empty data center.
package main

import (
	"fmt"
	"runtime"
	"sort"
	"strconv"
	"strings"
	"sync"
	"sync/atomic"

	"github.com/chrislusf/seaweedfs/weed/wdclient"

	"verifharness/hx"
)

var tr *hx.Trace
var vm *wdclient.VidMapVerif
var held []wdclient.Location

func dcTok(s string) string {
	if s == "" {
		return "-"
	}
	return s
}
func tokDc(s string) string {
	if s == "-" {
		return ""
	}
	return s
}

func entries(ls []wdclient.Location) []string {
	var out []string
	for _, l := range ls {
		out = append(out, l.Url+"@"+dcTok(l.DataCenter))
	}
	return out
}

func reset(dc string) {
	vm = wdclient.NewVidMapVerif(tokDc(dc))
	held = nil
	tr.Op("reset", []string{dc}, nil)
}

func add(vid uint32, url, dc string) {
	tr.Op("add", []string{hx.U(uint64(vid)), url, dc}, hx.Guard(func() []string {
		vm.AddLocation(vid, wdclient.Location{Url: url, PublicUrl: url + ".pub", DataCenter: tokDc(dc)})
		return nil
	}))
}

func del(vid uint32, url string) {
	tr.Op("del", []string{hx.U(uint64(vid)), url}, hx.Guard(func() []string {
		vm.DeleteLocation(vid, wdclient.Location{Url: url})
		return nil
	}))
}

func locs(vid uint32) {
	tr.Op("locs", []string{hx.U(uint64(vid))}, hx.Guard(func() []string {
		ls, found := vm.GetLocations(vid)
		if !found {
			return []string{"notfound"}
		}
		return append([]string{"found", strconv.Itoa(len(ls)), strconv.Itoa(cap(ls))}, entries(ls)...)
	}))
}

func lookup(vid uint32) {
	tr.Op("lookup", []string{hx.U(uint64(vid))}, hx.Guard(func() []string {
		urls, err := vm.LookupVolumeServerUrl(strconv.Itoa(int(vid)))
		if err != nil {
			return []string{"err"}
		}
		return append([]string{"ok"}, urls...)
	}))
}

func hold(vid uint32) {
	tr.Op("hold", []string{hx.U(uint64(vid))}, hx.Guard(func() []string {
		ls, found := vm.GetLocations(vid)
		if !found {
			held = nil
			return []string{"notfound"}
		}
		held = ls
		return []string{"found", strconv.Itoa(len(ls))}
	}))
}

func peek() {
	tr.Op("peek", nil, hx.Guard(func() []string { return entries(held) }))
}

var concVid uint32 = 1000

func parseEntry(e string) wdclient.Location {
	i := strings.Index(e, "@")
	if i < 0 {
		return wdclient.Location{Url: e}
	}
	return wdclient.Location{Url: e[:i], PublicUrl: e[:i] + ".pub", DataCenter: tokDc(e[i+1:])}
}

// bad: some url twice, or a url outside want
func badUrls(urls []string, want map[string]bool) bool {
	seen := map[string]bool{}
	for _, u := range urls {
		if seen[u] || !want[u] {
			return true
		}
		seen[u] = true
	}
	return false
}

func conc(rounds int, ents []string) {
	args := append([]string{strconv.Itoa(rounds)}, ents...)
	tr.Op("conc", args, hx.Guard(func() []string {
		locs := make([]wdclient.Location, len(ents))
		want := map[string]bool{}
		for i, e := range ents {
			locs[i] = parseEntry(e)
			want[locs[i].Url] = true
		}
		var final []wdclient.Location
		var anomalies []string
		for r := 0; r < rounds; r++ {
			concVid++
			vid := concVid
			start := make(chan struct{})
			var stop int32
			var wg, rg sync.WaitGroup
			var mu sync.Mutex
			anomalies = anomalies[:0]
			for i := range locs {
				wg.Add(1)
				go func(l wdclient.Location) {
					defer wg.Done()
					<-start
					vm.AddLocation(vid, l)
				}(locs[i])
			}
			for k := 0; k < 2; k++ {
				rg.Add(1)
				go func(k int) {
					defer rg.Done()
					<-start
					for atomic.LoadInt32(&stop) == 0 {
						var urls []string
						if k == 0 {
							ls, _ := vm.GetLocations(vid)
							for _, l := range ls {
								urls = append(urls, l.Url)
							}
						} else {
							urls, _ = vm.LookupVolumeServerUrl(strconv.Itoa(int(vid)))
						}
						runtime.Gosched()
						if badUrls(urls, want) {
							mu.Lock()
							if len(anomalies) < 3 {
								anomalies = append(anomalies, strings.Join(urls, ","))
							}
							mu.Unlock()
						}
					}
				}(k)
			}
			close(start)
			wg.Wait()
			atomic.StoreInt32(&stop, 1)
			rg.Wait()
			final, _ = vm.GetLocations(vid)
			var fu []string
			for _, l := range final {
				fu = append(fu, l.Url)
			}
			if len(anomalies) > 0 || badUrls(fu, want) || len(fu) != len(want) {
				break
			}
		}
		fe := entries(final)
		sort.Strings(fe)
		out := append([]string{"final"}, fe...)
		out = append(out, "|", "anomalies")
		return append(out, anomalies...)
	}))
}

func u32(s string) uint32 {
	v, _ := strconv.ParseUint(s, 10, 32)
	return uint32(v)
}

func replay(ops [][]string) {
	if len(ops) == 0 || ops[0][0] != "reset" {
		reset("-")
	}
	for _, o := range ops {
		switch {
		case o[0] == "reset" && len(o) == 2:
			reset(o[1])
		case o[0] == "add" && len(o) == 4:
			add(u32(o[1]), o[2], o[3])
		case o[0] == "del" && len(o) == 3:
			del(u32(o[1]), o[2])
		case o[0] == "locs" && len(o) == 2:
			locs(u32(o[1]))
		case o[0] == "lookup" && len(o) == 2:
			lookup(u32(o[1]))
		case o[0] == "hold" && len(o) == 2:
			hold(u32(o[1]))
		case o[0] == "peek":
			peek()
		case o[0] == "conc" && len(o) >= 3:
			n, _ := strconv.Atoi(o[1])
			conc(n, o[2:])
		}
	}
}

func main() {
	a := hx.ParseArgs()
	tr = hx.NewTrace(a.Out)
	defer tr.Close()
	tr.Comment(fmt.Sprintf("c35 seed=%d tier=%s", a.Seed, a.Tier))
	if a.Ops != "" {
		replay(hx.ReadOps(a.Ops))
		return
	}
	r := hx.NewRng(a.Seed)
	urls := []string{"u1", "u2", "u3", "u4", "u5", "u6"}
	dcs := []string{"dc1", "dc2", "-"}
	urlDc := map[string]string{}

	for c := 0; c < a.N(500); c++ {
		reset(r.Pick([]string{"dc1", "dc2", "-", "dc1"}))
		nurls := 4
		if r.Chance(1, 5) {
			nurls = 6
		}
		for _, u := range urls {
			urlDc[u] = r.Pick(dcs)
		}
		steps := 5 + r.Intn(25)
		holding := false
		for s := 0; s < steps; s++ {
			vid := uint32(1 + r.Intn(3))
			u := urls[r.Intn(nurls)]
			switch k := r.Intn(20); {
			case k < 9:
				dc := urlDc[u]
				if r.Chance(1, 15) { // the same url announced with another data center
					dc = r.Pick(dcs)
				}
				add(vid, u, dc)
			case k < 15:
				del(vid, u)
			case k < 17:
				hold(vid)
				holding = true
			default:
				lookup(vid)
			}
			if holding {
				peek()
			}
			for v := uint32(1); v <= 3; v++ {
				if v == vid || r.Chance(1, 4) {
					locs(v)
					lookup(v)
				}
			}
		}
		locs(4) // never added
		lookup(4)
	}

	// ---- concurrent schedules: several update streams announce locations of a fresh volume at the
	// same moment (same url from every stream / overlapping sets / all different)
	reset("dc1")
	rounds := 6000
	shapes := [][]string{
		{"u1@dc1", "u1@dc1", "u1@dc1", "u1@dc1", "u1@dc1", "u1@dc1", "u1@dc1", "u1@dc1"},
		{"u1@dc1", "u1@dc1", "u1@dc1", "u1@dc1", "u2@dc2", "u2@dc2", "u2@dc2", "u2@dc2"},
		{"u1@dc1", "u2@dc2", "u3@-", "u4@dc1", "u1@dc1", "u2@dc2", "u3@-", "u4@dc1"},
		{"u1@dc1", "u2@dc2", "u3@-", "u4@dc1", "u5@dc2", "u6@-"},
		{"u1@-", "u1@-"},
	}
	for i := 0; i < a.N(3); i++ {
		for _, sh := range shapes {
			conc(rounds, sh)
		}
	}
}
