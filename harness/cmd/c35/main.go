// c35: correspondence harness for C35 (client volume-location cache, weed/wdclient/vid_map.go).
// Drives the real vidMap through the verif hook VidMapVerif.
//
//	reset <clientDC> =>
//	add <vid> <url> <dc> =>                      addLocation
//	del <vid> <url> =>                           deleteLocation
//	locs <vid> => found <len> <cap> <url@dc>… | notfound      GetLocations (cap ties the backing-array model)
//	lookup <vid> => ok <url>… | err              LookupVolumeServerUrl
//	hold <vid> => found <len> | notfound         GetLocations, the returned slice is KEPT by the "reader"
//	peek => <url@dc>…                            what the kept slice shows now
//
// "-" stands for the empty data center.
package main

import (
	"fmt"
	"strconv"

	"github.com/chrislusf/seaweedfs/weed/wdclient"

	"verifharness/hx"
)

var tr *hx.Trace
var vm *wdclient.VidMapVerif
var held []wdclient.Location

func dcTok(s string) string {
	if s == "" {
		return "-"
	}
	return s
}
func tokDc(s string) string {
	if s == "-" {
		return ""
	}
	return s
}

func entries(ls []wdclient.Location) []string {
	var out []string
	for _, l := range ls {
		out = append(out, l.Url+"@"+dcTok(l.DataCenter))
	}
	return out
}

func reset(dc string) {
	vm = wdclient.NewVidMapVerif(tokDc(dc))
	held = nil
	tr.Op("reset", []string{dc}, nil)
}

func add(vid uint32, url, dc string) {
	tr.Op("add", []string{hx.U(uint64(vid)), url, dc}, hx.Guard(func() []string {
		vm.AddLocation(vid, wdclient.Location{Url: url, PublicUrl: url + ".pub", DataCenter: tokDc(dc)})
		return nil
	}))
}

func del(vid uint32, url string) {
	tr.Op("del", []string{hx.U(uint64(vid)), url}, hx.Guard(func() []string {
		vm.DeleteLocation(vid, wdclient.Location{Url: url})
		return nil
	}))
}

func locs(vid uint32) {
	tr.Op("locs", []string{hx.U(uint64(vid))}, hx.Guard(func() []string {
		ls, found := vm.GetLocations(vid)
		if !found {
			return []string{"notfound"}
		}
		return append([]string{"found", strconv.Itoa(len(ls)), strconv.Itoa(cap(ls))}, entries(ls)...)
	}))
}

func lookup(vid uint32) {
	tr.Op("lookup", []string{hx.U(uint64(vid))}, hx.Guard(func() []string {
		urls, err := vm.LookupVolumeServerUrl(strconv.Itoa(int(vid)))
		if err != nil {
			return []string{"err"}
		}
		return append([]string{"ok"}, urls...)
	}))
}

func hold(vid uint32) {
	tr.Op("hold", []string{hx.U(uint64(vid))}, hx.Guard(func() []string {
		ls, found := vm.GetLocations(vid)
		if !found {
			held = nil
			return []string{"notfound"}
		}
		held = ls
		return []string{"found", strconv.Itoa(len(ls))}
	}))
}

func peek() {
	tr.Op("peek", nil, hx.Guard(func() []string { return entries(held) }))
}

func u32(s string) uint32 {
	v, _ := strconv.ParseUint(s, 10, 32)
	return uint32(v)
}

func replay(ops [][]string) {
	if len(ops) == 0 || ops[0][0] != "reset" {
		reset("-")
	}
	for _, o := range ops {
		switch {
		case o[0] == "reset" && len(o) == 2:
			reset(o[1])
		case o[0] == "add" && len(o) == 4:
			add(u32(o[1]), o[2], o[3])
		case o[0] == "del" && len(o) == 3:
			del(u32(o[1]), o[2])
		case o[0] == "locs" && len(o) == 2:
			locs(u32(o[1]))
		case o[0] == "lookup" && len(o) == 2:
			lookup(u32(o[1]))
		case o[0] == "hold" && len(o) == 2:
			hold(u32(o[1]))
		case o[0] == "peek":
			peek()
		}
	}
}

func main() {
	a := hx.ParseArgs()
	tr = hx.NewTrace(a.Out)
	defer tr.Close()
	tr.Comment(fmt.Sprintf("c35 seed=%d tier=%s", a.Seed, a.Tier))
	if a.Ops != "" {
		replay(hx.ReadOps(a.Ops))
		return
	}
	r := hx.NewRng(a.Seed)
	urls := []string{"u1", "u2", "u3", "u4", "u5", "u6"}
	dcs := []string{"dc1", "dc2", "-"}
	urlDc := map[string]string{}

	for c := 0; c < a.N(500); c++ {
		reset(r.Pick([]string{"dc1", "dc2", "-", "dc1"}))
		nurls := 4
		if r.Chance(1, 5) {
			nurls = 6
		}
		for _, u := range urls {
			urlDc[u] = r.Pick(dcs)
		}
		steps := 5 + r.Intn(25)
		holding := false
		for s := 0; s < steps; s++ {
			vid := uint32(1 + r.Intn(3))
			u := urls[r.Intn(nurls)]
			switch k := r.Intn(20); {
			case k < 9:
				dc := urlDc[u]
				if r.Chance(1, 15) { // the same url announced with another data center
					dc = r.Pick(dcs)
				}
				add(vid, u, dc)
			case k < 15:
				del(vid, u)
			case k < 17:
				hold(vid)
				holding = true
			default:
				lookup(vid)
			}
			if holding {
				peek()
			}
			for v := uint32(1); v <= 3; v++ {
				if v == vid || r.Chance(1, 4) {
					locs(v)
					lookup(v)
				}
			}
		}
		locs(4) // never added
		lookup(4)
	}
}
