// c33: correspondence harness for C33 (client-side compression and encryption).
// Uploads go through operation.UploadData / operation.Upload to a real in-process volume server,
// downloads through util.ReadUrlAsStream (full and ranged, cipher on/off). The stdlib pieces the
// decisions depend on travel as oracle arguments of the `up` line (http.DetectContentType,
// mime.TypeByExtension, gzip of the data, gzip ratio of the first 128 bytes, DecompressData of
// the input), so the Lean model recomputes the DECISIONS. `fuzz` lines feed arbitrary bytes to
// util.DecompressData / MaybeDecompressData under hx.Guard.
package main

import (
	"bytes"
	"fmt"
	"mime"
	"net/http"
	"os"
	"path/filepath"
	"strconv"
	"strings"
	"sync"

	"github.com/chrislusf/seaweedfs/weed/operation"
	"github.com/chrislusf/seaweedfs/weed/util"

	"verifharness/hx"
	"verifharness/vsx"
)

var tr *hx.Trace
var node *vsx.Node

const vid = 9

var nextKey uint64 = 1000

type upState struct {
	url    string
	key    []byte
	gzip   bool
	origLn int
}

var cur upState

// every upload since the last reset (a failed one leaves an empty entry): the targets of `cfetch`
var ups []upState

func reset() {
	ups = nil
	tr.Op("reset", nil, []string{"ok"})
}

// fnv64 (FNV-1a) of the fetched bytes: concurrent fetches report length:digest, the driver computes the same digest over the
// bytes the model yields and over the slice of the ORIGINAL of the blob each fetch addressed
func fnv64(b []byte) uint64 {
	h := uint64(14695981039346656037)
	for _, x := range b {
		h ^= uint64(x)
		h *= 1099511628211
	}
	return h
}

type rfetch struct {
	idx  int
	off  int64
	size int
}

// cfetch: k goroutines, each running its own list of RANGED fetches (ReadUrlAsStream, isFullChunk=false) over the blobs uploaded
// since the last reset, all at the same time. One arg token per goroutine: idx:off:size,idx:off:size,…; one out token per fetch
// (goroutine-major): len:fnv64 | err | panic | noupload.
func cfetch(plans [][]rfetch) {
	var args []string
	for _, pl := range plans {
		var t []string
		for _, f := range pl {
			t = append(t, fmt.Sprintf("%d:%d:%d", f.idx, f.off, f.size))
		}
		args = append(args, strings.Join(t, ","))
	}
	targets := append([]upState{}, ups...)
	tr.Op("cfetch", args, hx.Guard(func() []string {
		res := make([][]string, len(plans))
		var wg sync.WaitGroup
		start := make(chan struct{})
		for g := range plans {
			wg.Add(1)
			go func(g int) {
				defer wg.Done()
				<-start
				for _, f := range plans[g] {
					res[g] = append(res[g], func() (out string) {
						defer func() {
							if recover() != nil {
								out = "panic"
							}
						}()
						if f.idx >= len(targets) || targets[f.idx].url == "" {
							return "noupload"
						}
						u := targets[f.idx]
						var buf []byte
						_, err := util.ReadUrlAsStream(u.url, u.key, u.gzip, false, f.off, f.size, func(d []byte) {
							buf = append(buf, d...)
						})
						if err != nil {
							return "err"
						}
						return fmt.Sprintf("%d:%d", len(buf), fnv64(buf))
					}())
				}
			}(g)
		}
		close(start)
		wg.Wait()
		var out []string
		for _, r := range res {
			out = append(out, r...)
		}
		return out
	}))
}

// up: args = name mime cipher inputCompressed viaReader data | oracles: detected extmime gz128 gzip(data) decompress(data)
func up(name, mtype string, cipher, inputCompressed, viaReader bool, data []byte) {
	nextKey++
	key := nextKey
	detected := http.DetectContentType(data)
	extMime := mime.TypeByExtension(strings.ToLower(filepath.Ext(name)))
	gz128 := false
	if len(data) >= 128 {
		c, _ := util.GzipData(data[0:128])
		gz128 = len(c)*10 < 128*9
	}
	gz, _ := util.GzipData(data)
	var unz []byte
	unzOk := "0"
	if inputCompressed {
		hx.Guard(func() []string {
			u, err := util.DecompressData(data)
			unz = u
			if err == nil {
				unzOk = "1"
			}
			return nil
		})
	}
	args := []string{hx.HexS(name), hx.HexS(mtype), hx.B(cipher), hx.B(inputCompressed), hx.B(viaReader), hx.Hex(data),
		hx.HexS(detected), hx.HexS(extMime), hx.B(gz128), hx.Hex(gz), unzOk, hx.Hex(unz)}
	tr.Op("up", args, hx.Guard(func() []string {
		url := "http://" + node.Addr + "/" + vsx.Fid(vid, key, 0x0badcafe)
		var res *operation.UploadResult
		var err error
		if viaReader {
			res, err, _ = operation.Upload(url, name, cipher, bytes.NewReader(data), inputCompressed, mtype, nil, "")
		} else {
			res, err = operation.UploadData(url, name, cipher, data, inputCompressed, mtype, nil, "")
		}
		if err != nil || res == nil {
			cur = upState{}
			ups = append(ups, cur)
			return []string{"err"}
		}
		cur = upState{url: url, key: res.CipherKey, gzip: res.Gzip > 0}
		ups = append(ups, cur)
		out := []string{"ok", hx.U(uint64(res.Size)), hx.B(res.Gzip > 0), hx.B(res.CipherKey != nil), hx.HexS(res.Name), hx.HexS(res.Mime)}
		nd, rerr := node.ReadNeedle(vid, key, 0x0badcafe)
		if rerr != nil {
			return append(out, "nostored")
		}
		stored := nd.Data
		if res.CipherKey != nil {
			dec, derr := util.Decrypt(stored, util.CipherKey(res.CipherKey))
			if derr != nil {
				return append(out, "undecryptable")
			}
			// the model's abstract cipher: enc(x) = 0xff :: x
			stored = append([]byte{0xff}, dec...)
		}
		return append(out, hx.B(nd.IsCompressed()), hx.Hex(stored))
	}))
}

func fetch(full bool, off int64, size int) {
	a := []string{"full"}
	if !full {
		a = []string{hx.I(off), hx.I(int64(size))}
	}
	tr.Op("fetch", a, hx.Guard(func() []string {
		if cur.url == "" {
			return []string{"noupload"}
		}
		var buf []byte
		_, err := util.ReadUrlAsStream(cur.url, cur.key, cur.gzip, full, off, size, func(d []byte) {
			buf = append(buf, d...)
		})
		if err != nil {
			return []string{"err"}
		}
		return []string{"ok", hx.Hex(buf)}
	}))
}

func fuzz(maybe bool, in []byte) {
	op := "fuzz"
	if maybe {
		op = "fuzzmaybe"
	}
	tr.Op(op, []string{hx.Hex(in)}, hx.Guard(func() []string {
		if maybe {
			out := util.MaybeDecompressData(in)
			if bytes.Equal(out, in) {
				return []string{"same"}
			}
			return []string{"out", hx.I(int64(len(out)))}
		}
		out, err := util.DecompressData(in)
		if err == util.UnsupportedCompression {
			return []string{"unsupported", hx.B(bytes.Equal(out, in))}
		}
		if err != nil {
			return []string{"err"}
		}
		return []string{"ok", hx.I(int64(len(out)))}
	}))
}

var names = []string{"", "a.txt", "b.html", "c.jpg", "d.gz", "e.bin", "f", "g.JSON", "h.pdf", "i.svg", "k.zst", "l.js", "m.unknownext", "n.PNG", ".svg", ".txt", ".wav", ".zip", "x.xml", "with space.txt", "q\"uote.txt", "back\\slash.css"}
var mimes = []string{"", "", "", "text/plain", "text/html; charset=utf-8", "image/png", "image/svg+xml", "application/octet-stream", "application/json", "application/xml", "application/javascript", "application/zstd", "application/vnd.rar",
	"audio/wav", "audio/mpeg", "application/x-gzip", "video/mp4", "application/pdf"}

func genData(r *hx.Rng) []byte {
	n := r.Intn(300)
	switch r.Intn(12) {
	case 0:
		n = 0
	case 1:
		n = 16*1024 + 1 + r.Intn(2000)
	case 2:
		n = 16 * 1024
	}
	b := make([]byte, n)
	switch r.Intn(7) {
	case 0: // text
		for i := range b {
			b[i] = "the quick brown fox jumps over the lazy dog\n"[i%44]
		}
	case 1: // incompressible
		copy(b, r.Bytes(n))
	case 2: // gzip-looking prefix, garbage after
		copy(b, r.Bytes(n))
		if n >= 2 {
			b[0], b[1] = 0x1f, 0x8b
		}
	case 3: // html
		copy(b, []byte("<html><body>"+strings.Repeat("x", n)))
	case 4: // binary zeros (compressible, detected as octet-stream)
	case 5: // png magic
		copy(b, r.Bytes(n))
		copy(b, []byte("\x89PNG\x0d\x0a\x1a\x0a"))
	default: // xml / json-ish text
		copy(b, []byte("<?xml version=\"1.0\"?>"+strings.Repeat("<a>1</a>", n/8+1)))
	}
	return b
}

func fetches(r *hx.Rng, n int) {
	fetch(true, 0, n)
	if n == 0 {
		return
	}
	fetch(false, 0, n)
	fetch(false, 0, 1)
	fetch(false, int64(n-1), 1)
	for i := 0; i < 3; i++ {
		off := r.Intn(n)
		fetch(false, int64(off), 1+r.Intn(n-off))
	}
}

func main() {
	a := hx.ParseArgs()
	tmp, err := os.MkdirTemp("", "c33")
	if err != nil {
		panic(err)
	}
	defer os.RemoveAll(tmp)
	vsx.Quiet(tmp)
	tr = hx.NewTrace(a.Out)
	defer tr.Close()
	node = vsx.NewNode(nil, "127.0.0.1:1")
	defer node.Close()
	if err := node.AddVolume(vid, "000", ""); err != nil {
		panic(err)
	}
	tr.Comment(fmt.Sprintf("c33 seed=%d tier=%s", a.Seed, a.Tier))
	if a.Ops != "" {
		replay(hx.ReadOps(a.Ops))
		return
	}
	r := hx.NewRng(hx.NewRng(a.Seed).U64()) // see c32: decorrelate consecutive seeds

	// ---- every name x mime class once, small text data, cipher on/off
	small := []byte("hello hello hello hello hello hello hello hello\n")
	for _, nm := range names {
		for _, mt := range mimes[2:] {
			reset()
			up(nm, mt, r.Chance(1, 4), false, r.Bool(), small)
			fetch(true, 0, len(small))
			fetch(false, 3, 7)
		}
	}
	// ---- random uploads
	for i := 0; i < a.N(150); i++ {
		data := genData(r)
		reset()
		inputCompressed := r.Chance(1, 5)
		orig := data
		if inputCompressed && !r.Chance(1, 6) {
			data, _ = util.GzipData(orig)
		} else if inputCompressed && len(data) >= 2 && data[0] == 0x1f && data[1] == 0x8b {
			data[0] = 0x1e // dishonest caller, but not gzip-looking: served raw everywhere
		}
		nm := r.Pick(names)
		if r.Chance(1, 15) {
			nm = strings.Repeat("n", 250+r.Intn(10)) + ".txt"
		}
		up(nm, r.Pick(mimes), r.Chance(1, 3), inputCompressed, r.Bool(), data)
		n := len(orig)
		if inputCompressed && !bytes.Equal(orig, data) {
			n = len(orig)
		}
		fetches(r, n)
	}
	// ---- the "first 128 bytes compress below 90%" decision (undecided type, more than 16 KiB)
	for k := 0; k < 4; k++ {
		big := make([]byte, 16*1024+1+r.Intn(500))
		if k%2 == 1 {
			copy(big, r.Bytes(len(big)))
			big[0] = 0 // not sniffed as text or media
		}
		reset()
		up(r.Pick([]string{"", "e.bin", "f"}), "", k >= 2, false, r.Bool(), big)
		fetch(true, 0, len(big))
		fetch(false, int64(r.Intn(1000)), 1+r.Intn(15000))
	}
	// ---- payloads that themselves start with the gzip magic (a real .gz archive; gzip-looking garbage; a truncated stream),
	// uploaded with an explicit compressible mime type and cipher off (and on): compressed once more, fetched back as uploaded
	{
		inner := bytes.Repeat([]byte("inner content of the archive, "), 40+r.Intn(40))
		archive, _ := util.GzipData(inner)
		garbage := append([]byte{0x1f, 0x8b}, r.Bytes(60+r.Intn(200))...)
		for _, d := range [][]byte{archive, garbage, archive[:len(archive)/2], {0x1f, 0x8b}} {
			for _, nm := range [][2]string{{"dump.sql.gz", "text/plain"}, {"feed", "application/atom+xml"}, {"backup.log", "text/x-log"}, {"a.js", "application/javascript"}, {"x.gz", ""}, {"", "application/json"}} {
				for _, cipher := range []bool{false, true} {
					if cipher && nm[0] != "feed" {
						continue
					}
					reset()
					up(nm[0], nm[1], cipher, false, r.Bool(), d)
					fetches(r, len(d))
				}
			}
		}
	}
	// ---- concurrency: several goroutines fetch ranges of DIFFERENT compressed blobs (and one plain, one encrypted) at the same
	// time; every result is judged against the blob it addressed
	for round := 0; round < a.N(1); round++ {
		reset()
		words := []string{"needle", "volume", "filer", "master", "chunk", "offset", "cookie", "replica", "\n"}
		var sizes []int
		nblobs := 8
		for i := 0; i < nblobs; i++ {
			n := 60000 + i*1111 + r.Intn(500)
			var b bytes.Buffer
			for b.Len() < n {
				b.WriteString(r.Pick(words))
				b.WriteByte(byte('0' + i)) // the blobs differ everywhere
			}
			data := b.Bytes()[:n]
			switch i {
			case 6:
				up("plain.bin", "application/octet-stream", false, false, false, data[:9000]) // stored as is
				sizes = append(sizes, 9000)
			case 7:
				up("enc.txt", "text/plain", true, false, false, data[:9000]) // encrypted
				sizes = append(sizes, 9000)
			default:
				up(fmt.Sprintf("doc%d.txt", i), "text/plain", false, false, false, data) // stored gzipped
				sizes = append(sizes, n)
			}
			fetch(false, int64(r.Intn(1000)), 1+r.Intn(5000))
		}
		plans := make([][]rfetch, 16)
		for g := range plans {
			for it := 0; it < 60; it++ {
				idx := r.Intn(nblobs)
				size := sizes[idx]/3 + r.Intn(sizes[idx]/2)
				plans[g] = append(plans[g], rfetch{idx, int64(r.Intn(sizes[idx] - size)), size})
			}
		}
		cfetch(plans)
	}
	// ---- a caller that claims "already compressed" for bytes with the gzip magic and a malformed header
	for _, d := range [][]byte{{0x1f, 0x8b}, {0x1f, 0x8b, 8}} {
		for _, cipher := range []bool{false, true} {
			reset()
			up("m.bin", "", cipher, true, false, d)
			fetch(true, 0, 0)
			fetch(false, 0, 1)
		}
	}
	// ---- decompression helpers on arbitrary input
	valid, _ := util.GzipData([]byte("some valid gzip payload, some valid gzip payload"))
	for _, in := range [][]byte{nil, {0x1f}, {0x1f, 0x8b}, {0x1f, 0x8b, 8}, {0x1f, 0x8b, 8, 0, 0, 0, 0, 0, 0}, {0x1f, 0x8b, 8, 0, 0, 0, 0, 0, 0, 0xff}, {0x1f, 0x8b, 9, 0, 0, 0, 0, 0, 0, 0xff, 1, 2},
		valid, valid[:len(valid)-1], valid[:len(valid)-8], valid[:12], append(append([]byte{}, valid...), 1, 2, 3), append(append([]byte{}, valid...), valid...), []byte("plain"), {0x28, 0xb5, 0x2f, 0xfd, 0, 0}} {
		fuzz(false, in)
		fuzz(true, in)
	}
	for i := 0; i < a.N(2000); i++ {
		var in []byte
		switch r.Intn(4) {
		case 0:
			in = r.Bytes(r.Intn(40))
		case 1: // valid stream with flipped bytes / truncated
			in = append([]byte{}, valid...)
			for k := 0; k < 1+r.Intn(3); k++ {
				in[r.Intn(len(in))] ^= byte(1 << uint(r.Intn(8)))
			}
			in = in[:r.Intn(len(in)+1)]
		case 2: // magic + header flag bytes + garbage
			in = append([]byte{0x1f, 0x8b, 8, byte(r.Intn(32))}, r.Bytes(r.Intn(30))...)
		default:
			in = append([]byte{0x1f, 0x8b}, r.Bytes(r.Intn(12))...)
		}
		fuzz(r.Bool(), in)
	}
}

func replay(ops [][]string) {
	for _, op := range ops {
		switch op[0] {
		case "reset":
			reset()
		case "up":
			up(hx.UnHexS(op[1]), hx.UnHexS(op[2]), op[3] == "1", op[4] == "1", op[5] == "1", hx.UnHex(op[6]))
		case "fetch":
			if op[1] == "full" {
				fetch(true, 0, 0)
			} else {
				off, _ := strconv.ParseInt(op[1], 10, 64)
				sz, _ := strconv.Atoi(op[2])
				fetch(false, off, sz)
			}
		case "cfetch":
			var plans [][]rfetch
			for _, t := range op[1:] {
				var pl []rfetch
				for _, e := range strings.Split(t, ",") {
					var f rfetch
					if _, err := fmt.Sscanf(e, "%d:%d:%d", &f.idx, &f.off, &f.size); err == nil {
						pl = append(pl, f)
					}
				}
				plans = append(plans, pl)
			}
			cfetch(plans)
		case "fuzz":
			fuzz(false, hx.UnHex(op[1]))
		case "fuzzmaybe":
			fuzz(true, hx.UnHex(op[1]))
		}
	}
}
