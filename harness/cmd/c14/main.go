// c14: correspondence harness for C14 (vacuum rounds keep replicas consistent and writable).
//
// One case = one real Topology.Vacuum round over ONE volume with 1–3 replicas. The replicas are
// in-process fake volume servers (gRPC on loopback, reached by the real code through
// operation.WithVolumeServerClient: data node ip:port → gRPC port+10000) whose
// VacuumVolumeCheck/Compact/Commit/Cleanup answers are scripted per case. Outputs: the RPCs every
// replica received (in order), whether the volume is in the layout's writables before and after
// the round, and whether the phases were globally ordered.
//
//	round <copyCount> <rep0> [<rep1> [<rep2>]] => <wBefore> <rpcs0> … <wAfter> <ordered>
//	rep = <ro><ov><check><compact><commit><cleanup>   ro,ov ∈ {0,1}
//	      check o|l|e|t (ok above threshold | below | error | timeout)  compact o|e|t  commit o|r|e (r = ok, replies read-only)  cleanup o|e
//	rpcs = string over K(check) C(compact) M(commit) L(cleanup), "-" if none
package main

import (
	"context"
	"errors"
	"fmt"
	"net"
	"os"
	"sync"

	"google.golang.org/grpc"

	"github.com/chrislusf/seaweedfs/weed/pb/master_pb"
	"github.com/chrislusf/seaweedfs/weed/pb/volume_server_pb"
	"github.com/chrislusf/seaweedfs/weed/sequence"
	"github.com/chrislusf/seaweedfs/weed/storage/needle"
	"github.com/chrislusf/seaweedfs/weed/storage/super_block"
	"github.com/chrislusf/seaweedfs/weed/storage/types"
	"github.com/chrislusf/seaweedfs/weed/topology"

	"verifharness/hx"
)

const volumeSizeLimit = 1024 * 1024
const vid = 7

// ---------------------------------------------------------------- fake volume servers

type recorder struct {
	mu  sync.Mutex
	seq int
	gen int // round number: a handler released after its round ended must not touch the next round's log
	log []call
}
type call struct {
	server int
	rpc    byte
	start  int
	end    int
}

type fakeVS struct {
	volume_server_pb.UnimplementedVolumeServerServer
	idx     int
	set     *serverSet
	script  string // <check><compact><commit><cleanup>
	release chan struct{}
}

type serverSet struct {
	servers []*fakeVS
	ports   []int // http ports (gRPC = +10000)
	grpcs   []*grpc.Server
	rec     *recorder
}

func (f *fakeVS) begin(rpc byte) [2]int {
	r := f.set.rec
	r.mu.Lock()
	defer r.mu.Unlock()
	r.seq++
	r.log = append(r.log, call{server: f.idx, rpc: rpc, start: r.seq})
	return [2]int{r.gen, len(r.log) - 1}
}
func (f *fakeVS) finish(k [2]int) {
	r := f.set.rec
	r.mu.Lock()
	defer r.mu.Unlock()
	if k[0] != r.gen || k[1] >= len(r.log) {
		return
	}
	r.seq++
	r.log[k[1]].end = r.seq
}

var errScripted = errors.New("scripted failure")

func (f *fakeVS) VacuumVolumeCheck(ctx context.Context, req *volume_server_pb.VacuumVolumeCheckRequest) (*volume_server_pb.VacuumVolumeCheckResponse, error) {
	k := f.begin('K')
	defer f.finish(k)
	switch f.script[0] {
	case 'o':
		return &volume_server_pb.VacuumVolumeCheckResponse{GarbageRatio: 0.9}, nil
	case 'l':
		return &volume_server_pb.VacuumVolumeCheckResponse{GarbageRatio: 0.1}, nil
	case 't':
		<-f.release
		return nil, errScripted
	}
	return nil, errScripted
}
func (f *fakeVS) VacuumVolumeCompact(ctx context.Context, req *volume_server_pb.VacuumVolumeCompactRequest) (*volume_server_pb.VacuumVolumeCompactResponse, error) {
	k := f.begin('C')
	defer f.finish(k)
	switch f.script[1] {
	case 'o':
		return &volume_server_pb.VacuumVolumeCompactResponse{}, nil
	case 't':
		<-f.release
		return nil, errScripted
	}
	return nil, errScripted
}
func (f *fakeVS) VacuumVolumeCommit(ctx context.Context, req *volume_server_pb.VacuumVolumeCommitRequest) (*volume_server_pb.VacuumVolumeCommitResponse, error) {
	k := f.begin('M')
	defer f.finish(k)
	switch f.script[2] {
	case 'o':
		return &volume_server_pb.VacuumVolumeCommitResponse{IsReadOnly: false}, nil
	case 'r':
		return &volume_server_pb.VacuumVolumeCommitResponse{IsReadOnly: true}, nil
	}
	return nil, errScripted
}
func (f *fakeVS) VacuumVolumeCleanup(ctx context.Context, req *volume_server_pb.VacuumVolumeCleanupRequest) (*volume_server_pb.VacuumVolumeCleanupResponse, error) {
	k := f.begin('L')
	defer f.finish(k)
	if f.script[3] == 'o' {
		return &volume_server_pb.VacuumVolumeCleanupResponse{}, nil
	}
	return nil, errScripted
}

var nextPort = 0

func newServerSet(n int) *serverSet {
	ss := &serverSet{rec: &recorder{}}
	if nextPort == 0 {
		nextPort = 21000 + (os.Getpid()%2000)*10
	}
	for i := 0; i < n; i++ {
		var lis net.Listener
		var port int
		for tries := 0; ; tries++ {
			port = nextPort
			nextPort++
			if nextPort > 50000 {
				nextPort = 21000
			}
			l, err := net.Listen("tcp", fmt.Sprintf("127.0.0.1:%d", port+10000))
			if err == nil {
				lis = l
				break
			}
			if tries > 5000 {
				fmt.Fprintln(os.Stderr, "c14: no free loopback port")
				os.Exit(2)
			}
		}
		f := &fakeVS{idx: i, set: ss, script: "oooo", release: make(chan struct{})}
		g := grpc.NewServer()
		volume_server_pb.RegisterVolumeServerServer(g, f)
		go g.Serve(lis)
		ss.servers = append(ss.servers, f)
		ss.ports = append(ss.ports, port)
		ss.grpcs = append(ss.grpcs, g)
	}
	return ss
}

func (ss *serverSet) stop() {
	for _, g := range ss.grpcs {
		g.Stop()
	}
}

// ---------------------------------------------------------------- one round

func writable(vl *topology.VolumeLayout) bool {
	ws, _ := vl.ToMap()["writables"].([]needle.VolumeId)
	for _, v := range ws {
		if v == vid {
			return true
		}
	}
	return false
}

func validRep(s string) bool {
	if len(s) != 6 {
		return false
	}
	in := func(c byte, set string) bool {
		for k := 0; k < len(set); k++ {
			if set[k] == c {
				return true
			}
		}
		return false
	}
	return in(s[0], "01") && in(s[1], "01") && in(s[2], "olet") && in(s[3], "oet") && in(s[4], "ore") && in(s[5], "oe")
}

func round(ss *serverSet, args []string) []string {
	if len(args) < 2 || len(args) > 4 {
		return []string{"invalid"}
	}
	cc := 0
	fmt.Sscan(args[0], &cc)
	reps := args[1:]
	if cc < 1 || cc > 3 {
		return []string{"invalid"}
	}
	for _, r := range reps {
		if !validRep(r) {
			return []string{"invalid"}
		}
	}
	n := len(reps)
	ss.rec.mu.Lock()
	ss.rec.log = nil
	ss.rec.seq = 0
	ss.rec.gen++
	ss.rec.mu.Unlock()

	topo := topology.NewTopology("topo", sequence.NewMemorySequencer(), volumeSizeLimit, 5, false)
	dc := topo.GetOrCreateDataCenter("dc1")
	rack := dc.GetOrCreateRack("rack1")
	rp, _ := super_block.NewReplicaPlacementFromByte(byte(cc - 1)) // 000 / 001 / 002: copy count = cc
	for i := 0; i < n; i++ {
		ss.servers[i].script = reps[i][2:]
		ss.servers[i].release = make(chan struct{})
		dn := rack.GetOrCreateDataNode("127.0.0.1", ss.ports[i], "127.0.0.1", map[string]uint32{"": 10})
		size := uint64(1000)
		if reps[i][1] == '1' {
			size = volumeSizeLimit + 5
		}
		topo.SyncDataNodeRegistration([]*master_pb.VolumeInformationMessage{{
			Id: vid, Size: size, Collection: "", FileCount: 10, DeleteCount: 5, DeletedByteCount: 500,
			ReadOnly: reps[i][0] == '1', ReplicaPlacement: uint32(rp.Byte()), Version: uint32(needle.CurrentVersion), Ttl: 0,
		}}, dn)
	}
	vl := topo.GetVolumeLayout("", rp, needle.EMPTY_TTL, types.HardDriveType)
	wBefore := writable(vl)

	topo.Vacuum(grpc.WithInsecure(), 0.3, 0)

	wAfter := writable(vl)
	ss.rec.mu.Lock()
	log := append([]call(nil), ss.rec.log...)
	ss.rec.mu.Unlock()
	for i := 0; i < n; i++ {
		close(ss.servers[i].release) // let timed-out handlers go
	}
	per := make([]string, n)
	for _, c := range log {
		if c.server < n {
			per[c.server] += string(c.rpc)
		}
	}
	// global phase order: every check ends before a compact starts, every compact ends before a
	// commit/cleanup starts (calls that never ended — timeouts — are ignored for "ends")
	ordered := true
	rank := map[byte]int{'K': 0, 'C': 1, 'M': 2, 'L': 2}
	for _, x := range log {
		for _, y := range log {
			if rank[x.rpc] < rank[y.rpc] && x.end != 0 && x.end > y.start {
				ordered = false
			}
		}
	}
	// commits are sequential
	for _, x := range log {
		for _, y := range log {
			if x.rpc == 'M' && y.rpc == 'M' && x.start < y.start && x.end > y.start {
				ordered = false
			}
		}
	}
	out := []string{hx.B(wBefore)}
	for i := 0; i < n; i++ {
		if per[i] == "" {
			per[i] = "-"
		}
		out = append(out, per[i])
	}
	return append(out, hx.B(wAfter), hx.B(ordered))
}

// ---------------------------------------------------------------- generators

var chk = "ole"
var cmp = "oe"
var cmt = "ore"

func repOutcomes() []string {
	var out []string
	for _, a := range chk {
		for _, b := range cmp {
			for _, c := range cmt {
				out = append(out, string([]rune{a, b, c}))
			}
		}
	}
	return out
}

func flags(r *hx.Rng) string {
	ro, ov := "0", "0"
	if r.Chance(1, 12) {
		ro = "1"
	}
	if r.Chance(1, 8) {
		ov = "1"
	}
	return ro + ov
}
func cl(r *hx.Rng) string {
	if r.Chance(1, 4) {
		return "e"
	}
	return "o"
}
func copyCount(r *hx.Rng, n int) string {
	if r.Chance(1, 8) {
		return fmt.Sprint(1 + r.Intn(3))
	}
	return fmt.Sprint(n)
}

func main() {
	a := hx.ParseArgs()
	tr := hx.NewTrace(a.Out)
	defer tr.Close()
	if dn, e := os.OpenFile(os.DevNull, os.O_WRONLY, 0); e == nil && a.Out != "" {
		os.Stderr = dn // glog of the code under test
	}
	ss := newServerSet(3)
	defer ss.stop()
	do := func(args []string) {
		tr.Op("round", args, hx.Guard(func() []string { return round(ss, args) }))
	}
	if a.Ops != "" {
		for _, l := range hx.ReadOps(a.Ops) {
			if l[0] != "round" {
				tr.Op(l[0], l[1:], []string{"unknown-op"})
				continue
			}
			hasTimeout := false
			for _, x := range l[2:] {
				if len(x) == 6 && (x[2] == 't' || x[3] == 't') {
					hasTimeout = true
				}
			}
			if hasTimeout && !a.Thorough() {
				// real timers are 1 and 3 minutes: only replayed in the thorough tier
				tr.Comment("skipped (timeout case, thorough tier only): " + fmt.Sprint(l))
				continue
			}
			do(l[1:])
		}
		return
	}
	r := hx.NewRng(a.Seed)

	// thorough: the two timeout arms with the real 1 min / 3 min timers, in parallel on their own servers
	type tcase struct {
		args []string
		outs []string
	}
	var tcases []*tcase
	var wg sync.WaitGroup
	if a.Thorough() {
		tcases = []*tcase{
			{args: []string{"2", "00tooo", "00oooo"}},
			{args: []string{"2", "00otoo", "00oooo"}},
		}
		for _, tc := range tcases {
			wg.Add(1)
			set := newServerSet(2)
			go func(tc *tcase, set *serverSet) {
				defer wg.Done()
				defer set.stop()
				tc.outs = hx.Guard(func() []string { return round(set, tc.args) })
			}(tc, set)
		}
	}

	outs := repOutcomes()
	// n = 1, 2: every outcome combination, clean layout, then with random layout flags
	for _, x := range outs {
		do([]string{"1", "00" + x + "o"})
		do([]string{copyCount(r, 1), flags(r) + x + cl(r)})
		do([]string{"1", "01" + x + "o"})
	}
	for _, x := range outs {
		for _, y := range outs {
			do([]string{"2", "00" + x + "o", "00" + y + "o"})
			if r.Chance(1, 3) {
				do([]string{copyCount(r, 2), flags(r) + x + cl(r), flags(r) + y + cl(r)})
			}
			if r.Chance(1, 6) {
				do([]string{"2", "0" + fmt.Sprint(r.Intn(2)) + x + "o", "01" + y + "o"})
			}
		}
	}
	// n = 3: every combination in the thorough tier, a random sample in quick
	if a.Thorough() {
		for _, x := range outs {
			for _, y := range outs {
				for _, z := range outs {
					do([]string{"3", "00" + x + "o", "00" + y + "o", "00" + z + "o"})
				}
			}
		}
	}
	m := a.N(700)
	if a.Thorough() {
		m = a.N(150)
	}
	for k := 0; k < m; k++ {
		x, y, z := outs[r.Intn(len(outs))], outs[r.Intn(len(outs))], outs[r.Intn(len(outs))]
		if r.Chance(1, 2) { // bias towards rounds that reach compact/commit
			x = "o" + x[1:]
			y = "o" + y[1:]
		}
		if k%2 == 0 {
			do([]string{"3", "00" + x + "o", "00" + y + "o", "00" + z + "o"})
		} else {
			do([]string{copyCount(r, 3), flags(r) + x + cl(r), flags(r) + y + cl(r), flags(r) + z + cl(r)})
		}
	}
	wg.Wait()
	for _, tc := range tcases {
		tr.Op("round", tc.args, tc.outs)
	}
}
