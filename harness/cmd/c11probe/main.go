package main

import (
	"fmt"

	"github.com/chrislusf/seaweedfs/weed/sequence"
	"github.com/chrislusf/seaweedfs/weed/storage/erasure_coding"
	"github.com/chrislusf/seaweedfs/weed/storage/needle"
	"github.com/chrislusf/seaweedfs/weed/topology"
)

func main() {
	for trial := 0; trial < 6; trial++ {
		topo := topology.NewTopology("t", sequence.NewMemorySequencer(), 1000, 5, false)
		dn := topo.GetOrCreateDataCenter("dc1").GetOrCreateRack("r1").GetOrCreateDataNode("s1", 8080, "", map[string]uint32{"": 10})
		ec := func(vid uint32, bits uint32) *erasure_coding.EcVolumeInfo {
			return erasure_coding.NewEcVolumeInfo("", "", needle.VolumeId(vid), erasure_coding.ShardBits(bits))
		}
		dn.UpdateEcShards([]*erasure_coding.EcVolumeInfo{ec(1, 1), ec(2, 1)})
		fmt.Println("after 2 vols x1 shard:", topology.NodeUsagesVerif(dn))
		dn.UpdateEcShards([]*erasure_coding.EcVolumeInfo{ec(1, 7), ec(2, 1)})
		fmt.Println("after vol1 +2 shards (expect ec=4):", topology.NodeUsagesVerif(dn), topology.NodeUsagesVerif(topo))
		// max counts: two types change in one heartbeat
		dn.AdjustMaxVolumeCounts(map[string]uint32{"": 20, "ssd": 7})
		fmt.Println("after max hdd=20 ssd=7:", topology.NodeUsagesVerif(dn))
		for _, c := range dn.Children() {
			fmt.Println("   disk", c.Id(), topology.NodeUsagesVerif(c))
		}
	}
}
