// c04: correspondence harness for C04 (compaction is invisible to readers).
//
// A REAL storage.Store with one volume in a temp dir (package vol of the C01 harness); blobs are
// written / deleted / read through Store.{Write,Delete,Read}VolumeNeedle, the volume is compacted
// with the exported Volume.Compact (scan of the .dat) or Volume.Compact2 (walk of the .idx) and the
// compaction is committed with Volume.CommitCompact. A history has three phases: operations before
// Compact, operations between Compact and CommitCompact (they land in the old files and are replayed
// by makeupDiff), and reads after the commit. Every id of the history is read before and after the
// commit.
//
// Times: LastModified travels as an AGE in seconds relative to the time of `reset`; the generator
// keeps every vacuum TTL decision >= 400 s away from its edge and every needle TTL >= 1 h, so the
// wall-clock time spent by the harness never matters.
//
// Line protocol (stateful; every case starts with `reset`):
//   reset <mem|ldb> <volTtl|->                                  => ok
//   w <id> <ck> <data> <flags> <name> <mime> <pairs> <lmAge> <ttlc> <ttlu> => <ok|ro|cookie|err> <unchanged>
//   d <id> <ck>                                                 => <ok|ro|err> <size>
//   r <id> <ck>                                                 => ok <count> <cookie> <data> <flags> <name> <mime> <pairs> <lmAge> <ttlc> <ttlu> | notfound -1 | deleted -1 | err 0
//   compact <1|2>                                               => ok|err
//   commit                                                      => ok <keys of the entries of the new .idx, in file order> | nocompact | err
package main

import (
	"flag"
	"fmt"
	"os"
	"path/filepath"
	"strconv"
	"strings"
	"time"

	"github.com/chrislusf/seaweedfs/weed/storage/idx"
	"github.com/chrislusf/seaweedfs/weed/storage/types"

	"verifharness/cmd/c01/vol"
	"verifharness/hx"
)

type line struct {
	op         string
	args, outs []string
}

type runner struct {
	env     *vol.Env
	lines   []line
	base    int64 // unix seconds at reset
	pending bool  // a Compact ran and was not committed yet
}

func u64(s string) uint64 { v, _ := strconv.ParseUint(s, 10, 64); return v }

// lm age token <-> absolute LastModified (only when the flag is set)
func (x *runner) absLm(c *vol.Content) {
	if c.Flags&8 != 0 {
		c.Lm = uint64(x.base - int64(c.Lm))
	}
}

func (x *runner) idxKeys() string {
	f, err := os.Open(filepath.Join(x.env.Dir, "1.idx"))
	if err != nil {
		return "err"
	}
	defer f.Close()
	var ks []string
	idx.WalkIndexFile(f, func(key types.NeedleId, offset types.Offset, size types.Size) error {
		if os.Getenv("C04_DEBUG_IDX") != "" {
			ks = append(ks, fmt.Sprintf("%d:%d:%d", uint64(key), offset.ToActualOffset(), int32(size)))
			return nil
		}
		ks = append(ks, strconv.FormatUint(uint64(key), 10))
		return nil
	})
	if len(ks) == 0 {
		return "-"
	}
	return strings.Join(ks, ",")
}

func (x *runner) exec(f []string) {
	env := x.env
	op, a := f[0], f[1:]
	outs := hx.Guard(func() []string {
		switch op {
		case "reset":
			ttl := a[1]
			if ttl == "-" {
				ttl = ""
			}
			x.pending = false
			if err := env.Reset(a[0], ttl); err != nil {
				return []string{"err"}
			}
			x.base = time.Now().Unix()
			return []string{"ok"}
		case "w":
			c := vol.ParseContent(a[2:10])
			x.absLm(c)
			return env.Write(u64(a[0]), uint32(u64(a[1])), c, false)
		case "d":
			return env.Delete(u64(a[0]), uint32(u64(a[1])))
		case "r":
			o := env.Read(u64(a[0]), uint32(u64(a[1])))
			if len(o) >= 11 && o[0] == "ok" {
				if u64(o[4])&8 != 0 {
					o[8] = hx.U(uint64(x.base - int64(u64(o[8])))) // a LastModified ahead of the clock is a negative age (two's complement)
				}
			}
			return o
		case "compact":
			v := env.Store.GetVolume(vol.Vid)
			if v == nil {
				return []string{"novol"}
			}
			var err error
			if a[0] == "1" {
				err = v.Compact(0, 0)
			} else {
				err = v.Compact2(0, 0)
			}
			if err != nil {
				return []string{"err"}
			}
			x.pending = true
			return []string{"ok"}
		case "commit":
			v := env.Store.GetVolume(vol.Vid)
			if v == nil {
				return []string{"novol"}
			}
			if !x.pending {
				return []string{"nocompact"}
			}
			x.pending = false
			if err := v.CommitCompact(); err != nil {
				return []string{"err"}
			}
			return []string{"ok", x.idxKeys()}
		}
		return []string{"unknown-op"}
	})
	x.lines = append(x.lines, line{op, a, outs})
}

func (x *runner) w(id uint64, ck uint32, c *vol.Content) {
	x.exec(append([]string{"w", hx.U(id), hx.U(uint64(ck))}, vol.ContentArgs(c)...))
}
func (x *runner) op2(op string, id uint64, ck uint32) { x.exec([]string{op, hx.U(id), hx.U(uint64(ck))}) }
// sweep reads every id; it reports whether a read failed with an I/O error (the .dat was truncated
// by the reload: what later operations on the dangling index entries do depends on the bytes that
// happen to follow, so the generators end the history there)
func (x *runner) sweep(ids []uint64, ck uint32) bool {
	bad := false
	for _, id := range ids {
		x.op2("r", id, ck)
		if o := x.lines[len(x.lines)-1].outs; len(o) > 0 && o[0] == "err" {
			bad = true
		}
	}
	return bad
}

// ---- generators -------------------------------------------------------------------

const ck0 = uint32(0x1234abcd)

type sym struct {
	op string
	id uint64
	c  *vol.Content
}

func alphabet() []sym {
	var al []sym
	for id := uint64(1); id <= 2; id++ {
		al = append(al, sym{"w", id, &vol.Content{Data: []byte("alpha")}}, sym{"w", id, &vol.Content{Data: []byte("beta-beta"), Flags: 2, Name: []byte("b.txt")}},
			sym{"w", id, &vol.Content{}}, sym{"d", id, nil})
	}
	return al
}

func (x *runner) runSym(s sym) {
	if s.op == "w" {
		x.w(s.id, ck0, s.c)
	} else {
		x.op2("d", s.id, ck0)
	}
}

func words(n, length int) [][]int {
	if length == 0 {
		return [][]int{{}}
	}
	var out [][]int
	for _, w := range words(n, length-1) {
		for k := 0; k < n; k++ {
			out = append(out, append(append([]int{}, w...), k))
		}
	}
	return out
}

// bounded-exhaustive: every (pre word ≤ maxPre, during word ≤ maxDur) × algorithm, on a fresh volume
func exhaustive(x *runner, kind string, alg string, maxPre, maxDur int, first int) {
	al := alphabet()
	ids := []uint64{1, 2}
	for lp := 1; lp <= maxPre; lp++ {
		for _, pre := range words(len(al), lp) {
			if pre[0] != first {
				continue
			}
			for ld := 0; ld <= maxDur; ld++ {
				for _, dur := range words(len(al), ld) {
					x.exec([]string{"reset", kind, "-"})
					for _, k := range pre {
						x.runSym(al[k])
					}
					x.exec([]string{"compact", alg})
					for _, k := range dur {
						x.runSym(al[k])
					}
					x.sweep(ids, ck0)
					x.exec([]string{"commit"})
					x.sweep(ids, ck0)
				}
			}
		}
	}
}

var volTtls = []struct {
	s   string
	sec int64
}{{"-", 0}, {"-", 0}, {"1h", 3600}, {"3h", 10800}, {"20m", 1200}}

func randContent(rng *hx.Rng, prev []*vol.Content, volSec int64) *vol.Content {
	c := &vol.Content{}
	switch {
	case len(prev) > 0 && rng.Chance(1, 5):
		p := *prev[rng.Intn(len(prev))]
		return &p
	case rng.Chance(1, 6):
		c.Data = nil
	case rng.Chance(1, 30):
		c.Data = rng.Bytes(1 + rng.Intn(3000))
	default:
		c.Data = rng.Bytes(1 + rng.Intn(40))
	}
	if rng.Chance(1, 3) {
		c.Flags |= 2
		c.Name = rng.Bytes(1 + rng.Intn(10))
	}
	if rng.Chance(1, 4) {
		c.Flags |= 4
		c.Mime = []byte("text/plain")
	}
	if rng.Chance(2, 3) {
		c.Flags |= 8
		// age of LastModified: fresh, safely younger than the volume TTL, safely older
		switch rng.Intn(4) {
		case 0:
			c.Lm = 0
		case 1:
			if volSec >= 800 {
				c.Lm = uint64(volSec - 400)
			}
		case 2:
			c.Lm = uint64(volSec + 400)
		default:
			c.Lm = uint64(2*volSec + 100000)
		}
	}
	if rng.Chance(1, 4) {
		c.Flags |= 0x10
		c.TtlC, c.TtlU = byte(1+rng.Intn(200)), byte(2+rng.Intn(5)) // hours .. years
	}
	return c
}

func randomHistory(x *runner, rng *hx.Rng, kind string) {
	vt := volTtls[rng.Intn(len(volTtls))]
	x.exec([]string{"reset", kind, vt.s})
	nid := 1 + rng.Intn(6)
	ids := make([]uint64, nid)
	for i := range ids {
		if rng.Bool() {
			ids[i] = 1 + uint64(rng.Intn(40))
		} else {
			ids[i] = 1 + rng.U64()%(1<<62)
		}
	}
	prev := map[uint64][]*vol.Content{}
	ops := func(n int) {
		for k := 0; k < n; k++ {
			id := ids[rng.Intn(nid)]
			switch r := rng.Intn(100); {
			case r < 60:
				c := randContent(rng, prev[id], vt.sec)
				prev[id] = append(prev[id], c)
				x.w(id, ck0, c)
			case r < 85:
				x.op2("d", id, ck0)
			default:
				x.op2("r", id, ck0)
			}
		}
	}
	rounds := 1 + rng.Intn(3)
	for r := 0; r < rounds; r++ {
		ops(rng.Intn(14))
		if rng.Chance(1, 4) {
			x.sweep(ids, ck0)
		}
		alg := "2"
		if rng.Bool() {
			alg = "1"
		}
		x.exec([]string{"compact", alg})
		if rng.Chance(2, 3) {
			ops(rng.Intn(7))
		}
		x.sweep(ids, ck0)
		x.exec([]string{"commit"})
		if x.sweep(ids, ck0) {
			return
		}
	}
	ops(rng.Intn(5))
	x.sweep(ids, ck0)
}

// aheadOfClock: TTL volumes holding blobs whose client-supplied LastModified lies AHEAD of the
// server clock (a client whose clock runs fast: +5 s, +2 h, ...) next to server-stamped and older
// ones; compaction long before anything expires, every id read before and after the commit.
// The age token of such a blob is negative (uint64 two's complement).
func aheadOfClock(x *runner, rng *hx.Rng, kind string) {
	vts := []string{"1d", "1h", "3h", "20m", "5w"}
	x.exec([]string{"reset", kind, vts[rng.Intn(len(vts))]})
	ahead := []int64{5, 7200, 60, 1 + int64(rng.Intn(100000))}
	nid := 2 + rng.Intn(4)
	ids := make([]uint64, nid)
	for i := range ids {
		ids[i] = uint64(1 + i)
		if rng.Chance(1, 3) {
			ids[i] = 100 + rng.U64()%(1<<40)
		}
	}
	put := func(i int, k int) {
		c := &vol.Content{Data: rng.Bytes(1 + rng.Intn(30)), Flags: 8}
		switch k % 4 {
		case 0, 1:
			c.Lm = uint64(-ahead[rng.Intn(len(ahead))])
			if i < 2 {
				c.Lm = uint64(-ahead[i])
			}
		case 2:
			c.Lm = 0
		default:
			c.Lm = 300
		}
		if rng.Chance(1, 4) {
			c.Flags |= 2
			c.Name = []byte("n.txt")
		}
		x.w(ids[i], ck0, c)
	}
	for i := range ids {
		put(i, i)
	}
	if rng.Chance(1, 3) {
		x.op2("d", ids[rng.Intn(nid)], ck0)
	}
	x.sweep(ids, ck0)
	rounds := 1 + rng.Intn(2)
	for r := 0; r < rounds; r++ {
		alg := "2"
		if rng.Bool() {
			alg = "1"
		}
		x.exec([]string{"compact", alg})
		if rng.Chance(1, 3) {
			put(rng.Intn(nid), rng.Intn(2))
		}
		x.sweep(ids, ck0)
		x.exec([]string{"commit"})
		if x.sweep(ids, ck0) {
			return
		}
	}
}

type task func(x *runner, rng *hx.Rng)

func main() {
	a := hx.ParseArgs()
	flag.Set("alsologtostderr", "false")
	flag.Set("stderrthreshold", "FATAL")
	tr := hx.NewTrace(a.Out)
	defer tr.Close()
	if a.Ops != "" {
		x := &runner{env: &vol.Env{}}
		for _, f := range hx.ReadOps(a.Ops) {
			x.exec(f)
		}
		x.env.Close()
		for _, l := range x.lines {
			tr.Op(l.op, l.args, l.outs)
		}
		return
	}
	var tasks []task
	maxPre, maxDur := 2, 1
	if a.Thorough() {
		maxPre, maxDur = 2, 2
	}
	nal := len(alphabet())
	for _, kind := range []string{"mem", "ldb"} {
		for _, alg := range []string{"1", "2"} {
			for f := 0; f < nal; f++ {
				kind, alg, f := kind, alg, f
				tasks = append(tasks, func(x *runner, rng *hx.Rng) { exhaustive(x, kind, alg, maxPre, maxDur, f) })
			}
		}
	}
	for i := 0; i < a.N(120); i++ {
		i := i
		tasks = append(tasks, func(x *runner, rng *hx.Rng) {
			kind := "mem"
			if i%2 == 1 {
				kind = "ldb"
			}
			randomHistory(x, rng, kind)
		})
	}
	for i := 0; i < a.N(24); i++ {
		i := i
		tasks = append(tasks, func(x *runner, rng *hx.Rng) {
			kind := "mem"
			if i%2 == 1 {
				kind = "ldb"
			}
			aheadOfClock(x, rng, kind)
		})
	}
	results := make([]chan []line, len(tasks))
	for i := range results {
		results[i] = make(chan []line, 1)
	}
	next := make(chan int, len(tasks))
	for i := range tasks {
		next <- i
	}
	close(next)
	for wk := 0; wk < 12; wk++ {
		go func() {
			for i := range next {
				x := &runner{env: &vol.Env{}}
				tasks[i](x, hx.NewRng(a.Seed*1000003+uint64(i)))
				x.env.Close()
				results[i] <- x.lines
			}
		}()
	}
	for i := range tasks {
		for _, l := range <-results[i] {
			tr.Op(l.op, l.args, l.outs)
		}
	}
	if tr.Lines == 0 {
		fmt.Fprintln(os.Stderr, "no history ran")
		os.Exit(2)
	}
}
