// c39: correspondence harness for C39 (the mount's path-to-node cache, weed/filesys/fscache.go).
// Drives the real FsCache (constructor through the verif hook NewFsCacheVerif) with
// bounded-exhaustive and random operation sequences over a small path universe and looks
// every path of the universe up after every mutation.
//
//	reset =>
//	set <path> <id> =>                 SetFsNode(path, node#id)
//	ensure <path> <id> => <id>          EnsureFsNode(path, gen node#id) -> id of the returned node
//	del <path> =>                      DeleteFsNode(path)
//	move <old> <new> => ok|absent|invalid|panic     Move(old, new); invalid = old or new is "/" (never issued by a mount)
//	get <path> => <id>|nil
//
// Nodes are fake fs.Node values carrying an id (FsCache only type-switches on *Dir / *File to
// patch their names; the path->node mapping is what C39 is about).
package main

import (
	"context"
	"fmt"
	"strconv"
	"strings"
	"time"

	"github.com/seaweedfs/fuse"
	"github.com/seaweedfs/fuse/fs"

	"github.com/chrislusf/seaweedfs/weed/filesys"
	"github.com/chrislusf/seaweedfs/weed/util"

	"verifharness/hx"
)

type fake struct{ id int }

func (f *fake) Attr(ctx context.Context, a *fuse.Attr) error { return nil }

var tr *hx.Trace
var cache *filesys.FsCache

// Every call into FsCache runs under a watchdog: a panic becomes the output token `panic`
// (hx.Guard), a call that does not return within opTimeout becomes `hang` (a corrupted tree can
// leave a childrenLock locked or make deleteSelf wait on itself). After a hang the cache of the
// current case is unusable (its mutex may be held by the stuck goroutine): the remaining calls of
// the case answer `hang` without being executed. After maxHangs hangs the generator stops, so that
// the trace still reaches the driver.
const opTimeout = 2 * time.Second
const maxHangs = 4

var dead bool
var hangs int

func watch(f func() []string) []string {
	if dead {
		return []string{"hang"}
	}
	done := make(chan []string, 1)
	go func() { done <- hx.Guard(f) }()
	select {
	case outs := <-done:
		return outs
	case <-time.After(opTimeout):
		dead = true
		hangs++
		return []string{"hang"}
	}
}

func giveUp() bool { return hangs >= maxHangs }

func idOf(n fs.Node) string {
	if n == nil {
		return "nil"
	}
	if f, ok := n.(*fake); ok {
		if f == nil {
			return "nil"
		}
		return strconv.Itoa(f.id)
	}
	return "other"
}

func reset() {
	cache = filesys.NewFsCacheVerif(nil)
	dead = false
	tr.Op("reset", nil, nil)
}

func set(p string, id int) {
	tr.Op("set", []string{p, strconv.Itoa(id)}, watch(func() []string {
		cache.SetFsNode(util.FullPath(p), &fake{id})
		return nil
	}))
}

func ensure(p string, id int) {
	tr.Op("ensure", []string{p, strconv.Itoa(id)}, watch(func() []string {
		n := cache.EnsureFsNode(util.FullPath(p), func() fs.Node { return &fake{id} })
		return []string{idOf(n)}
	}))
}

func del(p string) {
	tr.Op("del", []string{p}, watch(func() []string {
		cache.DeleteFsNode(util.FullPath(p))
		return nil
	}))
}

func move(o, n string) {
	tr.Op("move", []string{o, n}, watch(func() []string {
		if o == "/" || n == "/" || o == "" || n == "" {
			return []string{"invalid"}
		}
		if cache.Move(util.FullPath(o), util.FullPath(n)) == nil {
			return []string{"absent"}
		}
		return []string{"ok"}
	}))
}

func get(p string) {
	tr.Op("get", []string{p}, watch(func() []string {
		return []string{idOf(cache.GetFsNode(util.FullPath(p)))}
	}))
}

func replay(ops [][]string) {
	if len(ops) == 0 || ops[0][0] != "reset" {
		reset()
	}
	for _, o := range ops {
		switch {
		case o[0] == "reset":
			reset()
		case o[0] == "set" && len(o) == 3:
			id, _ := strconv.Atoi(o[2])
			set(o[1], id)
		case o[0] == "ensure" && len(o) == 3:
			id, _ := strconv.Atoi(o[2])
			ensure(o[1], id)
		case o[0] == "del" && len(o) == 2:
			del(o[1])
		case o[0] == "move" && len(o) == 3:
			move(o[1], o[2])
		case o[0] == "get" && len(o) == 2:
			get(o[1])
		}
	}
}

// universe: every path of depth <= d over the names
func universe(names []string, d int) []string {
	out := []string{"/"}
	level := []string{""}
	for i := 0; i < d; i++ {
		var next []string
		for _, p := range level {
			for _, n := range names {
				next = append(next, p+"/"+n)
			}
		}
		out = append(out, next...)
		level = next
	}
	return out
}

func sweep(u []string) {
	for _, p := range u {
		get(p)
	}
}

type op struct {
	kind string
	a, b string
}

func main() {
	a := hx.ParseArgs()
	tr = hx.NewTrace(a.Out)
	defer tr.Close()
	tr.Comment(fmt.Sprintf("c39 seed=%d tier=%s", a.Seed, a.Tier))
	if a.Ops != "" {
		replay(hx.ReadOps(a.Ops))
		return
	}
	r := hx.NewRng(a.Seed)
	nextID := 0
	id := func() int { nextID++; return nextID }

	// ---- the three scenarios of fscache_test.go
	reset()
	for _, p := range []string{"/a/b/c", "/a/b/d", "/a/b/e", "/a/b/f", "/z", "/a"} {
		set(p, id())
	}
	u3 := universe([]string{"a", "b", "z"}, 3)
	get("/a/b")
	get("/a")
	del("/a")
	sweep(u3)
	reset()
	for _, p := range []string{"/a/b/d", "/a/b/e", "/z", "/a"} {
		set(p, id())
	}
	move("/a/b", "/z/x")
	for _, p := range []string{"/z/x/d", "/z/x/e", "/z/x", "/z", "/a/b/d", "/a/b", "/a"} {
		get(p)
	}
	reset()
	set("/a/b/d", id())
	set("/a/b/e", id())
	move("/a/b/d", "/a/b/e")
	get("/a/b/e")
	get("/a/b/d")
	move("/", "/a")
	move("/a", "/")

	// ---- bounded-exhaustive: every sequence of length <= L over a small op alphabet on universe {a,b} depth 2
	small := universe([]string{"a", "b"}, 2) // 7 paths incl. "/"
	var alphabet []op
	for _, p := range []string{"/a", "/a/a", "/a/b", "/b"} {
		alphabet = append(alphabet, op{"set", p, ""})
	}
	for _, p := range []string{"/a", "/a/b", "/", "/b"} {
		alphabet = append(alphabet, op{"del", p, ""})
	}
	for _, m := range [][2]string{{"/a", "/b"}, {"/a", "/a/a"}, {"/a/a", "/a"}, {"/a/b", "/b/a"}, {"/b", "/a/b"}, {"/a", "/a"}, {"/a/b", "/a/a"}, {"/b", "/a/a/b"}} {
		alphabet = append(alphabet, op{"move", m[0], m[1]})
	}
	alphabet = append(alphabet, op{"ensure", "/a", ""}, op{"ensure", "/a/b", ""})
	deep := append(append([]string{}, small...), "/a/a/b", "/a/a/a", "/a/b/a", "/a/a/a/a", "/a/a/b/b", "/b/a/a")
	L := 3
	if a.Thorough() {
		L = 4
	}
	var rec func(seq []op)
	runSeq := func(seq []op) {
		reset()
		for _, o := range seq {
			switch o.kind {
			case "set":
				set(o.a, id())
			case "del":
				del(o.a)
			case "move":
				move(o.a, o.b)
			case "ensure":
				ensure(o.a, id())
			}
		}
		sweep(deep)
	}
	rec = func(seq []op) {
		if giveUp() {
			return
		}
		if len(seq) == L {
			runSeq(seq)
			return
		}
		for _, o := range alphabet {
			rec(append(seq, o))
		}
	}
	rec(nil)

	// ---- random long sequences over {a,b,c} depth 3, sweep after every mutation
	names := []string{"a", "b", "c"}
	u := universe(names, 3)
	randPath := func(maxDepth int) string {
		d := 1 + r.Intn(maxDepth)
		parts := make([]string, d)
		for i := range parts {
			parts[i] = r.Pick(names)
		}
		return "/" + strings.Join(parts, "/")
	}
	var present []string
	for c := 0; c < a.N(40) && !giveUp(); c++ {
		reset()
		present = present[:0]
		steps := 10 + r.Intn(30)
		for s := 0; s < steps; s++ {
			pick := func() string {
				if len(present) > 0 && r.Chance(3, 4) {
					p := r.Pick(present)
					if r.Chance(1, 3) { // an ancestor
						if i := strings.LastIndex(p, "/"); i > 0 {
							p = p[:i]
						}
					}
					return p
				}
				return randPath(3)
			}
			switch k := r.Intn(10); {
			case k < 4:
				p := randPath(3)
				present = append(present, p)
				set(p, id())
			case k < 5:
				p := pick()
				present = append(present, p)
				ensure(p, id())
			case k < 7:
				if r.Chance(1, 25) {
					del("/")
				} else {
					del(pick())
				}
			default:
				o := pick()
				n := randPath(3)
				switch r.Intn(6) {
				case 0:
					n = o + "/" + r.Pick(names) // into its own subtree
				case 1:
					if i := strings.LastIndex(o, "/"); i > 0 {
						n = o[:i] // onto its parent
					}
				case 2:
					n = pick()
				}
				present = append(present, n)
				move(o, n)
			}
			if r.Chance(1, 3) {
				sweep(u)
			} else {
				for j := 0; j < 6; j++ {
					get(r.Pick(u))
				}
			}
		}
		sweep(u)
		get("/a/a/a/a")
	}
}
