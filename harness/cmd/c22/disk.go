// c22 disk part: the PERSISTED-LOG path of the metadata subscription, on the real code.
//
// One real filer.Filer over a leveldb store in a temp dir, with stand-ins for the master (assign,
// lookup) and the volume server (chunk upload / download).  Its LocalMetaLogBuffer is built exactly
// as NewFiler builds it (hook VerifResetLocalMetaLogBuffer): flush interval LogFlushInterval and
// the production flush function Filer.logFlushFunc, which appends the flushed bytes to
// /topics/.system/log/<day>/<hour-minute>.segment through appendToFile (assign + upload +
// CreateEntry).  Reads go through the real Filer.ReadPersistedLogBuffer (directory walk, skipping
// of files by name, NewChunkStreamReaderFromFiler, ReadEachLogEntry).
//
//	dreset                      fresh store + fresh log buffer
//	dadd ts len / dseal         AddToBuffer / one loopInterval iteration; the harness then waits
//	                            until the production flush of a sealed buffer has returned
//	dls                         the persisted layout: day/minute:ts,ts,... per segment file, in
//	                            listing order (read back independently of ReadPersistedLogBuffer)
//	dread T                     ReadPersistedLogBuffer(time.Unix(0,T)): delivered ts, lastTsNs, then the layout as in dls
//	dnew r T / dstep r          the loop of SubscribeLocalMetadata cut at its blocking points,
//	                            disk phase = ReadPersistedLogBuffer, memory phase = LoopProcessLogData
package main

import (
	"context"
	"fmt"
	"io"
	"os"
	"strings"
	"time"

	"google.golang.org/grpc"

	"github.com/chrislusf/seaweedfs/weed/filer"
	"github.com/chrislusf/seaweedfs/weed/filer/leveldb"
	"github.com/chrislusf/seaweedfs/weed/pb/filer_pb"
	"github.com/chrislusf/seaweedfs/weed/util"
	"github.com/chrislusf/seaweedfs/weed/util/fla9"
	"github.com/chrislusf/seaweedfs/weed/util/log_buffer"

	"verifharness/hx"
	"verifharness/standin"
)

type diskWorld struct {
	vol   *standin.Volume
	mst   *standin.Master
	fl    *filer.Filer
	tmp   string
	n     int
	store *leveldb.LevelDBStore
	cur   *kase
}

var dw *diskWorld

func diskInit() *diskWorld {
	if dw != nil {
		return dw
	}
	tmp, err := os.MkdirTemp("", "c22d")
	if err != nil {
		panic(err)
	}
	fla9.Set("alsologtostderr", "false")
	fla9.Set("stderrthreshold", "FATAL")
	fla9.Set("logdir", tmp)
	d := &diskWorld{tmp: tmp}
	d.vol = standin.NewVolume()
	d.mst = standin.NewMaster(d.vol)
	d.fl = filer.NewFiler([]string{d.mst.Addr}, grpc.WithInsecure(), "127.0.0.1", 0, "", "", "", nil)
	d.fl.DirBucketsPath = "/buckets"
	filer.VerifChunkDeleteObserver = func(kind string, ids []string) bool { return true }
	go d.fl.MasterClient.KeepConnectedToMaster()
	d.fl.MasterClient.WaitUntilConnected()
	dw = d
	return d
}

func diskClose() {
	if dw == nil {
		return
	}
	dw.quiesce()
	os.RemoveAll(dw.tmp)
}

// make sure nothing of the previous case is still on its way to the store
func (d *diskWorld) quiesce() {
	if d.cur != nil {
		d.cur.lb.VerifSealNow()
		d.cur.settle()
		d.cur = nil
	}
}

func (d *diskWorld) newCase() *kase {
	d.quiesce()
	d.n++
	d.fl.VerifResetLocalMetaLogBuffer(func() {})
	if d.store != nil {
		d.store.Shutdown()
	}
	d.vol.Reset()
	st := &leveldb.LevelDBStore{}
	v := util.GetViper()
	v.Set("c22d.dir", fmt.Sprintf("%s/store%d", d.tmp, d.n))
	if err := st.Initialize(v, "c22d."); err != nil {
		panic(err)
	}
	if d.n > 1 {
		os.RemoveAll(fmt.Sprintf("%s/store%d", d.tmp, d.n-1))
	}
	d.store = st
	d.fl.SetStore(st)
	// the parents of the log directory exist already (as on any filer that has flushed once): creating
	// them through CreateEntry would log two wall-clock events into the buffer under test
	for _, p := range []string{"/topics", "/topics/.system", filer.SystemLogDir} {
		now := time.Unix(1500000000, 0)
		if err := d.fl.Store.InsertEntry(dctx, &filer.Entry{FullPath: util.FullPath(p), Attr: filer.Attr{Mtime: now, Crtime: now, Mode: os.ModeDir | 0770}}); err != nil {
			panic(err)
		}
	}
	c := &kase{subs: map[string]*sub{}, dw: d}
	c.lb = d.fl.LocalMetaLogBuffer
	c.snap = c.lb.VerifSnapshot()
	d.cur = c
	return c
}

// after an append or a seal: if a buffer was sealed, wait until the production flush function has
// returned for it (loopFlush then sets lastFlushTime = its stop time)
func (c *kase) settle() bool {
	s := c.lb.VerifSnapshot()
	n := len(s.Prev)
	if n == 0 || s.Prev[n-1].StopZero || s.Prev[n-1].StopNs == c.lastSeal {
		return true
	}
	want := s.Prev[n-1].StopNs
	for i := 0; ; i++ {
		s = c.lb.VerifSnapshot()
		if !s.LastFlushZero && s.LastFlushNs == want {
			return true
		}
		if i > 600000 { // 60 s
			return false
		}
		time.Sleep(100 * time.Microsecond)
	}
}

var dctx = context.Background()

func dayHm(day, name string) string {
	t, err := time.Parse("2006-01-02", day)
	if err != nil {
		return "bad"
	}
	var h, m int
	if n, err := fmt.Sscanf(name, "%02d-%02d.segment", &h, &m); err != nil || n != 2 {
		return "bad"
	}
	return fmt.Sprintf("%d/%d", t.Unix()/86400, h*60+m)
}

func (d *diskWorld) ls() []string {
	var out []string
	days, _, err := d.fl.ListDirectoryEntries(dctx, filer.SystemLogDir, "", false, 1000000, "", "", "")
	if err != nil {
		return []string{"err"}
	}
	for _, day := range days {
		files, _, err := d.fl.ListDirectoryEntries(dctx, util.NewFullPath(filer.SystemLogDir, day.Name()), "", false, 1000000, "", "", "")
		if err != nil {
			return []string{"err"}
		}
		for _, f := range files {
			r := filer.NewChunkStreamReaderFromFiler(d.fl.MasterClient, f.Chunks)
			data, _ := io.ReadAll(r)
			r.Close()
			out = append(out, dayHm(day.Name(), f.Name())+":"+tsList(parseEntries(data)))
		}
	}
	if len(out) == 0 {
		return []string{"-"}
	}
	return out
}

func (c *kase) execDisk(op []string, arg func(int) int64) []string {
	d := c.dw
	switch op[0] {
	case "dadd":
		ts, dlen := arg(1), int(arg(2))
		if ts == 0 {
			ts = 1
		}
		if len(c.payload) < dlen {
			c.payload = make([]byte, dlen)
			for i := range c.payload {
				c.payload[i] = 0x41
			}
		}
		c.lb.AddToBuffer(partitionKey, c.payload[:dlen], ts)
		if !c.settle() {
			return []string{"stuck"}
		}
		toks := c.snapToks()
		c.log = append(c.log, c.snap.LastTsNs)
		return toks
	case "dseal":
		c.lb.VerifSealNow()
		if !c.settle() {
			return []string{"stuck"}
		}
		return c.snapToks()
	case "dls":
		return d.ls()
	case "dread":
		var got []string
		last, err := d.fl.ReadPersistedLogBuffer(time.Unix(0, arg(1)), func(e *filer_pb.LogEntry) error {
			if len(got) < 5000 {
				got = append(got, hx.I(e.TsNs))
			}
			return nil
		})
		st := "ok"
		if err != nil {
			st = "err"
		}
		return append([]string{st, tsList(got), hx.I(last)}, d.ls()...)
	case "dnew":
		c.subs[op[1]] = &sub{T: arg(2), disk: true}
		return []string{}
	case "dstep":
		s := c.subs[op[1]]
		if s == nil {
			return []string{"nosub"}
		}
		var got []string
		each := func(e *filer_pb.LogEntry) error {
			if len(got) < 5000 {
				got = append(got, hx.I(e.TsNs))
			}
			return nil
		}
		if s.disk {
			processed, err := d.fl.ReadPersistedLogBuffer(time.Unix(0, s.T), each)
			if err != nil {
				return []string{"derr", tsList(got)}
			}
			if processed != 0 {
				s.T = processed
				s.disk = false
			} else if s.lastResume {
				// time.Sleep(1127ms); continue
			} else {
				s.disk = false
			}
			return append([]string{"disk", tsList(got), hx.I(s.T), phase(s), hx.B(s.lastResume)}, d.ls()...)
		}
		last, err := c.lb.LoopProcessLogData("c22d:"+op[1], time.Unix(0, s.T), func() bool { return false }, each)
		s.T = last.UnixNano()
		s.lastResume = err == log_buffer.ResumeFromDiskError
		e := "ok"
		if s.lastResume {
			s.disk = true
			e = "resume"
		} else if err != nil {
			e = "err"
		}
		return []string{"mem", tsList(got), hx.I(s.T), phase(s), e}
	}
	return []string{"unknown-op"}
}

func dresetLine() []string {
	return []string{"dreset", hx.I(int64(util.HashToInt32(partitionKey))), hx.I(log_buffer.BufferSize), hx.I(log_buffer.PreviousBufferCount), hx.I(int64(filer.LogFlushInterval))}
}

// ---------------------------------------------------------------- generator (disk cases)

const minuteNs = int64(time.Minute)

func pickDiskT(r *hx.Rng, c *kase) int64 {
	if len(c.log) == 0 {
		return 0
	}
	e := c.log[r.Intn(len(c.log))]
	switch r.Intn(10) {
	case 0:
		return 0
	case 1, 2:
		return e
	case 3:
		return e - 1
	case 4:
		return e + 1
	case 5:
		return e / minuteNs * minuteNs // the minute boundary at or before an event
	case 6:
		return e/minuteNs*minuteNs - 1
	case 7:
		return (e/minuteNs + 1) * minuteNs
	case 8:
		return c.log[len(c.log)-1] + int64(r.Intn(1000))
	default:
		lo, hi := c.log[0], c.log[len(c.log)-1]
		return lo + int64(r.U64()%uint64(hi-lo+1))
	}
}

func genDiskCase(seed uint64) []string {
	r := hx.NewRng(seed)
	c := diskInit().newCase()
	c.lines = append(c.lines, strings.Join(dresetLine(), " ")+" =>")
	ts := int64(1600000000)*1e9 + int64(r.Intn(86400))*1e9 + int64(r.Intn(1000))*1e6
	if r.Chance(1, 4) { // shortly before midnight UTC
		ts = ts/(86400*1e9)*(86400*1e9) + 86400*1e9 - int64(1+r.Intn(90))*1e9
	}
	mode := r.Intn(3) // 0 seconds apart (buffers straddle minutes), 1 mostly within a minute + explicit seals, 2 mixed with jumps
	steps := 15 + r.Intn(36)
	nsub, want := 0, 1+r.Intn(2)
	for i := 0; i < steps; i++ {
		k := r.Intn(100)
		switch {
		case k < 55 || len(c.log) == 0:
			switch d := r.Intn(20); {
			case d == 0:
				ts -= int64(r.Intn(3)) // not later than the previous event
			case mode == 1 && d < 16:
				ts += int64(1+r.Intn(2000)) * 1e6
			case mode == 2 && d < 3:
				ts += int64(1+r.Intn(300)) * minuteNs
			case mode == 2 && d < 5:
				ts += 86400*1e9 - int64(r.Intn(120))*1e9
			case d < 18:
				ts += int64(1+r.Intn(40)) * 1e9
			default:
				ts += minuteNs + int64(r.Intn(3)) - 1
			}
			c.run([]string{"dadd", hx.I(ts), hx.I(int64(r.Intn(40)))})
			if c.snap.LastTsNs > ts {
				ts = c.snap.LastTsNs
			}
		case k < 65:
			c.run([]string{"dseal"})
		case k < 70:
			c.run([]string{"dls"})
		case k < 84:
			c.run([]string{"dread", hx.I(pickDiskT(r, c))})
		case nsub < want:
			nsub++
			c.run([]string{"dnew", fmt.Sprintf("r%d", nsub), hx.I(pickDiskT(r, c))})
		default:
			c.run([]string{"dstep", fmt.Sprintf("r%d", 1+r.Intn(nsub))})
		}
	}
	c.run([]string{"dseal"})
	c.run([]string{"dls"})
	for k := 0; k < 4; k++ {
		c.run([]string{"dread", hx.I(pickDiskT(r, c))})
	}
	for j := 1; j <= nsub; j++ {
		for k := 0; k < 3; k++ {
			c.run([]string{"dstep", fmt.Sprintf("r%d", j)})
		}
	}
	return c.lines
}
