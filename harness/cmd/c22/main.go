// c22: correspondence harness for C22 (metadata change subscribers see every change once, in order).
//
// Runs the REAL weed/util/log_buffer.LogBuffer.  flushFn is blocked on harness channels, so that
// "the flushed bytes are readable on disk" (fwrite) and "flushFn returned, lastFlushTime set"
// (fack) are explicit schedule steps; flushInterval is 1 h, so rotation is driven only by the
// synthetic event timestamps, the buffer space, and the explicit `seal` step (= one iteration of
// loopInterval, through the verif hook).  Readers: `read T` = one direct ReadFromBuffer; a
// subscriber (`new r T`, `rstep r`) is the loop of SubscribeLocalMetadata cut at its blocking
// points: disk phase = filer.ReadEachLogEntry over everything flushed so far, memory phase =
// LoopProcessLogData with a wait function that returns false.
package main

import (
	"bytes"
	"fmt"
	"os"
	"runtime/pprof"
	"strconv"
	"strings"
	"sync"
	"time"

	"github.com/golang/protobuf/proto"

	"github.com/chrislusf/seaweedfs/weed/filer"
	"github.com/chrislusf/seaweedfs/weed/pb/filer_pb"
	"github.com/chrislusf/seaweedfs/weed/util"
	"github.com/chrislusf/seaweedfs/weed/util/log_buffer"

	"verifharness/hx"
)

const intervalNs = int64(time.Hour)

var partitionKey = []byte("/verif/c22")

type flushReq struct {
	start, stop time.Time
	data        []byte
}

type sub struct {
	T          int64
	disk       bool // next step is the disk phase
	lastResume bool // readInMemoryLogErr == ResumeFromDiskError
}

type kase struct {
	lb        *log_buffer.LogBuffer
	reqCh     chan flushReq
	goAck     chan struct{}
	done      chan struct{}
	seals     int // sealed buffers handed to flushChan (observed through the snapshot)
	started   int // flushFn calls taken by the harness
	inflight  *flushReq
	lastSeal  int64
	disk      []byte
	subs      map[string]*sub
	payload   []byte
	log       []int64 // generator feedback only
	lines     []string
	snap      log_buffer.VerifSnap
	diskCount int
	corrupt   bool       // a flush handed over bytes that do not parse
	dw        *diskWorld // disk cases: the real Filer this case runs on (disk.go)
}

func newCase() *kase {
	c := &kase{reqCh: make(chan flushReq, 4096), goAck: make(chan struct{}), done: make(chan struct{}), subs: map[string]*sub{}}
	flushFn := func(start, stop time.Time, buf []byte) {
		select {
		case <-c.done:
			return
		default:
		}
		d := make([]byte, len(buf))
		copy(d, buf)
		c.reqCh <- flushReq{start, stop, d}
		select {
		case <-c.goAck:
		case <-c.done:
		}
	}
	c.lb = log_buffer.NewLogBuffer("c22", time.Duration(intervalNs), flushFn, func() {})
	c.snap = c.lb.VerifSnapshot()
	return c
}

func (c *kase) close() {
	close(c.done)
	c.lb.Shutdown()
	c.lb.VerifRelease()
}

func tm(zero bool, ns int64) string {
	if zero {
		return "z"
	}
	return hx.I(ns)
}

func bufTok(b log_buffer.VerifBuf) string {
	return fmt.Sprintf("%d,%d,%s,%s", b.Size, b.Cap, tm(b.StartZero, b.StartNs), tm(b.StopZero, b.StopNs))
}

// snapshot tokens: lastTs cur nidx prev... lastFlush alias
func (c *kase) snapToks() []string {
	s := c.lb.VerifSnapshot()
	// a seal happened iff the newest sealed buffer changed (stop times are strictly increasing)
	if n := len(s.Prev); n > 0 && !s.Prev[n-1].StopZero && s.Prev[n-1].StopNs != c.lastSeal {
		c.lastSeal = s.Prev[n-1].StopNs
		c.seals++
	}
	c.snap = s
	out := []string{hx.I(s.LastTsNs), bufTok(s.Cur), hx.I(int64(s.NIdx))}
	for _, p := range s.Prev {
		out = append(out, bufTok(p))
	}
	out = append(out, tm(s.LastFlushZero, s.LastFlushNs), hx.I(int64(s.AliasPrev)))
	return out
}

func tsList(ts []string) string {
	if len(ts) == 0 {
		return "-"
	}
	return strings.Join(ts, ",")
}

// parse a size-prefixed entry stream the way a consumer has to
func parseEntries(buf []byte) []string {
	var out []string
	for pos := 0; pos < len(buf); {
		if pos+4 > len(buf) {
			out = append(out, "trunc")
			break
		}
		size := int(util.BytesToUint32(buf[pos : pos+4]))
		if pos+4+size > len(buf) {
			out = append(out, "trunc")
			break
		}
		e := &filer_pb.LogEntry{}
		if err := proto.Unmarshal(buf[pos+4:pos+4+size], e); err != nil {
			out = append(out, "bad")
		} else {
			out = append(out, hx.I(e.TsNs))
		}
		pos += 4 + size
		if len(out) > 5000 {
			out = append(out, "more")
			break
		}
	}
	return out
}

func (c *kase) exec(op []string) []string {
	arg := func(i int) int64 {
		if i >= len(op) {
			return 0
		}
		v, _ := strconv.ParseInt(op[i], 10, 64)
		return v
	}
	if strings.HasPrefix(op[0], "d") && c.dw != nil {
		return c.execDisk(op, arg)
	}
	switch op[0] {
	case "add":
		ts, dlen := arg(1), int(arg(2))
		if ts == 0 {
			ts = 1 // 0 means "use the wall clock": outside the deterministic schedule space
		}
		if len(c.payload) < dlen {
			c.payload = bytes.Repeat([]byte{0x41}, dlen)
		}
		c.lb.AddToBuffer(partitionKey, c.payload[:dlen], ts)
		toks := c.snapToks()
		c.log = append(c.log, c.snap.LastTsNs)
		return toks
	case "seal":
		c.lb.VerifSealNow()
		return c.snapToks()
	case "fwrite":
		if c.inflight != nil || c.started >= c.seals {
			return []string{"noop"}
		}
		req := <-c.reqCh
		c.started++
		c.inflight = &req
		c.disk = append(c.disk, req.data...)
		ents := parseEntries(req.data)
		for _, e := range ents {
			if e == "trunc" || e == "bad" {
				c.corrupt = true // the flushed bytes are not a sequence of entries: reported here (DIFF), not re-read later
			}
		}
		return []string{"w", hx.I(req.start.UnixNano()), hx.I(req.stop.UnixNano()), tsList(ents)}
	case "fack":
		if c.inflight == nil {
			return []string{"noop"}
		}
		want := c.inflight.stop
		c.goAck <- struct{}{}
		c.inflight = nil
		for i := 0; ; i++ {
			s := c.lb.VerifSnapshot()
			if !s.LastFlushZero && s.LastFlushNs == want.UnixNano() {
				break
			}
			if i > 2000000 {
				return []string{"stuck"}
			}
			if i > 100 {
				time.Sleep(10 * time.Microsecond)
			}
		}
		return c.snapToks()
	case "read":
		T := arg(1)
		b, err := c.lb.ReadFromBuffer(time.Unix(0, T))
		if err == log_buffer.ResumeFromDiskError {
			return []string{"resume"}
		}
		if err != nil {
			return []string{"err"}
		}
		if b == nil {
			return []string{"nil"}
		}
		out := []string{"buf", tsList(parseEntries(b.Bytes()))}
		c.lb.ReleaseMemory(b)
		return out
	case "new":
		c.subs[op[1]] = &sub{T: arg(2), disk: true}
		return []string{}
	case "rstep":
		s := c.subs[op[1]]
		if s == nil {
			return []string{"nosub"}
		}
		var got []string
		each := func(e *filer_pb.LogEntry) error {
			if len(got) < 5000 {
				got = append(got, hx.I(e.TsNs))
			}
			return nil
		}
		if s.disk {
			if c.corrupt {
				return []string{"disk", "corrupt"}
			}
			processed, _ := filer.ReadEachLogEntry(bytes.NewReader(c.disk), make([]byte, 4), time.Unix(0, s.T).UnixNano(), each)
			if processed != 0 {
				s.T = processed
				s.disk = false
			} else if s.lastResume {
				// time.Sleep(1127ms); continue
			} else {
				s.disk = false
			}
			return []string{"disk", tsList(got), hx.I(s.T), phase(s), hx.B(s.lastResume)}
		}
		// optional second argument: number of idle wake-ups (waitForDataFn returns true with nothing new)
		last, err := c.lb.LoopProcessLogData("c22:"+op[1], time.Unix(0, s.T), waitN(int(arg(2))), each)
		return c.memDone(s, last, err, got)
	case "rnest":
		// two OVERLAPPING readers: while subscriber a is inside its callback for the first entry of a
		// batch, subscriber b runs its whole memory phase (deterministic nesting, no goroutines)
		sa, sb := c.subs[op[1]], c.subs[op[2]]
		if sa == nil || sb == nil || sa == sb || sa.disk || sb.disk {
			return []string{"noop"}
		}
		k := int(arg(3))
		var gotA, gotB []string
		outB := []string{"mem", "-", hx.I(sb.T), phase(sb), "notrun"}
		ranB := false
		eachB := func(e *filer_pb.LogEntry) error {
			if len(gotB) < 5000 {
				gotB = append(gotB, hx.I(e.TsNs))
			}
			return nil
		}
		eachA := func(e *filer_pb.LogEntry) error {
			if len(gotA) < 5000 {
				gotA = append(gotA, hx.I(e.TsNs))
			}
			if !ranB {
				ranB = true
				last, err := c.lb.LoopProcessLogData("c22:"+op[2], time.Unix(0, sb.T), waitN(k), eachB)
				outB = c.memDone(sb, last, err, gotB)
			}
			return nil
		}
		last, err := c.lb.LoopProcessLogData("c22:"+op[1], time.Unix(0, sa.T), waitN(k), eachA)
		return append(c.memDone(sa, last, err, gotA), outB...)
	}
	return []string{"unknown-op"}
}

// waitForDataFn that reports "woken up" n times and then gives up (the harness never blocks)
func waitN(n int) func() bool {
	return func() bool {
		if n > 0 {
			n--
			return true
		}
		return false
	}
}

func (c *kase) memDone(s *sub, last time.Time, err error, got []string) []string {
	s.T = last.UnixNano()
	s.lastResume = err == log_buffer.ResumeFromDiskError
	e := "ok"
	if s.lastResume {
		s.disk = true
		e = "resume"
	} else if err != nil {
		e = "err"
	}
	return []string{"mem", tsList(got), hx.I(s.T), phase(s), e}
}

func phase(s *sub) string {
	if s.disk {
		return "disk"
	}
	return "mem"
}

func (c *kase) run(op []string) {
	outs := hx.Guard(func() []string { return c.exec(op) })
	c.lines = append(c.lines, strings.Join(op, " ")+" => "+strings.Join(outs, " "))
}

func resetLine() []string {
	return []string{"reset", hx.I(int64(util.HashToInt32(partitionKey))), hx.I(log_buffer.BufferSize), hx.I(log_buffer.PreviousBufferCount), hx.I(intervalNs)}
}

// ---------------------------------------------------------------- generator

func pickT(r *hx.Rng, c *kase) int64 {
	s := c.snap
	var cands []int64
	for _, p := range append([]log_buffer.VerifBuf{s.Cur}, s.Prev...) {
		if !p.StartZero && p.StartNs > 0 {
			cands = append(cands, p.StartNs, p.StartNs-1, p.StopNs, p.StopNs-1, p.StopNs+1)
		}
	}
	switch k := r.Intn(10); {
	case k == 0 || len(c.log) == 0:
		return 0
	case k <= 3:
		return c.log[r.Intn(len(c.log))] // exact event ts
	case k == 4:
		return c.log[r.Intn(len(c.log))] - 1 // just before an event (may be between events)
	case k == 5:
		return c.log[r.Intn(len(c.log))] + 1
	case k <= 7 && len(cands) > 0:
		return cands[r.Intn(len(cands))] // buffer boundaries
	case k == 8:
		return s.LastTsNs + 1 + int64(r.Intn(1000)) + int64(r.Intn(3))*intervalNs // future
	default:
		lo := c.log[0]
		return lo + int64(r.U64()%uint64(s.LastTsNs-lo+1)) // anywhere in the covered range
	}
}

func genCase(seed uint64, thorough bool) []string {
	r := hx.NewRng(seed)
	c := newCase()
	defer c.close()
	c.lines = append(c.lines, strings.Join(resetLine(), " ")+" =>")
	mode := r.Intn(20) - 10 // <6 time rotation, 6-8 space rotation, 9 space + oversized entries (MBs of memmove per step: fewer, shorter)
	style := r.Intn(4) // 0,1 prompt flush; 2 random; 3 lagging
	steps := 20 + r.Intn(181)
	if mode >= 6 {
		steps = 20 + r.Intn(81)
	}
	want := 1 + r.Intn(3)
	ts := int64(1 + r.Intn(1000))
	if r.Bool() {
		ts = 1600000000000000000 + int64(r.Intn(1000000))
	}
	nsub := 0
	for i := 0; i < steps; i++ {
		if nsub < want && (i == 0 || r.Chance(1, 12)) {
			nsub++
			c.run([]string{"new", fmt.Sprintf("r%d", nsub), hx.I(pickT(r, c))})
			continue
		}
		k := r.Intn(100)
		switch {
		case k < 45:
			switch d := r.Intn(20); {
			case d < 2:
				ts = ts - int64(r.Intn(4)) // not later than the previous event: exercises the monotone fix-up
			case d < 5 && mode < 6 || d < 3:
				ts += intervalNs + int64(r.Intn(3)) - 1 + int64(r.Intn(2))*int64(r.Intn(1000000)) // around / beyond one flush interval
			case d < 7:
				ts += intervalNs / 3
			default:
				ts += 1 + int64(r.Intn(1000))
			}
			if ts < 1 {
				ts = 1
			}
			dlen := r.Intn(40)
			if mode >= 6 && r.Chance(1, 4) {
				dlen = 900000 + r.Intn(1400000)
				if r.Chance(1, 8) {
					dlen = log_buffer.BufferSize - 40 + r.Intn(40) // right at the capacity boundary
				}
				if mode == 9 && r.Chance(1, 10) {
					dlen = log_buffer.BufferSize + r.Intn(300000)
				}
			}
			c.run([]string{"add", hx.I(ts), hx.I(int64(dlen))})
			if c.snap.LastTsNs > ts {
				ts = c.snap.LastTsNs
			}
		case k < 50:
			c.run([]string{"seal"})
		case k < 58:
			if style == 3 && r.Chance(2, 3) {
				c.run([]string{"read", hx.I(pickT(r, c))})
			} else {
				c.run([]string{"fwrite"})
			}
		case k < 66:
			if style == 3 && r.Chance(2, 3) {
				c.run([]string{"read", hx.I(pickT(r, c))})
			} else {
				c.run([]string{"fack"})
			}
		case k < 74 || nsub == 0:
			c.run([]string{"read", hx.I(pickT(r, c))})
		case nsub >= 2 && r.Chance(1, 3):
			a := 1 + r.Intn(nsub)
			b := 1 + (a+r.Intn(nsub-1))%nsub
			c.run([]string{"rnest", fmt.Sprintf("r%d", a), fmt.Sprintf("r%d", b), hx.I(int64(r.Intn(3)))})
		default:
			c.run([]string{"rstep", fmt.Sprintf("r%d", 1+r.Intn(nsub)), hx.I(int64(r.Intn(3)))})
		}
		if style <= 1 && c.started < c.seals && r.Chance(9, 10) {
			c.run([]string{"fwrite"})
			if r.Chance(9, 10) {
				c.run([]string{"fack"})
			}
		}
	}
	// drain: every subscriber takes a few more steps at the end
	for j := 1; j <= nsub; j++ {
		for k := 0; k < 3; k++ {
			c.run([]string{"rstep", fmt.Sprintf("r%d", j)})
		}
	}
	return c.lines
}

func replay(ops [][]string) []string {
	var c *kase
	var lines []string
	flush := func() {
		if c != nil {
			lines = append(lines, c.lines...)
			if c.dw == nil {
				c.close()
			}
			c = nil
		}
	}
	for _, op := range ops {
		if op[0] == "dreset" {
			flush()
			c = diskInit().newCase()
			c.lines = append(c.lines, strings.Join(dresetLine(), " ")+" =>")
			continue
		}
		if op[0] == "reset" {
			flush()
			c = newCase()
			c.lines = append(c.lines, strings.Join(resetLine(), " ")+" =>")
			continue
		}
		if c == nil {
			c = newCase()
			c.lines = append(c.lines, strings.Join(resetLine(), " ")+" =>")
		}
		c.run(op)
	}
	flush()
	return lines
}

func main() {
	a := hx.ParseArgs()
	if p := os.Getenv("C22_PROF"); p != "" {
		f, _ := os.Create(p)
		pprof.StartCPUProfile(f)
		defer pprof.StopCPUProfile()
	}
	tr := hx.NewTrace(a.Out)
	defer tr.Close()
	tr.Comment(fmt.Sprintf("c22 seed=%d tier=%s BufferSize=%d PreviousBufferCount=%d", a.Seed, a.Tier, log_buffer.BufferSize, log_buffer.PreviousBufferCount))
	emit := func(lines []string) {
		for _, l := range lines {
			f := strings.SplitN(l, " => ", 2)
			outs := ""
			if len(f) > 1 {
				outs = f[1]
			} else {
				f[0] = strings.TrimSuffix(f[0], " =>")
			}
			fs := strings.Fields(f[0])
			tr.Op(fs[0], fs[1:], strings.Fields(outs))
		}
	}
	defer diskClose()
	if a.Ops != "" {
		emit(replay(hx.ReadOps(a.Ops)))
		return
	}
	n := a.N(100)
	results := make([][]string, n)
	var wg sync.WaitGroup
	sem := make(chan struct{}, 8)
	for i := 0; i < n; i++ {
		wg.Add(1)
		sem <- struct{}{}
		go func(i int) {
			defer wg.Done()
			defer func() { <-sem }()
			results[i] = genCase(a.Seed*1000003+uint64(i), a.Thorough())
		}(i)
	}
	wg.Wait()
	for _, l := range results {
		emit(l)
	}
	// the persisted-log path: sequential cases on one real Filer (disk.go)
	for i := 0; i < a.N(40); i++ {
		emit(genDiskCase(a.Seed*1000003 + 500000 + uint64(i)))
	}
	_ = os.Stdout
}
