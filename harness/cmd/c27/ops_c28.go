package main

// C28 ops (objects and multipart uploads round-trip), all through the real S3 router:
//
//	put <key> <seed> <size>                 PUT object; bytes = stream(seed)[0:size]           => status
//	get <key> <a> <b>                       GET, Range bytes=a-b when a>=0                      => status len checksum
//	copy <src> <dst>                        PUT dst with X-Amz-Copy-Source                      => status
//	mpinit <u> <key>                        POST ?uploads (u = harness-side name of the id)     => status
//	mppart <u> <n> <seed> <size>            PUT ?partNumber=n&uploadId=                         => status
//	mpcopy <u> <n> <src> <a> <b>            PUT ?partNumber… with copy source and range         => status
//	mpparts <u>                             names of the part entries in the filer, name order  => names…
//	mpdone <u>                              POST ?uploadId= (complete)                          => status size layout
//	del <key>                               DELETE object                                       => status
//	bdel <name>…                            POST ?delete                                        => status
//	ls                                      file keys of the bucket outside .uploads (observer) => keys…
//
// stream(seed)[i] = (seed*31 + i*7 + (i/256)*13 + (i/65536)*101) mod 256;
// checksum = fold (acc*257 + byte + 1) mod 1000000007.

import (
	"encoding/xml"
	"fmt"
	"sort"
	"strconv"
	"strings"

	"github.com/chrislusf/seaweedfs/weed/util"

	"verifharness/hx"
)

var uploads = map[string]string{}    // harness name -> upload id
var uploadKey = map[string]string{}  // harness name -> object key

func init() {
	ops["put"] = opPut
	ops["get"] = opGet
	ops["copy"] = opCopy
	ops["mpinit"] = opMpInit
	ops["mppart"] = opMpPart
	ops["mpcopy"] = opMpCopy
	ops["mpparts"] = opMpParts
	ops["mpdone"] = opMpDone
	ops["del"] = opDel
	ops["bdel"] = opBdel
	ops["ls"] = opLs
}

func stream(seed, off, n int) []byte {
	b := make([]byte, n)
	for j := 0; j < n; j++ {
		i := off + j
		b[j] = byte((seed*31 + i*7 + (i/256)*13 + (i/65536)*101) % 256)
	}
	return b
}

func checksum(b []byte) uint64 {
	var acc uint64
	for _, x := range b {
		acc = (acc*257 + uint64(x) + 1) % 1000000007
	}
	return acc
}

func st(code int) string {
	if code >= 200 && code < 300 {
		return "ok"
	}
	return fmt.Sprintf("e%d", code)
}

func keyPath(k string) string { return "/" + curBucket + "/" + k }

func opPut(a []string) []string {
	seed, _ := strconv.Atoi(a[1])
	size, _ := strconv.Atoi(a[2])
	r := E.do("PUT", keyPath(hx.UnHexS(a[0])), nil, stream(seed, 0, size))
	return []string{st(r.status)}
}

func opGet(a []string) []string {
	from, _ := strconv.Atoi(a[1])
	to, _ := strconv.Atoi(a[2])
	var hdr map[string]string
	if from >= 0 {
		hdr = map[string]string{"Range": fmt.Sprintf("bytes=%d-%d", from, to)}
	}
	r := E.do("GET", keyPath(hx.UnHexS(a[0])), hdr, nil)
	if r.status >= 300 {
		return []string{st(r.status)}
	}
	return []string{fmt.Sprintf("s%d", r.status), strconv.Itoa(len(r.body)), strconv.FormatUint(checksum(r.body), 10)}
}

func opCopy(a []string) []string {
	r := E.do("PUT", keyPath(hx.UnHexS(a[1])), map[string]string{"X-Amz-Copy-Source": "/" + curBucket + "/" + hx.UnHexS(a[0])}, nil)
	return []string{st(r.status)}
}

func opMpInit(a []string) []string {
	key := hx.UnHexS(a[1])
	r := E.do("POST", keyPath(key)+"?uploads", nil, nil)
	var res struct {
		UploadId string `xml:"UploadId"`
	}
	if r.status != 200 || xml.Unmarshal(r.body, &res) != nil || res.UploadId == "" {
		return []string{st(r.status) + "-noid"}
	}
	uploads[a[0]] = res.UploadId
	uploadKey[a[0]] = key
	return []string{"ok"}
}

func opMpPart(a []string) []string {
	seed, _ := strconv.Atoi(a[2])
	size, _ := strconv.Atoi(a[3])
	r := E.do("PUT", keyPath(uploadKey[a[0]])+"?partNumber="+a[1]+"&uploadId="+uploads[a[0]], nil, stream(seed, 0, size))
	return []string{st(r.status)}
}

func opMpCopy(a []string) []string {
	hdr := map[string]string{"X-Amz-Copy-Source": "/" + curBucket + "/" + hx.UnHexS(a[2])}
	if a[3] != "-1" {
		hdr["x-amz-copy-source-range"] = "bytes=" + a[3] + "-" + a[4]
	}
	r := E.do("PUT", keyPath(uploadKey[a[0]])+"?partNumber="+a[1]+"&uploadId="+uploads[a[0]], hdr, nil)
	return []string{st(r.status)}
}

func opMpParts(a []string) []string {
	dir := E.s3a.GenUploadsFolderVerif(curBucket) + "/" + uploads[a[0]]
	ents, _, err := E.f.ListDirectoryEntries(bg, util.FullPath(dir), "", false, 100000, "", "", "")
	if err != nil {
		return []string{"err"}
	}
	var out []string
	for _, e := range ents {
		out = append(out, hx.HexS(e.Name()))
	}
	return out
}

func opMpDone(a []string) []string {
	key := uploadKey[a[0]]
	r := E.do("POST", keyPath(key)+"?uploadId="+uploads[a[0]], nil, []byte("<CompleteMultipartUpload></CompleteMultipartUpload>"))
	if r.status != 200 {
		return []string{st(r.status)}
	}
	ent, err := E.f.FindEntry(bg, util.FullPath(bucketsPath+"/"+curBucket+"/"+key))
	if err != nil {
		return []string{"ok", "noentry"}
	}
	var lay []string
	for _, c := range ent.Chunks {
		lay = append(lay, fmt.Sprintf("%d+%d", c.Offset, c.Size))
	}
	if len(lay) == 0 {
		lay = []string{"-"}
	}
	return []string{"ok", strconv.FormatUint(ent.Size(), 10), strings.Join(lay, ",")}
}

func opDel(a []string) []string {
	r := E.do("DELETE", keyPath(hx.UnHexS(a[0])), nil, nil)
	return []string{st(r.status)}
}

func opBdel(a []string) []string {
	var sb strings.Builder
	sb.WriteString("<Delete>")
	for _, t := range a {
		sb.WriteString("<Object><Key>")
		xml.EscapeText(&sb, []byte(hx.UnHexS(t)))
		sb.WriteString("</Key></Object>")
	}
	sb.WriteString("</Delete>")
	r := E.do("POST", "/"+curBucket+"?delete", map[string]string{"Content-Type": "application/xml"}, []byte(sb.String()))
	return []string{st(r.status)}
}

func opLs(a []string) []string {
	ns := map[string]nsEntry{}
	root := bucketsPath + "/" + curBucket
	E.snapshot(root, ns)
	var out []string
	for p, e := range ns {
		rel := strings.TrimPrefix(p, root+"/")
		if !e.dir && !strings.HasPrefix(rel, ".uploads/") {
			out = append(out, rel)
		}
	}
	sort.Strings(out)
	for i := range out {
		out[i] = hx.HexS(out[i])
	}
	return out
}
