//go:build c29
// +build c29

package main

import (
	"strings"

	"verifharness/hx"
)

const genName = "C29"

var comps = []string{"..", ".", "", "%2F", "%2e%2e", "%252e%252e", "..%252F..", "%252F", ".uploads", "other", "x", "d", "up1", "up2", "secret", "etc", "y"}
var routes = []string{"get", "head", "put", "putdir", "delete", "copy", "mpinit", "mppart", "mpcopy", "mplist", "mpabort", "mpdone", "bdel", "tagget", "tagput", "tagdel", "list"}

func advString(n int) string {
	var p []string
	for i := 0; i < n; i++ {
		p = append(p, rng.Pick(comps))
	}
	return strings.Join(p, "/")
}

// literal strings (no percent forms): upload ids, batch names
func lit(s string) string {
	return strings.NewReplacer("%252e%252e", "..", "..%252F..", "../..", "%252F", "/", "%2F", "/", "%2e%2e", "..").Replace(s)
}

var fixed = [][]string{ // route key uploadId copysrc names…
	{"get", "../other/secret", "", ""}, {"get", "x", "", ""}, {"get", ".uploads/up1/0001.part", "", ""},
	{"get", "%2e%2e/other/secret", "", ""}, {"get", "d/..%2F../other/secret", "", ""}, {"get", "../../etc/secret", "", ""},
	{"mpabort", "x", "../../other", ""}, {"mpabort", "x", "up1", ""}, {"mpabort", "x", "../d", ""},
	{"mpdone", "x", "../../other/d", ""}, {"mplist", "x", "../../other/.uploads/up2", ""},
	{"bdel", "", "", "", "../other/secret"}, {"bdel", "", "", "", "d/../../other/d/s", "x"}, {"bdel", "", "", "", "../../topsecret"},
	{"copy", "cp", "", "/bkt/../other/secret"}, {"copy", "cp", "", "/other/secret"}, {"copy", "cp", "", "/bkt/../../etc/secret"},
	{"copy", "cp", "", "bkt%2Fx"}, {"mpcopy", "x", "up1", "/bkt/../../etc/secret"},
	{"putdir", "../newdir", "", ""}, {"putdir", "../../outside", "", ""}, {"put", "../other/planted", "", ""},
	{"delete", "../other/secret", "", ""}, {"tagput", "../other/secret", "", ""}, {"tagget", "../other/secret", "", ""}, {"tagdel", "../other/secret", "", ""},
	{"mpinit", "../k", "", ""},
	// double-encoded: the handler sees the TEXT %2e%2e / %2F, which must stay an opaque name inside the bucket
	{"get", "%252e%252e/other/secret", "", ""}, {"head", "%252e%252e/other/secret", "", ""}, {"get", "..%252Fother%252Fsecret", "", ""},
	{"get", "%252e%252e/%252e%252e/etc/secret", "", ""}, {"put", "%252e%252e/other/planted2", "", ""}, {"delete", "%252e%252e/other/secret", "", ""},
	{"delete", "..", "", ""}, {"put", "d/../../other/d/s", "", ""}, {"delete", "d/../../other/d", "", ""}, {"mppart", "x", "../../other/.uploads/up2", ""}, {"list", "../other/", "", ""},
}

func req(w []string) {
	args := []string{w[0], hx.HexS(w[1]), hx.HexS(w[2]), hx.HexS(w[3])}
	for _, n := range w[4:] {
		args = append(args, hx.HexS(n))
	}
	run("reset29", nil)
	run("req", args)
}

func generate(a *hx.Args) {
	for _, h := range [][]string{{"p2b", "/bkt/../other/x"}, {"p2b", "bkt"}, {"p2b", "//bkt/x"}, {"p2b", ""}, {"escape", "/a b/../%2F/ü"},
		{"join", "/buckets/bkt/.uploads", "../../other"}, {"join", "/buckets/bkt", "a//b/./c"}, {"join", "/buckets/bkt/", "/x"}, {"join", "/", ".."},
		{"dirname", "/buckets/bkt/../x"}, {"dirname", "/buckets/bkt/a/"}, {"dirname", "/"}, {"upfolder", "bkt"}, {"upfolder", "../x"}} {
		args := []string{h[0]}
		for _, x := range h[1:] {
			args = append(args, hx.HexS(x))
		}
		run("helper", args)
	}
	for i := 0; i < a.N(60); i++ {
		run("helper", []string{"join", hx.HexS("/buckets/bkt" + []string{"", "/.uploads", "/d"}[rng.Intn(3)]), hx.HexS(lit(advString(1 + rng.Intn(4))))})
		run("helper", []string{"p2b", hx.HexS("/" + lit(advString(1+rng.Intn(4))))})
		run("helper", []string{"dirname", hx.HexS("/buckets/bkt/" + lit(advString(1+rng.Intn(3))))})
	}
	for _, w := range fixed {
		req(w)
	}
	for i := 0; i < a.N(150); i++ {
		route := routes[rng.Intn(len(routes))]
		key := advString(1 + rng.Intn(4))
		if rng.Chance(1, 3) {
			key = "x"
		}
		uid := lit(advString(1 + rng.Intn(4)))
		src := "/" + advString(1+rng.Intn(5))
		w := []string{route, key, uid, src}
		if route == "bdel" {
			for j := 0; j < 1+rng.Intn(3); j++ {
				w = append(w, lit(advString(1+rng.Intn(5))))
			}
		}
		req(w)
	}
}
