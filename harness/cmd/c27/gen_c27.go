//go:build !c28 && !c29
// +build !c28,!c29

package main

import (
	"sort"
	"strconv"
	"strings"

	"verifharness/hx"
)

const genName = "C27"

var names27 = []string{"a", "a.b", "a/b", "a/c", "b", "ab/c", ".uploads/x"}

// deeper trees (markers with two slashes) beyond the DESIGN name set
var deep27 = []string{"d/e/f", "d/e/g", "d/e/h", "d/f", "z", "d/e.f", ".uploads/y/0001.part"}

// a set of keys is a namespace only if no key is a directory of another
func validTree(keys []string) bool {
	for _, k := range keys {
		for _, o := range keys {
			if strings.HasPrefix(o, k+"/") {
				return false
			}
		}
	}
	return true
}

func subsets(pool []string, max int) [][]string {
	var out [][]string
	n := len(pool)
	for m := 0; m < 1<<n; m++ {
		var ks []string
		for i := 0; i < n; i++ {
			if m>>i&1 == 1 {
				ks = append(ks, pool[i])
			}
		}
		if len(ks) <= max && validTree(ks) {
			out = append(out, ks)
		}
	}
	return out
}

func prefixesOf(keys []string) []string {
	set := map[string]bool{"": true, "/": true}
	for _, k := range keys {
		for i := 1; i <= len(k); i++ {
			set[k[:i]] = true
		}
	}
	var out []string
	for p := range set {
		out = append(out, p)
	}
	sort.Strings(out)
	return out
}

type combo struct{ style, cont string }

var combos = []combo{{"v1", "next"}, {"v1", "last"}, {"v2", "next"}, {"v2", "last"}, {"dr", "next"}}
var maxKeys27 = []int{0, 1, 2, 3, 4, 1000}

func walk(c combo, prefix, delim string, mk int, marker string, steps int) {
	run("walk", []string{c.style, c.cont, hx.HexS(prefix), hx.HexS(delim), strconv.Itoa(mk), hx.HexS(marker), strconv.Itoa(steps)})
}

func genTree(a *hx.Args, keys []string, perTree int) {
	var hk []string
	for _, k := range keys {
		hk = append(hk, hx.HexS(k))
	}
	run("reset", hk)
	prefixes := prefixesOf(keys)
	steps := len(keys) + 2
	if perTree <= 0 {
		// exhaustive
		for _, p := range prefixes {
			for _, d := range []string{"", "/"} {
				for _, mk := range maxKeys27 {
					for _, c := range combos {
						walk(c, p, d, mk, "", steps)
					}
				}
			}
		}
	} else {
		for i := 0; i < perTree; i++ {
			walk(combos[rng.Intn(len(combos))], rng.Pick(prefixes), []string{"", "/"}[rng.Intn(2)], maxKeys27[rng.Intn(len(maxKeys27))], "", steps)
		}
	}
	// V2 from a start-after key, continued to exhaustion: token only, and start-after re-sent with the token
	for i, k := range keys {
		if perTree > 0 && i >= 2 {
			break
		}
		if perTree > 0 {
			k = rng.Pick(keys)
		}
		mk := 1 + rng.Intn(2)
		walk(combo{"v2b", "next"}, "", "", mk, k, steps)
		walk(combo{"v2", "next"}, "", []string{"", "/"}[rng.Intn(2)], mk, k, steps)
	}
	// single pages from arbitrary markers (page validity only)
	markers := append([]string{"a/", "a.b", "a/b/", "zz", "/", "d/e/f"}, keys...)
	nm := len(markers)
	if perTree > 0 && nm > 4 {
		nm = 4
	}
	for i := 0; i < nm; i++ {
		if i > 0 {
			// Each of these walks starts on the intact bucket. A marker with an empty segment ("/") makes a
			// delimiter-"/" listing DELETE directories (recorded finding isDirectoryAllEmpty/listing-deletes-
			// non-empty-directory); the parent of a deleted directory stays behind as an explicitly EMPTY directory
			// entry, which the model (a directory exists only through the keys below it) does not represent: the
			// next listing met it (seed 22: keys d/e/g d/e/h z, the walk "prefix d/ marker /" removed d/e, then
			// "prefix z, marker d/e/f" had the store iteration start on the leftover d and stop there).
			// reset draws nothing from the rng: the walks of every seed are unchanged.
			run("reset", hk)
		}
		m := markers[i]
		if perTree > 0 {
			m = rng.Pick(markers)
		}
		walk(combos[rng.Intn(3)*2], rng.Pick(prefixes), []string{"", "/"}[rng.Intn(2)], 1+rng.Intn(3), m, 1)
	}
}

// one directory with more children than the filer's store page (filer.PaginationSize = 1024)
func genBig() {
	var hk []string
	for i := 0; i < 1100; i++ {
		hk = append(hk, hx.HexS("big/"+strconv.Itoa(10000+i)))
	}
	hk = append(hk, hx.HexS("z"))
	run("reset", hk)
	walk(combo{"v2", "next"}, "big/", "", 10000, "", 3)
	walk(combo{"v1", "next"}, "", "", 1050, "", 4)
	walk(combo{"dr", "next"}, "big/1", "/", 2000, "", 3)
}

// V2 pagination as SDK paginators drive it (start-after re-sent beside every continuation token) on a bucket where the
// listing order is not the byte order of the keys: the directory a/ is enumerated before its siblings a-b and a.txt,
// whose names sort BELOW "a/" ('-' and '.' are smaller than '/'). A page that ends on such a sibling returns a token
// that is string-smaller than the start-after still being sent.
func genResent() {
	keys := []string{"a/1", "a/2", "a/3", "a-b", "a.txt", "b"}
	var hk []string
	for _, k := range keys {
		hk = append(hk, hx.HexS(k))
	}
	run("reset", hk)
	for _, sa := range []string{"a/1", "a/2", "a-b"} {
		for mk := 1; mk <= 3; mk++ {
			walk(combo{"v2b", "next"}, "", "", mk, sa, len(keys)+2)
		}
	}
	walk(combo{"v2b", "next"}, "", "/", 1, "a-b", len(keys)+2)
}

func generate(a *hx.Args) {
	genBig()
	genResent()
	trees := subsets(names27, 5)
	deep := subsets(deep27, 5)
	if a.Thorough() {
		for _, t := range trees {
			genTree(a, t, 0)
		}
		for _, t := range deep {
			genTree(a, t, 150)
		}
		return
	}
	per := a.N(40)
	for _, t := range trees {
		genTree(a, t, per)
	}
	for i := 0; i < 40; i++ {
		genTree(a, deep[rng.Intn(len(deep))], per)
	}
}
