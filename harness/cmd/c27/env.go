// Environment shared by the C27/C28/C29 generators: the REAL S3 gateway (s3api.NewS3ApiServer on a
// gorilla mux built exactly as weed/command/s3.go does) served by a loopback HTTP server, in front of a
// REAL filer (filer.Filer over leveldb2 in a temp dir, wrapped in the real FilerServer whose gRPC
// service and HTTP handler are served on loopback; the HTTP handler sits behind an http.ServeMux as in
// weed/command/filer.go). Only the master and the volume server are stand-ins: a loopback gRPC
// "master" (KeepConnected, Assign, LookupVolume, CollectionList/Delete) and an in-memory HTTP blob
// store that speaks the volume server's upload/download protocol.
package main

import (
	"bytes"
	"compress/gzip"
	"context"
	"crypto/md5"
	"encoding/base64"
	"encoding/json"
	"flag"
	"fmt"
	"io"
	"net"
	"net/http"
	"net/http/httptest"
	"os"
	"sort"
	"strconv"
	"strings"
	"sync"
	"sync/atomic"
	"time"

	"github.com/gorilla/mux"
	"google.golang.org/grpc"

	"github.com/chrislusf/seaweedfs/weed/filer"
	_ "github.com/chrislusf/seaweedfs/weed/filer/leveldb2"
	"github.com/chrislusf/seaweedfs/weed/pb/filer_pb"
	"github.com/chrislusf/seaweedfs/weed/pb/master_pb"
	"github.com/chrislusf/seaweedfs/weed/s3api"
	weed_server "github.com/chrislusf/seaweedfs/weed/server"
	"github.com/chrislusf/seaweedfs/weed/util"
	"github.com/chrislusf/seaweedfs/weed/util/log_buffer"
)

func must(err error) {
	if err != nil {
		fmt.Fprintln(os.Stderr, "harness:", err)
		panic(err)
	}
}

// ---------------------------------------------------------------- blob store (volume server stand-in)

type blob struct {
	data []byte // as received
	gz   bool
}

type blobStore struct {
	mu    sync.Mutex
	blobs map[string]blob
	addr  string
}

func newBlobStore() *blobStore {
	b := &blobStore{blobs: map[string]blob{}}
	hs := httptest.NewServer(http.HandlerFunc(b.serve))
	b.addr = strings.TrimPrefix(hs.URL, "http://")
	return b
}

func (b *blobStore) serve(w http.ResponseWriter, r *http.Request) {
	fid := strings.TrimPrefix(r.URL.Path, "/")
	if i := strings.Index(fid, ","); i >= 0 { // canonical form: the key part without leading zeros
		fid = fid[:i+1] + strings.TrimLeft(fid[i+1:], "0")
	}
	switch r.Method {
	case "POST", "PUT":
		mr, err := r.MultipartReader()
		if err != nil {
			http.Error(w, `{"error":"not multipart"}`, 400)
			return
		}
		p, err := mr.NextPart()
		if err != nil {
			http.Error(w, `{"error":"no part"}`, 400)
			return
		}
		data, _ := io.ReadAll(p)
		gz := p.Header.Get("Content-Encoding") == "gzip"
		b.mu.Lock()
		b.blobs[fid] = blob{data: data, gz: gz}
		b.mu.Unlock()
		sum := md5.Sum(data)
		w.Header().Set("Content-MD5", base64.StdEncoding.EncodeToString(sum[:]))
		w.Header().Set("ETag", fmt.Sprintf("\"%x\"", sum[:4]))
		w.Header().Set("Content-Type", "application/json")
		w.WriteHeader(201)
		json.NewEncoder(w).Encode(map[string]interface{}{"name": p.FileName(), "size": len(data)})
	case "GET", "HEAD":
		b.mu.Lock()
		bl, ok := b.blobs[fid]
		b.mu.Unlock()
		if !ok {
			w.WriteHeader(404)
			return
		}
		if bl.gz && r.Header.Get("Range") == "" && strings.Contains(r.Header.Get("Accept-Encoding"), "gzip") {
			w.Header().Set("Content-Encoding", "gzip")
			w.Header().Set("Content-Length", strconv.Itoa(len(bl.data)))
			w.WriteHeader(200)
			w.Write(bl.data)
			return
		}
		data := bl.data
		if bl.gz {
			zr, err := gzip.NewReader(bytes.NewReader(bl.data))
			if err == nil {
				data, _ = io.ReadAll(zr)
			}
		}
		w.Header().Set("Content-Type", "application/octet-stream")
		http.ServeContent(w, r, "", time.Time{}, bytes.NewReader(data))
	case "DELETE":
		b.mu.Lock()
		delete(b.blobs, fid)
		b.mu.Unlock()
		w.WriteHeader(202)
		w.Write([]byte(`{"size":0}`))
	}
}

// ---------------------------------------------------------------- master stand-in

type fakeMaster struct {
	master_pb.UnimplementedSeaweedServer
	volAddr string
	nextKey uint64
}

func (m *fakeMaster) KeepConnected(stream master_pb.Seaweed_KeepConnectedServer) error {
	if _, err := stream.Recv(); err != nil {
		return err
	}
	if err := stream.Send(&master_pb.VolumeLocation{Url: m.volAddr, PublicUrl: m.volAddr, NewVids: []uint32{1, 2, 3}}); err != nil {
		return err
	}
	<-stream.Context().Done()
	return nil
}

func (m *fakeMaster) Assign(ctx context.Context, req *master_pb.AssignRequest) (*master_pb.AssignResponse, error) {
	k := atomic.AddUint64(&m.nextKey, 1)
	return &master_pb.AssignResponse{Fid: fmt.Sprintf("%d,%x%08x", 1+k%3, k, uint32(0x5eed0000+k)), Url: m.volAddr, PublicUrl: m.volAddr, Count: 1}, nil
}

func (m *fakeMaster) LookupVolume(ctx context.Context, req *master_pb.LookupVolumeRequest) (*master_pb.LookupVolumeResponse, error) {
	resp := &master_pb.LookupVolumeResponse{}
	for _, v := range req.VolumeIds {
		resp.VolumeIdLocations = append(resp.VolumeIdLocations, &master_pb.LookupVolumeResponse_VolumeIdLocation{
			VolumeId: v, Locations: []*master_pb.Location{{Url: m.volAddr, PublicUrl: m.volAddr}}})
	}
	return resp, nil
}

func (m *fakeMaster) CollectionList(ctx context.Context, req *master_pb.CollectionListRequest) (*master_pb.CollectionListResponse, error) {
	return &master_pb.CollectionListResponse{}, nil
}

func (m *fakeMaster) CollectionDelete(ctx context.Context, req *master_pb.CollectionDeleteRequest) (*master_pb.CollectionDeleteResponse, error) {
	return &master_pb.CollectionDeleteResponse{}, nil
}

func (m *fakeMaster) GetMasterConfiguration(ctx context.Context, req *master_pb.GetMasterConfigurationRequest) (*master_pb.GetMasterConfigurationResponse, error) {
	return &master_pb.GetMasterConfigurationResponse{}, nil
}

// listenGrpcPair returns a listener on port g and the "server address" host:(g-10000) from which
// pb.ServerToGrpcAddress derives g (the port+10000 convention).
func listenGrpcPair() (net.Listener, string) {
	for i := 0; i < 100; i++ {
		l, err := net.Listen("tcp", "127.0.0.1:0")
		must(err)
		p := l.Addr().(*net.TCPAddr).Port
		if p > 11000 {
			return l, fmt.Sprintf("127.0.0.1:%d", p-10000)
		}
		l.Close()
	}
	panic("no usable port")
}

// ---------------------------------------------------------------- recording store

// recStore delegates to the real leveldb2 store and records every path the filer touches.
type recStore struct {
	filer.FilerStore
	mu  sync.Mutex
	on  bool
	log []string // "<kind>:<path>"  kind = r (find/list) | w (insert/update) | d (delete / delete children)
}

func (s *recStore) rec(kind string, p util.FullPath) {
	s.mu.Lock()
	if s.on {
		s.log = append(s.log, kind+":"+string(p))
	}
	s.mu.Unlock()
}
func (s *recStore) start() {
	s.mu.Lock()
	s.on = true
	s.log = nil
	s.mu.Unlock()
}
func (s *recStore) stop() []string {
	s.mu.Lock()
	s.on = false
	l := s.log
	s.log = nil
	s.mu.Unlock()
	return l
}
func (s *recStore) InsertEntry(ctx context.Context, e *filer.Entry) error {
	s.rec("w", e.FullPath)
	return s.FilerStore.InsertEntry(ctx, e)
}
func (s *recStore) UpdateEntry(ctx context.Context, e *filer.Entry) error {
	s.rec("w", e.FullPath)
	return s.FilerStore.UpdateEntry(ctx, e)
}
func (s *recStore) FindEntry(ctx context.Context, p util.FullPath) (*filer.Entry, error) {
	s.rec("r", p)
	return s.FilerStore.FindEntry(ctx, p)
}
func (s *recStore) DeleteEntry(ctx context.Context, p util.FullPath) error {
	s.rec("d", p)
	return s.FilerStore.DeleteEntry(ctx, p)
}
func (s *recStore) DeleteFolderChildren(ctx context.Context, p util.FullPath) error {
	s.rec("d", p)
	return s.FilerStore.DeleteFolderChildren(ctx, p)
}
func (s *recStore) ListDirectoryEntries(ctx context.Context, p util.FullPath, start string, incl bool, limit int64, fn filer.ListEachEntryFunc) (string, error) {
	s.rec("l", p)
	return s.FilerStore.ListDirectoryEntries(ctx, p, start, incl, limit, fn)
}
func (s *recStore) ListDirectoryPrefixedEntries(ctx context.Context, p util.FullPath, start string, incl bool, limit int64, prefix string, fn filer.ListEachEntryFunc) (string, error) {
	s.rec("l", p)
	return s.FilerStore.ListDirectoryPrefixedEntries(ctx, p, start, incl, limit, prefix, fn)
}

// ---------------------------------------------------------------- filer + gateway

// filerSvc is the real FilerServer gRPC service except for the metadata subscription, which is held
// open (the gateway's background IAM subscription; this FilerServer has no log buffer worth reading).
type filerSvc struct {
	*weed_server.FilerServer
}

func (s filerSvc) SubscribeMetadata(req *filer_pb.SubscribeMetadataRequest, stream filer_pb.SeaweedFiler_SubscribeMetadataServer) error {
	<-stream.Context().Done()
	return nil
}
func (s filerSvc) SubscribeLocalMetadata(req *filer_pb.SubscribeMetadataRequest, stream filer_pb.SeaweedFiler_SubscribeLocalMetadataServer) error {
	<-stream.Context().Done()
	return nil
}

type env struct {
	tmp       string
	blobs     *blobStore
	store     *recStore
	f         *filer.Filer
	fs        *weed_server.FilerServer
	filerHTTP string
	filerGrpc string
	s3a       *s3api.S3ApiServer
	router    *mux.Router
	s3addr    string
	hc        *http.Client
}

const bucketsPath = "/buckets"

var bg = context.Background()

func newEnv() *env {
	e := &env{}
	tmp, err := os.MkdirTemp("", "c27")
	must(err)
	e.tmp = tmp
	flag.Set("alsologtostderr", "false")
	flag.Set("stderrthreshold", "FATAL")
	flag.Set("logdir", tmp)

	e.blobs = newBlobStore()
	ml, masterAddr := listenGrpcPair()
	ms := grpc.NewServer()
	master_pb.RegisterSeaweedServer(ms, &fakeMaster{volAddr: e.blobs.addr})
	go ms.Serve(ml)

	dial := grpc.WithInsecure()
	e.f = filer.NewFiler([]string{masterAddr}, dial, "127.0.0.1", 0, "", "", "", nil)
	e.f.DirBucketsPath = bucketsPath
	// the metadata log is not under test: flush to nowhere
	e.f.LocalMetaLogBuffer = log_buffer.NewLogBuffer("verif", time.Hour, func(startTime, stopTime time.Time, buf []byte) {}, nil)
	var inner filer.FilerStore
	for _, s := range filer.Stores {
		if s.GetName() == "leveldb2" {
			inner = s
		}
	}
	v := util.GetViper()
	v.Set("leveldb2.dir", tmp+"/ldb")
	must(os.MkdirAll(tmp+"/ldb", 0755))
	must(inner.Initialize(v, "leveldb2."))
	e.store = &recStore{FilerStore: inner}
	e.f.SetStore(e.store)
	e.f.LoadBuckets()
	// chunk deletions go to the volume servers' gRPC service, which the blob store does not have
	filer.VerifChunkDeleteObserver = func(kind string, ids []string) bool { return true }
	go e.f.KeepConnectedToMaster()

	e.fs = weed_server.NewFilerServerVerifC27(e.f, &weed_server.FilerOption{
		Masters: []string{masterAddr}, MaxMB: 1, DirListingLimit: 100000, Host: "127.0.0.1",
	}, dial)
	gl, err := net.Listen("tcp", "127.0.0.1:0")
	must(err)
	gs := grpc.NewServer()
	filer_pb.RegisterSeaweedFilerServer(gs, filerSvc{e.fs})
	go gs.Serve(gl)
	e.filerGrpc = gl.Addr().String()
	fmux := http.NewServeMux() // as weed/command/filer.go: the handler is registered on "/" of a ServeMux
	fmux.HandleFunc("/", e.fs.FilerHandlerVerif)
	fh := httptest.NewServer(fmux)
	e.filerHTTP = strings.TrimPrefix(fh.URL, "http://")

	e.router = mux.NewRouter().SkipClean(true) // as weed/command/s3.go
	e.s3a, err = s3api.NewS3ApiServer(e.router, &s3api.S3ApiServerOption{
		Filer:            e.filerHTTP,
		Port:             8333,
		FilerGrpcAddress: e.filerGrpc,
		BucketsPath:      bucketsPath,
		GrpcDialOption:   dial,
	})
	must(err)
	sh := httptest.NewServer(e.router)
	e.s3addr = strings.TrimPrefix(sh.URL, "http://")
	e.hc = &http.Client{
		Transport:     &http.Transport{MaxIdleConns: 64, MaxIdleConnsPerHost: 64, DisableCompression: true},
		CheckRedirect: func(req *http.Request, via []*http.Request) error { return http.ErrUseLastResponse },
	}

	// wait for the master connection (vid map filled by KeepConnected)
	for i := 0; ; i++ {
		if _, ok := e.f.MasterClient.GetLocations(1); ok {
			break
		}
		if i > 2000 {
			panic("master stand-in never connected")
		}
		time.Sleep(5 * time.Millisecond)
	}
	return e
}

func (e *env) close() { os.RemoveAll(e.tmp) }

// ---------------------------------------------------------------- direct filer access (set-up / observation, not under test)

func (e *env) mkdirAll(p string) {
	must(e.f.CreateEntry(bg, &filer.Entry{FullPath: util.FullPath(p), Attr: filer.Attr{Mtime: time.Now(), Crtime: time.Now(), Mode: os.ModeDir | 0755}}, false, false, nil))
}

// putEntry creates a chunk-less file entry (with inline content when given).
func (e *env) putEntry(p string, content []byte) {
	must(e.f.CreateEntry(bg, &filer.Entry{FullPath: util.FullPath(p), Attr: filer.Attr{Mtime: time.Now(), Crtime: time.Now(), Mode: 0644, FileSize: uint64(len(content))}, Content: content}, false, false, nil))
}

func (e *env) rmrf(p string) {
	err := e.f.DeleteEntryMetaAndData(bg, util.FullPath(p), true, true, false, false, nil)
	if err != nil && err != filer_pb.ErrNotFound {
		must(err)
	}
}

type nsEntry struct {
	dir  bool
	size uint64
	sig  string
}

// snapshot lists the whole namespace under root.
func (e *env) snapshot(root string, out map[string]nsEntry) {
	last := ""
	for {
		ents, _, err := e.f.ListDirectoryEntries(bg, util.FullPath(root), last, false, 1024, "", "", "")
		if err != nil || len(ents) == 0 {
			return
		}
		for _, en := range ents {
			p := string(en.FullPath)
			h := md5.New()
			for _, c := range en.Chunks {
				fmt.Fprintf(h, "%s@%d+%d;", c.GetFileIdString(), c.Offset, c.Size)
			}
			h.Write(en.Content)
			var ks []string
			for k, v := range en.Extended {
				ks = append(ks, k+"="+string(v))
			}
			sort.Strings(ks)
			fmt.Fprint(h, ks)
			out[p] = nsEntry{dir: en.IsDirectory(), size: en.Size(), sig: fmt.Sprintf("%x", h.Sum(nil)[:6])}
			if en.IsDirectory() {
				e.snapshot(p, out)
			}
			last = en.Name()
		}
		if len(ents) < 1024 {
			return
		}
	}
}

// ---------------------------------------------------------------- S3 client side

type s3resp struct {
	status int
	body   []byte
	hdr    http.Header
}

// do sends one request to the gateway; rawPathQuery is sent verbatim as the request target.
func (e *env) do(method, rawPathQuery string, hdr map[string]string, body []byte) s3resp {
	var rd io.Reader
	if body != nil {
		rd = bytes.NewReader(body)
	}
	req, err := http.NewRequest(method, "http://"+e.s3addr+rawPathQuery, rd)
	if err != nil {
		return s3resp{status: -1}
	}
	for k, v := range hdr {
		req.Header.Set(k, v)
	}
	resp, err := e.hc.Do(req)
	if err != nil {
		return s3resp{status: -2}
	}
	defer resp.Body.Close()
	b, _ := io.ReadAll(resp.Body)
	return s3resp{status: resp.StatusCode, body: b, hdr: resp.Header}
}
