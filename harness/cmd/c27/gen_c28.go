//go:build c28
// +build c28

package main

import (
	"sort"
	"strconv"

	"verifharness/hx"
)

const genName = "C28"

const miB = 1 << 20

var keys28 = []string{"a", "a/b", "a/c", "b", "d/e", "obj.bin"}
var partNos = []int{1, 2, 9, 10, 99, 100, 9999, 10000}

func pickSize(big bool) int {
	if big {
		return []int{miB - 1, miB, miB + 1, 2*miB + 5, 3 * miB}[rng.Intn(5)]
	}
	switch rng.Intn(6) {
	case 0:
		return 0
	case 1:
		return 1
	default:
		return 1 + rng.Intn(3000)
	}
}

func i2s(i int) string { return strconv.Itoa(i) }

func gets(key string, size int) {
	h := hx.HexS(key)
	run("get", []string{h, "-1", "0"})
	if size == 0 {
		return
	}
	for i := 0; i < 3; i++ {
		a := rng.Intn(size)
		b := a + rng.Intn(size-a)
		if rng.Chance(1, 6) {
			b = size + rng.Intn(10) // clipped at the end
		}
		run("get", []string{h, i2s(a), i2s(b)})
	}
	// ranges across the MiB chunk borders of the assembled object
	for _, edge := range []int{miB, 2 * miB} {
		if size > edge+2 && rng.Chance(1, 2) {
			run("get", []string{h, i2s(edge - 2), i2s(edge + 1)})
		}
	}
}

func genCase(caseNo int) {
	run("reset", nil)
	seed := 1 + rng.Intn(200)
	sizes := map[string]int{}
	allowOverlap := rng.Chance(1, 3)
	if allowOverlap && rng.Bool() {
		// the other order: a key that names an existing directory
		seed++
		run("put", []string{hx.HexS("a/c"), i2s(seed), i2s(10)})
		sizes["a/c"] = 10
		seed++
		run("put", []string{hx.HexS("a"), i2s(seed), i2s(20)})
		run("get", []string{hx.HexS("a"), "-1", "0"})
		run("ls", nil)
	} else if allowOverlap {
		// force the collision: an object, then a key below it, then (other order) a key naming a directory
		seed++
		run("put", []string{hx.HexS("a"), i2s(seed), i2s(20)})
		sizes["a"] = 20
		seed++
		run("put", []string{hx.HexS("a/b"), i2s(seed), i2s(10)})
		run("get", []string{hx.HexS("a/b"), "-1", "0"})
		run("copy", []string{hx.HexS("a"), hx.HexS("a/c")})
		run("get", []string{hx.HexS("a/c"), "-1", "0"})
		run("ls", nil)
	}
	// plain objects
	for i := 0; i < 1+rng.Intn(3); i++ {
		k := keys28[rng.Intn(len(keys28))]
		// hierarchically overlapping keys ("a" with "a/b") are sent on purpose in one case out of three
		_, hasA := sizes["a"]
		_, hasAB := sizes["a/b"]
		_, hasAC := sizes["a/c"]
		overlap := k == "a" && (hasAB || hasAC) || (k == "a/b" || k == "a/c") && hasA
		if overlap && !allowOverlap {
			continue
		}
		sz := pickSize(rng.Chance(1, 8))
		seed++
		run("put", []string{hx.HexS(k), i2s(seed), i2s(sz)})
		sizes[k] = sz
		if sz > 0 {
			sizes[k] = sz
		}
		gets(k, sz)
	}
	// multipart upload
	u := "u" + i2s(caseNo)
	mkey := []string{"mp", "m/p", "obj.bin"}[rng.Intn(3)]
	run("mpinit", []string{u, hx.HexS(mkey)})
	nparts := 1 + rng.Intn(12)
	total := 0
	var used []int
	for i := 0; i < nparts; i++ {
		n := partNos[rng.Intn(len(partNos))]
		switch rng.Intn(5) {
		case 0:
			n = 1 + rng.Intn(12)
		case 1:
			n = 1 + rng.Intn(100000)
		}
		if rng.Chance(1, 40) {
			n = 100001 + rng.Intn(5) // above globalMaxPartID
		}
		if len(used) > 0 && rng.Chance(1, 6) {
			n = used[rng.Intn(len(used))] // re-upload
		}
		used = append(used, n)
		if rng.Chance(1, 7) && len(sizes) > 0 {
			// copy-part from an existing object
			var srcs []string
			for k := range sizes {
				srcs = append(srcs, k)
			}
			sort.Strings(srcs) // map order is random: keep the generation a function of the seed
			for _, k := range srcs[rng.Intn(len(srcs)):] {
				sz := sizes[k]
				isDir := false
				for o := range sizes {
					if len(o) > len(k) && o[:len(k)+1] == k+"/" {
						isDir = true
					}
				}
				if isDir {
					// a copy source that names a directory yields the filer's directory listing as bytes
					// (not predictable; reported in the notes, not generated)
					break
				}
				if sz > 0 && rng.Bool() {
					a := rng.Intn(sz)
					run("mpcopy", []string{u, i2s(n), hx.HexS(k), i2s(a), i2s(a + rng.Intn(sz-a))})
				} else {
					run("mpcopy", []string{u, i2s(n), hx.HexS(k), "-1", "0"})
				}
				break
			}
			continue
		}
		sz := pickSize(rng.Chance(1, 10))
		seed++
		total += sz
		run("mppart", []string{u, i2s(n), i2s(seed), i2s(sz)})
	}
	run("mpparts", []string{u})
	run("mpdone", []string{u})
	gets(mkey, total+1)
	// copy
	if rng.Chance(1, 2) {
		run("copy", []string{hx.HexS(mkey), hx.HexS("cp/" + mkey)})
		run("get", []string{hx.HexS("cp/" + mkey), "-1", "0"})
	}
	run("ls", nil)
	// batch delete: duplicates, overlapping (directory names), nonexistent, cleaned names
	cand := []string{"a", "a/b", "a/c", "b", "d/e", "d", "a/", "nope", "/b", "a//b", mkey, "cp/" + mkey, "cp", "m"}
	var names []string
	for i := 0; i < 1+rng.Intn(5); i++ {
		names = append(names, hx.HexS(cand[rng.Intn(len(cand))]))
	}
	if rng.Chance(1, 3) {
		names = append(names, names[0])
	}
	run("bdel", names)
	run("ls", nil)
	run("del", []string{hx.HexS(cand[rng.Intn(len(cand))])})
	run("ls", nil)
}

func generate(a *hx.Args) {
	n := a.N(25)
	for i := 0; i < n; i++ {
		genCase(i)
	}
}
