// c27: correspondence harness shared by C27 (S3 listings), C28 (objects and multipart uploads
// round-trip) and C29 (S3 keys never escape their bucket). One binary, one environment (env.go);
// the build tag c28 / c29 only selects which generator runs (gen_c27.go, gen_c28.go, gen_c29.go);
// every op can be replayed by any of the three builds.
//
// Trace lines
//
//	C27  reset <key>...                                     new bucket holding exactly these object keys
//	     walk <style> <cont> <prefix> <delim> <maxkeys> <marker0> <maxsteps>
//	          => <status> (<T|F> <next> K=<keys> P=<prefixes>)*     one group per page
//	C28  see ops_c28.go        C29  see ops_c29.go
package main

import (
	"fmt"
	"os"

	"verifharness/hx"
)

var tr *hx.Trace
var E *env
var rng *hx.Rng

type opFn func(a []string) []string

var ops = map[string]opFn{}

func run(op string, args []string) {
	f, ok := ops[op]
	if !ok {
		fmt.Fprintln(os.Stderr, "harness: unknown op", op)
		os.Exit(2)
	}
	tr.Op(op, args, hx.Guard(func() []string { return f(args) }))
}

func main() {
	a := hx.ParseArgs()
	tr = hx.NewTrace(a.Out)
	defer tr.Close()
	rng = hx.NewRng(a.Seed)
	E = newEnv()
	defer E.close()
	tr.Comment(fmt.Sprintf("c27 gen=%s seed=%d tier=%s", genName, a.Seed, a.Tier))
	if a.Ops != "" {
		for _, w := range hx.ReadOps(a.Ops) {
			run(w[0], w[1:])
		}
		return
	}
	generate(a)
}
