package main

import (
	"encoding/xml"
	"fmt"
	"net/url"
	"strconv"
	"strings"

	"verifharness/hx"
)

var bucketSeq int
var curBucket string
var curKeys []string

func init() {
	ops["reset"] = opReset
	ops["walk"] = opWalk
}

// reset <key>... : a fresh bucket with exactly these objects (entries created directly in the filer).
func opReset(a []string) []string {
	bucketSeq++
	curBucket = fmt.Sprintf("bk%d", bucketSeq)
	E.mkdirAll(bucketsPath + "/" + curBucket)
	curKeys = nil
	for _, t := range a {
		k := hx.UnHexS(t)
		curKeys = append(curKeys, k)
		E.putEntry(bucketsPath+"/"+curBucket+"/"+k, []byte("x"))
	}
	return []string{"ok"}
}

type listResult struct {
	XMLName               xml.Name `xml:"ListBucketResult"`
	IsTruncated           bool     `xml:"IsTruncated"`
	NextMarker            string   `xml:"NextMarker"`
	NextContinuationToken string   `xml:"NextContinuationToken"`
	Contents              []struct {
		Key string `xml:"Key"`
	} `xml:"Contents"`
	CommonPrefixes []struct {
		Prefix string `xml:"Prefix"`
	} `xml:"CommonPrefixes"`
}

func hexList(tag string, xs []string) string {
	if len(xs) == 0 {
		return tag + "=-"
	}
	var h []string
	for _, x := range xs {
		h = append(h, hx.HexS(x))
	}
	return tag + "=" + strings.Join(h, ",")
}

// walk <style> <cont> <prefix> <delim> <maxkeys> <marker0> <maxsteps>
//
//	style v1: GET /bucket?marker=            v2: GET /bucket?list-type=2 (&continuation-token= | &start-after=)
//	      v2b: V2 with start-after=<marker0> on every request plus continuation-token from page 2 on (cont must be next)
//	      dr: direct call of listFilerEntries (hook), no HTTP
//	cont next: continue from NextMarker / NextContinuationToken     last: continue from the last key of the page
func opWalk(a []string) (outs []string) {
	style, cont := a[0], a[1]
	prefix, delim := hx.UnHexS(a[2]), hx.UnHexS(a[3])
	maxKeys, _ := strconv.Atoi(a[4])
	marker := hx.UnHexS(a[5])
	marker0 := marker
	maxSteps, _ := strconv.Atoi(a[6])
	outs = []string{"ok"}
	defer func() { outs = append(outs, "N="+strconv.Itoa(countFiles())) }()
	for step := 0; step < maxSteps; step++ {
		var keys, prefixes []string
		var trunc bool
		var next string
		if style == "dr" {
			var err error
			keys, prefixes, trunc, next, err = E.s3a.ListFilerEntriesVerif(curBucket, prefix, maxKeys, marker, delim)
			if err != nil {
				outs[0] = "err"
				return outs
			}
		} else {
			q := url.Values{}
			q.Set("prefix", prefix)
			if delim != "" {
				q.Set("delimiter", delim)
			}
			q.Set("max-keys", strconv.Itoa(maxKeys))
			if style == "v2b" {
				// as SDK paginators do: start-after is re-sent on every request, the token added from page 2 on
				q.Set("list-type", "2")
				if marker0 != "" {
					q.Set("start-after", marker0)
				}
				if step > 0 {
					q.Set("continuation-token", marker)
				}
			} else if style == "v2" {
				q.Set("list-type", "2")
				if marker != "" {
					if cont == "next" {
						q.Set("continuation-token", marker)
					} else {
						q.Set("start-after", marker)
					}
				}
			} else if marker != "" {
				q.Set("marker", marker)
			}
			r := E.do("GET", "/"+curBucket+"?"+q.Encode(), nil, nil)
			if r.status != 200 {
				outs[0] = fmt.Sprintf("e%d", r.status)
				return outs
			}
			var lr listResult
			if err := xml.Unmarshal(r.body, &lr); err != nil {
				outs[0] = "badxml"
				return outs
			}
			for _, c := range lr.Contents {
				keys = append(keys, c.Key)
			}
			for _, p := range lr.CommonPrefixes {
				prefixes = append(prefixes, p.Prefix)
			}
			trunc = lr.IsTruncated
			next = lr.NextMarker
			if style == "v2" || style == "v2b" {
				next = lr.NextContinuationToken
			}
		}
		outs = append(outs, map[bool]string{true: "T", false: "F"}[trunc], hx.HexS(next), hexList("K", keys), hexList("P", prefixes))
		if !trunc {
			break
		}
		if cont == "next" {
			marker = next
		} else {
			if len(keys) == 0 {
				break
			}
			marker = keys[len(keys)-1]
		}
	}
	return outs
}

// countFiles = number of file entries below the current bucket (direct filer access, observation only)
func countFiles() int {
	ns := map[string]nsEntry{}
	E.snapshot(bucketsPath+"/"+curBucket, ns)
	n := 0
	for _, e := range ns {
		if !e.dir {
			n++
		}
	}
	return n
}
