package main

// C29 ops (S3 keys never escape their bucket).
//
//	reset29                                   fixed namespace: bucket bkt {x, d/y, .uploads/up1/0001.part},
//	                                          bucket other {secret, d/s, .uploads/up2/0001.part}, /etc/secret, /topsecret
//	helper p2b|escape|join|dirname|upfolder <arg>…   the path helpers, called directly   => results
//	req <route> <key> <uploadId> <copysrc> <name>…     one request to bucket bkt through the real router
//	    => <status> R=<paths read outside> W=<paths written/deleted outside> N=<namespace changes outside>
//	"outside" = not /buckets/bkt, not below it, not one of its ancestors.

import (
	"net/url"
	"sort"
	"strings"

	"github.com/chrislusf/seaweedfs/weed/s3api"
	"github.com/chrislusf/seaweedfs/weed/util"

	"verifharness/hx"
)

const bkt = "bkt"

func init() {
	ops["reset29"] = opReset29
	ops["helper"] = opHelper
	ops["req"] = opReq
}

func opReset29(a []string) []string {
	for _, p := range []string{"/buckets", "/etc", "/topsecret"} {
		E.rmrf(p)
	}
	E.mkdirAll("/buckets/bkt")
	E.mkdirAll("/buckets/other")
	for _, p := range []string{"/buckets/bkt/x", "/buckets/bkt/d/y", "/buckets/bkt/.uploads/up1/0001.part",
		"/buckets/other/secret", "/buckets/other/d/s", "/buckets/other/.uploads/up2/0001.part", "/etc/secret", "/topsecret"} {
		E.putEntry(p, []byte("data:"+p))
	}
	curBucket = bkt
	return []string{"ok"}
}

func opHelper(a []string) []string {
	arg := func(i int) string {
		if i < len(a) {
			return hx.UnHexS(a[i])
		}
		return ""
	}
	switch a[0] {
	case "p2b":
		b, o := s3api.PathToBucketAndObjectVerif(arg(1))
		return []string{hx.HexS(b), hx.HexS(o)}
	case "escape":
		return []string{hx.HexS(s3api.UrlPathEscapeVerif(arg(1)))}
	case "join":
		return []string{hx.HexS(string(util.JoinPath(arg(1), arg(2))))}
	case "dirname":
		d, n := util.FullPath(arg(1)).DirAndName()
		return []string{hx.HexS(d), hx.HexS(n)}
	case "upfolder":
		return []string{hx.HexS(E.s3a.GenUploadsFolderVerif(arg(1)))}
	}
	return []string{"unknown"}
}

func outside(p string) bool {
	if p == "/" || p == "/buckets" || p == "/buckets/"+bkt || strings.HasPrefix(p, "/buckets/"+bkt+"/") {
		return false
	}
	return true
}

func setTok(tag string, m map[string]bool) string {
	var xs []string
	for k := range m {
		xs = append(xs, k)
	}
	sort.Strings(xs)
	return hexList(tag, xs)
}

func opReq(a []string) []string {
	route := a[0]
	key, uid, src := hx.UnHexS(a[1]), hx.UnHexS(a[2]), hx.UnHexS(a[3])
	var names []string
	for _, t := range a[4:] {
		names = append(names, hx.UnHexS(t))
	}
	before := map[string]nsEntry{}
	E.snapshot("/", before)
	E.store.start()
	path := "/" + bkt + "/" + key
	q := "uploadId=" + url.QueryEscape(uid)
	var r s3resp
	body := []byte("payload")
	switch route {
	case "get":
		r = E.do("GET", path, nil, nil)
	case "head":
		r = E.do("HEAD", path, nil, nil)
	case "put":
		r = E.do("PUT", path, nil, body)
	case "putdir":
		r = E.do("PUT", path+"/", nil, nil)
	case "delete":
		r = E.do("DELETE", path, nil, nil)
	case "copy":
		r = E.do("PUT", path, map[string]string{"X-Amz-Copy-Source": src}, nil)
	case "mpinit":
		r = E.do("POST", path+"?uploads", nil, nil)
	case "mppart":
		r = E.do("PUT", path+"?partNumber=1&"+q, nil, body)
	case "mpcopy":
		r = E.do("PUT", path+"?partNumber=1&"+q, map[string]string{"X-Amz-Copy-Source": src}, nil)
	case "mplist":
		r = E.do("GET", path+"?"+q, nil, nil)
	case "mpabort":
		r = E.do("DELETE", path+"?"+q, nil, nil)
	case "mpdone":
		r = E.do("POST", path+"?"+q, nil, []byte("<CompleteMultipartUpload></CompleteMultipartUpload>"))
	case "bdel":
		var sb strings.Builder
		sb.WriteString("<Delete>")
		for _, n := range names {
			sb.WriteString("<Object><Key>" + xmlEsc(n) + "</Key></Object>")
		}
		sb.WriteString("</Delete>")
		r = E.do("POST", "/"+bkt+"?delete", map[string]string{"Content-Type": "application/xml"}, []byte(sb.String()))
	case "tagget":
		r = E.do("GET", path+"?tagging", nil, nil)
	case "tagput":
		r = E.do("PUT", path+"?tagging", nil, []byte("<Tagging><TagSet><Tag><Key>k</Key><Value>v</Value></Tag></TagSet></Tagging>"))
	case "tagdel":
		r = E.do("DELETE", path+"?tagging", nil, nil)
	case "list":
		r = E.do("GET", "/"+bkt+"?prefix="+url.QueryEscape(key), nil, nil)
	}
	log := E.store.stop()
	after := map[string]nsEntry{}
	E.snapshot("/", after)
	R, W, N := map[string]bool{}, map[string]bool{}, map[string]bool{}
	for _, l := range log {
		kind, p := l[:1], l[2:]
		if !outside(p) {
			continue
		}
		if kind == "r" || kind == "l" {
			R[p] = true
		} else {
			W[p] = true
		}
	}
	for p, e := range before {
		if e2, ok := after[p]; (!ok || e2 != e) && outside(p) {
			N[p] = true
		}
	}
	for p := range after {
		if _, ok := before[p]; !ok && outside(p) {
			N[p] = true
		}
	}
	return []string{st(r.status), setTok("R", R), setTok("W", W), setTok("N", N)}
}

func xmlEsc(s string) string {
	return strings.NewReplacer("&", "&amp;", "<", "&lt;", ">", "&gt;").Replace(s)
}
