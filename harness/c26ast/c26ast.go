// Package c26ast reads the facts the C26 model transcribes straight from the Go SOURCE of weed/s3api (go/ast, no
// type checking): the route table of registerRouter, the if-chain of getRequestAuthType, the text of the is* predicates,
// the arms of the switch in authRequest, and which verifier functions each routed handler calls itself.
// Used by harness/cmd/c26 (run-time facts, cross-checked with mux.Walk) and harness/cmd/c26facts (Lean Gen file).
package c26ast

import (
	"bytes"
	"go/ast"
	"go/parser"
	"go/printer"
	"go/token"
	"os"
	"strconv"
	"strings"
)

func nodeText(fset *token.FileSet, n ast.Node) string {
	var b bytes.Buffer
	printer.Fprint(&b, fset, n)
	return strings.Join(strings.Fields(b.String()), " ")
}

func unq(s string) string {
	if u, err := strconv.Unquote(s); err == nil {
		return u
	}
	return s
}

// Route is one leaf route statement of registerRouter.
type Route struct {
	Handler, Action, Method, Path, HdrKey, HdrRe string
	Queries                                      []string
	Wrapped                                      bool
}

// parseRoute flattens one `x.Methods(..).Path(..)…HandlerFunc(track(s3a.iam.Auth(s3a.H, ACTION), ".."))….Queries(..)` chain
func parseRoute(fset *token.FileSet, e ast.Expr) (Route, bool) {
	var r Route
	ok := false
	for {
		call, isCall := e.(*ast.CallExpr)
		if !isCall {
			break
		}
		sel, isSel := call.Fun.(*ast.SelectorExpr)
		if !isSel {
			break
		}
		var args []string
		for _, a := range call.Args {
			args = append(args, unq(nodeText(fset, a)))
		}
		switch sel.Sel.Name {
		case "Methods":
			r.Method = strings.Join(args, ",")
		case "Path":
			r.Path = strings.Join(args, ",")
		case "Queries":
			for i := 0; i+1 < len(args); i += 2 {
				r.Queries = append(r.Queries, args[i]+"="+args[i+1])
			}
		case "HeadersRegexp":
			if len(args) == 2 {
				r.HdrKey, r.HdrRe = args[0], args[1]
			} else {
				r.HdrKey, r.HdrRe = "?", strings.Join(args, ",")
			}
		case "HandlerFunc":
			ok = true
			// track(s3a.iam.Auth(s3a.X, ACTION_Y), "Z")  or  track(s3a.X, "Z")
			inner := call.Args[0]
			if c, isC := inner.(*ast.CallExpr); isC && nodeText(fset, c.Fun) == "track" && len(c.Args) > 0 {
				inner = c.Args[0]
			}
			if c, isC := inner.(*ast.CallExpr); isC && strings.HasSuffix(nodeText(fset, c.Fun), ".Auth") && len(c.Args) == 2 {
				r.Wrapped = true
				r.Handler = strings.TrimPrefix(nodeText(fset, c.Args[0]), "s3a.")
				r.Action = nodeText(fset, c.Args[1])
			} else {
				r.Handler = strings.TrimPrefix(nodeText(fset, inner), "s3a.")
				r.Action = "-"
			}
		default:
			// Host/PathPrefix/Subrouter/... : not a leaf route description
			return r, false
		}
		e = sel.X
	}
	return r, ok && r.Method != ""
}

type Facts struct {
	Routes    []Route
	Order     [][2]string // (condition text, returned auth type) of getRequestAuthType, in order; the final return has condition ""
	Preds     [][2]string // (predicate function, body text)
	Cases     [][2]string // (auth type | "default", arm) of the switch in authRequest
	Tail      string      // what authRequest does after the switch
	Verifiers [][2]string // (handler, comma list of verifier calls in its body | "-")
}

// Load parses the non-test files of dir (weed/s3api).
func Load(dir string) (*Facts, error) {
	fset := token.NewFileSet()
	pkgs, err := parser.ParseDir(fset, dir, func(fi os.FileInfo) bool { return !strings.HasSuffix(fi.Name(), "_test.go") }, 0)
	if err != nil {
		return nil, err
	}
	F := &Facts{}
	funcs := map[string]*ast.FuncDecl{}
	for _, p := range pkgs {
		for _, f := range p.Files {
			for _, d := range f.Decls {
				if fd, ok := d.(*ast.FuncDecl); ok && fd.Body != nil {
					funcs[fd.Name.Name] = fd
				}
			}
		}
	}
	// ---- route table: statements of registerRouter in source order (the per-host loop body counts once)
	if fd := funcs["registerRouter"]; fd != nil {
		ast.Inspect(fd.Body, func(n ast.Node) bool {
			if es, ok := n.(*ast.ExprStmt); ok {
				if r, ok := parseRoute(fset, es.X); ok {
					F.Routes = append(F.Routes, r)
				}
				return false
			}
			return true
		})
	}
	// ---- getRequestAuthType: the if/else-if chain as (condition, result) pairs in order
	if fd := funcs["getRequestAuthType"]; fd != nil {
		var walk func(st ast.Stmt)
		walk = func(st ast.Stmt) {
			is, ok := st.(*ast.IfStmt)
			if !ok {
				return
			}
			cond := nodeText(fset, is.Cond)
			if is.Init != nil {
				cond = nodeText(fset, is.Init) + ";" + cond
			}
			res := "?"
			if len(is.Body.List) == 1 {
				if rs, ok := is.Body.List[0].(*ast.ReturnStmt); ok && len(rs.Results) == 1 {
					res = nodeText(fset, rs.Results[0])
				}
			}
			F.Order = append(F.Order, [2]string{cond, res})
			if is.Else != nil {
				walk(is.Else)
			}
		}
		for _, st := range fd.Body.List {
			switch x := st.(type) {
			case *ast.IfStmt:
				walk(x)
			case *ast.ReturnStmt:
				F.Order = append(F.Order, [2]string{"", nodeText(fset, x.Results[0])})
			}
		}
	}
	for _, name := range []string{"isRequestJWT", "isRequestSignatureV4", "isRequestSignatureV2", "isRequestPresignedSignatureV4", "isRequestPresignedSignatureV2", "isRequestPostPolicySignatureV4", "isRequestSignStreamingV4"} {
		if fd := funcs[name]; fd != nil {
			var body []string
			for _, st := range fd.Body.List {
				body = append(body, nodeText(fset, st))
			}
			F.Preds = append(F.Preds, [2]string{name, strings.Join(body, " ; ")})
		}
	}
	// ---- authRequest: the switch arms
	if fd := funcs["authRequest"]; fd != nil {
		ast.Inspect(fd.Body, func(n ast.Node) bool {
			sw, ok := n.(*ast.SwitchStmt)
			if !ok {
				return true
			}
			for _, cs := range sw.Body.List {
				cc := cs.(*ast.CaseClause)
				var stmts []string
				for _, st := range cc.Body {
					t := nodeText(fset, st)
					if strings.HasPrefix(t, "glog.") {
						continue
					}
					stmts = append(stmts, t)
				}
				body := strings.Join(stmts, " ; ")
				arm := "other:" + body
				switch body {
				case "return identity, s3err.ErrNone":
					arm = "pass"
				case "return identity, s3err.ErrAccessDenied":
					arm = "denied"
				case "return identity, s3err.ErrNotImplemented":
					arm = "notimpl"
				case "identity, s3Err = iam.isReqAuthenticatedV2(r)":
					arm = "v2"
				case "identity, s3Err = iam.reqSignatureV4Verify(r)":
					arm = "v4"
				case "identity, found = iam.lookupAnonymous() ; if !found { return identity, s3err.ErrAccessDenied }":
					arm = "anon"
				}
				if cc.List == nil {
					F.Cases = append(F.Cases, [2]string{"default", arm})
				}
				for _, e := range cc.List {
					F.Cases = append(F.Cases, [2]string{nodeText(fset, e), arm})
				}
			}
			return false
		})
		var tail []string
		seen := false
		for _, st := range fd.Body.List {
			if _, ok := st.(*ast.SwitchStmt); ok {
				seen = true
				continue
			}
			if seen {
				t := nodeText(fset, st)
				if !strings.HasPrefix(t, "glog.") {
					tail = append(tail, t)
				}
			}
		}
		F.Tail = strings.Join(tail, " ; ")
	}
	// ---- which verifiers each routed handler calls itself
	seenH := map[string]bool{}
	for _, r := range F.Routes {
		if seenH[r.Handler] {
			continue
		}
		seenH[r.Handler] = true
		var flags []string
		if fd := funcs[r.Handler]; fd != nil {
			has := map[string]bool{}
			ast.Inspect(fd.Body, func(n ast.Node) bool {
				if c, ok := n.(*ast.CallExpr); ok {
					if sel, ok := c.Fun.(*ast.SelectorExpr); ok {
						switch sel.Sel.Name {
						case "newSignV4ChunkedReader":
							has["seed"] = true
						case "isReqAuthenticatedV2":
							has["v2"] = true
						case "reqSignatureV4Verify":
							has["v4"] = true
						case "doesPolicySignatureMatch":
							has["policy"] = true
						case "authUser":
							has["authuser"] = true
						case "authRequest":
							has["authrequest"] = true
						}
					}
				}
				return true
			})
			for _, k := range []string{"seed", "v2", "v4", "policy", "authuser", "authrequest"} {
				if has[k] {
					flags = append(flags, k)
				}
			}
		} else {
			flags = []string{"nosource"}
		}
		if len(flags) == 0 {
			flags = []string{"-"}
		}
		F.Verifiers = append(F.Verifiers, [2]string{r.Handler, strings.Join(flags, ",")})
	}
	return F, nil
}
