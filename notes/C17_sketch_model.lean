/-! Prototype: MergeIntoVisibles refines last-writer-wins overlay (positive-size chunks). -/

structure Chunk where
  off  : Int
  size : Int          -- > 0
  fid  : Nat
deriving Repr, DecidableEq

structure Vis where
  start : Int
  stop  : Int
  fid   : Nat
  coff  : Int          -- offset inside the chunk of byte `start`
deriving Repr, DecidableEq

def Chunk.stop (c : Chunk) : Int := c.off + c.size

/-- pieces of one old interval that survive a new chunk [o, e) -/
def pieces (o e : Int) (v : Vis) : List Vis :=
  (if v.start < o ∧ o < v.stop then [{ v with stop := o }] else []) ++
  (if v.start < e ∧ e < v.stop then [{ start := e, stop := v.stop, fid := v.fid, coff := v.coff + (e - v.start) }] else []) ++
  (if e ≤ v.start ∨ v.stop ≤ o then [v] else [])

def bubbleRev : List Vis → Vis → List Vis
  | [], n => [n]
  | x :: xs, n => if n.start < x.start then x :: bubbleRev xs n else n :: x :: xs

def bubble (xs : List Vis) (n : Vis) : List Vis := (bubbleRev xs.reverse n).reverse

def newVis (c : Chunk) : Vis := { start := c.off, stop := c.stop, fid := c.fid, coff := 0 }

def mergeInto (vs : List Vis) (c : Chunk) : List Vis :=
  match vs.getLast? with
  | none => [newVis c]
  | some last =>
    if last.stop ≤ c.off then vs ++ [newVis c]
    else bubble (vs.flatMap (pieces c.off c.stop)) (newVis c)

def visibles (cs : List Chunk) : List Vis := cs.foldl mergeInto []

/-- spec: last chunk (in processing order) covering p -/
def ovl : List Chunk → Int → Option (Nat × Int)
  | [], _ => none
  | c :: cs, p =>
    match ovl cs p with   -- later chunks win; list given oldest first so recurse on reversed
    | some r => some r
    | none => if c.off ≤ p ∧ p < c.stop then some (c.fid, p - c.off) else none

/-- overlay with oldest-first list -/
def overlay (cs : List Chunk) (p : Int) : Option (Nat × Int) := ovl cs.reverse.reverse p

#eval visibles [⟨0,10,1⟩, ⟨5,10,2⟩, ⟨2,3,3⟩]
