/-! Scratch: can we do the EC block arithmetic with symbolic block length (non-linear for omega)? -/

/-- position of a dat byte laid out in rows of `n` blocks of length `B` -/
theorem block_locate (B n row shard inner : Nat) (hB : 0 < B) (hs : shard < n) (hi : inner < B) :
    let o := row * (n * B) + shard * B + inner
    (o / B) % n = shard ∧ (o / B) / n = row ∧ o % B = inner := by
  intro o
  have hn : 0 < n := Nat.lt_of_le_of_lt (Nat.zero_le _) hs
  have ho : o = inner + B * (row * n + shard) := by
    show row * (n * B) + shard * B + inner = inner + B * (row * n + shard)
    rw [Nat.mul_add, Nat.mul_comm B (row * n), Nat.mul_assoc, Nat.mul_comm B shard]; omega
  have hdiv : o / B = row * n + shard := by
    rw [ho, Nat.add_mul_div_left _ _ hB, Nat.div_eq_of_lt hi, Nat.zero_add]
  have hmod : o % B = inner := by
    rw [ho, Nat.add_mul_mod_self_left, Nat.mod_eq_of_lt hi]
  refine ⟨?_, ?_, hmod⟩
  · rw [hdiv, Nat.add_comm, Nat.add_mul_mod_self_right, Nat.mod_eq_of_lt hs]
  · rw [hdiv, Nat.add_comm, Nat.add_mul_div_right _ _ hn, Nat.div_eq_of_lt hs, Nat.zero_add]

/-- the production instantiation is then closed by evaluation -/
example : (1024*1024) ∣ (1024*1024*1024) := by decide
#print axioms block_locate
