#!/bin/sh
# MANIFEST.setup_cmd: build the framework offline from files on disk only.
set -e
cd "$(dirname "$0")"
export GOFLAGS=-mod=mod GOPROXY=off GOSUMDB=off GOTOOLCHAIN=local CGO_ENABLED=0
mkdir -p bin evidence replays
(cd extract && go build -o ../bin/extract .)
python3 tools/mkgomod.py /repo
flock "$(pwd)/.lean.lock" python3 tools/setup_all.py
