#!/usr/bin/env python3
"""Refreshes the generated regions of DESIGN.md (status tables, seeded-change table)."""
import subprocess, os, re, sys
ROOT = os.path.dirname(os.path.dirname(os.path.abspath(__file__)))
p = os.path.join(ROOT, "DESIGN.md")
s = open(p).read()
def gen(cmd): return subprocess.run([sys.executable, os.path.join(ROOT, "tools", cmd)], stdout=subprocess.PIPE, text=True).stdout
for tag, cmd in (("STATUS", "status_table.py"), ("SEEDED", "seeded_table.py")):
    a, b = "<!-- GENERATED:%s -->" % tag, "<!-- /GENERATED:%s -->" % tag
    if a in s and b in s:
        i, j = s.index(a) + len(a), s.index(b)
        s = s[:i] + "\n" + gen(cmd) + "\n" + s[j:]
open(p, "w").write(s)
