#!/usr/bin/env python3
"""Prints the markdown table 'which check catches which seeded change' from seeded/*/meta.json."""
import json, glob, os
ROOT = os.path.dirname(os.path.dirname(os.path.abspath(__file__)))
print("| seeded id | property | needs to manifest | confirmed (builds, suite passes, demo fails only with change) | caught by | how reported |")
print("|---|---|---|---|---|---|")
for p in sorted(glob.glob(os.path.join(ROOT, "seeded", "*", "meta.json"))):
    m = json.load(open(p))
    det = m.get("detection", {})
    tier = next((t for t in ("quick", "thorough") if det.get(t, {}).get("exit") == 1 and det[t].get("violation_lines")), None)
    how = ""
    if tier:
        v = det[tier]["violation_lines"][0]
        how = "no-failing-input-found (broken obligation/correspondence)" if "no-failing-input-found" in v else "concrete replay: " + v.split("replay=")[1]
    print("| %s | %s | %s | %s | %s | %s |" % (m["id"], m["property"], m.get("needs_to_manifest", "")[:140], "yes" if m.get("confirmed") else "NO", tier or "MISSED" + (" (" + m["missed_reason"] + ")" if m.get("missed_reason") else ""), how))
