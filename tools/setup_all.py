#!/usr/bin/env python3
"""Warm every cache: harness binaries for every claimed property/variant, regenerated Gen modules, all Lean targets."""
import json, glob, os, subprocess, sys, concurrent.futures
ROOT = os.path.dirname(os.path.dirname(os.path.abspath(__file__)))
sys.path.insert(0, ROOT)
env = dict(os.environ, GOFLAGS="-mod=mod", GOPROXY="off", GOSUMDB="off", GOTOOLCHAIN="local", CGO_ENABLED="0")
cfgs = [json.load(open(p)) for p in sorted(glob.glob(os.path.join(ROOT, "props", "*", "prop.json")))]
# lakefile
import importlib.machinery, importlib.util
loader = importlib.machinery.SourceFileLoader("check", os.path.join(ROOT, "check"))
spec = importlib.util.spec_from_loader("check", loader); chk = importlib.util.module_from_spec(spec); loader.exec_module(chk)
chk.mklake()
# Gen
for c in cfgs:
    for s in c.get("extract", []):
        out = os.path.join(ROOT, "lean", s["out"])
        os.makedirs(os.path.dirname(out), exist_ok=True)
        if s.get("cmd"):
            subprocess.run(s["cmd"], env=dict(env, VERIF_REPO="/repo", VERIF_OUT=out), cwd=ROOT)
            continue
        cmd = [os.path.join(ROOT, "bin", "extract"), "-repo", "/repo", "-spec", os.path.join(ROOT, s["spec"]), "-out", out]
        if s.get("tags"): cmd += ["-tags", s["tags"]]
        if s.get("suffix"): cmd += ["-suffix", s["suffix"]]
        subprocess.run(cmd, env=env, cwd="/repo")
# harness binaries: first one alone (fills the build cache), the rest in parallel
jobs = []
seen = set()
for c in cfgs:
    for v in c.get("variants", [{"name": "default", "tags": "verif"}]):
        key = (c["engine"], v["name"])
        if key in seen: continue
        seen.add(key)
        out = os.path.join(ROOT, "bin", c["engine"] + ("" if v["name"] == "default" else "-" + v["name"]))
        jobs.append(["go", "build", "-tags", v["tags"], "-o", out, "./cmd/" + c["engine"]])
def run(cmd):
    p = subprocess.run(cmd, cwd=os.path.join(ROOT, "harness"), env=env, stdout=subprocess.PIPE, stderr=subprocess.STDOUT, text=True)
    if p.returncode != 0: print("setup: harness build failed:", " ".join(cmd), p.stdout[-2000:])
    return p.returncode
if jobs:
    run(jobs[0])
    with concurrent.futures.ThreadPoolExecutor(max_workers=4) as ex:
        list(ex.map(run, jobs[1:]))
# lean: all props modules and drivers
targets = []
for c in cfgs:
    targets.append(c.get("props_module", "SwV.Props." + c["id"]))
    targets.append(c.get("driver", "drv_" + c["engine"]))
targets = sorted(set(targets))
p = subprocess.run(["lake", "build"] + targets, cwd=os.path.join(ROOT, "lean"))
print("setup: lake build exit", p.returncode)
sys.exit(0)
