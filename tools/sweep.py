#!/usr/bin/env python3
"""tools/sweep.py [--seeds 1,2,3] [--tier quick] [--par 3] [--props C01,C02]  — runs the claimed checks on the unchanged tree and prints exit code / wall per run."""
import json, os, subprocess, sys, time, argparse, concurrent.futures
ROOT = os.path.dirname(os.path.dirname(os.path.abspath(__file__)))
ap = argparse.ArgumentParser()
ap.add_argument("--seeds", default="1"); ap.add_argument("--tier", default="quick"); ap.add_argument("--par", type=int, default=3); ap.add_argument("--props", default="")
a = ap.parse_args()
props = a.props.split(",") if a.props else [c["property_id"] for c in json.load(open(os.path.join(ROOT, "MANIFEST.json")))["checks"]]
jobs = [(p, int(s)) for s in a.seeds.split(",") for p in props]
def run(j):
    p, s = j
    t = time.time()
    r = subprocess.run([os.path.join(ROOT, "check"), p, "--tier", a.tier, "--seed", str(s)], cwd=ROOT, stdout=subprocess.PIPE, stderr=subprocess.STDOUT, text=True)
    tail = [l for l in r.stdout.split("\n") if l.startswith(("VIOLATION", "BROKEN", p + " tier")) or "DIFF" in l[:40]]
    line = "%s seed=%d exit=%d wall=%.0fs %s" % (p, s, r.returncode, time.time() - t, " | ".join(x[:200] for x in tail[:4]) if r.returncode else "")
    print(line, flush=True)
    return r.returncode
with concurrent.futures.ThreadPoolExecutor(max_workers=a.par) as ex:
    rcs = list(ex.map(run, jobs))
print("SWEEP done: %d runs, %d failing" % (len(rcs), sum(1 for r in rcs if r)))
