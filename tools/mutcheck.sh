#!/bin/sh
# tools/mutcheck.sh <Cxx> <patch.diff> [tier]
# Runs ./check Cxx against a SCRATCH copy of /repo with the patch applied, from a scratch copy
# of /verif — /repo itself is never touched (other builders are running checks against it).
set -e
P="$1"; PATCH="$(readlink -f "$2")"; TIER="${3:-quick}"
S=$(mktemp -d /tmp/mt.XXXXXX)
trap 'git -C /repo worktree remove --force "$S/repo" >/dev/null 2>&1; rm -rf "$S"' EXIT
git -C /repo worktree add --detach "$S/repo" HEAD >/dev/null 2>&1
git -C "$S/repo" apply "$PATCH"
rsync -a --exclude .work --exclude replays --exclude .git --exclude ".*.lock" /verif/ "$S/verif/" || [ $? -eq 24 ]
mkdir -p "$S/verif/replays"
cd "$S/verif"
export GOFLAGS=-mod=mod GOPROXY=off GOSUMDB=off GOTOOLCHAIN=local CGO_ENABLED=0
set +e
VERIF_REPO="$S/repo" ./check "$P" --tier "$TIER" > "$S/out.txt" 2>&1
RC=$?
cat "$S/out.txt" | tail -40
for f in $(grep -o 'replay=[^ ]*' "$S/out.txt" | cut -d= -f2); do echo "--- $f"; head -12 "$S/verif/$f" | cut -c1-300; done
echo "mutcheck: exit $RC"
exit $RC
