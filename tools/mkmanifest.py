#!/usr/bin/env python3
"""Regenerate MANIFEST.json from props/*/prop.json (claimed) and properties.jsonl (everything else → not_applicable with the reason in tools/not_applicable.json)."""
import json, glob, os
ROOT = os.path.dirname(os.path.dirname(os.path.abspath(__file__)))
props = [json.loads(l) for l in open(os.path.join(ROOT, "properties.jsonl"))]
cfgs = {}
for p in glob.glob(os.path.join(ROOT, "props", "*", "prop.json")):
    c = json.load(open(p)); cfgs[c["id"]] = c
na_reasons = {}
p = os.path.join(ROOT, "tools", "not_applicable.json")
if os.path.exists(p): na_reasons = json.load(open(p))
hooks = json.load(open(os.path.join(ROOT, "tools", "hooks.json")))
for hp in sorted(glob.glob(os.path.join(ROOT, "props", "*", "hooks.txt"))):
    for l in open(hp):
        l = l.strip().split()[0] if l.strip() else ""
        if l and l not in hooks["source_commits"]: hooks["source_commits"].append(l)
claimed = None
cp = os.path.join(ROOT, "tools", "claimed.json")
if os.path.exists(cp): claimed = set(json.load(open(cp)))
checks = []; na = []; engines = {}
for pr in props:
    i = pr["id"]
    c = cfgs.get(i)
    if not c or c.get("disabled") or (claimed is not None and i not in claimed):
        na.append({"property_id": i, "reason": na_reasons.get(i, "engine not built yet in this round (plan: DESIGN.md §5 %s); no check is registered, nothing is claimed" % i)})
        continue
    checks.append({
        "property_id": i,
        "quick_cmd": "./check %s --tier quick" % i,
        "thorough_cmd": "./check %s --tier thorough" % i,
        "evidence_file": "evidence/%s.json" % i,
        "replay_cmd_template": "./check %s --replay {path}" % i,
        "engine": c["engine"],
        "level_claimed": {"category": "proof", "text": c.get("level_text", ""), "design_ref": c.get("design_ref", "DESIGN.md §5 " + i)},
        "level_note": c.get("level_note", ""),
        "technique": c.get("technique", "Lean 4 theorems about an executable model + differential correspondence check against the real Go code"),
    })
    e = engines.setdefault(c["engine"], {"name": c["engine"], "path": "harness/cmd/%s + lean/Drv + lean/SwV/{Model,Spec,Props}" % c["engine"], "serves_properties": [], "kind_free_text": "Go harness calling the real code in-process → line trace → compiled Lean driver (model recomputation + judge)"})
    e["serves_properties"].append(i)
m = {
    "version": 1,
    "setup_cmd": "./setup.sh",
    "hooks": hooks,
    "engines": list(engines.values()),
    "checks": checks,
    "not_applicable": na,
    "notes": "Every check: (P) Lean 4 theorems about an executable model, regenerated facts/translations from /repo's working tree re-checked on every run; (T) correspondence: the real Go code and the model run on the same operation lines. See DESIGN.md.",
}
json.dump(m, open(os.path.join(ROOT, "MANIFEST.json"), "w"), indent=1)
print("claimed:", [c["property_id"] for c in checks])
