#!/usr/bin/env python3
"""tools/seed_verify.py <Cxx> <dir-with-patch.diff-and-demo> <seeded-id> [--demo-cmd "..."] [--demo-dest path]

Confirms a candidate breaking change independently (scratch worktree, never /repo):
  1. patch applies, `go build ./...` ok
  2. the pinned baseline test suite still passes with the change (all BASELINE stable_pass tests)
  3. the demonstration fails WITH the change and passes WITHOUT it
  4. runs ./check <Cxx> (quick, then thorough if quick misses) against the changed tree (tools/mutcheck.sh)
and stores /verif/seeded/<seeded-id>/{patch.diff,demo/,meta.json}.
"""
import sys, os, json, subprocess, shutil, tempfile, argparse, glob, time
ROOT = os.path.dirname(os.path.dirname(os.path.abspath(__file__)))
ENV = dict(os.environ, GOFLAGS="-mod=mod", GOPROXY="off", GOSUMDB="off", GOTOOLCHAIN="local", CGO_ENABLED="0")

def sh(cmd, cwd=None, timeout=3000):
    p = subprocess.run(cmd, cwd=cwd, env=ENV, shell=isinstance(cmd, str), stdout=subprocess.PIPE, stderr=subprocess.STDOUT, text=True, timeout=timeout)
    return p.returncode, p.stdout

def passing_tests(wt):
    rc, out = sh("go test -json -vet=off -count=1 -timeout 25m ./...", cwd=wt)
    ok = set()
    for l in out.split("\n"):
        if not l.startswith("{"): continue
        try: e = json.loads(l)
        except Exception: continue
        if e.get("Action") == "pass" and e.get("Test"):
            ok.add("%s::%s" % (e["Package"], e["Test"]))
    return ok

def main():
    ap = argparse.ArgumentParser()
    ap.add_argument("prop"); ap.add_argument("src"); ap.add_argument("sid")
    ap.add_argument("--demo-cmd", required=True, help="command run in the worktree root; exit 0 = demo passes")
    ap.add_argument("--demo-files", nargs="*", default=[], help="src:dest pairs (dest relative to worktree root)")
    ap.add_argument("--needs", default="")
    ap.add_argument("--skip-suite", action="store_true")
    a = ap.parse_args()
    base = json.load(open("/root/.vp/BASELINE.json"))["stable_pass"]
    wt = tempfile.mkdtemp(prefix="sv.", dir="/tmp")
    os.rmdir(wt)
    meta = {"property": a.prop, "id": a.sid, "needs_to_manifest": a.needs, "ran": [], "at": time.strftime("%Y-%m-%dT%H:%M:%SZ", time.gmtime())}
    try:
        sh(["git", "-C", "/repo", "worktree", "add", "--detach", wt, "HEAD"])
        patch = os.path.abspath(os.path.join(a.src, "patch.diff"))
        for pair in a.demo_files:
            s, d = pair.split(":")
            os.makedirs(os.path.dirname(os.path.join(wt, d)) or wt, exist_ok=True)
            shutil.copy(os.path.join(a.src, s), os.path.join(wt, d))
        # without the change
        rc0, o0 = sh(a.demo_cmd, cwd=wt)
        meta["ran"].append({"cmd": a.demo_cmd, "tree": "unchanged", "exit": rc0, "tail": o0[-600:]})
        rc, o = sh(["git", "-C", wt, "apply", patch])
        if rc != 0:
            print("patch does not apply:", o); return 2
        rcb, ob = sh("go build ./...", cwd=wt)
        meta["ran"].append({"cmd": "go build ./...", "tree": "changed", "exit": rcb, "tail": ob[-300:]})
        rc1, o1 = sh(a.demo_cmd, cwd=wt)
        meta["ran"].append({"cmd": a.demo_cmd, "tree": "changed", "exit": rc1, "tail": o1[-600:]})
        suite_ok = None
        if not a.skip_suite:
            for pair in a.demo_files:   # the demo is not part of the suite
                os.remove(os.path.join(wt, pair.split(":")[1]))
            ok = passing_tests(wt)
            missing = [t for t in base if t not in ok]
            # a panic in one test (weed/storage has a rand.Int63n(0) flake on the unchanged tree) kills its whole package: retry those packages
            for attempt in range(3):
                if not missing: break
                pkgs = sorted({t.split("::")[0].replace("github.com/chrislusf/seaweedfs", ".") for t in missing})
                rc, out = sh("go test -json -vet=off -count=1 -timeout 25m " + " ".join(pkgs), cwd=wt)
                for l in out.split("\n"):
                    if l.startswith("{"):
                        try: e = json.loads(l)
                        except Exception: continue
                        if e.get("Action") == "pass" and e.get("Test"): ok.add("%s::%s" % (e["Package"], e["Test"]))
                missing = [t for t in base if t not in ok]
            suite_ok = not missing
            meta["ran"].append({"cmd": "go test -json -vet=off -count=1 ./... (baseline stable_pass compared)", "tree": "changed", "missing_from_pass": missing})
        meta["confirmed"] = bool(rcb == 0 and rc0 == 0 and rc1 != 0 and (suite_ok is not False))
        print("build", rcb, "demo unchanged", rc0, "demo changed", rc1, "suite_ok", suite_ok, "=> confirmed", meta["confirmed"])
    finally:
        sh(["git", "-C", "/repo", "worktree", "remove", "--force", wt])
        shutil.rmtree(wt, ignore_errors=True)
    # detection by our check
    det = {}
    for tier in ("quick", "thorough"):
        rc, o = sh([os.path.join(ROOT, "tools", "mutcheck.sh"), a.prop, patch, tier], timeout=3600)
        vio = [l for l in o.split("\n") if l.startswith("VIOLATION")]
        det[tier] = {"exit": rc, "violation_lines": vio[:5]}
        print(tier, "check exit", rc, vio[:2])
        if rc == 1 and vio: break
    meta["detection"] = det
    dst = os.path.join(ROOT, "seeded", a.sid)
    shutil.rmtree(dst, ignore_errors=True)
    os.makedirs(dst)
    shutil.copy(patch, os.path.join(dst, "patch.diff"))
    if os.path.isdir(os.path.join(a.src, "demo")): shutil.copytree(os.path.join(a.src, "demo"), os.path.join(dst, "demo"))
    if os.path.exists(os.path.join(a.src, "notes.md")): shutil.copy(os.path.join(a.src, "notes.md"), os.path.join(dst, "notes.md"))
    meta["demo_cmd"] = a.demo_cmd; meta["demo_files"] = a.demo_files
    json.dump(meta, open(os.path.join(dst, "meta.json"), "w"), indent=1)
    return 0

sys.exit(main())
