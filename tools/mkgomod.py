#!/usr/bin/env python3
"""Regenerate /verif/harness/go.mod from /repo/go.mod (dependency edits in the repo are followed)."""
import re, shutil, sys, os
repo = sys.argv[1] if len(sys.argv) > 1 else "/repo"
src = open(os.path.join(repo, "go.mod")).read()
i = src.index("\ngo ")
body = src[i+1:]
lines = [l for l in body.split("\n") if not l.strip().startswith("//")]
out = "module verifharness\n\n" + "\n".join(lines).rstrip() + "\n\nrequire github.com/chrislusf/seaweedfs v0.0.0\n\nreplace github.com/chrislusf/seaweedfs => " + repo + "\n"
dst = os.path.join(os.path.dirname(os.path.abspath(__file__)), "..", "harness")
p = os.path.join(dst, "go.mod")
old = open(p).read() if os.path.exists(p) else None
if old != out:
    open(p, "w").write(out)
s = open(os.path.join(repo, "go.sum")).read()
ps = os.path.join(dst, "go.sum")
if not os.path.exists(ps) or open(ps).read() != s:
    open(ps, "w").write(s)
