module c20http

go 1.16
