#!/usr/bin/env python3
"""tools/seed_batch.py <Cxx>:<n>:<sid>:<needs>[:extra go test flags] ...   — derives the demo command from /tmp/mut/Cxx-out/n and runs seed_verify.py"""
import sys, os, re, glob, subprocess
ROOT = os.path.dirname(os.path.dirname(os.path.abspath(__file__)))
for item in sys.argv[1:]:
    parts = item.split(":")
    prop, n, sid, needs = parts[:4]
    extra = parts[4] if len(parts) > 4 else ""
    src = "/tmp/mut/%s-out/%s" % (prop, n)
    demos = sorted(glob.glob(src + "/demo/*.go"))
    notes = open(src + "/notes.md").read() if os.path.exists(src + "/notes.md") else ""
    files = []; tests = []; pkgs = set()
    for d in demos:
        base = os.path.basename(d)
        m = re.search(r"(weed/[A-Za-z0-9_/]*/)" + re.escape(base), notes)
        if not m:
            print("cannot find destination of", d); continue
        files.append("demo/%s:%s%s" % (base, m.group(1), base)); pkgs.add("./" + m.group(1))
        tests += re.findall(r"^func (Test\w+)", open(d).read(), re.M)
    cmd = "go test -vet=off -count=1 %s -run '^(%s)$' %s" % (extra, "|".join(tests), " ".join(sorted(pkgs)))
    print("==", sid, cmd, flush=True)
    subprocess.run([os.path.join(ROOT, "tools", "seed_verify.py"), prop.rstrip("b"), src, sid, "--demo-cmd", cmd, "--needs", needs, "--demo-files"] + files)
