module c13hb

go 1.16
