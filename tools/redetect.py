#!/usr/bin/env python3
"""tools/redetect.py [--par 3] [ids…] — re-runs ./check (quick, then thorough on a miss) against every seeded change on the
CURRENT /verif (scratch copies via tools/mutcheck.sh) and rewrites the `detection` field of seeded/<id>/meta.json."""
import json, glob, os, subprocess, sys, argparse, concurrent.futures, time
ROOT = os.path.dirname(os.path.dirname(os.path.abspath(__file__)))
ap = argparse.ArgumentParser(); ap.add_argument("--par", type=int, default=3); ap.add_argument("ids", nargs="*")
a = ap.parse_args()
metas = sorted(glob.glob(os.path.join(ROOT, "seeded", "*", "meta.json")))
if a.ids: metas = [m for m in metas if os.path.basename(os.path.dirname(m)) in a.ids]
def run(mp):
    m = json.load(open(mp)); d = os.path.dirname(mp); det = {}
    for tier in ("quick", "thorough"):
        try:
            p = subprocess.run([os.path.join(ROOT, "tools", "mutcheck.sh"), m["property"], os.path.join(d, "patch.diff"), tier], stdout=subprocess.PIPE, stderr=subprocess.STDOUT, text=True, timeout=5400)
            rc, o = p.returncode, p.stdout
        except subprocess.TimeoutExpired:
            rc, o = -1, "timeout"
        vio = [l for l in o.split("\n") if l.startswith("VIOLATION")]
        broken = [l[:200] for l in o.split("\n") if l.startswith("BROKEN")][:6]
        det[tier] = {"exit": rc, "violation_lines": vio[:5], "broken": broken}
        if rc == 1 and vio: break
    m["detection"] = det; m["detection_at"] = time.strftime("%Y-%m-%dT%H:%M:%SZ", time.gmtime())
    json.dump(m, open(mp, "w"), indent=1)
    print(m["id"], {t: (x["exit"], len(x["violation_lines"])) for t, x in det.items()}, flush=True)
with concurrent.futures.ThreadPoolExecutor(max_workers=a.par) as ex: list(ex.map(run, metas))
