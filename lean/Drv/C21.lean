/- Driver for C21 (hard links): model recomputation (DIFF) + the C21 judges links_share / counter_eq_names (SPECFAIL). -/
import SwV.Common.Drv
import SwV.Model.C18
import SwV.Spec.C18Run
import SwV.Spec.C21
open SwV.Drv SwV.Model.C18 SwV.Spec.C18Run

def main : IO Unit := run { init := ({} : St), step := drvStep SwV.Spec.C21.judge }
