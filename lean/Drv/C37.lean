/- Driver for C37: recompute every harness line with the model (DIFF) and run the judge over the
   implementation's reads of the backup after each backup run (SPECFAIL). AppendAtNs of the model =
   line number (only the order of the real timestamps matters). -/
import SwV.Common.Drv
import SwV.Model.C01Codec
import SwV.Model.C37
import SwV.Spec.C37
open SwV.Drv SwV.Model.C01 SwV.Model.C04 SwV.Model.C37 SwV.Spec.C37 SwV.Codec.C01

namespace DrvC37

def nowSec : Nat := 2000000000

structure St where
  src : CVol := {}
  bak : CVol := {}
  synced : Bool := false       -- a backup ran and the source was not changed since
  lastRun : String := ""       -- what the last backup run did after its local compaction ("" = no local compaction)
  lastSrc : Option (Nat × Option (Nat × String)) := none   -- (id, the implementation's read of the source) of the previous line

def readToks (o : Option (Nat × Content)) (notfound : ROut) (ck : Nat) : List String :=
  match o with
  | some (k, c) => ["ok", toString (byteLen c.data), toString (if c.data = "" then ck else k), strTok c.data]
  | none => match notfound with
    | .deleted => ["deleted", "-1"]
    | .ioerr => ["err", "0"]
    | _ => ["notfound", "-1"]

def implObs (o : List String) : Option (Nat × String) :=
  if o.getD 0 "" == "ok" then
    let d := tokStr (o.getD 3 "-")
    some (if d = "" then 0 else tokNat (o.getD 2 "0"), d)
  else none

def b01 (b : Bool) : String := if b then "1" else "0"

def stepLine (st : St) (n : Nat) (ln : Line) : St × List String :=
  let a := ln.args
  match ln.op with
  | "reset" => ({}, diff n ln ["ok"] ++ ["COV reset"])
  | "w" =>
    let id := tokNat (a.getD 0 "0"); let ck := tokNat (a.getD 1 "0")
    let c : Content := { data := tokStr (a.getD 2 "-") }
    let (s', mo) := opStep st.src n (.write id ck c)
    ({ st with src := s', synced := false, lastSrc := none }, diff n ln (mToks mo) ++ (if c.data = "" then ["COV w.empty"] else ["COV w.data"]))
  | "d" =>
    let id := tokNat (a.getD 0 "0"); let ck := tokNat (a.getD 1 "0")
    let (s', mo) := opStep st.src n (.delete id ck)
    ({ st with src := s', synced := false, lastSrc := none }, diff n ln (mToks mo) ++ ["COV d"])
  | "compact" =>
    ({ st with src := srcCompact st.src nowSec n, synced := false, lastSrc := none }, diff n ln ["ok"] ++ ["COV compact"])
  | "r" =>
    let id := tokNat (a.getD 0 "0"); let ck := tokNat (a.getD 1 "0")
    let ro := readT st.src n id ck
    ({ st with lastSrc := some (id, implObs ln.outs) }, diff n ln (readToks (view st.src n id) ro ck))
  | "backup" =>
    let (b', c, r) := backupRun st.bak st.src nowSec n
    let grew := st.bak.v.log.length < b'.v.log.length
    let cov := (if c then ["COV backup.local-compaction"] else []) ++ (if r then ["COV backup.recreated"] else []) ++
      (if grew ∧ ¬ r ∧ st.bak.v.log.length ≠ 0 then ["COV backup.incremental-copy"] else []) ++
      (if st.bak.v.log.length = 0 ∧ grew then ["COV backup.full-copy"] else []) ++
      (if ¬ grew then ["COV backup.nothing-to-copy"] else []) ++
      (if c ∧ ¬ r ∧ grew then ["COV backup.local-compaction-then-copy"] else []) ++
      (if c ∧ r then ["COV backup.local-compaction-then-recreated"] else []) ++
      (if st.src.rev = 0 then ["COV backup.source-never-compacted"] else ["COV backup.source-compacted"])
    let kind := if c ∧ ¬ r ∧ grew then "copy" else if c ∧ r then "recreated" else if c then "idle" else ""
    ({ st with bak := b', synced := true, lastSrc := none, lastRun := kind },
      diff n ln ["ok", b01 c, b01 r, toString (datSize b'.v.log), toString (datSize st.src.v.log)] ++ cov)
  | "br" =>
    let id := tokNat (a.getD 0 "0"); let ck := tokNat (a.getD 1 "0")
    let ro := readT (reload st.bak) n id ck
    let j := if st.synced then
        match st.lastSrc with
        | some (sid, sv) =>
          if sid ≠ id then [] else
          (match classify st.src.rev sv (obs (backupView st.bak n id)) (implObs ln.outs) with
           | none => ["COV br.converged"] ++ (if st.lastRun ≠ "" ∧ sv.isSome then [s!"COV br.converged-after-local-compaction-{st.lastRun}"] else [])
           | some cls => [specfail n cls s!"br {id}"])
        | none => []
      else []
    ({ st with lastSrc := none }, diff n ln (readToks (backupView st.bak n id) ro ck) ++ j)
  | _ => (st, [s!"DIFF {n} unknown-op {ln.op}"])

end DrvC37

def main : IO Unit := run { init := ({} : DrvC37.St), step := DrvC37.stepLine }
