/- Driver for C02: recompute every harness line with the model (DIFF) and run the judges (SPECFAIL). -/
import SwV.Common.Drv
import SwV.Model.C02
import SwV.Spec.C02
import SwV.Gen.C02
open SwV.Drv SwV.Model.C02 SwV.Spec.C02

structure St where
  ver : Nat := 3
  file : Bytes := []
  prefixLen : Nat := 0
  /-- appended needles, oldest first: offset, needle, well-formed -/
  recs : Array (Nat × Needle × Bool) := #[]
  /-- the file consists of the prefix followed by well-formed records only -/
  clean : Bool := true

def tokB (s : String) : Bytes := (hexDecode s).getD []

def ttlTok : Option (UInt8 × UInt8) → String
  | none => "nil"
  | some (c, u) => s!"{c.toNat}:{u.toNat}"

def parseTtl (s : String) : Option (UInt8 × UInt8) :=
  if s == "nil" then none else
  match s.splitOn ":" with
  | [c, u] => some (UInt8.ofNat (tokNat c), UInt8.ofNat (tokNat u))
  | _ => none

def failTok : Fail → String
  | .sizeMismatch => "sizemismatch"
  | .parse k => s!"err{k}"
  | .crc => "crc"
  | .eof => "eof"
  | .panic => "panic"

def fieldsTok (d : Decoded) : List String :=
  let b := d.body
  [toString d.cookie, toString d.id, toString d.size, toString b.dataSize, hexEncode b.data, toString b.flags.toNat,
   toString b.nameSize, hexEncode b.name, toString b.mimeSize, hexEncode b.mime, toString b.lastModified, ttlTok b.ttl,
   toString b.pairsSize, hexEncode b.pairs, toString d.appendAtNs]

def decodedOfToks (o : List String) : Option Decoded :=
  if o.getD 0 "" != "ok" then none else
  let g (i : Nat) := o.getD i ""
  some { cookie := tokNat (g 1), id := tokNat (g 2), size := tokNat (g 3),
         body := { dataSize := tokNat (g 4), data := tokB (g 5), flags := UInt8.ofNat (tokNat (g 6)), nameSize := tokNat (g 7), name := tokB (g 8),
                   mimeSize := tokNat (g 9), mime := tokB (g 10), lastModified := tokNat (g 11), ttl := parseTtl (g 12),
                   pairsSize := tokNat (g 13), pairs := tokB (g 14) },
         appendAtNs := tokNat (g 15) }

def visitTok (file : Bytes) (x : Visit) : String :=
  let b := x.body
  String.intercalate "," [toString x.offset, toString x.cookie, toString x.id, toString x.size, toString x.bodyLen,
    toString b.dataSize, hexEncode b.data, toString b.flags.toNat, hexEncode b.name, hexEncode b.mime, toString b.lastModified, ttlTok b.ttl,
    hexEncode b.pairs, toString x.appendAtNs, hexEncode ((file.drop x.offset).take 16)]

/-- the implementation's visit token as a spec-level scan record (sizes/flags are re-derived from the fields
    the way `expectedDecode` states them) -/
def scanRecOfTok (t : String) : ScanRec :=
  let p := t.splitOn ","
  let g (i : Nat) := p.getD i ""
  let flags := UInt8.ofNat (tokNat (g 7))
  let name := tokB (g 8); let mime := tokB (g 9); let pairs := tokB (g 12)
  { offset := tokNat (g 0), cookie := tokNat (g 1), id := tokNat (g 2), size := tokNat (g 3),
    body := { dataSize := tokNat (g 5), data := tokB (g 6), flags := flags,
              nameSize := name.length, name := name, mimeSize := mime.length, mime := mime,
              lastModified := tokNat (g 10), ttl := parseTtl (g 11), pairsSize := pairs.length, pairs := pairs },
    appendAtNs := tokNat (g 13) }

def flipBit (blob : Bytes) (i : Nat) : Bytes :=
  blob.modify (i / 8) fun b => b ^^^ (UInt8.ofNat (1 <<< (i % 8)))

def flipStatus (v : Nat) (blob : Bytes) (size : Int) (origData : Bytes) (i : Nat) : Char :=
  match readBytes crc32c v (flipBit blob i) size with
  | .ok d => if d.body.data = origData then 'o' else 'd'
  | .error .crc => 'c'
  | .error .sizeMismatch => 's'
  | .error (.parse _) => 'e'
  | .error .panic => 'p'
  | .error .eof => 'x'

def judgeOut (n : Nat) (j : Option String) (detail : String) : List String :=
  match j with
  | none => []
  | some cls => [specfail n cls detail]

def findRec (st : St) (off : Nat) : Option (Needle × Bool) :=
  (st.recs.toList.find? fun r => r.1 == off).map fun r => r.2

def step (st : St) (n : Nat) (ln : Line) : St × List String :=
  let a := ln.args
  let o := ln.outs
  match ln.op with
  | "config" => (st, ["COV config"])
  | "sizes" =>
    let size := tokInt (a.getD 0 ""); let v := tokNat (a.getD 1 "")
    let model := [toString (paddingLengthI size v), toString (bodyLengthI size v), toString (actualSizeI size v)]
    let gen := [toString (SwV.Gen.C02.PaddingLength size v), toString (SwV.Gen.C02.NeedleBodyLength size v), toString (SwV.Gen.C02.GetActualSize size v)]
    let gdiff := if gen == o then [] else [s!"DIFF {n} sizes(gen) {a} gen={gen} impl={o}"]
    (st, diff n ln model ++ gdiff ++ judgeOut n (sizesJudge size (tokInt (o.getD 0 "")) (tokInt (o.getD 2 ""))) (toString a)
      ++ [if size < 0 then "COV sizes.negative" else "COV sizes.nonneg"])
  | "crc" =>
    let bs := tokB (a.getD 0 "-")
    let c := (crc32c bs).toNat
    let model := [toString c, toString (crcValue c)]
    let gen := toString (SwV.Gen.C02.CRC_Value (tokNat (o.getD 0 "")))
    let gdiff := if gen == o.getD 1 "" then [] else [s!"DIFF {n} crc(gen) gen={gen} impl={o}"]
    (st, diff n ln model ++ gdiff ++ ["COV crc"])
  | "reset" =>
    let p := tokB (a.getD 1 "-")
    ({ ver := tokNat (a.getD 0 "3"), file := p, prefixLen := p.length, recs := #[], clean := p.length % 8 == 0 }, ["COV reset"])
  | "app" =>
    let g (i : Nat) := a.getD i ""
    let data := tokB (g 3)
    let nd : Needle := { cookie := tokNat (g 0), id := tokNat (g 1), flags := UInt8.ofNat (tokNat (g 2)), data := data, name := tokB (g 4), mime := tokB (g 5),
                         lastModified := tokNat (g 6), ttl := parseTtl (g 7), pairs := tokB (g 8), pairsSize := tokNat (g 9),
                         checksum := (crc32c data).toNat, appendAtNs := tokNat (g 10) }
    let wf := decide (WF crc32c nd)
    -- `NewDiskFile` rounds the append position up to the next multiple of 8; the gap reads back as zeros
    let off := (st.file.length + 7) / 8 * 8
    let bytes := encode st.ver nd
    let file' := st.file ++ List.replicate (off - st.file.length) 0 ++ bytes
    let model := ["ok", toString off, toString (nd.data.length % 2 ^ 32), toString (actualSize (recSize nd) st.ver), toString (recSize nd), hexEncode bytes]
    let j := if wf ∧ o.getD 0 "" == "ok" then alignedJudge st.ver nd (tokB (o.getD 5 "-")).length (tokInt (o.getD 3 "")) else none
    let st' := { st with file := file', recs := st.recs.push (off, nd, wf), clean := st.clean && wf }
    (st', diff n ln model ++ judgeOut n j (toString (a.take 3))
      ++ [if wf then "COV app.wf" else "COV app.non-wf", if data.isEmpty then "COV app.empty-data" else "COV app.data", s!"COV app.v{st.ver}"]
      ++ (if off ≠ st.file.length then ["COV app.after-unaligned-tail"] else []))
  | "raw" =>
    let file' := st.file ++ tokB (a.getD 0 "-")
    ({ st with file := file', clean := false }, diff n ln [toString file'.length] ++ ["COV raw"])
  | "trunc" =>
    let file' := st.file.take (tokNat (a.getD 0 ""))
    ({ st with file := file', clean := false }, diff n ln [toString file'.length] ++ ["COV trunc"])
  | "rd" =>
    let off := tokNat (a.getD 0 ""); let size := tokInt (a.getD 1 "")
    let r := readData crc32c st.ver st.file off size
    let model := match r with
      | .ok d => "ok" :: fieldsTok d
      | .error f => [failTok f]
    let j := match findRec st off with
      | some (nd, true) => if size = recSize nd then readJudge st.ver nd (decodedOfToks o) else none
      | _ => none
    let cov := match r with
      | .ok d => if d.size = 0 then "COV rd.ok-empty" else "COV rd.ok"
      | .error f => s!"COV rd.{failTok f}"
    (st, diff n ln model ++ judgeOut n j (toString a) ++ [cov])
  | "flips" =>
    let off := tokNat (a.getD 0 ""); let size := tokInt (a.getD 1 "")
    let actual := (actualSizeI size st.ver).toNat
    let blob := (st.file.drop off).take actual
    let model := match readBytes crc32c st.ver blob size with
      | .error f => ["orig-" ++ failTok f]
      | .ok d => [String.ofList ((List.range (blob.length * 8)).map (flipStatus st.ver blob size d.body.data))]
    let j := match findRec st off with
      | some (nd, _) => flipsJudge nd.data.length (o.getD 0 "").toList
      | none => none
    let covd := if (model.getD 0 "").toList.any (· == 'd') then ["COV flips.undetected-metadata-change"] else []
    (st, diff n ln model ++ judgeOut n j (toString a) ++ ["COV flips"] ++ covd)
  | "scan" =>
    let off := tokNat (a.getD 0 ""); let rb := a.getD 1 "" == "1"
    let (vs, e) := scan st.ver st.file off rb
    let endTok := match e with | .eof => "ok" | .panic => "panic" | .err => "err" | .stuck => "stuck"
    let model := endTok :: vs.map (visitTok st.file)
    let j := if st.clean ∧ off = st.prefixLen ∧ rb then
        scanJudge st.ver (st.recs.toList.map fun r => (r.1, r.2.1)) (o.getD 0 "" == "ok") ((o.drop 1).map scanRecOfTok)
      else none
    let cov := vs.map (fun x => s!"COV scan.visit-{if x.status.startsWith "err" then "err" else x.status}")
    (st, diff n ln model ++ judgeOut n j (toString a) ++ cov ++ [if st.clean ∧ off = st.prefixLen ∧ rb then "COV scan.clean-file" else "COV scan.other"])
  | _ => (st, [s!"DIFF {n} unknown-op {ln.op}"])

def main : IO Unit := run { init := ({} : St), step := step }
