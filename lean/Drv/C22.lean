/- Driver for C22: replays every harness line on the model (DIFF) and runs the delivery judge over the
   IMPLEMENTATION's outputs (SPECFAIL). -/
import SwV.Common.Drv
import SwV.Model.C22
import SwV.Model.C22Disk
import SwV.Spec.C22Disk
open SwV.Drv SwV.Model.C22 SwV.Spec.C22

structure IRd where
  t0 : Int
  got : List Nat := []
  broken : Bool := false

structure St where
  sys : Sys := { lb := init ⟨0, 0, 0, 0⟩ }
  names : List String := []
  -- derived from the implementation's outputs only (inputs of the judge)
  ilog : List Nat := []
  iflush : Option Int := none
  ioldest : Option Int := none
  ird : List (String × IRd) := []
  -- disk cases (dreset …): the log buffer + the segment files written by the production flush function
  dd : DLB := { lb := init ⟨0, 0, 0, 0⟩ }
  drds : List Rd := []
  ifiles : List IFile := []

def tmTok (t : Int) : String := if t = zeroT then "z" else toString t
def bufTok (b : Buf) : String := s!"{b.pos},{b.cap},{tmTok b.start},{tmTok b.stop}"
def listTok (l : List Nat) : String := if l.isEmpty then "-" else String.intercalate "," (l.map toString)
def parseList (s : String) : Option (List Nat) :=
  if s == "-" then some [] else (s.splitOn ",").mapM (·.toNat?)

def snapToks (s : LB) : List String :=
  [toString s.lastTs, bufTok s.cur, toString s.cur.ents.length] ++ s.prev.map bufTok ++ [tmTok s.lastFlush, "-1"]

/-- smallest start time among the implementation's non-empty buffers (tokens `size,cap,start,stop`) -/
def implOldest (toks : List String) : Option Int :=
  toks.foldl (fun acc t =>
    match t.splitOn "," with
    | [sz, _, st, _] =>
      if sz.toNat?.getD 0 > 0 then
        match st.toInt? with
        | some v => (match acc with | some a => some (min a v) | none => some v)
        | none => acc
      else acc
    | _ => acc) none

def noteSnap (st : St) (o : List String) : St :=
  -- o = lastTs cur nidx prev... lastFlush alias
  let bufs := o.filter (fun t => (t.splitOn ",").length == 4)
  let lf := o.getD (o.length - 2) "z"
  { st with ioldest := implOldest bufs, iflush := lf.toInt? }

def readBranch (s : LB) (T : Int) : String :=
  if s.lastFlush ≠ zeroT ∧ s.lastFlush > T then "read.resume"
  else if T = s.cur.stop then "read.nil-equal-stop"
  else if T > s.cur.stop then (if s.cur.ents.isEmpty then "read.nil-empty-current" else "read.nil-future")
  else if T < s.cur.start then
    (match s.prev.find? (fun b => b.start > T ∨ b.stop > T) with
     | some b => if b.start > T then "read.prev-whole" else "read.prev-locate"
     | none => "read.current-whole")
  else "read.current-bsearch"

def judgeRd (st : St) (n : Nat) (site name : String) (delivered : List String) : St × List String :=
  match st.ird.lookup name with
  | none => (st, [])
  | some r =>
    if r.broken then (st, []) else
    match delivered.mapM (·.toNat?) with
    | none =>
      let r' := { r with broken := true }
      ({ st with ird := st.ird.map fun p => if p.1 == name then (name, r') else p }, [specfail n (site ++ "/unknown-event") s!"{name} {delivered}"])
    | some l =>
      let got := r.got ++ l
      let j := deliveryJudge site st.ilog got r.t0 st.ioldest st.iflush
      let r' := { r with got := got, broken := j.isSome }
      let st' := { st with ird := st.ird.map fun p => if p.1 == name then (name, r') else p }
      match j with
      | none => (st', [])
      | some cls => (st', [specfail n cls s!"{name} t0={r.t0} delivered-now={listTok l}"])

def splitToks (s : String) : List String := if s == "-" then [] else s.splitOn ","

def segTok (F : Seg) : String := s!"{F.day}/{F.hm}:{listTok F.ents}"
def filesToks (fs : List Seg) : List String := if fs.isEmpty then ["-"] else fs.map segTok

/-- `day/hm:ts,ts,…` -/
def parseIFile (t : String) : Option IFile :=
  match t.splitOn ":" with
  | [k, l] =>
    (match k.splitOn "/" with
     | [d, h] => do
       let d ← d.toNat?; let h ← h.toNat?; let l ← parseList l
       pure (d, h, l)
     | _ => none)
  | _ => none

def parseIFiles (toks : List String) : Option (List IFile) :=
  if toks == ["-"] then some [] else toks.mapM parseIFile

/-- what a flush did to the layout -/
def flushCov (f0 f1 : List Seg) : List String :=
  if f1 == f0 then [] else
  (if f1.length = f0.length then ["COV dflush.appends-to-existing-file"] else ["COV dflush.new-file"]) ++
  (if (f1.map (·.day)).eraseDups.length > (f0.map (·.day)).eraseDups.length ∧ ¬ f0.isEmpty then ["COV dflush.new-day"] else []) ++
  (if f1.any (fun F => F.ents.any (fun e => decide (F.day * 1440 + F.hm < minuteIdx e))) then ["COV dflush.buffer-straddles-minutes"] else [])

/-- a file that is not read although it holds entries later than T -/
def skipsNeeded (fs : List Seg) (T : Int) : Bool :=
  fs.any (fun F => ¬ (selected fs T).contains F ∧ ¬ (readSeg T F).isEmpty)

def judgeD (st : St) (n : Nat) (name : String) (delivered : List String) : St × List String :=
  match st.ird.lookup name with
  | none => (st, [])
  | some r =>
    if r.broken then (st, []) else
    match delivered.mapM (·.toNat?) with
    | none =>
      let r' := { r with broken := true }
      ({ st with ird := st.ird.map fun p => if p.1 == name then (name, r') else p }, [specfail n "dsubscribe/unknown-event" s!"{name} {delivered}"])
    | some l =>
      let got := r.got ++ l
      let j := deliveryJudge "dsubscribe" st.ilog got r.t0 st.ioldest st.iflush
      let r' := { r with got := got, broken := j.isSome }
      let st' := { st with ird := st.ird.map fun p => if p.1 == name then (name, r') else p }
      match j with
      | none => (st', [])
      | some cls => (st', [specfail n (reclassSkip cls "dsubscribe" st.ifiles st.ilog got r.t0) s!"{name} t0={r.t0} delivered-now={listTok l}"])

def step (st : St) (n : Nat) (ln : Line) : St × List String :=
  let a := ln.args
  let o := ln.outs
  match ln.op with
  | "reset" =>
    let cfg : Cfg := ⟨tokInt (a.getD 0 "0"), tokNat (a.getD 1 "0"), tokNat (a.getD 2 "0"), tokInt (a.getD 3 "0")⟩
    ({ sys := { lb := init cfg } }, ["COV reset"])
  | "add" =>
    let ets := tokNat (a.getD 0 "1"); let dlen := tokNat (a.getD 1 "0")
    let ets := if ets = 0 then 1 else ets
    let s0 := st.sys.lb
    let s1 := add s0 ets dlen
    let st1 := { st with sys := { st.sys with lb := s1 } }
    let st2 := noteSnap { st1 with ilog := st1.ilog ++ [tokNat (o.getD 0 "0")] } o
    let sealed := s1.queue.length > s0.queue.length
    let cov := (if s0.lastTs ≥ ets then ["COV add.ts-fixup"] else [])
      ++ (if sealed then
            (if (if s0.cur.pos = 0 then (s1.lastTs : Int) else s0.cur.start) + s0.cfg.interval < s1.lastTs then ["COV add.rotate-by-time"] else ["COV add.rotate-by-space"])
          else [])
      ++ (if sealed ∧ s1.dropped.length > s0.dropped.length then ["COV seal.recycles-nonempty"] else [])
      ++ (if s1.cur.cap ≠ s0.cfg.bufSize ∧ s1.cur.ents.length = 1 then ["COV add.oversized-entry"] else [])
    (st2, diff n ln (snapToks s1) ++ cov)
  | "seal" =>
    let s0 := st.sys.lb
    let s1 := sealNow s0
    let st1 := noteSnap { st with sys := { st.sys with lb := s1 } } o
    (st1, diff n ln (snapToks s1) ++ [if s0.cur.pos > 0 then "COV seal.interval" else "COV seal.empty-noop"])
  | "fwrite" =>
    let s0 := st.sys.lb
    let s1 := fwrite s0
    let model := match s0.inflight, s0.queue with
      | none, f :: _ => ["w", toString f.start, toString f.stop, listTok f.ents]
      | _, _ => ["noop"]
    ({ st with sys := { st.sys with lb := s1 } }, diff n ln model ++ [if model.length > 1 then "COV fwrite" else "COV fwrite.noop"])
  | "fack" =>
    let s0 := st.sys.lb
    let s1 := fack s0
    let model := if s0.inflight.isSome then snapToks s1 else ["noop"]
    let st1 := { st with sys := { st.sys with lb := s1 } }
    let st2 := if s0.inflight.isSome then noteSnap st1 o else st1
    (st2, diff n ln model ++ [if s0.inflight.isSome then "COV fack" else "COV fack.noop"])
  | "read" =>
    let T := tokInt (a.getD 0 "0")
    let s := st.sys.lb
    let r := readFrom s T
    let model := match r with
      | .resume => ["resume"]
      | .nil => ["nil"]
      | .buf l => ["buf", listTok l]
    -- judge over the implementation's answer: a returned buffer must be the next run of entries after T
    let j := if o.getD 0 "" == "buf" then
        match (splitToks (o.getD 1 "-")).mapM (·.toNat?) with
        | none => [specfail n "ReadFromBuffer/unknown-event" s!"T={T} {o.getD 1 ""}"]
        | some l =>
          match deliveryJudge "ReadFromBuffer" st.ilog l T st.ioldest st.iflush with
          | none => []
          | some cls => [specfail n cls s!"T={T} returned={listTok l}"]
      else []
    let hidden := r == .nil ∧ ¬ (expected s.log T).isEmpty
    (st, diff n ln model ++ j ++ ["COV " ++ readBranch s T] ++ (if hidden then ["COV delay.nil-while-entries-pending"] else []))
  | "new" =>
    let name := a.getD 0 "r"; let T := tokInt (a.getD 1 "0")
    ({ st with sys := SwV.Model.C22.step st.sys (.newReader T), names := st.names ++ [name], ird := st.ird ++ [(name, { t0 := T })] },
      diff n ln [] ++ ["COV new"])
  | "rstep" =>
    let name := a.getD 0 "r"
    match st.names.idxOf? name with
    | none => (st, diff n ln ["nosub"])
    | some i =>
      let r0 := st.sys.rds.getD i { t0 := 0, T := 0 }
      let sys1 := SwV.Model.C22.step st.sys (.rstep i)
      let r1 := sys1.rds.getD i r0
      let now := r1.got.drop r0.got.length
      let ph (b : Bool) := if b then "disk" else "mem"
      let model := if r0.onDisk then ["disk", listTok now, toString r1.T, ph r1.onDisk, if r1.lastResume then "1" else "0"]
        else ["mem", listTok now, toString r1.T, ph r1.onDisk, if r1.lastResume then "resume" else "ok"]
      let st1 := { st with sys := sys1 }
      let (st2, js) := judgeRd st1 n "subscribe" name (splitToks (o.getD 1 "-"))
      let cov := (if ¬ r0.onDisk ∧ tokNat (a.getD 1 "0") > 0 then ["COV sub.idle-wakeup"] else []) ++ if r0.onDisk then
          (if ¬ now.isEmpty then ["COV sub.disk-delivers"] else if r0.lastResume then ["COV sub.disk-retry"] else ["COV sub.disk-nothing"])
        else (if r1.lastResume then ["COV sub.mem-resume-from-disk"] else []) ++ (if ¬ now.isEmpty then ["COV sub.mem-delivers"] else ["COV sub.mem-blocks"])
      let unsafeRead := ¬ r0.onDisk ∧ ¬ (s!"{readBranch st.sys.lb r0.T}" == "read.resume") ∧ st.sys.lb.dropped.any (fun t => decide (r0.T < (t : Int)))
      (st2, diff n ln model ++ js ++ cov ++ (if unsafeRead then ["COV sub.reads-past-recycled-unflushed"] else []))
  | "rnest" =>
    -- two overlapping readers (b runs inside a's callback): reads do not change the buffer, so the model
    -- is "b's memory phase, a's memory phase" against the same state; b runs only if a delivers something
    let na := a.getD 0 "r"; let nb := a.getD 1 "r"
    match st.names.idxOf? na, st.names.idxOf? nb with
    | some i, some k =>
      let ra := st.sys.rds.getD i { t0 := 0, T := 0 }
      let rb := st.sys.rds.getD k { t0 := 0, T := 0 }
      if i = k ∨ ra.onDisk ∨ rb.onDisk then (st, diff n ln ["noop"] ++ ["COV rnest.noop"]) else
      let sysA := SwV.Model.C22.step st.sys (.rstep i)
      let ra1 := sysA.rds.getD i ra
      let nowA := ra1.got.drop ra.got.length
      let sysB := if nowA.isEmpty then sysA else SwV.Model.C22.step sysA (.rstep k)
      let rb1 := sysB.rds.getD k rb
      let nowB := rb1.got.drop rb.got.length
      let ph (b : Bool) := if b then "disk" else "mem"
      let tok (r1 : Rd) (now : List Nat) := ["mem", listTok now, toString r1.T, ph r1.onDisk, if r1.lastResume then "resume" else "ok"]
      let model := tok ra1 nowA ++ (if nowA.isEmpty then ["mem", "-", toString rb.T, ph rb.onDisk, "notrun"] else tok rb1 nowB)
      let st1 := { st with sys := sysB }
      let (st2, ja) := judgeRd st1 n "subscribe" na (splitToks (o.getD 1 "-"))
      let (st3, jb) := judgeRd st2 n "subscribe" nb (splitToks (o.getD 6 "-"))
      (st3, diff n ln model ++ ja ++ jb ++ (if ¬ nowA.isEmpty ∧ ¬ nowB.isEmpty then ["COV sub.nested-overlap-both-deliver"] else ["COV sub.nested"]))
    | _, _ => (st, diff n ln ["noop"])
  | "dreset" =>
    let cfg : Cfg := ⟨tokInt (a.getD 0 "0"), tokNat (a.getD 1 "0"), tokNat (a.getD 2 "0"), tokInt (a.getD 3 "0")⟩
    ({ dd := { lb := init cfg } }, ["COV dreset"])
  | "dadd" =>
    let ets := tokNat (a.getD 0 "1"); let dlen := tokNat (a.getD 1 "0")
    let ets := if ets = 0 then 1 else ets
    let d0 := st.dd
    let d1 := settle { d0 with lb := add d0.lb ets dlen }
    let st1 := noteSnap { st with dd := d1, ilog := st.ilog ++ [tokNat (o.getD 0 "0")] } o
    (st1, diff n ln (snapToks d1.lb) ++ flushCov d0.files d1.files ++ (if d0.lb.lastTs ≥ ets then ["COV dadd.ts-fixup"] else []))
  | "dseal" =>
    let d0 := st.dd
    let d1 := settle { d0 with lb := sealNow d0.lb }
    let st1 := noteSnap { st with dd := d1 } o
    (st1, diff n ln (snapToks d1.lb) ++ flushCov d0.files d1.files)
  | "dls" =>
    let st1 := match parseIFiles o with | some fs => { st with ifiles := fs } | none => st
    (st1, diff n ln (filesToks st.dd.files) ++ ["COV dls"])
  | "dread" =>
    let T := tokInt (a.getD 0 "0")
    let fs := st.dd.files
    let (l, last) := persistedRead fs T
    let model := ["ok", listTok l, toString last] ++ filesToks fs
    let (st1, j) := match parseIFiles (o.drop 3), parseList (o.getD 1 "-") with
      | some ifs, some got =>
        ({ st with ifiles := ifs }, match diskReadJudge ifs got T with
          | none => []
          | some cls => [specfail n cls s!"T={T} delivered={listTok got}"])
      | _, _ => (st, [specfail n "ReadPersistedLogBuffer/unknown-event" s!"T={T} {o}"])
    (st1, diff n ln model ++ j ++ (if skipsNeeded fs T then ["COV dread.skips-file-with-later-entries"] else ["COV dread.exact"])
      ++ (if (selected fs T).length < fs.length ∧ ¬ l.isEmpty then ["COV dread.skips-earlier-files"] else []))
  | "dnew" =>
    let name := a.getD 0 "r"; let T := tokInt (a.getD 1 "0")
    ({ st with drds := st.drds ++ [{ t0 := T, T := T }], names := st.names ++ [name], ird := st.ird ++ [(name, { t0 := T })] },
      diff n ln [] ++ ["COV dnew"])
  | "dstep" =>
    let name := a.getD 0 "r"
    match st.names.idxOf? name with
    | none => (st, diff n ln ["nosub"])
    | some i =>
      let r0 := st.drds.getD i { t0 := 0, T := 0 }
      let rds1 := modifyAt (rstepD st.dd) st.drds i
      let r1 := rds1.getD i r0
      let now := r1.got.drop r0.got.length
      let ph (b : Bool) := if b then "disk" else "mem"
      let model := if r0.onDisk then ["disk", listTok now, toString r1.T, ph r1.onDisk, if r1.lastResume then "1" else "0"] ++ filesToks st.dd.files
        else ["mem", listTok now, toString r1.T, ph r1.onDisk, if r1.lastResume then "resume" else "ok"]
      let st1 := { st with drds := rds1 }
      let st1 := if r0.onDisk then (match parseIFiles (o.drop 5) with | some fs => { st1 with ifiles := fs } | none => st1) else st1
      let (st2, js) := judgeD st1 n name (splitToks (o.getD 1 "-"))
      let cov := if r0.onDisk then
          (if ¬ now.isEmpty then ["COV dsub.disk-delivers"] else if r0.lastResume then ["COV dsub.disk-retry"] else ["COV dsub.disk-nothing"])
          ++ (if skipsNeeded st.dd.files r0.T then ["COV dsub.disk-skips-file-with-later-entries"] else [])
        else (if r1.lastResume then ["COV dsub.mem-resume-from-disk"] else []) ++ (if ¬ now.isEmpty then ["COV dsub.mem-delivers"] else ["COV dsub.mem-blocks"])
      (st2, diff n ln model ++ js ++ cov)
  | _ => (st, [s!"DIFF {n} unknown-op {ln.op}"])

def main : IO Unit := run { init := ({} : St), step := step }
