/- Driver for C28: model (DIFF) and judges (SPECFAIL) for objects and multipart uploads. -/
import SwV.Common.Drv
import SwV.Model.C28
import SwV.Spec.C28
import SwV.Gen.C28
open SwV.Drv SwV.Model.C28 SwV.Spec.C28

structure D where
  st : St := {}
  spec : List Obj := []          -- the specification's bucket
  lastMut : String := ""
  ordBroken : List (List (List Nat)) := []   -- keys whose content came from a completion where name order ≠ number order
  shadowed : List (List (List Nat)) := []    -- keys acknowledged by PUT/copy but stored elsewhere (the key named a directory)

def keyOfTok (t : String) : List (List Nat) := cleanSegs (tokBytes t)

def sortKeys (ks : List (List Nat)) : List (List Nat) :=
  ks.foldr (fun k acc =>
    let rec ins : List (List Nat) → List (List Nat)
      | [] => [k]
      | x :: xs => if SwV.Model.C19.ltB k x then k :: x :: xs else if k = x then x :: xs else x :: ins xs
    ins acc) []

def lsToks (objs : List Obj) : List String :=
  (sortKeys ((objs.filter fun o => o.key.head? != some [46, 117, 112, 108, 111, 97, 100, 115]).map fun o => joinSlash o.key)).map hexOfNats

def findUp (st : St) (u : String) : Option Upload := st.ups.find? fun x => x.name == u

def setUp (st : St) (up : Upload) : St := { st with ups := up :: st.ups.filter fun x => x.name != up.name }

def readToks (r : String × Nat × Nat) : List String :=
  if r.1.startsWith "e" then [r.1] else [r.1, toString r.2.1, toString r.2.2]

def layoutTok (l : List (Nat × Nat)) : String :=
  if l.isEmpty then "-" else String.intercalate "," (l.map fun (o, s) => s!"{o}+{s}")

def step (d : D) (n : Nat) (ln : Line) : D × List String :=
  let a := ln.args
  let o := ln.outs
  match ln.op with
  | "reset" => ({}, diff n ln ["ok"] ++ ["COV reset"])
  | "put" =>
    let k := keyOfTok (a.getD 0 "-")
    let data : List Seg := [⟨tokNat (a.getD 1 ""), 0, tokNat (a.getD 2 "")⟩]
    match putTarget d.st k with
    | none =>
      -- refused by the filer ("… is a file"); should the gateway acknowledge it anyway, the specification holds it to that
      let spec' := if o.getD 0 "" == "ok" then specPut d.spec k data else d.spec
      ({ d with spec := spec' }, diff n ln ["e500"] ++ ["COV put.below-an-object"])
    | some t =>
      let sh := if t != k then k :: d.shadowed else d.shadowed.filter (· ≠ k)
      let j := if t != k then [specfail n "PutObjectHandler/key-naming-a-directory-stored-inside-it" (a.getD 0 "")] else []
      -- the specification trusts the acknowledgement the IMPLEMENTATION gave
      let spec' := if o.getD 0 "" == "ok" then specPut d.spec k data else d.spec
      ({ d with st := putObj d.st t data, spec := spec', lastMut := "put", shadowed := sh },
       diff n ln ["ok"] ++ j ++ [if t != k then "COV put.onto-directory" else "COV put"])
  | "get" =>
    let k := keyOfTok (a.getD 0 "-")
    let av := tokInt (a.getD 1 "-1"); let bv := tokNat (a.getD 2 "0")
    -- contents the model does not predict (a stored filer listing page): any successful read is taken as it comes
    let okRead := o.getD 0 "" == "s200" || o.getD 0 "" == "s206" || o.getD 0 "" == "e416"
    let model := match findObj d.st k with
      | some ob => if isOpaque ob.data && okRead then o else readToks (specRead ob.data av bv)
      | none => ["e404"]
    let want := match d.spec.find? (fun x => x.key == k) with
      | some ob => if isOpaque ob.data && okRead then o else readToks (specRead ob.data av bv)
      | none => ["e404"]
    let j := if o == want then [] else
      [specfail n (if d.ordBroken.contains k then "completeMultipartUpload/parts-not-in-numeric-order"
                   else if d.shadowed.contains k then "PutObjectHandler/key-naming-a-directory-stored-inside-it"
                   else "GetObject/not-the-written-bytes") (String.intercalate " " a)]
    let cov := (if av ≥ 0 then ["COV get.range"] else ["COV get.full"]) ++
      (match findObj d.st k with | some ob => if size ob.data > chunkSize then ["COV get.multi-chunk"] else [] | none => ["COV get.missing"])
    (d, diff n ln model ++ j ++ cov)
  | "copy" =>
    let src := keyOfTok (a.getD 0 "-"); let dst := keyOfTok (a.getD 1 "-")
    let acked := o.getD 0 "" == "ok"
    let body := copyBody d.st src
    match copyObj d.st src dst with
    | none => (d, diff n ln ["e500"] ++ ["COV copy.below-an-object"])
    | some (st', t) =>
      -- the judge: over the specification's bucket and the acknowledgement the IMPLEMENTATION gave
      let jc := match copyJudge d.spec src dst acked with
        | some cls => [specfail n cls (String.intercalate " " a)]
        | none => []
      -- what the destination must hold; once a deviation is reported the specification follows the implementation
      let sd := match specCopy d.spec src dst with
        | some sp => (sp.find? (fun x => x.key == dst)).map (·.data) |>.getD body.data
        | none => body.data
      let brk := if d.ordBroken.contains src then dst :: d.ordBroken else d.ordBroken
      let sh := if t != dst then dst :: d.shadowed else d.shadowed.filter (· ≠ dst)
      let j := if t != dst then [specfail n "PutObjectHandler/key-naming-a-directory-stored-inside-it" (a.getD 1 "")] else []
      let spec' := if acked then specPut d.spec dst sd else d.spec
      ({ d with st := st', spec := spec', lastMut := "copy", ordBroken := brk, shadowed := sh },
       diff n ln ["ok"] ++ jc ++ j ++ [match body with
         | .bytes _ => "COV copy" | .empty404 => "COV copy.missing-source" | .listingPage => "COV copy.directory-source"])
  | "mpinit" =>
    ({ d with st := setUp d.st ⟨a.getD 0 "", tokBytes (a.getD 1 "-"), []⟩ }, diff n ln ["ok"] ++ ["COV mpinit"])
  | "mppart" | "mpcopy" =>
    match findUp d.st (a.getD 0 "") with
    | none => (d, [s!"DIFF {n} unknown upload"])
    | some up =>
      let no := tokNat (a.getD 1 "")
      let src : Option (List Seg) :=
        if ln.op == "mppart" then some [⟨tokNat (a.getD 2 ""), 0, tokNat (a.getD 3 "")⟩]
        else match findObj d.st (keyOfTok (a.getD 2 "-")) with
          | some ob =>
            let av := tokInt (a.getD 3 "-1")
            if av < 0 then some ob.data else some (slice ob.data av.toNat (min (tokNat (a.getD 4 "0")) (size ob.data - 1) - av.toNat + 1))
          | none => none
      if no > maxPartID then (d, diff n ln ["e400"] ++ ["COV mppart.above-max"])
      else match src with
        | none =>
          -- `util.ReadUrlAsReaderCloser` does look at the status: a missing source is refused (InvalidCopySource);
          -- a source naming a directory would store the filer's listing page as the part (not generated, not modelled)
          (d, (if copyBody d.st (keyOfTok (a.getD 2 "-")) == .empty404 then diff n ln ["e400"] else []) ++ ["COV mpcopy.missing-source"])
        | some data =>
          let up' := { up with parts := insertByName ⟨no, data⟩ up.parts }
          ({ d with st := setUp d.st up' }, diff n ln ["ok"] ++ [if no > 9999 then "COV mppart.five-digits" else "COV mppart"]
            ++ (if ln.op == "mpcopy" then ["COV mpcopy"] else []) ++ (if up.parts.any (·.no == no) then ["COV mppart.reupload"] else []))
  | "mpparts" =>
    match findUp d.st (a.getD 0 "") with
    | none => (d, [s!"DIFF {n} unknown upload"])
    | some up => (d, diff n ln (up.parts.map fun p => hexOfNats (partName p.no)) ++ ["COV mpparts"])
  | "mpdone" =>
    match findUp d.st (a.getD 0 "") with
    | none => (d, [s!"DIFF {n} unknown upload"])
    | some up =>
      if up.parts.isEmpty then (d, diff n ln ["e404"] ++ ["COV mpdone.empty"])
      else if !completeAllowed d.st (cleanSegs up.key) then (d, diff n ln ["e500"] ++ ["COV mpdone.key-conflict"])
      else
        let k := cleanSegs up.key
        let data := concatParts up.parts
        let model := ["ok", toString (size data), layoutTok (layout up.parts)]
        let broken := orderMatters up.parts
        let j := if broken then [specfail n "completeMultipartUpload/parts-not-in-numeric-order" (String.intercalate "," (up.parts.map fun p => toString p.no))] else []
        ({ d with st := { (putObj d.st k data) with ups := d.st.ups.filter fun x => x.name != up.name },
                  spec := specPut d.spec k (specComplete up.parts), lastMut := "mpdone",
                  ordBroken := if broken then k :: d.ordBroken else d.ordBroken.filter (· ≠ k) },
         diff n ln model ++ j ++ [if broken then "COV mpdone.order-differs" else "COV mpdone.order-agrees"]
           ++ (if up.parts.length > 1 then ["COV mpdone.multi-part"] else []))
  | "del" =>
    let name := tokBytes (a.getD 0 "-")
    -- an empty INNER segment ("a//b") makes the filer's ServeMux redirect; the gateway's client re-issues the DELETE as GET: nothing happens
    let segs := splitSlash name
    let segs := if segs.head? == some [] then segs.drop 1 else segs
    let segs := if segs.getLast? == some [] then segs.dropLast else segs
    let st' := if segs.any (· == []) then d.st else delRecursive d.st (cleanSegs name)
    ({ d with st := st', spec := specDelete d.spec name, lastMut := "del" }, diff n ln ["ok"] ++ ["COV del"])
  | "bdel" =>
    let names := a.map tokBytes
    let st' := names.foldl (fun s nm => delBatchName s (cleanSegs nm)) d.st
    let spec' := names.foldl specDelete d.spec
    ({ d with st := st', spec := spec', lastMut := "bdel" }, diff n ln ["ok"] ++ ["COV bdel"])
  | "ls" =>
    let model := lsToks d.st.objs
    let want := lsToks d.spec
    let j := if o == want then [] else
      [specfail n (if d.lastMut == "del" then "DeleteObjectHandler/key-naming-a-directory-deletes-subtree"
                   else if d.lastMut == "bdel" then "DeleteMultipleObjectsHandler/cleaned-name-deletes-other-key"
                   else if !d.shadowed.isEmpty then "PutObjectHandler/key-naming-a-directory-stored-inside-it"
                   else "namespace/not-exactly-the-written-keys") (String.intercalate " " o)]
    -- once reported, the specification follows the implementation (one report per deviation)
    let spec' := if j.isEmpty then d.spec else
      d.st.objs.map fun m => match d.spec.find? (fun x => x.key == m.key) with | some x => x | none => m
    ({ d with spec := spec', shadowed := if j.isEmpty then d.shadowed else [] }, diff n ln model ++ j ++ ["COV ls"])
  | _ => (d, [s!"DIFF {n} unknown-op {ln.op}"])

def main : IO Unit := run { init := ({} : D), step := step }
