/- Driver for C38: per recorded concurrent history and per file id, search for a linearization:
   an order of the calls that respects the invocation/response stamps and in which the C01
   MODEL's step function reproduces every recorded output (validation of the atomicity
   assumption of Props/C38.lean — not a proof). -/
import SwV.Common.Drv
import SwV.Model.C01
import SwV.Spec.C01
import SwV.Model.C01Codec
import SwV.Spec.C38
open SwV.Drv SwV.Model.C01 SwV.Spec.C01 SwV.Codec.C01 SwV.Spec.C38

namespace DrvC38

structure St where
  calls : List Rcd := []       -- reversed
  batched : Bool := false
  kind : String := "mem"
  start : Nat := 0

def stepLine (s : St) (n : Nat) (ln : Line) : St × List String :=
  match ln.op with
  | "reset" => ({ kind := ln.args.getD 0 "mem", start := n }, diff n ln ["ok"] ++ [s!"COV reset.{ln.args.getD 0 "mem"}"])
  | "stop" => ({ s with batched := true }, diff n ln ["ok"] ++ ["COV batched-path"])
  | "fault" => (s, diff n ln ["ok"] ++ ["COV fault.batched-sync-fails"])
  | "c" =>
    let a := ln.args
    if a.getD 3 "" == "wx" then
      -- a batched write whose fsync was made to fail: reported as an error, no part of the history
      (s, (if ln.outs == ["err", "0"] then [] else [s!"DIFF {n} wx model=[err 0] impl=[{String.intercalate " " ln.outs}]"]) ++ ["COV wx.failed-batch-reported"])
    else
    let body : Line := { op := a.getD 3 "", args := a.drop 4, outs := ln.outs }
    match opOfLine body with
    | none => (s, [s!"DIFF {n} unknown-op {body.op}"])
    | some op =>
      let rc : Rcd := { client := tokNat (a.getD 0 "0"), inv := tokNat (a.getD 1 "0"), ret := tokNat (a.getD 2 "0"),
                        op := op, outs := ln.outs, line := n }
      ({ s with calls := rc :: s.calls }, (if body.op == "wf" then ["COV wf.batched-write"] else []))
  | "end" =>
    let cs := s.calls.reverse
    -- hypotheses of Props.C38.linearizable_of_per_key (the per-key decomposition below is a theorem, given these)
    let wellStamped := cs.all fun c => c.inv < c.ret
    let allKeyed := cs.all fun c => keyed c.op
    let msgs := (keysOf cs).flatMap fun k =>
      let sub := subHistory cs k
      let overlap := sub.any fun a => sub.any fun b => a.line != b.line && a.inv < b.ret && b.inv < a.ret
      let stepf := modelStep
      match linearize stepf strict (Vol.init (0, 0)) sub (2000000 : Nat) with
      | .found => ["COV key.linearized"] ++ (if overlap then ["COV key.with-overlapping-calls"] else [])
      | .notFound =>
        let cls := if linearize stepf strictOrWild (Vol.init (0, 0)) (sub.map relaxHttpDelete) (2000000 : Nat) == .found
          then "history/http-delete-read-then-delete-not-atomic" else "history/not-linearizable"
        [specfail n cls s!"key={k} history-starts-at-line={s.start} calls={sub.length}"]
      | .budget => [s!"DIFF {n} linearization-search-budget-exhausted key={k}"]
    ({ kind := s.kind }, diff n ln ["ok"] ++ msgs ++ (if wellStamped then [] else [s!"DIFF {n} bad-stamps"]) ++
      (if allKeyed then [] else [s!"DIFF {n} global-toggle-in-history"]) ++ ["COV history"])
  | _ => (s, [s!"DIFF {n} unknown-op {ln.op}"])

end DrvC38

def main : IO Unit := run { init := ({} : DrvC38.St), step := DrvC38.stepLine }
