/- Driver for C05: replays the harness trace with the model (DIFF) and runs the judges of
   Spec/C05 over the IMPLEMENTATION's outputs (SPECFAIL).  The reference map of the judges is
   kept in a tree map (same bindings as `Spec.C05.Ref`, newest binding wins). -/
import Std.Data.TreeMap
import SwV.Common.Drv
import SwV.Model.C05
import SwV.Spec.C05
open SwV.Drv SwV.Model.C05 SwV.Spec.C05

abbrev RefMap := Std.TreeMap Nat (Nat × Int)
abbrev HisMap := Std.TreeMap Nat (List Nat)

structure St where
  os : Nat := 4
  batch : Nat := 100000
  cm : List Sec := []
  ref : RefMap := {}
  his : HisMap := {}       -- per key: the high offset bytes it was ever stored with (refined judges)
  -- needle mapper level
  kind : String := "mem"
  mem : MemMap := {}
  ldb : LdbMap := {}
  nref : RefMap := {}
  nhis : HisMap := {}
  hist : History := {}
  reloaded : Bool := false
  pending : Bool := false
  lastMet : List String := []

def hisGet (h : HisMap) (k : Nat) : List Nat := (h.get? k).getD []

def hisAdd (h : HisMap) (k off : Nat) : HisMap :=
  let old := hisGet h k
  if old.contains (hiOf off) then h else h.insert k (hiOf off :: old)

/-- an in-window insertion where some entry that moves one slot to the right carries a high offset
    byte different from the byte in the slot it moves into (the old byte of its right neighbour, 0 in
    the fresh slot behind the last entry): only then the parallel `valuesExtra` array matters -/
def windowHiMixed (s0 : Sec) (key : Nat) : Bool :=
  let skey := skeyOf s0 key
  let shifted := s0.rvals.takeWhile (fun e => e.key > skey)     -- top entry first
  (shifted.zip (0 :: shifted.map (·.hi))).any fun en => en.1.hi != en.2

def judgeOut (n : Nat) (j : Option String) (detail : String) : List String :=
  match j with
  | none => []
  | some cls => [specfail n cls detail]

def refDelete (r : RefMap) (k : Nat) : RefMap :=
  match r.get? k with
  | some (o, s) => if s > 0 then r.insert k (o, -s) else r
  | none => r

def nvOut (r : Option NV) : List String :=
  match r with
  | none => ["nf"]
  | some v => ["ok", toString v.key, toString (fullOff v.off v.hi), toString v.size]

def implNV (o : List String) : Option (Nat × Nat × Int) :=
  if o.getD 0 "" == "ok" then some (tokNat (o.getD 1 ""), tokNat (o.getD 2 ""), tokInt (o.getD 3 "")) else none

/-- coverage tag of a `CompactSection.Set` -/
def secSetCov (batch : Nat) (s0 : Sec) (key : Nat) : String :=
  let skey := skeyOf s0 key
  match findDesc skey s0.rvals with
  | some _ => "set.update-in-values"
  | none =>
    if decide (s0.cnt ≥ batch) || (decide (s0.cnt > 0) && decide ((s0.rvals.headD default).key > skey)) then
      let lb := s0.rvals.getD (min lookBack s0.cnt - 1) default
      if s0.cnt < batch ∧ lb.key < skey then "set.insert-in-window"
      else if (findAsc skey s0.ovf).isSome then "set.overflow-overwrite"
      else if s0.cnt ≥ batch then "set.overflow-new-full-section"
      else "set.overflow-new-beyond-window"
    else "set.append"

def setCov (batch : Nat) (key : Nat) : List Sec → String
  | [] => "sec.new-first"
  | s :: rest =>
    if key < s.start then "sec.new-below-first"
    else match rest with
      | [] =>
        if (s.cnt < batch ∨ key ≤ s.stop) ∧ key - s.start ≤ limit then secSetCov batch s key
        else if key - s.start ≤ limit then "sec.new-after-full" else "sec.new-beyond-limit"
      | t :: _ =>
        if t.start ≤ key then setCov batch key rest
        else if key - s.start ≤ limit then secSetCov batch s key
        else "sec.new-beyond-limit-middle"

/-- the section `CompactMap.Set` hands `key` to (when it does not open a new one) -/
def secFor (key : Nat) : List Sec → Option Sec
  | [] => none
  | s :: rest =>
    if key < s.start then none
    else match rest with
      | [] => some s
      | t :: _ => if t.start ≤ key then secFor key rest else some s

def visitOut (vs : List NV) : List String :=
  let h := vs.foldl (fun h v => (h * 31 + v.key + 7 * fullOff v.off v.hi + 13 * (v.size % 4294967296).toNat) % 18446744073709551616) 0
  let n := vs.length
  [toString n, toString h] ++
    (if n ≤ 64 ∧ n > 0 then [String.intercalate "," (vs.map fun v => s!"{v.key}:{fullOff v.off v.hi}:{v.size}")] else [])

def parseItems (s : String) : List (Nat × Nat × Int) :=
  (s.splitOn ",").filterMap fun it =>
    match it.splitOn ":" with
    | [k, o, z] => some (tokNat k, tokNat o, tokInt z)
    | _ => none

def metOut (m : Metric) (n : Nat) : List String :=
  [toString m.fc, toString m.dc, toString m.fb, toString m.db, toString m.maxKey, toString n]

def step (st : St) (n : Nat) (ln : Line) : St × List String :=
  let a := ln.args
  let o := ln.outs
  match ln.op with
  | "config" => ({ st with os := tokNat (a.getD 0 "4"), batch := tokNat (a.getD 1 "100000") }, ["COV config"])
  | "reset" => ({ st with cm := [], ref := {}, his := {} }, diff n ln ["ok"])
  | "set" =>
    let key := tokNat (a.getD 0 ""); let off := tokNat (a.getD 1 ""); let size := tokInt (a.getD 2 "")
    let cov := setCov st.batch key st.cm
    let (cm', old) := setL st.batch key (offLo off) (offHi off) size st.cm
    let model := [toString (fullOff old.1 old.2.1), toString old.2.2]
    let j := setJudgeH (st.ref.get? key) (hisGet st.his key) (tokNat (o.getD 0 "")) (tokInt (o.getD 1 ""))
    let mixed := cov == "set.insert-in-window" && (secFor key st.cm).any (fun s0 => windowHiMixed s0 key)
    ({ st with cm := cm', ref := st.ref.insert key (off, size), his := hisAdd st.his key off },
      diff n ln model ++ judgeOut n j (a.getD 0 "") ++ ["COV " ++ cov] ++ (if mixed then ["COV set.insert-in-window-hi-mixed"] else []))
  | "del" =>
    let key := tokNat (a.getD 0 "")
    let (cm', d) := delL st.batch key st.cm
    let j := delJudge (st.ref.get? key) (tokInt (o.getD 0 ""))
    ({ st with cm := cm', ref := refDelete st.ref key },
      diff n ln [toString d] ++ judgeOut n j (a.getD 0 "")
      ++ [if d > 0 then "COV del.live" else if d < 0 then "COV del.negative" else "COV del.zero"])
  | "get" =>
    let key := tokNat (a.getD 0 "")
    let r := getL st.batch key st.cm
    let j := getJudgeH key (st.ref.get? key) (hisGet st.his key) (implNV o)
    (st, diff n ln (nvOut r) ++ judgeOut n j (a.getD 0 "")
      ++ [match r with
          | none => "COV get.notfound"
          | some v => if v.size < 0 then "COV get.deleted" else "COV get.live"])
  | "visit" =>
    let vs := visitL st.cm
    let model := visitOut vs
    let j := if vs.length ≤ 64 ∧ vs.length > 0 ∧ o.length = 3 then
        visitJudgeH (hisGet st.his) (st.ref.toList.map fun (k, (of, s)) => (k, of, s)) (parseItems (o.getD 2 ""))
      else if toString st.ref.size = o.getD 0 "" then none else some "CompactMap.AscendingVisit/differs"
    (st, diff n ln model ++ judgeOut n j "" ++ [if vs.length > 64 then "COV visit.large" else "COV visit.small"])
  -- ---------------------------------------------------------------- needle mapper level
  | "nreset" =>
    ({ st with kind := a.getD 0 "mem", mem := {}, ldb := {}, nref := {}, nhis := {}, hist := {}, reloaded := false, pending := false, lastMet := [] },
      diff n ln ["ok"] ++ ["COV nreset." ++ a.getD 0 ""])
  | "nput" =>
    let key := tokNat (a.getD 0 ""); let off := tokNat (a.getD 1 ""); let size := tokInt (a.getD 2 "")
    let hist := { st.hist with emptyPut := st.hist.emptyPut || decide (size ≤ 0), rewritten := st.hist.rewritten || st.nref.contains key }
    let st' := { st with nref := st.nref.insert key (off, size), nhis := hisAdd st.nhis key off, hist := hist }
    if st.kind == "mem" then ({ st' with mem := st.mem.put st.batch key off size }, diff n ln ["ok"] ++ ["COV nput"])
    else if st.kind == "ldb" then ({ st' with ldb := st.ldb.put key off size }, diff n ln ["ok"] ++ ["COV nput"])
    else (st, diff n ln ["err"])
  | "ndel" =>
    let key := tokNat (a.getD 0 ""); let off := tokNat (a.getD 1 "")
    let noop := match st.nref.get? key with | some (_, s) => decide (s ≤ 0) | none => true
    let st' := { st with nref := refDelete st.nref key, hist := { st.hist with noopDelete := st.hist.noopDelete || (noop && st.kind == "mem") } }
    if st.kind == "mem" then ({ st' with mem := st.mem.delete st.batch key off }, diff n ln ["ok"] ++ [if noop then "COV ndel.noop" else "COV ndel.live"])
    else if st.kind == "ldb" then ({ st' with ldb := st.ldb.delete key off }, diff n ln ["ok"] ++ [if noop then "COV ndel.noop" else "COV ndel.live"])
    else (st, diff n ln ["unsupported"])
  | "nget" =>
    let key := tokNat (a.getD 0 "")
    let r : Option NV := if st.kind == "mem" then getL st.batch key st.mem.cm
      else (kvGet st.ldb.kv key).map fun (of, s) => ⟨key, offLo of, offHi of, s⟩
    (st, diff n ln (nvOut r) ++ judgeOut n (ngetJudgeH st.kind st.reloaded key (st.nref.get? key) (hisGet st.nhis key) (implNV o)) (a.getD 0 "")
      ++ ["COV nget"])
  | "nmet" =>
    let model := if st.kind == "mem" then metOut st.mem.met st.mem.idx.length else metOut st.ldb.met st.ldb.idx.length
    let j := if st.pending then reloadJudge st.kind st.hist st.lastMet o else none
    ({ st with pending := false, lastMet := o }, diff n ln model ++ judgeOut n j (String.intercalate "," st.lastMet ++ "->" ++ String.intercalate "," o)
      ++ (if st.pending then ["COV nmet.after-reload"] else ["COV nmet"]))
  | "nreload" =>
    let kind' := a.getD 0 "mem"
    let idx := if st.kind == "mem" then st.mem.idx else st.ldb.idx     -- newest first
    let st' := { st with kind := kind', reloaded := true, pending := true }
    if kind' == "mem" then
      let (cm, met) := loadMem st.batch idx.reverse
      ({ st' with mem := { cm := cm, met := met, idx := idx } }, diff n ln ["ok"] ++ ["COV nreload.mem"])
    else if kind' == "ldb" then
      ({ st' with ldb := { kv := kvFromIdxLdb idx.reverse, met := metricFromIdx idx, idx := idx } }, diff n ln ["ok"] ++ ["COV nreload.ldb"])
    else
      ({ st' with ldb := { kv := kvFromIdxMemDb idx.reverse, met := metricFromIdx idx, idx := idx } }, diff n ln ["ok"] ++ ["COV nreload.sorted"])
  | _ => (st, [s!"DIFF {n} unknown-op {ln.op}"])

def main : IO Unit := run { init := ({} : St), step := step }
