/- Driver for C07: replays the harness trace with the byte-level model (DIFF) and runs the judges
   of Spec/C07 over the IMPLEMENTATION's outputs (SPECFAIL). -/
import SwV.Common.Drv
import SwV.Model.C07
import SwV.Spec.C07
open SwV.Drv SwV.Model.C07 SwV.Spec.C07

structure St where
  os : Nat := 4
  -- model state
  ecx : List Nat := []
  ecj : List Nat := []
  pos : Nat := 0        -- position of the journal handle
  session : Nat := 1
  orig : List Nat := []
  sdx : List Nat := []
  idx : List Nat := []
  idxOff : Nat := 0
  iidx : List Nat := []
  -- implementation state as last reported
  iecx : List Nat := []
  iecj : List Nat := []
  isdx : List Nat := []

/-- maximal runs of positions of `new` that are beyond `old` or differ from it -/
def diffRuns : List Nat → List Nat → Nat → Option (Nat × List Nat) → List (Nat × List Nat) → List (Nat × List Nat)
  | _, [], _, cur, acc => (match cur with | none => acc | some (o, r) => (o, r.reverse) :: acc).reverse
  | [], b :: ns, i, cur, acc =>
    diffRuns [] ns (i + 1) (match cur with | none => some (i, [b]) | some (o, r) => some (o, b :: r)) acc
  | a :: os, b :: ns, i, cur, acc =>
    if a = b then diffRuns os ns (i + 1) none (match cur with | none => acc | some (o, r) => (o, r.reverse) :: acc)
    else diffRuns os ns (i + 1) (match cur with | none => some (i, [b]) | some (o, r) => some (o, b :: r)) acc

/-- the harness' `diffTok` -/
def diffTok (old new : List Nat) : String :=
  let runs := diffRuns old new 0 none []
  toString new.length ++ "@" ++
    (if runs.isEmpty then "-" else String.intercalate "," (runs.map fun (o, bs) => toString o ++ ":" ++ hexOfNats bs))

/-- rebuild the implementation's file from its previous contents and a `diffTok` -/
def applyDiffTok (old : List Nat) (tok : String) : List Nat :=
  match tok.splitOn "@" with
  | [len, items] =>
    let base := old.take (tokNat len)
    if items == "-" then base else
    (items.splitOn ",").foldl (fun bs it =>
      match it.splitOn ":" with
      | [o, h] => writeAt bs (tokNat o) (tokBytes h)
      | _ => bs) base
  | _ => old

def judgeOut (n : Nat) (j : Option String) (detail : String) : List String :=
  match j with
  | none => []
  | some cls => [specfail n cls detail]

def findModel (r : Option (Nat × Int)) : List String :=
  match r with
  | none => ["notfound"]
  | some (o, s) => ["ok", toString o, toString s]

def findImpl (o : List String) : Option (Nat × Int) :=
  if o.getD 0 "" == "ok" then some (tokNat (o.getD 1 ""), tokInt (o.getD 2 "")) else none

def step (st : St) (n : Nat) (ln : Line) : St × List String :=
  let a := ln.args
  let o := ln.outs
  match ln.op with
  | "config" => ({ st with os := tokNat (a.getD 0 "4") }, ["COV config"])
  | "reset" =>
    let bs := tokBytes (a.getD 0 "-")
    ({ st with ecx := bs, ecj := [], pos := 0, session := 1, orig := bs, iecx := bs, iecj := [] },
      diff n ln ["ok"] ++ [if wellFormed st.os bs then "COV reset.wellformed" else "COV reset.malformed",
                           if bs.isEmpty then "COV reset.empty" else "COV reset.nonempty"])
  | "find" =>
    let key := tokNat (a.getD 0 "")
    let r := find st.os st.ecx key
    (st, diff n ln (findModel r) ++ judgeOut n (findJudge st.os st.iecx key (findImpl o)) (a.getD 0 "")
      ++ [match r with
          | none => "COV find.notfound"
          | some (_, s) => if isDeleted s then "COV find.deleted" else "COV find.live"])
  | "del" =>
    let key := tokNat (a.getD 0 "")
    let v := Vol.delete st.os ⟨st.ecx, st.ecj, st.pos⟩ key
    let (ecx', ecj') := (v.ecx, v.ecj)
    let model := ["ok", diffTok st.ecx ecx', diffTok st.ecj ecj']
    let iok := o.getD 0 "" == "ok"
    let iecx' := applyDiffTok st.iecx (o.getD 1 "")
    let iecj' := applyDiffTok st.iecj (o.getD 2 "")
    let hit := (search st.os st.ecx key)
    ({ st with ecx := ecx', ecj := ecj', pos := v.pos, iecx := iecx', iecj := iecj' },
      diff n ln model ++ judgeOut n (delJudge st.os st.iecx st.iecj key iok iecx' iecj') (a.getD 0 "")
      ++ [match hit with
          | none => "COV del.absent"
          | some 0 => "COV del.first-entry"
          | some _ => "COV del.later-entry"]
      ++ (if hit.isSome ∧ st.session > 1 ∧ !st.ecj.isEmpty then ["COV del.journalled-after-reopen"] else []))
  | "reopen" =>
    let v := Vol.reopen ⟨st.ecx, st.ecj, st.pos⟩
    let iecj' := applyDiffTok st.iecj (o.getD 1 "")
    -- judge: a new session finds the journal of the previous ones untouched
    let j := if iecj' = st.iecj then none else some "NewEcVolume/journal-changed-by-reopen"
    ({ st with pos := v.pos, session := st.session + 1, iecj := iecj' },
      diff n ln ["ok", diffTok st.ecj st.ecj] ++ judgeOut n j ""
      ++ [if st.ecj.isEmpty then "COV reopen.empty-journal" else "COV reopen.with-journal"])
  | "idx" =>
    let model := ["ok", hexOfNats (idxFromEc st.os st.ecx st.ecj)]
    (st, diff n ln model ++ judgeOut n (idxJudge st.os st.iecx (o.getD 0 "" == "ok") (tokBytes (o.getD 1 "-"))) ""
      ++ ["COV idx"])
  | "rebuild" =>
    let r := rebuild st.os st.orig st.ecj
    let model := ["ok", hexOfNats r, "0"]
    (st, diff n ln model ++ judgeOut n (rebuildJudge st.os st.orig st.iecx (o.getD 0 "" == "ok") (tokBytes (o.getD 1 "-"))) ""
      ++ [if st.ecj.isEmpty then "COV rebuild.empty-journal" else "COV rebuild.journal"])
  | "sreset" =>
    let bs := tokBytes (a.getD 0 "-")
    -- the harness hands over a sorted, live-only .idx, so the generated .sdx is its copy
    ({ st with sdx := bs, idx := bs, idxOff := 0, iidx := bs, isdx := tokBytes (o.getD 1 "-") },
      diff n ln ["ok", hexOfNats bs] ++ ["COV sreset"])
  | "sget" =>
    let key := tokNat (a.getD 0 "")
    let r := find st.os st.sdx key
    (st, diff n ln (findModel r) ++ judgeOut n (findJudge st.os st.isdx key (findImpl o)) (a.getD 0 "")
      ++ [if r.isSome then "COV sget.found" else "COV sget.notfound"])
  | "sdel" =>
    let key := tokNat (a.getD 0 "")
    let off := tokNat (a.getD 1 "")
    let (ok, sdx', idx', idxOff') := sortedDelete st.os st.sdx st.idx st.idxOff key off
    let model := [okErr ok, diffTok st.sdx sdx', diffTok st.idx idx']
    let isdx' := applyDiffTok st.isdx (o.getD 1 "")
    let iidx' := applyDiffTok st.iidx (o.getD 2 "")
    ({ st with sdx := sdx', idx := idx', idxOff := idxOff', isdx := isdx', iidx := iidx' },
      diff n ln model ++ judgeOut n (sdelJudge st.os st.isdx key (o.getD 0 "" == "ok") isdx') (a.getD 0 "")
      ++ judgeOut n (sdelIdxJudge st.os st.isdx st.iidx key off iidx') (a.getD 0 "")
      ++ [if (find st.os st.sdx key).isSome then "COV sdel.present" else "COV sdel.absent"])
  | _ => (st, [s!"DIFF {n} unknown-op {ln.op}"])

def main : IO Unit := run { init := ({} : St), step := step }
