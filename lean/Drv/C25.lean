/- Driver for C25: recompute every harness line with the model (DIFF) and run the judge (SPECFAIL). -/
import SwV.Common.Drv
import SwV.Model.C25
import SwV.Spec.C25
open SwV.Drv SwV.Model.C25 SwV.Spec.C25

structure St where
  limit : Nat := 0
  opNo  : Nat := 0
  model : List (String × Entry) := []   -- model's store
  impl  : List (String × Entry) := []   -- what the implementation showed last (for the judge)

def put (m : List (String × Entry)) (k : String) (v : Option Entry) : List (String × Entry) :=
  let m' := m.filter (·.1 != k)
  match v with
  | none => m'
  | some e => (k, e) :: m'

def joinOr (xs : List String) : String := if xs.isEmpty then "-" else String.intercalate "," xs

def dumpToks (e : Option Entry) : List String :=
  match e with
  | none => ["none"]
  | some e =>
    [s!"fs={e.fileSize}", "c=" ++ hexOfNats e.content,
     "k=" ++ joinOr ((dumpChunks e).map fun c => s!"{c.off}:{c.data.length}:{c.gen}:{hexOfNats c.data}"),
     "rd=" ++ hexOfNats (readBack e)]

/-- insertion into a list of tokens sorted as Go's sort.Strings does (hex tokens: bytewise = by characters) -/
def insTok (t : String) : List String → List String
  | [] => [t]
  | x :: xs => if t ≤ x then t :: x :: xs else x :: insTok t xs

/-- `gc=`: the data of the chunks uploaded by this request that were handed to a deletion sink, sorted -/
def gcTok (del : List MChunk) : String :=
  "gc=" ++ joinOr ((del.map fun c => hexOfNats c.data).foldr insTok [])

def parseChunk (t : String) : MChunk :=
  match t.splitOn ":" with
  | off :: _ :: gen :: dat :: _ => { off := tokNat off, gen := tokNat gen, data := tokBytes dat }
  | _ => { off := 0, gen := 0, data := [] }

def parseDump (o : List String) : Option Entry :=
  match o with
  | [fs, c, k, _] =>
    let ks := (k.drop 2).toString
    some { fileSize := tokNat (fs.drop 3).toString, content := tokBytes (c.drop 2).toString,
           chunks := if ks == "-" then [] else (ks.splitOn ",").map parseChunk }
  | _ => none

def judgeOut (n : Nat) (j : Option String) (detail : String) : List String :=
  match j with
  | none => []
  | some cls => [specfail n cls detail]

def covUpload (cs limit : Nat) (isAppend etc : Bool) (body : List Nat) (failAt : Option Nat) (u : Upload) : List String :=
  (if u.small ≠ [] then ["COV upload.inline"] else []) ++
  (if u.small ≠ [] ∧ u.small.length < body.length ∧ failAt.isNone then ["COV upload.inline-drops-rest"] else []) ++
  (if u.chunks.length = 1 then ["COV upload.one-chunk"] else []) ++
  (if u.chunks.length > 1 then ["COV upload.multi-chunk"] else []) ++
  (if u.chunks ≠ [] ∧ body.length % cs = 0 ∧ failAt.isNone then ["COV upload.exact-multiple"] else []) ++
  (if body.isEmpty then ["COV upload.empty-body"] else []) ++
  (if etc then ["COV upload.etc"] else []) ++
  (if limit > cs then ["COV upload.limit-above-chunk"] else []) ++
  (match failAt with
   | none => []
   | some k => ["COV upload.read-error"] ++
     (if k = 0 then ["COV upload.read-error-at-0"] else []) ++
     (if k % cs = 0 ∧ k ≠ 0 then ["COV upload.read-error-at-chunk-edge"] else []) ++
     (if k % cs ≠ 0 then ["COV upload.read-error-mid-chunk"] else []) ++
     (if k + 1 = body.length then ["COV upload.read-error-at-last-byte"] else []) ++
     (if u.chunks ≠ [] then ["COV upload.read-error-after-chunks"] else []) ++
     (if u.readErr then ["COV upload.read-error-reported"] else []) ++
     (if u.readErr ∧ u.chunks.length > 1 then ["COV upload.read-error-deletes-chunks"] else []) ++
     (if u.readErr ∧ isAppend then ["COV upload.read-error-on-append"] else []) ++
     (if !u.readErr ∧ u.small ≠ [] then ["COV upload.read-error-hidden-by-inline"] else [])) ++
  (if isAppend then ["COV upload.append"] else [])

def step (st : St) (n : Nat) (ln : Line) : St × List String :=
  let a := ln.args
  let o := ln.outs
  match ln.op with
  | "reset" =>
    ({ limit := tokNat (a.getD 0 "0") }, diff n ln ["ok"] ++ ["COV reset"])
  | "pub" =>
    (st, diff n ln ["same"] ++ ["COV pub"] ++ (if a.getD 1 "-1" != "-1" then ["COV pub.failing-body"] else []))
  | "grpc" =>
    let key := a.getD 0 "" ++ "/" ++ a.getD 1 ""
    let kind := match a.getD 2 "" with | "inline" => 0 | "chunks" => 1 | "nofs" => 2 | _ => 3
    let gen := st.opNo + 1
    let e := grpcCreate kind (tokNat (a.getD 3 "")) gen (tokBytes (a.getD 4 "-"))
    let st' := { st with opNo := gen, model := put st.model key (some e), impl := put st.impl key (parseDump o) }
    (st', diff n ln (dumpToks (some e)) ++ [s!"COV grpc.{a.getD 2 ""}"])
  | "put" | "post" | "postd" | "postraw" | "putnet" =>
    let etc := a.getD 0 "" == "etc"
    let key := a.getD 0 "" ++ "/" ++ a.getD 1 ""
    let isAppend := a.getD 2 "0" == "1"
    let cs := tokNat (a.getD 3 "")
    let failAt : Option Nat := if a.getD 4 "-1" == "-1" then none else some (tokNat (a.getD 4 ""))
    let body := tokBytes (a.getD 5 "-")
    let avail := match failAt with | none => body | some k => body.take k
    let m : Method := if ln.op == "put" ∨ ln.op == "putnet" then .put else if ln.op == "postraw" then .postRaw else .postMultipart
    let gen := st.opNo + 1
    let existing := st.model.lookup key
    let (status, e', del) := handle existing m isAppend cs st.limit etc gen avail failAt.isSome
    let u := uploadReaderToChunks cs st.limit isAppend etc gen avail failAt.isSome
    -- judge over the implementation's outputs
    let istatus := tokNat (o.getD 0 "0")
    let inow := parseDump (o.drop 2)
    let iprev := st.impl.lookup key
    let q : Req := { raw := m == .postRaw, isAppend := isAppend, cs := cs, limit := st.limit, etc := etc, body := body, failAt := failAt }
    let j := writeJudge q iprev istatus inow
    let cov := (if m == .postRaw then ["COV post.raw-refused"] else covUpload cs st.limit isAppend etc body failAt u) ++
      (if m != .postRaw ∧ isAppend then
        (match existing with
         | none => ["COV append.new-file"]
         | some p => (if p.content ≠ [] then ["COV append.refused-inline"] else ["COV append.existing"]) ++
                     (if p.content = [] ∧ extent p.chunks > p.fileSize then ["COV append.attr-below-extent"] else []) ++
                     (if p.content = [] ∧ extent p.chunks < p.fileSize then ["COV append.attr-above-extent"] else []))
       else []) ++
      (if ln.op == "postd" then ["COV post.to-directory"] else []) ++
      (if ln.op == "putnet" then ["COV put.real-connection"] else []) ++
      (if ln.op == "putnet" ∧ failAt.isSome then ["COV put.real-connection-cut"] else []) ++
      (if m == .postMultipart ∧ failAt.isSome then ["COV post.failing-body"] else []) ++
      (if m != .postRaw ∧ failAt.isSome ∧ existing.isSome then ["COV write.failing-body-over-existing"] else []) ++
      (if m != .postRaw ∧ !isAppend ∧ existing.isSome then ["COV write.overwrite"] else [])
    let st' := { st with opNo := gen, model := put st.model key e', impl := put st.impl key inow }
    (st', diff n ln (toString status :: gcTok del :: dumpToks e') ++ judgeOut n j (s!"{ln.op} {a.take 5}") ++ cov)
  | "putuf" | "postuf" =>
    -- an error-free body; the master refuses every attempt to store the chunk read k-th
    let etc := a.getD 0 "" == "etc"
    let key := a.getD 0 "" ++ "/" ++ a.getD 1 ""
    let isAppend := a.getD 2 "0" == "1"
    let cs := tokNat (a.getD 3 "")
    let k := tokNat (a.getD 4 "")
    let body := tokBytes (a.getD 5 "-")
    let m : Method := if ln.op == "putuf" then .put else .postMultipart
    let gen := st.opNo + 1
    let existing := st.model.lookup key
    let (status, e', del) := handleUploadFail existing m isAppend cs st.limit etc gen body k
    let refused := refusedAttempts m isAppend cs st.limit etc gen body k
    let u := uploadReaderToChunks cs st.limit isAppend etc gen body false
    -- judge over the implementation's outputs: the fault-free judge unless the stand-in did refuse a chunk
    let istatus := tokNat (o.getD 0 "0")
    let irefused := tokNat ((o.getD 1 "uf=0").drop 3).toString
    let inow := parseDump (o.drop 3)
    let iprev := st.impl.lookup key
    let q : Req := { raw := false, isAppend := isAppend, cs := cs, limit := st.limit, etc := etc, body := body, failAt := none }
    let j := if irefused = 0 then writeJudge q iprev istatus inow else uploadFailJudge q iprev istatus inow
    let hit := k < u.chunks.length
    let cov :=
      (if hit then ["COV upload-fail"] else ["COV upload-fail.no-such-chunk"]) ++
      (if hit ∧ k = 0 then ["COV upload-fail.first-chunk"] else []) ++
      (if hit ∧ 0 < k ∧ k + 1 < u.chunks.length then ["COV upload-fail.middle-chunk"] else []) ++
      (if hit ∧ k + 1 < u.chunks.length then ["COV upload-fail.later-chunk-completes"] else []) ++
      (if hit ∧ k + 1 = u.chunks.length then ["COV upload-fail.last-chunk"] else []) ++
      (if hit ∧ del.length > 1 then ["COV upload-fail.deletes-chunks"] else []) ++
      (if hit ∧ existing.isSome ∧ !isAppend then ["COV upload-fail.over-existing"] else []) ++
      (if hit ∧ existing.isSome ∧ isAppend then ["COV upload-fail.on-append"] else []) ++
      (if hit ∧ existing.isNone then ["COV upload-fail.new-file"] else []) ++
      (if hit ∧ m == .postMultipart then ["COV upload-fail.post"] else []) ++
      (if hit ∧ m == .put then ["COV upload-fail.put"] else [])
    let st' := { st with opNo := gen, model := put st.model key e', impl := put st.impl key inow }
    (st', diff n ln (toString status :: s!"uf={refused}" :: gcTok del :: dumpToks e') ++ judgeOut n j (s!"{ln.op} {a.take 5}") ++ cov)
  | _ => (st, [s!"DIFF {n} unknown-op {ln.op}"])

def main : IO Unit := run { init := ({} : St), step := step }
