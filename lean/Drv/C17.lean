/- Driver for C17: recompute every harness line with the model (DIFF) and run the judges (SPECFAIL). -/
import SwV.Common.Drv
import SwV.Model.C17
import SwV.Spec.C17
open SwV.Drv SwV.Model.C17 SwV.Spec.C17

/-- byte i of blob `cookie` (same function as the harness) -/
def content (cookie i : Nat) : Nat := (cookie * 31 + i * 7) % 200 + 1

abbrev Vids := List (Nat × Nat)   -- cookie ↦ volume id (only needed to print file ids)

/-- prefix-notation node tokens → nodes; returns (nodes, remaining tokens, vids) -/
def parseNodesAux : Nat → List String → Nat → List Node × List String × Vids
  | 0, toks, _ => ([], toks, [])
  | _, [], _ => ([], [], [])
  | _, toks, 0 => ([], toks, [])
  | fuel + 1, t :: rest, k + 1 =>
    match t.splitOn "." with
    | ["d", off, size, mt, vid, key, cookie] =>
      let (more, r, vs) := parseNodesAux fuel rest k
      (.data { off := tokNat off, size := tokNat size, mtime := tokInt mt, fid := tokNat cookie, key := tokNat key } :: more, r, (tokNat cookie, tokNat vid) :: vs)
    | ["m", off, size, cookie, n] =>
      let (kids, r1, v1) := parseNodesAux fuel rest (tokNat n)
      let (more, r2, v2) := parseNodesAux fuel r1 k
      (.manifest (tokNat off) (tokNat size) (tokNat cookie) kids :: more, r2, v1 ++ v2)
    | _ => ([], [], [])

def parseNodes (toks : List String) : List Node × Vids :=
  let (ns, _, vs) := parseNodesAux (toks.length + 1) toks toks.length
  (ns, vs)

def chunkTok (vids : Vids) (c : Chunk) : String :=
  s!"d.{c.off}.{c.size}.{c.mtime}.{(vids.lookup c.fid).getD 0}.{c.key}.{c.fid}"

def nodeToks (vids : Vids) : Nat → List Node → List String
  | 0, _ => []
  | _, [] => []
  | fuel + 1, .data c :: ns => chunkTok vids c :: nodeToks vids fuel ns
  | fuel + 1, .manifest off size fid ch :: ns =>
    s!"m.{off}.{size}.{fid}.{ch.length}" :: (nodeToks vids fuel ch ++ nodeToks vids fuel ns)

def joinOr (xs : List String) : String := if xs.isEmpty then "-" else String.intercalate "," xs

def viewsTok (vs : List View) : String :=
  joinOr (vs.map fun v => s!"{v.fid}:{v.off}:{v.size}:{v.logic}:{v.csize}")

def visTok (vs : List Vis) : String :=
  joinOr (vs.map fun v => s!"{v.start}:{v.stop}:{v.mtime}:{v.fid}:{v.coff}:{v.csize}")

def parseViews (s : String) : List View :=
  if s == "-" then [] else
  (s.splitOn ",").map fun t =>
    match t.splitOn ":" with
    | [f, o, sz, l, cs] => { fid := tokNat f, off := tokNat o, size := tokNat sz, logic := tokNat l, csize := tokNat cs }
    | _ => { fid := 0, off := 0, size := 0, logic := 0, csize := 0 }

def parseWins (s : String) : List (Nat × Nat) :=
  if s.startsWith "all." then
    let w := tokNat (s.drop 4).toString
    (List.range (w + 1)).flatMap fun a => (List.range (w - a + 1)).map fun l => (a, l)
  else if s == "-" then []
  else (s.splitOn "_").map fun p =>
    match p.splitOn "+" with
    | [a, l] => (tokNat a, tokNat l)
    | _ => (0, 0)

def depth : Nat → List Node → Nat
  | 0, _ => 0
  | _, [] => 0
  | fuel + 1, .data _ :: ns => depth fuel ns
  | fuel + 1, .manifest _ _ _ ch :: ns => max (1 + depth fuel ch) (depth fuel ns)

def judgeOut (n : Nat) (j : Option String) (detail : String) : List String :=
  match j with
  | none => []
  | some cls => [specfail n cls detail]

/-- coverage facts about a chunk list -/
def covOf (ns : List Node) (cs : List Chunk) : List String :=
  let d := depth (cs.length + ns.length + 2) ns
  (if d ≥ 1 then ["COV tree.manifest"] else []) ++ (if d ≥ 2 then ["COV tree.nested-manifest"] else []) ++
  (if cs.any (·.size = 0) then ["COV chunk.zero-size"] else []) ++
  (if cs.any fun a => cs.any fun b => a.mtime = b.mtime ∧ a.key ≠ b.key then ["COV sort.mtime-tie"] else []) ++
  (if cs.any fun a => cs.any fun b => a.mtime = b.mtime ∧ a.key = b.key ∧ a ≠ b then ["COV sort.full-tie"] else [])

def hasHole (cs : List Chunk) : Bool :=
  (List.range (extent cs)).any fun p => cs.all fun c => !decide (covers c p)

def step (st : Unit) (n : Nat) (ln : Line) : Unit × List String :=
  let a := ln.args
  let o := ln.outs
  match ln.op with
  | "mg" =>
    let (ns, _) := parseNodes a
    let cs := flatten ns
    let vis := visibles cs
    (st, diff n ln [visTok vis] ++ ["COV mg"] ++ (if cs.any (·.size = 0) then ["COV mg.zero-size"] else [])
      ++ (if vis.length > cs.length then ["COV mg.split"] else []))
  | "vi" =>
    let (ns, _) := parseNodes (a.drop 2)
    let lo := tokNat (a.getD 0 "0")
    let hi := if a.getD 1 "" == "-1" then maxInt64 else tokNat (a.getD 1 "0")
    (st, diff n ln ["ok", visTok (nonOverlapping lo hi ns)] ++ ["COV vi"])
  | "vw" =>
    let (ns, _) := parseNodes (a.drop 1)
    let cs := flatten ns
    let wins := parseWins (a.getD 0 "-")
    let model := wins.map fun (off, len) => viewsTok (viewFromChunks ns off len)
    let wf := wellFormed ns
    let js := if !wf then [] else
      (wins.zip o).flatMap fun ((off, len), tok) => judgeOut n (viewsJudge cs off (off + len) (parseViews tok)) s!"ViewFromChunks window {off}+{len}"
    (st, diff n ln model ++ js.take 1 ++ ["COV vw"] ++ covOf ns cs)
  | "rd" =>
    let (ns, _) := parseNodes (a.drop 4)
    let cs := flatten ns
    let fs := tokNat (a.getD 0 "0")
    let fill := tokNat (a.getD 1 "0")
    let wins := parseWins (a.getD 3 "-")
    let views := viewFromChunks ns 0 maxInt64
    let model := viewsTok views :: wins.map fun (off, len) =>
      let (cnt, eof, out) := readAt content views fs (List.replicate len fill) off
      s!"{cnt}:{if eof then 1 else 0}:{hexOfNats out}"
    let wf := wellFormed ns
    let ext := extent cs
    let jv := if !wf then [] else judgeOut n (viewsJudge cs 0 maxInt64 (parseViews (o.getD 0 "-"))) "ViewFromChunks whole file"
    let jr := if !wf ∨ fs < ext then [] else
      (wins.zip (o.drop 1)).flatMap fun ((off, len), tok) =>
        match tok.splitOn ":" with
        | [cnt, e, hex] => judgeOut n (readJudge content cs fs off len (tokNat cnt) (e == "1") (tokBytes hex)) s!"ReadAt window {off}+{len} fileSize {fs} fill {fill}"
        | _ => [specfail n "ReadAt/error" s!"window {off}+{len}"]
    let hole := hasHole cs
    (st, diff n ln model ++ jv ++ jr.take 1 ++ ["COV rd"] ++ covOf ns cs
      ++ (if hole then ["COV rd.hole"] else []) ++ (if hole ∧ fill ≠ 0 then ["COV rd.hole-dirty-buffer"] else [])
      ++ (if fs > ext then ["COV rd.tail-below-filesize"] else []) ++ (if fs < ext then ["COV rd.filesize-below-extent"] else [])
      ++ (if views.length > cs.length then ["COV rd.split"] else []))
  | "rf" =>
    let (ns, _) := parseNodes (a.drop 7)
    let cs := flatten ns
    let fs := tokNat (a.getD 0 "0")
    let fill := tokNat (a.getD 1 "0")
    let faulty := if a.getD 4 "-" == "-" then [] else ((a.getD 4 "-").splitOn ",").map tokNat
    let ok : Nat → Bool := fun f => !faulty.contains f
    let wins1 := parseWins (a.getD 5 "-")
    let wins2 := parseWins (a.getD 6 "-")
    let views := viewFromChunks ns 0 maxInt64
    let rdTok := fun (okf : Nat → Bool) (w : Nat × Nat) =>
      let (cnt, e, out) := readAtF okf content views fs (List.replicate w.2 fill) w.1
      s!"{cnt}:{e}:{hexOfNats out}"
    let model := viewsTok views :: (wins1.map (rdTok ok) ++ ["|"] ++ wins2.map (rdTok fun _ => true))
    let wf := wellFormed ns ∧ extent cs ≤ fs
    let o1 := (o.drop 1).takeWhile (· != "|")
    let o2 := ((o.drop 1).dropWhile (· != "|")).drop 1
    -- judge: a read either reports an error (and the n bytes it did deliver are content bytes) or is exact
    let j1 := if !wf then [] else
      (wins1.zip o1).flatMap fun ((off, len), tok) =>
        match tok.splitOn ":" with
        | [cnt, e, hex] =>
          if e == "2" then
            if (List.range (tokNat cnt)).all fun i => byteOk content cs (off + i) ((tokBytes hex).getD i 999) then []
            else [specfail n "ReadAt/wrong-bytes-before-fetch-error" s!"window {off}+{len}"]
          else match readJudge content cs fs off len (tokNat cnt) (e == "1") (tokBytes hex) with
            | none => []
            | some _ => [specfail n "ReadAt/fetch-fault-wrong-bytes-without-error" s!"window {off}+{len} fileSize {fs} faulty {a.getD 4 "-"} kind {a.getD 3 ""}"]
        | _ => [specfail n "ReadAt/fetch-fault-wrong-bytes-without-error" s!"window {off}+{len}"]
    let j2 := if !wf then [] else
      (wins2.zip o2).flatMap fun ((off, len), tok) =>
        match tok.splitOn ":" with
        | [cnt, e, hex] =>
          if e != "2" ∧ (readJudge content cs fs off len (tokNat cnt) (e == "1") (tokBytes hex)).isNone then []
          else [specfail n "ReadAt/wrong-after-recovery" s!"window {off}+{len} fileSize {fs} faulty {a.getD 4 "-"} kind {a.getD 3 ""}"]
        | _ => [specfail n "ReadAt/wrong-after-recovery" s!"window {off}+{len}"]
    let errs := (model.drop 1).filter fun t => (t.splitOn ":").getD 1 "" == "2"
    (st, diff n ln model ++ j1.take 1 ++ j2.take 1 ++ ["COV rf", s!"COV rf.kind-{(a.getD 3 "").takeWhile (· != '.')}"]
      ++ (if errs.isEmpty then [] else ["COV rf.error"]) ++ (if errs.any fun t => !t.startsWith "0:" then ["COV rf.error-after-partial-delivery"] else [])
      ++ (if !faulty.isEmpty ∧ (model.drop 1).any (fun t => t != "|" ∧ (t.splitOn ":").getD 1 "" != "2" ∧ !t.startsWith "0:") then ["COV rf.read-unaffected-by-fault"] else [])
      ++ (if !errs.isEmpty ∧ wins2 ≠ [] then ["COV rf.recovered"] else []))
  | "tie" =>
    let (ns, _) := parseNodes a
    let cs := flatten ns
    (st, judgeOut n (viewsJudge cs 0 maxInt64 (parseViews (o.getD 0 "-"))) "ViewFromChunks, ties resolved by sort.Slice" ++ ["COV tie"] ++ covOf ns cs)
  | "cp" =>
    let (ns, _) := parseNodes a
    let cs := flatten ns
    let (keep, garb) := compact cs
    let model := [joinOr (keep.map (toString ·.fid)), joinOr (garb.map (toString ·.fid))]
    -- judge over the implementation's answer: content unchanged, every byte of a garbage chunk is shadowed by a kept chunk
    let kept := if o.getD 0 "-" == "-" then [] else (o.getD 0 "-").splitOn ","
    let ikeep := cs.filter fun c => kept.contains (toString c.fid)
    let igarb := cs.filter fun c => !kept.contains (toString c.fid)
    let ext := extent cs
    let j1 := if (List.range ext).all fun p => specByte content ikeep p == specByte content cs p then [] else [specfail n "CompactFileChunks/content-changed" (toString a)]
    let j2 := if igarb.all fun g => (List.range g.size).all fun i => ikeep.any fun c => decide (covers c (g.off + i)) && decide (keyLe g c) then [] else [specfail n "CompactFileChunks/garbage-is-visible" (toString a)]
    (st, diff n ln model ++ j1 ++ j2 ++ ["COV cp"] ++ (if garb.isEmpty then [] else ["COV cp.garbage"]))
  | "sc" =>
    let (ns, _) := parseNodes (a.drop 1)
    let cs := flatten ns
    let wins := parseWins (a.getD 0 "-")
    let model := wins.map fun (off, len) => "ok:" ++ hexOfNats (streamContent content ns off len)
    -- a bounded window delivers exactly len bytes; size = MaxInt64 (offset 0) delivers up to the end of the last non-empty chunk
    let ext := extent (cs.filter fun c => decide (0 < c.size))
    let wantLen := fun (off len : Nat) => if len = maxInt64 then ext - off else len
    let holeIn := fun (off len : Nat) => (List.range (wantLen off len)).any (fun i => cs.all fun c => !decide (covers c (off + i)))
    let js := if !wellFormed ns then [] else
      (wins.zip o).flatMap fun ((off, len), tok) =>
        let got := match tok.splitOn ":" with
          | [_, hex] => tokBytes hex
          | _ => []
        if tok.startsWith "ok:" ∧ got.length == wantLen off len ∧ (List.range (wantLen off len)).all (fun i => byteOk content cs (off + i) (got.getD i 999)) then []
        else if holeIn off len then
          [specfail n "StreamContent/hole-not-zero-filled" s!"window {off}+{len}"]
        else [specfail n "StreamContent/wrong-bytes" s!"window {off}+{len}"]
    (st, diff n ln model ++ js.take 1 ++ ["COV sc"]
      ++ (if wins.any fun (off, len) => len ≠ maxInt64 ∧ holeIn off (min len (extent cs - off)) then ["COV sc.hole"] else [])
      ++ (if wins.any fun (off, len) => len ≠ maxInt64 ∧ 0 < len ∧ extent cs < off + len then ["COV sc.tail-past-chunks"] else [])
      ++ (if wins.any fun (off, len) => len = maxInt64 ∧ holeIn off len then ["COV sc.whole-file-hole"] else []))
  | "mz" =>
    let (ns, vids) := parseNodes (a.drop 2)
    let cs := flatten ns
    let k := tokNat (a.getD 0 "1")
    let base := tokNat (a.getD 1 "0")
    let res := manifestize k base ns
    let views := viewFromChunks res 0 maxInt64
    let model := nodeToks vids (a.length * 2 + 4) res ++ ["|", viewsTok views]
    let iviews := parseViews (o.getLast?.getD "-")
    let j := if !wellFormed ns then [] else judgeOut n (viewsJudge cs 0 maxInt64 iviews) s!"views after doMaybeManifestize batch {k}"
    let made := res.length < ns.length ∨ (res.any fun r => match r with | .manifest _ _ f _ => f ≥ base | _ => false)
    (st, diff n ln model ++ j ++ ["COV mz"] ++ (if made then ["COV mz.new-manifest"] else ["COV mz.none"])
      ++ (if ns.any isManifest then ["COV mz.existing-manifest"] else []))
  | "mw" =>
    let (ns, vids) := parseNodes (a.drop 3)
    let cs := flatten ns
    let k := tokNat (a.getD 0 "1")
    let base := tokNat (a.getD 1 "0")
    let wins := parseWins (a.getD 2 "-")
    let res := manifestize k base ns
    let model := nodeToks vids (a.length * 2 + 4) res ++ ["|", s!"ts={advertisedSize ns}:{advertisedSize res}"]
      ++ wins.map fun (off, len) => "ok:" ++ hexOfNats (streamContent content res off len)
    -- judges over the IMPLEMENTATION's output: the file keeps its size, and every bounded window of the manifestized file
    -- delivers the content of the ORIGINAL chunks
    let o' := (o.dropWhile (· != "|")).drop 1
    let jsz := if !wellFormed ns ∨ k = 0 then [] else
      match ((o'.getD 0 "").drop 3).toString.splitOn ":" with
      | [b, af] => judgeOut n (manifestSizeJudge (tokNat b) (tokNat af)) s!"TotalSize {b} -> {af} after doMaybeManifestize batch {k}"
      | _ => [specfail n "doMaybeManifestize/error" (toString o)]
    let jw := if !wellFormed ns then [] else
      (wins.zip (o'.drop 1)).flatMap fun ((off, len), tok) =>
        if len = maxInt64 then [] else
        match tok.splitOn ":" with
        | ["ok", hex] => judgeOut n (manifestWindowJudge content cs off len (tokBytes hex)) s!"window {off}+{len} after doMaybeManifestize batch {k}"
        | _ => [specfail n "doMaybeManifestize/window-read-error" s!"window {off}+{len}: {tok}"]
    -- coverage: a batch whose non-first chunk starts before and ends after all earlier chunks of the batch, read through a
    -- window that starts behind those earlier chunks (inside the widening chunk)
    let ds := ns.filterMap nodeChunk
    let batches := if k = 0 then [] else (List.range (ds.length / k)).map fun i => (ds.drop (i * k)).take k
    let widen := batches.any fun b => (List.range b.length).any fun j =>
      match b[j]? with
      | none => false
      | some c =>
        let earlier := b.take j
        let loE := earlier.foldl (fun m e => min m e.off) maxInt64
        let hiE := earlier.foldl (fun m e => max m e.stop) 0
        decide (0 < j ∧ c.off < loE ∧ hiE < c.stop) && wins.any fun (off, len) => decide (0 < len ∧ hiE ≤ off ∧ off < c.stop)
    (st, diff n ln model ++ jsz ++ jw.take 1 ++ ["COV mw"] ++ (if widen then ["COV mw.widening-chunk-window-past-inner-end"] else [])
      ++ (if res.any isManifest ∧ wins.any (fun (off, len) => 0 < len ∧ off + len < extent cs) then ["COV mw.partial-window-over-manifest"] else [])
      ++ (if ns.any isManifest then ["COV mw.existing-manifest"] else []))
  | _ => (st, [s!"DIFF {n} unknown-op {ln.op}"])

def main : IO Unit := run { init := (), step := step }
