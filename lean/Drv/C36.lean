/- Driver for C36: recompute the recorded sink calls of every event with the string model (DIFF) and judge
   the implementation's calls against the component-wise mirror specification (SPECFAIL). -/
import SwV.Common.Drv
import SwV.Model.C36
import SwV.Spec.C36
open SwV.Drv SwV.Model.C36 SwV.Spec.C36

def untok (s : String) : Str := if s == "-" then [] else s.toList
def tokS (s : Str) : String := if s.isEmpty then "-" else String.ofList s
def b01 (b : Bool) : String := if b then "1" else "0"

def callTok : Call → String
  | .del k d c => s!"D|{tokS k}|{b01 d}|{b01 c}"
  | .create k => s!"C|{tokS k}"
  | .update k np => s!"U|{tokS k}|{tokS np}"

def tokCall (s : String) : Option Call :=
  match s.splitOn "|" with
  | ["D", k, d, c] => some (.del (untok k) (d == "1") (c == "1"))
  | ["C", k] => some (.create (untok k))
  | ["U", k, np] => some (.update (untok k) (untok np))
  | _ => none

def kindOf (s : String) : Option Bool := if s == "f" then some false else if s == "d" then some true else none

def parseEv (s : String) : Option LEv :=
  match s.splitOn "," with
  | [d, ok, on, nk, np, nn] =>
    some { dir := untok d, old := (kindOf ok).map fun k => (k, untok on), new := (kindOf nk).map fun k => (k, untok nn), newParent := untok np }
  | _ => none

/-- cut the outputs at the `@` markers -/
def segments (o : List String) : List (List String) :=
  (o.foldl (fun (acc : List (List String)) t =>
    if t == "@" then [] :: acc else
    match acc with
    | [] => []
    | sg :: r => (sg ++ [t]) :: r) []).reverse

def implStep (seg : List String) : ImplStep :=
  { files := (seg.filter fun t => t != "-" && t != "panic" && !t.startsWith "!" && !t.endsWith "/").map (·.toList),
    status := if seg.contains "panic" then "panic" else if seg.contains "!err" then "err" else "ok" }

def lsTgt : Str := "/t".toList

def step (_ : Unit) (n : Nat) (ln : Line) : Unit × List String :=
  let a := ln.args
  let o := ln.outs
  let g (i : Nat) : String := a.getD i "-"
  match ln.op with
  | "repl" =>
    let src := untok (g 0); let snk := untok (g 1); let isFiler := g 2 == "filer"
    let incr := g 3 == "1"; let found := g 4 == "1"; let fromOther := g 5 == "1"
    let key := untok (g 6); let old := kindOf (g 7); let new := kindOf (g 8); let np := untok (g 9)
    let m := replicate src snk isFiler incr found fromOther key old new np
    let implCalls := o.filterMap tokCall
    let rename := old.isSome && new.isSome && comps np != (comps key).dropLast
    let j := if o.contains "panic" then [specfail n "Replicate/panics" (g 6)]
      else if rename then
        -- renames through Replicate: only the sibling clause is judged
        (if !inside src key && !atRoot src key && !implCalls.isEmpty then [specfail n "Replicate/replicates-sibling-of-source-dir" (g 6)] else [])
      else match replJudge src snk incr (fromOther && isFiler) key old new implCalls with
        | none => [] | some cls => [specfail n cls (g 6)]
    let cov := (if m.isEmpty then "COV repl.skip" else "COV repl.apply") ::
      (if hasPrefix key src && !inside src key then ["COV repl.sibling-prefix"] else []) ++
      (if rename then ["COV repl.rename"] else []) ++ (if fromOther && isFiler then ["COV repl.from-target"] else []) ++
      (if incr then ["COV repl.incremental"] else [])
    ((), diff n ln (m.map callTok) ++ j ++ cov)
  | "sync" =>
    let src := untok (g 0); let tgt := untok (g 1); let incr := g 2 == "1"; let found := g 3 == "1"
    let dir := untok (g 4)
    let old := (kindOf (g 5)).map fun d => (d, untok (g 6))
    let new := (kindOf (g 7)).map fun d => (d, untok (g 9))
    let np := untok (g 8)
    let m := syncEv src tgt incr found dir old new np
    let model := match m with | none => ["panic"] | some cs => cs.map callTok
    let implCalls : Option (List Call) := if o.contains "panic" then none else some (o.filterMap tokCall)
    let oldP := old.map fun x => child dir x.2
    let newP := new.map fun x => child np x.2
    let j := match syncJudge src tgt incr oldP newP np implCalls with | none => [] | some cls => [specfail n cls s!"{g 4}/{g 6}->{g 8}/{g 9}"]
    let oIn := (oldP.map (inside src)).getD false; let nIn := (newP.map (inside src)).getD false
    let cov := match old, new with
      | some _, some _ => (if oIn && nIn then "COV sync.in-in" else if oIn then "COV sync.in-out" else if nIn then "COV sync.out-in" else "COV sync.out-out")
      | some _, none => "COV sync.delete" | none, some _ => "COV sync.create" | none, none => "COV sync.empty"
    ((), diff n ln model ++ j ++ [cov] ++ (if m.isNone then ["COV sync.panic"] else []))
  | "lsync" =>
    let src := untok (g 0); let incr := g 1 == "1"
    let evs := ((g 2).splitOn ";").filterMap parseEv
    let run := lsyncRun src lsTgt incr Tree.empty evs
    let model := run.flatMap fun r =>
      "@" :: (match r.2 with
        | .panic => ["panic"]
        | st =>
          let l := (listing (comps lsTgt) r.1).map String.ofList
          (if l.isEmpty then ["-"] else l) ++ (if st = .err then ["!err"] else []))
    let impl := (segments o).map implStep
    let jr := lsyncJudge src incr evs impl
    let j := match jr.1 with | none => [] | some cls => [specfail n cls s!"{g 0} {g 2}"]
    -- coverage from the model run: trees before each processed event
    let before := Tree.empty :: run.map (·.1)
    let steps := (evs.zip before).zip run
    let cov := (steps.flatMap fun x =>
      let e := x.1.1; let t0 := x.1.2; let t1 := x.2.1
      (match e.old, e.new with
        | some _, some _ =>
          if comps (child e.dir ((e.old.map (·.2)).getD [])) != comps (child e.newParent ((e.new.map (·.2)).getD [])) then
            (if t0 == t1 then ["COV lsync.rename-tree-unchanged"] else ["COV lsync.rename"])
          else ["COV lsync.update"]
        | some o, none =>
          let k := comps (buildKey src lsTgt incr (child e.dir o.2))
          if t0 == t1 && stat t0 k == .dir && hasChildren t0 k then ["COV lsync.delete-dir-kept"] else ["COV lsync.delete"]
        | none, some n => if n.1 then ["COV lsync.create-dir"] else ["COV lsync.create"]
        | none, none => []) ++
      (if (evPaths e).any isMultiPart then ["COV lsync.multipart"] else []) ++
      (match x.2.2 with | .err => ["COV lsync.err"] | .panic => ["COV lsync.panic"] | .ok => [])) ++
      (if incr then ["COV lsync.incremental"] else []) ++
      (if jr.1.isNone && !incr && jr.2 == evs.length && jr.2 > 1 then ["COV lsync.mirror-ok"] else []) ++
      (if jr.1.isSome then ["COV lsync.deviation"] else [])
    ((), diff n ln model ++ j ++ cov)
  | _ => ((), [s!"DIFF {n} unknown-op {ln.op}"])

def main : IO Unit := run { init := (), step := step }
