/- Driver for C19: recompute every harness line with the model (DIFF) and run the listing /
   pagination judges (Spec) over the implementation's outputs (SPECFAIL). -/
import SwV.Common.Drv
import SwV.Model.C19
import SwV.Spec.C19
open SwV.Drv SwV.Model.C19 SwV.Spec.C19

structure St where
  kind : Kind := .leveldb
  md5s : List (Bytes × Bytes) := []
  dbs : List (Bytes × Db) := []                 -- database name ↦ contents (leveldb3: one per bucket)
  dir : List ((Bytes × Bytes) × Bool) := []     -- abstract directories: (dir, name) ↦ expired
  acc : List Bytes := []                        -- names seen since `pagebegin`
  accBad : Bool := false

def kindOf (s : String) : Kind :=
  if s == "leveldb2" then .leveldb2 else if s == "leveldb3" then .leveldb3 else if s == "mem" then .mem else .leveldb

def getDb (dbs : List (Bytes × Db)) (n : Bytes) : Db := (dbs.lookup n).getD []
def setDb (dbs : List (Bytes × Db)) (n : Bytes) (d : Db) : List (Bytes × Db) :=
  (n, d) :: dbs.filter fun p => p.1 ≠ n

def storeIdKey : Bytes := "filer.store.id".toList.map (·.toNat)

def liveNames (st : St) (dir : Bytes) : List Bytes :=
  sortNames ((st.dir.filter fun p => p.1.1 = dir ∧ !p.2).map (·.1.2))

def hexs (l : List Bytes) : List String := l.map hexOfNats
def b01 (s : String) : Bool := s == "1"

def reqOf (a : List String) : Req :=
  { start := tokBytes (a.getD 1 "-"), incl := b01 (a.getD 2 "0"), limit := tokNat (a.getD 3 "0"),
    pfx := tokBytes (a.getD 4 "-"), pattern := tokBytes (a.getD 5 "-"), excl := tokBytes (a.getD 6 "-") }

def step (st : St) (n : Nat) (ln : Line) : St × List String :=
  let a := ln.args
  let o := ln.outs
  match ln.op with
  | "reset" =>
    let k := kindOf (a.getD 0 "leveldb")
    ({ kind := k, dbs := if k.native then [([], [⟨storeIdKey, false⟩])] else [] }, [s!"COV reset.{a.getD 0 "leveldb"}"])
  | "md5" => ({ st with md5s := (tokBytes (a.getD 0 "-"), tokBytes (a.getD 1 "-")) :: st.md5s }, [])
  | "put" =>
    let dir := tokBytes (a.getD 0 "-"); let name := tokBytes (a.getD 1 "-"); let ex := b01 (a.getD 2 "0")
    let (dbn, dk) := dirKey st.kind st.md5s dir
    let db := dbPut ⟨dk ++ name, ex⟩ (getDb st.dbs dbn)
    let dir' := ((dir, name), ex) :: st.dir.filter fun p => p.1 ≠ (dir, name)
    ({ st with dbs := setDb st.dbs dbn db, dir := dir' }, diff n ln ["ok"] ++ [if ex then "COV put.expired" else "COV put.live"])
  | "list" =>
    let dir := tokBytes (a.getD 0 "-")
    let r := reqOf a
    let (dbn, dk) := dirKey st.kind st.md5s dir
    let db := getDb st.dbs dbn
    let sorted := liveNames st dir
    let anyExp := st.dir.any fun p => p.1.1 = dir ∧ p.2
    let iok := o.getD 0 "" == "ok"
    let inames := (o.drop 2).map tokBytes
    let j := match listJudge st.kind.native sorted anyExp r iok inames with
      | none => []
      | some cls => [specfail n cls (String.intercalate " " a)]
    -- the listing deletes the expired entries it meets: the abstract directory follows the model
    match stream st.kind dk db r with
    | none => (st, diff n ln ["fuel"] ++ j)
    | some (names, last, db') =>
      let model := ["ok", hexOfNats last] ++ hexs names
      let gone := fun (p : (Bytes × Bytes) × Bool) => p.1.1 = dir ∧ p.2 ∧ !(db'.any fun e => e.key = dk ++ p.1.2)
      let cov := [s!"COV list.{if st.kind.native then "native" else "generic"}"]
        ++ (if r.pfx ≠ [] ∧ r.pattern ≠ [] then ["COV list.prefix-and-pattern"] else [])
        ++ (if effPrefix r ≠ [] then ["COV list.prefix"] else [])
        ++ (if (splitPattern r.pattern).2 ≠ [] then ["COV list.pattern"] else [])
        ++ (if r.excl ≠ [] then ["COV list.exclude"] else [])
        ++ (if names.length = r.limit ∧ r.limit > 0 then ["COV list.full-page"] else [])
        ++ (if anyExp ∧ db'.length < db.length then ["COV list.expired-skipped"] else [])
        ++ (if r.start ≠ [] ∧ ltB r.start (effPrefix r) then ["COV list.start-before-prefix"] else [])
        ++ (if !st.kind.native ∧ effPrefix r ≠ [] ∧ names.length > 0 then ["COV list.generic-prefix"] else [])
      ({ st with dbs := setDb st.dbs dbn db', dir := st.dir.filter (fun p => !gone p),
                 acc := st.acc ++ inames, accBad := st.accBad || !iok || !j.isEmpty },
       diff n ln model ++ j ++ cov)
  | "pagebegin" => ({ st with acc := [], accBad := false }, [])
  | "pageend" =>
    let dir := tokBytes (a.getD 0 "-")
    let r : Req := { start := [], incl := false, limit := 0, pfx := tokBytes (a.getD 1 "-"),
                     pattern := tokBytes (a.getD 2 "-"), excl := tokBytes (a.getD 3 "-") }
    let j := if st.accBad then [] else
      match pageJudge (liveNames st dir) r st.acc with
      | none => []
      | some cls => [specfail n cls (String.intercalate " " a)]
    (st, j ++ ["COV pagination"])
  | _ => (st, [s!"DIFF {n} unknown-op {ln.op}"])

def main : IO Unit := run { init := ({} : St), step := step }
