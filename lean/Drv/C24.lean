/- Driver for C24: recompute every harness line with the model (DIFF) and run the read-back judge
   (Spec) over the implementation's outputs (SPECFAIL). -/
import SwV.Common.Drv
import SwV.Model.C24
import SwV.Spec.C24
open SwV.Drv SwV.Model.C08 SwV.Model.C24 SwV.Spec.C24

structure St where
  stored : List (String × Entry) := []     -- path ↦ what the store holds (model)
  written : List (String × Entry) := []    -- path ↦ what the writer passed (spec side; links of one file share it)
  hl : List (String × Entry) := []         -- hard link id ↦ blob kept under the id (model)

def fidOfTok (s : String) : Option Fid :=
  match s.splitOn ":" with
  | [v, k, c] => some ⟨tokNat v, tokNat k, tokNat c⟩
  | _ => none

def tokOfFid : Option Fid → String
  | some f => s!"{f.vid}:{f.key}:{f.cookie}"
  | none => "-"

def chunksOfToks : Nat → List String → List Chunk × List String
  | 0, t => ([], t)
  | n + 1, a :: b :: c :: d :: e :: t =>
    let (cs, rest) := chunksOfToks n t
    (⟨tokChars a, fidOfTok b, tokChars c, fidOfTok d, e⟩ :: cs, rest)
  | _ + 1, t => ([], t)

def entryOfToks (t : List String) : Entry :=
  let attrs := t.take 15
  let (cs, rest) := chunksOfToks (tokNat (t.getD 15 "0")) (t.drop 16)
  { attrs := (attrs.take 5) ++ (attrs.drop 6), mode := tokNat (attrs.getD 2 "0"), mime := tokChars (attrs.getD 5 "-"),
    chunks := cs, tail := rest.take 5 }

def toksOfEntry (e : Entry) : List String :=
  e.attrs.take 5 ++ [hexOfChars e.mime] ++ e.attrs.drop 5 ++ [toString e.chunks.length]
    ++ e.chunks.flatMap (fun c => [hexOfChars c.fileId, tokOfFid c.fid, hexOfChars c.srcFileId, tokOfFid c.srcFid, c.payload])
    ++ e.tail

def setE (l : List (String × Entry)) (k : String) (e : Entry) : List (String × Entry) :=
  (k, e) :: l.filter fun p => p.1 ≠ k

def step (st : St) (n : Nat) (ln0 : Line) : St × List String :=
  -- a `cput <writer> …` line of a concurrent round is one ATOMIC insert for the model
  -- (Props.concurrent_inserts_commute: the order of atomic inserts of distinct paths is irrelevant)
  let conc := ln0.op == "cput"
  let ln : Line := if conc then { ln0 with op := "put", args := ln0.args.drop 1 } else ln0
  let a := ln.args
  let o := ln.outs
  match ln.op with
  | "reset" => ({}, [s!"COV reset.{a.getD 0 ""}"])
  | "concbegin" => (st, ["COV conc.round"])
  | "concend" => (st, [])
  | "put" =>
    let path := a.getD 1 "-"
    let e := entryOfToks (a.drop 2)
    let b := beforeEntry e
    let model := ["ok", toString (firstTag b), "0"]
    -- judge (no_false_gzip): the marshalled entry must not look like gzip
    let j := (if o.getD 2 "0" == "1" then [specfail n "EncodeAttributesAndChunks/looks-like-gzip" path] else [])
      ++ (if conc ∧ o.getD 0 "" != "ok" then [specfail n "InsertEntry/concurrent-insert-fails" path] else [])
    let h := hardLinkId e
    -- spec side: every path that is a link of the same file now denotes the new content
    let shareW := fun (l : List (String × Entry)) => if h == "-" then l else l.map fun p => if hardLinkId p.2 == h then (p.1, e) else p
    let shared := h != "-" && st.written.any fun p => p.1 != path && hardLinkId p.2 == h
    let st' := if o.getD 0 "" == "ok" then
        { st with stored := setE st.stored path b, written := setE (shareW st.written) path e,
                  hl := if h == "-" then st.hl else setE st.hl h b } else st
    let cov := [if e.chunks.length > 50 then "COV put.over-50-chunks" else "COV put.upto-50-chunks", s!"COV put.{a.getD 0 ""}"]
      ++ (if conc then [if e.chunks.length > 50 then "COV conc.put-over-50-chunks" else "COV conc.put-upto-50-chunks"] else [])
      ++ (if e.chunks.any (fun c => c.fileId ≠ [] ∧ (parseFid c.fileId).isNone) then ["COV put.unparseable-file-id"] else [])
      ++ (if e.chunks.any (fun c => c.fileId ≠ [] ∧ canonId c.fileId ≠ c.fileId) then ["COV put.noncanonical-file-id"] else [])
      ++ (if e.chunks.any (fun c => c.fid.isSome ∧ c.fileId = []) then ["COV put.fid-object"] else [])
      ++ (if e.chunks.any (fun c => c.srcFileId ≠ [] ∨ c.srcFid.isSome) then ["COV put.source-fid"] else [])
      ++ (if isDir e then ["COV put.directory"] else [])
      ++ (if e.mime = octetStream then ["COV put.octet-stream"] else [])
      ++ (if (e.tail.getD 3 "-").startsWith "1f8b" then ["COV put.content-gzip-magic"] else [])
      ++ (if e.tail.getD 1 "-" != "-" then ["COV put.hardlink"] else [])
      ++ (if shared then ["COV put.shared-hardlink"] else [])
      ++ (if e.tail.getD 4 "-" != "-" then ["COV put.remote"] else [])
      ++ (if e.tail.getD 0 "-" != "-" then ["COV put.extended"] else [])
    (st', diff n ln model ++ j ++ cov)
  | "find" | "ls" =>
    let isLs := ln.op == "ls"
    let raw := isLs && a.getD 0 "" == "f"
    let path := if isLs then a.getD 1 "-" else a.getD 0 "-"
    let site := if isLs then (if raw then "Filer.ListDirectoryEntries" else "ListDirectoryEntries") else "FindEntry"
    match st.stored.lookup path with
    | none => (st, diff n ln ["notfound"] ++ [s!"COV {ln.op}.absent"])
    | some b =>
      let m := if raw then readRaw b (st.hl.lookup (hardLinkId b)) else readResolved b (st.hl.lookup (hardLinkId b))
      let model := "ok" :: toksOfEntry m
      let j := match st.written.lookup path with
        | none => []
        | some w =>
          if o.getD 0 "" != "ok" then [specfail n (site ++ "/stored-entry-not-returned") path]
          else match readJudge site w (entryOfToks (o.drop 1)) with
            | none => []
            | some cls => [specfail n cls path]
      (st, diff n ln model ++ j ++ [s!"COV {ln.op}.present"] ++ (if raw then ["COV ls.prefixed-path"] else []))
  | _ => (st, [s!"DIFF {n} unknown-op {ln.op}"])

def main : IO Unit := run { init := ({} : St), step := step }
