/- Driver for C15: check every planner run of the harness against the model's guards (DIFF)
   and judge every planned step with the spec (SPECFAIL). -/
import SwV.Common.Drv
import SwV.Model.C15
import SwV.Spec.C15
open SwV.Drv SwV.Model.C15 SwV.Spec.C15

structure St where
  topo : Topo := []

def dtOf (s : String) : Nat := if s == "ssd" then 1 else 0

def parts (s : String) : List String := s.splitOn ":"
def optNat (s : String) : Option Nat := if s == "-" || s == "ALL" then none else s.toNat?

def parseLoc (s : String) : Loc :=
  match s.splitOn "/" with
  | [a, b, c] => ⟨tokNat a, tokNat b, tokNat c⟩
  | _ => ⟨0, 0, 0⟩

def triples (toks : List String) : List (Nat × Nat × Nat) :=
  toks.filterMap fun k => match parts k with
    | [a, b, c] => some (tokNat a, tokNat b, tokNat c)
    | _ => none

def tag (n : Nat) (cls : List String) (detail : String) : List String :=
  (cls.eraseDups).map fun c => specfail n ("C15:" ++ c) detail

def step (st : St) (n : Nat) (ln : Line) : St × List String :=
  let a := ln.args
  let o := ln.outs
  match ln.op with
  | "reset" => ({ topo := [] }, [])
  | "dn" => ({ topo := st.topo ++ [⟨⟨tokNat (a.getD 0 ""), tokNat (a.getD 1 ""), tokNat (a.getD 2 "")⟩, []⟩] }, [])
  | "disk" =>
    let id := tokNat (a.getD 0 "")
    ({ topo := st.topo.map fun s => if s.loc.id == id && (s.disk? (dtOf (a.getD 1 ""))).isNone
        then { s with disks := s.disks ++ [⟨dtOf (a.getD 1 ""), tokNat (a.getD 2 ""), []⟩] } else s }, [])
  | "vol" =>
    let id := tokNat (a.getD 0 ""); let dt := dtOf (a.getD 1 "")
    let v : Vol := ⟨tokNat (a.getD 2 ""), tokNat (a.getD 3 ""), tokNat (a.getD 4 ""), a.getD 5 "" == "1", tokNat (a.getD 6 ""), tokNat (a.getD 7 "")⟩
    ({ topo := st.topo.map fun s => if s.loc.id == id then
        { s with disks := s.disks.map fun d => if d.dt == dt then { d with vols := d.vols ++ [v] } else d } else s }, [])
  | "balance" =>
    let args : BalArgs := ⟨dtOf (a.getD 0 ""), optNat (a.getD 1 ""), optNat (a.getD 2 ""), tokNat (a.getD 3 "")⟩
    let status := o.getD 0 ""
    let steps := triples (o.drop 1)
    let d := match balanceCheck args st.topo status steps with
      | .error e => [s!"DIFF {n} balance {String.intercalate " " a} {e} impl=[{String.intercalate " " o}]"]
      | .ok (k1, k2) =>
        (if status == "panic" then ["COV balance.panic"] else []) ++
        (if k1 > 0 then ["COV balance.writable-move"] else []) ++ (if k2 > 0 then ["COV balance.readonly-move"] else []) ++
        (if k1 + k2 == 0 && status == "ok" then ["COV balance.no-move"] else [])
    let rp0 := steps.any fun (vid, s, _) =>
      match (st.topo.find? (·.loc.id == s)).bind (fun sv => sv.allVols.find? (·.2.vid == vid)) with
      | some (_, v) => v.rp == 0 | none => false
    (st, d ++ tag n (judgeMoves "balance" st.topo st.topo steps) (String.intercalate " " a) ++
      (if rp0 then ["COV balance.move-rp000"] else []) ++ (if steps.any (fun _ => true) && !rp0 then ["COV balance.move-replicated"] else []))
  | "evac" =>
    let id := tokNat (a.getD 0 "")
    let outs : List (Nat × Option Nat) := (o.drop 1).filterMap fun k => match parts k with
      | [v, d] => some (tokNat v, optNat d) | _ => none
    let d := match evacCheck st.topo id (o.getD 0 "") outs with
      | .error e => [s!"DIFF {n} evac {id} {e} impl=[{String.intercalate " " o}]"]
      | .ok k => (if k > 0 then ["COV evac.move"] else []) ++ (if outs.any (·.2.isNone) then ["COV evac.skip"] else [])
    let steps := outs.filterMap fun (v, d) => d.map fun d => (v, id, d)
    (st, d ++ tag n (judgeMoves "evac" st.topo st.topo steps) (a.getD 0 ""))
  | "fix" =>
    let toks : List FixTok := (o.drop 1).filterMap fun k => match parts k with
      | ["c", v, s, d] => some (.copy (tokNat v) (tokNat s) (tokNat d))
      | ["f", v] => some (.fail (tokNat v))
      | ["d", v, x] => some (.del (tokNat v) (tokNat x))
      | _ => none
    let d := match fixCheck st.topo (o.getD 0 "") toks with
      | .error e => [s!"DIFF {n} fix {e} impl=[{String.intercalate " " o}]"]
      | .ok k => ["COV fix." ++ k] ++ (if toks.any (fun k => match k with | .copy _ _ _ => true | _ => false) then ["COV fix.copy"] else [])
          ++ (if toks.any (fun k => match k with | .fail _ => true | _ => false) then ["COV fix.fail"] else [])
    let copies := toks.filterMap fun k => match k with | .copy v s d => some (v, s, d) | _ => none
    (st, d ++ tag n (judgeCopies st.topo st.topo copies) "fix")
  | "good" =>
    let rp := rpOfByte (tokNat (a.getD 0 "")); let src := parseLoc (a.getD 1 ""); let dst := parseLoc (a.getD 2 "")
    let reps := (a.drop 3).map parseLoc
    let m := isGoodMove rp reps src dst
    let impl := o.getD 0 "" == "1"
    let after := adjustReps reps src dst
    let j := if impl && reps.contains dst then ["isGoodMove/two-replicas-on-one-server"]
      else if impl && satisfies rp reps && !satisfies rp after then ["isGoodMove" ++ brokenClass rp] else []
    (st, diff n ln [if m then "1" else "0"] ++ tag n j (String.intercalate " " a) ++ [if m then "COV good.true" else "COV good.false"])
  | "sat" =>
    let rp := rpOfByte (tokNat (a.getD 0 "")); let loc := parseLoc (a.getD 1 "")
    let reps := (a.drop 2).map parseLoc
    let m := satisfyRP rp reps loc
    let impl := o.getD 0 "" == "1"
    let j := if impl && reps.contains loc then ["satisfyReplicaPlacement/two-replicas-on-one-server"]
      else if impl && extendable rp reps && !extendable rp (loc :: reps) then ["satisfyReplicaPlacement/copy-violates-placement"] else []
    (st, diff n ln [if m then "1" else "0"] ++ tag n j (String.intercalate " " a) ++ [if m then "COV sat.true" else "COV sat.false"])
  | _ => (st, [s!"DIFF {n} unknown-op {ln.op}"])

def main : IO Unit := run { init := ({} : St), step := step }
