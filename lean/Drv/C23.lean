/- Driver for C23: recompute every harness line with the model (DIFF) and run the judge
   (reference resolver of the spec) over the implementation's outputs (SPECFAIL). -/
import SwV.Common.Drv
import SwV.Model.C23
import SwV.Spec.C23
open SwV.Drv SwV.Model.C23 SwV.Spec.C23

structure St where
  rules : Rules := []
  ref : RefRules := []
  dels : Nat := 0

def confOfToks (t : List String) : Conf :=
  { collection := tokChars (t.getD 0 "-"), replication := tokChars (t.getD 1 "-"), ttl := tokChars (t.getD 2 "-"),
    diskType := tokChars (t.getD 3 "-"), fsync := t.getD 4 "0" == "1", growth := tokNat (t.getD 5 "0"), readOnly := t.getD 6 "0" == "1" }

def b01 (b : Bool) : String := if b then "1" else "0"

def toksOfConf (c : Conf) : List String :=
  [hexOfChars c.collection, hexOfChars c.replication, hexOfChars c.ttl, hexOfChars c.diskType, b01 c.fsync, toString c.growth, b01 c.readOnly]

def step (st : St) (n : Nat) (ln : Line) : St × List String :=
  let a := ln.args
  let o := ln.outs
  match ln.op with
  | "reset" => ({}, ["COV reset"])
  | "config" => (st, [])
  | "add" =>
    let k := tokChars (a.getD 0 "-")
    let c := confOfToks (a.drop 1)
    match addRule st.rules k c with
    | none => (st, diff n ln ["panic"] ++ ["COV add.empty-prefix"])
    | some rs =>
      let cov := if (st.rules.lookup k).isSome then "COV add.replace" else "COV add.new"
      -- the reference follows what the implementation reported
      let ref := if o == ["ok"] then refAdd st.ref k c else st.ref
      ({ st with rules := rs, ref := ref }, diff n ln ["ok"] ++ [cov])
  | "del" =>
    let k := tokChars (a.getD 0 "-")
    let cov := if (st.rules.lookup k).isSome then "COV del.present" else "COV del.absent"
    ({ st with rules := delRule st.rules k, ref := refDel st.ref k, dels := st.dels + 1 }, diff n ln ["ok"] ++ [cov])
  | "match" =>
    let p := tokChars (a.getD 0 "-")
    let m := matchRule st.rules p
    let impl := confOfToks o
    let j := match matchJudge st.ref p impl with
      | none => []
      | some cls =>
        let cls := if st.dels > 0 then "DeleteLocationConf/settings-not-restored" else cls
        [specfail n cls (a.getD 0 "-")]
    let ms := st.rules.filter fun r => r.1.isPrefixOf p
    let nmatch := ms.length
    let cov := if nmatch = 0 then ["COV match.none"] else if nmatch = 1 then ["COV match.one"] else
      -- nested rules; does a longer rule override a field that a shorter one sets?
      ["COV match.nested"] ++ (if (ms.filter fun r => r.2.collection ≠ []).length ≥ 2 then ["COV match.override"] else [])
    (st, diff n ln (toksOfConf m) ++ j ++ cov ++ (if st.dels > 0 ∧ nmatch > 0 then ["COV match.after-del"] else []))
  | _ => (st, [s!"DIFF {n} unknown-op {ln.op}"])

def main : IO Unit := run { init := ({} : St), step := step }
