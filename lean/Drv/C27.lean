/- Driver for C27: recompute every pagination with the model (DIFF) and run the judges (SPECFAIL). -/
import SwV.Common.Drv
import SwV.Model.C27
import SwV.Spec.C27
open SwV.Drv SwV.Model.C27 SwV.Spec.C27

structure St where
  ks : List (List (List Nat)) := []

def listTok (tag : String) (xs : List (List Nat)) : String :=
  if xs.isEmpty then tag ++ "=-" else tag ++ "=" ++ String.intercalate "," (xs.map hexOfNats)

def parseListTok (t : String) : List (List Nat) :=
  let body := (t.drop 2).toString
  if body == "-" then [] else (body.splitOn ",").map tokBytes

def pageToks (p : Page) : List String :=
  [if p.trunc then "T" else "F", hexOfNats p.next, listTok "K" p.keys, listTok "P" p.pfxs]

partial def parsePages : List String → List Page
  | t :: n :: k :: p :: rest => ⟨t == "T", tokBytes n, parseListTok k, parseListTok p⟩ :: parsePages rest
  | _ => []

def judgeOut (n : Nat) (j : Option String) (detail : String) : List String :=
  match j with
  | none => []
  | some cls => [specfail n cls detail]

def step (st : St) (n : Nat) (ln : Line) : St × List String :=
  let a := ln.args
  let o := ln.outs
  match ln.op with
  | "reset" =>
    let ks := a.map fun t => splitSlash (tokBytes t)
    ({ ks := ks }, diff n ln ["ok"] ++ ["COV reset"])
  | "walk" =>
    let contNext := a.getD 1 "" == "next"
    let pfx := tokBytes (a.getD 2 "-")
    let delimSlash := tokBytes (a.getD 3 "-") == [slash]
    let maxKeys := tokNat (a.getD 4 "0")
    let marker0 := tokBytes (a.getD 5 "-")
    let maxSteps := tokNat (a.getD 6 "1")
    let (pages, ksAfter) := walk pfx maxKeys delimSlash contNext maxSteps st.ks marker0
    let model := "ok" :: pages.flatMap pageToks ++ [s!"N={ksAfter.length}"]
    let implN := tokNat ((o.getLast?.getD "N=0").drop 2).toString
    let delOut := if o.getD 0 "" == "ok" ∧ implN < st.ks.length then [specfail n "isDirectoryAllEmpty/listing-deletes-non-empty-directory" (String.intercalate " " a)] else []
    let ipages := parsePages (o.drop 1)
    let detail := String.intercalate " " a
    let pj := (ipages.zip (marker0 :: ipages.map fun p => if contNext then p.next else (p.keys.getLast?.getD []))).filterMap
      fun (p, m) => pageJudge st.ks pfx delimSlash maxKeys m p
    let pjOut : List String := match pj with | c :: _ => [specfail n c detail] | [] => []
    let wj : Option String := if o.getD 0 "" == "ok" ∧ marker0 == [] ∧ maxSteps > 1 then walkJudge st.ks pfx delimSlash contNext maxKeys ipages else none
    let rj : Option String := if o.getD 0 "" == "ok" ∧ marker0 != [] ∧ maxSteps > 1 then resumeJudge st.ks pfx delimSlash contNext maxKeys ipages else none
    let x := excl st.ks pfx
    let cov := (if pages.length > 1 then ["COV walk.multi-page"] else ["COV walk.single-page"])
      ++ (if delimSlash then ["COV walk.delim-slash"] else ["COV walk.delim-none"])
      ++ (if contNext then ["COV walk.cont-next"] else ["COV walk.cont-last"])
      ++ (if marker0 != [] then ["COV walk.arbitrary-marker"] else [])
      ++ (if marker0 != [] ∧ pages.length > 1 then ["COV walk.start-after-continued"] else [])
      ++ (if a.getD 0 "" == "v2b" then ["COV walk.start-after-resent-with-token"] else [])
      ++ (if a.getD 0 "" == "v2b" ∧ pages.any (fun p => p.trunc && SwV.Model.C19.ltB p.next marker0) then ["COV walk.resent-token-below-start-after"] else [])
      ++ (if st.ks.length > 1024 then ["COV walk.big-directory"] else [])
      ++ (if x.uploadsInWindow then ["COV walk.uploads-in-window"] else [])
      ++ (if x.prefixHasDir then ["COV walk.prefix-has-dir"] else [])
      ++ (if x.deepKeys then ["COV walk.deep-keys"] else [])
      ++ (if pages.any (fun p => !p.pfxs.isEmpty) then ["COV walk.common-prefixes"] else [])
      ++ (if wj.isNone && rj.isNone && pjOut.isEmpty && decide (pages.length > 1) then ["COV walk.multi-page-clean"] else [])
    ({ ks := ksAfter }, diff n ln model ++ pjOut ++ judgeOut n wj detail ++ judgeOut n rj detail ++ delOut ++ cov)
  | _ => (st, [s!"DIFF {n} unknown-op {ln.op}"])

def main : IO Unit := run { init := ({} : St), step := step }
