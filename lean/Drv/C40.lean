/- Driver for C40: recompute every harness line with the model (DIFF) and run the judge (SPECFAIL). -/
import SwV.Common.Drv
import SwV.Model.C40
import SwV.Spec.C40
open SwV.Drv SwV.Model.C33 SwV.Model.C40 SwV.Spec.C40

structure St where
  w : World := ⟨[], []⟩
  opId : Nat := 0

/-- gzip is symbolic in the driver: magic ++ payload -/
def symCodec : Codec :=
  { gzip := fun x => 31 :: 139 :: x,
    gunzip := fun x => match x with | 31 :: 139 :: r => some r | _ => none,
    enc := id, dec := some }

def b01 (b : Bool) : String := if b then "1" else "0"

def lmTok (opTs : Nat) (primary : Option LM) (l : LM) : String :=
  match l with
  | .given n => if opTs ≠ 0 ∧ n = opTs % 2 ^ 40 then toString n else if primary = some l then "p" else "o"
  | .now _ => if primary = some l then "p" else "o"

def dumpNodes (nodes : List Node) (k opTs : Nat) : List String :=
  let primary := (nodes.headD []).get k |>.map (·.lm)
  nodes.flatMap fun nd =>
    match nd.get k with
    | none => ["absent"]
    | some r => ["present", hexOfNats (decoded symCodec r), b01 r.compressed, hexOfChars r.name, hexOfChars r.mime, r.pairs,
                 lmTok opTs primary r.lm, hexOfChars r.ttl, b01 r.cm]

def parseDumps : List String → List Dump
  | "absent" :: rest => ⟨false, "", "", "", "", "", "", ""⟩ :: parseDumps rest
  | "present" :: c :: _ :: nm :: mi :: ps :: lm :: ttl :: cm :: rest => ⟨true, c, nm, mi, ps, lm, ttl, cm⟩ :: parseDumps rest
  | _ => []

def statusTok : Status → String
  | .created => "created" | .unchanged => "unchanged" | .deleted => "deleted" | .notfound => "notfound" | .err => "err"

def setAt (l : List Nat) (i v : Nat) : List Nat := l.mapIdx fun j x => if j = i then v else x

def step (st : St) (n : Nat) (ln : Line) : St × List String :=
  let a := ln.args
  let o := ln.outs
  match ln.op with
  | "reset" =>
    let k := tokNat (a.getD 0 "2")
    ({ w := ⟨List.replicate k [], List.replicate k 0⟩, opId := 0 }, diff n ln ["ok"] ++ [s!"COV reset.{k}"])
  | "fault" =>
    let m := tokNat (a.getD 1 "0")
    ({ st with w := { st.w with faults := setAt st.w.faults (tokNat (a.getD 0 "")) m } }, diff n ln ["ok"] ++ [s!"COV fault.{m}"])
  | "up" =>
    let key := tokNat (a.getD 0 "")
    let ts := tokNat (a.getD 3 "0")
    let gz := a.getD 6 "" == "1"
    let payload := tokBytes (a.getD 8 "-")
    let opId := st.opId + 1
    let q : Req := { name := tokChars (a.getD 1 "-"), ctype := tokChars (a.getD 2 "-"), lm := if ts = 0 then .now opId else .given ts,
                     ttl := tokChars (a.getD 4 "-"), pairs := a.getD 5 "-", gz := gz, cm := a.getD 7 "" == "1",
                     body := if gz then symCodec.gzip payload else payload, extMime := tokChars (a.getD 10 "-") }
    let s : Sniff := ⟨tokChars (a.getD 9 "-"), tokChars (a.getD 10 "-"), a.getD 11 "" == "1"⟩
    let before := st.w
    let (w', status) := upload symCodec s st.w key q
    let model := statusTok status :: dumpNodes w'.nodes key ts
    let ok := o.getD 0 "" == "created" || o.getD 0 "" == "unchanged"
    let j := match agreeJudge "ReplicatedWrite" ok (o.getD 0 "" == "unchanged") (parseDumps (o.drop 1)) with
      | none => []
      | some cls => [specfail n cls s!"key={key}"]
    let fwd := forward symCodec s (createNeedle q)
    let cov := [s!"COV up.{statusTok status}"] ++
      (if fwd.gz && !q.gz then ["COV up.forward-gzips"] else []) ++
      (if fwd.ctype ≠ (createNeedle q).mime then ["COV up.forward-changes-content-type"] else []) ++
      (if status == .unchanged ∧ (before.nodes.any fun nd => (nd.get key).isNone) then ["COV up.unchanged-on-primary-only"] else []) ++
      (if q.cm then ["COV up.chunk-manifest"] else []) ++ (if q.ttl ≠ [] then ["COV up.ttl"] else []) ++ (if q.pairs ≠ "-" then ["COV up.pairs"] else []) ++
      (if ts = 0 then ["COV up.server-clock"] else [])
    ({ w := w', opId := opId }, diff n ln model ++ j ++ cov)
  | "del" =>
    let key := tokNat (a.getD 0 "")
    let (w', status) := delete st.w key
    let model := statusTok status :: dumpNodes w'.nodes key 0
    let j := match agreeJudge "ReplicatedDelete" (o.getD 0 "" == "deleted") false (parseDumps (o.drop 1)) with
      | none => []
      | some cls => [specfail n cls s!"key={key}"]
    ({ st with w := w' }, diff n ln model ++ j ++ [s!"COV del.{statusTok status}"])
  | _ => (st, [s!"DIFF {n} unknown-op {ln.op}"])

def main : IO Unit := run { init := ({} : St), step := step }
