/- Driver for C11: model vs implementation on every trace line (DIFF) + the writable/lookup judge (SPECFAIL). -/
import SwV.Common.Drv
import SwV.Spec.C11Run
open SwV.Drv SwV.Model.C11 SwV.Spec.C11 SwV.Spec.C11Run

def judge (o : Obs) (d : DSt) : List (String × String) :=
  judgeC11 o d.st.limit d.st.asMin d.st.nVid d.knownFull d.staleEc d.told d.overCls

def main : IO Unit := run { init := ({} : DSt), step := stepWith judge }
