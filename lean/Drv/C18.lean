/- Driver for C18 (namespace tree): model recomputation (DIFF) + the C18 judge (SPECFAIL). -/
import SwV.Common.Drv
import SwV.Model.C18
import SwV.Spec.C18Run
import SwV.Spec.C18
open SwV.Drv SwV.Model.C18 SwV.Spec.C18Run

def main : IO Unit := run { init := ({} : St), step := drvStepL SwV.Spec.C18.judge SwV.Spec.C18.judgeRenameLate }
