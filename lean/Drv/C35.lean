/- Driver for C35: recompute every harness line with the backing-array model (DIFF) and judge the
   implementation's answers against the reference set (SPECFAIL). -/
import SwV.Common.Drv
import SwV.Model.C35
import SwV.Spec.C35
open SwV.Drv SwV.Model.C35 SwV.Spec.C35

structure DSt where
  st : St := {}
  dc : String := ""
  ref : Ref := fun _ => none
  snap : List Loc := []
  delSince : List String := []
  holdVid : Option Nat := none

def tokDc (s : String) : String := if s == "-" then "" else s
def dcTok (s : String) : String := if s == "" then "-" else s
def entryTok (l : Loc) : String := l.url ++ "@" ++ dcTok l.dc
def urlOfEntry (s : String) : String := (s.splitOn "@").headD ""

def judgeOut (n : Nat) (j : Option String) (detail : String) : List String :=
  match j with
  | none => []
  | some cls => [specfail n cls detail]

def step (d : DSt) (n : Nat) (ln : Line) : DSt × List String :=
  let a := ln.args
  let o := ln.outs
  match ln.op with
  | "reset" => ({ dc := tokDc (a.getD 0 "-") }, ["COV reset"])
  | "add" =>
    let vid := tokNat (a.getD 0 "0"); let loc : Loc := ⟨a.getD 1 "", tokDc (a.getD 2 "-")⟩
    let cov := match d.st.vids vid with
      | none => "COV add.new-volume"
      | some c => if hasUrl c.view loc.url then "COV add.duplicate" else if (c.add loc).2 then "COV add.grow" else "COV add.in-place"
    ({ d with st := addLocation d.st vid loc, ref := refAdd d.ref vid loc }, diff n ln [] ++ [cov])
  | "del" =>
    let vid := tokNat (a.getD 0 "0"); let u := a.getD 1 ""
    let cov := match d.st.vids vid with
      | none => "COV del.unknown-volume"
      | some c => if hasUrl c.view u then (if (c.view.getLast?.map (·.url)) == some u then "COV del.last" else "COV del.shift") else "COV del.absent"
    let ds := if d.holdVid == some vid then u :: d.delSince else d.delSince
    ({ d with st := deleteLocation d.st vid u, ref := refDel d.ref vid u, delSince := ds }, diff n ln [] ++ [cov])
  | "locs" =>
    let vid := tokNat (a.getD 0 "0")
    let model := match d.st.vids vid with
      | none => ["notfound"]
      | some c => ["found", toString c.len, toString c.arr.length] ++ c.view.map entryTok
    let impl : Option (List String) := if o.getD 0 "" == "found" then some ((o.drop 3).map urlOfEntry) else none
    let cov := match d.st.vids vid with
      | none => "COV locs.notfound" | some c => if c.len = 0 then "COV locs.found-empty" else "COV locs.found"
    (d, diff n ln model ++ judgeOut n (setJudge "GetLocations" (d.ref vid) impl) (a.getD 0 "") ++ [cov])
  | "lookup" =>
    let vid := tokNat (a.getD 0 "0")
    let model := match lookupUrls d.st d.dc vid with
      | none => ["err"]
      | some us => "ok" :: us
    let impl : Option (List String) := if o.getD 0 "" == "ok" then some (o.drop 1) else none
    let refl := (d.ref vid).getD []
    let j2 := match impl with | some got => dcFirstJudge d.dc refl got | none => none
    let mixed := refl.any (sameDc d.dc) && refl.any (fun l => !sameDc d.dc l)
    (d, diff n ln model ++ judgeOut n (setJudge "LookupVolumeServerUrl" (d.ref vid) impl) (a.getD 0 "") ++ judgeOut n j2 (a.getD 0 "")
        ++ [if mixed then "COV lookup.mixed-dc" else "COV lookup.plain"])
  | "hold" =>
    let vid := tokNat (a.getD 0 "0")
    let st' := hold d.st vid
    let model := match d.st.vids vid with | none => ["notfound"] | some c => ["found", toString c.len]
    ({ d with st := st', snap := (getLocations d.st vid).getD [], delSince := [], holdVid := if (d.st.vids vid).isSome then some vid else none },
      diff n ln model ++ ["COV hold"])
  | "peek" =>
    let m := peek d.st
    let now := o.map urlOfEntry
    let cov := if m == d.snap then "COV peek.unchanged" else "COV peek.changed"
    let cov2 := if d.delSince.isEmpty then [] else ["COV peek.after-del"]
    (d, diff n ln (m.map entryTok) ++ judgeOut n (heldJudge d.snap d.delSince now) (String.intercalate "," o) ++ [cov] ++ cov2)
  | "conc" =>
    -- concurrent adders on a fresh volume: the model runs the ATOMIC steps (any order gives the same set)
    let ents : List Loc := (a.drop 1).map fun e => match e.splitOn "@" with
      | [u, dc] => (⟨u, tokDc dc⟩ : Loc) | _ => ⟨e, ""⟩
    let stm := ents.foldl (fun st l => addLocation st 0 l) ({} : St)
    let want := (getLocations stm 0).getD []
    let sorted := (want.map entryTok).mergeSort (fun x y => decide (x ≤ y))
    let model := ["final"] ++ sorted ++ ["|", "anomalies"]
    let implFinal := ((o.drop 1).takeWhile (· != "|")).map urlOfEntry
    let anomalies := (o.dropWhile (· != "anomalies")).drop 1
    let j1 := judgeOut n (setJudge "ConcurrentAdd" (some want) (some implFinal)) (String.intercalate "," implFinal)
    let wantUrls := want.map (·.url)
    let j2 := anomalies.flatMap fun t =>
      let us := t.splitOn ","
      if hasDup us then [specfail n "ConcurrentLookup/duplicate-location" t]
      else if us.all (wantUrls.contains ·) then [] else [specfail n "ConcurrentLookup/not-the-added-set" t]
    let cov := if want.length = 1 then "COV conc.same-url" else if want.length = ents.length then "COV conc.distinct" else "COV conc.overlap"
    (d, diff n ln model ++ j1 ++ j2 ++ [cov])
  | _ => (d, [s!"DIFF {n} unknown-op {ln.op}"])

def main : IO Unit := run { init := ({} : DSt), step := step }
