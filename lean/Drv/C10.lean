/- Driver for C10: the tree is rebuilt from the `node` lines (DIFF on every level's AvailableSpaceFor),
   every `grow` answer of the implementation is judged with the spec predicate (SPECFAIL), and for
   errors the model is run over a family of oracles to see whether the same stage is reachable. -/
import SwV.Common.Drv
import SwV.Model.C10
import SwV.Spec.C10
open SwV.Drv SwV.Model.C10 SwV.Spec.C10

structure DSt where
  tree : Tree := []

def insertNode (tr : Tree) (d k : Nat) (n : DN) : Tree :=
  let rid := d * 10 + k
  let addRack (rs : List Rack) : List Rack :=
    if rs.any (fun r => r.id == rid) then rs.map fun r => if r.id == rid then { r with nodes := r.nodes ++ [n] } else r
    else rs ++ [⟨rid, [n]⟩]
  if tr.any (fun x => x.id == d) then tr.map fun x => if x.id == d then { x with racks := addRack x.racks } else x
  else tr ++ [⟨d, addRack []⟩]

def pPath (s : String) : Path :=
  match (s.splitOn ".").map tokNat with
  | [d, k, n] => (d, d * 10 + k, d * 100 + k * 10 + n)
  | _ => (0, 0, 0)

def optTok (s : String) (f : List Nat → Nat) : Option Nat :=
  if s == "-" then none else some (f ((s.splitOn ".").map tokNat))

def lcg (x : Nat) : Nat := (x * 6364136223846793005 + 1442695040888963407) % 18446744073709551616
def oracleOf (seed len : Nat) : Oracle :=
  ((List.range len).foldl (fun (acc : Nat × List Nat) _ => let y := lcg acc.1; (y, (y / 65536) % 100000 :: acc.2)) (seed, [])).2

def stageStr : Stage → String
  | .few => "few" | .nomatch => "nomatch" | .reserve => "reserve"

def step (st : DSt) (n : Nat) (ln : Line) : DSt × List String :=
  let a := fun i => ln.args.getD i "-"
  let o := ln.outs
  match ln.op with
  | "reset" => ({}, ["COV reset"])
  | "node" =>
    let d := tokNat (a 0); let k := tokNat (a 1); let i := tokNat (a 2)
    let c := fun j => (tokInt (a j))
    let dn : DN := ⟨d * 100 + k * 10 + i, ⟨c 3, c 4, c 5, c 6⟩, ⟨c 7, c 8, c 9, c 10⟩⟩
    let tr := insertNode st.tree d k dn
    let dc := (tr.find? fun x => x.id == d).getD default
    let rk := (dc.racks.find? fun r => r.id == d * 10 + k).getD default
    let model := [toString (dn.avail 0), toString (dn.avail 1), toString (rk.avail 0), toString (rk.avail 1),
                  toString (dc.avail 0), toString (dc.avail 1), toString (availC (treeCnt tr 0)), toString (availC (treeCnt tr 1))]
    let tight := if dn.avail 0 ≤ 0 ∧ rk.avail 0 > 0 then ["COV node.full-in-roomy-rack"] else []
    ({ tree := tr }, diff n ln model ++ ["COV node"] ++ tight)
  | "grow" =>
    let rp := (a 0).toList.map fun ch => ch.toNat - 48
    let op : Opt := { x := rp.getD 0 0, y := rp.getD 1 0, z := rp.getD 2 0, disk := tokNat (a 1),
                      dc := optTok (a 2) (fun l => l.getD 0 0),
                      rack := optTok (a 3) (fun l => l.getD 0 0 * 10 + l.getD 1 0),
                      node := optTok (a 4) (fun l => l.getD 0 0 * 100 + l.getD 1 0 * 10 + l.getD 2 0) }
    let pref := (if op.dc.isSome then ["COV grow.pref-dc"] else []) ++ (if op.rack.isSome then ["COV grow.pref-rack"] else [])
      ++ (if op.node.isSome then ["COV grow.pref-node"] else [])
    -- oracle-independent facts of the first PickNodesByWeight: every oracle gives this outcome
    let cands := st.tree.filter fun d => d.avail op.disk > 0
    let forced : Option String :=
      if cands.length < op.x + 1 then some "few"
      else if !(cands.any (dcFilter op)) then some "nomatch" else none
    let implStage := match o with | "ok" :: _ => "ok" | "err" :: s :: _ => s | _ => "?"
    let fdiff := match forced with
      | some s => if implStage == s then ["COV grow.forced-" ++ s] else [s!"DIFF {n} grow {ln.args} model: every oracle gives err {s}; impl={o}"]
      | none => []
    let fam := (List.range 40).map fun i => findEmptySlots st.tree op (oracleOf (n * 131 + i) 64)
    match o with
    | "ok" :: ps =>
      let servers := ps.map pPath
      let j := match placementJudge st.tree op servers with
        | none => []
        | some cls => [specfail n s!"findEmptySlots/{cls}" (toString ln.args ++ " => " ++ toString ps)]
      -- some oracle of the family reproduces a success (sanity of the model's success path)
      let okSeen := fam.any fun r => match r with | .ok _ => true | _ => false
      let exact := fam.any fun r => r == .ok servers
      (st, fdiff ++ j ++ ["COV grow.ok"] ++ (if exact then ["COV ok.reproduced-by-an-oracle"] else ["COV ok.not-reproduced-in-sample"]) ++ (if op.x > 0 then ["COV ok.x>0"] else []) ++ (if op.y > 0 then ["COV ok.y>0"] else [])
        ++ (if op.z > 0 then ["COV ok.z>0"] else []) ++ (if okSeen then ["COV ok.model-agrees"] else ["COV ok.model-not-sampled"])
        ++ (if op.dc.isSome || op.rack.isSome || op.node.isSome then ["COV ok.with-preference"] else []) ++ pref)
    | "err" :: stage :: ps =>
      -- an error must not carry a complete valid placement claim; the partial list is ignored by the caller
      let explained := fam.any fun r =>
        match r with
        | .err s _ => stageStr s == stage
        | _ => false
      -- oracle-independent check: when the model fails for EVERY sampled oracle with one stage at the top level and the
      -- implementation reports another top-level stage, that is a difference
      (st, fdiff ++ ["COV grow.err." ++ stage] ++ (if explained then ["COV err.explained"] else ["COV err.unexplained"])
        ++ (if ps.isEmpty then [] else ["COV err.partial-list"]) ++ pref)
    | ["panic"] => (st, [specfail n "findEmptySlots/panic" (toString ln.args)])
    | _ => (st, [s!"DIFF {n} grow unparsable {o}"])
  | _ => (st, [s!"DIFF {n} unknown-op {ln.op}"])

def main : IO Unit := run { init := ({} : DSt), step := step }
