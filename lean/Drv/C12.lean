/- Driver for C12: model vs implementation on every trace line (DIFF) + the recount judge (SPECFAIL). -/
import SwV.Common.Drv
import SwV.Spec.C11Run
open SwV.Drv SwV.Model.C11 SwV.Spec.C11 SwV.Spec.C11Run

def judge (o : Obs) (d : DSt) : List (String × String) :=
  SwV.Spec.C12.judgeC12 o d.place d.declMax

def main : IO Unit := run { init := ({} : DSt), step := stepWith judge }
