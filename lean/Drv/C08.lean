/- Driver for C08: recompute every harness line with the model (DIFF) and run the judges (SPECFAIL). -/
import SwV.Common.Drv
import SwV.Model.C08
import SwV.Spec.C08
import SwV.Gen.C08
open SwV.Drv SwV.Model.C08 SwV.Spec.C08

structure St where
  offsetSize : Nat := 4
  padding : Nat := 8

def judgeOut (n : Nat) (j : Option String) (detail : String) : List String :=
  match j with
  | none => []
  | some cls => [specfail n cls detail]

def step (st : St) (n : Nat) (ln : Line) : St × List String :=
  let a := ln.args
  let o := ln.outs
  match ln.op with
  | "config" => ({ offsetSize := tokNat (a.getD 0 "4"), padding := tokNat (a.getD 1 "8") }, ["COV config"])
  | "rp_str" =>
    let s := tokChars (a.getD 0 "-")
    let (rp, ok) := rpFromString s
    let model := [okErr ok, toString rp.dc, toString rp.rack, toString rp.same, toString (rpByte rp), hexOfChars (rpString rp)]
    let iok := o.getD 0 "" == "ok"
    let irp : RP := ⟨tokNat (o.getD 1 ""), tokNat (o.getD 2 ""), tokNat (o.getD 3 "")⟩
    (st, diff n ln model ++ judgeOut n (rpStrJudge s iok irp) (a.getD 0 "") ++ [if ok then "COV rp_str.ok" else "COV rp_str.err"])
  | "rp_byte" =>
    let b := tokNat (a.getD 0 "")
    let (rp, ok) := rpFromByte b
    let model := [okErr ok, toString rp.dc, toString rp.rack, toString rp.same, toString (rpByte rp)]
    let iok := o.getD 0 "" == "ok"
    let irp : RP := ⟨tokNat (o.getD 1 ""), tokNat (o.getD 2 ""), tokNat (o.getD 3 "")⟩
    (st, diff n ln model ++ judgeOut n (rpByteJudge b iok irp) (a.getD 0 "") ++ [if ok then "COV rp_byte.ok" else "COV rp_byte.err"])
  | "ttl_read" =>
    let s := tokChars (a.getD 0 "-")
    let (t, ok) := readTTL s
    let model := [okErr ok, toString t.count, toString t.unit, hexOfChars (ttlString t), toString (ttlToUint32 t), toString (ttlMinutes t)]
    let iok := o.getD 0 "" == "ok"
    let it : TTL := ⟨tokNat (o.getD 1 ""), tokNat (o.getD 2 "")⟩
    -- tie to the regenerated translations of TTL.String/ToUint32/Minutes
    let gen := [hexOfStr (SwV.Gen.C08.TTL_String t.count t.unit), toString (SwV.Gen.C08.TTL_ToUint32 t.count t.unit), toString (SwV.Gen.C08.TTL_Minutes t.count t.unit)]
    let gdiff := if gen == o.drop 3 then [] else [s!"DIFF {n} ttl_read(gen) gen={gen} impl={o.drop 3}"]
    (st, diff n ln model ++ gdiff ++ judgeOut n (ttlReadJudge s iok it) (a.getD 0 "")
      ++ [if ok then "COV ttl_read.ok" else "COV ttl_read.err"] ++ (if (ttlDenotation s).isSome then ["COV ttl_read.in-grammar"] else ["COV ttl_read.outside-grammar"]))
  | "ttl_u32" =>
    let t := loadTTLFromUint32 (tokNat (a.getD 0 ""))
    let model := [toString t.count, toString t.unit, hexOfChars (ttlString t), toString (ttlToUint32 t)]
    (st, diff n ln model ++ ["COV ttl_u32"])
  | "ttl_bytes" =>
    let t := loadTTLFromBytes (tokNat (a.getD 0 "")) (tokNat (a.getD 1 ""))
    let model := [toString t.count, toString t.unit, toString t.count, toString t.unit]
    -- judge: bytes round-trip
    let j := if o.getD 2 "" == a.getD 0 "" ∧ o.getD 3 "" == a.getD 1 "" then [] else [specfail n "ttl/bytes-not-roundtrip" (toString a)]
    (st, diff n ln model ++ j ++ ["COV ttl_bytes"])
  | "sec2ttl" =>
    let s := tokInt (a.getD 0 "")
    let model := [hexOfStr (SwV.Gen.C08.SecondsToTTL s)]
    (st, diff n ln model ++ ["COV sec2ttl"])
  | "fid_fmt" =>
    let f : Fid := ⟨tokNat (a.getD 0 ""), tokNat (a.getD 1 ""), tokNat (a.getD 2 "")⟩
    let model := [hexOfChars (fidString f)]
    -- judge: the IMPLEMENTATION's string decodes (by the spec's denotation) to the same id; key 0 is outside the domain
    let j := if f.key = 0 then [] else
      match fidDenotation (tokChars (o.getD 0 "-")) with
      | some d => if d = f then [] else [specfail n "fid/format-denotes-other-value" (toString a)]
      | none => [specfail n "fid/format-not-parseable" (toString a)]
    (st, diff n ln model ++ j ++ [if f.key = 0 then "COV fid_fmt.key0" else "COV fid_fmt"])
  | "fid_parse" =>
    let s := tokChars (a.getD 0 "-")
    let r := parseFid s
    let model := match r with
      | none => ["err"]
      | some f => ["ok", toString f.vid, toString f.key, toString f.cookie]
    let ir : Option Fid := if o.getD 0 "" == "ok" then some ⟨tokNat (o.getD 1 ""), tokNat (o.getD 2 ""), tokNat (o.getD 3 "")⟩ else none
    (st, diff n ln model ++ judgeOut n (fidParseJudge s ir) (a.getD 0 "") ++ [if r.isSome then "COV fid_parse.ok" else "COV fid_parse.err"])
  | "idx_entry" =>
    let key := tokNat (a.getD 0 ""); let actual := tokNat (a.getD 1 ""); let size := tokInt (a.getD 2 "")
    let bs := idxEntryBytes st.padding st.offsetSize key actual size
    let (k, off, sz) := idxEntryParse st.padding st.offsetSize bs
    let model := [hexOfNats bs, toString k, toString off, toString sz]
    -- judge: round trip of the implementation's outputs for in-range, aligned offsets
    let inRange := actual % st.padding = 0 ∧ actual / st.padding < 256 ^ st.offsetSize
    let j := if !inRange then [] else
      if o.getD 1 "" == a.getD 0 "" ∧ o.getD 2 "" == a.getD 1 "" ∧ o.getD 3 "" == a.getD 2 "" then [] else [specfail n "idx/entry-not-roundtrip" (toString a)]
    (st, diff n ln model ++ j ++ [if inRange then "COV idx_entry.in-range" else "COV idx_entry.out-of-range"])
  | "sb" =>
    let ver := tokNat (a.getD 0 ""); let rpb := tokNat (a.getD 1 "")
    let extra := tokBytes (a.getD 5 "-")
    match rpFromByte rpb with
    | (_, false) => (st, diff n ln ["badrp"])
    | (rp, true) =>
      let sb : SuperBlock := ⟨ver, rp, loadTTLFromBytes (tokNat (a.getD 2 "")) (tokNat (a.getD 3 "")), tokNat (a.getD 4 ""), extra⟩
      let bs := sbBytes sb
      let model := match sbRead bs with
        | none => [hexOfNats bs, "err"]
        | some g => [hexOfNats bs, "ok", toString g.version, toString (rpByte g.rp), toString g.ttl.count, toString g.ttl.unit, toString g.rev,
                     hexOfNats g.extra, toString (sbBlockSize g.version g.extra.length)]
      -- judge: the implementation read back what was written
      let want := ["ok", toString (ver % 256), toString rpb, toString sb.ttl.count, toString sb.ttl.unit, toString sb.rev, hexOfNats extra]
      let j := if (o.drop 1).take 7 == want then [] else [specfail n "sb/not-roundtrip" (toString (a.take 5))]
      (st, diff n ln model ++ j ++ [if extra.isEmpty then "COV sb.plain" else "COV sb.extra"])
  | _ => (st, [s!"DIFF {n} unknown-op {ln.op}"])

def main : IO Unit := run { init := ({} : St), step := step }
