/- Driver for C04: recompute every harness line with the model (DIFF) and run the judge over the
   implementation's reads after each commit (SPECFAIL).  LastModified travels as an age relative to
   the harness's `reset` time; the driver fixes that time to `baseSec`. -/
import SwV.Common.Drv
import SwV.Model.C01Codec
import SwV.Model.C04
import SwV.Spec.C04
open SwV.Drv SwV.Model.C01 SwV.Model.C04 SwV.Spec.C04 SwV.Codec.C01

namespace DrvC04

def baseSec : Nat := 2000000000
def nsOf (n : Nat) : Nat := baseSec * 1000000000 + n

structure St where
  s : CVol := {}
  pre : Option CVol := none     -- model state right before the last commit (until the next mutation)
  alg : Nat := 2

/-- age token → absolute LastModified.  The token is the age in seconds as a uint64: a modification
    time AHEAD of the harness clock (client clock ahead of the server's) is a negative age, i.e. a
    token ≥ 2^63 (two's complement). -/
def absOfAge (a : Nat) : Nat := if a < 2 ^ 63 then baseSec - a else baseSec + (2 ^ 64 - a)
/-- absolute LastModified → age token -/
def ageOfAbs (l : Nat) : Nat := if l ≤ baseSec then baseSec - l else 2 ^ 64 - (l - baseSec)

def lmConv (c : Content) : Content := if c.fl.hasLm then { c with lm := absOfAge c.lm } else c
def lmConvBack (c : Content) : Content := if c.fl.hasLm then { c with lm := ageOfAbs c.lm } else c

/-- model output (absolute) → trace tokens (age) -/
def rConv : ROut → ROut
  | .ok n ck sz c => .ok n ck sz (lmConvBack c)
  | o => o
/-- trace tokens (age) → absolute -/
def rConvIn : ROut → ROut
  | .ok n ck sz c => .ok n ck sz (lmConv c)
  | o => o

def keysTok (l : List IEnt) : String :=
  if l.isEmpty then "-" else String.intercalate "," (l.map fun e => toString e.key)

def parseKeys (t : String) : List Nat :=
  if t == "-" then [] else (t.splitOn ",").map tokNat

def viewOfOuts (o : List String) : Option Content :=
  match rConvIn (rOfToks o) with
  | .ok _ _ _ c => some c
  | _ => none

def stepLine (st : St) (n : Nat) (ln : Line) : St × List String :=
  let a := ln.args
  let s := st.s
  match ln.op with
  | "reset" =>
    let ttl := ttlOfTok (a.getD 1 "-")
    let kind := if a.getD 0 "mem" == "ldb" then Kind.ldb else Kind.mem
    ({ s := CVol.init kind ttl }, diff n ln ["ok"] ++ [s!"COV reset.{a.getD 0 "mem"}"] ++ (if ttl ≠ (0, 0) then ["COV reset.ttl-volume"] else []))
  | "w" =>
    let id := tokNat (a.getD 0 "0"); let ck := tokNat (a.getD 1 "0")
    let c := lmConv (contentOfToks (a.drop 2))
    let (s', mo) := opStep s (nsOf n) (.write id ck c)
    let cov := (if s.snap.isSome then ["COV w.during-compaction"] else []) ++
      (if c.data = "" then ["COV w.empty"] else []) ++ (if (inheritTtl s.v.volTtl c).fl.hasTtl then ["COV w.ttl"] else []) ++
      (if (inheritTtl s.v.volTtl c).fl.hasTtl ∧ c.fl.hasLm ∧ baseSec < c.lm ∧ s.v.volTtl ≠ (0, 0) then ["COV w.ttl-lm-ahead-of-clock"] else [])
    ({ st with s := s', pre := none }, diff n ln (mToks mo) ++ cov)
  | "d" =>
    let id := tokNat (a.getD 0 "0"); let ck := tokNat (a.getD 1 "0")
    let (s', mo) := opStep s (nsOf n) (.delete id ck)
    let cov := if s.snap.isSome ∧ s'.ilog.length ≠ s.ilog.length then ["COV d.during-compaction"] else []
    ({ st with s := s', pre := none }, diff n ln (mToks mo) ++ cov)
  | "r" =>
    let id := tokNat (a.getD 0 "0"); let ck := tokNat (a.getD 1 "0")
    let mo := rConv (readT s (nsOf n) id ck)
    let j := match st.pre with
      | none => []
      | some pre =>
        match classify pre s st.alg baseSec (nsOf n) id (viewOfOuts ln.outs) with
        | none => ["COV r.after-commit-same"] ++
            (match view pre (nsOf n) id with
             | some (_, c) => if c.fl.hasTtl ∧ c.fl.hasLm ∧ baseSec < c.lm ∧ pre.v.volTtl ≠ (0, 0) then ["COV r.after-commit-ttl-lm-ahead-kept"] else []
             | none => [])
        | some cls => [specfail n cls s!"r {id} alg={st.alg}"]
    let cov := match mo with
      | .ok cnt .. => if cnt = 0 then "COV r.empty" else "COV r.data"
      | .notfound => "COV r.notfound" | .deleted => "COV r.deleted" | .ioerr => "COV r.ioerr"
    (st, diff n ln (rToks mo) ++ j ++ [cov])
  | "compact" =>
    let alg := tokNat (a.getD 0 "2")
    let s' := compact s alg baseSec
    let dropped := (olog s).any fun p => dropsTtl s baseSec p.2.1 p.2.2 && (liveRec s p.2.1.id == some (p.2.1, p.2.2))
    ({ s := s', pre := none, alg := alg }, diff n ln ["ok"] ++ [s!"COV compact.{alg}"] ++ (if dropped then ["COV compact.ttl-filter-drops-live"] else [])
      ++ (if s.rev > 0 then ["COV compact.again"] else []))
  | "commit" =>
    match s.snap with
    | none => (st, diff n ln ["nocompact"])
    | some sn =>
      let implKeys := parseKeys (ln.outs.getD 1 "-")
      let order := implKeys.drop sn.cpx.length
      let s' := commit s order (nsOf n)
      let mk := s.ilog.length ≠ 0 ∧ sn.idxLen < s.ilog.length
      let cov := (if mk then ["COV commit.makeup"] else ["COV commit.no-makeup"]) ++
        (if (makeup s sn order (nsOf n)).isNone then ["COV commit.discarded"] else []) ++
        (if s'.v.log.length < (match makeup s sn order (nsOf n) with | some f => f.1.length | none => 0) then ["COV commit.truncated"] else []) ++
        (if mk ∧ (suffixOf s).any (fun e => !validEnt e) then ["COV commit.makeup-tombstone"] else []) ++
        (if mk ∧ (suffixOf s).any (fun e => validEnt e) then ["COV commit.makeup-copy"] else [])
      ({ st with s := s', pre := some s }, diff n ln ["ok", keysTok s'.ilog] ++ cov)
  | _ => (st, [s!"DIFF {n} unknown-op {ln.op}"])

end DrvC04

def main : IO Unit := run { init := ({} : DrvC04.St), step := DrvC04.stepLine }
