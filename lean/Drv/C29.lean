/- Driver for C29: path helpers are recomputed (DIFF); requests are judged on the filer paths they touched (SPECFAIL),
   and the model's containment verdict must agree: "model says contained" but the filer was touched outside = DIFF. -/
import SwV.Common.Drv
import SwV.Model.C29
import SwV.Spec.C29
open SwV.Drv SwV.Model.C29 SwV.Spec.C29

def parseSet (t : String) : List (List Nat) :=
  let body := (t.drop 2).toString
  if body == "-" then [] else (body.splitOn ",").map tokBytes

def bktName : List Nat := [98, 107, 116]

def step (u : Unit) (n : Nat) (ln : Line) : Unit × List String :=
  let a := ln.args
  let o := ln.outs
  let arg := fun (i : Nat) => tokBytes (a.getD i "-")
  match ln.op with
  | "reset29" => (u, diff n ln ["ok"])
  | "helper" =>
    match a.getD 0 "" with
    | "p2b" => let (b, ob) := pathToBucketAndObject (arg 1); (u, diff n ln [hexOfNats b, hexOfNats ob] ++ ["COV helper.p2b"])
    | "join" => (u, diff n ln [hexOfNats (joinPath (arg 1) (arg 2))] ++ ["COV helper.join"] ++
        (if (splitSlash (arg 2)).contains dotdot then ["COV helper.join.dotdot"] else []))
    | "dirname" => let (dd, nm) := dirAndName (arg 1); (u, diff n ln [hexOfNats dd, hexOfNats nm] ++ ["COV helper.dirname"])
    | "upfolder" => (u, diff n ln [hexOfNats (genUploadsFolder (arg 1))] ++ ["COV helper.upfolder"])
    | _ => (u, ["COV helper.unmodelled"])
  | "req" =>
    let route := a.getD 0 ""
    let key := arg 1; let uid := arg 2; let src := arg 3
    let names := (a.drop 4).map tokBytes
    let ok := o.getD 0 "" == "ok"
    let reads := parseSet (o.getD 1 "R=-"); let writes := parseSet (o.getD 2 "W=-"); let changes := parseSet (o.getD 3 "N=-")
    let adr := addressed bktName route key uid names
    let mc := contained bktName adr
    let badReads := reads.filter fun p => !readAllowed route src p
    let isCopy := route == "copy" || route == "mpcopy"
    let d := if mc ∧ !isCopy ∧ route != "list" ∧ (!writes.isEmpty ∨ !changes.isEmpty ∨ !badReads.isEmpty)
      then [s!"DIFF {n} req {route}: model says every addressed path is inside the bucket, but the filer was touched outside"] else []
    let j1 := match reqJudge route key src reads writes changes with
      | some c =>
        -- an escape although no addressed path has a ".." segment is a different defect than the known ones
        let c := if mc ∧ !isCopy ∧ route != "list" then handlerOf route key ++ "/outside-bucket-without-dotdot-segment" else c
        [specfail n c (String.intercalate " " a)]
      | none => []
    let j2 := match internalJudge bktName route key ok with | some c => [specfail n c (String.intercalate " " a)] | none => []
    (u, d ++ j1 ++ j2 ++ [s!"COV req.{route}", if mc then "COV req.model-contained" else "COV req.model-escapes"]
      ++ (if (splitSlash (pctDecode key)).any (fun sg => sg.length > 2 ∧ sg.take 1 == [37]) then ["COV req.double-encoded-key"] else [])
      ++ (if !mc ∧ (route == "put" || route == "delete") then ["COV req.raw-dotdot-on-proxied-write"] else [])
      ++ (if !mc ∧ writes.isEmpty ∧ changes.isEmpty ∧ badReads.isEmpty then ["COV req.escape-addressed-but-harmless"] else []))
  | _ => (u, [s!"DIFF {n} unknown-op {ln.op}"])

def main : IO Unit := run { init := (), step := step }
