/- Driver for C31: recompute every harness line with the model (DIFF) and run the judge (SPECFAIL).

The in-memory tier's eviction is not determined by the call sequence (ccache prunes in a background
goroutine). The model has an explicit `evict` step; the driver chooses it: when the implementation's
answer is not the model's answer with the entry present but IS the model's answer after `evict [f]`,
the driver applies the eviction (evictions are permanent until the next store, so a late choice is
always consistent). Any other answer is a DIFF. -/
import SwV.Common.Drv
import SwV.Model.C31
import SwV.Spec.C31
open SwV.Drv SwV.Model.C31 SwV.Spec.C31

structure St where
  c : Cache := newCache 64 16
  hist : History := []     -- oldest first

def fidOf (a : List String) : Fid := ⟨tokNat (a.getD 0 ""), tokNat (a.getD 1 ""), tokNat (a.getD 2 "")⟩

def digitsOf (s : String) : List Nat := s.toList.map fun ch => ch.toNat - 48
def bitsOf (s : String) : List Bool := s.toList.map fun ch => ch == '1'

/-- which tier answers (0 = memory, 1..3 = disk layers, 4 = nothing) -/
def tierOf (c : Cache) (f : Fid) (m : Nat) : Nat :=
  if m ≤ c.lim0 ∧ m ≤ ((memGet c.mem f).getD []).length then 0
  else if m ≤ c.lim0 ∧ m ≤ (getVols c.l0.vols f.key).length then 1
  else if m ≤ c.lim1 ∧ m ≤ (getVols c.l1.vols f.key).length then 2
  else if m ≤ (getVols c.l2.vols f.key).length then 3 else 4

def entryCount (c : Cache) : Nat :=
  ((c.l0.vols ++ c.l1.vols ++ c.l2.vols).map (·.entries.length)).sum

def judgeLines (n : Nat) (site : String) (st : St) (f : Fid) (off : Nat) (impl : Bytes) (detail : String) : List String :=
  (match judge st.hist f off impl with
   | none => []
   | some cls => [specfail n (site ++ "/" ++ cls) detail, "COV " ++ site ++ ".inadmissible"])
  ++ (if admissibleB st.hist f off impl && !admissibleLastB st.hist f off impl then ["COV " ++ site ++ ".stale-bytes-of-same-id"] else [])
  ++ (if keyOwnedB st.hist f then ["COV " ++ site ++ ".key-owned"] else ["COV " ++ site ++ ".key-shared"])

def step (st : St) (n : Nat) (ln : Line) : St × List String :=
  let a := ln.args
  let o := ln.outs
  match ln.op with
  | "reset" =>
    ({ c := newCache (tokNat (a.getD 0 "64")) (tokNat (a.getD 1 "16")), hist := [] },
      diff n ln [] ++ ["COV reset", "COV reset.mem" ++ a.getD 2 ""])
  | "store" =>
    let f := fidOf a
    let d := tokBytes (a.getD 3 "-")
    let c := st.c
    let (tier, rot, big) :=
      if d.length ≤ c.lim0 then ("0", c.l0.willRotate d, decide (d.length > c.l0.limit))
      else if d.length ≤ c.lim1 then ("1", c.l1.willRotate d, decide (d.length > c.l1.limit))
      else ("2", c.l2.willRotate d, decide (d.length > c.l2.limit))
    let before := entryCount c
    let c' := c.set f d
    ({ c := c', hist := st.hist ++ [(f, d)] },
      diff n ln [] ++ ["COV store.tier" ++ tier]
      ++ (if rot then ["COV store.rotate"] else [])
      ++ (if rot && entryCount c' < before then ["COV store.rotate-drops-entries"] else [])
      ++ (if big then ["COV store.larger-than-volume"] else [])
      ++ (if d.isEmpty then ["COV store.empty"] else [])
      ++ (if keyOwnedB st.hist f then [] else ["COV store.key-shared"]))
  | "lookup" =>
    let f := fidOf a
    let m := tokNat (a.getD 3 "0")
    let impl := tokBytes (o.getD 0 "-")
    let hit := st.c.get f m
    let c2 := st.c.evict [f]
    let miss := c2.get f m
    let isPanic := o == ["panic"]
    let (c', dl) :=
      if isPanic then (st.c, diff n ln [hexOfNats hit])
      else if impl == hit then (st.c, [])
      else if impl == miss then (c2, ["COV mem.evicted"])
      else (st.c, diff n ln [hexOfNats hit])
    let t := tierOf c' f m
    ({ st with c := c' },
      dl ++ judgeLines n "GetChunk" st f 0 impl (String.intercalate " " a)
      ++ ["COV lookup.tier" ++ toString t]
      ++ (if impl.isEmpty then ["COV lookup.nothing"] else if impl.length > m then ["COV lookup.longer-than-min"] else ["COV lookup.exact"]))
  | "slice" =>
    let f := fidOf a
    let off := tokNat (a.getD 3 "0")
    let len := tokNat (a.getD 4 "0")
    let impl := tokBytes (o.getD 0 "-")
    let hit := st.c.getSlice f off len
    let c2 := st.c.evict [f]
    let miss := c2.getSlice f off len
    let isPanic := o == ["panic"]
    let (c', dl) :=
      if isPanic then (st.c, diff n ln [hexOfNats hit])
      else if impl == hit then (st.c, [])
      else if impl == miss then (c2, ["COV mem.evicted"])
      else (st.c, diff n ln [hexOfNats hit])
    ({ st with c := c' },
      dl ++ judgeLines n "GetChunkSlice" st f off impl (String.intercalate " " a)
      ++ (if off > 0 then ["COV slice.offset-positive"] else ["COV slice.offset-zero"])
      ++ (if impl.isEmpty then ["COV slice.nothing"] else ["COV slice.bytes"]))
  | "restart" =>
    let o0 : LayerOracle := ⟨digitsOf (o.getD 0 ""), bitsOf (o.getD 3 "")⟩
    let o1 : LayerOracle := ⟨digitsOf (o.getD 1 ""), bitsOf (o.getD 4 "")⟩
    let o2 : LayerOracle := ⟨digitsOf (o.getD 2 ""), bitsOf (o.getD 5 "")⟩
    let forced := if a.getD 0 "" == "force" ∧ a.drop 1 != o then
        [s!"DIFF {n} restart harness could not force the timestamps: asked {a.drop 1} observed {o}"] else []
    let c := st.c
    let c' := c.restart o0 o1 o2
    let cur (l : Layer) := l.vols.map (·.fileIdx)
    ({ st with c := c' },
      forced ++ (if o.length == 6 then [] else [s!"DIFF {n} restart malformed outputs {o}"])
      ++ ["COV restart", "COV restart." ++ a.getD 0 ""]
      ++ (if entryCount c' < entryCount c then ["COV restart.regen-drops-entries"] else [])
      ++ (if cur c.l0 != o0.order ∨ cur c.l1 != o1.order ∨ cur c.l2 != o2.order then ["COV restart.reordered"] else ["COV restart.same-order"]))
  | _ => (st, [s!"DIFF {n} unknown-op {ln.op}"])

def main : IO Unit := run { init := ({} : St), step := step }
