/- Driver for C16: replay the printed events of every ec.balance phase on the model
   (guards + bookkeeping ⇒ DIFF) and judge every planned move and the bookkeeping (SPECFAIL). -/
import SwV.Common.Drv
import SwV.Model.C16
import SwV.Spec.C16
open SwV.Drv SwV.Model.C16 SwV.Spec.C16

structure Decl where
  id : Nat
  rack : Nat
  hdd : Bool
  max : Nat
  active : Nat
  shards : List (Nat × Nat)

structure St where
  decl : List Decl := []
  model : ESt := ⟨[], []⟩
  spec : ESt := ⟨[], []⟩
  init : ESt := ⟨[], []⟩
  /-- servers that gave a shard away in an across-racks move of this case -/
  acrossSrc : List Nat := []

inductive Ev where
  | D (vid s n keep : Nat) | N (vid s node : Nat) | M (src vid s dst : Nat)
  | O (node over vid s : Nat) | R (src vid s dst : Nat)

def parts (s : String) : List String := s.splitOn ":"

def parseEv (t : String) : Option Ev :=
  match parts t with
  | ["D", a, b, c, d] => some (.D (tokNat a) (tokNat b) (tokNat c) (tokNat d))
  | ["N", a, b, c] => some (.N (tokNat a) (tokNat b) (tokNat c))
  | ["M", a, b, c, d] => some (.M (tokNat a) (tokNat b) (tokNat c) (tokNat d))
  | ["O", a, b, c, d] => some (.O (tokNat a) (tokNat b) (tokNat c) (tokNat d))
  | ["R", a, b, c, d] => some (.R (tokNat a) (tokNat b) (tokNat c) (tokNat d))
  | _ => none

def parseShards (s : String) : List (Nat × Nat) :=
  if s == "-" then [] else (s.splitOn ",").filterMap fun e => match e.splitOn "=" with
    | [a, b] => some (tokNat a, tokNat b) | _ => none

/-- the bookkeeping printed by the harness, in the node order of `like` -/
def parseState (like : ESt) (toks : List String) : ESt :=
  let nodes := toks.filterMap fun t => match parts t with
    | ["S", id, free, hdd, sh] =>
      let rack := match like.node? (tokNat id) with | some n => n.rack | none => 0
      some (⟨tokNat id, rack, tokInt free, hdd == "1", parseShards sh⟩ : ENode)
    | _ => none
  let rf := toks.filterMap fun t => match parts t with
    | ["K", r, f] => some (tokNat r, tokInt f) | _ => none
  ⟨nodes, rf⟩

def splitBar (o : List String) : List String × List String :=
  (o.takeWhile (· != "|"), (o.dropWhile (· != "|")).drop 1)

def tag (n : Nat) (cls : List String) (detail : String) : List String :=
  (cls.eraseDups).map fun c => specfail n ("C16:" ++ c) detail

def difff (n : Nat) (ln : Line) (why : String) : List String :=
  [s!"DIFF {n} {ln.op} {String.intercalate " " ln.args} {why} impl=[{String.intercalate " " (ln.outs.take 40)}]"]

/-- spec side: apply the printed moves to the layout, judging each -/
def specMoves (phase : String) (cap : Nat → Int) : ESt → List Ev → ESt × List String
  | sp, [] => (sp, [])
  | sp, .M src vid s dst :: rest =>
    let (sp', js) := specMoves phase cap (sp.move src dst vid s) rest
    (sp', judgeMove phase sp src vid s dst (some cap) ++ js)
  | sp, .R src vid s dst :: rest =>
    let (sp', js) := specMoves phase cap (sp.move src dst vid s) rest
    (sp', judgeMove phase sp src vid s dst (some cap) ++ js)
  | sp, _ :: rest => specMoves phase cap sp rest

/-- declared capacity of a server: (max − active)·10 of its hdd disk, 0 without one (inputs of the case) -/
def capOf (decl : List Decl) (id : Nat) : Int :=
  match decl.find? (·.id == id) with
  | some d => if d.hdd then ((d.max : Int) - d.active) * 10 else 0
  | none => 0

/-- across racks: replay N / M events -/
def acrossRun : Across → List Ev → Except String Across
  | a, [] => if a.todo.isEmpty then .ok a else .error s!"picked-shard-without-event {a.todo.map (·.1)}"
  | a, .N _ s node :: rest => if a.noRackOk s node then acrossRun (a.done s) rest else .error s!"no-rack-notice-not-planned {s}"
  | a, .M src _ s dst :: rest => if a.moveOk src s dst then acrossRun (a.applyMove src s dst) rest else .error s!"move-not-planned {src}:{s}:{dst}"
  | _, _ :: _ => .error "unexpected-event"

structure WSt where
  st : ESt
  avgs : List ((Nat × Nat) × Nat) := []          -- (vid, rack) ↦ averageShardsPerEcNode at first use
  seen : List ((Nat × Nat) × (Nat × Nat)) := []  -- (node, vid) ↦ (shard count at its turn, events so far)

def WSt.avg (w : WSt) (vid rack : Nat) : WSt × Nat :=
  match w.avgs.lookup (vid, rack) with
  | some a => (w, a)
  | none => let a := withinAvg w.st vid rack; ({ w with avgs := ((vid, rack), a) :: w.avgs }, a)

/-- group every O announcement with the M that directly follows it -/
def pairEvs : List Ev → Option (List ((Nat × Nat × Nat × Nat) × Option (Nat × Nat × Nat × Nat)))
  | [] => some []
  | .O node over vid s :: .M src vid' s' dst :: rest => (pairEvs rest).map fun l => ((node, over, vid, s), some (src, vid', s', dst)) :: l
  | .O node over vid s :: rest => (pairEvs rest).map fun l => ((node, over, vid, s), none) :: l
  | _ :: _ => none

/-- within racks: O announcements, each optionally followed by its M -/
def withinRun : WSt → List ((Nat × Nat × Nat × Nat) × Option (Nat × Nat × Nat × Nat)) → Except String WSt
  | w, [] => .ok w
  | w, ((node, over, vid, s), mv) :: rest =>
    match w.st.node? node with
    | none => .error "unknown-node"
    | some sn =>
      let (w1, avg) := w.avg vid sn.rack
      let (base, k) := match w1.seen.lookup (node, vid) with | some bk => bk | none => (popc (sn.bits vid), 0)
      let w2 := { w1 with seen := ((node, vid), (base, k + 1)) :: w1.seen.filter (·.1 != (node, vid)) }
      if !(hasBit (sn.bits vid) s) then .error s!"announces-shard-not-held {node}:{vid}.{s}" else
      if over + avg + k != base || over == 0 then .error s!"overlimit-differs {node}:{vid}.{s} over={over} avg={avg} base={base} k={k}" else
      match mv with
      | some (src, vid', s', dst) =>
        if src == node && vid' == vid && s' == s then
          if withinMoveOk w2.st avg vid src s dst then withinRun { w2 with st := w2.st.move src dst vid s } rest
          else .error s!"within-move-not-planned {src}:{vid}.{s}:{dst}"
        else .error "move-without-announcement"
      | none => if withinStayOk w2.st avg vid node then withinRun w2 rest else .error s!"stays-although-destination-exists {node}:{vid}.{s}"

def rackRun : ESt → List Ev → Except String ESt
  | st, [] => if rackStopOk st then .ok st else .error "stops-although-a-move-is-due"
  | st, .R src vid s dst :: rest => if rackMoveOk st src vid s dst then rackRun (st.move src dst vid s) rest else .error s!"rack-move-not-planned {src}:{vid}.{s}:{dst}"
  | _, _ :: _ => .error "unexpected-event"

/-- coverage of the free-slot boundary: a move onto a server that was the SOURCE of an earlier across-racks
    move (its counter was credited then), and such a move into that server's last really free slot -/
def slotCov (cap : Nat → Int) (was : List Nat) : ESt → List Ev → List String
  | _, [] => []
  | sp, ev :: rest =>
    match ev with
    | .M src vid s dst | .R src vid s dst =>
      let here := match sp.node? dst with
        | some d => if was.contains dst then
            ["COV move.dest-was-across-source"] ++ (if recountFree cap d == 1 then ["COV move.dest-was-across-source.last-slot"] else [])
          else []
        | none => []
      here ++ slotCov cap was (sp.move src dst vid s) rest
    | _ => slotCov cap was sp rest

def finishPhase (phase : String) (st : St) (n : Nat) (ln : Line) (evs : List Ev) (stateToks : List String)
    (res : Except String ESt) (cov : List String) : St × List String :=
  let cov := cov ++ (slotCov (capOf st.decl) st.acrossSrc st.model evs).eraseDups
  let st := if phase == "across" then
      { st with acrossSrc := st.acrossSrc ++ evs.filterMap fun e => match e with | .M src .. => some src | _ => none }
    else st
  let impl := parseState st.model stateToks
  -- every phase is judged from the bookkeeping it started with (= the layout, as long as no earlier phase lost track)
  let (sp', js) := specMoves phase (capOf st.decl) st.model evs
  let book := judgeBook phase st.model sp' impl
  let detail := String.intercalate " " (ln.op :: ln.args)
  match res with
  | .error e => ({ st with model := impl, spec := sp' }, difff n ln e ++ tag n (js ++ book) detail)
  | .ok m =>
    let d := if m == impl then [] else difff n ln s!"bookkeeping-differs model={repr m.nodes}"
    ({ st with model := impl, spec := sp' }, d ++ tag n (js ++ book) detail ++ cov)

def step (st : St) (n : Nat) (ln : Line) : St × List String :=
  let a := ln.args
  let o := ln.outs
  match ln.op with
  | "reset" => ({}, [])
  | "ecnode" =>
    let sh := (a.drop 5).filterMap fun e => match e.splitOn "=" with | [x, y] => some (tokNat x, tokNat y) | _ => none
    ({ st with decl := st.decl ++ [⟨tokNat (a.getD 0 ""), tokNat (a.getD 1 ""), a.getD 2 "" == "1", tokNat (a.getD 3 ""), tokNat (a.getD 4 ""), sh⟩] }, [])
  | "build" =>
    let mk (d : Decl) : ENode := ⟨d.id, d.rack, freeSlots d.hdd d.max d.active d.shards, d.hdd, if d.hdd then d.shards else []⟩
    let order := o.filterMap fun t => match parts t with | ["N", id, f] => some (tokNat id, tokInt f) | _ => none
    let nodes := order.filterMap fun (id, _) => (st.decl.find? (·.id == id)).map mk
    let racks := (st.decl.map (·.rack)).eraseDups
    let rf : List (Nat × Int) := racks.map fun r => (r, ((nodes.filter (·.rack == r)).map (·.free)).foldl (· + ·) 0)
    let implRf := o.filterMap fun t => match parts t with | ["K", r, f] => some (tokNat r, tokInt f) | _ => none
    let sortedDesc := (order.zip (order.drop 1)).all fun (x, y) => decide (x.2 ≥ y.2)
    let okFree := nodes.length == st.decl.length && (order.map (·.1)).eraseDups.length == order.length &&
      (nodes.zip order).all fun (m, (_, f)) => m.free == f
    let okRf := rf.all fun (r, f) => implRf.lookup r == some f
    let m : ESt := ⟨nodes, implRf⟩
    let d := if okFree && sortedDesc && okRf && implRf.length == rf.length then [] else difff n ln s!"free-slots-differ model={repr (nodes.map fun x => (x.id, x.free))} racks={repr rf}"
    ({ st with model := m, spec := m, init := m }, d ++ ["COV build"] ++
      (if nodes.any (fun x => decide (x.free < 0)) then ["COV build.negative-free"] else []) ++
      (if nodes.any (fun x => decide (x.free = 0)) then ["COV build.zero-free"] else []))
  | "dedup" =>
    if o.getD 0 "" != "ok" then (st, difff n ln "expected-ok") else
    let vid := tokNat (a.getD 0 "")
    let evs := (o.drop 1).filterMap parseEv
    let got := evs.filterMap fun e => match e with | .D v s c _ => if v == vid then some (s, c) else none | _ => none
    let keeps := evs.all fun e => match e with | .D _ s _ k => dedupKeepOk st.model vid s k | _ => false
    let d := if got == dedupExpected st.model vid && keeps then [] else difff n ln s!"duplicates-differ model={dedupExpected st.model vid}"
    (st, d ++ [if got.isEmpty then "COV dedup.none" else "COV dedup.duplicates"])
  | "across" =>
    if o.getD 0 "" != "ok" then (st, difff n ln "expected-ok") else
    let (evToks, stToks) := splitBar (o.drop 1)
    let evs := evToks.filterMap parseEv
    let a0 := acrossStart st.model (tokNat (a.getD 0 ""))
    let res := (acrossRun a0 evs).map (·.st)
    let cov := (if evs.any (fun e => match e with | .M .. => true | _ => false) then ["COV across.move"] else []) ++
      (if evs.any (fun e => match e with | .N .. => true | _ => false) then ["COV across.no-rack"] else []) ++
      (if evs.isEmpty then ["COV across.nothing"] else []) ++
      (if a0.todo.any (fun t => t.2.length > 1) then ["COV across.duplicate-picked"] else [])
    finishPhase "across" st n ln evs stToks res cov
  | "within" =>
    if o.getD 0 "" != "ok" then (st, difff n ln "expected-ok") else
    let (evToks, stToks) := splitBar (o.drop 1)
    let evs := evToks.filterMap parseEv
    let res := match pairEvs evs with
      | none => .error "unexpected-event"
      | some ps => (withinRun { st := st.model } ps).map (·.st)
    let nM := (evs.filter fun e => match e with | .M .. => true | _ => false).length
    let nO := (evs.filter fun e => match e with | .O .. => true | _ => false).length
    let cov := (if nM > 0 then ["COV within.move"] else []) ++ (if nO > nM then ["COV within.stay"] else []) ++ (if nO == 0 then ["COV within.nothing"] else [])
    finishPhase "within" st n ln evs stToks res cov
  | "rackbal" =>
    if o.getD 0 "" != "ok" then (st, difff n ln "expected-ok") else
    let (evToks, stToks) := splitBar (o.drop 1)
    let evs := evToks.filterMap parseEv
    let res := rackRun st.model evs
    finishPhase "rackbal" st n ln evs stToks res (if evs.isEmpty then ["COV rackbal.nothing"] else ["COV rackbal.move"])
  | _ => (st, [s!"DIFF {n} unknown-op {ln.op}"])

def main : IO Unit := run { init := ({} : St), step := step }
