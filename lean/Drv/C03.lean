/- Driver for C03: rebuild the pre-crash files with the model, recompute every crash point with the model's
   loader (DIFF) and judge the implementation's behaviour with the spec (SPECFAIL). -/
import SwV.Common.Drv
import SwV.Model.C02
import SwV.Model.C03
import SwV.Spec.C03
import SwV.Gen.C03
open SwV.Drv SwV.Model.C02 SwV.Model.C03 SwV.Spec.C03

structure St where
  /-- operations since `reset`: (op, implementation outputs, line number) -/
  ops : Array (Op × List String × Nat) := #[]
  hist : List OpRec := []
  dat : Bytes := []
  idx : Bytes := []
  snapped : Bool := false

/-- the index reader's batch size, regenerated from the source (`idx.RowsToRead`) -/
def rows : Nat := SwV.Gen.C03.RowsToRead.toNat

def tokB (s : String) : Bytes := (hexDecode s).getD []

def newId : Nat := 9000000
def newCookie : Nat := 0x1234
def newData : Bytes := "after-crash".toUTF8.toList

def mkNeedle (id cookie : Nat) (data : Bytes) (ts : Nat) : Needle :=
  { cookie := cookie, id := id, flags := 0, data := data, checksum := (crc32c data).toNat, appendAtNs := ts }

def readTok : ReadRes → String
  | .data bs => "d" ++ hexEncode bs
  | .notFound => "notfound"
  | .deleted => "deleted"
  | .novol => "novol"
  | .fail .crc => "crc"
  | .fail .sizeMismatch => "sizemismatch"
  | .fail .eof => "eof"
  | .fail .panic => "panic"
  | .fail (.parse _) => "err"

def parseRead (s : String) : ReadRes :=
  if s.startsWith "d" ∧ s != "deleted" then .data (tokB (s.drop 1).toString)
  else if s == "notfound" then .notFound
  else if s == "deleted" then .deleted
  else if s == "novol" then .novol
  else if s == "crc" then .fail .crc
  else if s == "sizemismatch" then .fail .sizeMismatch
  else if s == "eof" then .fail .eof
  else if s == "panic" then .fail .panic
  else .fail (.parse 0)

def writeTok : WriteRes → String
  | .ok => "ok" | .unchanged => "unchanged" | .err => "err" | .readOnly => "readonly" | .novol => "novol"

def parseWrite (s : String) : WriteRes :=
  if s == "ok" then .ok else if s == "unchanged" then .unchanged else if s == "readonly" then .readOnly
  else if s == "novol" then .novol else .err

/-- append time of the record the model is about to write, taken from the REAL data file (wall clock) -/
def tsAt (real : Bytes) (offset size : Nat) : Nat := beNat ((real.drop (offset + 16 + size + 4)).take 8)

/-- replay the buffered operations through the model; DIFF lines for replies that differ -/
def rebuild (ops : List (Op × List String × Nat)) (real : Bytes) : Vol × List String :=
  ops.foldl (fun (acc : Vol × List String) (x : Op × List String × Nat) =>
    let (v, msgs) := acc
    let (op, outs, ln) := x
    match op with
    | .put id cookie data =>
      let n0 := mkNeedle id cookie data 0
      let n := { n0 with appendAtNs := tsAt real v.dat.size (recSize n0) }
      let (v', r) := writeNeedle crc32c v n
      let model := [writeTok r, toString v'.dat.bytes.length, toString v'.idx.length]
      (v', msgs ++ (if model == outs then [] else [s!"DIFF {ln} put {id} model={model} impl={outs}"]))
    | .del id cookie =>
      let n0 := mkNeedle id cookie [] 0
      let n := { n0 with appendAtNs := tsAt real v.dat.size 0 }
      let (v', r) := deleteNeedle v n
      let model := [match r with | some s => toString s | none => "err", toString v'.dat.bytes.length, toString v'.idx.length]
      (v', msgs ++ (if model == outs then [] else [s!"DIFF {ln} del {id} model={model} impl={outs}"])))
    (freshVol, [])

def opRecOf (x : Op × List String × Nat) : OpRec :=
  let (op, outs, _) := x
  let r := outs.getD 0 ""
  let eff := match op with
    | .put .. => r == "ok" || r == "unchanged"
    | .del .. => tokInt r > 0
  ⟨op, eff, tokNat (outs.getD 1 ""), tokNat (outs.getD 2 "")⟩

def step (st : St) (n : Nat) (ln : Line) : St × List String :=
  let a := ln.args
  let o := ln.outs
  match ln.op with
  | "config" =>
    -- the harness reports the constants of the code it was linked with; the model uses the regenerated ones
    (st, diff n ln [] ++ (if a == ["4", toString rows] then [] else [s!"DIFF {n} config model=[4 {rows}] impl={a}"]) ++ ["COV config"])
  | "reset" => ({}, ["COV reset"])
  | "put" =>
    let op := Op.put (tokNat (a.getD 0 "")) (tokNat (a.getD 1 "")) (tokB (a.getD 2 "-"))
    ({ st with ops := st.ops.push (op, o, n) }, [if (a.getD 2 "-") == "-" then "COV put.empty" else "COV put.data"])
  | "del" =>
    let op := Op.del (tokNat (a.getD 0 "")) (tokNat (a.getD 1 ""))
    ({ st with ops := st.ops.push (op, o, n) }, [if tokInt (o.getD 0 "") > 0 then "COV del.effective" else "COV del.noop"])
  | "snap" =>
    let dat := tokB (o.getD 0 "-"); let idx := tokB (o.getD 1 "-")
    let (v, msgs) := rebuild st.ops.toList dat
    let d1 := if v.dat.bytes == dat then [] else [s!"DIFF {n} snap .dat model={hexEncode v.dat.bytes} impl={hexEncode dat}"]
    let d2 := if v.idx == idx then [] else [s!"DIFF {n} snap .idx model={hexEncode v.idx} impl={hexEncode idx}"]
    ({ st with dat := dat, idx := idx, snapped := true, hist := st.ops.toList.map opRecOf }, msgs ++ d1 ++ d2 ++ ["COV snap"])
  | "crash" =>
    if !st.snapped then (st, diff n ln ["nosnap"]) else
    let p := tokNat (a.getD 0 ""); let q := tokNat (a.getD 1 "")
    let ids := ((a.getD 2 "").splitOn ",").map tokNat
    let v := load rows crc32c (st.dat.take p) (st.idx.take q)
    let model :=
      if v.panicked then
        ["panic", "0", "0", "0"] ++ ids.map (fun id => s!"{id}:novol") ++ ["w:novol", "rb:novol", "0", "0"]
      else
        let reads := ids.map fun id => s!"{id}:{readTok (readNeedle crc32c v id)}"
        let (v', w) := writeNeedle crc32c v (mkNeedle newId newCookie newData 0)
        [if v.failed then "failed" else "ok", if v.readOnly then "1" else "0", toString v.dat.bytes.length, toString v.idx.length] ++ reads ++
          ["w:" ++ writeTok w, "rb:" ++ readTok (readNeedle crc32c v' newId), toString v'.dat.bytes.length, toString v'.idx.length]
    -- judge over the implementation's outputs
    let k := ids.length
    let obs : Observed :=
      { load := o.getD 0 "", readOnly := o.getD 1 "" == "1",
        reads := (List.range k).map (fun i =>
          let t := o.getD (4 + i) ""
          match t.splitOn ":" with
          | [id, r] => (tokNat id, parseRead r)
          | _ => (0, .fail .panic)),
        write := parseWrite ((o.getD (4 + k) "").drop 2).toString,
        readBack := parseRead ((o.getD (5 + k) "").drop 3).toString }
    let fails := (crashJudge st.hist st.idx p q newData obs).map fun c => specfail n c s!"p={p} q={q}"
    let adm := admissible st.hist p q
    let cov := [if adm then "COV crash.admissible" else "COV crash.inadmissible",
                if v.panicked then "COV crash.load-panic" else if v.readOnly then "COV crash.read-only" else "COV crash.writable"]
      ++ (if v.dat.bytes.length < p then ["COV crash.dat-truncated"] else [])
      ++ (if v.idx.length < q then ["COV crash.idx-truncated"] else [])
      ++ (if q % 16 ≠ 0 then ["COV crash.torn-idx"] else [])
      ++ (if q % 16 = 0 ∧ q > 0 ∧ (q / 16) % rows = 0 then ["COV crash.idx-entries-multiple-of-batch"] else [])
      ++ (if v.failed then ["COV crash.load-failed"] else [])
      ++ (if p % 8 ≠ 0 ∧ ¬ v.panicked ∧ v.dat.bytes.length = p then ["COV crash.unaligned-tail-kept"] else [])
      ++ (if fails.isEmpty ∧ adm then ["COV crash.judged-ok"] else [])
    (st, diff n ln model ++ fails ++ cov)
  | _ => (st, [s!"DIFF {n} unknown-op {ln.op}"])

def main : IO Unit := run { init := ({} : St), step := step }
