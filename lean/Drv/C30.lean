/- Driver for C30: recompute every harness line with the model (DIFF) and run the judges (SPECFAIL). -/
import SwV.Common.Drv
import SwV.Model.C30
import SwV.Spec.C30
open SwV.Drv SwV.Model.C30 SwV.Spec.C30

structure DSt where
  m    : St := {}
  file : File := []           -- POSIX model
  hist : Hist := {}
  implDirty  : Bool := false  -- what the implementation showed last: dirty lists present / chunks present
  implChunks : Bool := false
  implK      : String := "K=-"
  runIn      : Option (Nat × Nat) := none  -- temp-file buffer: file range where a write appended to the LAST list ran into another list

def joinOr (sep : String) (xs : List String) : String := if xs.isEmpty then "-" else String.intercalate sep xs

def nodeTok (tk : Bool) (n : Node) : String := if tk then s!"{n.off}:{n.size}:{n.tmp}" else s!"{n.off}:{n.size}"

def chunksTok (cs : List SChunk) : String := joinOr "," (cs.map fun c => s!"{c.off}:{c.size}:{hexOfNats c.data}")

def stateToks (st : St) : List String :=
  [s!"fs={st.fileSize}",
   "L=" ++ joinOr ";" (st.lists.map fun l => String.intercalate "+" (l.map (nodeTok st.tk))),
   "K=" ++ chunksTok st.chunks]

def parseChunks (t : String) : List SChunk :=
  if t == "-" ∨ t == "none" then [] else
  (t.splitOn ",").zipIdx.map fun (c, i) =>
    match c.splitOn ":" with
    | off :: size :: dat :: _ => { off := tokNat off, size := tokNat size, mt := i, data := tokBytes dat }
    | _ => { off := 0, size := 0, mt := i, data := [] }

def judgeOut (n : Nat) (j : Option String) (detail : String) : List String :=
  match j with
  | none => []
  | some cls => [specfail n cls detail]

def kindTag (st : St) : String := if st.tk then "tmp" else "mem"

def step (d : DSt) (n : Nat) (ln : Line) : DSt × List String :=
  let a := ln.args
  let o := ln.outs
  match ln.op with
  | "reset" =>
    let tk := a.getD 0 "" == "tmp"
    ({ m := { tk := tk, limit := tokNat (a.getD 1 "1") } }, diff n ln ["ok"] ++ [s!"COV reset.{a.getD 0 ""}"])
  | "w" =>
    let off := tokNat (a.getD 0 ""); let data := tokBytes (a.getD 1 "-")
    let before := d.m
    let st := write d.m off data
    let cov :=
      (if st.chunks.length > before.chunks.length then [s!"COV w.{kindTag st}.auto-save"] else []) ++
      (if data.length > before.limit then ["COV w.above-chunk-limit"] else []) ++
      (if data.isEmpty then ["COV w.zero-length"] else []) ++
      (if st.lists.length > 1 then ["COV w.several-lists"] else []) ++
      (if st.lists.any (fun l => l.length > 1) then ["COV w.multi-node-list"] else []) ++
      (if st.lists.length < before.lists.length then ["COV w.lists-merged"] else []) ++
      (if before.lists.any (fun l => headOff l < off ∧ off + data.length < tailStop l) then ["COV w.splits-a-list"] else []) ++
      (if before.lists.any (fun l => off ≤ headOff l ∧ tailStop l ≤ off + data.length) then ["COV w.covers-a-list"] else [])
    -- the situation in which a tail-append shortcut must NOT be taken: several lists, the write starts exactly at the end of the
    -- most recently created list and runs into a list to its right; then a later write that ends strictly inside that range
    let stopW := off + data.length
    let appendsLast : Bool := before.tk && decide (before.lists.length ≥ 2 ∧ 0 < data.length) &&
      (match before.lists.getLast? with | some l => decide (tailStop l = off) | none => false)
    let newRun : Option (Nat × Nat) :=
      if appendsLast then
        match before.lists.dropLast.find? (fun l => off ≤ headOff l ∧ headOff l < stopW) with
        | some l => some (headOff l, min stopW (tailStop l))
        | none => none
      else none
    let cutsRun := match d.runIn with
      | some (lo, hi) => decide (0 < data.length ∧ off < hi ∧ lo < stopW ∧ stopW < hi)
      | none => false
    let cov := cov ++ (if newRun.isSome then ["COV w.tmp.append-to-last-list-runs-into-right-list"] else []) ++
      (if cutsRun then ["COV w.tmp.write-ends-inside-run-in-range"] else [])
    let iL := (o.getD 1 "L=-") != "L=-"; let iK := (o.getD 2 "K=-") != "K=-"
    let kTok := o.getD 2 "K=-"
    -- a write that extends the file changes the entry's FileSize attribute (FileHandle.Write), which the handle's cached
    -- reader does not see either (same root cause as chunks added behind the cached view)
    let grows := decide (0 < data.length ∧ d.file.length < off + data.length)
    let h := { d.hist with savedAfterRead := d.hist.savedAfterRead ∨ (d.hist.readSeen ∧ (kTok != d.implK ∨ grows)) }
    ({ d with m := st, file := pwrite d.file off data, hist := h, implDirty := iL, implChunks := iK, implK := kTok,
              runIn := if newRun.isSome then newRun else d.runIn }, diff n ln (stateToks st) ++ cov)
  | "t" =>
    let size := tokNat (a.getD 0 "")
    let st := truncate d.m size
    let shrinks := size < d.file.length
    let kTok := o.getD 2 "K=-"
    let h := { d.hist with truncDirty := d.hist.truncDirty ∨ (shrinks ∧ d.implDirty), truncChunks := d.hist.truncChunks ∨ (shrinks ∧ d.implChunks), savedAfterRead := d.hist.savedAfterRead ∨ (d.hist.readSeen ∧ (kTok != d.implK ∨ size != d.file.length)) }
    let cov := (if shrinks then ["COV t.shrink"] else ["COV t.grow-or-same"]) ++
      (if shrinks ∧ d.implDirty then ["COV t.shrink-with-dirty-pages"] else []) ++
      (if shrinks ∧ d.implChunks then ["COV t.shrink-with-chunks"] else [])
    let iL := (o.getD 1 "L=-") != "L=-"; let iK := (o.getD 2 "K=-") != "K=-"
    ({ d with m := st, file := ptruncate d.file size, hist := h, implDirty := iL, implChunks := iK, implK := kTok }, diff n ln (stateToks st) ++ cov)
  | "f" =>
    let (st, sent) := flush d.m
    let sentTok := match sent with | none => "sent=none" | some cs => "sent=" ++ chunksTok cs
    let model := ["ok"] ++ stateToks st ++ [sentTok, "rd=" ++ hexOfNats (resolve st)]
    -- judge: the implementation's entry (K in mtime order + FileSize attribute), resolved with C17's overlay, is the POSIX file
    let ifs := tokNat ((o.getD 1 "fs=0").drop 3).toString
    let iK := parseChunks ((o.getD 3 "K=-").drop 2).toString
    let j := if o.getD 0 "" != "ok" then some "Flush/error" else flushJudge d.hist d.file iK ifs
    let cov := [s!"COV f.{kindTag st}"] ++
      (if st.chunks.length < (if d.m.tk then tmpFlush d.m else saveAll (d.m.lists.length + 1) d.m).chunks.length then ["COV f.compaction-drops-chunks"] else []) ++
      (if sent.isNone then ["COV f.nothing-to-send"] else []) ++
      (if d.m.tk ∧ d.m.lists.any (fun l => lsize l > d.m.limit) then ["COV f.tmp.list-split-into-pages"] else [])
    let kTok := o.getD 3 "K=-"
    let h := { d.hist with savedAfterRead := d.hist.savedAfterRead ∨ (d.hist.readSeen ∧ kTok != d.implK) }
    ({ d with m := st, hist := h, implDirty := (o.getD 2 "L=-") != "L=-", implChunks := iK ≠ [], implK := kTok },
     diff n ln model ++ judgeOut n j "f" ++ cov)
  | "r" =>
    let off := tokNat (a.getD 0 ""); let len := tokNat (a.getD 1 "")
    let (maxStop, buf) := readDataAt d.m.tk d.m.temp d.m.lists off len
    let model := [toString maxStop, hexOfNats (buf.map (·.getD 0)), hexOfNats (buf.map fun b => if b.isSome then 1 else 0)]
    let ibytes := tokBytes (o.getD 1 "-"); let imask := tokBytes (o.getD 2 "-")
    let cov := (if maxStop > 0 then ["COV r.hit"] else ["COV r.miss"]) ++
      (if buf.any (·.isSome) ∧ buf.any (·.isNone) then ["COV r.partial-window"] else [])
    (d, diff n ln model ++ judgeOut n (dirtyReadJudge d.hist d.file off ibytes imask) s!"r {off} {len}" ++ cov)
  | "R" =>
    -- FileHandle.Read: judged against the POSIX file (not recomputed by the model)
    let off := tokNat (a.getD 0 ""); let len := tokNat (a.getD 1 "")
    let j := if o.getD 0 "" == "err" then some "Read/error" else readJudge d.hist d.file off len (tokNat (o.getD 0 "")) (tokBytes (o.getD 1 "-"))
    ({ d with hist := { d.hist with readSeen := true } }, judgeOut n j s!"R {off} {len}" ++ ["COV R"] ++
      (if d.hist.savedAfterRead then ["COV R.after-entry-changed"] else []))
  | _ => (d, [s!"DIFF {n} unknown-op {ln.op}"])

def main : IO Unit := run { init := ({} : DSt), step := step }
