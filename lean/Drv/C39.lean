/- Driver for C39: recompute every harness line with the tree model (DIFF) and judge the
   implementation's lookups against the pointwise reference tree (SPECFAIL). -/
import SwV.Common.Drv
import SwV.Model.C39
import SwV.Spec.C39
open SwV.Drv SwV.Model.C39 SwV.Spec.C39

structure St where
  t : Node := emptyNode
  ref : Ref := refEmpty
  nops : Nat := 0

def pathOf (s : String) : Path :=
  if s == "/" || s == "" then [] else (s.drop 1).toString.splitOn "/"

def idTok (o : Option Nat) : String := match o with | some v => toString v | none => "nil"
def tokId (s : String) : Option Nat := if s == "nil" then none else s.toNat?

def stepCore (st : St) (n : Nat) (ln : Line) : St × List String :=
  let a := ln.args
  let o := ln.outs
  match ln.op with
  | "reset" => ({}, ["COV reset"])
  | "set" =>
    let p := pathOf (a.getD 0 "/"); let v := tokNat (a.getD 1 "0")
    let cov := if (sub st.t p).isSome then "COV set.existing" else "COV set.new"
    ({ st with t := setNode st.t p v, ref := refSet st.ref p v, nops := st.nops + 1 }, diff n ln [] ++ [cov])
  | "ensure" =>
    let p := pathOf (a.getD 0 "/"); let v := tokNat (a.getD 1 "0")
    let (t', w) := ensureNode st.t p v
    let j := if tokId (o.getD 0 "nil") = some ((refLookup st.ref p).getD v) then [] else [specfail n "EnsureFsNode/returns-other-node" (a.getD 0 "")]
    ({ st with t := t', ref := refEnsure st.ref p v, nops := st.nops + 1 }, diff n ln [toString w] ++ j ++ [if w = v then "COV ensure.created" else "COV ensure.hit"])
  | "del" =>
    let p := pathOf (a.getD 0 "/")
    let cov := if (sub st.t p).isSome then (if p.isEmpty then "COV del.root" else "COV del.present") else "COV del.absent"
    ({ st with t := remove st.t p, ref := refDel st.ref p, nops := st.nops + 1 }, diff n ln [] ++ [cov])
  | "move" =>
    let old := pathOf (a.getD 0 "/"); let new := pathOf (a.getD 1 "/")
    let (t', r) := move st.t old new
    let out := match r with | .ok => "ok" | .absent => "absent" | .invalid => "invalid"
    let cov := match r with
      | .ok => if old == new then "COV move.same" else if old.isPrefixOf new then "COV move.into-own-subtree"
               else if new.isPrefixOf old then "COV move.onto-ancestor"
               else if (sub st.t new).isSome then "COV move.replace" else "COV move.fresh"
      | .absent => "COV move.absent" | .invalid => "COV move.invalid"
    ({ st with t := t', ref := refApply st.ref (.move old new), nops := st.nops + 1 }, diff n ln [out] ++ [cov])
  | "get" =>
    let p := pathOf (a.getD 0 "/")
    let m := get st.t p
    let impl := tokId (o.getD 0 "nil")
    let j := match getJudge st.ref p impl with
      | none => []
      | some cls => [specfail n cls (a.getD 0 "")]
    (st, diff n ln [idTok m] ++ j ++ [if m.isSome then "COV get.hit" else if (sub st.t p).isSome then "COV get.placeholder" else "COV get.miss"])
  | _ => (st, [s!"DIFF {n} unknown-op {ln.op}"])

/-- a call that panicked or did not return is a failure of the cache on that operation: besides the
    DIFF (the model never predicts it) the judge reports it, so that the check has a concrete replay -/
def step (st : St) (n : Nat) (ln : Line) : St × List String :=
  let (st', msgs) := stepCore st n ln
  let crash :=
    if ln.outs.contains "panic" then [specfail n s!"{ln.op}/panics" (String.intercalate " " ln.args)]
    else if ln.outs.contains "hang" then [specfail n s!"{ln.op}/hangs" (String.intercalate " " ln.args)]
    else []
  (st', msgs ++ crash)

def main : IO Unit := run { init := ({} : St), step := step }
