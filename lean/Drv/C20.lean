/- Driver for C20 (chunk GC): model recomputation (DIFF) + the C20 judges gc_safe / gc_complete (SPECFAIL). -/
import SwV.Common.Drv
import SwV.Model.C18
import SwV.Spec.C18Run
import SwV.Spec.C20
open SwV.Drv SwV.Model.C18 SwV.Spec.C18Run

def main : IO Unit := run { init := ({} : St), step := drvStep SwV.Spec.C20.judge }
