/- Driver for C20 (chunk GC): model recomputation (DIFF) + the C20 judges gc_safe / gc_complete (SPECFAIL);
   the `hput` / `happend` lines of the harness's HTTP family go through `SwV.Spec.C20Http`. -/
import SwV.Common.Drv
import SwV.Model.C18
import SwV.Model.C20Http
import SwV.Spec.C18Run
import SwV.Spec.C20
import SwV.Spec.C20Http
open SwV.Drv SwV.Model.C18 SwV.Spec.C18Run

def main : IO Unit := run { init := ({} : SwV.Model.C20Http.HSt), step := SwV.Spec.C20Http.drvStepH }
