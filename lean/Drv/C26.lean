/- Driver for C26: recompute every harness line with the model (DIFF), compare the source facts the harness
   regenerated (route table, auth-type order, switch arms, handler verifiers) with the model's tables (DIFF),
   and run the judges over the IMPLEMENTATION's outputs (SPECFAIL). -/
import SwV.Common.Drv
import SwV.Model.C26
import SwV.Spec.C26
open SwV.Drv SwV.Model.C26 SwV.Spec.C26

structure St where
  cfgs : List (String × Config) := []

def tokStr (s : String) : String := (strOfHex s).getD ""

def splitStr (s : String) (c : Char) : List String := (splitOn c s.toList).map String.ofList

def parseIdent (tok : String) : Identity :=
  let p := splitStr (tokStr tok) ';'
  let name := p.getD 0 ""
  let acts := if p.getD 1 "" == "" then [] else (splitStr (p.getD 1 "") ',').map String.toList
  let creds := if p.getD 2 "" == "" then [] else (splitStr (p.getD 2 "") ',').filterMap fun c =>
    match splitOn '=' c.toList with
    | k :: v :: rest => some (String.ofList k, String.ofList (joinWith '=' (v :: rest)))
    | _ => none
  { name := name, actions := acts, creds := creds }

def parseQuery (q : String) : List (String × String) :=
  if q == "" then [] else (splitStr q '&').map fun kv =>
    match splitOn '=' kv.toList with
    | k :: v :: rest => (String.ofList k, String.ofList (joinWith '=' (v :: rest)))
    | [k] => (String.ofList k, "")
    | [] => ("", "")

def dash (s : String) : String := if s == "-" then "" else s

/-- the request the harness builds from a spec line (mirror of `build` in harness/cmd/c26/main.go) -/
def mkReq (a : List String) : Req :=
  let g (i : Nat) := a.getD i "-"
  let path := (tokStr (g 2)).toList
  let rest := path.drop 1
  let bucket := rest.takeWhile (· ≠ '/')
  let after := (rest.dropWhile (· ≠ '/')).drop 1
  let style := g 7
  let ak := dash (g 8); let sk := dash (g 9)
  let intact := g 10 == "valid"
  let base := parseQuery (tokStr (g 3))
  let query := base ++
    (if style == "v4p" then [("X-Amz-Algorithm", "AWS4-HMAC-SHA256"), ("X-Amz-Credential", ak), ("X-Amz-Date", "d"), ("X-Amz-Expires", "e"),
                             ("X-Amz-SignedHeaders", "host"), ("X-Amz-Signature", "s")]
     else if style == "v2p" then [("AWSAccessKeyId", ak), ("Expires", "e"), ("Signature", "s")] else [])
  let auth : Option String :=
    if style == "v4h" then some ("AWS4-HMAC-SHA256 Credential=" ++ ak)
    else if style == "v2h" then some ("AWS " ++ ak ++ ":sig")
    else if style == "bearer" then some "Bearer abc.def"
    else if style == "garbage" then some "Basic Zm9vOmJhcg=="
    else if style == "empty" then some ""
    else none
  let kind? : Option CredKind :=
    if style == "v4h" then some .v4h else if style == "v4p" then some .v4p
    else if style == "v2h" then some .v2h else if style == "v2p" then some .v2p else none
  let sha := if g 4 == "streaming" then streamingContentSHA256 else if g 4 == "unsigned" then "UNSIGNED-PAYLOAD"
    else if g 4 == "hash" then "e3b0c44298fc1c149afbf4c8996fb92427ae41e4649b934ca495991b7852b855" else ""
  let ctype := if g 5 == "multipart" then "multipart/form-data; boundary=verifboundary7d1" else if g 5 == "formdat" then "multipart/form-dat"
    else if g 5 == "xml" then "application/xml" else ""
  let copysrc := if g 6 == "ok" then "/b2/srcobj" else if g 6 == "noslash" then "srcobj" else ""
  let form : Option Cred :=
    if g 11 == "pol4" then some ⟨.pol4, dash (g 12), dash (g 13), g 14 == "valid"⟩
    else if g 11 == "pol2" then some ⟨.pol2, dash (g 12), dash (g 13), g 14 == "valid"⟩ else none
  { method := g 1, bucket := bucket, hasObject := !after.isEmpty, query := query, auth := auth, sha := sha, ctype := ctype, copysrc := copysrc,
    transport := kind?.map fun k => ⟨k, ak, sk, intact⟩, form := form, formBody := g 5 == "multipart" }

/-! source facts -/

def parseQPat (kv : String) : Option (String × QPat) :=
  match splitOn '=' kv.toList with
  | [k, v] =>
    let k := String.ofList k; let v := String.ofList v
    if v == "" then some (k, .any)
    else if v == "{" ++ k ++ ":.*}" then some (k, .any)
    else if v == "{" ++ k ++ ":[0-9]+}" then some (k, .digits)
    else if v.startsWith "{" then none
    else some (k, .eq v)
  | _ => none

def parseRouteFact (a : List String) : Option Route :=
  let g (i : Nat) := a.getD i "-"
  let path := tokStr (g 4)
  let qs := tokStr (g 5)
  let hk := dash (g 6); let hre := tokStr (g 7)
  let pathOk := path == "" || path == "/{object:.+}" || path == "/"
  let hdr? : Option HdrReq :=
    if hk == "" && hre == "" then some .none
    else if hk == "X-Amz-Copy-Source" && (hre == ".*?(\\/|%2F).*?") then some .copySource
    else if hk == "Content-Type" && hre == "multipart/form-data*" then some .multipartCT
    else none
  let qpats := if qs == "" then some [] else (splitStr qs '&').mapM parseQPat
  match pathOk, hdr?, qpats with
  | true, some h, some q => some ⟨g 1, g 2, g 3, path == "/{object:.+}", path == "/", q, h⟩
  | _, _, _ => none

def factDiff (n : Nat) (what : String) (detail : String) : List String := [s!"DIFF {n} source-fact {what} {detail}"]

def probeBuckets : List Str := ["b1".toList, "b2".toList, "b10".toList, "b".toList, "zz".toList]

def step (st : St) (n : Nat) (ln : Line) : St × List String :=
  let a := ln.args
  let o := ln.outs
  match ln.op with
  | "cfg" =>
    let cfg : Config := (a.drop 1).map parseIdent
    ({ cfgs := (a.getD 0 "", cfg) :: st.cfgs.filter (fun p => p.1 != a.getD 0 "") },
      diff n ln [toString routes.length] ++ [if cfg.isEmpty then "COV cfg.open" else "COV cfg.identities"])
  | "route" =>
    let i := tokNat (a.getD 0 "")
    let tableDiff :=
      match parseRouteFact a, routes[i]? with
      | some r, some m => if r = m then [] else factDiff n "route" s!"{i}: source has {repr r} but the model's table has {repr m}"
      | none, _ => factDiff n "route" s!"{i}: a route shape the model does not know: {a}"
      | some r, none => factDiff n "route" s!"{i}: route {r.handler} is not in the model's table"
    let path := tokStr (a.getD 4 "-")
    let model := [a.getD 3 "", hexOfStr (if path == "/" then "/" else "/{bucket}" ++ path), a.getD 5 "-"]
    (st, tableDiff ++ diff n ln model ++ ["COV facts.route"])
  | "routes_end" =>
    let c := tokNat (a.getD 0 "")
    (st, (if c = routes.length then [] else factDiff n "routes_end" s!"source registers {c} routes, the model's table has {routes.length}")
      ++ diff n ln [toString routes.length] ++ ["COV facts.routes_end"])
  | "authorder" =>
    let got := a.map fun t => match splitStr t ':' with
      | [h, ty] => (tokStr h, ty)
      | _ => ("?", t)
    (st, (if got = expectedAuthOrder then [] else factDiff n "authorder" s!"{got}") ++ ["COV facts.authorder"])
  | "authpred" =>
    let name := a.getD 0 ""
    let body := tokStr (a.getD 1 "-")
    (st, (if expectedPred.lookup name = some body then [] else factDiff n "authpred" s!"{name}: {body}") ++ ["COV facts.authpred"])
  | "authcase" =>
    let ty := a.getD 0 ""; let arm := a.getD 1 ""
    let d := if ty == "default" then (if arm == "notimpl" then [] else factDiff n "authcase" s!"default {arm}")
      else match authTypeOfName ty with
        | some t => if armName (armOf t) == arm then [] else factDiff n "authcase" s!"{ty}: source arm {arm}, model arm {armName (armOf t)}"
        | none => factDiff n "authcase" s!"unknown auth type {ty}"
    (st, d ++ ["COV facts.authcase"])
  | "authtail" =>
    (st, (if tokStr (a.getD 0 "-") == expectedTail then [] else factDiff n "authtail" (tokStr (a.getD 0 "-"))) ++ ["COV facts.authtail"])
  | "hverify" =>
    let h := a.getD 0 ""
    (st, (if expectedVerifiers h == a.getD 1 "" then [] else factDiff n "hverify" s!"{h}: source calls [{a.getD 1 ""}], model kind expects [{expectedVerifiers h}]")
      ++ ["COV facts.hverify"])
  | "req" =>
    match st.cfgs.lookup (a.getD 0 "") with
    | none => (st, [s!"DIFF {n} req unknown-cfg {a.getD 0 ""}"])
    | some cfg =>
      let rq := mkReq a
      let (ri, eff) := serve cfg rq
      let model := [toString ri, toString eff]
      let ln2 : Line := { ln with outs := o.take 2 }
      -- judge: over the implementation's route and effect
      let implRoute := (o.getD 0 "").toInt?.getD (-1)
      let implEff := tokNat (o.getD 1 "0")
      let j := if implRoute < 0 then (if implEff = 0 then [] else [specfail n "no-route/effect-without-route" (toString a)])
        else match routes[implRoute.toNat]? with
          | none => []   -- a route outside the table: the route facts already DIFF
          | some rt => match effectJudge cfg rt rq implEff with
            | none => []
            | some cls => [specfail n cls (String.intercalate " " a)]
      let t := authTypeOf rq
      let cov := [s!"COV at.{authTypeName t}", s!"COV eff.{eff}", if ri < 0 then "COV route.none" else "COV route.some"]
        ++ (match matchRoute routes rq with
            | some (_, rt) =>
              (if enabled cfg && eff > 0 && authorized cfg rt rq then
                [s!"COV ok.{authTypeName t}"] ++ (if kindOf rt.handler = .postPolicy then ["COV ok.form-upload"] else [])
                 ++ (if t = .streamingSigned && kindOf rt.handler = .putObject then ["COV ok.seed-putobject"] else [])
                 ++ (if t = .streamingSigned && kindOf rt.handler = .putPart && eff = 2 then ["COV ok.seed-putpart"] else [])
               else [])
              ++ (if enabled cfg && eff = 0 && authorized cfg rt rq then ["COV rejected-though-authorized"] else [])
              ++ (if enabled cfg && eff = 0 && !authorized cfg rt rq then [s!"COV rejected.{authTypeName t}"] else [])
            | none => [])
      (st, diff n ln2 model ++ j ++ cov)
  | "iam" =>
    let k := tokNat (a.getD 0 "0")
    let sp (s : String) : List Str := if s == "" then [] else (splitStr s ',').map String.toList
    let stmts : List Stmt := (List.range k).map fun i =>
      ⟨(tokStr (a.getD (1 + 3 * i) "-")).toList, sp (tokStr (a.getD (2 + 3 * i) "-")), sp (tokStr (a.getD (3 + 3 * i) "-"))⟩
    let acts := getActions stmts
    let model := toString acts.length :: acts.map hexOfChars
    let impl : List Str := (o.drop 1).map tokChars
    let j := match iamJudge stmts impl probeBuckets with
      | none => []
      | some cls => [specfail n cls (String.intercalate " " a)]
    (st, diff n ln model ++ j ++ [if acts.isEmpty then "COV iam.empty" else "COV iam.some"]
      ++ (if acts.any (fun x => x.getLast? = some '*') then ["COV iam.wildcard"] else []))
  | _ => (st, [s!"DIFF {n} unknown-op {ln.op}"])

def main : IO Unit := run { init := ({} : St), step := step }
