/- Driver for C13: recompute every harness line with the atomic-step models (DIFF) and judge the
   implementation's returned ranges / ids with the executable form of the spec (SPECFAIL). -/
import SwV.Common.Drv
import SwV.Model.C13
import SwV.Spec.C13
open SwV.Drv SwV.Model.C13 SwV.Spec.C13

/-- a max-key report as seen on the implementation side -/
structure Rep where
  inst : Nat
  seen : Nat
  taken : Bool     -- seen > the instance's maxSeqId when SetMax started
  dropped : Bool   -- an etcd failure made SetMax give up
deriving Repr

structure Flight where
  inst : Nat
  op : Op
  failed : Bool := false   -- the implementation's last key/value call failed (err / none / casfail)

structure St where
  mems : List (Nat × Mem) := []
  es : ESt := {}
  vs : VSt := {}
  mlog : List Obs := []
  mwrapped : Bool := false       -- some memory range left the 64-bit key space / SetMax(2^64-1)
  elog : List Obs := []
  ereps : List Rep := []
  eflight : List Flight := []
  emax : List (Nat × Nat) := []  -- implementation-reported maxSeqId per instance
  key0 : Bool := false           -- a failed reservation returned key 0 in this case
  ewrapped : Bool := false       -- some etcd range left the 64-bit key space / the etcd value wrapped
  slog : List Obs := []
  vids : List Nat := []
  vserial : Bool := true
  vfly : List (Nat × Nat) := []  -- thread → largest max reported before its start
  vhbmax : Nat := 0

def lookupD {α} (l : List (Nat × α)) (k : Nat) (d : α) : α := ((l.find? (·.1 == k)).map (·.2)).getD d
def upsert {α} (l : List (Nat × α)) (k : Nat) (v : α) : List (Nat × α) := (k, v) :: l.filter (·.1 != k)

def retTok : Ret → String
  | .key k _ => toString k
  | .failKey _ => "0"
  | .unit => "-"
  | .newOk => "ok"
  | .newErr => "err"

def statusToks (s : ESt) (i : Nat) : List String :=
  let x := s.inst i
  let f := match s.files x.slot with | some v => toString v | none => "nofile"
  if x.alive then [toString x.cur, toString x.max, f] else ["-", "-", f]

def outToks (s : ESt) (i : Nat) : Out → List String
  | .cont => ["cont"]
  | .invalid => ["invalid"]
  | .done r => ["done", retTok r] ++ statusToks s i

def resTok (ok : String) (r : Nat) : String := if r == 0 then "ok" else if r == 1 then ok else "err"

def kvToks : KvEv → List String
  | .getErr => ["get", "err"]
  | .getNone => ["get", "none"]
  | .getVal v => ["get", toString v]
  | .set p n r => ["set", toString p, toString n, resTok "casfail" r]
  | .create v r => ["create", toString v, resTok "exists" r]

def isReport (i : Nat) : Obs → Bool
  | .report j _ => j == i
  | _ => false

/-- judge one etcd operation that completed on the implementation side (`done …` tokens) -/
def judgeEtcdDone (st : St) (n : Nat) (i : Nat) (fl : Flight) (toks : List String) : St × List String :=
  -- toks = [ret, cur, max, file]
  let implMax := tokNat (toks.getD 2 "0")
  let st := { st with emax := upsert st.emax i implMax, eflight := st.eflight.filter (·.inst != i) }
  match fl.op with
  | .new _ => ({ st with elog := st.elog.filter (fun o => !isReport i o), ereps := st.ereps.filter (·.inst != i) }, ["COV etcd.new"])
  | .setMax seen =>
    -- mark the report dropped when the implementation's SetMax gave up on an etcd failure
    let reps := st.ereps.map fun r => if r.inst == i && r.seen == seen && fl.failed then { r with dropped := true } else r
    ({ st with ereps := reps }, [if fl.failed then "COV etcd.setmax.failed" else "COV etcd.setmax.done"])
  | .next count =>
    let r := tokNat (toks.getD 0 "0")
    let failedKey := fl.failed && r == 0
    let wraps := count != 0 && r + count > W
    -- the range handed out ends beyond the reserved batch (maxSeqId after the call): reqSteps = DefaultEtcdSteps + count wrapped
    let beyond := count != 0 && !failedKey && r + count > implMax
    let msgs1 :=
      if wraps then [specfail n "EtcdSequencer.NextFileId/counter-wraps-uint64" s!"key {r} count {count}: the range leaves the 64-bit key space and currentSeqId wraps"]
      else if beyond then [specfail n "EtcdSequencer.NextFileId/counter-wraps-uint64" s!"[{r},+{count}) ends beyond the reserved batch end {implMax}: DefaultEtcdSteps+count wrapped"] else
      match clash st.elog r count with
      | some (.issue _ s _) =>
        if st.ewrapped then [specfail n "EtcdSequencer.NextFileId/counter-wraps-uint64" s!"[{r},+{count}) overlaps the earlier range at {s} after a uint64 wrap"]
        else if failedKey || (s == 0 && st.key0) then [specfail n "EtcdSequencer.NextFileId/etcd-error-returns-key-0" s!"[{r},+{count}) overlaps the earlier range at {s}: a failed reservation returns key 0"]
        else [specfail n "EtcdSequencer/ranges-overlap" s!"[{r},+{count}) overlaps an earlier range starting at {s}"]
      | _ => []
    let msgs2 :=
      if failedKey then [] else
      match notAbove st.elog i r with
      | some (.report _ seen) =>
        match st.ereps.find? (fun q => q.inst == i && q.seen == seen) with
        | some q =>
          if st.ewrapped && r != seen then [specfail n "EtcdSequencer.NextFileId/counter-wraps-uint64" s!"key {r} is not above the reported max {seen} after a uint64 wrap"]
          else if q.dropped then ["COV etcd.report-dropped-by-etcd-failure"]
          else if !q.taken then [specfail n "EtcdSequencer.SetMax/report-not-above-reserved-max-ignored" s!"key {r} handed out after max key {seen} was reported"]
          else if r == seen then [specfail n "EtcdSequencer.SetMax/next-key-equals-reported-max" s!"key {r} handed out after max key {seen} was reported"]
          else [specfail n "EtcdSequencer/key-not-above-reported-max" s!"key {r} after report {seen}"]
        | none => [specfail n "EtcdSequencer/key-not-above-reported-max" s!"key {r} after report {seen}"]
      | _ => []
    ({ st with elog := .issue i r count :: st.elog, key0 := st.key0 || failedKey,
               ewrapped := st.ewrapped || wraps || beyond || (count != 0 && r + count == W) },
      msgs1 ++ msgs2 ++ [if failedKey then "COV etcd.key0" else "COV etcd.issue"])

def parseRanges (toks : List String) : List (Nat × Nat) :=
  toks.filterMap fun t => match t.splitOn ":" with
    | [a, b] => some (tokNat a, tokNat b)
    | _ => none

def firstOverlap : List (Nat × Nat) → Option (Nat × Nat)
  | a :: b :: rest => if a.1 + a.2 > b.1 && a.2 != 0 && b.2 != 0 then some a else firstOverlap (b :: rest)
  | _ => none

def step (st : St) (n : Nat) (ln : Line) : St × List String :=
  let a := ln.args
  let o := ln.outs
  let argN (k : Nat) := tokNat (a.getD k "0")
  match ln.op with
  | "reset" => ({}, diff n ln ["-"] ++ ["COV reset"])
  ------------------------------------------------------------------ memory
  | "mnew" =>
    let i := argN 0
    let leader := !st.mems.isEmpty
    ({ st with mems := upsert st.mems i Mem.new, mlog := st.mlog.filter (fun ob => !isReport i ob) },
      diff n ln [toString Mem.new.counter] ++ [if leader then "COV mem.leader-change" else "COV mem.new"])
  | "mnext" =>
    let i := argN 0; let count := argN 1
    match st.mems.find? (·.1 == i) with
    | none => (st, diff n ln ["invalid"])
    | some (_, m) =>
      let (ret, m') := m.next count
      let model := [toString ret, toString m'.counter]
      let r := tokNat (o.getD 0 "0")
      let wraps := count != 0 && r + count > W
      let msgs1 :=
        if wraps then [specfail n "MemorySequencer.NextFileId/counter-wraps-uint64" s!"key {r} count {count}: the range leaves the 64-bit key space and the counter wraps"]
        else match clash st.mlog r count with
          | some (.issue j s _) =>
            if st.mwrapped then [specfail n "MemorySequencer.NextFileId/counter-wraps-uint64" s!"[{r},+{count}) overlaps the earlier range at {s} after the counter wrapped"]
            else if j != i then [specfail n "MemorySequencer/leader-change-reissues-keys" s!"new leader's [{r},+{count}) overlaps [{s},…) handed out by the previous leader and not yet reported"]
            else [specfail n "MemorySequencer.NextFileId/ranges-overlap" s!"[{r},+{count}) overlaps the earlier range at {s}"]
          | _ => []
      let msgs2 :=
        match notAbove st.mlog i r with
        | some (.report _ seen) =>
          if seen + 1 == W then [specfail n "MemorySequencer.SetMax/wraps-to-zero" s!"key {r} handed out after max key {seen} was reported"]
          else if st.mwrapped then [specfail n "MemorySequencer.NextFileId/counter-wraps-uint64" s!"key {r} is not above the reported max {seen} after the counter wrapped"]
          else [specfail n "MemorySequencer/key-not-above-reported-max" s!"key {r} after report {seen}"]
        | _ => []
      ({ st with mems := upsert st.mems i m', mlog := .issue i r count :: st.mlog, mwrapped := st.mwrapped || wraps || (count != 0 && r + count == W) },
        diff n ln model ++ msgs1 ++ msgs2 ++ [if m.counter + count ≥ W then "COV mem.wrap" else "COV mem.next"])
  | "mset" =>
    let i := argN 0; let seen := argN 1
    match st.mems.find? (·.1 == i) with
    | none => (st, diff n ln ["invalid"])
    | some (_, m) =>
      let m' := m.setMax seen
      ({ st with mems := upsert st.mems i m', mlog := .report i seen :: st.mlog, mwrapped := st.mwrapped || seen + 1 == W },
        diff n ln [toString m'.counter] ++ [if m.counter ≤ seen then "COV mem.setmax.raise" else "COV mem.setmax.keep"])
  ------------------------------------------------------------------ etcd
  | "estart" =>
    let i := argN 0; let v := argN 2
    let op : Option Op := match a.getD 1 "" with
      | "next" => some (.next v) | "set" => some (.setMax v) | "new" => some (.new v) | _ => none
    match op with
    | none => (st, diff n ln ["invalid"])
    | some op =>
      let pre := st.es.inst i
      let (es', out) := startW st.es i op
      let model := outToks es' i out
      let st := { st with es := es' }
      if o.getD 0 "" == "invalid" then (st, diff n ln model) else
      -- implementation side: remember the report / the operation in flight
      let st := match op with
        | .setMax seen => { st with elog := .report i seen :: st.elog,
                                    ereps := { inst := i, seen := seen, taken := seen > lookupD st.emax i 0, dropped := false } :: st.ereps }
        | _ => st
      let fl : Flight := { inst := i, op := op }
      let cov := match op, out with
        | .next c, .cont => ["COV etcd.batch"] ++ (if pre.cur + c ≥ W ∨ DefaultEtcdSteps + c ≥ W then ["COV etcd.wrap"] else [])
        | .next c, _ => ["COV etcd.local"] ++ (if pre.cur + c ≥ W then ["COV etcd.wrap"] else [])
        | .setMax _, .cont => ["COV etcd.setmax.taken"]
        | .setMax _, _ => ["COV etcd.setmax.ignored"]
        | .new _, _ => ["COV etcd.start-new"]
      if o.getD 0 "" == "done" then
        let (st, msgs) := judgeEtcdDone st n i fl (o.drop 1)
        (st, diff n ln model ++ msgs ++ cov)
      else ({ st with eflight := fl :: st.eflight.filter (·.inst != i) }, diff n ln model ++ cov)
  | "kv" =>
    let i := argN 0; let fault := a.getD 1 "0" == "1"
    let (es', ev, out) := kvStepW st.es i fault
    let model := (match ev with | some e => kvToks e | none => []) ++ outToks es' i out
    -- implementation side: a successful compare-and-swap to a SMALLER value = the etcd value wrapped
    let implWrap := o.getD 0 "" == "set" && o.getD 3 "" == "ok" && tokNat (o.getD 2 "0") < tokNat (o.getD 1 "0") && o.getD 1 "" != "-"
    let st := { st with es := es', ewrapped := st.ewrapped || implWrap }
    if o.getD 0 "" == "invalid" then (st, diff n ln model) else
    -- implementation side
    let k := if o.getD 0 "" == "get" then 2 else if o.getD 0 "" == "create" then 3 else 4
    let resTok := o.getD (k - 1) ""
    let failedNow := resTok == "err" || resTok == "none" || resTok == "casfail"
    let cov := (if resTok == "casfail" then ["COV etcd.casfail"] else []) ++ (if resTok == "err" then ["COV etcd.fault"] else [])
      ++ (if o.getD 0 "" == "create" then ["COV etcd.create"] else [])
    let fls := st.eflight.map fun f => if f.inst == i then { f with failed := failedNow } else f
    let st := { st with eflight := fls }
    if o.getD k "" == "done" then
      match st.eflight.find? (·.inst == i) with
      | some fl =>
        let (st, msgs) := judgeEtcdDone st n i fl (o.drop (k + 1))
        (st, diff n ln model ++ msgs ++ cov)
      | none => (st, diff n ln model ++ cov)
    else (st, diff n ln model ++ cov)
  ------------------------------------------------------------------ volume ids
  | "vnew" =>
    ({ st with vs := {}, vfly := [], vhbmax := 0 }, diff n ln ["0"] ++ [if st.vids.isEmpty then "COV vid.new" else "COV vid.leader-change"])
  | "vstart" =>
    let t := argN 0
    let (vs', r) := vStart st.vs t
    match r with
    | none => (st, diff n ln ["invalid"])
    | some nx =>
      let serial := st.vserial && st.vfly.isEmpty
      ({ st with vs := vs', vserial := serial, vfly := upsert st.vfly t st.vhbmax },
        diff n ln [toString nx] ++ [if st.vfly.isEmpty then "COV vid.start" else "COV vid.unlocked-start"])
  | "vapply" =>
    let t := argN 0; let fault := a.getD 1 "0" == "1"
    let (vs', r) := vApply st.vs t fault
    match r with
    | none => (st, diff n ln ["invalid"])
    | some res =>
      let model := match res with
        | some id => ["ok", toString id, toString vs'.max]
        | none => ["err", "0", toString vs'.max]
      let hbBefore := lookupD st.vfly t 0
      let st := { st with vs := vs', vfly := st.vfly.filter (·.1 != t) }
      if o.getD 0 "" == "ok" then
        let id := tokNat (o.getD 1 "0")
        let msgs :=
          if !st.vserial then ["COV vid.unlocked-schedule"] else
          (if !vidJudge st.vids id then [specfail n "Topology.NextVolumeId/duplicate-volume-id" s!"volume id {id} returned twice"] else []) ++
          (if id ≤ hbBefore then [specfail n "Topology.NextVolumeId/not-above-reported-max" s!"volume id {id} although {hbBefore} was reported before"] else []) ++
          (if st.vhbmax ≥ id && id > hbBefore then ["COV vid.hb-in-window"] else []) ++ ["COV vid.serial"]
        ({ st with vids := id :: st.vids }, diff n ln model ++ msgs)
      else (st, diff n ln model ++ ["COV vid.fault"])
  | "vhb" =>
    let m := argN 0
    let vs' := vHb st.vs m
    ({ st with vs := vs', vhbmax := if st.vhbmax < m then m else st.vhbmax }, diff n ln [toString vs'.max] ++ ["COV vid.hb"])
  ------------------------------------------------------------------ snowflake (clock based: judged only)
  | "snew" => (st, diff n ln ["ok"])
  | "snext" =>
    let i := argN 0; let count := argN 1
    let id := tokNat (o.getD 0 "0")
    let msgs := match clash st.slog id count with
      | some (.issue _ s c) =>
        if count > 1 || c > 1 then [specfail n "SnowflakeSequencer.NextFileId/count-ignored" s!"[{id},+{count}) overlaps [{s},+{c}): one id is generated whatever the count"]
        else [specfail n "SnowflakeSequencer/duplicate-id" s!"id {id}"]
      | _ => []
    ({ st with slog := .issue i id count :: st.slog }, msgs ++ [if count > 1 then "COV snow.multi" else "COV snow.single"])
  ------------------------------------------------------------------ real goroutines (judged only)
  | "race" =>
    let rs := parseRanges (o.drop 1)
    let msgs := match firstOverlap rs with
      | some r => [specfail n s!"race/{a.getD 0 "?"}-ranges-overlap" s!"range at {r.1} count {r.2} overlaps its successor"]
      | none => []
    (st, msgs ++ (if rs.length != tokNat (o.getD 0 "0") || rs.isEmpty then [s!"DIFF {n} race unparsable output"] else []) ++ [s!"COV race.{a.getD 0 "?"}"])
  ------------------------------------------------------------------ heartbeat on a new leader vs assigns (real goroutines)
  | "hbrace" =>
    -- hbrace <firstVid> <nVols> <maxFileKey> <clients> => <eof|err> <below> <lowest vid:key|-> <grants> <panics>
    let firstVid := argN 0; let nVols := argN 1; let maxKey := argN 2; let clients := argN 3
    if a.length < 4 || nVols < 1 || nVols > 100000 || clients < 1 || clients > 64 || firstVid < 1 then (st, diff n ln ["invalid"]) else
    let hb : Heartbeat := { maxFileKey := maxKey, vols := (List.range nVols).map (· + firstVid) }
    -- model: a new leader (sequencer at 1, nothing writable); the heartbeat's steps in the order of the source
    -- (`hbOrder`, tied to SendHeartbeat by bridge_hb_order); assigns before / between / after them
    let s0 : MSt := { seq := Mem.new }
    let model := ["eof", toString (hbBelow hbOrder hb s0)]
    -- the remaining outputs depend on the schedule: the lowest grant is judged, the counts are reported
    let lowest := parseRanges [o.getD 2 "-"]
    let msgs := match hbBad hb.maxFileKey hb.vols lowest, hbJudge hb.maxFileKey hb.vols lowest with
      | some g, some cls => [specfail n cls s!"volume {g.1} was granted key {g.2} although the heartbeat that made it writable reported keys up to {maxKey} in use ({o.getD 1 "?"} of {o.getD 3 "?"} grants not above it)"]
      | _, _ => []
    let cov := (if tokNat (o.getD 3 "0") > 0 then ["COV hb.race"] else ["COV hb.race.no-grant"])
      ++ (if tokNat (o.getD 4 "0") > 0 then ["COV hb.race.client-panic"] else [])
    (st, diff n { ln with outs := o.take 2 } model ++ msgs ++ cov)
  | _ => (st, [s!"DIFF {n} unknown-op {ln.op}"])

def main : IO Unit := run { init := ({} : St), step := step }
