/- Driver for C33: recompute every harness line with the model (DIFF) and run the judges (SPECFAIL). -/
import SwV.Common.Drv
import SwV.Model.C33
import SwV.Spec.C33
open SwV.Drv SwV.Model.C33 SwV.Spec.C33

structure St where
  codec : Codec := ⟨id, fun _ => none, id, fun _ => none⟩
  out : Option UpOut := none
  orig : Bytes := []
  honest : Bool := true
  /-- every upload since the last reset: the targets of `cfetch` -/
  ups : Array (Codec × Option UpOut × Bytes × Bool) := #[]

def judgeOut (n : Nat) (j : Option String) (detail : String) : List String :=
  match j with
  | none => []
  | some cls => [specfail n cls detail]

/-- the codec of one `up` line: gzip/DecompressData results are oracles of the line, the cipher is a tag byte -/
def lineCodec (data G : Bytes) (inputCompressed unzOk : Bool) (unz : Bytes) : Codec :=
  { gzip := fun _ => G,
    gunzip := fun x => if x == G then some data
                       else if inputCompressed && x == data then (if unzOk then some unz else none) else none,
    enc := fun x => 255 :: x,
    dec := fun x => match x with | 255 :: r => some r | _ => none }

/-- "idx:off:size" -/
def parseRF (t : String) : Nat × Nat × Nat :=
  match t.splitOn ":" with
  | [a, b, c] => (tokNat a, tokNat b, tokNat c)
  | _ => (0, 0, 0)

def digestTok (b : Bytes) : String := s!"{b.length}:{(fnv64 b).toNat}"

def parseDigest (t : String) : Option (Nat × UInt64) :=
  match t.splitOn ":" with
  | [a, b] => some (tokNat a, UInt64.ofNat (tokNat b))
  | _ => none

def step (st : St) (n : Nat) (ln : Line) : St × List String :=
  let a := ln.args
  let o := ln.outs
  match ln.op with
  | "reset" => ({}, [])
  | "up" =>
    let data := tokBytes (a.getD 5 "-")
    let i : UpIn := { name := tokChars (a.getD 0 "-"), mime := tokChars (a.getD 1 "-"), cipher := a.getD 2 "" == "1",
                      inputCompressed := a.getD 3 "" == "1", data := data, detected := tokChars (a.getD 6 "-"),
                      extMime := tokChars (a.getD 7 "-"), gz128 := a.getD 8 "" == "1" }
    let c := lineCodec data (tokBytes (a.getD 9 "-")) i.inputCompressed (a.getD 10 "" == "1") (tokBytes (a.getD 11 "-"))
    let r := upload c i
    let orig := original c i
    let model := ["ok", toString r.size, (if r.gzip then "1" else "0"), (if r.hasKey then "1" else "0"), hexOfChars r.name, hexOfChars r.mime,
                  (if r.stored.compressed then "1" else "0"), hexOfNats r.stored.data]
    -- `Honest`: a caller claiming "already compressed" hands over gzip, or something that does not look like gzip
    let honest := !(i.inputCompressed && isGz data && a.getD 10 "" != "1")
    let j := if o.getD 0 "" == "ok" && honest then judgeOut n (sizeJudge orig (tokNat (o.getD 1 ""))) s!"size={o.getD 1 ""} original={orig.length}" else []
    let (_, gzNow) := decide1 i
    let cov := [if i.cipher then "COV up.cipher" else "COV up.plain",
                if i.inputCompressed then (if isGz data then "COV up.input-compressed" else "COV up.input-compressed-not-gzip")
                else if gzNow && !i.cipher then (if data.length > 16 * 1024 && i.mime.isEmpty && (isCompressable (if i.name.isEmpty then ['.'] else i.name) (decide1 i).1).2 == false then "COV up.gzip-by-sample" else "COV up.gzip-by-type")
                else "COV up.no-gzip"] ++ (if gzNow && i.cipher then ["COV up.cipher-skips-gzip"] else [])
    let ups := st.ups.push (c, (if o.getD 0 "" == "ok" then some r else none), orig, honest)
    ({ codec := c, out := some r, orig := orig, honest := honest, ups := ups }, diff n ln model ++ j ++ cov ++ (if honest then [] else ["COV up.dishonest-gzip-magic"]))
  | "fetch" =>
    match st.out with
    | none => (st, diff n ln ["noupload"])
    | some r =>
      let f : Fetch := if a.getD 0 "" == "full" then .full else .range (tokNat (a.getD 0 "")) (tokNat (a.getD 1 ""))
      let model := match fetch st.codec r f with
        | some b => ["ok", hexOfNats b]
        | none => ["err"]
      let got : Option Bytes := if o.getD 0 "" == "ok" then some (tokBytes (o.getD 1 "-")) else none
      let cov := match f with
        | .full => if r.hasKey then "COV fetch.full-cipher" else if r.stored.compressed then "COV fetch.full-gzip" else "COV fetch.full-plain"
        | .range _ _ => if r.hasKey then "COV fetch.range-cipher" else if r.stored.compressed then "COV fetch.range-gzip" else "COV fetch.range-plain"
      if o == ["panic"] then (st, [specfail n "ReadUrlAsStream/panic-on-malformed-gzip-answer" (toString a), cov]) else
      (st, diff n ln model ++ (if st.honest then judgeOut n (fetchJudge st.orig f got) (toString a) else []) ++ [cov])
  | "cfetch" =>
    let plan : List (Nat × Nat × Nat) := a.flatMap fun t => (t.splitOn ",").filter (· ≠ "") |>.map parseRF
    let model := plan.map fun (idx, off, size) =>
      match st.ups[idx]? with
      | some (c, some r, _, _) =>
        (match fetch c r (.range off size) with
         | some b => digestTok b
         | none => "err")
      | _ => "noupload"
    let js := (plan.zip o).flatMap fun ((idx, off, size), tok) =>
      match st.ups[idx]? with
      | some (_, some _, orig, true) =>
        if tok == "panic" then [specfail n "ReadUrlAsStream/panic-in-concurrent-fetch" s!"blob={idx} off={off} size={size}"]
        else judgeOut n (fetchDigestJudge orig off size (parseDigest tok)) s!"blob={idx} off={off} size={size} got={tok}"
      | _ => []
    (st, diff n ln model ++ js.take 5 ++ ["COV cfetch"])
  | "fuzz" =>
    let x := tokBytes (a.getD 0 "-")
    let d := if isGz x then [] else diff n ln ["unsupported", "1"]
    let j := if o == ["panic"] then [specfail n "ungzipData/panic-on-malformed-gzip" (a.getD 0 "-")] else []
    (st, d ++ j ++ [if isGz x then (if o.getD 0 "" == "ok" then "COV fuzz.gzip-ok" else "COV fuzz.gzip-malformed") else "COV fuzz.not-gzip"])
  | "fuzzmaybe" =>
    let x := tokBytes (a.getD 0 "-")
    let d := if isGz x then [] else diff n ln ["same"]
    let j := if o == ["panic"] then [specfail n "ungzipData/panic-on-malformed-gzip" (a.getD 0 "-")] else []
    (st, d ++ j ++ ["COV fuzzmaybe"])
  | _ => (st, [s!"DIFF {n} unknown-op {ln.op}"])

def main : IO Unit := run { init := ({} : St), step := step }
