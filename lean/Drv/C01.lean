/- Driver for C01: recompute every harness line with the model (DIFF) and run the judge (SPECFAIL). -/
import SwV.Common.Drv
import SwV.Model.C01
import SwV.Spec.C01
import SwV.Model.C01Codec
open SwV.Drv SwV.Model.C01 SwV.Spec.C01

namespace DrvC01
open SwV.Codec.C01

structure St where
  vol : Vol := {}
  kind : String := "mem"
  keys : List Nat := []       -- distinct ids written so far on this volume
  late : List Nat := []       -- ids that were NEW when ≥ 129 larger ids were already there
  reloaded : Bool := false

/-- coverage of the late-key family: operations on an id that was inserted far out of order (the
    in-memory CompactMap keeps such a key in a section's overflow area) -/
def lateCov (s : St) (op : Op) (mo : MOut) : List String :=
  let id := SwV.Spec.C01.opId op
  if !s.late.contains id then [] else
  let k := match op, mo with
    | .delete .., .d (.ok sz) => if 0 < sz then "d.removed" else ""
    | .hdelete .., .hd 202 _ => "d.removed"
    | .read .., .r .deleted => "r.deleted"
    | .read .., .r (.ok ..) => "r.data"
    | .write .., .w (.ok false) => (match s.vol.idx id with | some e => if e.size < 0 then "w.over-deleted" else "" | none => "")
    | _, _ => ""
  if k == "" then [] else
  [s!"COV late.{k}.{s.kind}"] ++ (if s.reloaded then [s!"COV late.{k}.after-reload.{s.kind}"] else [])

def stepLine (s : St) (n : Nat) (ln : Line) : St × List String :=
  match ln.op with
  | "reset" =>
    let ttl := ttlOfTok (ln.args.getD 1 "-")
    ({ vol := Vol.init ttl, kind := ln.args.getD 0 "mem", keys := [], late := [], reloaded := false }, diff n ln ["ok"] ++ [s!"COV reset.{ln.args.getD 0 "mem"}"] ++ (if ttl ≠ (0, 0) then ["COV reset.ttl-volume"] else []))
  | "stop" => (s, diff n ln ["ok"] ++ ["COV stop"])
  | "sorted" => ({ s with vol := reopenSorted s.vol, kind := "sorted" }, diff n ln ["ok"] ++ ["COV reset.sorted"])
  | "reload" =>
    -- a volume reopened as sorted stays sorted (.dat still not writable)
    ({ s with vol := if s.kind == "sorted" then reopenSorted s.vol else c01Reload s.kind s.vol, reloaded := true },
     diff n ln ["ok"] ++ [s!"COV reload.{s.kind}"])
  | _ =>
    match opOfLine ln with
    | none => (s, [s!"DIFF {n} unknown-op {ln.op}"])
    | some op =>
      let (vol', mo) := step s.vol op
      let io := mOfToks op ln.outs
      let j := match judge s.vol op io with
        | none => []
        | some cls => [specfail n cls (ln.op ++ " " ++ String.intercalate " " (ln.args.take 2))]
      let cov := covOf s.vol op mo ++ (if ln.op == "wf" then ["COV wf.batched-path"] else [])
      let newLate := match op, mo with
        | .write id _ _, .w (.ok false) =>
          (s.vol.idx id).isNone && !s.keys.contains id && decide (129 ≤ s.keys.countP (id < ·))
        | _, _ => false
      let s1 := match op, mo with
        | .write id _ _, .w (.ok false) =>
          if s.keys.contains id then s else { s with keys := id :: s.keys, late := if newLate then id :: s.late else s.late }
        | _, _ => s
      ({ s1 with vol := vol' }, diff n ln (mToks mo) ++ j ++ cov ++ (if s.kind == "sorted" then cov.map (· ++ "@sorted") else [])
        ++ (if newLate then [s!"COV late.w.new.{s.kind}"] else []) ++ lateCov s op mo)

end DrvC01

def main : IO Unit := run { init := ({} : DrvC01.St), step := DrvC01.stepLine }
