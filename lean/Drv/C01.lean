/- Driver for C01: recompute every harness line with the model (DIFF) and run the judge (SPECFAIL). -/
import SwV.Common.Drv
import SwV.Model.C01
import SwV.Spec.C01
import SwV.Model.C01Codec
open SwV.Drv SwV.Model.C01 SwV.Spec.C01

namespace DrvC01
open SwV.Codec.C01

structure St where
  vol : Vol := {}
  kind : String := "mem"

def stepLine (s : St) (n : Nat) (ln : Line) : St × List String :=
  match ln.op with
  | "reset" =>
    let ttl := ttlOfTok (ln.args.getD 1 "-")
    ({ vol := Vol.init ttl, kind := ln.args.getD 0 "mem" }, diff n ln ["ok"] ++ [s!"COV reset.{ln.args.getD 0 "mem"}"] ++ (if ttl ≠ (0, 0) then ["COV reset.ttl-volume"] else []))
  | "stop" => (s, diff n ln ["ok"] ++ ["COV stop"])
  | "sorted" => ({ vol := reopenSorted s.vol, kind := "sorted" }, diff n ln ["ok"] ++ ["COV reset.sorted"])
  | _ =>
    match opOfLine ln with
    | none => (s, [s!"DIFF {n} unknown-op {ln.op}"])
    | some op =>
      let (vol', mo) := step s.vol op
      let io := mOfToks op ln.outs
      let j := match judge s.vol op io with
        | none => []
        | some cls => [specfail n cls (ln.op ++ " " ++ String.intercalate " " (ln.args.take 2))]
      let cov := covOf s.vol op mo ++ (if ln.op == "wf" then ["COV wf.batched-path"] else [])
      ({ s with vol := vol' }, diff n ln (mToks mo) ++ j ++ cov ++ (if s.kind == "sorted" then cov.map (· ++ "@sorted") else []))

end DrvC01

def main : IO Unit := run { init := ({} : DrvC01.St), step := DrvC01.stepLine }
