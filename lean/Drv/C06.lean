/- Driver for C06: recompute every harness line with the model (DIFF), run the judges (SPECFAIL). -/
import SwV.Common.Drv
import SwV.Model.C06
import SwV.Model.C06RS
import SwV.Spec.C06
import SwV.Gen.C06
open SwV.Drv SwV.Model.C06 SwV.Spec.C06

/-- constants and operators regenerated from the source -/
def genK : Nat := SwV.Gen.C06.DataShardsCount.toNat
def genM : Nat := SwV.Gen.C06.ParityShardsCount.toNat
def genL : Nat := SwV.Gen.C06.ErasureCodingLargeBlockSize.toNat
def genS : Nat := SwV.Gen.C06.ErasureCodingSmallBlockSize.toNat
def encStrict : Bool := (guardStrictOfText SwV.Gen.C06.encLargeLoopCond).getD true
def decStrict : Bool := (guardStrictOfText SwV.Gen.C06.decLargeLoopCond).getD true

structure St where
  k : Nat := 10
  m : Nat := 4
  mat : List (List Nat) := []
  L : Nat := 1
  S : Nat := 1
  buf : Nat := 1
  D : List Nat := []
  implShards : List (List Nat) := []
  modelShards : List (List Nat) := []
  -- real-size case
  bigN : Nat := 0
  bigLen : Nat := 0
  -- multi-chunk rebuild case
  midLen : Nat := 0        -- shard length by the model's encoder loops
  midImplLen : Nat := 0    -- shard length the implementation reported

def chunks (w : Nat) : Nat → List Nat → List (List Nat)
  | 0, _ => []
  | r + 1, xs => xs.take w :: chunks w r (xs.drop w)

def bitsOf (mask n : Nat) : List Bool := (List.range n).map fun i => (mask / 2 ^ i) % 2 = 1

def fmtIv (k L S : Nat) (iv : Interval) : String :=
  let so := toShardIdAndOffset k L S iv
  s!"{iv.blockIndex}:{iv.inner}:{iv.size}:{if iv.isLarge then "1" else "0"}:{iv.largeRows}:{so.1}:{so.2}"

def judgeOut (n : Nat) (j : Option String) (detail : String) : List String :=
  match j with
  | none => []
  | some cls => [specfail n cls detail]

def ivCov (ivs : List Interval) : List String :=
  let anyL := ivs.any (·.isLarge)
  let anyS := ivs.any (fun iv => !iv.isLarge)
  (if anyL && anyS then ["COV rd.large-to-small"] else if anyL then ["COV rd.large"] else if anyS then ["COV rd.small"] else ["COV rd.empty"])
  ++ (if ivs.length > 1 then ["COV rd.multi-interval"] else [])

/-- does the located run address the bytes the layout says (position level, for the real-size case)? -/
def runsAgree (k L S nL len off : Nat) (ivs : List Interval) : Bool :=
  let rec go (cur : Nat) : List Interval → Bool
    | [] => true
    | iv :: rest =>
      let so := toShardIdAndOffset k L S iv
      so.2 + iv.size ≤ len && so.1 < k &&
      (List.range iv.size).all (fun t => srcPos k L S nL so.1 (so.2 + t) == cur + t) && go (cur + iv.size) rest
  go off ivs

def step (st : St) (n : Nat) (ln : Line) : St × List String :=
  let a := ln.args
  let o := ln.outs
  match ln.op with
  | "config" =>
    let k := tokNat (a.getD 0 "10"); let m := tokNat (a.getD 1 "4")
    let mat := chunks k m (tokBytes (o.getD 0 "-"))
    -- T1: the harness runs with the same shard counts the extractor sees
    let d := if k == genK && m == genM then [] else [s!"DIFF {n} config k/m differ from the extracted constants"]
    -- the encoding matrix recovered from the REAL library is the matrix the MDS theorems (Props: rs_mds,
    -- rs_codec_mds, ec_rebuild_concrete) are about
    let d2 := if k == 10 && m == 4 then
        (if mat == rsParity then ["COV config.rs-matrix"] else [s!"DIFF {n} config the library's parity matrix differs from rsParity (SwV/Model/C06RS.lean)"])
      else []
    ({ st with k := k, m := m, mat := mat }, d ++ d2 ++ ["COV config"])
  | "reset" =>
    let L := tokNat (a.getD 0 ""); let S := tokNat (a.getD 1 ""); let buf := tokNat (a.getD 2 "")
    let D := tokBytes (a.getD 3 "-")
    let cfg : EncCfg := { k := st.k, L := L, S := S, buf := buf, strict := encStrict }
    let shards := encode cfg (gfCodec st.k st.mat none) st.m D
    let model := ["ok", toString (shards.headD []).length] ++ shards.map hexOfNats
    let impl := (o.drop 2).map tokBytes
    -- the closed-form layout of the Spec must describe the implementation's data shards too
    let lay := layout st.k L S encStrict D
    let ld := if o.getD 0 "" == "ok" && impl.take st.k != lay then [s!"DIFF {n} reset layout(spec) differs from the implementation's data shards L={L} S={S} n={D.length}"] else []
    let nn := D.length
    let cov := (if nn = 0 then ["COV enc.empty"] else
        (if nLargeRows st.k L encStrict nn > 0 then ["COV enc.large-rows"] else ["COV enc.small-only"]) ++
        (if nn % (st.k * L) = 0 then ["COV enc.exact-large-multiple"] else []) ++
        (if nn % (st.k * S) = 0 then ["COV enc.exact-small-multiple"] else ["COV enc.padded"]) ++
        (if rowCountAmbiguous st.k L S encStrict nn then ["COV enc.row-count-ambiguous"] else ["COV enc.row-count-determined"]))
    ({ st with L := L, S := S, buf := buf, D := D, implShards := impl, modelShards := shards }, diff n ln model ++ ld ++ cov)
  | "rd" =>
    let off := tokNat (a.getD 0 ""); let size := tokNat (a.getD 1 "")
    let shardSize := (st.modelShards.headD []).length
    let ivs := locateData st.k st.L st.S (st.k * shardSize) off size
    let r := readIntervals st.k st.L st.S st.modelShards ivs
    let model := (match r with
      | some d => ["ok", hexOfNats d]
      | none => ["err", "-"]) ++ ivs.map (fmtIv st.k st.L st.S)
    let implOk := o.getD 0 "" == "ok"
    let j := readJudge st.k st.L st.S encStrict st.D off size implOk (tokBytes (o.getD 1 "-"))
    -- T1: the Go→Lean TRANSLATIONS of locateOffset / ToShardIdAndOffset agree with the hand model
    let mo := locateOffset st.k st.L st.S (st.k * shardSize) off
    let g := SwV.Gen.C06.locateOffset st.L st.S (st.k * shardSize) off
    let gd1 := if g == ((mo.1 : Int), mo.2.1, (mo.2.2 : Int)) then [] else [s!"DIFF {n} rd(gen locateOffset) gen differs from model off={off}"]
    let gd2 := if ivs.all (fun iv =>
        let so := toShardIdAndOffset st.k st.L st.S iv
        SwV.Gen.C06.Interval_ToShardIdAndOffset iv.blockIndex iv.inner iv.size iv.isLarge iv.largeRows st.L st.S == ((so.1 : Int), (so.2 : Int)))
      then [] else [s!"DIFF {n} rd(gen ToShardIdAndOffset) gen differs from model off={off} size={size}"]
    (st, gd1 ++ gd2 ++ diff n ln model ++ judgeOut n j s!"L={st.L} S={st.S} n={st.D.length} off={off} size={size}" ++ ivCov ivs
      ++ [if r.isSome then "COV rd.ok" else "COV rd.err"])
  | "rebuild" =>
    let mask := tokNat (a.getD 0 "")
    let tot := st.k + st.m
    let presentMask := (bitsOf mask tot).map (!·)
    let lost := (List.range tot).filter fun i => !(presentMask.getD i true)
    let present := (st.modelShards.zip presentMask).map fun sp => if sp.2 then some sp.1 else none
    let dm := decodeMatrix st.k st.mat presentMask
    -- the Gauss–Jordan decoding matrix used here (and compared with Reconstruct through `model`) is the
    -- kernel-checked certificate the theorem `rs_codec_mds` is about
    let cd := if st.k == 10 && st.m == 4 && lost.length ≤ 4 then
        (if dm == certDM presentMask then ["COV rebuild.cert-matrix"] else [s!"DIFF {n} rebuild decodeMatrix differs from the certified matrix lostmask={mask}"])
      else []
    let r := rebuild (gfCodec st.k st.mat dm) genS present
    let model := match r with
      | some all => "ok" :: lost.map fun i => hexOfNats (all.getD i [])
      | none => ["err"]
    let implOk := o.getD 0 "" == "ok"
    let j := rebuildJudge st.m st.implShards lost implOk ((o.drop 1).map tokBytes)
    (st, diff n ln model ++ cd ++ judgeOut n j s!"L={st.L} S={st.S} n={st.D.length} lostmask={mask}"
      ++ [if lost.length ≤ st.m then s!"COV rebuild.lost{lost.length}" else "COV rebuild.too-many-lost"]
      ++ [if r.isSome then "COV rebuild.ok" else "COV rebuild.err"])
  | "decseg" =>
    let nn := tokNat (a.getD 0 "")
    let segs := decodeSegs genK genL genS decStrict nn
    let model := "ok" :: segs.map fun s => s!"{s.1}:{s.2.1}:{s.2.2}"
    (st, diff n ln model ++ [if segs.length > genK then "COV decseg.multi-row" else "COV decseg.one-row"])
  | "decrt" | "decbig" =>
    let nn := if ln.op == "decrt" then tokNat (a.getD 0 "") else st.bigN
    -- model: the round trip is exact iff encoder and decoder agree on the number of large rows
    let cfg : EncCfg := { k := genK, L := genL, S := genS, buf := 1, strict := encStrict }
    let encRowsL := (encLargeLoop cfg nn nn 0).1.length
    let decRowsL := (decLargeLoop genK genL decStrict nn 0 nn).2.1 / genL
    let model := ["ok", if encRowsL == decRowsL then "1" else "0"]
    let j := decodeJudge genK genL nn (o.getD 0 "" == "ok") (o.getD 1 "" == "1")
    (st, diff n ln model ++ judgeOut n j s!"n={nn}" ++ [if encRowsL == decRowsL then "COV dec.roundtrip-exact" else "COV dec.roundtrip-broken"])
  | "resetbig" =>
    let nn := tokNat (a.getD 0 "")
    if o.getD 0 "" == "skip" then (st, ["COV big.skipped"]) else
    let len := shardLen genK genL genS encStrict nn
    let cfg : EncCfg := { k := genK, L := genL, S := genS, buf := 1, strict := encStrict }
    -- shard length by the model's loops (not the closed form)
    let rows := encRows cfg nn
    let mlen := rows.foldl (fun acc r => acc + r.2) 0
    let d := if mlen == len then [] else [s!"DIFF {n} resetbig loop/closed-form shard length differ {mlen} {len}"]
    ({ st with bigN := nn, bigLen := mlen }, diff n ln ["ok", toString mlen] ++ d ++ ["COV big.encoded"])
  | "rdbig" =>
    let off := tokNat (a.getD 0 ""); let size := tokNat (a.getD 1 "")
    let ivs := locateData genK genL genS (genK * st.bigLen) off size
    let nL := nLargeRows genK genL encStrict st.bigN
    let okRange := ivs.all fun iv => (toShardIdAndOffset genK genL genS iv).2 + iv.size ≤ st.bigLen
    let agree := runsAgree genK genL genS nL st.bigLen off ivs
    let model := (if okRange then ["ok", if agree then "1" else "0"] else ["err", "0"]) ++ ivs.map (fmtIv genK genL genS)
    let good := o.getD 0 "" == "ok" && o.getD 1 "" == "1"
    let j := if good then none
      else if rowCountAmbiguous genK genL genS encStrict st.bigN then some "LocateEcShardNeedle/large-row-count-from-shard-size"
      else some "ecread/wrong-bytes"
    (st, diff n ln model ++ judgeOut n j s!"L={genL} S={genS} n={st.bigN} off={off} size={size}" ++ ["COV big.read"])
  | "resetmid" =>
    let L := tokNat (a.getD 0 ""); let S := tokNat (a.getD 1 ""); let buf := tokNat (a.getD 2 ""); let nn := tokNat (a.getD 3 "")
    let cfg : EncCfg := { k := st.k, L := L, S := S, buf := buf, strict := encStrict }
    let mlen := (encRows cfg nn).foldl (fun acc r => acc + r.2) 0
    let len := shardLen st.k L S encStrict nn
    let d := if mlen == len then [] else [s!"DIFF {n} resetmid loop/closed-form shard length differ {mlen} {len}"]
    ({ st with L := L, S := S, buf := buf, midLen := mlen, midImplLen := tokNat (o.getD 1 "") },
      diff n ln ["ok", toString mlen] ++ d ++ [if mlen > genS then "COV mid.shard-above-chunk" else "COV mid.shard-within-chunk"])
  | "rebuildmid" =>
    let mask := tokNat (a.getD 0 "")
    let tot := st.k + st.m
    let presentMask := (bitsOf mask tot).map (!·)
    let lost := (List.range tot).filter fun i => !(presentMask.getD i true)
    let lens := presentMask.map fun p => if p then some st.midLen else none
    -- the loop on lengths; every chunk's content is Reconstruct's, i.e. the original (ec_rebuild_concrete)
    let r := rebuildLen st.k genS lens
    let nChunks := fun (len : Nat) => (len + genS - 1) / genS
    let model := match r with
      | some w => "ok" :: lost.map fun _ => s!"{w}:{if nChunks st.midLen = 0 then "-" else String.ofList (List.replicate (nChunks st.midLen) (if w == st.midLen then '1' else '0'))}"
      | none => ["err"]
    let implOk := o.getD 0 "" == "ok"
    let regen := (o.drop 1).map fun t =>
      match t.splitOn ":" with
      | [l, f] => (tokNat l, f.toList.filter (· != '-') |>.map (· == '1'))
      | _ => (0, [])
    let j := rebuildChunksJudge st.m genS st.midImplLen lost implOk regen
    (st, diff n ln model ++ judgeOut n j s!"L={st.L} S={st.S} shardLen={st.midImplLen} lostmask={mask}"
      ++ [if lost.length ≤ st.m then (if nChunks st.midLen > 1 then "COV rebuildmid.multi-chunk" else "COV rebuildmid.one-chunk") else "COV rebuildmid.too-many-lost"]
      ++ [if r.isSome then "COV rebuildmid.ok" else "COV rebuildmid.err"])
  | _ => (st, [s!"DIFF {n} unknown-op {ln.op}"])

def main : IO Unit := run { init := ({} : St), step := step }
