/- Driver for C14: recompute each vacuum round with the model (DIFF), judge the implementation's
   RPC log and writable flag (SPECFAIL). -/
import SwV.Common.Drv
import SwV.Model.C14
import SwV.Spec.C14
open SwV.Drv SwV.Model.C14 SwV.Spec.C14

def parseRep (s : String) : Option Rep :=
  match s.toList with
  | [ro, ov, k, c, m, l] =>
    let chk : Option Chk := match k with | 'o' => some .ok | 'l' => some .low | 'e' => some .err | 't' => some .timeout | _ => none
    let cmp : Option Cmp := match c with | 'o' => some .ok | 'e' => some .err | 't' => some .timeout | _ => none
    let cmt : Option Cmt := match m with | 'o' => some .ok | 'r' => some .ro | 'e' => some .err | _ => none
    match chk, cmp, cmt with
    | some chk, some cmp, some cmt =>
      if (ro == '0' || ro == '1') && (ov == '0' || ov == '1') && (l == 'o' || l == 'e') then
        some { ro := ro == '1', ov := ov == '1', chk := chk, cmp := cmp, cmt := cmt, cleanupOk := l == 'o' }
      else none
    | _, _, _ => none
  | _ => none

def rpcChar : Rpc → Char
  | .check => 'K' | .compact => 'C' | .commit => 'M' | .cleanup => 'L'
def rpcStr (rs : List Rpc) : String := if rs.isEmpty then "-" else String.ofList (rs.map rpcChar)
def parseRpcs (s : String) : List Rpc :=
  s.toList.filterMap fun c => match c with
    | 'K' => some .check | 'C' => some .compact | 'M' => some .commit | 'L' => some .cleanup | _ => none

def b01 (b : Bool) : String := if b then "1" else "0"

def step (st : Unit) (n : Nat) (ln : Line) : Unit × List String :=
  let a := ln.args
  let o := ln.outs
  match ln.op with
  | "round" =>
    let cc := tokNat (a.getD 0 "0")
    let reps := (a.drop 1).map parseRep
    if cc < 1 || cc > 3 || reps.isEmpty || reps.length > 3 || reps.any (·.isNone) then (st, diff n ln ["invalid"]) else
    let reps := reps.filterMap id
    let l : Layout := { copyCount := cc, reps := reps }
    let model := [b01 l.writableBefore] ++ reps.map (fun r => rpcStr (rpcs l r)) ++ [b01 (writableAfter l), "1"]
    -- judges over the implementation's outputs
    let k := reps.length
    let wB := o.getD 0 "" == "1"
    let wA := o.getD (k + 1) "" == "1"
    let os : List ObsRep := (reps.zip ((o.drop 1).take k)).map fun (r, s) => { rep := r, got := parseRpcs s }
    let j1 := match commitJudge os with | some c => [specfail n c (String.intercalate " " a)] | none => []
    let j2 := match writableJudge wB wA os with | some c => [specfail n c (String.intercalate " " a)] | none => []
    let cov :=
      (if l.readOnly then ["COV round.readonly-skipped"] else
       if !needVacuum l then
         (if reps.any (·.chk == .timeout) then ["COV check.timeout"] else if reps.any (·.chk == .err) then ["COV check.error"] else ["COV check.below-threshold"])
       else
         (if (vacuumList l).length < reps.length then ["COV check.subset"] else []) ++
         (if !compactOk l then [if (vacuumList l).any (·.cmp == .timeout) then "COV compact.timeout" else "COV compact.error", "COV cleanup"]
          else if !commitOk l then ["COV commit.error"]
          else if commitSaysReadOnly l then ["COV commit.readonly"] else ["COV commit.ok"])) ++
      [s!"COV replicas.{k}"] ++ (if l.writableBefore then [] else ["COV layout.not-writable-before"]) ++
      (if l.oversized then ["COV layout.oversized"] else []) ++ (if !l.enough then ["COV layout.copies-mismatch"] else [])
    (st, diff n ln model ++ j1 ++ j2 ++ cov)
  | _ => (st, [s!"DIFF {n} unknown-op {ln.op}"])

def main : IO Unit := run { init := (), step := step }
