/- Driver for C34: recompute every harness line with the model (DIFF) and run the judge (SPECFAIL). -/
import SwV.Common.Drv
import SwV.Model.C34
import SwV.Spec.C34
open SwV.Drv SwV.Model.C34 SwV.Spec.C34

structure St where
  cfg : Cfg := ⟨[], []⟩

def step (st : St) (n : Nat) (ln : Line) : St × List String :=
  let a := ln.args
  let o := ln.outs
  match ln.op with
  | "reset" => ({ cfg := ⟨tokChars (a.getD 0 "-"), tokChars (a.getD 1 "-")⟩ }, diff n ln ["ok"])
  | "req" =>
    let method := a.getD 0 ""
    let path := tokChars (a.getD 1 "-")
    let qjwt := tokChars (a.getD 2 "-")
    let auth := tokChars (a.getD 3 "-")
    let b (i : Nat) : Bool := a.getD i "" == "1"
    let t : Tok := { str := tokChars (a.getD 4 "-"), wellFormed := b 5, alg := a.getD 6 "-", signKey := tokChars (a.getD 7 "-"),
                     sigOk := b 8, expOk := b 9, nbfOk := b 10, iatOk := b 11, fid := tokChars (a.getD 12 "-") }
    let (vid, fid) := parseURLPath path
    let v := check st.cfg method vid fid (getJwt qjwt auth) t
    -- the model's store: one bit "changed"
    let r := handle st.cfg method path qjwt auth t (fun _ => true) false
    let model := if r.status401 then ["401", "0"] else ["pass", if r.store then "1" else "0"]
    let passed := o.getD 0 "" == "pass"
    let changed := o.getD 1 "" == "1"
    let j := match authJudge st.cfg method path qjwt auth t passed changed with
      | none => []
      | some cls => [specfail n cls s!"{method} {a.getD 1 "-"}"]
    let vname := match v with
      | .noKey => "noKey" | .missing => "missing" | .malformed => "malformed" | .wrongMethod => "wrongMethod"
      | .badSignature => "badSignature" | .timeInvalid => "timeInvalid" | .fidMismatch => "fidMismatch" | .ok => "ok"
    let cov := [s!"COV verdict.{vname}", if isWrite method then s!"COV write.{vname}" else s!"COV read.{vname}"] ++
      (if v == .ok && fid ≠ stripDelta fid then ["COV ok.sub-file-suffix"] else []) ++
      (if o.length == 2 && (o.getD 0 "" == "pass" || o.getD 0 "" == "401") then [] else [s!"DIFF {n} req unreadable answer {o}"])
    (st, diff n ln model ++ j ++ cov)
  | _ => (st, [s!"DIFF {n} unknown-op {ln.op}"])

def main : IO Unit := run { init := ({} : St), step := step }
