/- Driver for C32: recompute every harness line with the model (DIFF) and run the judges (SPECFAIL). -/
import SwV.Common.Drv
import SwV.Model.C32
import SwV.Spec.C32
open SwV.Drv SwV.Model.C32 SwV.Spec.C32

structure St where
  blob : Blob := ⟨false, [], []⟩

def judgeOut (n : Nat) (j : Option String) (detail : String) : List String :=
  match j with
  | none => []
  | some cls => [specfail n cls detail]

/-- optional '-' then digits; returns the value and the rest -/
def takeInt (cs : List Char) : Option (Int × List Char) :=
  let (neg, r) := match cs with
    | '-' :: r => (true, r)
    | r => (false, r)
  let ds := r.takeWhile isDigit
  match digitsVal ds with
  | none => none
  | some v => some ((if neg then -(v : Int) else (v : Int)), r.drop ds.length)

/-- "bytes s-e/N" → the range -/
def parseContentRange (cs : List Char) : Option Rg :=
  if !("bytes ".toList.isPrefixOf cs) then none else
  match takeInt (cs.drop 6) with
  | none => none
  | some (s, r1) =>
    match r1 with
    | '-' :: r2 =>
      match takeInt r2 with
      | none => none
      | some (e, _) => some ⟨s, e - s + 1⟩
    | _ => none

def crHex (r : Rg) (size : Int) : String := hexOfStr (contentRange r size)

def partsOfOuts : List String → List (Rg × List Nat)
  | cr :: body :: rest =>
    (((parseContentRange (tokChars cr)).getD ⟨0, 0⟩), tokBytes body) :: partsOfOuts rest
  | _ => []

/-- the implementation's answer as a `Response` -/
def implResponse (o : List String) : Option Response :=
  match o with
  | ["416", "e"] => some .unsat
  | "200" :: _ :: _ :: _ :: "b" :: body :: _ => some (.full (tokBytes body))
  | "206" :: _ :: _ :: cr :: "b" :: body :: _ =>
    (parseContentRange (tokChars cr)).map fun g => .single g (tokBytes body)
  | "206" :: _ :: _ :: _ :: "m" :: _ :: parts => some (.multi (partsOfOuts parts))
  | _ => none

def step (st : St) (n : Nat) (ln : Line) : St × List String :=
  let a := ln.args
  let o := ln.outs
  match ln.op with
  | "parse" =>
    let h := tokChars (a.getD 0 "-")
    let size := tokInt (a.getD 1 "0")
    let model := match parseRange h size with
      | none => ["err"]
      | some rs => ["ok", toString (sumRangesSize rs)] ++ rs.map fun r => s!"{r.start}:{r.length}"
    let skipped := match parseRangeD h size with
      | some (_, no) => no
      | none => false
    let cov := match parseRange h size with
      | none => if skipped then "COV parse.no-overlap" else "COV parse.err"
      | some rs => if skipped then "COV parse.skipped"
                   else if rs.length > 1 then "COV parse.multi" else "COV parse.ok"
    (st, diff n ln model ++ [cov])
  | "reset" => ({}, [])
  | "put" =>
    let b : Blob := ⟨a.getD 0 "0" == "1", tokBytes (a.getD 3 "-"), tokBytes (a.getD 4 "-")⟩
    ({ blob := b }, diff n ln ["ok"] ++ [if b.compressed then (if isGzMagic b.stored then "COV put.gzip-at-rest" else "COV put.flagged-not-gzip") else "COV put.plain"])
  | "get" =>
    let ae := tokChars (a.getD 0 "-")
    let h := tokChars (a.getD 1 "-")
    let (R, gz) := represent st.blob ae
    let ce := if gz then hexOfStr "gzip" else "-"
    let N : Int := R.length
    let resp := respond h R
    let model := match resp with
      | .full b => ["200", toString N, ce, "-", "b", hexOfNats b]
      | .unsat => ["416", "e"]
      | .single r b => ["206", (if r.length < 0 then "-" else toString r.length), ce, crHex r N, "b", hexOfNats b]
      | .multi ps => ["206", "mp", ce, "-", "m", toString ps.length] ++
          ps.flatMap fun p => [crHex p.1 N, hexOfNats p.2]
    let cov := match resp with
      | .full _ => if h.isEmpty then "COV get.no-range" else "COV get.range-ignored"
      | .unsat => "COV get.416"
      | .single _ _ => "COV get.single"
      | .multi _ => "COV get.multipart"
    -- judges over the implementation's answer; the representation is decided by the Content-Encoding it announced
    let igz := o.getD 2 "-" == hexOfStr "gzip"
    let iR := if igz then st.blob.stored else st.blob.plain
    let j1 := match implResponse o with
      | some .unsat =>
        -- a 416 announces no Content-Encoding, so the representation the server ranged over is not observable: the 416 has to
        -- be right for the decompressed bytes or — only for a client that accepts gzip — for the stored gzip bytes
        let jp := rangeJudge h st.blob.plain .unsat
        let js := if st.blob.compressed && clientAcceptsGzip ae then rangeJudge h st.blob.stored .unsat else jp
        judgeOut n (if jp.isNone then none else js) s!"range={a.getD 1 "-"} size={st.blob.plain.length} stored={st.blob.stored.length}"
      | some r => judgeOut n (rangeJudge h iR r) s!"range={a.getD 1 "-"} size={iR.length}"
      | none => if o.getD 0 "" == "200" ∨ o.getD 0 "" == "206" ∨ o.getD 0 "" == "416" then [specfail n "get/unreadable-answer" (toString o)] else []
    let j2 := if o.getD 0 "" == "200" ∨ o.getD 0 "" == "206" then judgeOut n (encodingJudge ae igz) s!"accept-encoding={a.getD 0 "-"}" else []
    let j3 := if o.getD 0 "" == "200" ∨ o.getD 0 "" == "206" then judgeOut n (framingJudge (o.getD 1 "-")) s!"range={a.getD 1 "-"} size={iR.length}" else []
    (st, diff n ln model ++ j1 ++ j2 ++ j3 ++ [cov] ++ (if gz then ["COV get.gzip-encoded"] else []) ++
      (if st.blob.compressed && !gz then ["COV get.decompressed-for-client"] else []) ++
      (if st.blob.compressed && isGzMagic st.blob.stored && containsSub gzipWord ae && !gz then ["COV get.gzip-refused"] else []))
  | _ => (st, [s!"DIFF {n} unknown-op {ln.op}"])

def main : IO Unit := run { init := ({} : St), step := step }
